/-
  C12 — lemmas for the whole-trace theorem: the relation between the specification's ghost history and the
  model node, and the pure list facts behind the replay clauses.
-/
import IcingaProofs.C12.Lemmas
import IcingaModel.C12.Trace

namespace Icinga.C12
open Icinga.C20

/-! ## sorting a sorted list -/

theorem sortByName_sorted : ∀ (l : List LFile), l.Pairwise (fun a b => a.name < b.name) → sortByName l = l := by
  intro l
  induction l with
  | nil => intro _; rfl
  | cons f r ih =>
    intro h
    have h' := List.pairwise_cons.mp h
    simp only [sortByName, ih h'.2]
    cases r with
    | nil => rfl
    | cons g r' =>
      have := h'.1 g (by simp)
      simp only [insertByName]
      rw [if_pos (by omega)]

theorem sortGF_sorted : ∀ (l : List GFile), l.Pairwise (fun a b => a.name < b.name) → sortGF l = l := by
  intro l
  induction l with
  | nil => intro _; rfl
  | cons f r ih =>
    intro h
    have h' := List.pairwise_cons.mp h
    simp only [sortGF, ih h'.2]
    cases r with
    | nil => rfl
    | cons g r' =>
      have := h'.1 g (by simp)
      simp only [insertGF]
      rw [if_pos (by omega)]

/-! ## finding delivered events in the ghost order -/

def gkey (g : GEntry) : Nat × Int := (g.e.id, g.e.ts)

theorem findIdx_cons_ne (g : GEntry) (G : List GEntry) (id : Nat) (ts : Int) (h : g.e.ts ≠ ts) :
    findIdx (g :: G) id ts = (findIdx G id ts).map (· + 1) := by
  simp only [findIdx, List.findIdx?_cons]
  have : (g.e.id == id && g.e.ts == ts) = false := by simp [h]
  simp [this]

theorem findIdx_cons_eq (g : GEntry) (G : List GEntry) : findIdx (g :: G) g.e.id g.e.ts = some 0 := by
  simp [findIdx, List.findIdx?_cons]

theorem strictlyIncreasing_map_succ : ∀ (I : List Nat), strictlyIncreasing I = true →
    strictlyIncreasing (I.map (· + 1)) = true := by
  intro I
  induction I with
  | nil => intro _; rfl
  | cons a r ih =>
    intro h
    cases r with
    | nil => rfl
    | cons b r' =>
      simp only [strictlyIncreasing, Bool.and_eq_true, decide_eq_true_eq] at h
      simp only [List.map_cons, strictlyIncreasing, Bool.and_eq_true, decide_eq_true_eq]
      exact ⟨by omega, by simpa using ih h.2⟩

theorem strictlyIncreasing_zero_succ (I : List Nat) (h : strictlyIncreasing (I.map (· + 1)) = true) :
    strictlyIncreasing (0 :: I.map (· + 1)) = true := by
  cases I with
  | nil => rfl
  | cons a r =>
    simp only [List.map_cons, strictlyIncreasing, Bool.and_eq_true, decide_eq_true_eq] at h ⊢
    exact ⟨by omega, h⟩

/-- In a ghost order with strictly increasing timestamps, the events selected by any filter `w` are found,
    each at its own index, in strictly increasing index order. -/
theorem filter_indices (w : GEntry → Bool) : ∀ (G : List GEntry), G.Pairwise (fun a b => a.e.ts < b.e.ts) →
    ∃ I : List Nat, (G.filter w).map (fun g => findIdx G g.e.id g.e.ts) = I.map some ∧
      strictlyIncreasing I = true ∧ I.filterMap (fun i => G[i]?) = G.filter w := by
  intro G
  induction G with
  | nil => intro _; exact ⟨[], rfl, rfl, rfl⟩
  | cons g G' ih =>
    intro hp
    have hp' := List.pairwise_cons.mp hp
    obtain ⟨I, h1, h2, h3⟩ := ih hp'.2
    have hshift' : (G'.filter w).map (fun x => findIdx (g :: G') x.e.id x.e.ts) = (I.map (· + 1)).map some := by
      have : ∀ x ∈ G'.filter w, findIdx (g :: G') x.e.id x.e.ts = (findIdx G' x.e.id x.e.ts).map (· + 1) := by
        intro x hx
        have := hp'.1 x (List.mem_filter.mp hx).1
        exact findIdx_cons_ne g G' _ _ (by omega)
      rw [List.map_congr_left this]
      have h1' := congrArg (List.map (Option.map (· + 1))) h1
      simpa [List.map_map, Function.comp_def] using h1'
    have hlook : (I.map (· + 1)).filterMap (fun i => (g :: G')[i]?) = G'.filter w := by
      rw [List.filterMap_map]
      simpa [Function.comp_def] using h3
    cases hw : w g with
    | false =>
      refine ⟨I.map (· + 1), ?_, strictlyIncreasing_map_succ I h2, ?_⟩
      · simp only [List.filter_cons, hw, Bool.false_eq_true, if_false]; exact hshift'
      · simp only [List.filter_cons, hw, Bool.false_eq_true, if_false]; exact hlook
    | true =>
      refine ⟨0 :: I.map (· + 1), ?_, strictlyIncreasing_zero_succ I (strictlyIncreasing_map_succ I h2), ?_⟩
      · simp only [List.filter_cons, hw, if_true, List.map_cons, findIdx_cons_eq, hshift']
      · simp only [List.filter_cons, hw, if_true, List.filterMap_cons, List.getElem?_cons_zero, hlook]

/-- The replay clauses hold for a delivery that consists of exactly the ghost events selected by
    "newer than the position, visible, log_duration ≠ 0", in ghost order. -/
theorem checkReplay_ok (sp : SpecSt) (now : Int) (p : Nat) (out : List OutObs) (G : List GEntry)
    (hG : ghostOrder sp = G) (hinc : G.Pairwise (fun a b => a.e.ts < b.e.ts))
    (hx : out.any (fun o => o == .x) = false) (W : GEntry → Bool)
    (hW : ∀ g, W g = (decide (g.e.ts > lpos sp.pos p) && may sp.dropped p g.e.sec && (sp.durs.getD p 0 != 0)))
    (hout : outMsgs out = (G.filter W).map gkey) :
    checkReplay sp now p out false = none := by
  obtain ⟨I, h1, h2, h3⟩ := filter_indices W G hinc
  have hidx : (outMsgs out).map (fun m => findIdx G m.1 m.2) = I.map some := by
    rw [hout, List.map_map]; exact h1
  have hknown : (I.map some).filterMap id = I := by
    rw [List.filterMap_map]; simp
  have hnone : (I.map some).any (·.isNone) = false := by
    rw [List.any_eq_false]; intro x hx; obtain ⟨i, _, rfl⟩ := List.mem_map.mp hx; simp
  have hWmem : ∀ g ∈ G.filter W, lpos sp.pos p < g.e.ts ∧ may sp.dropped p g.e.sec = true := by
    intro g hg
    have := (List.mem_filter.mp hg).2
    rw [hW g] at this
    simp only [Bool.and_eq_true, decide_eq_true_eq] at this
    exact ⟨this.1.1, this.1.2⟩
  simp only [checkReplay, hG, hidx, hknown, hnone, hx, h2, h3, Bool.or_self, Bool.not_false, Bool.and_false,
    Bool.false_eq_true, if_false, Bool.not_true, checkReplay.mayPeer]
  have hc : (G.filter W).any (fun g => decide (g.e.ts ≤ lpos sp.pos p)) = false := by
    rw [List.any_eq_false]; intro g hg; have := (hWmem g hg).1; simp; omega
  have hv : (G.filter W).any (fun g => !may sp.dropped p g.e.sec) = false := by
    rw [List.any_eq_false]; intro g hg; simp [(hWmem g hg).2]
  simp only [hc, hv, Bool.false_eq_true, if_false]
  rw [if_pos]
  rw [List.all_eq_true]
  intro g hg
  have hg' := List.mem_filter.mp hg
  have hWg : W g = true := by
    rw [hW g]
    simp only [Bool.and_eq_true, decide_eq_true_eq] at hg' ⊢
    exact ⟨⟨hg'.2.1.1.1.2, hg'.2.1.1.2⟩, hg'.2.1.2⟩
  have hm : gkey g ∈ outMsgs out := by
    rw [hout]; exact List.mem_map_of_mem (List.mem_filter.mpr ⟨hg'.1, hWg⟩)
  simpa [gkey] using List.elem_eq_true_of_mem hm

/-! ## ghost history vs. the bytes on disk -/

/-- The bytes of a file that holds the ghost records `es`. -/
def encFile (c : Codec) (es : List GEntry) : Bytes := nsEncodeAll (es.map (fun g => c.enc g.e))

def ghostAll (sp : SpecSt) : List GEntry := sp.files.flatMap (·.es) ++ sp.cur

theorem entriesOf_encFile (c : Codec) (es : List GEntry) : entriesOf c.dec (encFile c es) = es.map (·.e) := by
  have hps : ∀ p ∈ es.map (fun g => c.enc g.e), p.length < 10 ^ 9 ∧ bufLimitExceeded none p.length = false := by
    intro p hp
    obtain ⟨g, _, rfl⟩ := List.mem_map.mp hp
    exact ⟨c.small g.e, rfl⟩
  have hitems : fileItems (encFile c es) = es.map (fun g => c.enc g.e) := by
    simp only [fileItems, encFile]
    exact (netstring_prefix_parse none _ [] [] (nsEncode []) _ hps ⟨by decide, rfl⟩ (by simp)
      (nsEncode_ne_nil []) (by rw [chunks_flatten]; simp)).1
  simp only [entriesOf, hitems]
  have := takeSome_map_some c.enc c.dec c.dec_enc (es.map (·.e))
  simpa [List.map_map, Function.comp_def] using this

theorem encFile_append (c : Codec) (a b : List GEntry) : encFile c (a ++ b) = encFile c a ++ encFile c b := by
  simp [encFile, nsEncodeAll_append]

theorem encFile_single (c : Codec) (g : GEntry) : encFile c [g] = nsEncode (c.enc g.e) := by
  simp [encFile, nsEncodeAll]

/-- The relation between the specification's ghost state and the model node at virtual time `clock`. -/
structure Rel (c : Codec) (sp : SpecSt) (n : Node) (clock : Int) : Prop where
  isOpen : n.snd.isOpen = true
  files : n.snd.files = sp.files.map (fun f => ⟨f.name, encFile c f.es⟩)
  cur : n.snd.current = some (encFile c sp.cur)
  curSize : sp.curSize = (encFile c sp.cur).length
  torn : sp.curTorn = false
  intact : ∀ g ∈ ghostAll sp, g.intact = true
  sorted : sp.files.Pairwise (fun a b => a.name < b.name)
  nameLe : ∀ f ∈ sp.files, f.name ≤ n.snd.lastTs / usec + 1
  lastPos : 0 < n.snd.lastTs
  lastLe : n.snd.lastTs ≤ clock
  incr : (ghostAll sp).Pairwise (fun a b => a.e.ts < b.e.ts)
  tsLe : ∀ g ∈ ghostAll sp, g.e.ts ≤ clock
  curLe : ∀ g ∈ sp.cur, g.e.ts ≤ n.snd.lastTs
  named : ∀ f ∈ sp.files, ∀ g ∈ f.es, g.e.ts < f.name * usec
  pos : sp.pos = n.pos
  conn : sp.conn = [(n.peers 0).connected, (n.peers 1).connected, (n.peers 2).connected, (n.peers 3).connected, (n.peers 4).connected, (n.peers 5).connected]
  durs : sp.durs = [(n.peers 0).dur, (n.peers 1).dur, (n.peers 2).dur, (n.peers 3).dur, (n.peers 4).dur, (n.peers 5).dur]
  dropped : sp.dropped = n.dropped
  rel : ∀ p, (n.peers p).related = related p

theorem ghostOrder_eq (c : Codec) (sp : SpecSt) (n : Node) (t : Int) (h : Rel c sp n t) : ghostOrder sp = ghostAll sp := by
  simp [ghostOrder, ghostAll, sortGF_sorted _ h.sorted]

theorem lpos_pos (n : Node) (p : Nat) (hp : p < 6) : lpos n.pos p = (n.peers p).lpos := by
  have : p = 0 ∨ p = 1 ∨ p = 2 ∨ p = 3 ∨ p = 4 ∨ p = 5 := by omega
  rcases this with rfl | rfl | rfl | rfl | rfl | rfl <;> rfl

theorem rpos_pos (n : Node) (p : Nat) (hp : p < 6) : rpos n.pos p = (n.peers p).rpos := by
  have : p = 0 ∨ p = 1 ∨ p = 2 ∨ p = 3 ∨ p = 4 ∨ p = 5 := by omega
  rcases this with rfl | rfl | rfl | rfl | rfl | rfl <;> rfl

/-- What ReplayLog reads from the disk of a related node = the ghost events, in ghost order. -/
theorem fullView_rel (c : Codec) (sp : SpecSt) (n : Node) (t now now' : Int) (h : Rel c sp n t) :
    (fullView c.dec now (openLog now' n.snd)).map (·.2) = (ghostAll sp).map (·.e) := by
  have hs : (sp.files.map (fun f => (⟨f.name, encFile c f.es⟩ : LFile))).Pairwise (fun a b => a.name < b.name) := by
    rw [List.pairwise_map]; exact h.sorted
  simp only [fullView, openLog, h.files, h.cur, sortByName_sorted _ hs, ghostAll, List.map_append, List.map_flatMap,
    List.flatMap_map, entriesOf_encFile, List.map_map, Function.comp_def]

theorem fullView_rel_pairs (c : Codec) (sp : SpecSt) (n : Node) (t now now' : Int) (h : Rel c sp n t) :
    fullView c.dec now (openLog now' n.snd) =
      sp.files.flatMap (fun f => f.es.map (fun g => (f.name, g.e))) ++ sp.cur.map (fun g => ((now + usec) / usec, g.e)) := by
  have hs : (sp.files.map (fun f => (⟨f.name, encFile c f.es⟩ : LFile))).Pairwise (fun a b => a.name < b.name) := by
    rw [List.pairwise_map]; exact h.sorted
  simp only [fullView, openLog, h.files, h.cur, sortByName_sorted _ hs, List.flatMap_map, entriesOf_encFile, List.map_map,
    Function.comp_def]

theorem wf_rel (c : Codec) (sp : SpecSt) (n : Node) (t now : Int) (h : Rel c sp n t) : WF c.dec now (openLog now n.snd) := by
  constructor
  · have hm := fullView_rel c sp n t now now h
    have : ((fullView c.dec now (openLog now n.snd)).map (·.2)).Pairwise (fun a b => a.ts < b.ts) := by
      rw [hm, List.pairwise_map]; exact h.incr
    rw [List.pairwise_map] at this
    exact this
  · intro f hf e he
    simp only [openLog, h.files, List.mem_map] at hf
    obtain ⟨gf, hgf, rfl⟩ := hf
    simp only [entriesOf_encFile, List.mem_map] at he
    obtain ⟨g, hg, rfl⟩ := he
    exact h.named gf hgf g hg

/-! ## running the spec over the steps of one operation -/

def specEnd : SpecSt → List Step → Option SpecSt
  | sp, [] => some sp
  | sp, st :: r => match specStep sp st with
    | (some _, _) => none
    | (none, sp') => specEnd sp' r

theorem specTrace_append : ∀ (a : List Step) (sp sp' : SpecSt) (b : List Step) (i : Nat), specEnd sp a = some sp' →
    specTrace sp (a ++ b) i = specTrace sp' b (i + a.length) := by
  intro a
  induction a with
  | nil => intro sp sp' b i h; simp only [specEnd, Option.some.injEq] at h; subst h; simp
  | cons st r ih =>
    intro sp sp' b i h
    simp only [specEnd] at h
    simp only [List.cons_append, specTrace]
    rcases hq : specStep sp st with ⟨bad, sp1⟩
    rw [hq] at h
    cases bad with
    | some cl => simp at h
    | none =>
      simp only at h ⊢
      rw [ih sp1 sp' b (i + 1) h]
      simp only [List.length_cons]
      congr 1; omega

theorem setpos_eq (sp : SpecSt) (q : List Int) (h : sp.pos = q) : { sp with pos := q } = sp := by
  cases sp; simp_all

theorem Rel.mono {c : Codec} {sp : SpecSt} {n : Node} {t t' : Int} (h : Rel c sp n t) (ht : t ≤ t') : Rel c sp n t' :=
  { h with lastLe := by have := h.lastLe; omega, tsLe := fun g hg => by have := h.tsLe g hg; omega }

/-- Only endpoint fields changed. -/
theorem Rel.of_peers {c : Codec} {sp : SpecSt} {n : Node} {t : Int} (h : Rel c sp n t) (n' : Node) (conn' : List Bool)
    (hs : n'.snd = n.snd)
    (hconn : conn' = [(n'.peers 0).connected, (n'.peers 1).connected, (n'.peers 2).connected, (n'.peers 3).connected, (n'.peers 4).connected, (n'.peers 5).connected])
    (hd : ∀ i, (n'.peers i).dur = (n.peers i).dur) (hrel : ∀ i, (n'.peers i).related = (n.peers i).related)
    (hdr : n'.dropped = n.dropped := by rfl) :
    Rel c { sp with pos := n'.pos, conn := conn' } n' t :=
  { isOpen := by rw [hs]; exact h.isOpen, files := by rw [hs]; exact h.files, cur := by rw [hs]; exact h.cur,
    curSize := h.curSize, torn := h.torn, intact := h.intact, sorted := h.sorted,
    nameLe := by rw [hs]; exact h.nameLe, lastPos := by rw [hs]; exact h.lastPos, lastLe := by rw [hs]; exact h.lastLe,
    incr := h.incr, tsLe := h.tsLe, curLe := by rw [hs]; exact h.curLe, named := h.named, pos := rfl, conn := hconn,
    durs := by simp only [h.durs, hd], dropped := by rw [hdr]; exact h.dropped,
    rel := fun p => by rw [hrel]; exact h.rel p }

theorem six (p : Nat) (hp : p < 6) : p = 0 ∨ p = 1 ∨ p = 2 ∨ p = 3 ∨ p = 4 ∨ p = 5 := by omega

theorem step_conn (c : Codec) (limit : Nat) (sp : SpecSt) (n : Node) (t : Int) (p : Nat) (hp : p < 6) (h : Rel c sp n t) :
    ∃ sp', specEnd sp (stepOp c limit n (.conn p)).2 = some sp' ∧ Rel c sp' (stepOp c limit n (.conn p)).1 t := by
  refine ⟨_, rfl, ?_⟩
  simp only [stepOp]
  have := h.of_peers (n.setPeer p (fun q => { q with connected := true, syncing := true }))
    (sp.conn.set p true) rfl
    (by rw [h.conn]; rcases six p hp with rfl | rfl | rfl | rfl | rfl | rfl <;> simp [Node.setPeer])
    (by intro i; simp only [Node.setPeer]; split <;> rfl) (by intro i; simp only [Node.setPeer]; split <;> rfl)
  exact this

theorem step_attach (c : Codec) (limit : Nat) (sp : SpecSt) (n : Node) (t : Int) (p : Nat) (hp : p < 6) (h : Rel c sp n t) :
    ∃ sp', specEnd sp (stepOp c limit n (.attach p)).2 = some sp' ∧ Rel c sp' (stepOp c limit n (.attach p)).1 t := by
  refine ⟨_, rfl, ?_⟩
  simp only [stepOp]
  have := h.of_peers (n.setPeer p (fun q => { q with connected := true }))
    (sp.conn.set p true) rfl
    (by rw [h.conn]; rcases six p hp with rfl | rfl | rfl | rfl | rfl | rfl <;> simp [Node.setPeer])
    (by intro i; simp only [Node.setPeer]; split <;> rfl) (by intro i; simp only [Node.setPeer]; split <;> rfl)
  exact this

theorem step_disc (c : Codec) (limit : Nat) (sp : SpecSt) (n : Node) (t : Int) (p : Nat) (hp : p < 6) (h : Rel c sp n t) :
    ∃ sp', specEnd sp (stepOp c limit n (.disc p)).2 = some sp' ∧ Rel c sp' (stepOp c limit n (.disc p)).1 t := by
  refine ⟨_, rfl, ?_⟩
  simp only [stepOp]
  have := h.of_peers (n.setPeer p (fun q => { q with connected := false }))
    (sp.conn.set p false) rfl
    (by rw [h.conn]; rcases six p hp with rfl | rfl | rfl | rfl | rfl | rfl <;> simp [Node.setPeer])
    (by intro i; simp only [Node.setPeer]; split <;> rfl) (by intro i; simp only [Node.setPeer]; split <;> rfl)
  exact this

theorem conn_same (sp : SpecSt) (n n' : Node) (c : Codec) (t : Int) (h : Rel c sp n t)
    (hc : ∀ i, (n'.peers i).connected = (n.peers i).connected) :
    sp.conn = [(n'.peers 0).connected, (n'.peers 1).connected, (n'.peers 2).connected, (n'.peers 3).connected, (n'.peers 4).connected, (n'.peers 5).connected] := by
  rw [h.conn]; simp only [hc]

theorem step_ack (c : Codec) (limit : Nat) (sp : SpecSt) (n : Node) (t : Int) (p : Nat) (v : Int) (hp : p < 6) (h : Rel c sp n t) :
    ∃ sp', specEnd sp (stepOp c limit n (.ack p v)).2 = some sp' ∧ Rel c sp' (stepOp c limit n (.ack p v)).1 t := by
  let n' := n.setPeer p (fun q => { q with lpos := setLogPos q.lpos v })
  have hrel := h.of_peers n' sp.conn rfl
    (conn_same sp n n' c t h (by intro i; simp only [n', Node.setPeer]; split <;> rfl))
    (by intro i; simp only [n', Node.setPeer]; split <;> rfl) (by intro i; simp only [n', Node.setPeer]; split <;> rfl)
  have hl : lpos n'.pos p = (if v > lpos sp.pos p then v else lpos sp.pos p) := by
    rw [lpos_pos n' p hp, h.pos, lpos_pos n p hp]
    simp [n', Node.setPeer, setLogPos]
  refine ⟨{ sp with pos := n'.pos }, ?_, ?_⟩
  · simp only [stepOp, specEnd, specStep]
    rw [show lpos (n.setPeer p (fun q => { q with lpos := setLogPos q.lpos v })).pos p = lpos n'.pos p from rfl, hl]
    simp
    rfl
  · have : ({ sp with pos := n'.pos, conn := sp.conn } : SpecSt) = { sp with pos := n'.pos } := rfl
    rw [← this]; exact hrel

theorem step_recv (c : Codec) (limit : Nat) (sp : SpecSt) (n : Node) (t : Int) (p : Nat) (ts : Int) (hp : p < 6) (h : Rel c sp n t) :
    ∃ sp', specEnd sp (stepOp c limit n (.recv p ts)).2 = some sp' ∧ Rel c sp' (stepOp c limit n (.recv p ts)).1 t := by
  let n' := n.setPeer p (fun q => { q with rpos := (recv (n.peers p).rpos (some ts)).2 })
  have hrel := h.of_peers n' sp.conn rfl
    (conn_same sp n n' c t h (by intro i; simp only [n', Node.setPeer]; split <;> rfl))
    (by intro i; simp only [n', Node.setPeer]; split <;> rfl) (by intro i; simp only [n', Node.setPeer]; split <;> rfl)
  have hr : rpos n'.pos p = (recv (n.peers p).rpos (some ts)).2 := by
    rw [rpos_pos n' p hp]; simp [n', Node.setPeer]
  have ho : rpos sp.pos p = (n.peers p).rpos := by rw [h.pos, rpos_pos n p hp]
  refine ⟨{ sp with pos := n'.pos }, ?_, ?_⟩
  · simp only [stepOp, specEnd, specStep]
    rw [show rpos (n.setPeer p (fun q => { q with rpos := (recv (n.peers p).rpos (some ts)).2 })).pos p = rpos n'.pos p from rfl,
      hr, ho]
    by_cases hlt : ts < (n.peers p).rpos
    · simp [recv, hlt, n']
    · simp [recv, hlt, n']
  · have : ({ sp with pos := n'.pos, conn := sp.conn } : SpecSt) = { sp with pos := n'.pos } := rfl
    rw [← this]; exact hrel

/-- The directory is untouched; the log is (re)opened with a later stamp; endpoint fields may have changed. -/
theorem Rel.of_touch {c : Codec} {sp : SpecSt} {n : Node} {t : Int} (h : Rel c sp n t) (n' : Node) (t' : Int) (conn' : List Bool)
    (hf : n'.snd.files = n.snd.files) (hcur : n'.snd.current = n.snd.current) (ho : n'.snd.isOpen = true)
    (hl1 : n.snd.lastTs ≤ n'.snd.lastTs) (hl2 : n'.snd.lastTs ≤ t') (htt : t ≤ t')
    (hconn : conn' = [(n'.peers 0).connected, (n'.peers 1).connected, (n'.peers 2).connected, (n'.peers 3).connected, (n'.peers 4).connected, (n'.peers 5).connected])
    (hd : ∀ i, (n'.peers i).dur = (n.peers i).dur) (hrel : ∀ i, (n'.peers i).related = (n.peers i).related)
    (hdr : n'.dropped = n.dropped := by rfl) :
    Rel c { sp with pos := n'.pos, conn := conn' } n' t' :=
  { isOpen := ho, files := by rw [hf]; exact h.files, cur := by rw [hcur]; exact h.cur,
    curSize := h.curSize, torn := h.torn, intact := h.intact, sorted := h.sorted,
    nameLe := fun f hf' => by have := h.nameLe f hf'; simp only [usec] at this ⊢; omega,
    lastPos := by have := h.lastPos; omega, lastLe := hl2,
    incr := h.incr, tsLe := fun g hg => by have := h.tsLe g hg; omega,
    curLe := fun g hg => by have := h.curLe g hg; omega, named := h.named, pos := rfl, conn := hconn,
    durs := by simp only [h.durs, hd], dropped := by rw [hdr]; exact h.dropped,
    rel := fun p => by rw [hrel]; exact h.rel p }

theorem step_crashStart (c : Codec) (limit : Nat) (sp : SpecSt) (n : Node) (t now : Int) (sr tr : Bool) (ht : t < now) (h : Rel c sp n t) :
    ∃ sp', specEnd sp (stepOp c limit n (.crashStart now sr tr)).2 = some sp' ∧ Rel c sp' (stepOp c limit n (.crashStart now sr tr)).1 now := by
  have hlen : (match n.snd.current with | some b => b.length | none => 0) = sp.curSize := by rw [h.cur, h.curSize]
  let n' : Node := { n with snd := start now (crash sp.curSize n.snd), satRev := sr, topRev := tr,
                            peers := fun i => { n.peers i with connected := false, syncing := false } }
  have hcur : n'.snd.current = n.snd.current := by
    simp only [n', start, openLog, crash, h.cur, h.curSize, Option.map_some, List.take_length]
  have hrel := h.of_touch n' now [false, false, false, false, false, false] (by simp [n', start, openLog, crash]) hcur
    (by simp [n', start, openLog]) (by have := h.lastLe; simp [n', start, openLog]; omega) (by simp [n', start, openLog])
    (by omega) (by simp [n']) (by intro i; rfl) (by intro i; rfl)
  have hn : (stepOp c limit n (.crashStart now sr tr)).1 = n' := by simp only [stepOp, h.cur, n', h.curSize]
  have hs : (stepOp c limit n (.crashStart now sr tr)).2 = [⟨.damage ⟨none, sp.curSize, false⟩, n'.pos⟩, ⟨.restart, n'.pos⟩] := by
    simp only [stepOp, h.cur, n', h.curSize]
  rw [hn, hs]
  refine ⟨{ sp with pos := n'.pos, conn := [false, false, false, false, false, false] }, ?_, hrel⟩
  simp [specEnd, specStep, applyDamage]

theorem outObs_no_x (o : List Out) : (outObs o).any (fun x => x == OutObs.x) = false := by
  rw [List.any_eq_false]
  intro x hx
  simp only [outObs, List.mem_map] at hx
  obtain ⟨y, _, rfl⟩ := hx
  cases y <;> simp

theorem outMsgs_outObs (o : List Out) : outMsgs (outObs o) = (msgsOf o).map (fun e => (e.id, e.ts)) := by
  induction o with
  | nil => rfl
  | cons x r ih =>
    cases x with
    | msg e => simp only [outObs, List.map_cons, outMsgs, msgsOf] at ih ⊢; rw [ih]
    | setPos v => simp only [outObs, List.map_cons, outMsgs, msgsOf] at ih ⊢; rw [ih]

theorem durs_getD (c : Codec) (sp : SpecSt) (n : Node) (t : Int) (h : Rel c sp n t) (p : Nat) (hp : p < 6) :
    sp.durs.getD p 0 = (n.peers p).dur := by
  rw [h.durs]; rcases six p hp with rfl | rfl | rfl | rfl | rfl | rfl <;> rfl

theorem wanted_eq (d : Bool) (p : Nat) (lp : Int) (e : Entry) :
    wanted (fun o => may d p (some o)) lp e = (decide (e.ts > lp) && may d p e.sec) := by
  simp only [wanted, skipEntry]
  cases hs : e.sec with
  | none =>
    have : may d p none = true := rfl
    simp only [this, Bool.or_false, Bool.and_true]
    by_cases hle : e.ts ≤ lp
    · simp [hle]
    · simp [hle]; omega
  | some o =>
    by_cases hle : e.ts ≤ lp
    · simp [hle]; intro hh; omega
    · have : lp < e.ts := by omega
      simp [hle, this]

theorem step_replay (c : Codec) (limit : Nat) (sp : SpecSt) (n : Node) (t now : Int) (p : Nat) (hp : p < 6) (ht : t < now)
    (h : Rel c sp n t) :
    ∃ sp', specEnd sp (stepOp c limit n (.replay now p)).2 = some sp' ∧ Rel c sp' (stepOp c limit n (.replay now p)).1 now := by
  let pr := n.peers p
  let r := replay c.dec (fun o => may n.dropped p (some o)) limit now pr.dur pr.lpos n.snd
  let n' := ({ n with snd := replaySender now pr.dur n.snd }).setPeer p (fun q => { q with syncing := false })
  have hlp : lpos sp.pos p = pr.lpos := by rw [h.pos, lpos_pos n p hp]
  have hdur := durs_getD c sp n t h p hp
  -- the delivery is exactly the selected ghost events
  have hout : outMsgs (outObs r.out) = ((ghostAll sp).filter (fun g =>
      decide (g.e.ts > lpos sp.pos p) && may sp.dropped p g.e.sec && (sp.durs.getD p 0 != 0))).map gkey := by
    rw [outMsgs_outObs, hlp, h.dropped, hdur]
    by_cases hd : pr.dur = 0
    · have hr : r.out = [] := by simp [r, replay, hd]
      have hd' : (n.peers p).dur = 0 := hd
      simp [hr, hd']
    · have hex := (replay_exact_aux c.dec (fun o => may n.dropped p (some o)) limit now pr.dur pr.lpos n.snd hd
        (wf_rel c sp n t now h)).1
      have hd' : ((n.peers p).dur != 0) = true := by simpa using hd
      rw [show msgsOf r.out = _ from hex, fullView_rel c sp n t now now h, List.filter_map, List.map_map, hd']
      simp only [Bool.and_true]
      congr 1
      apply List.filter_congr
      intro g _
      simp only [Function.comp, wanted_eq]
  have hck : checkReplay sp now p (outObs r.out) false = none :=
    checkReplay_ok sp now p (outObs r.out) (ghostAll sp) (ghostOrder_eq c sp n t h) h.incr (outObs_no_x _) _ (fun _ => rfl) hout
  have hrel : Rel c { sp with pos := n'.pos, conn := sp.conn } n' now := by
    apply h.of_touch n' now sp.conn
    · simp only [n', Node.setPeer, replaySender]; split <;> simp [openLog]
    · simp only [n', Node.setPeer, replaySender]; split
      · rfl
      · simp [openLog, h.cur]
    · simp only [n', Node.setPeer, replaySender]; split
      · exact h.isOpen
      · simp [openLog]
    · have := h.lastLe
      simp only [n', Node.setPeer, replaySender]; split
      · exact Int.le_refl _
      · simp [openLog]; omega
    · have := h.lastLe
      simp only [n', Node.setPeer, replaySender]; split
      · omega
      · simp [openLog]
    · omega
    · exact conn_same sp n n' c t h (by intro i; simp only [n', Node.setPeer]; split <;> rfl)
    · intro i; simp only [n', Node.setPeer]; split <;> rfl
    · intro i; simp only [n', Node.setPeer]; split <;> rfl
  refine ⟨{ sp with pos := n'.pos }, ?_, hrel⟩
  show specEnd sp [⟨.replay now p (outObs r.out) none, n'.pos⟩] = _
  simp only [specEnd, specStep, hck]

/-! ## rotation -/

theorem newNames_same (s s' : Sender) (h : s'.files = s.files) : newNames s s' = [] := by
  simp only [newNames, h, List.map_eq_nil_iff, List.filter_eq_nil_iff]
  intro f hf
  simp only [Bool.not_eq_true', Bool.not_eq_false, List.any_eq_true]
  exact ⟨f, hf, by simp⟩

theorem newNames_append (s s' : Sender) (nm : Int) (b : Bytes) (h : s'.files = s.files ++ [⟨nm, b⟩])
    (hn : s.files.any (fun f => f.name == nm) = false) : newNames s s' = [nm] := by
  simp only [newNames, h, List.filter_append, List.map_append]
  have h1 : s.files.filter (fun f => !s.files.any (fun g => g.name == f.name)) = [] := by
    rw [List.filter_eq_nil_iff]
    intro f hf
    simp only [Bool.not_eq_true', Bool.not_eq_false, List.any_eq_true]
    exact ⟨f, hf, by simp⟩
  rw [h1]
  simp [hn]

/-- The ghost update both `rotate` and `relay` steps make when a new file name appears. -/
def ghostRot (nf : Option Int) (sp : SpecSt) : SpecSt :=
  match nf with
  | none => sp
  | some nm => { sp with files := sp.files ++ [⟨nm, sp.cur⟩], cur := [], curSize := 0, curTorn := false }

theorem encFile_nil (c : Codec) : encFile c [] = [] := by simp [encFile, nsEncodeAll]

theorem rel_rot (c : Codec) (sp : SpecSt) (n : Node) (now : Int) (h : Rel c sp n now) :
    Rel c (ghostRot (newNames n.snd (rot now n.snd)).head? sp) { n with snd := rot now n.snd } now := by
  have hlp := h.lastPos
  have hll := h.lastLe
  have hne : (n.snd.lastTs == 0) = false := by simp; omega
  by_cases hany : n.snd.files.any (fun f => f.name == n.snd.lastTs / usec + 1) = true
  · -- refused: the name exists
    have hrot : rot now n.snd = openLog now (closeLog n.snd) := by
      simp only [rot, rotate, rotName, closeLog, hne, Bool.false_eq_true, if_false, hany, if_true]
    have hnn : newNames n.snd (rot now n.snd) = [] := newNames_same _ _ (by rw [hrot]; rfl)
    rw [hnn]
    have := h.of_touch { n with snd := rot now n.snd } now sp.conn (by rw [hrot]; rfl)
      (by rw [hrot]; simp [openLog, closeLog, h.cur]) (by rw [hrot]; rfl) (by rw [hrot]; simp [openLog]; omega)
      (by rw [hrot]; simp [openLog]) (Int.le_refl _) h.conn (fun _ => rfl) (fun _ => rfl)
    have he : ({ sp with pos := ({ n with snd := rot now n.snd } : Node).pos, conn := sp.conn } : SpecSt) = sp := by
      have : ({ n with snd := rot now n.snd } : Node).pos = n.pos := rfl
      rw [this, ← h.pos]
    rw [he] at this
    exact this
  · have hany' : n.snd.files.any (fun f => f.name == n.snd.lastTs / usec + 1) = false := by simpa using hany
    have hrot : rot now n.snd = ⟨n.snd.files ++ [⟨n.snd.lastTs / usec + 1, encFile c sp.cur⟩], some [], true, 0, now⟩ := by
      simp only [rot, rotate, rotName, closeLog, hne, Bool.false_eq_true, if_false, hany', h.cur, openLog]
    have hnn : newNames n.snd (rot now n.snd) = [n.snd.lastTs / usec + 1] :=
      newNames_append _ _ _ (encFile c sp.cur) (by rw [hrot]) hany'
    rw [hnn]
    simp only [List.head?_cons, ghostRot]
    have hga : ghostAll { sp with files := sp.files ++ [⟨n.snd.lastTs / usec + 1, sp.cur⟩], cur := [], curSize := 0, curTorn := false } = ghostAll sp := by
      simp [ghostAll, List.flatMap_append]
    have hnew : ∀ f ∈ sp.files, f.name < n.snd.lastTs / usec + 1 := by
      intro f hf
      have h1 := h.nameLe f hf
      have h2 : f.name ≠ n.snd.lastTs / usec + 1 := by
        intro heq
        rw [h.files, List.any_eq_false] at hany'
        have := hany' ⟨f.name, encFile c f.es⟩ (List.mem_map_of_mem hf)
        simp [heq] at this
      omega
    have hsorted : (sp.files ++ [(⟨n.snd.lastTs / usec + 1, sp.cur⟩ : GFile)]).Pairwise (fun a b => a.name < b.name) := by
      rw [List.pairwise_append]
      exact ⟨h.sorted, by simp, fun a ha b hb => by simp only [List.mem_singleton] at hb; subst hb; exact hnew a ha⟩
    have hnameLe : ∀ f ∈ sp.files ++ [(⟨n.snd.lastTs / usec + 1, sp.cur⟩ : GFile)], f.name ≤ (rot now n.snd).lastTs / usec + 1 := by
      intro f hf
      rw [hrot]
      simp only [List.mem_append, List.mem_singleton] at hf
      rcases hf with hf | rfl
      · have := hnew f hf; simp only [usec] at this ⊢; omega
      · simp only [usec]; omega
    have hnamed : ∀ f ∈ sp.files ++ [(⟨n.snd.lastTs / usec + 1, sp.cur⟩ : GFile)], ∀ g ∈ f.es, g.e.ts < f.name * usec := by
      intro f hf g hg
      simp only [List.mem_append, List.mem_singleton] at hf
      rcases hf with hf | rfl
      · exact h.named f hf g hg
      · have := h.curLe g hg; simp only [usec]; omega
    exact
      { isOpen := (by rw [hrot]), files := (by rw [hrot]; simp [h.files]), cur := (by rw [hrot]; simp [encFile_nil]),
        curSize := (by simp [encFile_nil]), torn := rfl, intact := (by rw [hga]; exact h.intact),
        sorted := hsorted, nameLe := hnameLe,
        lastPos := (by rw [hrot]; simp; omega), lastLe := (by rw [hrot]; simp),
        incr := (by rw [hga]; exact h.incr), tsLe := (by rw [hga]; exact h.tsLe),
        curLe := (by intro g hg; cases hg), named := hnamed,
        pos := h.pos, conn := h.conn, durs := h.durs, dropped := h.dropped, rel := h.rel }

theorem specStep_rotate (sp : SpecSt) (nf : Option Int) (q : List Int) (h : sp.pos = q) :
    specStep sp ⟨.rotate nf, q⟩ = (none, ghostRot nf sp) := by
  subst h; cases nf <;> rfl

theorem step_rotate (c : Codec) (limit : Nat) (sp : SpecSt) (n : Node) (t now : Int) (ht : t < now) (h : Rel c sp n t) :
    ∃ sp', specEnd sp (stepOp c limit n (.rotate now)).2 = some sp' ∧ Rel c sp' (stepOp c limit n (.rotate now)).1 now := by
  have hr := rel_rot c sp n now (h.mono (by omega))
  refine ⟨_, ?_, hr⟩
  simp only [stepOp, specEnd]
  rw [specStep_rotate sp _ _ (by rw [h.pos]; rfl)]

/-! ## the clean-up timer -/

theorem step_timer (c : Codec) (limit : Nat) (sp : SpecSt) (n : Node) (t now : Int) (ht : t < now) (h : Rel c sp n t) :
    ∃ sp', specEnd sp (stepOp c limit n (.timer now)).2 = some sp' ∧ Rel c sp' (stepOp c limit n (.timer now)).1 now := by
  let deleted := (n.snd.files.filter (fun f => !n.peerList.any (needsFile now f.name))).map (·.name)
  -- a ghost file is deleted iff no endpoint needs its name
  have hdel : ∀ f ∈ sp.files, deleted.contains f.name = !n.peerList.any (needsFile now f.name) := by
    intro f hf
    cases hk : n.peerList.any (needsFile now f.name) with
    | true =>
      simp only [Bool.not_true]
      rw [← Bool.not_eq_true]
      intro hc
      have hc' := List.mem_of_elem_eq_true hc
      simp only [deleted, List.mem_map, List.mem_filter] at hc'
      obtain ⟨g, ⟨_, hg2⟩, hg3⟩ := hc'
      rw [hg3, hk] at hg2
      simp at hg2
    | false =>
      simp only [Bool.not_false]
      apply List.elem_eq_true_of_mem
      simp only [deleted, List.mem_map, List.mem_filter]
      refine ⟨⟨f.name, encFile c f.es⟩, ⟨?_, by simp [hk]⟩, rfl⟩
      rw [h.files]; exact List.mem_map_of_mem hf
  let sp' : SpecSt := { sp with files := sp.files.filter (fun f => !deleted.contains f.name) }
  have hfilt : sp.files.filter (fun f => !deleted.contains f.name) = sp.files.filter (fun f => n.peerList.any (needsFile now f.name)) := by
    apply List.filter_congr
    intro f hf
    rw [hdel f hf]; simp
  have hsub : (sp.files.filter (fun f => !deleted.contains f.name)).Sublist sp.files := List.filter_sublist
  have hga : (ghostAll sp').Sublist (ghostAll sp) := by
    simp only [ghostAll, sp']
    exact List.Sublist.append (sublist_flatMap _ hsub) (List.Sublist.refl _)
  have hrel : Rel c sp' { n with snd := cleanup now n.peerList n.snd } now :=
    { isOpen := h.isOpen,
      files := (by
        simp only [cleanup, h.files, sp', hfilt, List.filter_map]
        rfl),
      cur := h.cur, curSize := h.curSize, torn := h.torn,
      intact := (fun g hg => h.intact g (hga.subset hg)),
      sorted := (h.sorted.sublist hsub),
      nameLe := (fun f hf => h.nameLe f (hsub.subset hf)),
      lastPos := h.lastPos, lastLe := (by have := h.lastLe; simp only [cleanup]; omega),
      incr := (h.incr.sublist hga),
      tsLe := (fun g hg => by have := h.tsLe g (hga.subset hg); omega),
      curLe := h.curLe,
      named := (fun f hf => h.named f (hsub.subset hf)),
      pos := h.pos, conn := h.conn, durs := h.durs, dropped := h.dropped, rel := h.rel }
  refine ⟨sp', ?_, hrel⟩
  show specEnd sp [⟨.timer now deleted _, n.pos⟩] = some sp'
  rw [← h.pos]
  simp only [specEnd, specStep]
  -- the clause: no deleted file holds a record a related endpoint still needs
  have hneed : ((sp.files.filter (fun f => deleted.contains f.name)).any (fun f => f.es.any (fun g => g.intact && allPeers.any (fun p =>
      related p && decide (g.e.ts > lpos sp.pos p) &&
        !(decide (sp.durs.getD p 0 ≥ 0) && decide (g.e.ts < now - sp.durs.getD p 0)))))) = false := by
    rw [List.any_eq_false]
    intro f hf
    have hf' := List.mem_filter.mp hf
    have hno : n.peerList.any (needsFile now f.name) = false := by
      have := hdel f hf'.1; rw [hf'.2] at this; simpa using this.symm
    rw [List.any_eq_false] at hno
    rw [List.any_eq_true]
    rintro ⟨g, hg, hbad⟩
    have hnm := h.named f hf'.1 g hg
    simp only [Bool.and_eq_true, List.any_eq_true] at hbad
    obtain ⟨_, p, hp, hpb⟩ := hbad
    simp only [allPeers, List.mem_cons, List.mem_nil_iff, or_false] at hp
    have hp3 : p < 6 := by rcases hp with rfl | rfl | rfl | rfl | rfl | rfl <;> omega
    have hpl : n.peers p ∈ n.peerList := by rcases hp with rfl | rfl | rfl | rfl | rfl | rfl <;> simp [Node.peerList]
    have hnf : needsFile now f.name (n.peers p) = false := by simpa using hno (n.peers p) hpl
    have hd := durs_getD c sp n t h p hp3
    have hl : lpos sp.pos p = (n.peers p).lpos := by rw [h.pos, lpos_pos n p hp3]
    rw [hd, hl] at hpb
    have hrelp : related p = true → (n.peers p).related = true := by
      intro hh; rw [h.rel p]; exact hh
    simp only [Bool.and_eq_true, decide_eq_true_eq, Bool.not_eq_true', Bool.and_eq_false_iff, decide_eq_false_iff_not] at hpb
    have hr := hrelp hpb.1.1
    simp only [needsFile, hr, Bool.true_and, Bool.and_eq_false_iff, Bool.not_eq_false', Bool.and_eq_true,
      decide_eq_true_eq, decide_eq_false_iff_not] at hnf
    have h1 := hpb.1.2
    rcases hnf with hnf | hnf
    · rcases hpb.2 with h2 | h2
      · omega
      · omega
    · omega
  rw [hneed]
  rfl

/-! ## relaying an event -/

theorem conn_getD (c : Codec) (sp : SpecSt) (n : Node) (t : Int) (h : Rel c sp n t) (p : Nat) (hp : p < 6) :
    sp.conn.getD p false = (n.peers p).connected := by
  rw [h.conn]; rcases six p hp with rfl | rfl | rfl | rfl | rfl | rfl <;> rfl

theorem targetZones_lt (sec : Option Nat) : ∀ z ∈ targetZones sec, z.2 ≠ [] ∧ ∀ p ∈ z.2, p < 6 := by
  intro z hz
  simp only [targetZones] at hz
  split at hz <;> simp at hz <;> rcases hz with rfl | rfl | rfl <;> simp <;> omega

theorem orient_mem (a b : Bool) (l : List Nat) (p : Nat) : p ∈ orient a b l ↔ p ∈ l := by
  simp only [orient]
  split
  · rename_i h; simp only [Bool.and_eq_true, beq_iff_eq] at h; rw [h.1]; simp; omega
  · split
    · rename_i h; simp only [Bool.and_eq_true, beq_iff_eq] at h; rw [h.1]; simp; omega
    · rfl

theorem orient_ne_nil (a b : Bool) (l : List Nat) (h : l ≠ []) : orient a b l ≠ [] := by
  simp only [orient]
  split
  · simp
  · split
    · simp
    · exact h

/-- A zone none of whose endpoints is connected: the log is needed and not done. -/
theorem relayZone_all_disc (peers : Nat → Peer) (master : Option Nat) (loc : Bool) : ∀ (eps : List Nat) (a : ZoneAcc),
    (∀ i ∈ eps, (peers i).connected = false) → a.logDone = false → (eps ≠ [] ∨ a.logNeeded = true) →
    (eps.foldl (relayEndpoint peers loc master) a).logNeeded = true ∧
    (eps.foldl (relayEndpoint peers loc master) a).logDone = false := by
  intro eps
  induction eps with
  | nil => intro a _ hd hn; simp at hn; exact ⟨hn, hd⟩
  | cons i r ih =>
    intro a hc hd _
    simp only [List.foldl_cons]
    apply ih
    · intro j hj; exact hc j (by simp [hj])
    · simp only [relayEndpoint, hc i (by simp), Bool.not_false, if_true]; cases loc <;> simp [hd]
    · right; simp only [relayEndpoint, hc i (by simp), Bool.not_false, if_true]; cases loc <;> simp

theorem must_log (c : Codec) (sp : SpecSt) (n : Node) (t : Int) (h : Rel c sp n t) (sec : Option Nat)
    (hm : mustLog (fun p => sp.conn.getD p false) sec = true) :
    (relay n.peers n.master (zonesOf n.satRev n.topRev sec)).needLog = true := by
  simp only [mustLog, List.any_eq_true, List.all_eq_true] at hm
  obtain ⟨z, hz, hall⟩ := hm
  have hzl := targetZones_lt sec z hz
  simp only [relay, List.any_map, List.any_eq_true]
  refine ⟨(z.1, orient n.satRev n.topRev z.2), by simp only [zonesOf, List.mem_map]; exact ⟨z, hz, rfl⟩, ?_⟩
  have := relayZone_all_disc n.peers n.master z.1 (orient n.satRev n.topRev z.2) {}
    (by
      intro i hi
      have hi' := (orient_mem _ _ _ _).mp hi
      have := hall i hi'
      rw [conn_getD c sp n t h i (hzl.2 i hi')] at this
      simpa using this)
    rfl (Or.inl (orient_ne_nil _ _ _ hzl.1))
  simp only [Function.comp, relayZone, this.1, this.2, Bool.not_false, Bool.and_self]

/-- RelayMessageOne only ever skips (and advances the position of) endpoints that are connected. -/
theorem relayZone_skipped_connected (peers : Nat → Peer) (master : Option Nat) (loc : Bool) : ∀ (eps : List Nat) (a : ZoneAcc),
    (∀ i ∈ a.skipped, (peers i).connected = true) →
    ∀ i ∈ (eps.foldl (relayEndpoint peers loc master) a).skipped, (peers i).connected = true := by
  intro eps
  induction eps with
  | nil => intro a h; exact h
  | cons j r ih =>
    intro a h
    simp only [List.foldl_cons]
    apply ih
    intro i hi
    simp only [relayEndpoint] at hi
    cases hc : (peers j).connected with
    | false =>
      simp only [hc, Bool.not_false, if_true] at hi
      split at hi <;> exact h i hi
    | true =>
      simp only [hc, Bool.not_true, Bool.false_eq_true, if_false] at hi
      split at hi
      · simp only [List.mem_append, List.mem_singleton] at hi
        rcases hi with hi | rfl
        · exact h i hi
        · exact hc
      · split at hi
        · simp only [List.mem_append, List.mem_singleton] at hi
          rcases hi with hi | rfl
          · exact h i hi
          · exact hc
        · exact h i hi

theorem relay_skipped_connected (peers : Nat → Peer) (master : Option Nat) (zones : List (Bool × List Nat)) :
    ∀ i ∈ (relay peers master zones).skipped, (peers i).connected = true := by
  intro i hi
  simp only [relay, List.mem_flatMap, List.mem_map] at hi
  obtain ⟨a, ⟨z, _, rfl⟩, hia⟩ := hi
  exact relayZone_skipped_connected peers master z.1 z.2 {} (by intro j hj; simp at hj) i hia

theorem newNames_congr_old (s₁ s₂ s' : Sender) (h : s₁.files = s₂.files) : newNames s₁ s' = newNames s₂ s' := by
  simp only [newNames, h]

theorem ghostRot_match (nf : Option Int) (sp : SpecSt) :
    (match nf with
      | none => sp
      | some nm => { sp with files := sp.files ++ [⟨nm, sp.cur⟩], cur := [], curSize := 0, curTorn := false }) = ghostRot nf sp := by
  cases nf <;> rfl

theorem step_relay (c : Codec) (limit : Nat) (sp : SpecSt) (n : Node) (t now : Int) (id : Nat) (sec : Option Nat) (ht : t < now)
    (h : Rel c sp n t) :
    ∃ sp', specEnd sp (stepOp c limit n (.relay now id sec)).2 = some sp' ∧ Rel c sp' (stepOp c limit n (.relay now id sec)).1 now := by
  let r := relay n.peers n.master (zonesOf n.satRev n.topRev sec)
  let n1 : Node := { n with peers := fun i => if r.skipped.contains i then { n.peers i with lpos := now } else n.peers i }
  let e : Entry := ⟨now, id, sec⟩
  have hconn1 : sp.conn = [(n1.peers 0).connected, (n1.peers 1).connected, (n1.peers 2).connected, (n1.peers 3).connected, (n1.peers 4).connected, (n1.peers 5).connected] :=
    conn_same sp n n1 c t h (by intro i; simp only [n1]; split <;> rfl)
  have hdur1 : ∀ i, (n1.peers i).dur = (n.peers i).dur := by intro i; simp only [n1]; split <;> rfl
  have hrel1 : ∀ i, (n1.peers i).related = (n.peers i).related := by intro i; simp only [n1]; split <;> rfl
  have hlp := h.lastPos
  have hll := h.lastLe
  cases hneed : r.needLog with
  | false =>
    -- nobody is missing: nothing is logged
    have hmust : mustLog (fun p => sp.conn.getD p false) sec = false := by
      cases hm : mustLog (fun p => sp.conn.getD p false) sec with
      | false => rfl
      | true => have := must_log c sp n t h sec hm; rw [show (relay n.peers n.master (zonesOf n.satRev n.topRev sec)).needLog = r.needLog from rfl, hneed] at this; cases this
    have hn : (stepOp c limit n (.relay now id sec)).1 = n1 := by
      simp only [stepOp]
      rw [show (relay n.peers n.master (zonesOf n.satRev n.topRev sec)).needLog = false from hneed]
      rfl
    have hs : (stepOp c limit n (.relay now id sec)).2 = [⟨.relay now id sec none none, n1.pos⟩] := by
      simp only [stepOp]
      rw [show (relay n.peers n.master (zonesOf n.satRev n.topRev sec)).needLog = false from hneed]
      simp only [Bool.false_and, Bool.false_eq_true, if_false, newNames_same n.snd n.snd rfl, List.head?_nil]
      rfl
    rw [hn, hs]
    have hrel := (h.mono (Int.le_of_lt ht)).of_peers n1 sp.conn rfl hconn1 hdur1 hrel1
    refine ⟨{ sp with pos := n1.pos }, ?_, hrel⟩
    simp only [specEnd, specStep, hmust, Bool.false_and, Bool.false_eq_true, if_false]
  | true =>
    let b := encFile c sp.cur
    let len := (nsEncode (c.enc e)).length
    let g : GEntry := ⟨e, sp.curSize + len, true⟩
    let s1 : Sender := { n.snd with current := some (b ++ nsEncode (c.enc e)), count := n.snd.count + 1, lastTs := now }
    have hpersist : persist limit now (c.enc e) now n.snd = if s1.count > limit then rot now s1 else s1 := by
      simp only [persist, h.isOpen, Bool.not_true, Bool.false_eq_true, if_false, h.cur, rot, s1, b]
    let spA : SpecSt := { sp with pos := n1.pos, cur := sp.cur ++ [g], curSize := sp.curSize + len, curTorn := false }
    let nA : Node := { n1 with snd := s1 }
    have hgaA : ghostAll spA = ghostAll sp ++ [g] := by simp [ghostAll, spA]
    have hrelA : Rel c spA nA now :=
      { isOpen := h.isOpen, files := h.files,
        cur := (by simp only [nA, s1, spA, b, encFile_append, encFile_single]; rfl),
        curSize := (by simp only [spA, encFile_append, encFile_single, List.length_append, h.curSize, len]; rfl),
        torn := rfl,
        intact := (by
          intro x hx; rw [hgaA, List.mem_append, List.mem_singleton] at hx
          rcases hx with hx | rfl
          · exact h.intact x hx
          · rfl),
        sorted := h.sorted,
        nameLe := (fun f hf => by have := h.nameLe f hf; simp only [nA, s1, usec] at this ⊢; omega),
        lastPos := (by simp only [nA, s1]; omega), lastLe := (by simp only [nA, s1]; omega),
        incr := (by
          rw [hgaA, List.pairwise_append]
          refine ⟨h.incr, by simp, fun a ha x hx => ?_⟩
          simp only [List.mem_singleton] at hx; subst hx
          have := h.tsLe a ha
          simp only [g, e]; omega),
        tsLe := (by
          intro x hx; rw [hgaA, List.mem_append, List.mem_singleton] at hx
          rcases hx with hx | rfl
          · have := h.tsLe x hx; omega
          · simp only [g, e]; omega),
        curLe := (by
          intro x hx
          simp only [spA, List.mem_append, List.mem_singleton] at hx
          rcases hx with hx | rfl
          · have := h.curLe x hx; simp only [nA, s1]; omega
          · simp only [nA, s1, g, e]; omega),
        named := h.named, pos := rfl, conn := hconn1,
        durs := (by simp only [spA, h.durs, nA, hdur1]), dropped := h.dropped,
        rel := (fun p => by simp only [nA]; rw [hrel1]; exact h.rel p) }
    let snd2 := if s1.count > limit then rot now s1 else s1
    have hn : (stepOp c limit n (.relay now id sec)).1 = { n1 with snd := snd2 } := by
      simp only [stepOp]
      rw [show (relay n.peers n.master (zonesOf n.satRev n.topRev sec)).needLog = true from hneed]
      simp only [if_true]
      show ({ n1 with snd := persist limit now (c.enc e) now n.snd } : Node) = _
      rw [hpersist]
    have hs : (stepOp c limit n (.relay now id sec)).2 =
        [⟨.relay now id sec (some len) (newNames n.snd snd2).head?, n1.pos⟩] := by
      simp only [stepOp]
      rw [show (relay n.peers n.master (zonesOf n.satRev n.topRev sec)).needLog = true from hneed]
      simp only [if_true, h.isOpen, h.cur, Option.isSome_some, Bool.and_self]
      show [(⟨.relay now id sec (some len) (newNames n.snd (persist limit now (c.enc e) now n.snd)).head?, n1.pos⟩ : Step)] = _
      rw [hpersist]
    rw [hn, hs]
    have hmk : ∀ nf, specEnd sp [⟨.relay now id sec (some len) nf, n1.pos⟩] = some (ghostRot nf spA) := by
      intro nf
      cases nf <;>
        simp only [specEnd, specStep, Option.isNone_some, Bool.and_false, Bool.false_eq_true, if_false, h.torn, Bool.not_false,
          ghostRot] <;> rfl
    refine ⟨_, hmk _, ?_⟩
    by_cases hc : s1.count > limit
    · have hsnd : snd2 = rot now s1 := by simp only [snd2, hc, if_true]
      rw [hsnd, newNames_congr_old n.snd s1 (rot now s1) rfl]
      exact rel_rot c spA nA now hrelA
    · have hsnd : snd2 = s1 := by simp only [snd2, hc, if_false]
      rw [hsnd, newNames_same n.snd s1 rfl]
      exact hrelA

/-! ## graceful restart (ApiListener::Stop, then a new process) and object removal -/

theorem newNames_congr_new (s s1 s2 : Sender) (h : s1.files = s2.files) : newNames s s1 = newNames s s2 := by
  simp only [newNames, h]

/-- When `log_message_timestamp` is set (always, once the log has been opened) the time at which Stop runs does not enter
    the result: RotateLogFile names the file after the LAST RECORD's stamp (apilistener.cpp:1397-1403). -/
theorem stop_time_irrelevant (t1 t2 : Int) (s : Sender) (h : s.lastTs ≠ 0) : stop t1 s = stop t2 s := by
  have hne : (s.lastTs == 0) = false := by simpa using h
  simp only [stop, rotate, rotName, closeLog, hne]
  rfl

theorem step_stopStart (c : Codec) (limit : Nat) (sp : SpecSt) (n : Node) (t now : Int) (sr tr : Bool) (ht : t < now) (h : Rel c sp n t) :
    ∃ sp', specEnd sp (stepOp c limit n (.stopStart now sr tr)).2 = some sp' ∧ Rel c sp' (stepOp c limit n (.stopStart now sr tr)).1 now := by
  have hr := rel_rot c sp n now (h.mono (by omega))
  let n' : Node := { n with snd := start now (stop now n.snd), satRev := sr, topRev := tr,
                            peers := fun i => { n.peers i with connected := false, syncing := false } }
  have hfiles : (start now (stop now n.snd)).files = (rot now n.snd).files := by simp [start, stop, rot, openLog]
  have hcur : (start now (stop now n.snd)).current = (rot now n.snd).current := by simp [start, stop, rot, openLog]
  have hnn : newNames n.snd (stop now n.snd) = newNames n.snd (rot now n.snd) :=
    newNames_congr_new _ _ _ (by simp [rot, stop, openLog])
  have hrel := hr.of_touch n' now [false, false, false, false, false, false] hfiles hcur (by simp [n', start, openLog])
    (by simp [n', start, rot, openLog]) (by simp [n', start, openLog]) (Int.le_refl _) (by simp [n']) (fun _ => rfl) (fun _ => rfl)
  refine ⟨_, ?_, hrel⟩
  show specEnd sp [⟨.rotate (newNames n.snd (stop now n.snd)).head?, n'.pos⟩, ⟨.restart, n'.pos⟩, ⟨.restart, n'.pos⟩] = _
  rw [hnn]
  simp only [specEnd]
  rw [specStep_rotate sp _ _ (by rw [h.pos]; rfl)]
  have hp1 : (ghostRot (newNames n.snd (rot now n.snd)).head? sp).pos = n'.pos := by
    rw [show n'.pos = n.pos from rfl, ← h.pos]
    cases (newNames n.snd (rot now n.snd)).head? <;> rfl
  simp [specStep, hp1]

theorem step_drop (c : Codec) (limit : Nat) (sp : SpecSt) (n : Node) (t : Int) (h : Rel c sp n t) :
    ∃ sp', specEnd sp (stepOp c limit n .drop).2 = some sp' ∧ Rel c sp' (stepOp c limit n .drop).1 t := by
  refine ⟨{ sp with pos := n.pos, dropped := true }, rfl, ?_⟩
  exact { isOpen := h.isOpen, files := h.files, cur := h.cur, curSize := h.curSize, torn := h.torn, intact := h.intact,
          sorted := h.sorted, nameLe := h.nameLe, lastPos := h.lastPos, lastLe := h.lastLe, incr := h.incr, tsLe := h.tsLe,
          curLe := h.curLe, named := h.named, pos := rfl, conn := h.conn, durs := h.durs, dropped := rfl, rel := h.rel }

/-! ## clause position_advance_justified on the model's trace -/

def advanceEnd : SpecSt → List Step → Bool
  | _, [] => true
  | sp, st :: r => advanceOk sp st && advanceEnd (specStep sp st).2 r

theorem advanceTrace_append : ∀ (a : List Step) (sp sp' : SpecSt) (b : List Step) (i : Nat), specEnd sp a = some sp' →
    advanceEnd sp a = true → advanceTrace sp (a ++ b) i = advanceTrace sp' b (i + a.length) := by
  intro a
  induction a with
  | nil => intro sp sp' b i h _; simp only [specEnd, Option.some.injEq] at h; subst h; simp
  | cons st r ih =>
    intro sp sp' b i h h2
    simp only [specEnd] at h
    simp only [advanceEnd, Bool.and_eq_true] at h2
    simp only [List.cons_append, advanceTrace, h2.1, if_true]
    rcases hq : specStep sp st with ⟨bad, sp1⟩
    rw [hq] at h h2
    cases bad with
    | some cl => simp at h
    | none =>
      simp only at h h2 ⊢
      rw [ih sp1 sp' b (i + 1) h h2.2]
      simp only [List.length_cons]
      congr 1; omega

theorem advanceOk_of (sp : SpecSt) (st : Step)
    (h : ∀ p, p < 6 → lpos st.pos p ≤ lpos sp.pos p ∨
      (match st.ev with
        | .ack q v => (q == p && lpos st.pos p == v) = true
        | .relay now _ _ _ _ => (sp.conn.getD p false && lpos st.pos p == now) = true
        | _ => False)) : advanceOk sp st = true := by
  simp only [advanceOk, allPeers, List.all_eq_true]
  intro p hp
  have hp6 : p < 6 := by simp only [List.mem_cons, List.mem_nil_iff, or_false] at hp; omega
  rcases h p hp6 with hle | hj
  · simp [hle]
  · by_cases hle : lpos st.pos p ≤ lpos sp.pos p
    · simp [hle]
    · simp only [hle, if_false]
      cases hev : st.ev <;> simp only [hev] at hj ⊢ <;> first | exact hj | exact hj.elim

theorem advanceOk_same (sp : SpecSt) (st : Step) (h : ∀ p, p < 6 → lpos st.pos p = lpos sp.pos p) : advanceOk sp st = true :=
  advanceOk_of sp st (fun p hp => Or.inl (by rw [h p hp]; exact Int.le_refl _))

theorem lpos_same (c : Codec) (sp : SpecSt) (n n' : Node) (t : Int) (h : Rel c sp n t)
    (hl : ∀ p, (n'.peers p).lpos = (n.peers p).lpos) : ∀ p, p < 6 → lpos n'.pos p = lpos sp.pos p := by
  intro p hp
  rw [lpos_pos n' p hp, h.pos, lpos_pos n p hp, hl p]

theorem applyDamage_pos (d : Damage) (sp : SpecSt) : (applyDamage d sp).pos = sp.pos := by
  simp only [applyDamage]
  split
  · split <;> rfl
  · rfl

theorem step_advance (c : Codec) (limit : Nat) (sp : SpecSt) (n : Node) (t : Int) (op : Op) (h : Rel c sp n t)
    (hp : op.peerOk = true) : advanceEnd sp (stepOp c limit n op).2 = true := by
  cases op with
  | relay now id sec =>
    simp only [stepOp, advanceEnd, Bool.and_true]
    apply advanceOk_of
    intro p hp6
    simp only
    let r := relay n.peers n.master (zonesOf n.satRev n.topRev sec)
    by_cases hs : r.skipped.contains p = true
    · right
      have hc := relay_skipped_connected n.peers n.master _ p (List.mem_of_elem_eq_true hs)
      rw [conn_getD c sp n t h p hp6, hc, lpos_pos _ p hp6]
      simp only [Bool.true_and, beq_iff_eq]
      show (if r.skipped.contains p = true then { n.peers p with lpos := now } else n.peers p).lpos = now
      rw [if_pos hs]
    · left
      rw [lpos_pos _ p hp6, h.pos, lpos_pos n p hp6]
      show (if r.skipped.contains p = true then { n.peers p with lpos := now } else n.peers p).lpos ≤ _
      rw [if_neg hs]; exact Int.le_refl _
  | conn q =>
    simp only [stepOp, advanceEnd, Bool.and_true]
    exact advanceOk_same _ _ (lpos_same c sp n _ t h (by intro p; simp only [Node.setPeer]; split <;> rfl))
  | attach q =>
    simp only [stepOp, advanceEnd, Bool.and_true]
    exact advanceOk_same _ _ (lpos_same c sp n _ t h (by intro p; simp only [Node.setPeer]; split <;> rfl))
  | disc q =>
    simp only [stepOp, advanceEnd, Bool.and_true]
    exact advanceOk_same _ _ (lpos_same c sp n _ t h (by intro p; simp only [Node.setPeer]; split <;> rfl))
  | replay now q =>
    simp only [stepOp, advanceEnd, Bool.and_true]
    exact advanceOk_same _ _ (lpos_same c sp n _ t h (by intro p; simp only [Node.setPeer]; split <;> rfl))
  | rotate now =>
    simp only [stepOp, advanceEnd, Bool.and_true]
    exact advanceOk_same _ _ (lpos_same c sp n _ t h (fun _ => rfl))
  | timer now =>
    simp only [stepOp, advanceEnd, Bool.and_true]
    exact advanceOk_same _ _ (lpos_same c sp n _ t h (fun _ => rfl))
  | recv q ts =>
    simp only [stepOp, advanceEnd, Bool.and_true]
    exact advanceOk_same _ _ (lpos_same c sp n _ t h (by intro p; simp only [Node.setPeer]; split <;> rfl))
  | ack q v =>
    simp only [stepOp, advanceEnd, Bool.and_true]
    apply advanceOk_of
    intro p hp6
    simp only
    rw [lpos_pos _ p hp6, h.pos, lpos_pos n p hp6]
    simp only [Node.setPeer]
    by_cases hq : p = q
    · subst hq
      simp only [if_true, setLogPos]
      by_cases hv : v > (n.peers p).lpos
      · right; simp [hv]
      · left; simp [hv]
    · left; simp [hq]
  | crashStart now sr tr =>
    simp only [stepOp, advanceEnd, Bool.and_true, Bool.and_eq_true]
    refine ⟨advanceOk_same _ _ (lpos_same c sp n _ t h (fun _ => rfl)), ?_⟩
    apply advanceOk_same
    intro p _
    simp only [specStep, applyDamage_pos]
  | stopStart now sr tr =>
    simp only [stepOp, advanceEnd, Bool.and_true, Bool.and_eq_true]
    refine ⟨advanceOk_same _ _ (lpos_same c sp n _ t h (fun _ => rfl)), ?_, ?_⟩
    · apply advanceOk_same
      intro p _
      cases (newNames n.snd (stop now n.snd)).head? <;> rfl
    · apply advanceOk_same
      intro p _
      cases (newNames n.snd (stop now n.snd)).head? <;> rfl
  | drop =>
    simp only [stepOp, advanceEnd, Bool.and_true]
    exact advanceOk_same _ _ (lpos_same c sp n _ t h (fun _ => rfl))

/-
  C12 — helper lemmas: the replay fold, the pass structure of ReplayLog, reading of truncated / damaged files.
-/
import IcingaModel.C12.Model
import IcingaProofs.C20

namespace Icinga.C12
open Icinga.C20

/-! ## msgsOf -/

theorem msgsOf_append (a b : List Out) : msgsOf (a ++ b) = msgsOf a ++ msgsOf b := by
  induction a with
  | nil => rfl
  | cons x r ih => cases x <;> simp [msgsOf, ih]

@[simp] theorem msgsOf_msg (e : Entry) : msgsOf [Out.msg e] = [e] := rfl
@[simp] theorem msgsOf_setPos (v : Int) : msgsOf [Out.setPos v] = [] := rfl
@[simp] theorem msgsOf_nil : msgsOf [] = [] := rfl

/-! ## one record -/

theorem skipEntry_mono (vis : Nat → Bool) (p p' : Int) (e : Entry) (h : p ≤ p') (hs : skipEntry vis p e = true) :
    skipEntry vis p' e = true := by
  simp only [skipEntry, Bool.or_eq_true, decide_eq_true_eq] at hs ⊢
  rcases hs with hs | hs
  · left; omega
  · right; exact hs

theorem stepEntry_skip (vis : Nat → Bool) (st : RState) (x : Int × Entry) (h : skipEntry vis st.peer x.2 = true) :
    stepEntry vis st x = st := by
  simp [stepEntry, h]

theorem stepEntry_send (vis : Nat → Bool) (st : RState) (x : Int × Entry) (h : skipEntry vis st.peer x.2 = false) :
    (stepEntry vis st x).peer = x.2.ts ∧ msgsOf (stepEntry vis st x).out = msgsOf st.out ++ [x.2] ∧
    (stepEntry vis st x).count = st.count + 1 := by
  simp only [stepEntry, h, Bool.false_eq_true, if_false]
  split <;> simp [msgsOf_append, msgsOf]

theorem not_skip_gt (vis : Nat → Bool) (p : Int) (e : Entry) (h : skipEntry vis p e = false) : p < e.ts := by
  simp only [skipEntry, Bool.or_eq_false_iff, decide_eq_false_iff_not] at h
  omega

theorem replayEntries_cons (vis : Nat → Bool) (st : RState) (x : Int × Entry) (xs : List (Int × Entry)) :
    replayEntries vis st (x :: xs) = replayEntries vis (stepEntry vis st x) xs := rfl

theorem replayEntries_nil (vis : Nat → Bool) (st : RState) : replayEntries vis st [] = st := rfl

/-- Records that are all skipped leave the state untouched. -/
theorem replayEntries_all_skipped (vis : Nat → Bool) : ∀ (xs : List (Int × Entry)) (st : RState),
    (∀ x ∈ xs, skipEntry vis st.peer x.2 = true) → replayEntries vis st xs = st := by
  intro xs
  induction xs with
  | nil => intro st _; rfl
  | cons x r ih =>
    intro st h
    rw [replayEntries_cons, stepEntry_skip vis st x (h x (by simp))]
    exact ih st (fun y hy => h y (by simp [hy]))

/-- The position never decreases, and at the end every record of the pass is one the filter skips. -/
theorem replayEntries_peer (vis : Nat → Bool) : ∀ (xs : List (Int × Entry)) (st : RState),
    st.peer ≤ (replayEntries vis st xs).peer ∧
    (∀ x ∈ xs, skipEntry vis (replayEntries vis st xs).peer x.2 = true) := by
  intro xs
  induction xs with
  | nil => intro st; exact ⟨Int.le_refl _, by intro x hx; cases hx⟩
  | cons x r ih =>
    intro st
    rw [replayEntries_cons]
    have ihr := ih (stepEntry vis st x)
    cases hsk : skipEntry vis st.peer x.2 with
    | true =>
      rw [stepEntry_skip vis st x hsk] at ihr ⊢
      refine ⟨ihr.1, ?_⟩
      intro y hy
      rcases List.mem_cons.mp hy with rfl | hy
      · exact skipEntry_mono vis _ _ _ ihr.1 hsk
      · exact ihr.2 y hy
    | false =>
      have hs := stepEntry_send vis st x hsk
      have hgt := not_skip_gt vis _ _ hsk
      refine ⟨by have := ihr.1; omega, ?_⟩
      intro y hy
      rcases List.mem_cons.mp hy with rfl | hy
      · have : y.2.ts ≤ (replayEntries vis (stepEntry vis st y) r).peer := by have := ihr.1; omega
        simp only [skipEntry, Bool.or_eq_true, decide_eq_true_eq]; left; exact this
      · exact ihr.2 y hy

/-- Whatever the order of the records: every message sent was not sent before the pass, is newer than the
    position the pass started from and visible to the peer's zone. -/
theorem replayEntries_sent (vis : Nat → Bool) : ∀ (xs : List (Int × Entry)) (st : RState),
    ∃ new, msgsOf (replayEntries vis st xs).out = msgsOf st.out ++ new ∧
      new.Sublist (xs.map (·.2)) ∧ ∀ e ∈ new, skipEntry vis st.peer e = false := by
  intro xs
  induction xs with
  | nil => intro st; exact ⟨[], by simp [replayEntries_nil], by simp, by simp⟩
  | cons x r ih =>
    intro st
    rw [replayEntries_cons]
    obtain ⟨new, h1, h2, h3⟩ := ih (stepEntry vis st x)
    cases hsk : skipEntry vis st.peer x.2 with
    | true =>
      rw [stepEntry_skip vis st x hsk] at h1 h3 ⊢
      exact ⟨new, h1, by simp only [List.map_cons]; exact h2.cons _, h3⟩
    | false =>
      have hs := stepEntry_send vis st x hsk
      refine ⟨x.2 :: new, by rw [h1, hs.2.1]; simp, by simp only [List.map_cons]; exact h2.cons_cons _, ?_⟩
      intro e he
      rcases List.mem_cons.mp he with rfl | he
      · exact hsk
      · have := h3 e he
        rw [hs.1] at this
        have hgt := not_skip_gt vis _ _ hsk
        simp only [skipEntry, Bool.or_eq_false_iff, decide_eq_false_iff_not] at this ⊢
        exact ⟨by omega, this.2⟩

/-- With strictly increasing timestamps one pass sends exactly the records the filter lets through. -/
theorem replayEntries_sorted (vis : Nat → Bool) : ∀ (xs : List (Int × Entry)) (st : RState),
    xs.Pairwise (fun a b => a.2.ts < b.2.ts) →
    msgsOf (replayEntries vis st xs).out =
      msgsOf st.out ++ (xs.map (·.2)).filter (fun e => !skipEntry vis st.peer e) := by
  intro xs
  induction xs with
  | nil => intro st _; simp [replayEntries_nil]
  | cons x r ih =>
    intro st hp
    rw [replayEntries_cons]
    have hp' := List.pairwise_cons.mp hp
    cases hsk : skipEntry vis st.peer x.2 with
    | true =>
      rw [stepEntry_skip vis st x hsk, ih st hp'.2]
      simp [hsk]
    | false =>
      have hs := stepEntry_send vis st x hsk
      have hgt := not_skip_gt vis _ _ hsk
      have hf : (r.map (·.2)).filter (fun e => !skipEntry vis x.2.ts e) =
          (r.map (·.2)).filter (fun e => !skipEntry vis st.peer e) := by
        apply List.filter_congr
        intro e he
        obtain ⟨y, hy, rfl⟩ := List.mem_map.mp he
        have := hp'.1 y hy
        simp only [skipEntry]
        have h1 : decide (y.2.ts ≤ x.2.ts) = false := by simp; omega
        have h2 : decide (y.2.ts ≤ st.peer) = false := by simp; omega
        rw [h1, h2]
      rw [ih _ hp'.2, hs.2.1, hs.1, hf]
      simp [hsk]

/-- The number of messages a pass sends is what `count` says. -/
theorem replayEntries_count (vis : Nat → Bool) : ∀ (xs : List (Int × Entry)) (st : RState),
    (replayEntries vis st xs).count + (msgsOf st.out).length = st.count + (msgsOf (replayEntries vis st xs).out).length := by
  intro xs
  induction xs with
  | nil => intro st; simp [replayEntries_nil, Nat.add_comm]
  | cons x r ih =>
    intro st
    rw [replayEntries_cons]
    cases hsk : skipEntry vis st.peer x.2 with
    | true => rw [stepEntry_skip vis st x hsk]; exact ih st
    | false =>
      have hs := stepEntry_send vis st x hsk
      have := ih (stepEntry vis st x)
      rw [hs.2.1, hs.2.2] at this
      simp only [List.length_append, List.length_singleton] at this
      omega

/-! ## the file selection of a pass -/

/-- All records on disk in replay order, without the `name ≥ peer_ts` selection. -/
def fullView (dec : Bytes → Option Entry) (now : Int) (s : Sender) : List (Int × Entry) :=
  (sortByName s.files).flatMap (fun f => (entriesOf dec f.bytes).map (fun e => (f.name, e)))
    ++ (entriesOf dec (match s.current with | some b => b | none => [])).map (fun e => ((now + usec) / usec, e))

theorem sublist_flatMap {α β : Type} (g : α → List β) {l₁ l₂ : List α} (h : l₁.Sublist l₂) :
    (l₁.flatMap g).Sublist (l₂.flatMap g) := by
  induction h with
  | slnil => simp
  | cons a _ ih => simp only [List.flatMap_cons]; exact List.Sublist.trans ih (List.sublist_append_right _ _)
  | cons_cons a _ ih => simp only [List.flatMap_cons]; exact List.Sublist.append (List.Sublist.refl _) ih

theorem view_sublist (dec : Bytes → Option Entry) (now peer : Int) (s : Sender) :
    (view dec now peer s).Sublist (fullView dec now s) := by
  simp only [view, fullView]
  exact List.Sublist.append (sublist_flatMap _ List.filter_sublist) (List.Sublist.refl _)

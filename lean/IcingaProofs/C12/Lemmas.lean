/-
  C12 — helper lemmas: the replay fold, the pass structure of ReplayLog, reading of truncated / damaged files.
-/
import IcingaModel.C12.Model
import IcingaProofs.C20

namespace Icinga.C12
open Icinga.C20

/-! ## msgsOf -/

theorem msgsOf_append (a b : List Out) : msgsOf (a ++ b) = msgsOf a ++ msgsOf b := by
  induction a with
  | nil => rfl
  | cons x r ih => cases x <;> simp [msgsOf, ih]

@[simp] theorem msgsOf_msg (e : Entry) : msgsOf [Out.msg e] = [e] := rfl
@[simp] theorem msgsOf_setPos (v : Int) : msgsOf [Out.setPos v] = [] := rfl
@[simp] theorem msgsOf_nil : msgsOf [] = [] := rfl

/-! ## one record -/

theorem skipEntry_mono (vis : Nat → Bool) (p p' : Int) (e : Entry) (h : p ≤ p') (hs : skipEntry vis p e = true) :
    skipEntry vis p' e = true := by
  simp only [skipEntry, Bool.or_eq_true, decide_eq_true_eq] at hs ⊢
  rcases hs with hs | hs
  · left; omega
  · right; exact hs

theorem stepEntry_skip (vis : Nat → Bool) (st : RState) (x : Int × Entry) (h : skipEntry vis st.peer x.2 = true) :
    stepEntry vis st x = st := by
  simp [stepEntry, h]

theorem stepEntry_send (vis : Nat → Bool) (st : RState) (x : Int × Entry) (h : skipEntry vis st.peer x.2 = false) :
    (stepEntry vis st x).peer = x.2.ts ∧ msgsOf (stepEntry vis st x).out = msgsOf st.out ++ [x.2] ∧
    (stepEntry vis st x).count = st.count + 1 := by
  simp only [stepEntry, h, Bool.false_eq_true, if_false]
  split <;> simp [msgsOf_append, msgsOf]

theorem not_skip_gt (vis : Nat → Bool) (p : Int) (e : Entry) (h : skipEntry vis p e = false) : p < e.ts := by
  simp only [skipEntry, Bool.or_eq_false_iff, decide_eq_false_iff_not] at h
  omega

theorem replayEntries_cons (vis : Nat → Bool) (st : RState) (x : Int × Entry) (xs : List (Int × Entry)) :
    replayEntries vis st (x :: xs) = replayEntries vis (stepEntry vis st x) xs := rfl

theorem replayEntries_nil (vis : Nat → Bool) (st : RState) : replayEntries vis st [] = st := rfl

/-- Records that are all skipped leave the state untouched. -/
theorem replayEntries_all_skipped (vis : Nat → Bool) : ∀ (xs : List (Int × Entry)) (st : RState),
    (∀ x ∈ xs, skipEntry vis st.peer x.2 = true) → replayEntries vis st xs = st := by
  intro xs
  induction xs with
  | nil => intro st _; rfl
  | cons x r ih =>
    intro st h
    rw [replayEntries_cons, stepEntry_skip vis st x (h x (by simp))]
    exact ih st (fun y hy => h y (by simp [hy]))

/-- The position never decreases, and at the end every record of the pass is one the filter skips. -/
theorem replayEntries_peer (vis : Nat → Bool) : ∀ (xs : List (Int × Entry)) (st : RState),
    st.peer ≤ (replayEntries vis st xs).peer ∧
    (∀ x ∈ xs, skipEntry vis (replayEntries vis st xs).peer x.2 = true) := by
  intro xs
  induction xs with
  | nil => intro st; exact ⟨Int.le_refl _, by intro x hx; cases hx⟩
  | cons x r ih =>
    intro st
    rw [replayEntries_cons]
    have ihr := ih (stepEntry vis st x)
    cases hsk : skipEntry vis st.peer x.2 with
    | true =>
      rw [stepEntry_skip vis st x hsk] at ihr ⊢
      refine ⟨ihr.1, ?_⟩
      intro y hy
      rcases List.mem_cons.mp hy with rfl | hy
      · exact skipEntry_mono vis _ _ _ ihr.1 hsk
      · exact ihr.2 y hy
    | false =>
      have hs := stepEntry_send vis st x hsk
      have hgt := not_skip_gt vis _ _ hsk
      refine ⟨by have := ihr.1; omega, ?_⟩
      intro y hy
      rcases List.mem_cons.mp hy with rfl | hy
      · have : y.2.ts ≤ (replayEntries vis (stepEntry vis st y) r).peer := by have := ihr.1; omega
        simp only [skipEntry, Bool.or_eq_true, decide_eq_true_eq]; left; exact this
      · exact ihr.2 y hy

/-- Whatever the order of the records: every message sent was not sent before the pass, is newer than the
    position the pass started from and visible to the peer's zone. -/
theorem replayEntries_sent (vis : Nat → Bool) : ∀ (xs : List (Int × Entry)) (st : RState),
    ∃ new, msgsOf (replayEntries vis st xs).out = msgsOf st.out ++ new ∧
      new.Sublist (xs.map (·.2)) ∧ ∀ e ∈ new, skipEntry vis st.peer e = false := by
  intro xs
  induction xs with
  | nil => intro st; exact ⟨[], by simp [replayEntries_nil], by simp, by simp⟩
  | cons x r ih =>
    intro st
    rw [replayEntries_cons]
    obtain ⟨new, h1, h2, h3⟩ := ih (stepEntry vis st x)
    cases hsk : skipEntry vis st.peer x.2 with
    | true =>
      rw [stepEntry_skip vis st x hsk] at h1 h3 ⊢
      exact ⟨new, h1, by simp only [List.map_cons]; exact h2.cons _, h3⟩
    | false =>
      have hs := stepEntry_send vis st x hsk
      refine ⟨x.2 :: new, by rw [h1, hs.2.1]; simp, by simp only [List.map_cons]; exact h2.cons_cons _, ?_⟩
      intro e he
      rcases List.mem_cons.mp he with rfl | he
      · exact hsk
      · have := h3 e he
        rw [hs.1] at this
        have hgt := not_skip_gt vis _ _ hsk
        simp only [skipEntry, Bool.or_eq_false_iff, decide_eq_false_iff_not] at this ⊢
        exact ⟨by omega, this.2⟩

/-- With strictly increasing timestamps one pass sends exactly the records the filter lets through. -/
theorem replayEntries_sorted (vis : Nat → Bool) : ∀ (xs : List (Int × Entry)) (st : RState),
    xs.Pairwise (fun a b => a.2.ts < b.2.ts) →
    msgsOf (replayEntries vis st xs).out =
      msgsOf st.out ++ (xs.map (·.2)).filter (fun e => !skipEntry vis st.peer e) := by
  intro xs
  induction xs with
  | nil => intro st _; simp [replayEntries_nil]
  | cons x r ih =>
    intro st hp
    rw [replayEntries_cons]
    have hp' := List.pairwise_cons.mp hp
    cases hsk : skipEntry vis st.peer x.2 with
    | true =>
      rw [stepEntry_skip vis st x hsk, ih st hp'.2]
      simp [hsk]
    | false =>
      have hs := stepEntry_send vis st x hsk
      have hgt := not_skip_gt vis _ _ hsk
      have hf : (r.map (·.2)).filter (fun e => !skipEntry vis x.2.ts e) =
          (r.map (·.2)).filter (fun e => !skipEntry vis st.peer e) := by
        apply List.filter_congr
        intro e he
        obtain ⟨y, hy, rfl⟩ := List.mem_map.mp he
        have := hp'.1 y hy
        simp only [skipEntry]
        have h1 : decide (y.2.ts ≤ x.2.ts) = false := by simp; omega
        have h2 : decide (y.2.ts ≤ st.peer) = false := by simp; omega
        rw [h1, h2]
      rw [ih _ hp'.2, hs.2.1, hs.1, hf]
      simp [hsk]

/-- The number of messages a pass sends is what `count` says. -/
theorem replayEntries_count (vis : Nat → Bool) : ∀ (xs : List (Int × Entry)) (st : RState),
    (replayEntries vis st xs).count + (msgsOf st.out).length = st.count + (msgsOf (replayEntries vis st xs).out).length := by
  intro xs
  induction xs with
  | nil => intro st; simp [replayEntries_nil]
  | cons x r ih =>
    intro st
    rw [replayEntries_cons]
    cases hsk : skipEntry vis st.peer x.2 with
    | true => rw [stepEntry_skip vis st x hsk]; exact ih st
    | false =>
      have hs := stepEntry_send vis st x hsk
      have := ih (stepEntry vis st x)
      rw [hs.2.1, hs.2.2] at this
      simp only [List.length_append, List.length_singleton] at this
      omega

/-! ## the file selection of a pass -/

/-- All records on disk in replay order, without the `name ≥ peer_ts` selection. -/
def fullView (dec : Bytes → Option Entry) (now : Int) (s : Sender) : List (Int × Entry) :=
  (sortByName s.files).flatMap (fun f => (entriesOf dec f.bytes).map (fun e => (f.name, e)))
    ++ (entriesOf dec (match s.current with | some b => b | none => [])).map (fun e => ((now + usec) / usec, e))

theorem sublist_flatMap {α β : Type} (g : α → List β) {l₁ l₂ : List α} (h : l₁.Sublist l₂) :
    (l₁.flatMap g).Sublist (l₂.flatMap g) := by
  induction h with
  | slnil => simp
  | cons a _ ih => simp only [List.flatMap_cons]; exact List.Sublist.trans ih (List.sublist_append_right _ _)
  | cons_cons a _ ih => simp only [List.flatMap_cons]; exact List.Sublist.append (List.Sublist.refl _) ih

theorem view_sublist (dec : Bytes → Option Entry) (now peer : Int) (s : Sender) :
    (view dec now peer s).Sublist (fullView dec now s) := by
  simp only [view, fullView]
  exact List.Sublist.append (sublist_flatMap _ List.filter_sublist) (List.Sublist.refl _)

theorem view_mono (dec : Bytes → Option Entry) (now p p' : Int) (s : Sender) (h : p ≤ p') (x : Int × Entry)
    (hx : x ∈ view dec now p' s) : x ∈ view dec now p s := by
  simp only [view, List.mem_append, List.mem_flatMap, List.mem_filter, decide_eq_true_eq] at hx ⊢
  rcases hx with ⟨f, ⟨hf, hge⟩, hm⟩ | hx
  · left; exact ⟨f, ⟨hf, by omega⟩, hm⟩
  · right; exact hx

/-- A pass that starts where a previous pass over (a superset of) the same records ended sends nothing. -/
theorem second_pass_empty (dec : Bytes → Option Entry) (vis : Nat → Bool) (now : Int) (s : Sender) (p lp : Int) (lp' : Int) :
    let r1 := replayPass dec vis now s p lp
    replayPass dec vis now s r1.peer lp' = ⟨r1.peer, lp', [], 0⟩ := by
  intro r1
  have h := replayEntries_peer vis (view dec now p s) ⟨p, lp, [], 0⟩
  simp only [replayPass]
  apply replayEntries_all_skipped
  intro x hx
  exact h.2 x (view_mono dec now p _ s h.1 x hx)

/-- The loop of ReplayLog: whatever the first pass sent, the following passes send nothing; three
    iterations always suffice. -/
theorem replayLoop_first_pass (dec : Bytes → Option Entry) (vis : Nat → Bool) (limit : Nat) (now : Int) (s : Sender) (p : Int) :
    let r1 := replayPass dec vis now s p p
    let r := replayLoop (replayPass dec vis now s) limit 3 none p p [] 0
    r.out = r1.out ∧ r.peer = r1.peer ∧ r.fuelOut = false ∧ 2 ≤ r.passes := by
  intro r1 r
  have h2 := second_pass_empty dec vis now s p p
  simp only at h2
  have h2a := h2 r1.logpos
  have h3 : replayPass dec vis now s r1.peer r1.logpos = ⟨r1.peer, r1.logpos, [], 0⟩ := h2a
  by_cases hc : r1.count > limit
  · simp only [r, replayLoop, Bool.false_eq_true, if_false, List.nil_append, hc, decide_true, Bool.not_true, h3,
      List.append_nil, Nat.zero_add]
    have : ¬ (0 > limit) := by omega
    simp [this, h3, r1]
    split <;> simp
  · simp [r, replayLoop, hc, h3, r1]

/-! ## file selection does not lose anything the filter would let through -/

theorem filter_flatMap_filter {α β : Type} (c : α → Bool) (g : α → List β) (w : β → Bool) : ∀ (L : List α),
    (∀ a ∈ L, c a = false → ∀ b ∈ g a, w b = false) →
    ((L.filter c).flatMap g).filter w = (L.flatMap g).filter w := by
  intro L
  induction L with
  | nil => intro _; rfl
  | cons a r ih =>
    intro h
    have ihr := ih (fun x hx => h x (by simp [hx]))
    cases hc : c a with
    | true => simp [List.filter_cons, hc, List.flatMap_cons, List.filter_append, ihr]
    | false =>
      have : (g a).filter w = [] := List.filter_eq_nil_iff.mpr (fun b hb => by simp [h a (by simp) hc b hb])
      simp [List.filter_cons, hc, List.flatMap_cons, List.filter_append, ihr, this]

theorem mem_insertByName (f x : LFile) : ∀ (l : List LFile), x ∈ insertByName f l ↔ x = f ∨ x ∈ l := by
  intro l
  induction l with
  | nil => simp [insertByName]
  | cons g r ih =>
    simp only [insertByName]
    split
    · simp
    · simp only [List.mem_cons, ih]
      constructor
      · rintro (h | h | h) <;> simp [h]
      · rintro (h | h | h) <;> simp [h]

theorem mem_sortByName (x : LFile) : ∀ (l : List LFile), x ∈ sortByName l ↔ x ∈ l := by
  intro l
  induction l with
  | nil => simp [sortByName]
  | cons g r ih => simp [sortByName, mem_insertByName, ih]

/-- The view of a pass depends on the directory only. -/
theorem view_congr (dec : Bytes → Option Entry) (now p : Int) (s₁ s₂ : Sender) (hf : s₁.files = s₂.files)
    (hc : s₁.current = s₂.current) : view dec now p s₁ = view dec now p s₂ := by
  simp [view, hf, hc]

/-! ## reading truncated files -/

theorem chunkF_flatten : ∀ (f : Nat) (bs : Bytes), bs.length ≤ f → (chunkF f bs).flatten = bs := by
  intro f
  induction f with
  | zero => intro bs h; have : bs = [] := List.eq_nil_of_length_eq_zero (by omega); subst this; rfl
  | succ f ih =>
    intro bs h
    simp only [chunkF]
    split
    · rename_i he; simp at he; simp [he]
    · rename_i he
      have hpos : 0 < bs.length := by
        cases bs with
        | nil => simp at he
        | cons => simp
      rw [List.flatten_cons, ih (bs.drop 65536) (by rw [List.length_drop]; omega), List.take_append_drop]

theorem chunks_flatten (bs : Bytes) : (chunks bs).flatten = bs := chunkF_flatten _ _ (Nat.le_refl _)

theorem takeSome_map_some {α β : Type} (enc : α → β) (dec : β → Option α) (h : ∀ a, dec (enc a) = some a) :
    ∀ (l : List α), takeSome ((l.map enc).map dec) = l := by
  intro l
  induction l with
  | nil => rfl
  | cons a r ih => simp only [List.map_cons, h, takeSome, ih]

theorem nsEncodeAll_append (a b : List Bytes) : nsEncodeAll (a ++ b) = nsEncodeAll a ++ nsEncodeAll b := by
  induction a with
  | nil => rfl
  | cons p r ih => simp [nsEncodeAll, ih]

theorem nsEncode_ne_nil (p : Bytes) : nsEncode p ≠ [] := by simp [nsEncode]

/-- A prefix of a sequence of frames = some complete frames + a proper prefix of the next one. -/
theorem take_encodeAll : ∀ (ps : List Bytes) (k : Nat), ∃ (j : Nat) (t : Bytes),
    (nsEncodeAll ps).take k = nsEncodeAll (ps.take j) ++ t ∧
    (t = [] ∨ ∃ q suffix, q ∈ ps ∧ suffix ≠ [] ∧ t ++ suffix = nsEncode q) ∧
    (nsEncodeAll (ps.take j)).length ≤ k ∧
    (j < ps.length → k < (nsEncodeAll (ps.take (j + 1))).length) := by
  intro ps
  induction ps with
  | nil => intro k; exact ⟨0, [], by simp [nsEncodeAll], Or.inl rfl, by simp [nsEncodeAll], by simp⟩
  | cons p r ih =>
    intro k
    by_cases hk : k < (nsEncode p).length
    · refine ⟨0, (nsEncode p).take k, ?_, ?_, by simp [nsEncodeAll], ?_⟩
      · simp only [nsEncodeAll, List.take_zero, List.nil_append]
        rw [List.take_append_of_le_length (by omega)]
      · right
        refine ⟨p, (nsEncode p).drop k, by simp, ?_, List.take_append_drop _ _⟩
        intro h
        have := congrArg List.length h
        simp only [List.length_drop, List.length_nil] at this
        omega
      · intro _
        simp only [Nat.zero_add, List.take_succ_cons, List.take_zero, nsEncodeAll, List.append_nil]
        exact hk
    · obtain ⟨j, t, h1, h2, h3, h4⟩ := ih (k - (nsEncode p).length)
      refine ⟨j + 1, t, ?_, ?_, ?_, ?_⟩
      · simp only [nsEncodeAll, List.take_succ_cons, List.append_assoc]
        rw [List.take_append, List.take_of_length_le (by omega), h1]
      · rcases h2 with h2 | ⟨q, sfx, hq, hs, he⟩
        · exact Or.inl h2
        · exact Or.inr ⟨q, sfx, by simp [hq], hs, he⟩
      · simp only [List.take_succ_cons, nsEncodeAll, List.length_append]; omega
      · intro hj
        have := h4 (by simpa using hj)
        simp only [List.take_succ_cons, nsEncodeAll, List.length_append] at this ⊢
        omega

/-! ## reading files with an arbitrary (damaged) tail -/

/-- Whatever the reader meets, the items it already produced stay. -/
theorem run_acc_prefix (max : Option Nat) : ∀ (fuel : Nat) (ctx : Ctx) (stream : List Bytes) (acc : List Bytes) (k : Nat),
    ∃ extra, (nsBufRun max fuel ctx stream acc k).items = acc.reverse ++ extra := by
  intro fuel
  induction fuel with
  | zero => intro ctx stream acc k; exact ⟨[], by simp [nsBufRun]⟩
  | succ f ih =>
    intro ctx stream acc k
    simp only [nsBufRun]
    rcases h : nsBufCall max ctx stream with ⟨st, ctx', s'⟩
    cases st with
    | eof => exact ⟨[], by simp⟩
    | error e => exact ⟨[], by simp⟩
    | needData => exact ih ctx' s' acc (k + 1)
    | newItem p =>
      obtain ⟨extra, he⟩ := ih ctx' s' (p :: acc) (k + 1)
      exact ⟨p :: extra, by simp only [he]; simp⟩

/-- The buffer parser in front of a complete valid frame followed by anything. -/
theorem parse_cons (max : Option Nat) (buf flat p rest : Bytes) (hp : okPayload max p)
    (he : buf ++ flat = nsEncode p ++ rest) :
    (nsParseBuf max buf = .item p (nsEncode p).length ∧ (nsEncode p).length ≤ buf.length ∧
        buf.drop (nsEncode p).length ++ flat = rest) ∨
    (nsParseBuf max buf = .need ∧ buf.length < (nsEncode p).length) := by
  by_cases hlen : (nsEncode p).length ≤ buf.length
  · left
    have : ∃ bs, buf = nsEncode p ++ bs ∧ rest = bs ++ flat := by
      rcases List.append_eq_append_iff.mp he with ⟨as, h1, h2⟩ | ⟨bs, h1, h2⟩
      · have hl := congrArg List.length h1
        simp only [List.length_append] at hl
        have has : as = [] := List.eq_nil_of_length_eq_zero (by omega)
        subst has
        exact ⟨[], by simpa using h1.symm, by simpa using h2.symm⟩
      · exact ⟨bs, h1, h2⟩
    obtain ⟨bs, h1, h2⟩ := this
    refine ⟨?_, hlen, ?_⟩
    · rw [h1]; exact nsParseBuf_frame max p bs hp.1 hp.2
    · rw [h1]; simp [h2]
  · right
    refine ⟨?_, by omega⟩
    rcases List.append_eq_append_iff.mp he with ⟨as, h1, _⟩ | ⟨bs, h1, _⟩
    · apply nsParseBuf_proper_prefix max p buf as hp.1 hp.2 _ h1.symm
      intro has; subst has; simp at h1; rw [h1] at hlen; omega
    · have hl := congrArg List.length h1
      simp only [List.length_append] at hl; omega

/-- Complete valid frames `ps` followed by ANY bytes `t`: the reader delivers `ps` first, whatever it makes
    of the rest (more items, an error, end-of-file). -/
theorem run_frames_garbage (max : Option Nat) : ∀ (fuel : Nat) (buf : Bytes) (mr : Bool) (stream : List Bytes) (acc : List Bytes)
    (k : Nat) (ps : List Bytes) (t : Bytes), (∀ p ∈ ps, okPayload max p) →
    buf ++ stream.flatten = nsEncodeAll ps ++ t →
    (mr = true → ∀ p ps', ps = p :: ps' → buf.length < (nsEncode p).length) →
    runMeasure ⟨buf, mr, false⟩ stream < fuel →
    ∃ extra, (nsBufRun max fuel ⟨buf, mr, false⟩ stream acc k).items = acc.reverse ++ ps ++ extra := by
  intro fuel
  induction fuel with
  | zero => intro buf mr stream acc k ps t _ _ _ hm; omega
  | succ f ih =>
    intro buf mr stream acc k ps t hps he hmr hm
    cases ps with
    | nil =>
      obtain ⟨extra, h⟩ := run_acc_prefix max (f + 1) ⟨buf, mr, false⟩ stream acc k
      exact ⟨extra, by simpa using h⟩
    | cons p ps' =>
      have hp := hps p (by simp)
      have key : ∀ (buf : Bytes) (stream : List Bytes),
          buf ++ stream.flatten = nsEncodeAll (p :: ps') ++ t →
          buf.length + stream.flatten.length + 2 * stream.length + 1 < f + 1 →
          ∃ extra, (nsBufRun max (f + 1) ⟨buf, false, false⟩ stream acc k).items = acc.reverse ++ (p :: ps') ++ extra := by
        intro buf stream he hm
        simp only [nsBufRun, call_parse max buf stream]
        simp only [nsEncodeAll, List.append_assoc] at he
        rcases parse_cons max buf stream.flatten p (nsEncodeAll ps' ++ t) hp he with ⟨hit, hle, hd⟩ | ⟨hnd, hlt⟩
        · simp only [hit]
          have hl3 := nsEncode_length_ge p
          obtain ⟨extra, h⟩ := ih (buf.drop (nsEncode p).length) false stream (p :: acc) (k + 1) ps' t
            (fun x hx => hps x (by simp [hx])) hd (by intro h; cases h)
            (by rw [runMeasure_mk, List.length_drop]; simp only [Bool.false_eq_true, if_false]; omega)
          exact ⟨extra, by rw [h]; simp⟩
        · simp only [hnd]
          exact ih buf true stream acc (k + 1) (p :: ps') t hps (by simpa [nsEncodeAll, List.append_assoc] using he)
            (fun _ q qs hq => by cases hq; exact hlt)
            (by rw [runMeasure_mk]; simp only [if_true]; omega)
      rw [runMeasure_mk] at hm
      cases mr with
      | false => exact key buf stream he (by simpa using hm)
      | true =>
        simp only [if_true] at hm
        cases stream with
        | nil =>
          exfalso
          have h1 := hmr rfl p ps' rfl
          have h2 := congrArg List.length he
          simp only [List.flatten_nil, List.append_nil, nsEncodeAll, List.length_append] at h2
          omega
        | cons c cs =>
          rw [run_fill max f buf c cs acc k]
          apply key _ cs
          · simpa [List.append_assoc] using he
          · rw [flatten_cons_length, List.length_cons] at hm
            simp only [List.length_append]; omega

theorem takeSome_append_some {α β : Type} (enc : α → β) (dec : β → Option α) (h : ∀ a, dec (enc a) = some a)
    (l : List α) (r : List β) : takeSome (((l.map enc) ++ r).map dec) = l ++ takeSome (r.map dec) := by
  induction l with
  | nil => rfl
  | cons a t ih => simp only [List.map_cons, List.cons_append, h, takeSome, ih]

/-! ## exactness of ReplayLog on a well-formed directory -/

/-- What the property wants replayed from position `p`: newer than `p` and visible to the peer's zone. -/
def wanted (vis : Nat → Bool) (p : Int) (e : Entry) : Bool := !skipEntry vis p e

/-- The records on disk are well formed for replay: strictly increasing timestamps in replay order, and
    every rotated file is named after a second later than all its records (`int(lastTs)+1`). -/
structure WF (dec : Bytes → Option Entry) (now : Int) (s : Sender) : Prop where
  increasing : (fullView dec now s).Pairwise (fun a b => a.2.ts < b.2.ts)
  named : ∀ f ∈ s.files, ∀ e ∈ entriesOf dec f.bytes, e.ts < f.name * usec


theorem replay_pass_aux (vis : Nat → Bool) (p lp : Int) (xs : List (Int × Entry))
    (hs : xs.Pairwise (fun a b => a.2.ts < b.2.ts)) :
    msgsOf (replayEntries vis ⟨p, lp, [], 0⟩ xs).out = (xs.map (·.2)).filter (wanted vis p) := by
  have := replayEntries_sorted vis xs ⟨p, lp, [], 0⟩ hs
  simp only [msgsOf_nil, List.nil_append] at this
  exact this

theorem replay_exact_aux (dec : Bytes → Option Entry) (vis : Nat → Bool) (limit : Nat) (now dur p : Int) (s : Sender)
    (hd : dur ≠ 0) (wf : WF dec now (openLog now s)) :
    msgsOf (replay dec vis limit now dur p s).out = ((fullView dec now (openLog now s)).map (·.2)).filter (wanted vis p) ∧
    (replay dec vis limit now dur p s).fuelOut = false := by
  have hd' : (dur == 0) = false := by simp [hd]
  simp only [replay, hd', Bool.false_eq_true, if_false]
  have h := replayLoop_first_pass dec vis limit now (openLog now s) p
  simp only at h
  rw [h.1, h.2.2.1]
  refine ⟨?_, rfl⟩
  have hsub := view_sublist dec now p (openLog now s)
  simp only [replayPass]
  rw [replay_pass_aux vis p p _ (List.Pairwise.sublist hsub wf.increasing)]
  -- the files dropped by `name ≥ peer_ts` contain nothing the filter would let through
  simp only [view, fullView, List.map_append, List.filter_append]
  congr 1
  rw [List.filter_map, List.filter_map]
  congr 1
  apply filter_flatMap_filter
  intro f hf hc x hx
  simp only [decide_eq_false_iff_not, Int.not_le] at hc
  obtain ⟨e, he, rfl⟩ := List.mem_map.mp hx
  have hn := wf.named f ((mem_sortByName f _).mp hf) e he
  simp only [Function.comp, wanted, skipEntry, Bool.not_eq_false', Bool.or_eq_true, decide_eq_true_eq]
  left; omega


/-
  C12 — helper lemmas for the clause no_live_before_sync / sync_completes on the model (`syncTrace` over `runSync`)
  and for the replay of the files BEHIND a damaged one.
-/
import IcingaProofs.C12.Lemmas
import IcingaModel.C12.Spec
import IcingaModel.C12.Trace

namespace Icinga.C12
open Icinga.C20

/-! ## who gets an event live -/

/-- Invariant of `relayEndpoint`'s fold: everybody in `live` is connected and not syncing. -/
theorem relayZone_live (peers : Nat → Peer) (master : Option Nat) (loc : Bool) : ∀ (eps : List Nat) (a : ZoneAcc),
    (∀ i ∈ a.live, (peers i).connected = true ∧ (peers i).syncing = false) →
    ∀ i ∈ (eps.foldl (relayEndpoint peers loc master) a).live, (peers i).connected = true ∧ (peers i).syncing = false := by
  intro eps
  induction eps with
  | nil => intro a h; exact h
  | cons e r ih =>
    intro a h
    simp only [List.foldl_cons]
    apply ih
    intro i hi
    simp only [relayEndpoint] at hi
    by_cases hc : (peers e).connected = true
    · simp only [hc, Bool.not_true, Bool.false_eq_true, if_false] at hi
      split at hi
      · exact h i hi
      · split at hi
        · exact h i hi
        · by_cases hs : (peers e).syncing = true
          · simp only [hs, if_true] at hi; exact h i hi
          · simp only [hs, Bool.false_eq_true, if_false, List.mem_append, List.mem_singleton] at hi
            rcases hi with hi | rfl
            · exact h i hi
            · exact ⟨hc, by simpa using hs⟩
    · simp only [hc, Bool.not_false, if_true] at hi
      split at hi <;> exact h i hi

/-- **SyncSendMessage's gate**: an event is queued live only for endpoints that are connected and not syncing. -/
theorem relay_live_in_sync (peers : Nat → Peer) (master : Option Nat) (zones : List (Bool × List Nat)) :
    ∀ i ∈ (relay peers master zones).live, (peers i).connected = true ∧ (peers i).syncing = false := by
  intro i hi
  simp only [relay, List.mem_flatMap, List.mem_map] at hi
  obtain ⟨a, ⟨z, _, rfl⟩, hia⟩ := hi
  exact relayZone_live peers master z.1 z.2 {} (by intro j hj; simp at hj) i hia

/-! ## the sync view of the model's trace -/

structure SyncInv (s : SyncSt) (n : Node) : Prop where
  att : ∀ p, s.attached p = (n.peers p).connected
  syn : ∀ p, s.attached p = true → s.replayed p = false → (n.peers p).syncing = true

/-- All steps pass and the ghost state they lead to. -/
def syncEnd : SyncSt → List SyncEv → Option SyncSt
  | s, [] => some s
  | s, e :: r => match syncStep s e with
    | (some _, _) => none
    | (none, s') => syncEnd s' r

theorem syncTrace_append : ∀ (a : List SyncEv) (s s' : SyncSt) (b : List SyncEv) (i : Nat), syncEnd s a = some s' →
    syncTrace s (a ++ b) i = syncTrace s' b (i + a.length) := by
  intro a
  induction a with
  | nil => intro s s' b i h; simp only [syncEnd, Option.some.injEq] at h; subst h; rfl
  | cons e r ih =>
    intro s s' b i h
    simp only [syncEnd] at h
    simp only [List.cons_append, syncTrace]
    cases hs : syncStep s e with
    | mk bad s1 =>
      rw [hs] at h
      cases bad with
      | some _ => cases h
      | none =>
        simp only at h ⊢
        rw [ih s1 s' b (i + 1) h]
        congr 1
        simp only [List.length_cons]; omega

theorem sync_init (t0 : Int) (pf sr tr : Bool) (durs : Nat → Int) : SyncInv {} (initNode t0 pf sr tr durs) :=
  { att := fun _ => rfl, syn := fun _ h => by cases h }

/-- One operation other than `attach`: the sync view passes and the invariant is kept. -/
theorem sync_step (c : Codec) (limit : Nat) (s : SyncSt) (n : Node) (op : Op) (h : SyncInv s n)
    (hw : ∀ p, op ≠ .attach p) :
    ∃ s', syncEnd s (syncObs c limit n op) = some s' ∧ SyncInv s' (stepOp c limit n op).1 := by
  cases op with
  | attach p => exact absurd rfl (hw p)
  | relay now id sec =>
    have hlive : ((relay n.peers n.master (zonesOf n.satRev n.topRev sec)).live.any
        (fun p => s.attached p && !s.replayed p)) = false := by
      rw [List.any_eq_false]
      intro p hp
      have hl := relay_live_in_sync n.peers n.master _ p hp
      cases ha : s.attached p with
      | false => simp
      | true =>
        cases hr : s.replayed p with
        | true => simp
        | false => have := h.syn p ha hr; rw [hl.2] at this; cases this
    refine ⟨s, by simp only [syncObs, syncEnd, syncStep, hlive]; rfl, ?_⟩
    constructor
    · intro p; rw [h.att p]; simp only [stepOp]; split <;> rfl
    · intro p ha hr
      have := h.syn p ha hr
      simp only [stepOp]; split <;> exact this
  | conn p =>
    by_cases hap : s.attached p = true
    · refine ⟨s, by simp only [syncObs, syncEnd, syncStep, hap, if_true], ?_⟩
      constructor
      · intro q; simp only [stepOp, Node.setPeer]
        by_cases hq : q = p
        · subst hq; simp [hap]
        · simp [hq, h.att q]
      · intro q ha hr; simp only [stepOp, Node.setPeer]
        by_cases hq : q = p
        · subst hq; simp
        · simp [hq, h.syn q ha hr]
    · refine ⟨_, by simp only [syncObs, syncEnd, syncStep, hap, Bool.false_eq_true, if_false]; rfl, ?_⟩
      constructor
      · intro q; simp only [stepOp, Node.setPeer]
        by_cases hq : q = p
        · subst hq; simp
        · simp [hq, h.att q]
      · intro q ha hr; simp only [stepOp, Node.setPeer]
        by_cases hq : q = p
        · subst hq; simp
        · simp only [hq, if_false] at ha hr ⊢; exact h.syn q ha hr
  | disc p =>
    refine ⟨_, by simp only [syncObs, syncEnd, syncStep]; rfl, ?_⟩
    constructor
    · intro q; simp only [stepOp, Node.setPeer]
      by_cases hq : q = p
      · subst hq; simp
      · simp [hq, h.att q]
    · intro q ha hr; simp only [stepOp, Node.setPeer]
      by_cases hq : q = p
      · subst hq; simp at ha
      · simp only [hq, if_false] at ha hr ⊢; exact h.syn q ha hr
  | replay now p =>
    have hflag : ((stepOp c limit n (.replay now p)).1.peers p).syncing = false := by
      simp [stepOp, Node.setPeer]
    refine ⟨_, by simp only [syncObs, syncEnd, syncStep, hflag, Bool.false_eq_true, if_false]; rfl, ?_⟩
    constructor
    · intro q; simp only [stepOp, Node.setPeer]
      by_cases hq : q = p
      · subst hq; simp [h.att q]
      · simp [hq, h.att q]
    · intro q ha hr; simp only [stepOp, Node.setPeer]
      by_cases hq : q = p
      · subst hq; simp only [if_true] at hr; rw [ha] at hr; cases hr
      · simp only [hq, if_false] at hr ⊢; exact h.syn q ha hr
  | rotate now => exact ⟨s, rfl, ⟨fun p => h.att p, fun p ha hr => h.syn p ha hr⟩⟩
  | timer now => exact ⟨s, rfl, ⟨fun p => h.att p, fun p ha hr => h.syn p ha hr⟩⟩
  | ack p v =>
    refine ⟨s, rfl, ?_⟩
    constructor
    · intro q; rw [h.att q]; simp only [stepOp, Node.setPeer]; split <;> rfl
    · intro q ha hr; have := h.syn q ha hr; simp only [stepOp, Node.setPeer]; split <;> exact this
  | recv p ts =>
    refine ⟨s, rfl, ?_⟩
    constructor
    · intro q; rw [h.att q]; simp only [stepOp, Node.setPeer]; split <;> rfl
    · intro q ha hr; have := h.syn q ha hr; simp only [stepOp, Node.setPeer]; split <;> exact this
  | crashStart now sr tr =>
    refine ⟨{}, by simp only [syncObs, syncEnd, syncStep], ?_⟩
    exact ⟨fun _ => rfl, fun _ ha => by cases ha⟩
  | stopStart now sr tr =>
    refine ⟨{}, by simp only [syncObs, syncEnd, syncStep], ?_⟩
    exact ⟨fun _ => rfl, fun _ ha => by cases ha⟩
  | drop => exact ⟨s, rfl, ⟨fun p => h.att p, fun p ha hr => h.syn p ha hr⟩⟩

/-! ## the files behind a damaged one -/

/-- `peer_ts` after a run of records is bounded by the start value and the records' own timestamps. -/
theorem replayEntries_peer_le (vis : Nat → Bool) (b : Int) : ∀ (xs : List (Int × Entry)) (st : RState),
    st.peer ≤ b → (∀ x ∈ xs, x.2.ts ≤ b) → (replayEntries vis st xs).peer ≤ b := by
  intro xs
  induction xs with
  | nil => intro st h _; exact h
  | cons x r ih =>
    intro st h hx
    rw [replayEntries_cons]
    apply ih
    · by_cases hs : skipEntry vis st.peer x.2 = true
      · rw [stepEntry_skip vis st x hs]; exact h
      · have hs' : skipEntry vis st.peer x.2 = false := by simpa using hs
        rw [(stepEntry_send vis st x hs').1]; exact hx x (List.mem_cons_self)
    · intro y hy; exact hx y (List.mem_cons_of_mem _ hy)

theorem replayEntries_append (vis : Nat → Bool) (st : RState) (xs ys : List (Int × Entry)) :
    replayEntries vis st (xs ++ ys) = replayEntries vis (replayEntries vis st xs) ys := by
  simp [replayEntries, List.foldl_append]

end Icinga.C12

/-
  C05 — the trigger cascade at arbitrary depth: `triggers` edges only point to newer downtimes, so the
  fuel the callers pass (the number of downtimes) never runs out, and after any operation every downtime
  whose `TriggerDowntime` guard was passed has all its chained downtimes triggered or untriggerable.
-/
import IcingaProofs.C05.Trace

namespace Icinga.C05

/-! ### Rank of a name: how many downtimes are at or after its position -/

def rk : List Nat → Nat → Nat
  | [], _ => 0
  | i :: is, c => if i = c then is.length + 1 else rk is c

theorem rk_le (ids : List Nat) (c : Nat) : rk ids c ≤ ids.length := by
  induction ids with
  | nil => simp [rk]
  | cons i is ih =>
    simp only [rk, List.length_cons]
    split <;> omega

theorem rk_pos {ids : List Nat} {c : Nat} (h : c ∈ ids) : 1 ≤ rk ids c := by
  induction ids with
  | nil => cases h
  | cons i is ih =>
    simp only [rk]
    split
    · omega
    · rename_i hne
      rcases List.mem_cons.mp h with rfl | h'
      · exact absurd rfl hne
      · exact ih h'

/-- `triggers` only name downtimes created later (further back in the list). -/
def Newer : List Dt → Prop
  | [] => True
  | d :: l => (∀ c ∈ d.triggers, c ∈ idsOf l) ∧ Newer l

theorem rk_lt {l : List Dt} (hn : Newer l) (hnd : (idsOf l).Nodup) {d : Dt} (hd : d ∈ l) {c : Nat}
    (hc : c ∈ d.triggers) : rk (idsOf l) c < rk (idsOf l) d.id := by
  induction l with
  | nil => cases hd
  | cons a l ih =>
    simp only [idsOf, List.map_cons, List.nodup_cons] at hnd
    obtain ⟨hna, hndl⟩ := hnd
    rcases List.mem_cons.mp hd with rfl | hd'
    · have hcl : c ∈ idsOf l := hn.1 c hc
      have hne : ¬ d.id = c := fun e => hna (by rw [e]; exact hcl)
      simp only [idsOf, List.map_cons, rk, hne, if_false, if_true]
      have := rk_le (List.map (fun x => x.id) l) c
      simp only [List.length_map] at this ⊢
      omega
    · have hda : ¬ a.id = d.id := fun e => hna (List.mem_map.mpr ⟨d, hd', e.symm⟩)
      have hlt := ih hn.2 hndl hd'
      have hcl : c ∈ idsOf l := by
        -- c is the id of a downtime after d, hence in l
        have := rk_pos (c := c) (ids := idsOf l)
        by_cases hm : c ∈ idsOf l
        · exact hm
        · exfalso
          -- rk of an absent id is 0, contradicting hlt ≥ ... we argue directly from Newer
          clear this
          have : ∀ (l : List Dt), Newer l → d ∈ l → c ∈ idsOf l := by
            intro l
            induction l with
            | nil => intro _ h; cases h
            | cons b l ih2 =>
              intro hn2 hd2
              rcases List.mem_cons.mp hd2 with rfl | hd3
              · exact List.mem_cons_of_mem _ (hn2.1 c hc)
              · exact List.mem_cons_of_mem _ (ih2 hn2.2 hd3)
          exact hm (this l hn.2 hd')
      have hca : ¬ a.id = c := fun e => hna (by rw [e]; exact hcl)
      simp only [idsOf, List.map_cons, rk, hda, hca, if_false]
      exact hlt

/-! ### Shape: ids and `triggers` are untouched by everything `TriggerDowntime` does -/

def RSh (d d' : Dt) : Prop := d'.id = d.id ∧ d'.triggers = d.triggers

theorem trigRel_RSh (now : Int) : TrigRel now (fun _ => True) (fun _ => True) RSh where
  refl := fun _ => ⟨rfl, rfl⟩
  trans := fun a b c h g => ⟨g.1.trans h.1, g.2.trans h.2⟩
  ctx := fun _ _ _ _ => trivial
  trig := fun _ _ _ _ _ _ => ⟨rfl, rfl⟩

theorem newer_of_pw {l l' : List Dt} (h : Pw RSh l l') (hn : Newer l) : Newer l' := by
  induction h with
  | nil => trivial
  | @cons a b l l' hab hp ih =>
    have hids : idsOf l' = idsOf l := by
      clear ih hn
      induction hp with
      | nil => rfl
      | cons h _ ih2 => simp only [idsOf, List.map_cons, h.1] at ih2 ⊢; rw [ih2]
    refine ⟨?_, ih hn.2⟩
    intro c hc
    rw [hab.2] at hc
    rw [hids]
    exact hn.1 c hc

theorem newer_of_both {l l' : List Dt} (hb : Both RSh l l') (hids : idsOf l' = idsOf l)
    (hnd : (idsOf l).Nodup) (hn : Newer l) : Newer l' :=
  newer_of_pw (forall2_of_both (fun _ _ r => r.1) l l' hids hnd hb) hn

/-! ### Done is preserved, OnDowntimeTriggered counts only grow -/

def DoneP (now : Int) (x : Dt) : Prop := x.trigger ≠ 0 ∨ canBeTriggered now x = false

/-- Across any update at `now`. -/
def RD (now : Int) (d d' : Dt) : Prop :=
  d'.id = d.id ∧ (∀ c ∈ d.triggers, c ∈ d'.triggers) ∧ d.trigEv ≤ d'.trigEv ∧ (d.removed = true → d' = d) ∧
  (0 < d.entry → 0 < d'.entry) ∧ (d'.removed = false → DoneP now d → DoneP now d') ∧ d'.fixed = d.fixed

theorem rd_same {now : Int} {d d' : Dt} (hr : d.removed = false) (h1 : d'.id = d.id)
    (h2 : ∀ c ∈ d.triggers, c ∈ d'.triggers) (h3 : d.trigEv ≤ d'.trigEv) (h4 : 0 < d.entry → 0 < d'.entry)
    (h5 : DoneP now d → DoneP now d') (h6 : d'.fixed = d.fixed := by rfl) : RD now d d' :=
  ⟨h1, h2, h3, (fun h => by rw [hr] at h; cases h), h4, fun _ => h5, h6⟩

theorem doneP_congr {now : Int} {d d' : Dt} (h1 : d'.fixed = d.fixed) (h2 : d'.start = d.start)
    (h3 : d'.fin = d.fin) (h4 : d'.duration = d.duration) (h5 : d'.trigger = d.trigger) :
    DoneP now d → DoneP now d' := by
  intro h
  rcases h with h | h
  · left; rw [h5]; exact h
  · right
    rw [← h]
    simp [canBeTriggered, isExpired, isInEffect, isTriggered, h1, h2, h3, h4, h5]

theorem stepRel_RD (now : Int) : StepRel now (fun t => 0 < t) (fun d => 0 < d.entry) (RD now) where
  refl := fun d => ⟨rfl, fun _ h => h, Nat.le_refl _, fun _ => rfl, id, fun _ h => h, rfl⟩
  trans := by
    intro a b c ⟨h1, h2, h3, h4, h5, h6, h7⟩ ⟨g1, g2, g3, g4, g5, g6, g7⟩
    refine ⟨g1.trans h1, fun x hx => g2 x (h2 x hx), by omega, ?_, fun h => g5 (h5 h), ?_, g7.trans h7⟩
    · intro ha; have := h4 ha; subst this; exact g4 ha
    · intro hc hd
      have hb : b.removed = false := by
        cases hb : b.removed with
        | false => rfl
        | true => rw [g4 hb] at hc; rw [hb] at hc; cases hc
      exact g6 hc (h6 hb hd)
  ctx := fun _ _ r h => r.2.2.2.2.1 h
  trig := by
    intro t d ht _ _ hr
    apply rd_same (d' := trigSelf t d) hr rfl (fun _ h => h) (by simp [trigSelf, noteTriggered, markTriggered]) id
    intro _
    left
    have ht' : (0 : Int) < t := ht
    by_cases h0 : d.trigger = 0 <;> simp [trigSelf, noteTriggered, markTriggered, h0]
    omega
  startT := by
    intro d hc _ _ _
    have : d.entry ≤ max d.start d.entry := Int.le_max_right _ _
    omega
  start := by
    intro d hc _ _ hr
    apply rd_same (d' := startSelf d) hr rfl (fun _ h => h)
      (by simp [startSelf, trigSelf, noteTriggered, markTriggered, noteStarted]) id
    intro _
    left
    have : d.entry ≤ max d.start d.entry := Int.le_max_right _ _
    have hne : max d.start d.entry ≠ 0 := by omega
    by_cases h0 : d.trigger = 0 <;>
      simp [startSelf, trigSelf, noteTriggered, markTriggered, noteStarted, h0, hne]
  setup := by
    intro d _ hr
    exact rd_same (d' := setupCleanup d) hr rfl (fun _ h => h) (Nat.le_refl _) id (doneP_congr rfl rfl rfl rfl rfl)
  addTrig := by
    intro c d _ hr
    unfold addTrigger
    split
    · exact rd_same hr rfl (fun _ h => h) (Nat.le_refl _) id id
    · exact rd_same hr rfl (fun x h => List.mem_append_left _ h) (Nat.le_refl _) id
        (doneP_congr rfl rfl rfl rfl rfl)
  remove := by
    intro d _ hr
    refine ⟨rfl, fun _ h => h, Nat.le_refl _, (fun h => by rw [hr] at h; cases h), id, ?_, rfl⟩
    intro h; simp [removeDt] at h
  disarm := by
    intro d _ hr _ _
    exact rd_same hr rfl (fun _ h => h) (Nat.le_refl _) id (doneP_congr rfl rfl rfl rfl rfl)

theorem rd_setq (now : Int) (b : Bool) (d : Dt) : RD now d (setQuiet b d) := by
  have h := setQuiet_eq b d
  refine ⟨h.1, fun c hc => by rw [h.2.2.2.2.2.2.2.2.1]; exact hc,
    by rw [h.2.2.2.2.2.2.2.2.2.2.2.2.2.1]; exact Nat.le_refl _, h.2.2.2.2.2.2.2.2.2.2.2.2.2.2.2.2,
    fun he => by rw [h.2.2.2.2.2.2.2.1]; exact he,
    fun _ => doneP_congr h.2.2.2.1 h.2.2.2.2.1 h.2.2.2.2.2.1 h.2.2.2.2.2.2.1 h.2.2.1, h.2.2.2.1⟩

/-! ### Closure under the cascade -/

/-- Every downtime whose guard was passed between `l` and `l'` (its OnDowntimeTriggered count grew) has
    each downtime chained to it — and still existing — triggered or untriggerable in `l'`. -/
def Closed (now : Int) (l l' : List Dt) : Prop :=
  ∀ q ∈ l, ∀ q' ∈ l', q'.id = q.id → q.trigEv < q'.trigEv →
    ∀ c ∈ q.triggers, ∀ x' ∈ l', x'.id = c → x'.removed = false → DoneP now x'

/-- Well-formed list of downtimes. -/
def WFL (l : List Dt) : Prop := (idsOf l).Nodup ∧ Newer l ∧ AllC (fun d => 0 < d.entry) l

theorem closed_same {now : Int} {l l' : List Dt}
    (h : ∀ q ∈ l, ∀ q' ∈ l', q'.id = q.id → q'.trigEv ≤ q.trigEv) : Closed now l l' := by
  intro q hq q' hq' hid hlt
  have := h q hq q' hq' hid
  omega

theorem closed_refl (now : Int) {l : List Dt} (hnd : (idsOf l).Nodup) : Closed now l l := by
  apply closed_same
  intro q hq q' hq' hid
  have : q' = q := eq_of_id hnd hq' hq hid
  subst this; exact Nat.le_refl _

theorem closed_comp {now : Int} {l l1 l2 : List Dt} (h1 : Closed now l l1) (h2 : Closed now l1 l2)
    (b1 : Both (RD now) l l1) (b2 : Both (RD now) l1 l2) (hnd : (idsOf l1).Nodup) : Closed now l l2 := by
  intro q hq q2 hq2 hid hlt c hc x2 hx2 hxid hxr
  obtain ⟨q1, hq1, r1⟩ := b1.1 q hq
  obtain ⟨p1, hp1, rp⟩ := b2.2 q2 hq2
  have hpq : p1 = q1 := eq_of_id hnd hp1 hq1 (by rw [← rp.1, hid, r1.1])
  subst hpq
  by_cases hl : q.trigEv < p1.trigEv
  · obtain ⟨x1, hx1, rx⟩ := b2.2 x2 hx2
    have hx1r : x1.removed = false := by
      cases h : x1.removed with
      | false => rfl
      | true => rw [rx.2.2.2.1 h] at hxr; rw [h] at hxr; cases hxr
    have := h1 q hq p1 hq1 r1.1 hl c hc x1 hx1 (by rw [← rx.1]; exact hxid) hx1r
    exact rx.2.2.2.2.2.1 hxr this
  · have hle := r1.2.2.1
    have hlt2 : p1.trigEv < q2.trigEv := by omega
    exact h2 p1 hq1 q2 hq2 rp.1 hlt2 c (r1.2.1 c hc) x2 hx2 hxid hxr

/-- A fold of steps each of which is closed. -/
theorem closed_foldl {now : Int} {α : Type} (P : List Dt → Prop) (g : List Dt → α → List Dt) (xs : List α)
    (hP : ∀ acc, P acc → (idsOf acc).Nodup)
    (hg : ∀ acc, P acc → ∀ x ∈ xs, Closed now acc (g acc x) ∧ Both (RD now) acc (g acc x) ∧ P (g acc x)) :
    ∀ l, P l → Closed now l (xs.foldl g l) ∧ Both (RD now) l (xs.foldl g l) ∧ P (xs.foldl g l) := by
  induction xs with
  | nil => intro l hl; exact ⟨closed_refl now (hP l hl), both_refl (stepRel_RD now).refl l, hl⟩
  | cons x xs ih =>
    intro l hl
    obtain ⟨c1, b1, p1⟩ := hg l hl x List.mem_cons_self
    obtain ⟨c2, b2, p2⟩ := ih (fun acc ha y hy => hg acc ha y (List.mem_cons_of_mem _ hy)) (g l x) p1
    exact ⟨closed_comp c1 c2 b1 b2 (hP _ p1), both_trans (stepRel_RD now).trans b1 b2, p2⟩

theorem newer_ids {l : List Dt} (hn : Newer l) {d : Dt} (hd : d ∈ l) {c : Nat} (hc : c ∈ d.triggers) :
    c ∈ idsOf l := by
  induction l with
  | nil => cases hd
  | cons a l ih =>
    rcases List.mem_cons.mp hd with rfl | hd'
    · exact List.mem_cons_of_mem _ (hn.1 c hc)
    · exact List.mem_cons_of_mem _ (ih hn.2 hd')

/-- What a `TriggerDowntime` call keeps. -/
theorem wfl_triggerDt {now t : Int} (ht : 0 < t) (F : Nat) (id : Nat) (l : List Dt) (hw : WFL l) :
    WFL (triggerDt F now t id l) ∧ Both (RD now) l (triggerDt F now t id l) ∧
      idsOf (triggerDt F now t id l) = idsOf l := by
  obtain ⟨hnd, hn, he⟩ := hw
  have hids := ids_triggerDt F now t id l
  have hb := both_triggerDt (stepRel_RD now).toAddRel.toTrigRel F t ht id l he
  refine ⟨⟨by rw [hids]; exact hnd, ?_, allc_of_both (stepRel_RD now).ctx hb he⟩, hb, hids⟩
  exact newer_of_both (both_triggerDt (trigRel_RSh now) F t trivial id l (allc_trivial _)) hids hnd hn

theorem wfl_cascade {now t : Int} (ht : 0 < t) (F : Nat) (cs : List Nat) (l : List Dt) (hw : WFL l) :
    WFL (cs.foldl (fun acc c => triggerDt F now t c acc) l) ∧
      Both (RD now) l (cs.foldl (fun acc c => triggerDt F now t c acc) l) ∧
      idsOf (cs.foldl (fun acc c => triggerDt F now t c acc) l) = idsOf l := by
  induction cs generalizing l with
  | nil => exact ⟨hw, both_refl (stepRel_RD now).refl l, rfl⟩
  | cons c cs ih =>
    obtain ⟨w1, b1, i1⟩ := wfl_triggerDt ht F c l hw
    obtain ⟨w2, b2, i2⟩ := ih (triggerDt F now t c l) w1
    exact ⟨w2, both_trans (stepRel_RD now).trans b1 b2, i2.trans i1⟩

/-- After the cascade over `cs`, every named downtime that exists is triggered or untriggerable. -/
theorem cascade_list (n : Nat) (now t : Int) (ht : 0 < t) (cs : List Nat) (l1 : List Dt)
    (c : Nat) (hcm : c ∈ cs) (x : Dt) (hx : x ∈ l1) (hl : live c x = true) :
    ∃ x' ∈ cs.foldl (fun acc k => triggerDt (n + 1) now t k acc) l1, Done now c x' := by
  have tr := trigRel_RC now t
  have htk : (fun t' => t' = t ∧ 0 < t) t := ⟨rfl, ht⟩
  obtain ⟨pre, post, hsplit⟩ := List.append_of_mem hcm
  rw [hsplit, List.foldl_append, List.foldl_cons]
  have h1 := both_cascade tr (n + 1) t htk pre l1 (allc_trivial _)
  obtain ⟨x1, hx1, r1⟩ := h1.1 x hx
  obtain ⟨x2, hx2, hd2⟩ := triggerDt_done n now t ht c _ x1 hx1 (rc_live r1 hl)
  have h2 := both_cascade tr (n + 1) t htk post
    (triggerDt (n + 1) now t c (pre.foldl (fun acc k => triggerDt (n + 1) now t k acc) l1)) (allc_trivial _)
  obtain ⟨x3, hx3, r3⟩ := h2.1 x2 hx2
  exact ⟨x3, hx3, done_succ ht r3 hd2⟩

/-- The cascade part shared by `TriggerDowntime` and the start of a fixed downtime: after the root `d`
    (name `id`) has been updated by `f` (which bumps only its own counters), the cascade over its
    `triggers` with enough fuel leaves the list closed. -/
theorem closed_root {now t : Int} (ht : 0 < t) (F : Nat)
    (ihF : ∀ (id : Nat) (l : List Dt), WFL l → rk (idsOf l) id ≤ F → Closed now l (triggerDt F now t id l))
    (id : Nat) (l : List Dt) (hw : WFL l) (d : Dt) (hf : findDt l id = some d)
    (f : Dt → Dt) (hfid : ∀ x, (f x).id = x.id) (hfb : Both (RD now) l (updateDt l id f))
    (hfsh : Both RSh l (updateDt l id f))
    (hrk : ∀ c ∈ d.triggers, rk (idsOf l) c ≤ F) :
    Closed now l (d.triggers.foldl (fun acc c => triggerDt F now t c acc) (updateDt l id f)) := by
  obtain ⟨hnd, hn, he⟩ := hw
  obtain ⟨hdm, hdl⟩ := mem_of_findDt hf
  have hids1 : idsOf (updateDt l id f) = idsOf l := ids_updateDt f l id hfid
  have hw1 : WFL (updateDt l id f) :=
    ⟨by rw [hids1]; exact hnd, newer_of_both hfsh hids1 hnd hn, allc_of_both (stepRel_RD now).ctx hfb he⟩
  -- the fold over the children
  have hfold := closed_foldl (now := now) (fun acc => WFL acc ∧ idsOf acc = idsOf l)
    (fun acc c => triggerDt F now t c acc) d.triggers (fun acc h => h.1.1)
    (by
      intro acc hacc c hc
      obtain ⟨w, b, i⟩ := wfl_triggerDt ht F c acc hacc.1
      refine ⟨ihF c acc hacc.1 (by rw [hacc.2]; exact hrk c hc), b, w, i.trans hacc.2⟩)
    (updateDt l id f) ⟨hw1, hids1⟩
  obtain ⟨hc1, hb1, ⟨hwf, hidsf⟩⟩ := hfold
  have hbf := both_trans (stepRel_RD now).trans hfb hb1
  intro q hq q' hq' hid hlt c hc x' hx' hxid hxr
  by_cases hqid : q.id = id
  · -- the root itself: its children were called
    have hqd : q = d := eq_of_id hnd hq hdm (by rw [hqid, live_id hdl])
    subst hqd
    obtain ⟨x, hx, rx⟩ := hbf.2 x' hx'
    have hxr0 : x.removed = false := by
      cases h : x.removed with
      | false => rfl
      | true => rw [rx.2.2.2.1 h] at hxr; rw [h] at hxr; cases hxr
    -- x's version after the root update
    obtain ⟨x1, hx1, rx1⟩ := hfb.1 x hx
    have hx1l : live c x1 = true := by
      have h1 : x1.id = c := by rw [rx1.1, ← rx.1]; exact hxid
      have h2 : x1.removed = false := by
        cases h : x1.removed with
        | false => rfl
        | true =>
          obtain ⟨y, hy, ry⟩ := hb1.1 x1 hx1
          have hyx : y = x' := eq_of_id hwf.1 hy hx' (by rw [ry.1, h1, hxid])
          subst hyx
          rw [ry.2.2.2.1 h] at hxr; rw [h] at hxr; cases hxr
      simp [live, h1, h2]
    have hF : 1 ≤ F := by
      have h1 : c ∈ idsOf l := by rw [← hxid, ← hidsf]; exact List.mem_map.mpr ⟨x', hx', rfl⟩
      have := rk_pos h1
      have := hrk c hc
      omega
    obtain ⟨n, rfl⟩ : ∃ n, F = n + 1 := ⟨F - 1, by omega⟩
    obtain ⟨x'', hx'', hdone⟩ := cascade_list n now t ht q.triggers (updateDt l id f) c hc x1 hx1 hx1l
    have : x'' = x' := eq_of_id hwf.1 hx'' hx' (by rw [hdone.1, hxid])
    subst this
    exact hdone.2.2
  · -- another downtime: untouched by the root update
    have hq1 : q ∈ updateDt l id f := by
      unfold updateDt
      refine List.mem_map.mpr ⟨q, hq, ?_⟩
      have : live id q = false := by simp [live, hqid]
      simp [this]
    exact hc1 q hq1 q' hq' hid hlt c hc x' hx' hxid hxr

theorem both_sh_updateDt (f : Dt → Dt) (h : ∀ d, RSh d (f d)) (l : List Dt) (id : Nat) :
    Both RSh l (updateDt l id f) :=
  both_updateDt (fun _ => ⟨rfl, rfl⟩) f l id (fun d _ _ => h d)

theorem rsh_trigSelfG (now t : Int) (d : Dt) : RSh d (trigSelfG now t d) := by
  unfold trigSelfG; split <;> exact ⟨rfl, rfl⟩

theorem rsh_startSelfG (now : Int) (d : Dt) : RSh d (startSelfG now d) := by
  unfold startSelfG; split <;> exact ⟨rfl, rfl⟩

/-- **Closure of one `TriggerDowntime` call with enough fuel.** -/
theorem closed_triggerDt {now t : Int} (ht : 0 < t) (F : Nat) :
    ∀ (id : Nat) (l : List Dt), WFL l → rk (idsOf l) id ≤ F → Closed now l (triggerDt F now t id l) := by
  induction F with
  | zero => intro id l hw _; simp only [triggerDt]; exact closed_refl now hw.1
  | succ n ih =>
    intro id l hw hrk
    simp only [triggerDt]
    split
    · exact closed_refl now hw.1
    · rename_i d hf
      split
      · exact closed_refl now hw.1
      · obtain ⟨hdm, hdl⟩ := mem_of_findDt hf
        apply closed_root ht n ih id l hw d hf (trigSelfG now t) (trigSelfG_id now t)
          (both_trigG (stepRel_RD now).toAddRel.toTrigRel t ht l id hw.2.2)
          (both_sh_updateDt _ (rsh_trigSelfG now t) l id)
        intro c hc
        have := rk_lt hw.2.1 hw.1 hdm hc
        rw [live_id hdl] at this
        omega

/-- **Closure of the start of a fixed downtime** (`Downtime::Start`, one start-timer iteration). -/
theorem closed_startAt {now : Int} (F : Nat) (l : List Dt) (id : Nat) (hw : WFL l) (hF : l.length ≤ F + 1) :
    Closed now l (startAt now F l id) := by
  unfold startAt
  split
  · exact closed_refl now hw.1
  · rename_i d hf
    split
    · obtain ⟨hdm, hdl⟩ := mem_of_findDt hf
      rename_i hg
      simp at hg
      have ht : 0 < max d.start d.entry := by
        have h1 := hw.2.2 d hdm
        have : d.entry ≤ max d.start d.entry := Int.le_max_right _ _
        omega
      apply closed_root ht F (closed_triggerDt ht F) id l hw d hf (startSelfG now) (startSelfG_id now)
        (both_startG (stepRel_RD now).toAddRel l id hw.2.2)
        (both_sh_updateDt _ (rsh_startSelfG now) l id)
      intro c hc
      have h1 := rk_lt hw.2.1 hw.1 hdm hc
      have h2 : rk (idsOf l) d.id ≤ l.length := by
        have := rk_le (idsOf l) d.id
        simpa [idsOf] using this
      omega
    · exact closed_refl now hw.1

theorem wfl_startAt {now : Int} (F : Nat) (l : List Dt) (id : Nat) (hw : WFL l) :
    WFL (startAt now F l id) ∧ Both (RD now) l (startAt now F l id) ∧ idsOf (startAt now F l id) = idsOf l := by
  have hids := ids_startAt now F l id
  have hb := both_startAt (stepRel_RD now).toAddRel F l id hw.2.2
  refine ⟨⟨by rw [hids]; exact hw.1, ?_, allc_of_both (stepRel_RD now).ctx hb hw.2.2⟩, hb, hids⟩
  apply newer_of_both _ hids hw.1 hw.2.1
  unfold startAt
  split
  · exact both_refl (fun _ => ⟨rfl, rfl⟩) l
  · split
    · exact both_trans (trigRel_RSh now).trans (both_sh_updateDt _ (rsh_startSelfG now) l id)
        (both_cascade (trigRel_RSh now) F _ trivial _ _ (allc_trivial _))
    · exact both_refl (fun _ => ⟨rfl, rfl⟩) l

/-! ### Every operation -/

/-- A pointwise update that keeps id, `triggers` and the OnDowntimeTriggered count. -/
theorem step_map_same {now : Int} (f : Dt → Dt) (l : List Dt)
    (hf : ∀ d, (f d).id = d.id ∧ (f d).triggers = d.triggers ∧ (f d).trigEv = d.trigEv)
    (hb : Both (RD now) l (l.map f)) (hw : WFL l) : Closed now l (l.map f) ∧ WFL (l.map f) := by
  have hids : idsOf (l.map f) = idsOf l := ids_map f l (fun d _ => (hf d).1)
  constructor
  · apply closed_same
    intro q hq q' hq' hid
    obtain ⟨q0, hq0, rfl⟩ := List.mem_map.mp hq'
    have : q0 = q := eq_of_id hw.1 hq0 hq (by rw [← (hf q0).1]; exact hid)
    subst this
    rw [(hf q0).2.2]; exact Nat.le_refl _
  · refine ⟨by rw [hids]; exact hw.1, ?_, allc_of_both (stepRel_RD now).ctx hb hw.2.2⟩
    exact newer_of_both (both_map f l (fun d _ => ⟨(hf d).1, (hf d).2.1⟩)) hids hw.1 hw.2.1

theorem fireCleanup_facts (now : Int) (d : Dt) :
    (fireCleanup now d).id = d.id ∧ (fireCleanup now d).triggers = d.triggers ∧
      (fireCleanup now d).trigEv = d.trigEv := by
  unfold fireCleanup
  split
  · split <;> simp [removeDt]
  · exact ⟨rfl, rfl, rfl⟩

theorem ite_facts (id : Nat) (f : Dt → Dt)
    (hf : ∀ d, (f d).id = d.id ∧ (f d).triggers = d.triggers ∧ (f d).trigEv = d.trigEv) (d : Dt) :
    ((if live id d then f d else d).id = d.id) ∧ ((if live id d then f d else d).triggers = d.triggers) ∧
      ((if live id d then f d else d).trigEv = d.trigEv) := by
  split
  · exact hf d
  · exact ⟨rfl, rfl, rfl⟩

theorem len_of_ids {l l' : List Dt} (h : idsOf l' = idsOf l) : l'.length = l.length := by
  have := congrArg List.length h
  simpa [idsOf] using this

theorem step_triggerAll {now t : Int} (ht : 0 < t) (l : List Dt) (hw : WFL l) :
    Closed now l (triggerAll now t l) ∧ Both (RD now) l (triggerAll now t l) ∧ WFL (triggerAll now t l) := by
  unfold triggerAll
  have := closed_foldl (now := now) (fun acc => WFL acc ∧ idsOf acc = idsOf l)
    (fun acc i => triggerDt (l.length + 1) now t i acc) (liveIds l) (fun acc h => h.1.1)
    (by
      intro acc hacc i _
      obtain ⟨w, b, i1⟩ := wfl_triggerDt ht (l.length + 1) i acc hacc.1
      refine ⟨closed_triggerDt ht _ i acc hacc.1 ?_, b, w, i1.trans hacc.2⟩
      have := rk_le (idsOf acc) i
      have hl := len_of_ids hacc.2
      simp only [idsOf, List.length_map] at this hl ⊢
      omega)
    l ⟨hw, rfl⟩
  exact ⟨this.1, this.2.1, this.2.2.1⟩

theorem step_startTimer {now : Int} (l : List Dt) (hw : WFL l) :
    Closed now l (startTimer now l) ∧ Both (RD now) l (startTimer now l) ∧ WFL (startTimer now l) := by
  unfold startTimer
  have := closed_foldl (now := now) (fun acc => WFL acc ∧ idsOf acc = idsOf l)
    (startAt now l.length) (liveIds l) (fun acc h => h.1.1)
    (by
      intro acc hacc i _
      obtain ⟨w, b, i1⟩ := wfl_startAt (now := now) l.length acc i hacc.1
      refine ⟨closed_startAt _ acc i hacc.1 ?_, b, w, i1.trans hacc.2⟩
      have hl := len_of_ids hacc.2
      omega)
    l ⟨hw, rfl⟩
  exact ⟨this.1, this.2.1, this.2.2.1⟩

theorem newer_append_new {l : List Dt} (hn : Newer l) {nd : Dt} (h : nd.triggers = []) : Newer (l ++ [nd]) := by
  induction l with
  | nil => simp [Newer, h]
  | cons a l ih =>
    refine ⟨?_, ih hn.2⟩
    intro c hc
    have h1 : c ∈ idsOf l := hn.1 c hc
    show c ∈ idsOf (l ++ [nd])
    simp only [idsOf, List.map_append, List.mem_append] at h1 ⊢
    exact Or.inl h1

/-- Registering the newest downtime in the `triggers` of an older one keeps `Newer`. -/
theorem newer_addTrigger {l0 : List Dt} {z : Dt} (tb : Nat) (hz : z.id ≠ tb) (hn : Newer (l0 ++ [z])) :
    Newer (updateDt (l0 ++ [z]) tb (addTrigger z.id)) := by
  have hids : ∀ (l : List Dt), idsOf (updateDt l tb (addTrigger z.id)) = idsOf l :=
    fun l => ids_updateDt _ l tb (addTrigger_id z.id)
  induction l0 with
  | nil =>
    have hl : live tb z = false := by simp [live, hz]
    simpa [updateDt, hl] using hn
  | cons a l0 ih =>
    have htail := ih hn.2
    simp only [updateDt, List.cons_append, List.map_cons] at htail ⊢
    refine ⟨?_, htail⟩
    intro c hc
    have hidt := hids (l0 ++ [z])
    simp only [updateDt] at hidt
    rw [hidt]
    have hzmem : z.id ∈ idsOf (l0 ++ [z]) := by simp [idsOf]
    split at hc
    · unfold addTrigger at hc
      split at hc
      · exact hn.1 c hc
      · rcases List.mem_append.mp hc with h | h
        · exact hn.1 c h
        · simp at h; rw [h]; exact hzmem
    · exact hn.1 c hc

/-- **Every operation leaves the downtimes closed under the trigger cascade**, and well-formed. -/
theorem step_cascade (st : St) (op : Op) (hw : WFL st.dts) (hl : 0 < st.lastStateChange) (hnow : 0 < op.now)
    (hop : opOK op) :
    Closed op.now (preModel st op) (step st op).1.dts ∧ WFL (step st op).1.dts := by
  have sr := stepRel_RD op.now
  cases op with
  | result s te now =>
    simp only [preModel, step, resultOp]
    split
    · exact ⟨closed_refl now hw.1, hw⟩
    · simp only
      split
      · have hte : 0 < te := by have := hop.1; omega
        have := step_triggerAll (now := now) hte st.dts hw
        exact ⟨this.1, this.2.2⟩
      · exact ⟨closed_refl now hw.1, hw⟩
  | remove id u now =>
    simp only [preModel, step, removeOp]
    split
    · exact ⟨closed_refl now hw.1, hw⟩
    · split
      · exact ⟨closed_refl now hw.1, hw⟩
      · unfold updateDt
        apply step_map_same _ _ (ite_facts id (removeDt now) (fun d => by simp [removeDt])) _ hw
        exact both_updateDt sr.refl _ _ _ (fun d hd hr => sr.remove d (hw.2.2 d hd) hr)
  | pump now f =>
    simp only [preModel, step]
    have h1 := step_map_same (now := now) (fireCleanup now) st.dts (fireCleanup_facts now)
      (both_fireCleanup sr st.dts hw.2.2) hw
    have b1 := both_fireCleanup sr st.dts hw.2.2
    unfold pumpOp
    simp only
    split
    · have h2 := step_startTimer (now := now) _ h1.2
      have b3 := both_fireCleanup sr _ h2.2.2.2.2
      have h3 := step_map_same (now := now) (fireCleanup now) _ (fireCleanup_facts now) b3 h2.2.2
      have c12 := closed_comp h1.1 h2.1 b1 h2.2.1 h1.2.1
      exact ⟨closed_comp c12 h3.1 (both_trans sr.trans b1 h2.2.1) b3 h2.2.2.1, h3.2⟩
    · exact h1
  | setPaused b now =>
    simp only [preModel, step, setPausedOp]
    exact step_map_same (now := now) (setQuiet b) st.dts
      (fun d => ⟨(setQuiet_eq b d).1, (setQuiet_eq b d).2.2.2.2.2.2.2.2.1, (setQuiet_eq b d).2.2.2.2.2.2.2.2.2.2.2.2.2.1⟩)
      (both_map _ _ (fun d _ => rd_setq now b d)) hw
  | add p now =>
    simp only [preModel, step, addOp]
    split
    · exact ⟨closed_refl now hw.1, hw⟩
    · rename_i hany
      have hany' : st.dts.any (fun d => d.id == p.id) = false := by simpa using hany
      simp only [Op.now] at hnow
      -- the list with the new downtime appended
      have hw0 : WFL (st.dts ++ [newDt st p now]) := by
        have hnd0 : (idsOf (st.dts ++ [newDt st p now])).Nodup := by
          have := nodup_preModel st (.add p now) hw.1
          simpa [preModel, hany'] using this
        refine ⟨hnd0, newer_append_new hw.2.1 rfl, ?_⟩
        intro d hd
        rcases List.mem_append.mp hd with h | h
        · exact hw.2.2 d h
        · simp at h; subst h; exact hnow
      -- Start(): flexible on a problem
      have s1 : Closed now (st.dts ++ [newDt st p now]) (startFlexible st now (newDt st p now) (st.dts ++ [newDt st p now])) ∧
          Both (RD now) (st.dts ++ [newDt st p now]) (startFlexible st now (newDt st p now) (st.dts ++ [newDt st p now])) ∧
          WFL (startFlexible st now (newDt st p now) (st.dts ++ [newDt st p now])) := by
        unfold startFlexible
        split
        · have ht : 0 < max (max (newDt st p now).start (newDt st p now).entry) st.lastStateChange := by
            have : st.lastStateChange ≤ max (max (newDt st p now).start (newDt st p now).entry) st.lastStateChange :=
              Int.le_max_right _ _
            omega
          obtain ⟨w, b, _⟩ := wfl_triggerDt (now := now) ht ((st.dts ++ [newDt st p now]).length + 1)
            (newDt st p now).id _ hw0
          refine ⟨closed_triggerDt ht _ _ _ hw0 ?_, b, w⟩
          have := rk_le (idsOf (st.dts ++ [newDt st p now])) (newDt st p now).id
          simp only [idsOf, List.length_map] at this ⊢
          omega
        · exact ⟨closed_refl now hw0.1, both_refl sr.refl _, hw0⟩
      -- Start(): fixed inside its window
      have s2w := wfl_startAt (now := now)
        (startFlexible st now (newDt st p now) (st.dts ++ [newDt st p now])).length _ p.id s1.2.2
      have s2c := closed_startAt (now := now)
        (startFlexible st now (newDt st p now) (st.dts ++ [newDt st p now])).length _ p.id s1.2.2 (by omega)
      -- Resume(): cleanup timer
      have b3 := both_updateDt sr.refl setupCleanup
        (startAt now (startFlexible st now (newDt st p now) (st.dts ++ [newDt st p now])).length
          (startFlexible st now (newDt st p now) (st.dts ++ [newDt st p now])) p.id) p.id
        (fun d hd hr => sr.setup d (s2w.1.2.2 d hd) hr)
      have s3 := step_map_same (now := now) _ _ (ite_facts p.id setupCleanup (fun d => ⟨rfl, rfl, rfl⟩))
        (by unfold updateDt at b3; exact b3) s2w.1
      have c13 := closed_comp (closed_comp s1.1 s2c s1.2.1 s2w.2.1 s1.2.2.1) s3.1
        (both_trans sr.trans s1.2.1 s2w.2.1) (by unfold updateDt at b3; exact b3) s2w.1.1
      have b13 := both_trans sr.trans (both_trans sr.trans s1.2.1 s2w.2.1) b3
      have hw3 : WFL (updateDt (startAt now (startFlexible st now (newDt st p now) (st.dts ++ [newDt st p now])).length
          (startFlexible st now (newDt st p now) (st.dts ++ [newDt st p now])) p.id) p.id setupCleanup) := s3.2
      simp only [Bool.false_eq_true, if_false]
      split
      · -- the trigger downtime registers the new one
        rename_i hpar
        have b4 := both_updateDt sr.refl (addTrigger p.id) _ p.trigBy
          (fun d hd hr => sr.addTrig p.id d (hw3.2.2 d hd) hr)
        have hids4 := ids_updateDt (addTrigger p.id) (updateDt (startAt now (startFlexible st now (newDt st p now) (st.dts ++ [newDt st p now])).length
          (startFlexible st now (newDt st p now) (st.dts ++ [newDt st p now])) p.id) p.id setupCleanup) p.trigBy (addTrigger_id p.id)
        have c4 : Closed now (updateDt (startAt now (startFlexible st now (newDt st p now) (st.dts ++ [newDt st p now])).length
          (startFlexible st now (newDt st p now) (st.dts ++ [newDt st p now])) p.id) p.id setupCleanup)
            (updateDt (updateDt (startAt now (startFlexible st now (newDt st p now) (st.dts ++ [newDt st p now])).length
          (startFlexible st now (newDt st p now) (st.dts ++ [newDt st p now])) p.id) p.id setupCleanup) p.trigBy (addTrigger p.id)) := by
          apply closed_same
          intro q hq q' hq' hid
          unfold updateDt at hq'
          obtain ⟨q0, hq0, rfl⟩ := List.mem_map.mp hq'
          have hq0id : (if live p.trigBy q0 = true then addTrigger p.id q0 else q0).id = q0.id := by
            split
            · exact addTrigger_id _ _
            · rfl
          have : q0 = q := eq_of_id hw3.1 hq0 hq (by rw [← hq0id]; exact hid)
          subst this
          split
          · unfold addTrigger; split <;> exact Nat.le_refl _
          · exact Nat.le_refl _
        refine ⟨closed_comp c13 c4 b13 b4 hw3.1, by rw [hids4]; exact hw3.1, ?_, allc_of_both sr.ctx b4 hw3.2.2⟩
        -- Newer after registering: the list is l0 ++ [z] with z the new downtime
        have hids3 : idsOf (updateDt (startAt now (startFlexible st now (newDt st p now) (st.dts ++ [newDt st p now])).length
          (startFlexible st now (newDt st p now) (st.dts ++ [newDt st p now])) p.id) p.id setupCleanup) =
            idsOf st.dts ++ [p.id] := by
          rw [ids_updateDt setupCleanup _ _ (fun d => rfl), s2w.2.2]
          unfold startFlexible
          split
          · rw [ids_triggerDt]; simp [idsOf, newDt]
          · simp [idsOf, newDt]
        -- split the list at its last element
        obtain ⟨l0, z, hsplit, hzid⟩ : ∃ l0 z, updateDt (startAt now (startFlexible st now (newDt st p now) (st.dts ++ [newDt st p now])).length
            (startFlexible st now (newDt st p now) (st.dts ++ [newDt st p now])) p.id) p.id setupCleanup = l0 ++ [z] ∧ z.id = p.id := by
          generalize updateDt (startAt now (startFlexible st now (newDt st p now) (st.dts ++ [newDt st p now])).length
            (startFlexible st now (newDt st p now) (st.dts ++ [newDt st p now])) p.id) p.id setupCleanup = L at hids3
          rcases List.eq_nil_or_concat L with h | ⟨l0, z, h⟩
          · subst h; simp [idsOf] at hids3
          · refine ⟨l0, z, by simpa using h, ?_⟩
            subst h
            simp only [idsOf, List.concat_eq_append, List.map_append, List.map_cons, List.map_nil] at hids3
            have := List.append_inj_right' hids3 (by simp)
            simpa using this
        rw [hsplit] at hw3 ⊢
        rw [← hzid]
        apply newer_addTrigger p.trigBy _ hw3.2.1
        -- the trigger downtime existed before, the new id is fresh
        intro he
        simp only [Bool.and_eq_true, bne_iff_ne, ne_eq] at hpar
        cases hf : findDt st.dts p.trigBy with
        | none => rw [hf] at hpar; simp at hpar
        | some par =>
          obtain ⟨hpm, hpl⟩ := mem_of_findDt hf
          have := List.any_eq_false.mp hany' par hpm
          simp [live_id hpl, ← he, hzid] at this
      · exact ⟨c13, hw3⟩

/-- Over every well-formed run: after the last operation the downtimes are closed under the cascade. -/
theorem cascade_run (ops : List Op) : ∀ (T : Int) (st : St), SInv T st → WFL st.dts → ∀ op, WF T (ops ++ [op]) →
    Closed op.now (preModel (run st ops) op) (step (run st ops) op).1.dts := by
  induction ops with
  | nil =>
    intro T st hs hw op hwf
    obtain ⟨h1, h2, _⟩ := hwf
    exact (step_cascade st op hw hs.1 (by have := hs.1; have := hs.2.1; omega) h2).1
  | cons o ops ih =>
    intro T st hs hw op hwf
    obtain ⟨h1, h2, h3⟩ := hwf
    have hs' := sinv_step T st o hs h1 h2
    have hw' := (step_cascade st o hw hs.1 (by have := hs.1; have := hs.2.1; omega) h2).2
    have := ih o.now (step st o).1 hs' hw' op h3
    simpa [run] using this

/-! ### The link between `triggered_by` and `triggers` -/

/-- A chained downtime is registered in the `triggers` of the downtime it names. -/
def LinkInv (l : List Dt) : Prop :=
  ∀ x ∈ l, x.trigBy ≠ 0 → ∃ q ∈ l, q.id = x.trigBy ∧ x.id ∈ q.triggers

theorem link_step (st : St) (op : Op) (hnd : (idsOf st.dts).Nodup) (he : AllC (fun d => 0 < d.entry) st.dts)
    (hl : 0 < st.lastStateChange) (hnow : 0 < op.now) (hop : opOK op) (hi : LinkInv st.dts) :
    LinkInv (step st op).1.dts := by
  have hpm := pw_stepRM st op hnd
  -- RD along the operation
  have hopT : OpT st (fun t => 0 < t) (fun d => 0 < d.entry) op := by
    cases op with
    | add p now =>
      refine ⟨by simpa [newDt, Op.now] using hnow, fun _ => ?_⟩
      have : st.lastStateChange ≤ max (max p.start now) st.lastStateChange := Int.le_max_right _ _
      omega
    | result s te now => have := hop.1; show 0 < te; omega
    | pump now f => trivial
    | remove id u now => trivial
    | setPaused b now => trivial
  intro x' hx' htb
  -- predecessor of x'
  obtain ⟨x, hx, rx⟩ : ∃ x ∈ preModel st op, RM x x' := by
    have : ∀ (l l' : List Dt), Pw RM l l' → ∀ b ∈ l', ∃ a ∈ l, RM a b := by
      intro l l' h
      induction h with
      | nil => intro b hb; cases hb
      | cons hr _ ih =>
        intro b hb
        rcases List.mem_cons.mp hb with rfl | hb'
        · exact ⟨_, List.mem_cons_self, hr⟩
        · obtain ⟨a, ha, r⟩ := ih b hb'
          exact ⟨a, List.mem_cons_of_mem _ ha, r⟩
    exact this _ _ hpm x' hx'
  have hxtb : x.trigBy = x'.trigBy := rx.2.2.2.2.2.2.1.symm
  by_cases hxs : x ∈ st.dts
  · obtain ⟨q, hq, hqid, hqt⟩ := hi x hxs (by rw [hxtb]; exact htb)
    obtain ⟨q', hq', rq⟩ := step_succ st op (stepRel_RD op.now) he hopT
      (fun b _ _ d _ => rd_setq op.now b d) q hq
    exact ⟨q', hq', by rw [rq.1, hqid, hxtb], by rw [rx.1]; exact rq.2.1 _ hqt⟩
  · -- x is the downtime just created
    cases op with
    | add p now =>
      simp only [preModel] at hx
      split at hx
      · exact absurd hx hxs
      · rename_i hany
        have hany' : st.dts.any (fun d => d.id == p.id) = false := by simpa using hany
        rcases List.mem_append.mp hx with h | h
        · exact absurd h hxs
        · simp at h; subst h
          have hpar : (p.trigBy != 0 && (findDt st.dts p.trigBy).isSome) = true := by
            by_cases hc : (p.trigBy != 0 && (findDt st.dts p.trigBy).isSome) = true
            · exact hc
            · exfalso; apply htb; rw [← hxtb]; simp [newDt, hc]
          have htbv : x'.trigBy = p.trigBy := by rw [← hxtb]; simp [newDt, hpar]
          simp only [Bool.and_eq_true] at hpar
          cases hf : findDt st.dts p.trigBy with
          | none => rw [hf] at hpar; simp at hpar
          | some par =>
            obtain ⟨hpm2, hpl⟩ := mem_of_findDt hf
            -- the parent survives the operation (nothing is removed by `add`) …
            have hkeep := pw_keep_add st p now hnd
            obtain ⟨par', hpar', rk'⟩ := mem_of_pw_left hkeep (a := par)
              (by simp only [preModel, hany]; exact List.mem_append_left _ hpm2)
            refine ⟨par', hpar', by rw [rk'.1, live_id hpl, htbv], ?_⟩
            -- … and was registered by the last update
            have hx'id : x'.id = p.id := by rw [rx.1]; rfl
            rw [hx'id]
            simp only [step, addOp, hany', Bool.false_eq_true, if_false, hf, Option.isSome_some, Bool.and_true,
              hpar.1, if_true] at hpar'
            unfold updateDt at hpar'
            obtain ⟨y, _, hy⟩ := List.mem_map.mp hpar'
            by_cases hly : live p.trigBy y = true
            · simp only [hly, if_true] at hy
              rw [← hy]
              unfold addTrigger
              split
              · rename_i hc; simpa using hc
              · simp
            · have hy' : y = par' := by simpa [hly] using hy
              exfalso; apply hly
              rw [hy']
              simp [live, rk'.1, live_id hpl, rk'.2, live_not_removed hpl]
    | result s te now => exact absurd hx hxs
    | pump now f => exact absurd hx hxs
    | remove id u now => exact absurd hx hxs
    | setPaused b now => exact absurd hx hxs

/-! ### The `trigger_cascade` clause on the model's trace -/

theorem mem_of_pw_right {α β : Type} {R : α → β → Prop} {l : List α} {l' : List β} (h : Pw R l l') {b : β}
    (hb : b ∈ l') : ∃ a ∈ l, R a b := by
  induction h with
  | nil => cases hb
  | cons hr _ ih =>
    rcases List.mem_cons.mp hb with rfl | hb'
    · exact ⟨_, List.mem_cons_self, hr⟩
    · obtain ⟨a, ha, r⟩ := ih hb'
      exact ⟨a, List.mem_cons_of_mem _ ha, r⟩

theorem mem_preModel (st : St) (op : Op) {d : Dt} (h : d ∈ st.dts) : d ∈ preModel st op := by
  cases op with
  | add p now =>
    simp only [preModel]
    split
    · exact h
    · exact List.mem_append_left _ h
  | result s te now => exact h
  | pump now f => exact h
  | remove id u now => exact h
  | setPaused b now => exact h

/-- An untriggered downtime inside its trigger window that is not over can be triggered. -/
theorem can_of_window {now : Int} {d : Dt} (h0 : d.trigger = 0) (h1 : d.start ≤ now)
    (h2 : if d.fixed then now < d.fin else now ≤ d.fin) : canBeTriggered now d = true := by
  cases hf : d.fixed with
  | true =>
    simp only [hf, if_true] at h2
    have a1 : ¬ now < d.start := by omega
    have a2 : ¬ d.fin < now := by omega
    have a3 : ¬ now ≥ d.fin := by omega
    simp [canBeTriggered, isExpired, isInEffect, isTriggered, hf, h0, a1, a2, a3]
  | false =>
    simp [hf] at h2
    have a1 : ¬ now < d.start := by omega
    have a2 : ¬ d.fin < now := by omega
    simp [canBeTriggered, isExpired, isInEffect, isTriggered, hf, h0, a1, a2]

theorem chkCascade_model (sp : SpecSt) (st : St) (op : Op) (hrel : RelS sp st) (hnd : (idsOf st.dts).Nodup)
    (hcl : Closed op.now (preModel st op) (step st op).1.dts) (hlink : LinkInv st.dts) :
    chkCascade sp op (stepObs st op).2 = true := by
  simp only [chkCascade]
  apply all_pw (post_pw sp st op hrel hnd)
  intro sd x' hx' v
  by_cases ht : sd.trig = 0
  · -- the guard of the clause must fail
    by_cases hcond : (sd.alive && sd.trigBy != 0 && evCount (stepObs st op).2 3 sd.trigBy > 0 &&
        !isAddOf op (stepObs st op).2 sd.id && sd.trigWindow op.now && !sd.over op.now) = true
    · exfalso
      simp only [Bool.and_eq_true, bne_iff_ne, ne_eq, decide_eq_true_eq, Bool.not_eq_true'] at hcond
      obtain ⟨⟨⟨⟨⟨hal, htb⟩, hev⟩, hadd⟩, hwin⟩, hover⟩ := hcond
      have hxr : x'.removed = false := by
        have := v.2.2.2.2.2.2.2.1; rw [hal] at this
        cases h : x'.removed with
        | false => rfl
        | true => rw [h] at this; cases this
      have hxt : x'.trigger = 0 := by rw [← v.2.2.2.2.2.2.2.2.1 hxr]; exact ht
      have hnd' := nodup_step st op hnd
      -- the trigger downtime exists and its guard was passed
      have hmem : sd.trigBy ∈ idsOf (step st op).1.dts := by
        by_cases hm : sd.trigBy ∈ idsOf (step st op).1.dts
        · exact hm
        · exfalso
          simp only [stepObs] at hev
          rw [evCount_obsOf _ _ _ _ _ _ (Or.inr (Or.inr (Or.inl rfl))), sum_ite_none _ _ _ hm] at hev
          omega
      obtain ⟨q', hq', hq'id⟩ := List.mem_map.mp hmem
      have hpw := pw_stepRM st op hnd
      obtain ⟨q, hq, rq⟩ := mem_of_pw_right hpw hq'
      have hqlt : q.trigEv < q'.trigEv := by
        have h3 : evCount (stepObs st op).2 3 q.id = q'.trigEv - q.trigEv :=
          evCount_pair st op hnd 3 (Or.inr (Or.inr (Or.inl rfl))) hq hq' rq.1
        rw [← hq'id, rq.1, h3] at hev
        omega
      -- x' existed before the operation
      obtain ⟨x, hx, rx⟩ := mem_of_pw_right hpw hx'
      have hxs : x ∈ st.dts := by
        cases op with
        | add p now =>
          simp only [preModel] at hx
          split at hx
          · exact hx
          · rename_i hany
            have hany' : st.dts.any (fun d => d.id == p.id) = false := by simpa using hany
            rcases List.mem_append.mp hx with h | h
            · exact h
            · exfalso
              simp at h; subst h
              have hrc : (stepObs st (.add p now)).2.rc = 1 := by simp [stepObs_rc, step, addOp, hany']
              have : sd.id = p.id := by rw [v.1, rx.1]; rfl
              simp [isAddOf, hrc, this] at hadd
        | result s te now => exact hx
        | pump now f => exact hx
        | remove id u now => exact hx
        | setPaused b now => exact hx
      have hxtb : x.trigBy = sd.trigBy := by rw [v.2.2.2.2.2.1, rx.2.2.2.2.2.2.1]
      obtain ⟨q0, hq0, hq0id, hq0t⟩ := hlink x hxs (by rw [hxtb]; exact htb)
      have hq0q : q0 = q := eq_of_id (nodup_preModel st op hnd) (mem_preModel st op hq0) hq
        (by rw [hq0id, hxtb, ← hq'id, rq.1])
      subst hq0q
      have hdone := hcl q0 hq q' hq' rq.1 hqlt x.id hq0t x' hx' rx.1 hxr
      rcases hdone with h | h
      · exact h hxt
      · have hcan : canBeTriggered op.now x' = true := by
          apply can_of_window hxt
          · simp only [SDt.trigWindow, Bool.and_eq_true, decide_eq_true_eq] at hwin
            rw [← v.2.2.1]; exact hwin.1
          · simp only [SDt.trigWindow, Bool.and_eq_true, decide_eq_true_eq] at hwin
            have := hwin.2
            rw [← v.2.1, ← v.2.2.2.1]
            cases hf : sd.fixed <;> simp [hf] at this ⊢ <;> exact this
        rw [hcan] at h; cases h
    · have : (sd.alive && sd.trigBy != 0 && evCount (stepObs st op).2 3 sd.trigBy > 0 &&
        !isAddOf op (stepObs st op).2 sd.id && sd.trigWindow op.now && !sd.over op.now) = false := by
        simpa using hcond
      simp only [this, Bool.not_false, Bool.true_or]
  · simp [ht]

end Icinga.C05

/-
  C05 — the whole-trace theorem: the invariants of the model state (and the relation to the
  specification's bookkeeping) kept by every operation, the enabled clauses for one step, and the
  induction over the operation list.
-/
import IcingaProofs.C05.StartEffect

namespace Icinga.C05

/-- The clauses of the specification that are proved of every trace of the model: all of them except
    `fixed_started_when_triggered` and `fixed_end_has_start` — a DowntimeStart request for every *fixed*
    downtime that took effect —, which are false of the code (F-C05c).  Their flexible counterparts
    `started_when_triggered` and `end_has_start` are proved. -/
def coreMask : Clause → Bool
  | .fixedStartedWhenTriggered | .fixedEndHasStart => false
  | _ => true

/-- Everything that is known of a reachable model state and the bookkeeping that follows it. -/
structure TInv (T : Int) (sp : SpecSt) (st : St) : Prop where
  rel : RelS sp st
  sinv : SInv T st
  pend : ∀ d ∈ st.dts, PEnd d
  ainv : AInv st
  wfl : WFL st.dts
  link : LinkInv st.dts
  unch : UnchInv st.dts
  qinv : QInv st
  xinv : XInv sp st

theorem tinv_init (k : Kind) : TInv 990 (specInit k) (initSt k) where
  rel := ⟨rfl, rfl, fun h => by simp [specInit] at h, fun _ => rfl, rfl, rfl, Pw.nil⟩
  sinv := ⟨by simp [initSt], by simp [initSt], fun d hd => by simp [initSt] at hd⟩
  pend := fun d hd => by simp [initSt] at hd
  ainv := ⟨by simp [initSt], fun d hd => by simp [initSt] at hd⟩
  wfl := ⟨by simp [initSt, idsOf], by simp [initSt, Newer], fun d hd => by simp [initSt] at hd⟩
  link := fun d hd => by simp [initSt] at hd
  unch := fun d hd => by simp [initSt] at hd
  qinv := fun d hd => by simp [initSt] at hd
  xinv := Pw.nil

theorem tinv_step {T : Int} {sp : SpecSt} {st : St} (h : TInv T sp st) (op : Op) (hT : T ≤ op.now)
    (hop : opOK op) : TInv op.now (specNext sp op (stepObs st op).2) (step st op).1 := by
  have hnow : 0 < op.now := by have := h.sinv.1; have := h.sinv.2.1; omega
  exact {
    rel := relS_step sp st op h.rel h.wfl.1
    sinv := sinv_step T st op h.sinv hT hop
    pend := pend_step st op h.pend
    ainv := ainv_step st op h.ainv hnow hop
    wfl := (step_cascade st op h.wfl h.sinv.1 hnow hop).2
    link := link_step st op h.wfl.1 h.wfl.2.2 h.sinv.1 hnow hop h.link
    unch := unch_step st op h.wfl h.unch
    qinv := qinv_step st op h.qinv
    xinv := xinv_step sp st op h.rel h.wfl.1 h.qinv h.xinv }

theorem specStep_core {T : Int} {sp : SpecSt} {st : St} (h : TInv T sp st) (op : Op) (hT : T ≤ op.now)
    (hop : opOK op) : specStepM coreMask sp op (stepObs st op).2 = none := by
  have h' := tinv_step h op hT hop
  have hnow : 0 < op.now := by have := h.sinv.1; have := h.sinv.2.1; omega
  have hrel := h.rel
  have hnd := h.wfl.1
  have hs' : SInv' op.now (step st op).1 := fun d hd => (h'.sinv.2.2 d hd).2.2.2.2.1
  have hcl := (step_cascade st op h.wfl h.sinv.1 hnow hop).1
  simp only [specStepM, specChecks, firstFailM, coreMask, chkInDt_model sp st op hrel hnd,
    chkExpired_model sp st op hrel hnd h'.ainv, existence_model sp st op hrel hnd,
    chkDropped_model sp st op hrel hnd, chkRemovedEvent_model sp st op hrel hnd, chkOwner_model sp st op hrel hnd,
    chkEndOnce_model sp st op hrel hnd (fun d hd => (h'.pend d hd).1) (qinv_pre st op h.qinv),
    chkCascade_model sp st op hrel hnd hcl h.link, chkFlexible_model sp st op hrel h.wfl h.unch hop,
    chkFixedStarted_model sp st op hrel h.wfl hnow,
    chkDepth_model sp st op hrel hnd, chkWriteOnce_model sp st op hrel hnd, chkWindow_model sp st op hrel hnd,
    chkWindowGone_model sp st op hrel hnd, chkStartOnce_model sp st op hrel hnd op.now hs',
    chkStarted_model sp st op hrel hnd h.qinv h.xinv, chkEndHasStart_model sp st op hrel hnd h.qinv h.xinv,
    chkTrigStart_model sp st op hrel hnd, chkStartEffect_model sp st op hrel hnd h.ainv hnow hop]
  simp

theorem trace_core (ops : List Op) : ∀ (sp : SpecSt) (st : St) (T : Int), TInv T sp st → WF T ops →
    specTraceM coreMask sp (trace st ops) = none := by
  induction ops with
  | nil => intro _ _ _ _ _; rfl
  | cons op ops ih =>
    intro sp st T h hw
    obtain ⟨h1, h2, h3⟩ := hw
    simp only [trace, specTraceM]
    rw [specStep_core h op h1 h2]
    exact ih _ _ op.now (tinv_step h op h1 h2) h3

/-- Every state reached by a well-formed run satisfies the invariants. -/
theorem tinv_run (ops : List Op) : ∀ (sp : SpecSt) (st : St) (T : Int), TInv T sp st → WF T ops →
    ∃ T' sp', TInv T' sp' (run st ops) := by
  induction ops with
  | nil => intro sp st T h _; exact ⟨T, sp, h⟩
  | cons op ops ih =>
    intro sp st T h hw
    obtain ⟨h1, h2, h3⟩ := hw
    have := ih _ _ op.now (tinv_step h op h1 h2) h3
    simpa [run] using this

/-- The instant of the last operation (`T` if there is none). -/
def endTime : Int → List Op → Int
  | T, [] => T
  | _, op :: ops => endTime op.now ops

/-- … with the time bound of the invariants made explicit: the instant of the last operation. -/
theorem tinv_run_at (ops : List Op) : ∀ (sp : SpecSt) (st : St) (T : Int), TInv T sp st → WF T ops →
    ∃ sp', TInv (endTime T ops) sp' (run st ops) := by
  induction ops with
  | nil => intro sp st T h _; exact ⟨sp, h⟩
  | cons op ops ih =>
    intro sp st T h hw
    obtain ⟨h1, h2, h3⟩ := hw
    have := ih _ _ op.now (tinv_step h op h1 h2) h3
    simpa [run, endTime] using this

theorem run_snoc (st : St) (ops : List Op) (op : Op) : run st (ops ++ [op]) = (step (run st ops) op).1 := by
  simp [run, List.foldl_append]

end Icinga.C05

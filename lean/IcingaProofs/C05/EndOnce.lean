/-
  C05 — run-level forms of "one DowntimeStart when it takes effect" and "one DowntimeEnd when a downtime that
  took effect ends or is removed":
  * `start_effect_last`: in the last operation of a well-formed run a DowntimeStart request is made only for a
    downtime that takes effect in that very operation;
  * `xend_run`: in every reachable state a downtime that still exists has caused no DowntimeEnd request, and one
    that is gone has caused exactly one if it had taken effect (and the checkable was not paused), none otherwise.
-/
import IcingaProofs.C05.Whole

namespace Icinga.C05

/-- The invariants hold before the last operation of a well-formed run, and that operation is well-formed. -/
theorem tinv_run_last (ops : List Op) : ∀ (sp : SpecSt) (st : St) (T : Int), TInv T sp st → ∀ op, WF T (ops ++ [op]) →
    ∃ T' sp', TInv T' sp' (run st ops) ∧ T' ≤ op.now ∧ opOK op := by
  induction ops with
  | nil =>
    intro sp st T h op hwf
    obtain ⟨h1, h2, _⟩ := hwf
    exact ⟨T, sp, h, h1, h2⟩
  | cons o ops ih =>
    intro sp st T h op hwf
    obtain ⟨h1, h2, h3⟩ := hwf
    have := ih _ _ o.now (tinv_step h o h1 h2) op h3
    simpa [run] using this

theorem start_effect_step {T : Int} {sp : SpecSt} {st : St} (h : TInv T sp st) (op : Op) (hT : T ≤ op.now)
    (hop : opOK op) :
    ∀ d ∈ preModel st op, ∀ d' ∈ (step st op).1.dts, d'.id = d.id → d.starts < d'.starts →
      isTriggered op.now d = false ∧ d.trigEv < d'.trigEv ∧ d'.trigger ≠ 0 ∧ d.start ≤ op.now ∧ op.now ≤ d.fin := by
  have hnow : 0 < op.now := by have := h.sinv.1; have := h.sinv.2.1; omega
  intro d hd d' hd' hid hlt
  have pw := pw_and (pw_stepAll st op h.wfl.1) (pw_stepRSt st op h.wfl.1 h.ainv hnow hop)
  obtain ⟨d'', hd'', r⟩ := mem_of_pw_left pw hd
  have : d'' = d' := eq_of_id (nodup_step st op h.wfl.1) hd'' hd' (by rw [r.2.1, hid])
  subst this
  obtain ⟨e1, e2, e3⟩ := r.2.2.2.2.2.2 hlt
  have hw := r.1.2.2.1.2.2.2 e1
  exact ⟨e2, e1, e3, hw.1, hw.2⟩

/-! ### DowntimeEnd exactly once -/

/-- Context: nothing on the object lies in the future of `now`. -/
def CE (now : Int) (d : Dt) : Prop := d.entry ≤ now ∧ d.trigger ≤ now

/-- DowntimeEnd requests of one downtime. -/
def PX (d : Dt) : Prop :=
  (d.removed = false → d.ends = 0) ∧
  (d.removed = true → d.ends = if 0 < d.trigger ∧ d.quiet = false then 1 else 0)

def REx (now : Int) (d d' : Dt) : Prop := d'.id = d.id ∧ (CE now d → CE now d') ∧ (CE now d → PX d → PX d')

theorem rex_same {now : Int} {d d' : Dt} (h1 : d'.id = d.id) (h2 : d'.entry = d.entry) (h3 : d'.trigger = d.trigger)
    (h4 : d'.removed = d.removed) (h5 : d'.ends = d.ends) (h6 : d.removed = true → d'.quiet = d.quiet) : REx now d d' := by
  refine ⟨h1, fun hc => ?_, fun _ hp => ?_⟩
  · unfold CE at hc ⊢; rw [h2, h3]; exact hc
  · unfold PX at hp ⊢
    rw [h4, h5, h3]
    refine ⟨hp.1, fun hr => ?_⟩
    rw [h6 hr]; exact hp.2 hr

theorem stepRel_REx (now : Int) : StepRel now (fun t => t ≤ now) (CE now) (REx now) where
  refl := fun _ => ⟨rfl, id, fun _ h => h⟩
  trans := fun a b c h g => ⟨g.1.trans h.1, fun hb => g.2.1 (h.2.1 hb), fun hb ha => g.2.2 (h.2.1 hb) (h.2.2 hb ha)⟩
  ctx := fun _ _ r h => r.2.1 h
  trig := by
    intro t d ht _ hc hr
    have hw := canBeTriggered_window hc
    refine ⟨rfl, ?_, ?_⟩
    · intro ⟨c1, c2⟩
      refine ⟨c1, ?_⟩
      simp only [trigSelf, noteTriggered, markTriggered]
      split <;> omega
    · intro _ hp
      have h0 := hp.1 hr
      refine ⟨fun _ => ?_, fun h => ?_⟩
      · simpa [trigSelf, noteTriggered, markTriggered] using h0
      · simp [trigSelf, noteTriggered, markTriggered, hr] at h
  startT := by
    intro d hce _ hc _
    have hw := canBeTriggered_window hc
    have := hce.1
    omega
  start := by
    intro d hce _ hc hr
    have hw := canBeTriggered_window hc
    refine ⟨rfl, ?_, ?_⟩
    · intro ⟨c1, c2⟩
      refine ⟨c1, ?_⟩
      simp only [startSelf, trigSelf, noteTriggered, markTriggered, noteStarted]
      by_cases h0 : d.trigger = 0 <;> simp [h0] <;> omega
    · intro _ hp
      have h0 := hp.1 hr
      refine ⟨fun _ => ?_, fun h => ?_⟩
      · simpa [startSelf, trigSelf, noteTriggered, markTriggered, noteStarted] using h0
      · simp [startSelf, trigSelf, noteTriggered, markTriggered, noteStarted, hr] at h
  setup := fun d _ _ => rex_same rfl rfl rfl rfl rfl (fun _ => rfl)
  addTrig := by
    intro c d _ _
    unfold addTrigger
    split <;> exact rex_same rfl rfl rfl rfl rfl (fun _ => rfl)
  remove := by
    intro d _ hr
    refine ⟨rfl, id, ?_⟩
    intro ⟨_, c2⟩ hp
    have h0 := hp.1 hr
    refine ⟨fun h => by simp [removeDt] at h, fun _ => ?_⟩
    have ht : isTriggered now d = decide (0 < d.trigger) := by simp [isTriggered, c2]
    simp only [removeDt, ht, h0]
    cases hq : d.quiet <;> by_cases hp0 : 0 < d.trigger <;> simp [hp0]
  disarm := fun d _ _ _ _ => rex_same rfl rfl rfl rfl rfl (fun _ => rfl)

theorem rex_setq (now : Int) (b : Bool) (d : Dt) : REx now d (setQuiet b d) := by
  have h := setQuiet_eq b d
  exact rex_same h.1 h.2.2.2.2.2.2.2.1 h.2.2.1 h.2.1 h.2.2.2.2.2.2.2.2.2.2.2.2.1
    (fun hr => by rw [h.2.2.2.2.2.2.2.2.2.2.2.2.2.2.2.2 hr])

def XEnd (st : St) : Prop := ∀ d ∈ st.dts, PX d

theorem xend_step {T : Int} {sp : SpecSt} {st : St} (h : TInv T sp st) (hx : XEnd st) (op : Op) (hT : T ≤ op.now)
    (hop : opOK op) : XEnd (step st op).1 := by
  have hnow : 0 < op.now := by have := h.sinv.1; have := h.sinv.2.1; omega
  have hC : AllC (CE op.now) st.dts := by
    intro d hd
    have hi := h.sinv.2.2 d hd
    exact ⟨by have := hi.2.2.2.1; omega, by have := hi.2.1; omega⟩
  have hnew : ∀ p now, op = .add p now → CE op.now (newDt st p now) := by
    intro p now he
    subst he
    exact ⟨by simp [newDt, Op.now], by simp only [newDt, Op.now] at hnow ⊢; omega⟩
  have hopT : OpT st (fun t => t ≤ op.now) (CE op.now) op := by
    cases op with
    | add p now =>
      refine ⟨hnew p now rfl, fun hc => ?_⟩
      have hw := canBeTriggered_window hc
      have := h.sinv.2.1
      simp only [newDt, Op.now] at hw hT ⊢
      omega
    | result s te now => exact hop.2
    | pump now f => trivial
    | remove id u now => trivial
    | setPaused b now => trivial
  intro d' hd'
  rcases step_pred st op (stepRel_REx op.now) hC hopT (fun b _ _ d _ => rex_setq op.now b d) d' hd'
    with ⟨d, hd, r⟩ | ⟨p, hp, r⟩
  · exact r.2.2 (hC d hd) (hx d hd)
  · refine r.2.2 (hnew p op.now hp) ⟨fun _ => by simp [newDt], fun hr => by simp [newDt] at hr⟩

theorem xend_run (ops : List Op) : ∀ (sp : SpecSt) (st : St) (T : Int), TInv T sp st → XEnd st → WF T ops →
    XEnd (run st ops) := by
  induction ops with
  | nil => intro _ _ _ _ hx _; exact hx
  | cons op ops ih =>
    intro sp st T h hx hw
    obtain ⟨h1, h2, h3⟩ := hw
    have := ih _ _ op.now (tinv_step h op h1 h2) (xend_step h hx op h1 h2) h3
    simpa [run] using this

/-! ### DowntimeStart for every flexible downtime that took effect (runs without pausing the checkable) -/

def noPause : Op → Bool
  | .setPaused _ _ => false
  | _ => true

/-- The checkable is not paused, and every flexible downtime whose trigger time is set has requested DowntimeStart. -/
def NP (st : St) : Prop :=
  st.paused = false ∧ ∀ d ∈ st.dts, d.quiet = false ∧ (d.fixed = false → d.trigger ≠ 0 → 1 ≤ d.starts)

theorem paused_step (st : St) (op : Op) (hop : noPause op = true) : (step st op).1.paused = st.paused := by
  cases op with
  | add p now => simp only [step, addOp]; split <;> rfl
  | result s te now => simp only [step, resultOp]; split <;> rfl
  | pump now f => simp only [step, pumpOp]; split <;> rfl
  | remove id u now => simp only [step, removeOp]; split <;> (try split) <;> rfl
  | setPaused b now => simp [noPause] at hop

theorem np_step (st : St) (op : Op) (hop : noPause op = true) (h : NP st) : NP (step st op).1 := by
  refine ⟨by rw [paused_step st op hop]; exact h.1, ?_⟩
  have key : ∀ d d' : Dt, RF d d' → d.quiet = false → (d.fixed = false → d.trigger ≠ 0 → 1 ≤ d.starts) →
      d'.quiet = false ∧ (d'.fixed = false → d'.trigger ≠ 0 → 1 ≤ d'.starts) := by
    intro d d' ⟨_, r2, r3, r4, _, _, r7, r8, _⟩ hq hs
    refine ⟨by rw [r3]; exact hq, fun hf ht => ?_⟩
    have hfd : d.fixed = false := by rw [← r2]; exact hf
    by_cases h0 : d.trigger = 0
    · have := (r8 hfd h0 ht).2 hq; omega
    · have := hs hfd h0; omega
  intro d' hd'
  have hq : QOK op (fun _ => True) RF := by
    intro b now he; subst he; simp [noPause] at hop
  rcases step_pred st op (stepRel_RF op.now) (allc_trivial _) (opT_trivial st op) hq d' hd'
    with ⟨d, hd, r⟩ | ⟨p, _, r⟩
  · exact key d d' r (h.2 d hd).1 (h.2 d hd).2
  · exact key _ d' r (by simp [newDt]; exact h.1) (fun _ ht => by simp [newDt] at ht)

theorem np_run (ops : List Op) : ∀ st : St, NP st → (∀ op ∈ ops, noPause op = true) → NP (run st ops) := by
  induction ops with
  | nil => intro st h _; exact h
  | cons op ops ih =>
    intro st h hnp
    have := ih (step st op).1 (np_step st op (hnp op List.mem_cons_self) h)
      (fun o ho => hnp o (List.mem_cons_of_mem _ ho))
    simpa [run] using this

end Icinga.C05

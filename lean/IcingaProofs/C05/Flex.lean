/-
  C05 — the clauses `fixed_started_in_window` and `flexible_trigger` on the model's trace.
-/
import IcingaProofs.C05.AddShape

namespace Icinga.C05

/-! ### A fixed downtime inside its window has taken effect -/

/-- One start-timer iteration leaves the named downtime triggered, untriggerable, or flexible. -/
theorem startAt_done (now : Int) (F : Nat) (l : List Dt) (id : Nat) (he : AllC (fun d => 0 < d.entry) l)
    (y : Dt) (hy : y ∈ l) (hl : live id y = true) :
    ∃ x' ∈ startAt now F l id, x'.id = id ∧ x'.removed = false ∧ (DoneP now x' ∨ x'.fixed = false) := by
  have hex : ∃ z, findDt l id = some z := by
    cases hf : findDt l id with
    | some z => exact ⟨z, rfl⟩
    | none =>
      unfold findDt at hf
      have := List.find?_eq_none.mp hf y hy
      exact absurd hl this
  obtain ⟨z, hz⟩ := hex
  obtain ⟨hzm, hzl⟩ := mem_of_findDt hz
  simp only [startAt, hz]
  by_cases hg : (z.fixed && canBeTriggered now z) = true
  · simp only [hg, if_true]
    have ht : 0 < max z.start z.entry := by
      have h1 := he z hzm
      have : z.entry ≤ max z.start z.entry := Int.le_max_right _ _
      omega
    have hm : startSelfG now z ∈ updateDt l id (startSelfG now) := by
      unfold updateDt
      refine List.mem_map.mpr ⟨z, hzm, ?_⟩
      simp [hzl]
    have hdone : Done now id (startSelfG now z) := by
      simp only [startSelfG, hg, if_true]
      refine ⟨by simp [startSelf, trigSelf, noteTriggered, markTriggered, noteStarted, live_id hzl],
        by simp [startSelf, trigSelf, noteTriggered, markTriggered, noteStarted, live_not_removed hzl], Or.inl ?_⟩
      by_cases h0 : z.trigger = 0 <;>
        simp [startSelf, trigSelf, noteTriggered, markTriggered, noteStarted, h0]
      omega
    have h2 := both_cascade (trigRel_RC now (max z.start z.entry)) F _ ⟨rfl, ht⟩ z.triggers
      (updateDt l id (startSelfG now)) (allc_trivial _)
    obtain ⟨x', hx', r⟩ := h2.1 _ hm
    have := done_succ ht r hdone
    exact ⟨x', hx', this.1, this.2.1, Or.inl this.2.2⟩
  · simp only [hg]
    refine ⟨z, hzm, live_id hzl, live_not_removed hzl, ?_⟩
    cases hf : z.fixed with
    | false => right; rfl
    | true =>
      left; right
      simpa [hf] using hg

theorem fireCleanup_keeps (now : Int) (d : Dt) :
    (fireCleanup now d).trigger = d.trigger ∧ (fireCleanup now d).fixed = d.fixed ∧
    (fireCleanup now d).start = d.start ∧ (fireCleanup now d).fin = d.fin ∧
    ((fireCleanup now d).removed = false → d.removed = false) := by
  unfold fireCleanup
  split
  · split
    · refine ⟨rfl, rfl, rfl, rfl, ?_⟩
      intro h; simp [removeDt] at h
    · exact ⟨rfl, rfl, rfl, rfl, id⟩
  · exact ⟨rfl, rfl, rfl, rfl, id⟩

/-- After the start timer has fired, every existing fixed downtime inside its window is triggered. -/
theorem startTimer_fixed {now : Int} (l1 : List Dt) (hw : WFL l1) :
    ∀ x2 ∈ startTimer now l1, x2.removed = false → x2.fixed = true → x2.start ≤ now → now < x2.fin →
      x2.trigger ≠ 0 := by
  intro x2 hx2 hr hf h1 h2
  have hst := step_startTimer (now := now) l1 hw
  -- x2 descends from a live element of l1
  obtain ⟨x1, hx1, r12⟩ := hst.2.1.2 x2 hx2
  have hx1r : x1.removed = false := by
    cases h : x1.removed with
    | false => rfl
    | true => rw [r12.2.2.2.1 h] at hr; rw [h] at hr; cases hr
  have hmem : x1.id ∈ liveIds l1 := by
    unfold liveIds
    exact List.mem_map.mpr ⟨x1, List.mem_filter.mpr ⟨hx1, by simp [hx1r]⟩, rfl⟩
  obtain ⟨pre, post, hsplit⟩ := List.append_of_mem hmem
  -- the fold, split at the turn of x1.id
  have hfold : ∀ (xs : List Nat) (l : List Dt), WFL l ∧ idsOf l = idsOf l1 →
      (WFL (xs.foldl (startAt now l1.length) l) ∧ idsOf (xs.foldl (startAt now l1.length) l) = idsOf l1) ∧
      Both (RD now) l (xs.foldl (startAt now l1.length) l) := by
    intro xs
    induction xs with
    | nil => intro l h; exact ⟨h, both_refl (stepRel_RD now).refl l⟩
    | cons i xs ih =>
      intro l h
      obtain ⟨w, b, i1⟩ := wfl_startAt (now := now) l1.length l i h.1
      obtain ⟨h2, b2⟩ := ih (startAt now l1.length l i) ⟨w, i1.trans h.2⟩
      exact ⟨h2, both_trans (stepRel_RD now).trans b b2⟩
  have hx2' := hx2
  unfold startTimer at hx2'
  rw [hsplit, List.foldl_append, List.foldl_cons] at hx2'
  obtain ⟨hwpre, bpre⟩ := hfold pre l1 ⟨hw, rfl⟩
  obtain ⟨wc, bc, ic⟩ := wfl_startAt (now := now) l1.length (pre.foldl (startAt now l1.length) l1) x1.id hwpre.1
  obtain ⟨hwpost, bpost⟩ := hfold post _ ⟨wc, ic.trans hwpre.2⟩
  -- the version of x2 before its turn is live
  obtain ⟨yc, hyc, ryc⟩ := bpost.2 x2 hx2'
  obtain ⟨y, hy, ry⟩ := bc.2 yc hyc
  have hycr : yc.removed = false := by
    cases h : yc.removed with
    | false => rfl
    | true => rw [ryc.2.2.2.1 h] at hr; rw [h] at hr; cases hr
  have hyr : y.removed = false := by
    cases h : y.removed with
    | false => rfl
    | true => rw [ry.2.2.2.1 h] at hycr; rw [h] at hycr; cases hycr
  have hyid : y.id = x1.id := by rw [← ry.1, ← ryc.1, r12.1]
  obtain ⟨x'', hx'', hid'', hr'', hd''⟩ := startAt_done now l1.length _ x1.id hwpre.1.2.2 y hy
    (by simp [live, hyid, hyr])
  have hxy : x'' = yc := eq_of_id wc.1 hx'' hyc (by rw [hid'', ← hyid, ← ry.1])
  subst hxy
  -- preserved to the end of the fold
  have hfix : x''.fixed = true := by rw [← ryc.2.2.2.2.2.2]; exact hf
  rcases hd'' with hd | hd
  · have := ryc.2.2.2.2.2.1 hr hd
    rcases this with h | h
    · exact h
    · intro h0
      have hcan : canBeTriggered now x2 = true := by
        apply can_of_window h0 h1
        simp [hf, h2]
      rw [hcan] at h; cases h
  · rw [hfix] at hd; cases hd

/-- In an accepted `add`, the downtime carrying the new id is the fresh object after `Start`/`Resume`. -/
theorem add_new (st : St) (p : AddP) (now : Int) (h : st.dts.any (fun d => d.id == p.id) = false)
    {d' : Dt} (hd' : d' ∈ (addOp st p now).1.dts) (hid : d'.id = p.id) : d' = addedDt st p now := by
  rw [addOp_shape st p now h] at hd'
  rcases List.mem_append.mp hd' with hm | hm
  · exfalso
    have hl := fresh_ids h
    split at hm
    · unfold updateDt at hm
      obtain ⟨y, hy, rfl⟩ := List.mem_map.mp hm
      have : (if live p.trigBy y = true then addTrigger p.id y else y).id = y.id := by
        split
        · exact addTrigger_id _ _
        · rfl
      exact hl y hy (by rw [← this]; exact hid)
    · exact hl d' hm hid
  · simpa using hm

/-- … and every other downtime is untouched except for `triggers`. -/
theorem add_other (st : St) (p : AddP) (now : Int) (h : st.dts.any (fun d => d.id == p.id) = false)
    {d' : Dt} (hd' : d' ∈ (addOp st p now).1.dts) (hid : d'.id ≠ p.id) :
    ∃ d ∈ st.dts, d'.id = d.id ∧ d'.trigger = d.trigger ∧ d'.removed = d.removed := by
  rw [addOp_shape st p now h] at hd'
  rcases List.mem_append.mp hd' with hm | hm
  · split at hm
    · unfold updateDt at hm
      obtain ⟨y, hy, rfl⟩ := List.mem_map.mp hm
      refine ⟨y, hy, ?_⟩
      split
      · unfold addTrigger; split <;> exact ⟨rfl, rfl, rfl⟩
      · exact ⟨rfl, rfl, rfl⟩
    · exact ⟨d', hm, rfl, rfl, rfl⟩
  · exfalso
    simp at hm
    apply hid
    rw [hm]
    show (startSelfG now (flexStart st now (newDt st p now))).id = p.id
    rw [(startSelfG_facts now _).1, (flexStart_facts st now _).1]; rfl

theorem chkFixedStarted_model (sp : SpecSt) (st : St) (op : Op) (hrel : RelS sp st) (hw : WFL st.dts)
    (hnow : 0 < op.now) : chkFixedStarted sp op (stepObs st op).2 = true := by
  have hnd := hw.1
  simp only [chkFixedStarted]
  apply all_pw (post_pw sp st op hrel hnd)
  intro sd x' hx' v
  by_cases ht : sd.trig = 0
  · by_cases hcond : (sd.alive && sd.fixed && (timerFired op || isAddOf op (stepObs st op).2 sd.id) &&
        sd.inEffect op.now) = true
    · exfalso
      simp only [Bool.and_eq_true, Bool.or_eq_true] at hcond
      obtain ⟨⟨⟨hal, hfx⟩, hwhy⟩, hin⟩ := hcond
      have hxr : x'.removed = false := by
        have := v.2.2.2.2.2.2.2.1; rw [hal] at this
        cases h : x'.removed with
        | false => rfl
        | true => rw [h] at this; cases this
      have hxt : x'.trigger = 0 := by rw [← v.2.2.2.2.2.2.2.2.1 hxr]; exact ht
      have hxf : x'.fixed = true := by rw [← v.2.1]; exact hfx
      simp only [SDt.inEffect, hfx, if_true, Bool.and_eq_true, decide_eq_true_eq] at hin
      have hx1 : x'.start ≤ op.now := by rw [← v.2.2.1]; exact hin.1
      have hx2 : op.now < x'.fin := by rw [← v.2.2.2.1]; exact hin.2
      cases op with
      | pump now f =>
        have hfired : f = true := by
          rcases hwhy with h | h
          · simpa [timerFired] using h
          · simp [isAddOf] at h
        simp only [step, pumpOp, hfired, if_true] at hx'
        obtain ⟨x2, hx2m, rfl⟩ := List.mem_map.mp hx'
        have hk := fireCleanup_keeps now x2
        have hw1 := (step_map_same (now := now) (fireCleanup now) st.dts (fireCleanup_facts now)
          (both_fireCleanup (stepRel_RD now) st.dts hw.2.2) hw).2
        have := startTimer_fixed (now := now) _ hw1 x2 hx2m (hk.2.2.2.2 hxr) (by rw [← hk.2.1]; exact hxf)
          (by rw [← hk.2.2.1]; exact hx1) (by rw [← hk.2.2.2.1]; exact hx2)
        exact this (by rw [← hk.1]; exact hxt)
      | add p now =>
        rcases hwhy with h | h
        · simp [timerFired] at h
        · simp only [isAddOf, Bool.and_eq_true, beq_iff_eq] at h
          have hany : st.dts.any (fun d => d.id == p.id) = false := by
            by_cases ha : st.dts.any (fun d => d.id == p.id) = true
            · have : (stepObs st (.add p now)).2.rc = 0 := by simp [stepObs_rc, step, addOp, ha]
              rw [this] at h; simp at h
            · simpa using ha
          have hxid : x'.id = p.id := by rw [← v.1]; exact h.2.symm
          have hx'a : x' = addedDt st p now := add_new st p now hany hx' hxid
          -- the fresh fixed object inside its window is started
          have hpf : p.fixed = true := by
            have : (addedDt st p now).fixed = p.fixed := by
              simp only [addedDt, setupCleanup]
              unfold startSelfG flexStart trigSelfG
              split <;> split <;> (try split) <;> rfl
            rw [← this, ← hx'a]; exact hxf
          have hst : (addedDt st p now).start = p.start ∧ (addedDt st p now).fin = p.fin := by
            simp only [addedDt, setupCleanup]
            unfold startSelfG flexStart trigSelfG
            split <;> split <;> (try split) <;> exact ⟨rfl, rfl⟩
          rw [hx'a] at hxt hx1 hx2
          rw [hst.1] at hx1; rw [hst.2] at hx2
          simp only [Op.now] at hx1 hx2 hnow
          have hflex : flexStart st now (newDt st p now) = newDt st p now := by
            simp [flexStart, newDt, hpf]
          have hcan : canBeTriggered now (newDt st p now) = true := by
            apply can_of_window rfl (by simpa [newDt] using hx1)
            simp [newDt, hpf, hx2]
          have : (addedDt st p now).trigger = max p.start now := by
            unfold addedDt
            rw [hflex]
            have hsg : startSelfG now (newDt st p now) = startSelf (newDt st p now) := by
              unfold startSelfG
              have : (newDt st p now).fixed = true := hpf
              simp [this, hcan]
            rw [hsg]
            simp [setupCleanup, startSelf, trigSelf, noteTriggered, markTriggered, noteStarted, newDt]
          rw [this] at hxt
          have : now ≤ max p.start now := Int.le_max_right _ _
          omega
      | result s te now =>
        rcases hwhy with h | h
        · simp [timerFired] at h
        · simp [isAddOf] at h
      | remove id u now =>
        rcases hwhy with h | h
        · simp [timerFired] at h
        · simp [isAddOf] at h
      | setPaused b now =>
        rcases hwhy with h | h
        · simp [timerFired] at h
        · simp [isAddOf] at h
    · have : (sd.alive && sd.fixed && (timerFired op || isAddOf op (stepObs st op).2 sd.id) &&
        sd.inEffect op.now) = false := by simpa using hcond
      simp only [this, Bool.not_false, Bool.true_or]
  · simp [ht]

/-! ### Flexible downtimes -/

/-- An accepted non-OK result at `now` triggers every existing, not yet triggered flexible downtime with
    `start ≤ now ≤ end`, with the result's execution end as trigger time. -/
theorem result_triggers_flexible (st : St) (now : Int) (s : Nat) (te : Int) (hs : stale st te now = false)
    (hok : isOK st.kind s = false) (hte : 0 < te) (d : Dt) (hd : d ∈ st.dts)
    (huniq : ∀ y ∈ st.dts, y.id = d.id → y = d) (hr : d.removed = false) (hf : d.fixed = false)
    (h0 : d.trigger = 0) (h1 : d.start ≤ now) (h2 : now ≤ d.fin) :
    ∃ d' ∈ (resultOp st s te now).1.dts, d'.id = d.id ∧ d'.removed = false ∧ d'.trigger = max te d.start := by
  have hcan := can_of_fresh_flexible hf h0 h1 h2
  have tr := trigRel_RC now te
  have htk : (fun t' => t' = te ∧ 0 < te) te := ⟨rfl, hte⟩
  have hdts : (resultOp st s te now).1.dts = triggerAll now te st.dts := by
    simp [resultOp, hs, hok]
  rw [hdts]
  unfold triggerAll
  have hmem : d.id ∈ liveIds st.dts := by
    unfold liveIds
    exact List.mem_map.mpr ⟨d, List.mem_filter.mpr ⟨hd, by simp [hr]⟩, rfl⟩
  obtain ⟨pre, post, hsplit⟩ := List.append_of_mem hmem
  rw [hsplit, List.foldl_append, List.foldl_cons]
  have hg : ∀ (acc : List Dt) (i : Nat), AllC (fun _ => True) acc →
      Both (RC te) acc (triggerDt (st.dts.length + 1) now te i acc) :=
    fun acc i hacc => both_triggerDt tr _ te htk i acc hacc
  have h1 := both_foldl tr.refl tr.trans tr.ctx _ hg pre st.dts (allc_trivial _)
  obtain ⟨x1, hx1, r1⟩ := h1.1 d hd
  have hl1 : live d.id x1 = true := rc_live r1 (by simp [live, hr])
  obtain ⟨x2, hx2, hd2⟩ := triggerDt_done st.dts.length now te hte d.id _ x1 hx1 hl1
  -- x2 descends from d (unique id)
  have h12 := both_trans tr.trans h1 (hg (pre.foldl (fun acc i => triggerDt (st.dts.length + 1) now te i acc) st.dts) d.id (allc_trivial _))
  have h3 := both_foldl tr.refl tr.trans tr.ctx _ hg post
    (triggerDt (st.dts.length + 1) now te d.id (pre.foldl (fun acc i => triggerDt (st.dts.length + 1) now te i acc) st.dts))
    (allc_trivial _)
  obtain ⟨x3, hx3, r3⟩ := h3.1 x2 hx2
  obtain ⟨y, hy, ry⟩ := h12.2 x2 hx2
  have hyd : y = d := huniq y hy (by rw [← ry.1]; exact hd2.1)
  subst hyd
  have ht2 : x2.trigger = max te y.start := by
    rcases rc_can now ry with ⟨_, h⟩ | h
    · exact h
    · rcases ry.2.2.2.2.2.2.2 with h7 | ⟨_, h7⟩
      · rcases hd2.2.2 with h3 | h3
        · rw [h7] at h3; exact absurd h0 h3
        · rw [h, hcan] at h3; exact absurd h3 (by simp)
      · exact h7
  refine ⟨x3, hx3, by rw [r3.1]; exact hd2.1, by rw [r3.2.1]; exact hd2.2.1, ?_⟩
  rcases r3.2.2.2.2.2.2.2 with h7 | ⟨h7, _⟩
  · rw [h7]; exact ht2
  · rw [ht2] at h7; omega

/-! ### Unchained downtimes are in nobody's `triggers` -/

def UnchInv (l : List Dt) : Prop := ∀ q ∈ l, ∀ c ∈ q.triggers, ∀ x ∈ l, x.id = c → x.trigBy ≠ 0

theorem both_sh_startAt (now : Int) (F : Nat) (l : List Dt) (id : Nat) : Both RSh l (startAt now F l id) := by
  unfold startAt
  split
  · exact both_refl (fun _ => ⟨rfl, rfl⟩) l
  · split
    · exact both_trans (trigRel_RSh now).trans (both_sh_updateDt _ (rsh_startSelfG now) l id)
        (both_cascade (trigRel_RSh now) F _ trivial _ _ (allc_trivial _))
    · exact both_refl (fun _ => ⟨rfl, rfl⟩) l

theorem both_sh_fireCleanup (now : Int) (l : List Dt) : Both RSh l (l.map (fireCleanup now)) :=
  both_map _ l (fun d _ => ⟨(fireCleanup_facts now d).1, (fireCleanup_facts now d).2.1⟩)

theorem both_sh_startTimer (now : Int) (l : List Dt) : Both RSh l (startTimer now l) := by
  unfold startTimer
  exact both_foldl (C := fun _ => True) (fun _ => ⟨rfl, rfl⟩) (trigRel_RSh now).trans (fun _ _ _ _ => trivial) _
    (fun acc i _ => both_sh_startAt now _ acc i) _ _ (allc_trivial _)

/-- Operations other than `add` keep ids and `triggers`. -/
theorem both_sh_step (st : St) (op : Op) (hop : ∀ p now, op ≠ .add p now) :
    Both RSh st.dts (step st op).1.dts := by
  cases op with
  | add p now => exact absurd rfl (hop p now)
  | result s te now => exact both_result (trigRel_RSh now) st s te trivial (allc_trivial _)
  | pump now f =>
    simp only [step, pumpOp]
    split
    · exact both_trans (trigRel_RSh now).trans (both_sh_fireCleanup now _)
        (both_trans (trigRel_RSh now).trans (both_sh_startTimer now _) (both_sh_fireCleanup now _))
    · exact both_sh_fireCleanup now _
  | remove id u now =>
    simp only [step, removeOp]
    split
    · exact both_refl (fun _ => ⟨rfl, rfl⟩) _
    · split
      · exact both_refl (fun _ => ⟨rfl, rfl⟩) _
      · exact both_sh_updateDt (removeDt now) (fun d => ⟨rfl, rfl⟩) _ _
  | setPaused b now =>
    simp only [step, setPausedOp]
    exact both_map _ _ (fun d _ => ⟨(setQuiet_eq b d).1, (setQuiet_eq b d).2.2.2.2.2.2.2.2.1⟩)

theorem addedDt_facts (st : St) (p : AddP) (now : Int) :
    (addedDt st p now).id = p.id ∧ (addedDt st p now).triggers = [] ∧
    (addedDt st p now).trigBy = (newDt st p now).trigBy ∧ (addedDt st p now).fixed = p.fixed ∧
    (addedDt st p now).removed = false := by
  have f1 := flexStart_facts st now (newDt st p now)
  have f2 := startSelfG_facts now (flexStart st now (newDt st p now))
  refine ⟨?_, ?_, ?_, ?_, ?_⟩
  · show (startSelfG now (flexStart st now (newDt st p now))).id = p.id
    rw [f2.1, f1.1]; rfl
  · show (startSelfG now (flexStart st now (newDt st p now))).triggers = []
    rw [f2.2.2, f1.2.2]; rfl
  · simp only [addedDt, setupCleanup]
    unfold startSelfG flexStart trigSelfG
    split <;> split <;> (try split) <;> rfl
  · simp only [addedDt, setupCleanup]
    unfold startSelfG flexStart trigSelfG
    split <;> split <;> (try split) <;> rfl
  · show (startSelfG now (flexStart st now (newDt st p now))).removed = false
    rw [f2.2.1, f1.2.1]; rfl

theorem unch_step (st : St) (op : Op) (hw : WFL st.dts) (hi : UnchInv st.dts) : UnchInv (step st op).1.dts := by
  have hnd := hw.1
  by_cases hadd : ∃ p now, op = .add p now ∧ st.dts.any (fun d => d.id == p.id) = false
  · obtain ⟨p, now, rfl, hany⟩ := hadd
    have hl := fresh_ids hany
    simp only [step]
    intro q' hq' c hc x' hx' hxid
    rw [addOp_shape st p now hany] at hq'
    have fa := addedDt_facts st p now
    -- the shape of q'
    rcases List.mem_append.mp hq' with hm | hm
    · -- an older downtime, possibly with the new id registered
      have hold : ∃ y ∈ st.dts, (c ∈ y.triggers ∨
          (c = p.id ∧ (p.trigBy != 0 && (findDt st.dts p.trigBy).isSome) = true)) := by
        split at hm
        · rename_i hpar
          unfold updateDt at hm
          obtain ⟨y, hy, rfl⟩ := List.mem_map.mp hm
          refine ⟨y, hy, ?_⟩
          split at hc
          · unfold addTrigger at hc
            split at hc
            · exact Or.inl hc
            · rcases List.mem_append.mp hc with h | h
              · exact Or.inl h
              · simp at h; exact Or.inr ⟨h, hpar⟩
          · exact Or.inl hc
        · exact ⟨q', hm, Or.inl hc⟩
      obtain ⟨y, hy, hcy⟩ := hold
      rcases hcy with hcy | ⟨hcp, hpar⟩
      · -- c names an older downtime
        have hcold : c ∈ idsOf st.dts := newer_ids hw.2.1 hy hcy
        have hne : x'.id ≠ p.id := by
          intro he
          obtain ⟨z, hz, hzid⟩ := List.mem_map.mp hcold
          exact hl z hz (by rw [hzid, ← hxid, he])
        -- x' is an older downtime with the same trigBy
        rw [addOp_shape st p now hany] at hx'
        rcases List.mem_append.mp hx' with hm2 | hm2
        · have : ∃ x ∈ st.dts, x'.id = x.id ∧ x'.trigBy = x.trigBy := by
            split at hm2
            · unfold updateDt at hm2
              obtain ⟨z, hz, rfl⟩ := List.mem_map.mp hm2
              refine ⟨z, hz, ?_⟩
              split
              · unfold addTrigger; split <;> exact ⟨rfl, rfl⟩
              · exact ⟨rfl, rfl⟩
            · exact ⟨x', hm2, rfl, rfl⟩
          obtain ⟨x, hx, h1, h2⟩ := this
          rw [h2]
          exact hi y hy c hcy x hx (by rw [← h1]; exact hxid)
        · exfalso; simp at hm2; apply hne; rw [hm2]; exact fa.1
      · -- c is the new downtime, which names its trigger downtime
        have hx'a : x' = addedDt st p now := add_new st p now hany hx' (by rw [hxid, hcp])
        rw [hx'a, fa.2.2.1]
        simp only [newDt, hpar, if_true]
        simp only [Bool.and_eq_true, bne_iff_ne] at hpar
        exact hpar.1
    · simp at hm; subst hm
      rw [fa.2.1] at hc; cases hc
  · -- ids, triggers and trigBy are kept
    have hstep : Both RSh st.dts (step st op).1.dts ∧ idsOf (step st op).1.dts = idsOf st.dts ∧
        Pw RM st.dts (step st op).1.dts := by
      cases op with
      | add p now =>
        have hany : st.dts.any (fun d => d.id == p.id) = true := by
          by_cases h : st.dts.any (fun d => d.id == p.id) = true
          · exact h
          · exact absurd ⟨p, now, rfl, by simpa using h⟩ hadd
        have hst : (step st (.add p now)).1 = st := by simp [step, addOp, hany]
        rw [hst]
        exact ⟨both_refl (fun _ => ⟨rfl, rfl⟩) _, rfl, pw_refl (stepRel_RM now).refl _⟩
      | result s te now =>
        exact ⟨both_sh_step st _ (fun _ _ h => by cases h), ids_result st s te now,
          pw_stepRM st (.result s te now) hnd⟩
      | pump now f =>
        exact ⟨both_sh_step st _ (fun _ _ h => by cases h), ids_pump st now f,
          pw_stepRM st (.pump now f) hnd⟩
      | remove id u now =>
        exact ⟨both_sh_step st _ (fun _ _ h => by cases h), ids_remove st id u now,
          pw_stepRM st (.remove id u now) hnd⟩
      | setPaused b now =>
        exact ⟨both_sh_step st _ (fun _ _ h => by cases h), ids_setq st b,
          pw_stepRM st (.setPaused b now) hnd⟩
    obtain ⟨hsh, hids, hrm⟩ := hstep
    intro q' hq' c hc x' hx' hxid
    obtain ⟨q, hq, rq⟩ := hsh.2 q' hq'
    obtain ⟨x, hx, rx⟩ := mem_of_pw_right hrm hx'
    rw [rx.2.2.2.2.2.2.1]
    exact hi q hq c (by rw [← rq.2]; exact hc) x hx (by rw [← rx.1]; exact hxid)

/-! ### Unchained flexible downtimes are not touched by the start timer -/

theorem untouched_triggerDt (now t : Int) (F : Nat) : ∀ (id : Nat) (l : List Dt) (e : Dt), e ∈ l → e.id ≠ id →
    (∀ q ∈ l, e.id ∉ q.triggers) → e ∈ triggerDt F now t id l := by
  induction F with
  | zero => intro id l e he _ _; exact he
  | succ n ih =>
    intro id l e he hne hun
    simp only [triggerDt]
    split
    · exact he
    · rename_i d hf
      split
      · exact he
      · obtain ⟨hdm, _⟩ := mem_of_findDt hf
        have he1 : e ∈ updateDt l id (trigSelfG now t) := by
          unfold updateDt
          refine List.mem_map.mpr ⟨e, he, ?_⟩
          have : live id e = false := by simp [live, hne]
          simp [this]
        have hsh1 := both_sh_updateDt _ (rsh_trigSelfG now t) l id
        -- fold over the children
        have : ∀ (cs : List Nat) (acc : List Dt), (∀ c ∈ cs, c ≠ e.id) → e ∈ acc → (∀ q ∈ acc, e.id ∉ q.triggers) →
            e ∈ cs.foldl (fun acc c => triggerDt n now t c acc) acc := by
          intro cs
          induction cs with
          | nil => intro acc _ h _; exact h
          | cons c cs ihc =>
            intro acc hcs hacc hunacc
            simp only [List.foldl_cons]
            apply ihc _ (fun c' hc' => hcs c' (List.mem_cons_of_mem _ hc'))
              (ih c acc e hacc (fun h => hcs c List.mem_cons_self h.symm) hunacc)
            intro q' hq'
            obtain ⟨q, hq, rq⟩ := (both_triggerDt (trigRel_RSh now) n t trivial c acc (allc_trivial _)).2 q' hq'
            rw [rq.2]; exact hunacc q hq
        apply this d.triggers _ (fun c hc h => hun d hdm (by rw [← h]; exact hc)) he1
        intro q' hq'
        obtain ⟨q, hq, rq⟩ := hsh1.2 q' hq'
        rw [rq.2]; exact hun q hq

theorem untouched_startAt (now : Int) (F : Nat) (l : List Dt) (id : Nat) (e : Dt) (he : e ∈ l)
    (hf : e.fixed = false) (hun : ∀ q ∈ l, e.id ∉ q.triggers) : e ∈ startAt now F l id := by
  unfold startAt
  split
  · exact he
  · rename_i d hfd
    split
    · obtain ⟨hdm, _⟩ := mem_of_findDt hfd
      have he1 : e ∈ updateDt l id (startSelfG now) := by
        unfold updateDt
        refine List.mem_map.mpr ⟨e, he, ?_⟩
        split
        · simp [startSelfG, hf]
        · rfl
      have hsh1 := both_sh_updateDt _ (rsh_startSelfG now) l id
      have : ∀ (cs : List Nat) (acc : List Dt), (∀ c ∈ cs, c ≠ e.id) → e ∈ acc → (∀ q ∈ acc, e.id ∉ q.triggers) →
          e ∈ cs.foldl (fun acc c => triggerDt F now (max d.start d.entry) c acc) acc := by
        intro cs
        induction cs with
        | nil => intro acc _ h _; exact h
        | cons c cs ihc =>
          intro acc hcs hacc hunacc
          simp only [List.foldl_cons]
          apply ihc _ (fun c' hc' => hcs c' (List.mem_cons_of_mem _ hc'))
            (untouched_triggerDt now _ F c acc e hacc (fun h => hcs c List.mem_cons_self h.symm) hunacc)
          intro q' hq'
          obtain ⟨q, hq, rq⟩ := (both_triggerDt (trigRel_RSh now) F _ trivial c acc (allc_trivial _)).2 q' hq'
          rw [rq.2]; exact hunacc q hq
      apply this d.triggers _ (fun c hc h => hun d hdm (by rw [← h]; exact hc)) he1
      intro q' hq'
      obtain ⟨q, hq, rq⟩ := hsh1.2 q' hq'
      rw [rq.2]; exact hun q hq
    · exact he

theorem untouched_startTimer (now : Int) (l : List Dt) (e : Dt) (he : e ∈ l) (hf : e.fixed = false)
    (hun : ∀ q ∈ l, e.id ∉ q.triggers) : e ∈ startTimer now l := by
  unfold startTimer
  have : ∀ (is : List Nat) (acc : List Dt), e ∈ acc → (∀ q ∈ acc, e.id ∉ q.triggers) →
      e ∈ is.foldl (startAt now l.length) acc := by
    intro is
    induction is with
    | nil => intro acc h _; exact h
    | cons i is ih =>
      intro acc hacc hunacc
      simp only [List.foldl_cons]
      apply ih _ (untouched_startAt now _ acc i e hacc hf hunacc)
      intro q' hq'
      obtain ⟨q, hq, rq⟩ := (both_sh_startAt now l.length acc i).2 q' hq'
      rw [rq.2]; exact hunacc q hq
  exact this _ l he hun

/-! ### The `flexible_trigger` clause on the model's trace -/

theorem problem_relS {sp : SpecSt} {st : St} (h : RelS sp st) : sp.problem = st.problem := by
  obtain ⟨h1, h2, h3, _, _, _, _⟩ := h
  simp only [SpecSt.problem, St.problem, h1, ← h2]
  cases hc : sp.checked with
  | true => simp [h3 hc]
  | false => simp

theorem cannot_outside {now : Int} {d : Dt} (h : ¬ (d.start ≤ now ∧ now ≤ d.fin)) :
    canBeTriggered now d = false := by
  cases hc : canBeTriggered now d with
  | false => rfl
  | true => have := canBeTriggered_window hc; exact absurd ⟨this.1, this.2.1⟩ h

theorem remove_trigger (st : St) (id : Nat) (u : Bool) (now : Int) :
    ∀ d' ∈ (removeOp st id u now).1.dts, ∃ d0 ∈ st.dts, d'.id = d0.id ∧ d'.trigger = d0.trigger := by
  intro d' hd'
  unfold removeOp at hd'
  split at hd'
  · exact ⟨d', hd', rfl, rfl⟩
  · split at hd'
    · exact ⟨d', hd', rfl, rfl⟩
    · simp only at hd'
      unfold updateDt at hd'
      obtain ⟨y, hy, rfl⟩ := List.mem_map.mp hd'
      refine ⟨y, hy, ?_⟩
      split <;> exact ⟨rfl, rfl⟩

theorem chkFlexible_model (sp : SpecSt) (st : St) (op : Op) (hrel : RelS sp st) (hw : WFL st.dts)
    (hun : UnchInv st.dts) (hop : opOK op) : chkFlexible sp op (stepObs st op).2 = true := by
  have hnd := hw.1
  have hnd' := nodup_step st op hnd
  simp only [chkFlexible, postDts]
  rw [zip_map_all]
  apply all_chain _ _ _ _ (pw_pre sp st op hrel.2.2.2.2.2.2 hnd)
    (pw_stepAll st op hnd)
  intro sd d d' _ hd hd' v r
  obtain ⟨va, hlive⟩ := triple_facts sp st op hnd hd hd' v r
  by_cases hcond : ((SDt.after sp.paused (stepObs st op).2 sd).alive && !sd.fixed && sd.trigBy == 0 && sd.trig == 0) = true
  · simp only [hcond, Bool.not_true, Bool.false_or]
    simp only [Bool.and_eq_true, Bool.not_eq_true', beq_iff_eq] at hcond
    obtain ⟨⟨⟨hal, hfx⟩, htb⟩, htr⟩ := hcond
    have hr' : d'.removed = false := by
      have := va.2.2.2.2.2.2.2.1; rw [hal] at this
      cases h : d'.removed with
      | false => rfl
      | true => rw [h] at this; cases this
    have hr := hlive hr'
    have hdf : d.fixed = false := by rw [← v.2.1]; exact hfx
    have hdtb : d.trigBy = 0 := by rw [← v.2.2.2.2.2.1]; exact htb
    have hd0 : d.trigger = 0 := by rw [← v.2.2.2.2.2.2.2.2.1 hr]; exact htr
    have hbt : (SDt.after sp.paused (stepObs st op).2 sd).trig = d'.trigger := va.2.2.2.2.2.2.2.2.1 hr'
    -- it suffices to determine d'.trigger
    suffices hgoal : (match flexDue sp op (stepObs st op).2 sd with
        | some t => d'.trigger = t
        | none => d'.trigger = 0) by
      cases hfd : flexDue sp op (stepObs st op).2 sd with
      | some t => rw [hfd] at hgoal; simp only [hbt, beq_iff_eq]; exact hgoal
      | none => rw [hfd] at hgoal; simp only [hbt, beq_iff_eq]; exact hgoal
    cases op with
    | result s te now =>
      have hd_st : d ∈ st.dts := hd
      by_cases hs : stale st te now = true
      · have hrc : (stepObs st (.result s te now)).2.rc = 0 := by simp [stepObs_rc, step, resultOp, hs]
        have hst : (step st (.result s te now)).1 = st := by simp [step, resultOp, hs]
        rw [hst] at hd'
        have : d' = d := eq_of_id hnd hd' hd_st r.1.1
        simp [flexDue, hrc, this, hd0]
      · have hs' : stale st te now = false := by simpa using hs
        have hrc : (stepObs st (.result s te now)).2.rc = 1 := by simp [stepObs_rc, step, resultOp, hs']
        by_cases hok : isOK st.kind s = true
        · have hst : (step st (.result s te now)).1.dts = st.dts := by simp [step, resultOp, hs', hok]
          rw [hst] at hd'
          have : d' = d := eq_of_id hnd hd' hd_st r.1.1
          simp [flexDue, hrc, hrel.1, hok, this, hd0]
        · have hok' : isOK st.kind s = false := by simpa using hok
          by_cases hwin : sd.inWindow now = true
          · simp only [flexDue, hrc, hrel.1, hok', hwin, beq_self_eq_true, Bool.not_false, Bool.and_self, if_true]
            simp only [SDt.inWindow, Bool.and_eq_true, decide_eq_true_eq, v.2.2.1, v.2.2.2.1] at hwin
            have hte : 0 < te := by have := hop.1; omega
            obtain ⟨d'', hd'', hid'', _, ht''⟩ := result_triggers_flexible st now s te hs' hok' hte d hd_st
              (fun y hy hyid => eq_of_id hnd hy hd_st hyid) hr hdf hd0 hwin.1 hwin.2
            have : d'' = d' := eq_of_id hnd' hd'' hd' (by rw [hid'', r.1.1])
            rw [← this, v.2.2.1]; exact ht''
          · have hwin' : sd.inWindow now = false := by simpa using hwin
            simp only [flexDue, hrc, hwin', Bool.and_false, Bool.false_eq_true, if_false]
            cases Classical.em (d'.trigger = 0) with
            | inl h => exact h
            | inr h =>
              exfalso
              have := r.2.1.2.2.2.2.2.2 hd0 h
              apply hwin
              simp only [SDt.inWindow, Bool.and_eq_true, decide_eq_true_eq, v.2.2.1, v.2.2.2.1]
              exact ⟨this.1, this.2.1⟩
    | add p now =>
      by_cases hany : st.dts.any (fun d => d.id == p.id) = true
      · have hrc : (stepObs st (.add p now)).2.rc = 0 := by simp [stepObs_rc, step, addOp, hany]
        have hst : (step st (.add p now)).1 = st := by simp [step, addOp, hany]
        have hd_st : d ∈ st.dts := by simpa [preModel, hany] using hd
        rw [hst] at hd'
        have : d' = d := eq_of_id hnd hd' hd_st r.1.1
        simp [flexDue, hrc, this, hd0]
      · have hany' : st.dts.any (fun d => d.id == p.id) = false := by simpa using hany
        have hrc : (stepObs st (.add p now)).2.rc = 1 := by simp [stepObs_rc, step, addOp, hany']
        have hd_pre : d ∈ st.dts ++ [newDt st p now] := by simpa [preModel, hany'] using hd
        simp only [step] at hd'
        by_cases hid : p.id = sd.id
        · -- the downtime just created
          have hdid : d.id = p.id := by rw [← v.1]; exact hid.symm
          have hdn : d = newDt st p now := by
            rcases List.mem_append.mp hd_pre with h | h
            · exact absurd hdid (fresh_ids hany' d h)
            · simpa using h
          have hd'a : d' = addedDt st p now := add_new st p now hany' hd' (by rw [r.1.1, hdid])
          have hpf : p.fixed = false := by rw [hdn] at hdf; exact hdf
          have hsg : ∀ z : Dt, z.fixed = false → startSelfG now z = z := by
            intro z hz; simp [startSelfG, hz]
          have hsd : sd.start = p.start ∧ sd.fin = p.fin := by
            rw [v.2.2.1, v.2.2.2.1, hdn]; exact ⟨rfl, rfl⟩
          by_cases hpr : st.problem = true
          · by_cases hwin : sd.inWindow now = true
            · simp only [flexDue, hrc, hid, problem_relS hrel, hpr, hwin, beq_self_eq_true, Bool.and_self, if_true]
              simp only [SDt.inWindow, Bool.and_eq_true, decide_eq_true_eq, hsd.1, hsd.2] at hwin
              have hcan : canBeTriggered now (newDt st p now) = true :=
                can_of_fresh_flexible hpf rfl hwin.1 hwin.2
              have hfs : flexStart st now (newDt st p now) =
                  trigSelf (max (max p.start now) st.lastStateChange) (newDt st p now) := by
                unfold flexStart trigSelfG
                have : (newDt st p now).fixed = false := hpf
                simp only [this, hpr, hcan, Bool.not_false, Bool.and_self, if_true]
                rfl
              rw [hd'a]
              unfold addedDt
              rw [hfs, hsg _ (by simp [trigSelf, noteTriggered, markTriggered, newDt, hpf])]
              simp [setupCleanup, trigSelf, noteTriggered, markTriggered, newDt, hsd.1, hrel.2.2.2.2.1]
              omega
            · have hwin' : sd.inWindow now = false := by simpa using hwin
              simp only [flexDue, hrc, hwin', Bool.and_false, Bool.false_eq_true, if_false]
              have hcan : canBeTriggered now (newDt st p now) = false := by
                apply cannot_outside
                intro hh
                apply hwin
                simp only [SDt.inWindow, Bool.and_eq_true, decide_eq_true_eq, hsd.1, hsd.2]
                exact hh
              have hfs : flexStart st now (newDt st p now) = newDt st p now := by
                unfold flexStart trigSelfG
                simp [hcan]
              rw [hd'a]
              unfold addedDt
              rw [hfs, hsg _ hpf]
              rfl
          · have hpr' : st.problem = false := by simpa using hpr
            simp only [flexDue, problem_relS hrel, hpr', Bool.and_false, Bool.false_and, Bool.false_eq_true, if_false]
            have hfs : flexStart st now (newDt st p now) = newDt st p now := by
              unfold flexStart
              simp [hpr']
            rw [hd'a]
            unfold addedDt
            rw [hfs, hsg _ hpf]
            rfl
        · -- an older downtime
          have hidb : (p.id == sd.id) = false := by simp [hid]
          simp only [flexDue, hidb, Bool.and_false, Bool.false_and, Bool.false_eq_true, if_false]
          have hne : d'.id ≠ p.id := by rw [r.1.1, ← v.1]; exact fun h => hid h.symm
          obtain ⟨d0, hd0m, h1, h2, _⟩ := add_other st p now hany' hd' hne
          have hd_st : d ∈ st.dts := by
            rcases List.mem_append.mp hd_pre with h | h
            · exact h
            · exfalso; simp at h; apply hne; rw [r.1.1, h]; rfl
          have : d0 = d := eq_of_id hnd hd0m hd_st (by rw [← h1, r.1.1])
          rw [h2, this]; exact hd0
    | pump now f =>
      simp only [flexDue]
      have hd_st : d ∈ st.dts := hd
      have hunch : ∀ q ∈ st.dts, d.id ∉ q.triggers := by
        intro q hq hc
        exact hun q hq d.id hc d hd_st rfl hdtb
      -- after the first cleanup pass
      have hk := fireCleanup_keeps now d
      have hf1 := fireCleanup_facts now d
      have he1 : fireCleanup now d ∈ st.dts.map (fireCleanup now) := List.mem_map.mpr ⟨d, hd_st, rfl⟩
      have hun1 : ∀ q ∈ st.dts.map (fireCleanup now), (fireCleanup now d).id ∉ q.triggers := by
        intro q' hq'
        obtain ⟨q, hq, rfl⟩ := List.mem_map.mp hq'
        rw [(fireCleanup_facts now q).2.1, hf1.1]
        exact hunch q hq
      simp only [step, pumpOp] at hd'
      split at hd'
      · have he2 := untouched_startTimer now _ (fireCleanup now d) he1 (by rw [hk.2.1]; exact hdf) hun1
        have he3 : fireCleanup now (fireCleanup now d) ∈ (startTimer now (st.dts.map (fireCleanup now))).map (fireCleanup now) :=
          List.mem_map.mpr ⟨_, he2, rfl⟩
        have hnd3 : (idsOf ((startTimer now (st.dts.map (fireCleanup now))).map (fireCleanup now))).Nodup := by
          rw [ids_map _ _ (fun d _ => fireCleanup_id now d), ids_startTimer, ids_map _ _ (fun d _ => fireCleanup_id now d)]
          exact hnd
        have : d' = fireCleanup now (fireCleanup now d) := eq_of_id hnd3 hd' he3
          (by rw [r.1.1, (fireCleanup_facts now _).1, hf1.1])
        rw [this, (fireCleanup_keeps now _).1, hk.1]; exact hd0
      · have hnd1 : (idsOf (st.dts.map (fireCleanup now))).Nodup := by
          rw [ids_map _ _ (fun d _ => fireCleanup_id now d)]; exact hnd
        have : d' = fireCleanup now d := eq_of_id hnd1 hd' he1 (by rw [r.1.1, hf1.1])
        rw [this, hk.1]; exact hd0
    | remove id u now =>
      simp only [flexDue]
      have hd_st : d ∈ st.dts := hd
      obtain ⟨d0, hd0m, h1, h2⟩ := remove_trigger st id u now d' hd'
      have : d0 = d := eq_of_id hnd hd0m hd_st (by rw [← h1, r.1.1])
      rw [h2, this]; exact hd0
    | setPaused b now =>
      simp only [flexDue]
      have hd_st : d ∈ st.dts := hd
      simp only [step, setPausedOp] at hd'
      obtain ⟨y, hy, rfl⟩ := List.mem_map.mp hd'
      have : y = d := eq_of_id hnd hy hd_st (by rw [← (setQuiet_eq b y).1, r.1.1])
      rw [(setQuiet_eq b y).2.2.1, this]; exact hd0
  · have : ((SDt.after sp.paused (stepObs st op).2 sd).alive && !sd.fixed && sd.trigBy == 0 && sd.trig == 0) = false := by
      simpa using hcond
    simp only [this, Bool.not_false, Bool.true_or]

end Icinga.C05

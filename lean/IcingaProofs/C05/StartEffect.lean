/-
  C05 — "one DowntimeStart **when it takes effect**": a DowntimeStart request is only ever made in the very
  operation in which the downtime takes effect (clause `start_only_on_effect`): the downtime was not yet
  triggered by the clock, `OnDowntimeTriggered` fires in the same operation, and its trigger time is set
  afterwards.  The relation below is lifted through every operation by the framework of Lemmas.lean; it
  needs `0 < t` for every trigger time handed to `TriggerDowntime` and `0 < entry_time` (the context `Base`).
-/
import IcingaProofs.C05.Started

namespace Icinga.C05

/-- A downtime that can be triggered has not taken effect yet. -/
theorem not_triggered_of_can {now : Int} {d : Dt} (h : canBeTriggered now d = true) : isTriggered now d = false := by
  cases ht : isTriggered now d with
  | false => rfl
  | true =>
    simp only [isTriggered, Bool.and_eq_true, decide_eq_true_eq] at ht
    rw [blocked_after_trigger now d ht.1 ht.2] at h
    cases h

theorem isTriggered_congr {now : Int} {a b : Dt} (h : b.trigger = a.trigger) : isTriggered now b = isTriggered now a := by
  simp [isTriggered, h]

/-- Old/new version of one downtime across an operation at `now`. -/
def RSt (now : Int) (d d' : Dt) : Prop :=
  d'.id = d.id ∧ (Base d → Base d') ∧ d.starts ≤ d'.starts ∧ d.trigEv ≤ d'.trigEv ∧
  (d.trigger ≠ 0 → d'.trigger = d.trigger) ∧
  (d.starts < d'.starts → d.trigEv < d'.trigEv ∧ isTriggered now d = false ∧ d'.trigger ≠ 0)

theorem rst_same {now : Int} {d d' : Dt} (h1 : d'.id = d.id) (hb : Base d → Base d') (h2 : d'.starts = d.starts)
    (h3 : d'.trigEv = d.trigEv) (h4 : d'.trigger = d.trigger) : RSt now d d' :=
  ⟨h1, hb, by omega, by omega, fun _ => h4, fun h => by omega⟩

theorem stepRel_RSt (now : Int) : StepRel now (fun t => 0 < t) Base (RSt now) where
  refl := fun d => rst_same rfl id rfl rfl rfl
  trans := by
    intro a b c ⟨h1, h2, h3, h4, h5, h6⟩ ⟨g1, g2, g3, g4, g5, g6⟩
    refine ⟨by omega, fun hb => g2 (h2 hb), by omega, by omega, ?_, ?_⟩
    · intro ha
      have hb := h5 ha
      rw [g5 (by rw [hb]; exact ha), hb]
    · intro hlt
      by_cases hab : a.starts < b.starts
      · obtain ⟨e1, e2, e3⟩ := h6 hab
        exact ⟨by omega, e2, by rw [g5 e3]; exact e3⟩
      · obtain ⟨e1, e2, e3⟩ := g6 (by omega)
        refine ⟨by omega, ?_, e3⟩
        by_cases ha : a.trigger = 0
        · simp [isTriggered, ha]
        · rw [← isTriggered_congr (h5 ha)]; exact e2
  ctx := fun _ _ r h => r.2.1 h
  trig := by
    intro t d ht hb hc hr
    refine ⟨rfl, ((stepRel_RArm now).trig t d ht hb hc hr).2.1, ?_, ?_, ?_, ?_⟩
    · cases hf : d.fixed <;> cases hq : d.quiet <;> simp [trigSelf, noteTriggered, markTriggered, hf, hq]
    · simp [trigSelf, noteTriggered, markTriggered]
    · intro h; simp [trigSelf, noteTriggered, markTriggered, h]
    · intro _
      refine ⟨by simp [trigSelf, noteTriggered, markTriggered], not_triggered_of_can hc, ?_⟩
      simp only [trigSelf, noteTriggered, markTriggered]
      by_cases h0 : d.trigger = 0
      · simp [h0]; omega
      · simp [h0]
  startT := by
    intro d hb _ _ _
    have := hb.2.2
    omega
  start := by
    intro d hb hf hc hr
    refine ⟨rfl, ((stepRel_RArm now).start d hb hf hc hr).2.1, ?_, ?_, ?_, ?_⟩
    · cases hq : d.quiet <;> simp [startSelf, trigSelf, noteTriggered, markTriggered, noteStarted, hf, hq]
    · simp [startSelf, trigSelf, noteTriggered, markTriggered, noteStarted]
    · intro h; simp [startSelf, trigSelf, noteTriggered, markTriggered, noteStarted, h]
    · intro _
      refine ⟨by simp [startSelf, trigSelf, noteTriggered, markTriggered, noteStarted], not_triggered_of_can hc, ?_⟩
      have := hb.2.2
      simp only [startSelf, trigSelf, noteTriggered, markTriggered, noteStarted]
      by_cases h0 : d.trigger = 0
      · simp [h0]; omega
      · simp [h0]
  setup := fun d _ _ => rst_same rfl id rfl rfl rfl
  addTrig := by
    intro c d _ _
    unfold addTrigger
    split <;> exact rst_same rfl id rfl rfl rfl
  remove := fun d _ _ => rst_same rfl id rfl rfl rfl
  disarm := fun d _ _ _ _ => rst_same rfl id rfl rfl rfl

theorem rst_setq (now : Int) (b : Bool) (d : Dt) : RSt now d (setQuiet b d) := by
  have h := setQuiet_eq b d
  refine rst_same h.1 ?_ h.2.2.2.2.2.2.2.2.2.2.2.1 h.2.2.2.2.2.2.2.2.2.2.2.2.2.1 h.2.2.1
  intro hb; unfold Base at hb ⊢
  rw [h.2.2.2.2.2.2.1, h.2.2.1, h.2.2.2.2.2.2.2.1]; exact hb

/-- What a well-formed operation supplies for the side conditions `0 < t` / `Base`. -/
theorem opT_base (st : St) (op : Op) (hnow : 0 < op.now) (hop : opOK op) : OpT st (fun t => 0 < t) Base op := by
  cases op with
  | add p now =>
    refine ⟨?_, fun _ => ?_⟩
    · exact ⟨hop, by simp [newDt], by simpa [newDt, Op.now] using hnow⟩
    · simp only [Op.now] at hnow; omega
  | result s te now => exact hop.1
  | pump now f => trivial
  | remove id u now => trivial
  | setPaused b now => trivial

/-- `pw_step` for a relation with side conditions. -/
theorem pw_step_ctx {tOK : Int → Prop} {C : Dt → Prop} {R : Dt → Dt → Prop} (st : St) (op : Op)
    (sr : StepRel op.now tOK C R) (hid : ∀ a b, R a b → b.id = a.id)
    (hnd : (idsOf st.dts).Nodup) (ha : AllC C st.dts) (hop : OpT st tOK C op) (hq : ∀ b d, R d (setQuiet b d)) :
    Pw R (preModel st op) (step st op).1.dts := by
  apply forall2_of_both hid _ _ (ids_preModel st op) (nodup_preModel st op hnd)
  cases op with
  | add p now =>
    simp only [step, preModel]
    split
    · rename_i hany
      simp only [addOp, hany, if_true]
      exact both_refl sr.refl _
    · rename_i hany
      have hany' : st.dts.any (fun d => d.id == p.id) = false := by simpa using hany
      exact both_add_tail sr.toAddRel st p hany' ha hop
  | result s te now => exact both_result sr.toAddRel.toTrigRel st s te hop ha
  | pump now f => exact both_pump sr st f ha
  | remove id u now => exact both_remove sr st id u ha
  | setPaused b now => exact both_setq st b (fun d _ => hq b d) ha

theorem pw_stepRSt (st : St) (op : Op) (hnd : (idsOf st.dts).Nodup) (ha : AInv st) (hnow : 0 < op.now)
    (hop : opOK op) : Pw (RSt op.now) (preModel st op) (step st op).1.dts :=
  pw_step_ctx st op (stepRel_RSt op.now) (fun _ _ r => r.1) hnd (fun d hd => (ha.2 d hd).1)
    (opT_base st op hnow hop) (rst_setq op.now)

/-- The clause on the model's own trace. -/
theorem chkStartEffect_model (sp : SpecSt) (st : St) (op : Op) (hrel : RelS sp st) (hnd : (idsOf st.dts).Nodup)
    (ha : AInv st) (hnow : 0 < op.now) (hop : opOK op) :
    chkStartEffect sp op (stepObs st op).2 = true := by
  simp only [chkStartEffect, postDts]
  rw [zip_map_all]
  apply all_chain2 _ _ _ _ (pw_pre sp st op hrel.2.2.2.2.2.2 hnd)
    (pw_and (pw_stepAll st op hnd) (pw_stepRSt st op hnd ha hnow hop))
  intro sd d d' _ hd hd' v r
  obtain ⟨va, hlive⟩ := triple_facts sp st op hnd hd hd' v r.1
  obtain ⟨r1, _, r3, r4, _, r6⟩ := r.2
  have h1 : evCount (stepObs st op).2 1 d.id = d'.starts - d.starts := by
    have := evCount_pair st op hnd 1 (Or.inl rfl) hd hd' r1
    simpa [cnt] using this
  have h3 : evCount (stepObs st op).2 3 d.id = d'.trigEv - d.trigEv := by
    have := evCount_pair st op hnd 3 (Or.inr (Or.inr (Or.inl rfl))) hd hd' r1
    simpa [cnt] using this
  rw [v.1, h1, h3, gone_pair sp st op hrel hnd hd' v r1]
  by_cases hlt : d.starts < d'.starts
  · obtain ⟨e1, e2, e3⟩ := r6 hlt
    have hr : d.removed = false := by
      cases hr : d.removed with
      | false => rfl
      | true => have := r.1.2.2.2.1 hr; subst this; exact absurd hlt (Nat.lt_irrefl _)
    have ht : sd.trig = d.trigger := v.2.2.2.2.2.2.2.2.1 hr
    have e2' : (decide (0 < d.trigger) && decide (d.trigger ≤ op.now)) = false := e2
    simp only [Bool.or_eq_true, Bool.and_eq_true, decide_eq_true_eq, ht, e2', Bool.not_false, and_true]
    right
    refine ⟨by omega, ?_⟩
    cases hr' : d'.removed with
    | true => left; simp [hr]
    | false =>
      right
      rw [va.2.2.2.2.2.2.2.2.1 hr']
      simpa using e3
  · have : d'.starts - d.starts = 0 := by omega
    simp [this]

end Icinga.C05

/-
  C05 — "one DowntimeStart when it takes effect", for flexible downtimes, at the level of the whole trace:
  a flexible downtime whose trigger time is set has requested DowntimeStart, or it took effect while the
  checkable was paused (the reader's `excused`); and no DowntimeEnd of a flexible downtime without that.
  (For fixed downtimes the statement is false of the code: F-C05c.)
-/
import IcingaProofs.C05.Flex

namespace Icinga.C05

/-- Old/new version of one downtime across one operation other than `setPaused`. -/
def RF (d d' : Dt) : Prop :=
  d'.id = d.id ∧ d'.fixed = d.fixed ∧ d'.quiet = d.quiet ∧ d.starts ≤ d'.starts ∧ d.trigEv ≤ d'.trigEv ∧
  (d.removed = true → d' = d) ∧ (d.trigger ≠ 0 → d'.trigger = d.trigger) ∧
  (d.fixed = false → d.trigger = 0 → d'.trigger ≠ 0 →
    d.trigEv < d'.trigEv ∧ (d.quiet = false → d.starts < d'.starts)) ∧
  (d.ends < d'.ends → d'.trigger ≠ 0)

theorem rf_same {d d' : Dt} (hr : d.removed = false) (h1 : d'.id = d.id) (h2 : d'.fixed = d.fixed)
    (h3 : d'.quiet = d.quiet) (h4 : d'.starts = d.starts) (h5 : d'.trigEv = d.trigEv)
    (h6 : d'.trigger = d.trigger) (h7 : d'.ends = d.ends) : RF d d' :=
  ⟨h1, h2, h3, (by omega), (by omega), (fun h => by rw [hr] at h; cases h), fun _ => h6,
   fun _ h0 hn => absurd (h6.trans h0) hn, fun h => by omega⟩

theorem stepRel_RF (now : Int) : StepRel now (fun _ => True) (fun _ => True) RF where
  refl := fun d => ⟨rfl, rfl, rfl, Nat.le_refl _, Nat.le_refl _, fun _ => rfl, fun _ => rfl,
    fun _ h0 hn => absurd h0 hn, fun h => absurd h (Nat.lt_irrefl _)⟩
  trans := by
    intro a b c ⟨h1, h2, h3, h4, h5, h6, h7, h8, h9⟩ ⟨g1, g2, g3, g4, g5, g6, g7, g8, g9⟩
    refine ⟨by omega, by simp [*], by simp [*], by omega, by omega, ?_, ?_, ?_, ?_⟩
    · intro ha
      have hb := h6 ha; subst hb; exact g6 ha
    · intro ha
      have hb := h7 ha
      rw [g7 (by rw [hb]; exact ha), hb]
    · intro hf h0 hc
      by_cases hb : b.trigger = 0
      · obtain ⟨e1, e2⟩ := g8 (by rw [h2]; exact hf) hb hc
        refine ⟨by omega, fun hq => ?_⟩
        have := e2 (by rw [h3]; exact hq)
        omega
      · obtain ⟨e1, e2⟩ := h8 hf h0 hb
        refine ⟨by omega, fun hq => ?_⟩
        have := e2 hq
        omega
    · intro hlt
      by_cases hab : a.ends < b.ends
      · have hb := h9 hab
        rw [g7 hb]; exact hb
      · exact g9 (by omega)
  ctx := fun _ _ _ _ => trivial
  trig := by
    intro t d _ _ _ hr
    refine ⟨rfl, rfl, rfl, ?_, ?_, (fun h => by rw [hr] at h; cases h), ?_, ?_, ?_⟩
    · cases hf : d.fixed <;> cases hq : d.quiet <;> simp [trigSelf, noteTriggered, markTriggered, hf, hq]
    · simp [trigSelf, noteTriggered, markTriggered]
    · intro h; simp [trigSelf, noteTriggered, markTriggered, h]
    · intro hf _ _
      refine ⟨by simp [trigSelf, noteTriggered, markTriggered], fun hq => ?_⟩
      simp [trigSelf, noteTriggered, markTriggered, hf, hq]
    · intro h; simp [trigSelf, noteTriggered, markTriggered] at h
  startT := fun _ _ _ _ _ => trivial
  start := by
    intro d _ hf _ hr
    refine ⟨rfl, rfl, rfl, ?_, ?_, (fun h => by rw [hr] at h; cases h), ?_, ?_, ?_⟩
    · cases hq : d.quiet <;> simp [startSelf, trigSelf, noteTriggered, markTriggered, noteStarted, hf, hq]
    · simp [startSelf, trigSelf, noteTriggered, markTriggered, noteStarted]
    · intro h; simp [startSelf, trigSelf, noteTriggered, markTriggered, noteStarted, h]
    · intro hf'; rw [hf] at hf'; cases hf'
    · intro h; simp [startSelf, trigSelf, noteTriggered, markTriggered, noteStarted] at h
  remove := by
    intro d _ hr
    refine ⟨rfl, rfl, rfl, Nat.le_refl _, Nat.le_refl _, (fun h => by rw [hr] at h; cases h), fun _ => rfl,
      fun _ h0 hn => absurd h0 hn, ?_⟩
    intro h
    simp only [removeDt] at h ⊢
    split at h
    · rename_i ht
      simp [isTriggered] at ht
      omega
    · omega
  setup := by intro d _ hr; exact rf_same hr rfl rfl rfl rfl rfl rfl rfl
  addTrig := by
    intro c d _ hr
    unfold addTrigger
    split <;> exact rf_same hr rfl rfl rfl rfl rfl rfl rfl
  disarm := by intro d _ hr _ _; exact rf_same hr rfl rfl rfl rfl rfl rfl rfl

/-- … across any operation (`setPaused` changes the pause mirror and nothing else). -/
def RX (d d' : Dt) : Prop :=
  d'.id = d.id ∧ d'.fixed = d.fixed ∧ d.starts ≤ d'.starts ∧
  (d.removed = true → d' = d) ∧ (d.trigger ≠ 0 → d'.trigger = d.trigger) ∧
  (d.fixed = false → d.trigger = 0 → d'.trigger ≠ 0 →
    d.trigEv < d'.trigEv ∧ (d.quiet = false → d.starts < d'.starts)) ∧
  (d.ends < d'.ends → d'.trigger ≠ 0)

theorem rx_of_rf {d d' : Dt} (h : RF d d') : RX d d' :=
  ⟨h.1, h.2.1, h.2.2.2.1, h.2.2.2.2.2.1, h.2.2.2.2.2.2.1, h.2.2.2.2.2.2.2.1, h.2.2.2.2.2.2.2.2⟩

theorem rx_setq (b : Bool) (d : Dt) : RX d (setQuiet b d) := by
  have h := setQuiet_eq b d
  refine ⟨h.1, h.2.2.2.1, by rw [h.2.2.2.2.2.2.2.2.2.2.2.1]; exact Nat.le_refl _,
    h.2.2.2.2.2.2.2.2.2.2.2.2.2.2.2.2, fun _ => h.2.2.1, ?_, ?_⟩
  · intro _ h0 hn; rw [h.2.2.1] at hn; exact absurd h0 hn
  · intro hlt; rw [h.2.2.2.2.2.2.2.2.2.2.2.2.1] at hlt; exact absurd hlt (Nat.lt_irrefl _)

theorem pw_mono {α β : Type} {R S : α → β → Prop} (h : ∀ a b, R a b → S a b) {l : List α} {l' : List β}
    (hp : Pw R l l') : Pw S l l' := by
  induction hp with
  | nil => exact Pw.nil
  | cons hr _ ih => exact Pw.cons (h _ _ hr) ih

theorem pw_and {α β : Type} {R S : α → β → Prop} {l : List α} {l' : List β}
    (h1 : Pw R l l') (h2 : Pw S l l') : Pw (fun a b => R a b ∧ S a b) l l' := by
  induction h1 with
  | nil => cases h2; exact Pw.nil
  | cons hr _ ih =>
    cases h2 with
    | cons hs h2' => exact Pw.cons ⟨hr, hs⟩ (ih h2')

theorem pw_stepRX (st : St) (op : Op) (hnd : (idsOf st.dts).Nodup) :
    Pw RX (preModel st op) (step st op).1.dts := by
  cases op with
  | setPaused b now => exact pw_map_self _ (rx_setq b) st.dts
  | add p now =>
    apply pw_mono (fun _ _ => rx_of_rf)
    apply forall2_of_both (fun a b r => r.1) _ _ (ids_preModel st _) (nodup_preModel st _ hnd)
    simp only [step, preModel]
    split
    · rename_i hany
      simp only [addOp, hany, if_true]
      exact both_refl (stepRel_RF now).refl _
    · rename_i hany
      have hany' : st.dts.any (fun d => d.id == p.id) = false := by simpa using hany
      exact both_add_tail (stepRel_RF now).toAddRel st p hany' (allc_trivial _) (opT_trivial st (.add p now))
  | result s te now =>
    apply pw_mono (fun _ _ => rx_of_rf)
    apply forall2_of_both (fun a b r => r.1) _ _ (ids_preModel st _) (nodup_preModel st _ hnd)
    exact both_result (stepRel_RF now).toAddRel.toTrigRel st s te trivial (allc_trivial _)
  | pump now f =>
    apply pw_mono (fun _ _ => rx_of_rf)
    apply forall2_of_both (fun a b r => r.1) _ _ (ids_preModel st _) (nodup_preModel st _ hnd)
    exact both_pump (stepRel_RF now) st f (allc_trivial _)
  | remove id u now =>
    apply pw_mono (fun _ _ => rx_of_rf)
    apply forall2_of_both (fun a b r => r.1) _ _ (ids_preModel st _) (nodup_preModel st _ hnd)
    exact both_remove (stepRel_RF now) st id u (allc_trivial _)

/-- What the reader's `excused` flag and the model's counters say together about one downtime: a flexible
    downtime whose trigger time is set has requested DowntimeStart, or is excused. -/
def XP (sd : SDt) (d : Dt) : Prop :=
  d.fixed = false → d.trigger ≠ 0 → (1 ≤ d.starts ∨ sd.excused = true)

def XInv (sp : SpecSt) (st : St) : Prop := Pw XP sp.dts st.dts

theorem xp_after {sp : SpecSt} {st : St} (op : Op) (hnd : (idsOf st.dts).Nodup) (hq : QInv st)
    (hpa : sp.paused = st.paused) {sd : SDt} {d d' : Dt}
    (hd : d ∈ preModel st op) (hd' : d' ∈ (step st op).1.dts) (v : V sd d) (x : XP sd d) (r : RX d d') :
    XP (SDt.after sp.paused (stepObs st op).2 sd) d' := by
  obtain ⟨r1, r2, r3, r4, r5, r6, _⟩ := r
  intro hf ht
  have hfd : d.fixed = false := by rw [← r2]; exact hf
  by_cases h0 : d.trigger = 0
  · obtain ⟨hev, hst⟩ := r6 hfd h0 ht
    have hr : d.removed = false := by
      cases hr : d.removed with
      | false => rfl
      | true => have := r4 hr; subst this; exact absurd h0 ht
    cases hqd : d.quiet with
    | false => left; have := hst hqd; omega
    | true =>
      right
      have hp : sp.paused = true := by rw [hpa, ← qinv_pre st op hq d hd hr]; exact hqd
      have hc : evCount (stepObs st op).2 3 d.id = d'.trigEv - d.trigEv := by
        have := evCount_pair st op hnd 3 (Or.inr (Or.inr (Or.inl rfl))) hd hd' r1
        simpa [cnt] using this
      have hpos : 0 < evCount (stepObs st op).2 3 sd.id := by rw [v.1, hc]; omega
      simp only [SDt.after, hp, Bool.true_and, Bool.or_eq_true, decide_eq_true_eq]
      right; right; exact hpos
  · have ht' := r5 h0
    rcases x hfd h0 with h | h
    · left; omega
    · right; simp [SDt.after, h]

theorem specNext_dts (sp : SpecSt) (op : Op) (o : Obs) : (specNext sp op o).dts = postDts sp op o := by
  cases op <;> simp only [specNext, postDts] <;> (try split) <;> rfl

/-- Generic composition along two position-wise relations, with membership available. -/
theorem pw_chain2 {S S' : SDt → Dt → Prop} {R : Dt → Dt → Prop} (f : SDt → SDt) :
    ∀ (pre : List SDt) (dl nl : List Dt), Pw S pre dl → Pw R dl nl →
      (∀ sd d d', sd ∈ pre → d ∈ dl → d' ∈ nl → S sd d → R d d' → S' (f sd) d') → Pw S' (pre.map f) nl := by
  intro pre
  induction pre with
  | nil => intro dl nl h1 h2 _; cases h1; cases h2; exact Pw.nil
  | cons sd pre ih =>
    intro dl nl h1 h2 hf
    cases h1 with
    | cons hv h1' =>
      cases h2 with
      | cons hr h2' =>
        refine Pw.cons (hf _ _ _ List.mem_cons_self List.mem_cons_self List.mem_cons_self hv hr) (ih _ _ h1' h2' ?_)
        intro sd d d' hs hd hd' v r
        exact hf sd d d' (List.mem_cons_of_mem _ hs) (List.mem_cons_of_mem _ hd) (List.mem_cons_of_mem _ hd') v r

theorem all_chain2 {S : SDt → Dt → Prop} {R : Dt → Dt → Prop} (P : SDt → Bool) :
    ∀ (pre : List SDt) (dl nl : List Dt), Pw S pre dl → Pw R dl nl →
      (∀ sd d d', sd ∈ pre → d ∈ dl → d' ∈ nl → S sd d → R d d' → P sd = true) → pre.all P = true := by
  intro pre
  induction pre with
  | nil => intro _ _ _ _ _; rfl
  | cons sd pre ih =>
    intro dl nl h1 h2 hf
    cases h1 with
    | cons hv h1' =>
      cases h2 with
      | cons hr h2' =>
        simp only [List.all_cons, Bool.and_eq_true]
        refine ⟨hf _ _ _ List.mem_cons_self List.mem_cons_self List.mem_cons_self hv hr, ih _ _ h1' h2' ?_⟩
        intro sd d d' hs hd hd' v r
        exact hf sd d d' (List.mem_cons_of_mem _ hs) (List.mem_cons_of_mem _ hd) (List.mem_cons_of_mem _ hd') v r

/-- The downtime an accepted `add` creates is untriggered. -/
theorem xp_pre (sp : SpecSt) (st : St) (op : Op) (hx : Pw XP sp.dts st.dts) :
    Pw XP (preDts sp op (stepObs st op).2) (preModel st op) := by
  cases op with
  | add p now =>
    simp only [preDts, preModel, stepObs_rc, step, addOp]
    by_cases hany : st.dts.any (fun d => d.id == p.id) = true
    · simp [hany]; exact hx
    · have hany' : st.dts.any (fun d => d.id == p.id) = false := by simpa using hany
      simp only [hany', Bool.false_eq_true, if_false, beq_self_eq_true, if_true]
      apply pw_append hx
      intro _ ht
      simp [newDt] at ht
  | result s te now => exact hx
  | pump now f => exact hx
  | remove id u now => exact hx
  | setPaused b now => exact hx

section
variable (sp : SpecSt) (st : St) (op : Op) (hrel : RelS sp st) (hnd : (idsOf st.dts).Nodup)
  (hq : QInv st) (hx : XInv sp st)
include hrel hnd hq hx

/-- The pairs (known downtime, model downtime) before the operation, with both relations. -/
theorem pre_vx : Pw (fun sd d => V sd d ∧ XP sd d) (preDts sp op (stepObs st op).2) (preModel st op) :=
  pw_and (pw_pre sp st op hrel.2.2.2.2.2.2 hnd) (xp_pre sp st op hx)

theorem pw_rmx : Pw (fun d d' => RM d d' ∧ RX d d') (preModel st op) (step st op).1.dts :=
  pw_and (pw_stepRM st op hnd) (pw_stepRX st op hnd)

theorem xinv_step : XInv (specNext sp op (stepObs st op).2) (step st op).1 := by
  unfold XInv
  rw [specNext_dts]
  unfold postDts
  apply pw_chain2 _ _ _ _ (pre_vx sp st op hrel hnd hq hx) (pw_rmx sp st op hrel hnd hq hx)
  intro sd d d' _ hd hd' vx r
  exact xp_after op hnd hq hrel.2.2.2.2.2.1 hd hd' vx.1 vx.2 r.2

/-- A flexible downtime that has taken effect has requested DowntimeStart (or is excused). -/
theorem chkStarted_model : chkStarted sp op (stepObs st op).2 = true := by
  unfold chkStarted postDts
  rw [List.all_map]
  apply all_chain2 _ _ _ _ (pre_vx sp st op hrel hnd hq hx) (pw_rmx sp st op hrel hnd hq hx)
  intro sd d d' _ hd hd' vx r
  have v' := after_V st op hnd hd hd' vx.1 r.1 sp.paused
  have x' := xp_after op hnd hq hrel.2.2.2.2.2.1 hd hd' vx.1 vx.2 r.2
  simp only [Function.comp]
  generalize SDt.after sp.paused (stepObs st op).2 sd = sd' at v' x'
  obtain ⟨_, v2, _, _, _, _, _, v8, v9, v10, _⟩ := v'
  cases ha : sd'.alive with
  | false => simp
  | true =>
    have hr' : d'.removed = false := by rw [v8] at ha; simpa using ha
    have ht := v9 hr'
    cases hfx : sd'.fixed with
    | true => simp
    | false =>
      by_cases h0 : sd'.trig = 0
      · simp [h0]
      · cases he : sd'.excused with
        | true => simp
        | false =>
          rcases x' (by rw [← v2]; exact hfx) (by rw [← ht]; exact h0) with h | h
          · simp [v10]; exact Or.inr h
          · rw [he] at h; cases h

/-- No DowntimeEnd of a flexible downtime without its DowntimeStart (unless excused). -/
theorem chkEndHasStart_model : chkEndHasStart sp op (stepObs st op).2 = true := by
  unfold chkEndHasStart postDts
  rw [List.all_map]
  apply all_chain2 _ _ _ _ (pre_vx sp st op hrel hnd hq hx) (pw_rmx sp st op hrel hnd hq hx)
  intro sd d d' _ hd hd' vx r
  have v' := after_V st op hnd hd hd' vx.1 r.1 sp.paused
  have x' := xp_after op hnd hq hrel.2.2.2.2.2.1 hd hd' vx.1 vx.2 r.2
  have hid : (SDt.after sp.paused (stepObs st op).2 sd).id = d.id := by simp [SDt.after, vx.1.1]
  have he : evCount (stepObs st op).2 2 d.id = d'.ends - d.ends := by
    have := evCount_pair st op hnd 2 (Or.inr (Or.inl rfl)) hd hd' r.1.1
    simpa [cnt] using this
  simp only [Function.comp, hid, he]
  generalize SDt.after sp.paused (stepObs st op).2 sd = sd' at v' x'
  obtain ⟨_, v2, _, _, _, _, _, _, _, v10, _⟩ := v'
  by_cases hlt : d.ends < d'.ends
  · have htr := r.2.2.2.2.2.2.2 hlt
    cases hfx : sd'.fixed with
    | true => simp
    | false =>
      cases hex : sd'.excused with
      | true => simp
      | false =>
        rcases x' (by rw [← v2]; exact hfx) htr with h | h
        · simp [v10]; exact Or.inr h
        · rw [hex] at h; cases h
  · have : d'.ends - d.ends = 0 := by omega
    simp [this]

end

/-! ### The recorded trigger time is not before `start_time` (F-C05e, repaired by 2efb740) -/

/-- Old/new version of one downtime across an operation: a trigger time that gets set is `≥ start`. -/
def RLB (d d' : Dt) : Prop :=
  d'.id = d.id ∧ d'.start = d.start ∧ (d.trigger ≠ 0 → d'.trigger = d.trigger) ∧
  (d.trigger = 0 → d'.trigger ≠ 0 → d.start ≤ d'.trigger)

theorem rlb_same {d d' : Dt} (h1 : d'.id = d.id) (h2 : d'.start = d.start) (h3 : d'.trigger = d.trigger) :
    RLB d d' :=
  ⟨h1, h2, fun _ => h3, fun h0 hn => absurd (h3.trans h0) hn⟩

theorem stepRel_RLB (now : Int) : StepRel now (fun _ => True) (fun _ => True) RLB where
  refl := fun d => rlb_same rfl rfl rfl
  trans := by
    intro a b c ⟨h1, h2, h3, h4⟩ ⟨g1, g2, g3, g4⟩
    refine ⟨by omega, by omega, ?_, ?_⟩
    · intro ha
      have hb := h3 ha
      rw [g3 (by rw [hb]; exact ha), hb]
    · intro ha hc
      by_cases hb : b.trigger = 0
      · have := g4 hb hc; omega
      · have := h4 ha hb
        rw [g3 hb]; exact this
  ctx := fun _ _ _ _ => trivial
  trig := by
    intro t d _ _ _ _
    refine ⟨rfl, rfl, ?_, ?_⟩
    · intro h; simp [trigSelf, noteTriggered, markTriggered, h]
    · intro h0 _; simp [trigSelf, noteTriggered, markTriggered, h0]; omega
  startT := fun _ _ _ _ _ => trivial
  start := by
    intro d _ _ _ _
    refine ⟨rfl, rfl, ?_, ?_⟩
    · intro h; simp [startSelf, trigSelf, noteTriggered, markTriggered, noteStarted, h]
    · intro h0 _; simp [startSelf, trigSelf, noteTriggered, markTriggered, noteStarted, h0]; omega
  remove := fun d _ _ => rlb_same rfl rfl rfl
  setup := fun d _ _ => rlb_same rfl rfl rfl
  addTrig := by
    intro c d _ _
    unfold addTrigger
    split <;> exact rlb_same rfl rfl rfl
  disarm := fun d _ _ _ _ => rlb_same rfl rfl rfl

theorem rlb_setq (b : Bool) (d : Dt) : RLB d (setQuiet b d) := by
  have h := setQuiet_eq b d
  exact rlb_same h.1 h.2.2.2.2.1 h.2.2.1

theorem pw_stepRLB (st : St) (op : Op) (hnd : (idsOf st.dts).Nodup) :
    Pw RLB (preModel st op) (step st op).1.dts :=
  pw_step st op (stepRel_RLB op.now) (fun _ _ r => r.1) hnd rlb_setq

theorem chkTrigStart_model (sp : SpecSt) (st : St) (op : Op) (hrel : RelS sp st) (hnd : (idsOf st.dts).Nodup) :
    chkTrigStart sp op (stepObs st op).2 = true := by
  simp only [chkTrigStart, postDts]
  rw [zip_map_all]
  apply all_chain2 _ _ _ _ (pw_pre sp st op hrel.2.2.2.2.2.2 hnd)
    (pw_and (pw_stepAll st op hnd) (pw_stepRLB st op hnd))
  intro sd d d' _ hd hd' v r
  obtain ⟨va, hlive⟩ := triple_facts sp st op hnd hd hd' v r.1
  simp only [Bool.or_eq_true, Bool.not_eq_true', Bool.and_eq_false_iff, bne_eq_false_iff_eq, beq_eq_false_iff_ne,
    decide_eq_true_eq]
  cases hr' : d'.removed with
  | true => left; left; left; rw [va.2.2.2.2.2.2.2.1, hr']; rfl
  | false =>
    have hr := hlive hr'
    by_cases h0 : sd.trig = 0
    · by_cases h1 : (SDt.after sp.paused (stepObs st op).2 sd).trig = 0
      · left; right; exact h1
      · right
        have hw := r.2.2.2.2 (by rw [← v.2.2.2.2.2.2.2.2.1 hr]; exact h0)
          (by rw [← va.2.2.2.2.2.2.2.2.1 hr']; exact h1)
        rw [va.2.2.2.2.2.2.2.2.1 hr', v.2.2.1]
        exact hw
    · left; left; right; exact h0

end Icinga.C05

/-
  C05 — closed form of an accepted `add`: the existing downtimes are untouched (only the named trigger
  downtime gets the new id appended to its `triggers`), and the new downtime is the fresh object after
  `Start` (flexible on a problem / fixed inside its window) and `Resume`.
-/
import IcingaProofs.C05.Cascade

namespace Icinga.C05

theorem updateDt_append_new {l : List Dt} {i : Nat} (hl : ∀ d ∈ l, d.id ≠ i) {z : Dt} (hz : live i z = true)
    (f : Dt → Dt) : updateDt (l ++ [z]) i f = l ++ [f z] := by
  unfold updateDt
  rw [List.map_append]
  congr 1
  · have : ∀ d ∈ l, (if live i d = true then f d else d) = d := by
      intro d hd
      have : live i d = false := by simp [live, hl d hd]
      simp [this]
    rw [List.map_congr_left this]; simp
  · simp [hz]

theorem findDt_append_z {l : List Dt} {i : Nat} (hl : ∀ d ∈ l, d.id ≠ i) {z : Dt} (hz : live i z = true) :
    findDt (l ++ [z]) i = some z := by
  unfold findDt
  rw [List.find?_append]
  have : l.find? (live i) = none := by
    apply List.find?_eq_none.mpr
    intro x hx hlx
    exact hl x hx (live_id hlx)
  simp [this, hz]

/-- `TriggerDowntime` on the newest downtime (which has no `triggers`) is a single guarded update. -/
theorem triggerDt_new {l : List Dt} {i : Nat} (hl : ∀ d ∈ l, d.id ≠ i) {z : Dt} (hz : live i z = true)
    (hzt : z.triggers = []) (n : Nat) (now t : Int) :
    triggerDt (n + 1) now t i (l ++ [z]) = l ++ [trigSelfG now t z] := by
  simp only [triggerDt, findDt_append_z hl hz]
  by_cases hc : canBeTriggered now z = true
  · simp only [hc, Bool.not_true, Bool.false_eq_true, if_false, hzt, List.foldl_nil]
    exact updateDt_append_new hl hz _
  · have hc' : canBeTriggered now z = false := by simpa using hc
    simp [hc', trigSelfG]

theorem startAt_new {l : List Dt} {i : Nat} (hl : ∀ d ∈ l, d.id ≠ i) {z : Dt} (hz : live i z = true)
    (hzt : z.triggers = []) (F : Nat) (now : Int) :
    startAt now F (l ++ [z]) i = l ++ [startSelfG now z] := by
  simp only [startAt, findDt_append_z hl hz]
  by_cases hc : (z.fixed && canBeTriggered now z) = true
  · simp only [hc, if_true, hzt, List.foldl_nil]
    exact updateDt_append_new hl hz _
  · simp [hc, startSelfG]

/-- What `Start` does to the fresh object when it is flexible. -/
def flexStart (st : St) (now : Int) (d : Dt) : Dt :=
  if !d.fixed && st.problem then trigSelfG now (max (max d.start d.entry) st.lastStateChange) d else d

/-- The new downtime as an accepted `add` leaves it. -/
def addedDt (st : St) (p : AddP) (now : Int) : Dt :=
  setupCleanup (startSelfG now (flexStart st now (newDt st p now)))

theorem fresh_ids {st : St} {p : AddP} (h : st.dts.any (fun d => d.id == p.id) = false) :
    ∀ d ∈ st.dts, d.id ≠ p.id := by
  intro d hd he
  have := List.any_eq_false.mp h d hd
  simp [he] at this

theorem flexStart_facts (st : St) (now : Int) (d : Dt) :
    (flexStart st now d).id = d.id ∧ (flexStart st now d).removed = d.removed ∧
      (flexStart st now d).triggers = d.triggers := by
  unfold flexStart trigSelfG
  split
  · split <;> exact ⟨rfl, rfl, rfl⟩
  · exact ⟨rfl, rfl, rfl⟩

theorem startSelfG_facts (now : Int) (d : Dt) :
    (startSelfG now d).id = d.id ∧ (startSelfG now d).removed = d.removed ∧
      (startSelfG now d).triggers = d.triggers := by
  unfold startSelfG
  split <;> exact ⟨rfl, rfl, rfl⟩

/-- **Closed form of an accepted `add`.** -/
theorem addOp_shape (st : St) (p : AddP) (now : Int) (h : st.dts.any (fun d => d.id == p.id) = false) :
    (addOp st p now).1.dts =
      (if (p.trigBy != 0 && (findDt st.dts p.trigBy).isSome) = true
        then updateDt st.dts p.trigBy (addTrigger p.id) else st.dts) ++ [addedDt st p now] := by
  have hl := fresh_ids h
  have hnd : live p.id (newDt st p now) = true := by simp [live, newDt]
  have hndt : (newDt st p now).triggers = [] := rfl
  -- Start(): flexible
  have h1 : startFlexible st now (newDt st p now) (st.dts ++ [newDt st p now]) =
      st.dts ++ [flexStart st now (newDt st p now)] := by
    unfold startFlexible flexStart
    split
    · have : (newDt st p now).id = p.id := rfl
      rw [this, triggerDt_new hl hnd hndt]
    · rfl
  have f1 := flexStart_facts st now (newDt st p now)
  have hz1 : live p.id (flexStart st now (newDt st p now)) = true := by
    unfold live; rw [f1.1, f1.2.1]; simp [newDt]
  have hz1t : (flexStart st now (newDt st p now)).triggers = [] := by rw [f1.2.2]; rfl
  have f2 := startSelfG_facts now (flexStart st now (newDt st p now))
  have hz2 : live p.id (startSelfG now (flexStart st now (newDt st p now))) = true := by
    unfold live; rw [f2.1, f2.2.1, f1.1, f1.2.1]; simp [newDt]
  simp only [addOp, h, Bool.false_eq_true, if_false, h1, startAt_new hl hz1 hz1t,
    updateDt_append_new hl hz2 setupCleanup]
  split
  · rename_i hpar
    simp only [Bool.and_eq_true] at hpar
    -- the trigger downtime is an older one
    have hne : p.id ≠ p.trigBy := by
      intro he
      cases hf : findDt st.dts p.trigBy with
      | none => rw [hf] at hpar; simp at hpar
      | some par =>
        obtain ⟨hm, hlv⟩ := mem_of_findDt hf
        exact hl par hm (by rw [live_id hlv, he])
    unfold updateDt
    rw [List.map_append]
    congr 1
    have : live p.trigBy (setupCleanup (startSelfG now (flexStart st now (newDt st p now)))) = false := by
      unfold live
      have : (setupCleanup (startSelfG now (flexStart st now (newDt st p now)))).id = p.id := by
        show (startSelfG now (flexStart st now (newDt st p now))).id = p.id
        rw [f2.1, f1.1]; rfl
      rw [this]; simp [hne]
    simp [this, addedDt]
  · rfl

end Icinga.C05

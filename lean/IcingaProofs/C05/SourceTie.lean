/-
  C05 — the tie of the model's window predicates to the source text: the functions that gen/c05_guards.py
  translates from the bodies of `Downtime::IsTriggered / IsInEffect / IsExpired / CanBeTriggered`
  (lib/icinga/downtime.cpp) on every run of the check are equal to the hand-written `isTriggered`, `isInEffect`,
  `isExpired`, `canBeTriggered` of IcingaModel/C05/Model.lean, for all instants and all downtimes.  The proofs are
  by case split on `fixed` and linear arithmetic only, so that every equivalent spelling of the guards goes through
  and every change of a comparison or bound does not.
-/
import IcingaProofs.Gen.DowntimeGuards
import IcingaProofs.C05.Rel

namespace Icinga.C05
open Icinga.Gen.DowntimeGuards

/-- Decide an equation between two Boolean combinations of linear comparisons over the fields of `d`:
    unfold the translated and the hand-written predicates, split on `fixed` and on `trigger_time = 0`, simplify
    the Boolean structure, and leave the comparisons to `omega`. -/
macro "guard_arith" d:ident : tactic =>
  `(tactic| (
      simp only [isTriggeredSrc, isInEffectSrc, isExpiredSrc, canBeTriggeredSrc,
        isTriggered, isInEffect, isExpired, canBeTriggered] <;>
      (try rw [Bool.eq_iff_iff]) <;>
      by_cases hf : ($d).fixed = true <;> by_cases h0 : ($d).trigger = 0 <;>
      (try simp [hf, h0]) <;>
      first | omega | (split <;> omega) | (split <;> split <;> omega) | (split <;> split <;> split <;> omega) | grind))

theorem isTriggered_src (now : Int) (d : Dt) : isTriggeredSrc now d = isTriggered now d := by guard_arith d

theorem isInEffect_src (now : Int) (d : Dt) : isInEffectSrc now d = isInEffect now d := by guard_arith d

theorem isExpired_src (now : Int) (d : Dt) : isExpiredSrc now d = isExpired now d := by guard_arith d

theorem canBeTriggered_src (now : Int) (d : Dt) : canBeTriggeredSrc now d = canBeTriggered now d := by guard_arith d

end Icinga.C05

/-
  C05 — the concrete relations/invariants fed to the lifting framework of Lemmas.lean, and small
  function-level facts used by the property theorems.
-/
import IcingaProofs.C05.Lemmas

namespace Icinga.C05

/-- The window of the property: fixed ⇒ `[start, end)`; flexible ⇒ `duration` seconds from the trigger. -/
def InWindow (now : Int) (d : Dt) : Prop :=
  (d.fixed = true ∧ d.start ≤ now ∧ now < d.fin) ∨
  (d.fixed = false ∧ d.trigger ≠ 0 ∧ now < d.trigger + d.duration)

theorem isInEffect_iff (now : Int) (d : Dt) : isInEffect now d = true ↔ InWindow now d := by
  unfold isInEffect InWindow
  cases hf : d.fixed <;> by_cases ht : d.trigger = 0 <;> simp [ht]


/-- Old/new version of one downtime across an operation at `now`. -/
def RTrig (now : Int) (d d' : Dt) : Prop :=
  d'.id = d.id ∧ d'.fixed = d.fixed ∧ d'.start = d.start ∧ d'.fin = d.fin ∧ d'.duration = d.duration ∧
  (d.trigger ≠ 0 → d'.trigger = d.trigger) ∧
  (d.trigger = 0 → d'.trigger ≠ 0 → d.start ≤ now ∧ now ≤ d.fin)

theorem canBeTriggered_window {now : Int} {d : Dt} (h : canBeTriggered now d = true) :
    d.start ≤ now ∧ now ≤ d.fin := by
  simp [canBeTriggered] at h
  omega

theorem rtrig_of_eq {now : Int} {d d' : Dt} (h1 : d'.id = d.id) (h2 : d'.fixed = d.fixed)
    (h3 : d'.start = d.start) (h4 : d'.fin = d.fin) (h5 : d'.duration = d.duration)
    (ht : d'.trigger = d.trigger) : RTrig now d d' :=
  ⟨h1, h2, h3, h4, h5, fun _ => ht, fun h0 hn => absurd (ht.trans h0) hn⟩

theorem stepRel_RTrig (now : Int) : StepRel now (RTrig now) where
  refl := by intro d; exact rtrig_of_eq rfl rfl rfl rfl rfl rfl
  trans := by
    intro a b c ⟨h1, h2, h3, h4, h5, h6, h7⟩ ⟨g1, g2, g3, g4, g5, g6, g7⟩
    refine ⟨by omega, by simp [*], by omega, by omega, by omega, ?_, ?_⟩
    · intro ha
      have hb : b.trigger = a.trigger := h6 ha
      rw [g6 (by rw [hb]; exact ha), hb]
    · intro ha hc
      by_cases hb : b.trigger = 0
      · have := g7 hb hc; omega
      · exact h7 ha hb
  mark := by
    intro t d hc _
    have hw := canBeTriggered_window hc
    refine ⟨rfl, rfl, rfl, rfl, rfl, ?_, ?_⟩
    · intro h; simp [markTriggered, h]
    · intro _ _; exact hw
  noteT := by intro d _; exact rtrig_of_eq rfl rfl rfl rfl rfl rfl
  noteS := by intro d _ _ _; exact rtrig_of_eq rfl rfl rfl rfl rfl rfl
  remove := by intro d _; exact rtrig_of_eq rfl rfl rfl rfl rfl rfl
  setup := by intro d _; exact rtrig_of_eq rfl rfl rfl rfl rfl rfl
  addTrig := by
    intro c d _
    unfold addTrigger
    split <;> exact rtrig_of_eq rfl rfl rfl rfl rfl rfl
  disarm := by intro d _; exact rtrig_of_eq rfl rfl rfl rfl rfl rfl


def PEnd (d : Dt) : Prop := d.ends ≤ 1 ∧ (d.removed = false → d.ends = 0)

def REnd (d d' : Dt) : Prop :=
  (d.removed = true → d' = d) ∧ (d.removed = false → d.ends = 0 → PEnd d')

theorem stepRel_REnd (now : Int) : StepRel now REnd where
  refl := by
    intro d
    refine ⟨fun _ => rfl, fun h1 h2 => ⟨by omega, fun _ => h2⟩⟩
  trans := by
    intro a b c ⟨h1, h2⟩ ⟨g1, g2⟩
    constructor
    · intro ha
      have hb : b = a := h1 ha
      subst hb
      exact g1 ha
    · intro ha he
      have pb := h2 ha he
      cases hb : b.removed with
      | true => rw [g1 hb]; exact pb
      | false => exact g2 hb (pb.2 hb)
  mark := by
    intro t d _ hr
    refine ⟨fun h => by simp [hr] at h, fun _ he => ?_⟩
    simp [PEnd, markTriggered, he, hr]
  noteT := by
    intro d hr
    refine ⟨fun h => by simp [hr] at h, fun _ he => ?_⟩
    simp [PEnd, noteTriggered, he]
  noteS := by
    intro d _ _ hr
    refine ⟨fun h => by simp [hr] at h, fun _ he => ?_⟩
    simp [PEnd, noteStarted, he]
  remove := by
    intro d hr
    refine ⟨fun h => by simp [hr] at h, fun _ he => ?_⟩
    simp only [PEnd, removeDt, he]
    constructor
    · split <;> omega
    · intro h; simp at h
  setup := by
    intro d hr
    refine ⟨fun h => by simp [hr] at h, fun _ he => ?_⟩
    simp [PEnd, setupCleanup, he]
  addTrig := by
    intro c d hr
    refine ⟨fun h => by simp [hr] at h, fun _ he => ?_⟩
    unfold addTrigger
    split <;> simp [PEnd, he]
  disarm := by
    intro d hr
    refine ⟨fun h => by simp [hr] at h, fun _ he => ?_⟩
    simp [PEnd, he]


theorem fireCleanup_not_due (now : Int) (d : Dt) : cleanupDue now (fireCleanup now d) = false := by
  unfold fireCleanup
  by_cases hc : cleanupDue now d = true
  · simp only [hc, if_true]
    split <;> simp [cleanupDue, removeDt]
  · simp only [hc]
    simpa using hc

/-- An armed cleanup timer that is due finds its downtime expired (durations are not negative). -/
theorem due_implies_expired (now : Int) (d : Dt) (hdur : 0 ≤ d.duration) (ht : 0 ≤ d.trigger)
    (harm : d.cleanup = some (cleanupPoint d)) (hdue : cleanupDue now d = true) :
    isExpired now d = true := by
  simp only [cleanupDue, harm, cleanupPoint] at hdue
  unfold isExpired isTriggered isInEffect
  cases hf : d.fixed <;> simp [hf] at hdue ⊢
  · by_cases h0 : d.trigger = 0
    · simp [h0] at hdue ⊢; omega
    · have hpos : 0 < d.trigger := by omega
      have : ¬ d.trigger ≤ 0 := by omega
      simp [this] at hdue
      simp [h0, hpos]
      omega
  · exact hdue.2


/-! ### The trigger cascade -/

/-- Old/new version of a downtime inside one `TriggerDowntime` cascade: nothing but the trigger time
    changes, and that only from 0. -/
def RC (x x' : Dt) : Prop :=
  x'.id = x.id ∧ x'.removed = x.removed ∧ x'.fixed = x.fixed ∧ x'.start = x.start ∧ x'.fin = x.fin ∧
  x'.duration = x.duration ∧ (x'.trigger = x.trigger ∨ (x.trigger = 0 ∧ x'.trigger ≠ 0))

theorem trigRel_RC (now : Int) : TrigRel now RC where
  refl := by intro d; exact ⟨rfl, rfl, rfl, rfl, rfl, rfl, Or.inl rfl⟩
  trans := by
    intro a b c ⟨h1, h2, h3, h4, h5, h6, h7⟩ ⟨g1, g2, g3, g4, g5, g6, g7⟩
    refine ⟨by omega, by simp [*], by simp [*], by omega, by omega, by omega, ?_⟩
    rcases h7 with h7 | ⟨h7, h7'⟩ <;> rcases g7 with g7 | ⟨g7, g7'⟩
    · left; omega
    · right; exact ⟨by omega, g7'⟩
    · right; exact ⟨h7, by omega⟩
    · exact absurd g7 h7'
  mark := by
    intro t d _ _
    refine ⟨rfl, rfl, rfl, rfl, rfl, rfl, ?_⟩
    by_cases h0 : d.trigger = 0
    · by_cases ht : t = 0
      · left; simp [markTriggered, h0, ht]
      · right; exact ⟨h0, by simp [markTriggered, h0, ht]⟩
    · left; simp [markTriggered, h0]
  noteT := by intro d _; exact ⟨rfl, rfl, rfl, rfl, rfl, rfl, Or.inl rfl⟩

theorem rc_can (now : Int) {x x' : Dt} (h : RC x x') :
    x'.trigger ≠ 0 ∨ canBeTriggered now x' = canBeTriggered now x := by
  obtain ⟨_, _, h3, h4, h5, h6, h7⟩ := h
  rcases h7 with h7 | ⟨_, h7⟩
  · right
    simp [canBeTriggered, isExpired, isInEffect, isTriggered, h3, h4, h5, h6, h7]
  · left; exact h7

theorem rc_live {c : Nat} {x x' : Dt} (h : RC x x') (hl : live c x = true) : live c x' = true := by
  simp [live] at hl ⊢
  rw [h.1, h.2.1]; exact hl

/-- The goal property of a chained downtime after the cascade. -/
def Done (now : Int) (c : Nat) (x : Dt) : Prop :=
  x.id = c ∧ x.removed = false ∧ (x.trigger ≠ 0 ∨ canBeTriggered now x = false)

theorem done_succ {now : Int} {c : Nat} {x x' : Dt} (h : RC x x') (hd : Done now c x) : Done now c x' := by
  obtain ⟨h1, h2, h3⟩ := hd
  refine ⟨by rw [h.1]; exact h1, by rw [h.2.1]; exact h2, ?_⟩
  rcases rc_can now h with hn | he
  · left; exact hn
  · rcases h3 with h3 | h3
    · left
      rcases h.2.2.2.2.2.2 with h7 | ⟨h7, _⟩
      · rw [h7]; exact h3
      · exact absurd h7 h3
    · right; rw [he]; exact h3

/-- One `TriggerDowntime` call on a name that exists leaves a live downtime of that name which is
    triggered or cannot be triggered. -/
theorem triggerDt_done (n : Nat) (now t : Int) (ht : t ≠ 0) (c : Nat) (l : List Dt) (y : Dt)
    (hy : y ∈ l) (hl : live c y = true) :
    ∃ x' ∈ triggerDt (n + 1) now t c l, Done now c x' := by
  have hex : ∃ z, findDt l c = some z := by
    cases hf : findDt l c with
    | some z => exact ⟨z, rfl⟩
    | none =>
      unfold findDt at hf
      have := List.find?_eq_none.mp hf y hy
      exact absurd hl this
  obtain ⟨z, hz⟩ := hex
  have hzm : z ∈ l := by unfold findDt at hz; exact List.mem_of_find?_eq_some hz
  have hzl : live c z = true := by unfold findDt at hz; exact List.find?_some hz
  have hzid : z.id = c := by simp [live] at hzl; exact hzl.1
  have hzr : z.removed = false := live_not_removed hzl
  by_cases hc : canBeTriggered now z = true
  · -- marked: trigger ≠ 0 afterwards, preserved by the rest of the call
    have hm : markTriggeredG now t z ∈ updateDt l c (markTriggeredG now t) := by
      unfold updateDt
      refine List.mem_map.mpr ⟨z, hzm, ?_⟩
      simp [hzl]
    have hdone : Done now c (markTriggeredG now t z) := by
      refine ⟨?_, ?_, Or.inl ?_⟩
      · simp [markTriggeredG, hc, markTriggered, hzid]
      · simp [markTriggeredG, hc, markTriggered, hzr]
      · by_cases h0 : z.trigger = 0 <;> simp [markTriggeredG, hc, markTriggered, h0, ht]
    simp only [triggerDt, hz, hc, Bool.not_true, Bool.false_eq_true, if_false]
    have h2 : Both RC (updateDt l c (markTriggeredG now t))
        (z.triggers.foldl (fun acc k => triggerDt n now t k acc) (updateDt l c (markTriggeredG now t))) :=
      both_foldl (trigRel_RC now).refl (trigRel_RC now).trans _
        (fun acc k => both_triggerDt (trigRel_RC now) n t k acc) _ _
    have h3 := both_updateDt (trigRel_RC now).refl noteTriggered (fun d hd => (trigRel_RC now).noteT d hd)
      (z.triggers.foldl (fun acc k => triggerDt n now t k acc) (updateDt l c (markTriggeredG now t))) c
    obtain ⟨x', hx', r⟩ := (both_trans (trigRel_RC now).trans h2 h3).1 _ hm
    exact ⟨x', hx', done_succ r hdone⟩
  · have hc' : canBeTriggered now z = false := by simpa using hc
    refine ⟨z, ?_, hzid, hzr, Or.inr hc'⟩
    simp [triggerDt, hz, hc', hzm]


/-- The cascade of one `TriggerDowntime` call that passes its guard reaches every chained name. -/
theorem cascade_children (n : Nat) (now t : Int) (ht : t ≠ 0) (id : Nat) (dts : List Dt) (d : Dt)
    (hf : findDt dts id = some d) (hc : canBeTriggered now d = true)
    (c : Nat) (hcm : c ∈ d.triggers) (x : Dt) (hx : x ∈ dts) (hl : live c x = true) :
    ∃ x' ∈ triggerDt (n + 2) now t id dts, Done now c x' := by
  have tr := trigRel_RC now
  obtain ⟨pre, post, hsplit⟩ := List.append_of_mem hcm
  simp only [triggerDt, hf, hc, Bool.not_true, Bool.false_eq_true, if_false]
  rw [hsplit, List.foldl_append, List.foldl_cons]
  -- state before the call on `c`
  have h1 : Both RC dts (pre.foldl (fun acc k => triggerDt (n + 1) now t k acc) (updateDt dts id (markTriggeredG now t))) :=
    both_trans tr.trans (both_markG tr t dts id)
      (both_foldl tr.refl tr.trans _ (fun acc k => both_triggerDt tr (n + 1) t k acc) _ _)
  obtain ⟨x1, hx1, r1⟩ := h1.1 x hx
  obtain ⟨x2, hx2, hd2⟩ := triggerDt_done n now t ht c _ x1 hx1 (rc_live r1 hl)
  -- the rest of the cascade and the final bookkeeping preserve it
  have h2 := both_foldl tr.refl tr.trans (fun acc k => triggerDt (n + 1) now t k acc)
    (fun acc k => both_triggerDt tr (n + 1) t k acc) post
    (triggerDt (n + 1) now t c (pre.foldl (fun acc k => triggerDt (n + 1) now t k acc) (updateDt dts id (markTriggeredG now t))))
  have h3 := both_updateDt tr.refl noteTriggered (fun d hd => tr.noteT d hd)
    (post.foldl (fun acc k => triggerDt (n + 1) now t k acc)
      (triggerDt (n + 1) now t c (pre.foldl (fun acc k => triggerDt (n + 1) now t k acc) (updateDt dts id (markTriggeredG now t))))) id
  obtain ⟨x3, hx3, r3⟩ := (both_trans tr.trans h2 h3).1 x2 hx2
  exact ⟨x3, hx3, done_succ r3 hd2⟩

end Icinga.C05

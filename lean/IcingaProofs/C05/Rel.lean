/-
  C05 — the concrete relations/invariants fed to the lifting framework of Lemmas.lean, and small
  function-level facts used by the property theorems.
-/
import IcingaProofs.C05.Lemmas

namespace Icinga.C05

/-- The window of the property: fixed ⇒ `[start, end)`; flexible ⇒ `duration` seconds from the trigger. -/
def InWindow (now : Int) (d : Dt) : Prop :=
  (d.fixed = true ∧ d.start ≤ now ∧ now < d.fin) ∨
  (d.fixed = false ∧ d.trigger ≠ 0 ∧ now < d.trigger + d.duration)

theorem isInEffect_iff (now : Int) (d : Dt) : isInEffect now d = true ↔ InWindow now d := by
  unfold isInEffect InWindow
  cases hf : d.fixed <;> by_cases ht : d.trigger = 0 <;> simp [ht]

theorem canBeTriggered_window {now : Int} {d : Dt} (h : canBeTriggered now d = true) :
    d.start ≤ now ∧ now ≤ d.fin ∧ (d.fixed = true → now < d.fin) := by
  cases hf : d.fixed <;> simp [canBeTriggered, hf] at h ⊢ <;> omega

/-- A downtime that has taken effect (`0 < trigger ≤ now`) cannot be triggered (again). -/
theorem blocked_after_trigger (now : Int) (d : Dt) (h1 : 0 < d.trigger) (h2 : d.trigger ≤ now) :
    canBeTriggered now d = false := by
  unfold canBeTriggered isExpired isInEffect isTriggered
  cases hf : d.fixed
  · have h0 : ¬ d.trigger = 0 := by omega
    by_cases hin : now < d.trigger + d.duration <;> simp [h0, h1, h2, hin]
  · by_cases ha : d.start ≤ now <;> by_cases hb : now < d.fin <;> simp [h1, h2, ha, hb] <;> omega

/-! ### Trigger time: write-once, only inside the window -/

/-- Old/new version of one downtime across an operation at `now`. -/
def RTrig (now : Int) (d d' : Dt) : Prop :=
  d'.id = d.id ∧ d'.fixed = d.fixed ∧ d'.start = d.start ∧ d'.fin = d.fin ∧ d'.duration = d.duration ∧
  (d.trigger ≠ 0 → d'.trigger = d.trigger) ∧
  (d.trigger = 0 → d'.trigger ≠ 0 → d.start ≤ now ∧ now ≤ d.fin ∧ (d.fixed = true → now < d.fin))

theorem rtrig_of_eq {now : Int} {d d' : Dt} (h1 : d'.id = d.id) (h2 : d'.fixed = d.fixed)
    (h3 : d'.start = d.start) (h4 : d'.fin = d.fin) (h5 : d'.duration = d.duration)
    (ht : d'.trigger = d.trigger) : RTrig now d d' :=
  ⟨h1, h2, h3, h4, h5, fun _ => ht, fun h0 hn => absurd (ht.trans h0) hn⟩

theorem stepRel_RTrig (now : Int) : StepRel now (fun _ => True) (fun _ => True) (RTrig now) where
  refl := by intro d; exact rtrig_of_eq rfl rfl rfl rfl rfl rfl
  trans := by
    intro a b c ⟨h1, h2, h3, h4, h5, h6, h7⟩ ⟨g1, g2, g3, g4, g5, g6, g7⟩
    refine ⟨by omega, by simp [*], by omega, by omega, by omega, ?_, ?_⟩
    · intro ha
      have hb : b.trigger = a.trigger := h6 ha
      rw [g6 (by rw [hb]; exact ha), hb]
    · intro ha hc
      by_cases hb : b.trigger = 0
      · have := g7 hb hc
        refine ⟨by omega, by omega, ?_⟩
        intro hf; have := this.2.2 (by rw [h2]; exact hf); omega
      · exact h7 ha hb
  ctx := fun _ _ _ _ => trivial
  trig := by
    intro t d _ _ hc _
    have hw := canBeTriggered_window hc
    refine ⟨rfl, rfl, rfl, rfl, rfl, ?_, ?_⟩
    · intro h; simp [trigSelf, noteTriggered, markTriggered, h]
    · intro _ _; exact hw
  startT := fun _ _ _ _ _ => trivial
  start := by
    intro d _ _ hc _
    have hw := canBeTriggered_window hc
    refine ⟨rfl, rfl, rfl, rfl, rfl, ?_, ?_⟩
    · intro h; simp [startSelf, trigSelf, noteTriggered, markTriggered, noteStarted, h]
    · intro _ _; exact hw
  remove := by intro d _ _; exact rtrig_of_eq rfl rfl rfl rfl rfl rfl
  setup := by intro d _ _; exact rtrig_of_eq rfl rfl rfl rfl rfl rfl
  addTrig := by
    intro c d _ _
    unfold addTrigger
    split <;> exact rtrig_of_eq rfl rfl rfl rfl rfl rfl
  disarm := by intro d _ _ _ _; exact rtrig_of_eq rfl rfl rfl rfl rfl rfl

/-! ### DowntimeEnd -/

def PEnd (d : Dt) : Prop := d.ends ≤ 1 ∧ (d.removed = false → d.ends = 0)

def REnd (d d' : Dt) : Prop :=
  (d.removed = true → d' = d) ∧ (d.removed = false → d.ends = 0 → PEnd d')

theorem stepRel_REnd (now : Int) : StepRel now (fun _ => True) (fun _ => True) REnd where
  refl := by
    intro d
    refine ⟨fun _ => rfl, fun h1 h2 => ⟨by omega, fun _ => h2⟩⟩
  trans := by
    intro a b c ⟨h1, h2⟩ ⟨g1, g2⟩
    constructor
    · intro ha
      have hb : b = a := h1 ha
      subst hb
      exact g1 ha
    · intro ha he
      have pb := h2 ha he
      cases hb : b.removed with
      | true => rw [g1 hb]; exact pb
      | false => exact g2 hb (pb.2 hb)
  ctx := fun _ _ _ _ => trivial
  trig := by
    intro t d _ _ _ hr
    refine ⟨fun h => by simp [hr] at h, fun _ he => ?_⟩
    simp [PEnd, trigSelf, noteTriggered, markTriggered, he, hr]
  startT := fun _ _ _ _ _ => trivial
  start := by
    intro d _ _ _ hr
    refine ⟨fun h => by simp [hr] at h, fun _ he => ?_⟩
    simp [PEnd, startSelf, trigSelf, noteTriggered, markTriggered, noteStarted, he, hr]
  remove := by
    intro d _ hr
    refine ⟨fun h => by simp [hr] at h, fun _ he => ?_⟩
    simp only [PEnd, removeDt, he]
    constructor
    · split <;> omega
    · intro h; simp at h
  setup := by
    intro d _ hr
    refine ⟨fun h => by simp [hr] at h, fun _ he => ?_⟩
    simp [PEnd, setupCleanup, he]
  addTrig := by
    intro c d _ hr
    refine ⟨fun h => by simp [hr] at h, fun _ he => ?_⟩
    unfold addTrigger
    split <;> simp [PEnd, he]
  disarm := by
    intro d _ hr _ _
    refine ⟨fun h => by simp [hr] at h, fun _ he => ?_⟩
    simp [PEnd, he]

/-! ### Cleanup timer -/

theorem fireCleanup_not_due (now : Int) (d : Dt) : cleanupDue now (fireCleanup now d) = false := by
  unfold fireCleanup
  by_cases hc : cleanupDue now d = true
  · simp only [hc, if_true]
    split <;> simp [cleanupDue, removeDt]
  · simp only [hc]
    simpa using hc

/-- An armed cleanup timer that is due finds its downtime expired (durations are not negative). -/
theorem due_implies_expired (now : Int) (d : Dt) (hdur : 0 ≤ d.duration) (ht : 0 ≤ d.trigger)
    (harm : d.cleanup = some (cleanupPoint d)) (hdue : cleanupDue now d = true) :
    isExpired now d = true := by
  simp only [cleanupDue, harm, cleanupPoint] at hdue
  unfold isExpired isTriggered isInEffect
  cases hf : d.fixed <;> simp [hf] at hdue ⊢
  · by_cases h0 : d.trigger = 0
    · simp [h0] at hdue ⊢; omega
    · have hpos : 0 < d.trigger := by omega
      have : ¬ d.trigger ≤ 0 := by omega
      simp [this] at hdue
      simp [h0, hpos]
      omega
  · exact hdue.2

/-! ### DowntimeStart at most once: the invariant -/

/-- Per-downtime invariant at a time bound `T` (the instant of the last operation). -/
def IStart (T : Int) (d : Dt) : Prop :=
  0 ≤ d.trigger ∧ d.trigger ≤ T ∧ 0 < d.entry ∧ d.entry ≤ T ∧ d.starts ≤ 1 ∧ (d.starts = 1 → 0 < d.trigger)

theorem iStart_mono {T T' : Int} (h : T ≤ T') {d : Dt} (hi : IStart T d) : IStart T' d := by
  obtain ⟨h1, h2, h3, h4, h5, h6⟩ := hi
  exact ⟨h1, by omega, h3, by omega, h5, h6⟩

def RStart (now : Int) (d d' : Dt) : Prop := IStart now d → IStart now d'

/-- Under the invariant a downtime that can be triggered is untriggered and has not been started. -/
theorem fresh_of_can {now : Int} {d : Dt} (hi : IStart now d) (hc : canBeTriggered now d = true) :
    d.trigger = 0 ∧ d.starts = 0 := by
  obtain ⟨h1, h2, _, _, h5, h6⟩ := hi
  have h0 : d.trigger = 0 := by
    by_cases hp : 0 < d.trigger
    · have := blocked_after_trigger now d hp h2
      rw [this] at hc; exact absurd hc (by simp)
    · omega
  refine ⟨h0, ?_⟩
  by_cases hs : d.starts = 1
  · have := h6 hs; omega
  · omega

theorem stepRel_RStart (now : Int) :
    StepRel now (fun t => 0 < t ∧ t ≤ now) (IStart now) (RStart now) where
  refl := fun _ h => h
  trans := fun _ _ _ h1 h2 h => h2 (h1 h)
  ctx := fun _ _ r h => r h
  trig := by
    intro t d ht hi hc _ _
    obtain ⟨h0, hs⟩ := fresh_of_can hi hc
    have hw := canBeTriggered_window hc
    obtain ⟨_, _, h3, h4, _, _⟩ := hi
    refine ⟨?_, ?_, h3, h4, ?_, ?_⟩ <;>
      cases hf : d.fixed <;> cases hq : d.quiet <;>
      simp [trigSelf, noteTriggered, markTriggered, h0, hs, hf, hq] <;> omega
  startT := by
    intro d hi _ hc _
    have hw := canBeTriggered_window hc
    obtain ⟨_, _, h3, h4, _, _⟩ := hi
    constructor <;> omega
  start := by
    intro d hi hf hc _ _
    obtain ⟨h0, hs⟩ := fresh_of_can hi hc
    have hw := canBeTriggered_window hc
    obtain ⟨_, _, h3, h4, _, _⟩ := hi
    refine ⟨?_, ?_, h3, h4, ?_, ?_⟩ <;> cases hq : d.quiet <;>
      simp [startSelf, trigSelf, noteTriggered, markTriggered, noteStarted, h0, hs, hf, hq] <;> omega
  remove := by intro d _ _ h; exact h
  setup := by intro d _ _ h; exact h
  addTrig := by
    intro c d _ _ h
    unfold addTrigger
    split
    · exact h
    · exact h
  disarm := by intro d _ _ _ _ h; exact h

/-! ### The trigger cascade -/

/-- Old/new version of a downtime inside one `TriggerDowntime(t)` cascade: nothing but the trigger time
    (and ghost counters, cleanup timer) changes, and that only from 0 to `t`. -/
def RC (t : Int) (x x' : Dt) : Prop :=
  x'.id = x.id ∧ x'.removed = x.removed ∧ x'.fixed = x.fixed ∧ x'.start = x.start ∧ x'.fin = x.fin ∧
  x'.duration = x.duration ∧ x'.triggers = x.triggers ∧
  (x'.trigger = x.trigger ∨ (x.trigger = 0 ∧ x'.trigger = max t x.start))

theorem trigRel_RC (now t : Int) : TrigRel now (fun t' => t' = t ∧ 0 < t) (fun _ => True) (RC t) where
  refl := by intro d; exact ⟨rfl, rfl, rfl, rfl, rfl, rfl, rfl, Or.inl rfl⟩
  trans := by
    intro a b c ⟨h1, h2, h3, h4, h5, h6, h6', h7⟩ ⟨g1, g2, g3, g4, g5, g6, g6', g7⟩
    refine ⟨by omega, by simp [*], by simp [*], by omega, by omega, by omega, by simp [*], ?_⟩
    rcases h7 with h7 | ⟨h7, h7'⟩ <;> rcases g7 with g7 | ⟨g7, g7'⟩
    · left; omega
    · right; exact ⟨by omega, by rw [g7', h4]⟩
    · right; exact ⟨h7, by omega⟩
    · right; exact ⟨h7, by rw [g7', h4]⟩
  ctx := fun _ _ _ _ => trivial
  trig := by
    intro t' d ht _ _ _
    refine ⟨rfl, rfl, rfl, rfl, rfl, rfl, rfl, ?_⟩
    by_cases h0 : d.trigger = 0
    · right; exact ⟨h0, by simp [trigSelf, noteTriggered, markTriggered, h0, ht.1]⟩
    · left; simp [trigSelf, noteTriggered, markTriggered, h0]

theorem rc_can (now : Int) {t : Int} {x x' : Dt} (h : RC t x x') :
    (x.trigger = 0 ∧ x'.trigger = max t x.start) ∨ canBeTriggered now x' = canBeTriggered now x := by
  obtain ⟨_, _, h3, h4, h5, h6, _, h7⟩ := h
  rcases h7 with h7 | h7
  · right
    simp [canBeTriggered, isExpired, isInEffect, isTriggered, h3, h4, h5, h6, h7]
  · left; exact h7

theorem rc_live {c : Nat} {t : Int} {x x' : Dt} (h : RC t x x') (hl : live c x = true) : live c x' = true := by
  simp [live] at hl ⊢
  rw [h.1, h.2.1]; exact hl

/-- The goal property of a chained downtime after the cascade. -/
def Done (now : Int) (c : Nat) (x : Dt) : Prop :=
  x.id = c ∧ x.removed = false ∧ (x.trigger ≠ 0 ∨ canBeTriggered now x = false)

theorem done_succ {now t : Int} (ht : 0 < t) {c : Nat} {x x' : Dt} (h : RC t x x') (hd : Done now c x) :
    Done now c x' := by
  obtain ⟨h1, h2, h3⟩ := hd
  refine ⟨by rw [h.1]; exact h1, by rw [h.2.1]; exact h2, ?_⟩
  rcases rc_can now h with ⟨_, hn⟩ | he
  · left; rw [hn]; omega
  · rcases h3 with h3 | h3
    · left
      rcases h.2.2.2.2.2.2.2 with h7 | ⟨h7, _⟩
      · rw [h7]; exact h3
      · exact absurd h7 h3
    · right; rw [he]; exact h3

/-- One `TriggerDowntime` call on a name that exists leaves a live downtime of that name which is
    triggered or cannot be triggered. -/
theorem triggerDt_done (n : Nat) (now t : Int) (ht : 0 < t) (c : Nat) (l : List Dt) (y : Dt)
    (hy : y ∈ l) (hl : live c y = true) :
    ∃ x' ∈ triggerDt (n + 1) now t c l, Done now c x' := by
  have tr := trigRel_RC now t
  have hex : ∃ z, findDt l c = some z := by
    cases hf : findDt l c with
    | some z => exact ⟨z, rfl⟩
    | none =>
      unfold findDt at hf
      have := List.find?_eq_none.mp hf y hy
      exact absurd hl this
  obtain ⟨z, hz⟩ := hex
  obtain ⟨hzm, hzl⟩ := mem_of_findDt hz
  have hzid : z.id = c := live_id hzl
  have hzr : z.removed = false := live_not_removed hzl
  by_cases hc : canBeTriggered now z = true
  · have hm : trigSelfG now t z ∈ updateDt l c (trigSelfG now t) := by
      unfold updateDt
      refine List.mem_map.mpr ⟨z, hzm, ?_⟩
      simp [hzl]
    have hdone : Done now c (trigSelfG now t z) := by
      refine ⟨?_, ?_, Or.inl ?_⟩
      · simp [trigSelfG, hc, trigSelf, noteTriggered, markTriggered, hzid]
      · simp [trigSelfG, hc, trigSelf, noteTriggered, markTriggered, hzr]
      · by_cases h0 : z.trigger = 0 <;> simp [trigSelfG, hc, trigSelf, noteTriggered, markTriggered, h0]
        omega
    simp only [triggerDt, hz, hc, Bool.not_true, Bool.false_eq_true, if_false]
    have h2 := both_cascade tr n t ⟨rfl, ht⟩ z.triggers (updateDt l c (trigSelfG now t)) (allc_trivial _)
    obtain ⟨x', hx', r⟩ := h2.1 _ hm
    exact ⟨x', hx', done_succ ht r hdone⟩
  · have hc' : canBeTriggered now z = false := by simpa using hc
    refine ⟨z, ?_, hzid, hzr, Or.inr hc'⟩
    simp [triggerDt, hz, hc', hzm]

/-- The cascade of one `TriggerDowntime` call that passes its guard reaches every chained name. -/
theorem cascade_children (n : Nat) (now t : Int) (ht : 0 < t) (id : Nat) (dts : List Dt) (d : Dt)
    (hf : findDt dts id = some d) (hc : canBeTriggered now d = true)
    (c : Nat) (hcm : c ∈ d.triggers) (x : Dt) (hx : x ∈ dts) (hl : live c x = true) :
    ∃ x' ∈ triggerDt (n + 2) now t id dts, Done now c x' := by
  have tr := trigRel_RC now t
  have htk : (fun t' => t' = t ∧ 0 < t) t := ⟨rfl, ht⟩
  obtain ⟨pre, post, hsplit⟩ := List.append_of_mem hcm
  simp only [triggerDt, hf, hc, Bool.not_true, Bool.false_eq_true, if_false]
  rw [hsplit, List.foldl_append, List.foldl_cons]
  have h0 := both_trigG tr t htk dts id (allc_trivial _)
  have h1 := both_trans tr.trans h0
    (both_cascade tr (n + 1) t htk pre (updateDt dts id (trigSelfG now t)) (allc_trivial _))
  obtain ⟨x1, hx1, r1⟩ := h1.1 x hx
  obtain ⟨x2, hx2, hd2⟩ := triggerDt_done n now t ht c _ x1 hx1 (rc_live r1 hl)
  have h2 := both_cascade tr (n + 1) t htk post
    (triggerDt (n + 1) now t c (pre.foldl (fun acc k => triggerDt (n + 1) now t k acc) (updateDt dts id (trigSelfG now t))))
    (allc_trivial _)
  obtain ⟨x3, hx3, r3⟩ := h2.1 x2 hx2
  exact ⟨x3, hx3, done_succ ht r3 hd2⟩

/-! ### Pause mirror -/

theorem rtrig_setq (now : Int) (b : Bool) (d : Dt) : RTrig now d (setQuiet b d) := by
  have h := setQuiet_eq b d
  exact rtrig_of_eq h.1 h.2.2.2.1 h.2.2.2.2.1 h.2.2.2.2.2.1 h.2.2.2.2.2.2.1 h.2.2.1

theorem rend_setq (b : Bool) (d : Dt) : REnd d (setQuiet b d) := by
  have h := setQuiet_eq b d
  refine ⟨h.2.2.2.2.2.2.2.2.2.2.2.2.2.2.2.2, fun hr he => ?_⟩
  unfold PEnd
  rw [h.2.2.2.2.2.2.2.2.2.2.2.2.1, h.2.1, he]
  exact ⟨by omega, fun _ => rfl⟩

theorem rstart_setq (now : Int) (b : Bool) (d : Dt) : RStart now d (setQuiet b d) := by
  have h := setQuiet_eq b d
  intro hi
  unfold IStart at hi ⊢
  rw [h.2.2.1, h.2.2.2.2.2.2.2.1, h.2.2.2.2.2.2.2.2.2.2.2.1]
  exact hi

end Icinga.C05

/-
  C05 — helper lemmas: a small framework that lifts a relation between the old and the new version of
  one downtime (`StepRel`) through every list transformer of the model (`updateDt`, `map`, the
  recursion of `triggerDt`, the folds of `triggerAll`/`startTimer`) to every operation.
-/
import IcingaModel.C05.Model
import IcingaModel.C05.Spec

namespace Icinga.C05

/-- Every element of `l` has an `R`-successor in `l'` and every element of `l'` an `R`-predecessor in `l`. -/
def Both (R : Dt → Dt → Prop) (l l' : List Dt) : Prop :=
  (∀ d ∈ l, ∃ d' ∈ l', R d d') ∧ (∀ d' ∈ l', ∃ d ∈ l, R d d')

/-- What a relation must satisfy for the primitive updates the model performs on a live downtime at
    time `now`. -/
structure TrigRel (now : Int) (R : Dt → Dt → Prop) : Prop where
  refl : ∀ d, R d d
  trans : ∀ a b c, R a b → R b c → R a c
  mark : ∀ t d, canBeTriggered now d = true → d.removed = false → R d (markTriggered t d)
  noteT : ∀ d, d.removed = false → R d (noteTriggered d)

structure StepRel (now : Int) (R : Dt → Dt → Prop) : Prop extends TrigRel now R where
  noteS : ∀ d, d.fixed = true → canBeTriggered now d = true → d.removed = false → R d (noteStarted d)
  remove : ∀ d, d.removed = false → R d (removeDt now d)
  setup : ∀ d, d.removed = false → R d (setupCleanup d)
  addTrig : ∀ c d, d.removed = false → R d (addTrigger c d)
  disarm : ∀ d, d.removed = false → R d { d with cleanup := none }

theorem both_refl {R : Dt → Dt → Prop} (hr : ∀ d, R d d) (l : List Dt) : Both R l l :=
  ⟨fun d hd => ⟨d, hd, hr d⟩, fun d hd => ⟨d, hd, hr d⟩⟩

theorem both_trans {R : Dt → Dt → Prop} (ht : ∀ a b c, R a b → R b c → R a c) {l1 l2 l3 : List Dt}
    (h12 : Both R l1 l2) (h23 : Both R l2 l3) : Both R l1 l3 := by
  constructor
  · intro d hd
    obtain ⟨d2, h2, r12⟩ := h12.1 d hd
    obtain ⟨d3, h3, r23⟩ := h23.1 d2 h2
    exact ⟨d3, h3, ht _ _ _ r12 r23⟩
  · intro d3 hd
    obtain ⟨d2, h2, r23⟩ := h23.2 d3 hd
    obtain ⟨d1, h1, r12⟩ := h12.2 d2 h2
    exact ⟨d1, h1, ht _ _ _ r12 r23⟩

theorem both_map {R : Dt → Dt → Prop} (f : Dt → Dt) (h : ∀ d, R d (f d)) (l : List Dt) :
    Both R l (l.map f) := by
  constructor
  · intro d hd
    exact ⟨f d, List.mem_map.mpr ⟨d, hd, rfl⟩, h d⟩
  · intro d' hd
    obtain ⟨d, hd2, rfl⟩ := List.mem_map.mp hd
    exact ⟨d, hd2, h d⟩

theorem live_not_removed {id : Nat} {d : Dt} (h : live id d = true) : d.removed = false := by
  simp [live] at h; exact h.2

theorem both_updateDt {R : Dt → Dt → Prop} (hr : ∀ d, R d d) (f : Dt → Dt)
    (h : ∀ d, d.removed = false → R d (f d)) (l : List Dt) (id : Nat) :
    Both R l (updateDt l id f) := by
  unfold updateDt
  apply both_map
  intro d
  by_cases hl : live id d = true
  · simp only [hl, if_true]; exact h d (live_not_removed hl)
  · simp only [hl]; exact hr d

theorem both_foldl {R : Dt → Dt → Prop} (hr : ∀ d, R d d) (ht : ∀ a b c, R a b → R b c → R a c)
    {α : Type} (g : List Dt → α → List Dt) (hg : ∀ acc x, Both R acc (g acc x)) (xs : List α) (l : List Dt) :
    Both R l (xs.foldl g l) := by
  induction xs generalizing l with
  | nil => exact both_refl hr l
  | cons x xs ih => exact both_trans ht (hg l x) (ih (g l x))

theorem both_markG {now : Int} {R : Dt → Dt → Prop} (sr : TrigRel now R) (t : Int) (l : List Dt) (id : Nat) :
    Both R l (updateDt l id (markTriggeredG now t)) := by
  apply both_updateDt sr.refl
  intro d hd
  unfold markTriggeredG
  by_cases hc : canBeTriggered now d = true
  · simp only [hc, if_true]; exact sr.mark t d hc hd
  · simp only [hc]; exact sr.refl d

theorem both_startedG {now : Int} {R : Dt → Dt → Prop} (sr : StepRel now R) (l : List Dt) (id : Nat) :
    Both R l (updateDt l id (noteStartedG now)) := by
  apply both_updateDt sr.refl
  intro d hd
  unfold noteStartedG
  by_cases hc : (d.fixed && canBeTriggered now d) = true
  · simp only [hc, if_true]
    simp at hc
    exact sr.noteS d hc.1 hc.2 hd
  · simp only [hc]; exact sr.refl d

theorem both_triggerDt {now : Int} {R : Dt → Dt → Prop} (sr : TrigRel now R) (fuel : Nat) (t : Int) :
    ∀ (id : Nat) (l : List Dt), Both R l (triggerDt fuel now t id l) := by
  induction fuel with
  | zero => intro id l; simp only [triggerDt]; exact both_refl sr.refl l
  | succ n ih =>
    intro id l
    simp only [triggerDt]
    split
    · exact both_refl sr.refl l
    · split
      · exact both_refl sr.refl l
      · rename_i d _ _
        have h1 := both_markG sr t l id
        have h2 : Both R (updateDt l id (markTriggeredG now t))
            (d.triggers.foldl (fun acc c => triggerDt n now t c acc) (updateDt l id (markTriggeredG now t))) :=
          both_foldl sr.refl sr.trans _ (fun acc c => ih c acc) _ _
        have h3 := both_updateDt sr.refl noteTriggered (fun d hd => sr.noteT d hd)
          (d.triggers.foldl (fun acc c => triggerDt n now t c acc) (updateDt l id (markTriggeredG now t))) id
        exact both_trans sr.trans h1 (both_trans sr.trans h2 h3)

theorem both_triggerAll {now : Int} {R : Dt → Dt → Prop} (sr : TrigRel now R) (t : Int) (l : List Dt) :
    Both R l (triggerAll now t l) := by
  unfold triggerAll
  exact both_foldl sr.refl sr.trans _ (fun acc i => both_triggerDt sr _ t i acc) _ _

theorem both_startTimerOne {now : Int} {R : Dt → Dt → Prop} (sr : StepRel now R) (fuel : Nat) (acc : List Dt) (i : Nat) :
    Both R acc (startTimerOne now fuel acc i) := by
  unfold startTimerOne
  split
  · exact both_refl sr.refl acc
  · split
    · exact both_trans sr.trans (both_startedG sr acc i) (both_triggerDt sr.toTrigRel _ _ _ _)
    · exact both_refl sr.refl acc

theorem both_startTimer {now : Int} {R : Dt → Dt → Prop} (sr : StepRel now R) (l : List Dt) :
    Both R l (startTimer now l) := by
  unfold startTimer
  exact both_foldl sr.refl sr.trans _ (fun acc i => both_startTimerOne sr _ acc i) _ _

theorem both_fireCleanup {now : Int} {R : Dt → Dt → Prop} (sr : StepRel now R) (l : List Dt) :
    Both R l (l.map (fireCleanup now)) := by
  apply both_map
  intro d
  unfold fireCleanup
  by_cases hc : cleanupDue now d = true
  · have hr : d.removed = false := by
      simp [cleanupDue] at hc; exact hc.1
    simp only [hc, if_true]
    split
    · exact sr.remove d hr
    · exact sr.disarm d hr
  · simp only [hc]; exact sr.refl d

theorem both_pump {now : Int} {R : Dt → Dt → Prop} (sr : StepRel now R) (st : St) :
    Both R st.dts (pumpOp st now).dts := by
  unfold pumpOp
  simp only
  split
  · exact both_trans sr.trans (both_fireCleanup sr _)
      (both_trans sr.trans (both_startTimer sr _) (both_fireCleanup sr _))
  · exact both_fireCleanup sr _

theorem both_result {now : Int} {R : Dt → Dt → Prop} (sr : StepRel now R) (st : St) (s : Nat) (te : Int) :
    Both R st.dts (resultOp st s te now).1.dts := by
  unfold resultOp
  split
  · exact both_refl sr.refl _
  · simp only
    split
    · exact both_triggerAll sr.toTrigRel te _
    · exact both_refl sr.refl _

theorem both_remove {now : Int} {R : Dt → Dt → Prop} (sr : StepRel now R) (st : St) (id : Nat) (u : Bool) :
    Both R st.dts (removeOp st id u now).1.dts := by
  unfold removeOp
  split
  · exact both_refl sr.refl _
  · split
    · exact both_refl sr.refl _
    · exact both_updateDt sr.refl _ (fun d hd => sr.remove d hd) _ _

/-- The part of `addOp` after the new downtime has been appended. -/
theorem both_add_tail {now : Int} {R : Dt → Dt → Prop} (sr : StepRel now R) (st : St) (p : AddP)
    (h : st.dts.any (fun d => d.id == p.id) = false) :
    Both R (st.dts ++ [newDt p now]) (addOp st p now).1.dts := by
  unfold addOp
  simp only [h]
  have h1 : Both R (st.dts ++ [newDt p now]) (startFlexible st now (newDt p now) (st.dts ++ [newDt p now])) := by
    unfold startFlexible
    split
    · exact both_triggerDt sr.toTrigRel _ _ _ _
    · exact both_refl sr.refl _
  have h2 : ∀ l, Both R l (startFixed now p.id l) := by
    intro l
    unfold startFixed
    split
    · exact both_refl sr.refl _
    · split
      · exact both_trans sr.trans (both_startedG sr l p.id) (both_triggerDt sr.toTrigRel _ _ _ _)
      · exact both_refl sr.refl _
  have h3 : ∀ l, Both R l (updateDt l p.id setupCleanup) :=
    fun l => both_updateDt sr.refl _ (fun d hd => sr.setup d hd) _ _
  refine both_trans sr.trans h1 (both_trans sr.trans (h2 _) (both_trans sr.trans (h3 _) ?_))
  simp only [Bool.false_eq_true, if_false]
  split
  · exact both_updateDt sr.refl _ (fun d hd => sr.addTrig _ d hd) _ _
  · exact both_refl sr.refl _

/-- Every downtime that exists before an operation has an `R`-successor after it. -/
theorem step_succ {R : Dt → Dt → Prop} (st : St) (op : Op) (sr : StepRel op.now R) :
    ∀ d ∈ st.dts, ∃ d' ∈ (step st op).1.dts, R d d' := by
  cases op with
  | add p now =>
    intro d hd
    simp only [step]
    by_cases h : st.dts.any (fun d => d.id == p.id) = true
    · refine ⟨d, ?_, sr.refl d⟩
      simp [addOp, h]; exact hd
    · have h' : st.dts.any (fun d => d.id == p.id) = false := by simpa using h
      exact (both_add_tail sr st p h').1 d (List.mem_append_left _ hd)
  | result s te now => exact (both_result sr st s te).1
  | pump now => exact (both_pump sr st).1
  | remove id u now => exact (both_remove sr st id u).1

/-- Every downtime that exists after an operation is the `R`-successor of one that existed before, or of
    the freshly created one. -/
theorem step_pred {R : Dt → Dt → Prop} (st : St) (op : Op) (sr : StepRel op.now R) :
    ∀ d' ∈ (step st op).1.dts, (∃ d ∈ st.dts, R d d') ∨
      (∃ p, op = .add p op.now ∧ R (newDt p op.now) d') := by
  cases op with
  | add p now =>
    intro d' hd'
    simp only [step] at hd'
    by_cases h : st.dts.any (fun d => d.id == p.id) = true
    · left
      refine ⟨d', ?_, sr.refl d'⟩
      simpa [addOp, h] using hd'
    · have h' : st.dts.any (fun d => d.id == p.id) = false := by simpa using h
      obtain ⟨d, hd, r⟩ := (both_add_tail sr st p h').2 d' hd'
      rcases List.mem_append.mp hd with hm | hm
      · exact Or.inl ⟨d, hm, r⟩
      · right
        refine ⟨p, rfl, ?_⟩
        simp at hm; subst hm; exact r
  | result s te now => intro d' hd'; exact Or.inl ((both_result sr st s te).2 d' hd')
  | pump now => intro d' hd'; exact Or.inl ((both_pump sr st).2 d' hd')
  | remove id u now => intro d' hd'; exact Or.inl ((both_remove sr st id u).2 d' hd')

end Icinga.C05

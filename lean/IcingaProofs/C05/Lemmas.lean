/-
  C05 — helper lemmas: a small framework that lifts a relation between the old and the new version of
  one downtime (`StepRel`) through every list transformer of the model (`updateDt`, `map`, the
  recursion of `triggerDt`, the folds of `triggerAll`/`startTimer`) to every operation, and the fact
  that no operation changes the list of downtime ids except `add`, which appends a fresh one.
-/
import IcingaModel.C05.Model
import IcingaModel.C05.Spec

namespace Icinga.C05

/-- Every element of `l` has an `R`-successor in `l'` and every element of `l'` an `R`-predecessor in `l`. -/
def Both (R : Dt → Dt → Prop) (l l' : List Dt) : Prop :=
  (∀ d ∈ l, ∃ d' ∈ l', R d d') ∧ (∀ d' ∈ l', ∃ d ∈ l, R d d')

def AllC (C : Dt → Prop) (l : List Dt) : Prop := ∀ d ∈ l, C d

/-- What a relation must satisfy for what `TriggerDowntime` does to a live downtime at time `now`.
    `tOK` restricts the trigger times the relation has to cope with, `C` is a context predicate known of
    every downtime of the list and carried along by `R`. -/
structure TrigRel (now : Int) (tOK : Int → Prop) (C : Dt → Prop) (R : Dt → Dt → Prop) : Prop where
  refl : ∀ d, R d d
  trans : ∀ a b c, R a b → R b c → R a c
  ctx : ∀ d d', R d d' → C d → C d'
  trig : ∀ t d, tOK t → C d → canBeTriggered now d = true → d.removed = false → R d (trigSelf t d)

/-- … for what creating/starting a downtime does in addition (no removal). -/
structure AddRel (now : Int) (tOK : Int → Prop) (C : Dt → Prop) (R : Dt → Dt → Prop) : Prop
    extends TrigRel now tOK C R where
  startT : ∀ d, C d → d.fixed = true → canBeTriggered now d = true → d.removed = false → tOK (max d.start d.entry)
  start : ∀ d, C d → d.fixed = true → canBeTriggered now d = true → d.removed = false → R d (startSelf d)
  setup : ∀ d, C d → d.removed = false → R d (setupCleanup d)
  addTrig : ∀ c d, C d → d.removed = false → R d (addTrigger c d)

/-- … and for the other primitive updates of the model. -/
structure StepRel (now : Int) (tOK : Int → Prop) (C : Dt → Prop) (R : Dt → Dt → Prop) : Prop
    extends AddRel now tOK C R where
  remove : ∀ d, C d → d.removed = false → R d (removeDt now d)
  disarm : ∀ d, C d → d.removed = false → cleanupDue now d = true → isExpired now d = false →
    R d { d with cleanup := none }

theorem both_refl {R : Dt → Dt → Prop} (hr : ∀ d, R d d) (l : List Dt) : Both R l l :=
  ⟨fun d hd => ⟨d, hd, hr d⟩, fun d hd => ⟨d, hd, hr d⟩⟩

theorem both_trans {R : Dt → Dt → Prop} (ht : ∀ a b c, R a b → R b c → R a c) {l1 l2 l3 : List Dt}
    (h12 : Both R l1 l2) (h23 : Both R l2 l3) : Both R l1 l3 := by
  constructor
  · intro d hd
    obtain ⟨d2, h2, r12⟩ := h12.1 d hd
    obtain ⟨d3, h3, r23⟩ := h23.1 d2 h2
    exact ⟨d3, h3, ht _ _ _ r12 r23⟩
  · intro d3 hd
    obtain ⟨d2, h2, r23⟩ := h23.2 d3 hd
    obtain ⟨d1, h1, r12⟩ := h12.2 d2 h2
    exact ⟨d1, h1, ht _ _ _ r12 r23⟩

theorem allc_of_both {R : Dt → Dt → Prop} {C : Dt → Prop} (hc : ∀ d d', R d d' → C d → C d')
    {l l' : List Dt} (hb : Both R l l') (ha : AllC C l) : AllC C l' := by
  intro d' hd'
  obtain ⟨d, hd, r⟩ := hb.2 d' hd'
  exact hc d d' r (ha d hd)

theorem both_map {R : Dt → Dt → Prop} (f : Dt → Dt) (l : List Dt) (h : ∀ d ∈ l, R d (f d)) :
    Both R l (l.map f) := by
  constructor
  · intro d hd
    exact ⟨f d, List.mem_map.mpr ⟨d, hd, rfl⟩, h d hd⟩
  · intro d' hd
    obtain ⟨d, hd2, rfl⟩ := List.mem_map.mp hd
    exact ⟨d, hd2, h d hd2⟩

theorem live_not_removed {id : Nat} {d : Dt} (h : live id d = true) : d.removed = false := by
  simp [live] at h; exact h.2

theorem live_id {id : Nat} {d : Dt} (h : live id d = true) : d.id = id := by
  simp [live] at h; exact h.1

theorem both_updateDt {R : Dt → Dt → Prop} (hr : ∀ d, R d d) (f : Dt → Dt) (l : List Dt) (id : Nat)
    (h : ∀ d ∈ l, d.removed = false → R d (f d)) :
    Both R l (updateDt l id f) := by
  unfold updateDt
  apply both_map
  intro d hd
  by_cases hl : live id d = true
  · simp only [hl, if_true]; exact h d hd (live_not_removed hl)
  · simp only [hl]; exact hr d

theorem both_foldl {R : Dt → Dt → Prop} {C : Dt → Prop} (hr : ∀ d, R d d)
    (ht : ∀ a b c, R a b → R b c → R a c) (hc : ∀ d d', R d d' → C d → C d')
    {α : Type} (g : List Dt → α → List Dt) (hg : ∀ acc x, AllC C acc → Both R acc (g acc x))
    (xs : List α) (l : List Dt) (ha : AllC C l) :
    Both R l (xs.foldl g l) := by
  induction xs generalizing l with
  | nil => exact both_refl hr l
  | cons x xs ih =>
    have h1 := hg l x ha
    exact both_trans ht h1 (ih (g l x) (allc_of_both hc h1 ha))

section
variable {now : Int} {tOK : Int → Prop} {C : Dt → Prop} {R : Dt → Dt → Prop}

theorem both_trigG (tr : TrigRel now tOK C R) (t : Int) (ht : tOK t) (l : List Dt) (id : Nat)
    (ha : AllC C l) : Both R l (updateDt l id (trigSelfG now t)) := by
  apply both_updateDt tr.refl
  intro d hd hr
  unfold trigSelfG
  by_cases hc : canBeTriggered now d = true
  · simp only [hc, if_true]; exact tr.trig t d ht (ha d hd) hc hr
  · simp only [hc]; exact tr.refl d

theorem both_triggerDt (tr : TrigRel now tOK C R) (fuel : Nat) (t : Int) (ht : tOK t) :
    ∀ (id : Nat) (l : List Dt), AllC C l → Both R l (triggerDt fuel now t id l) := by
  induction fuel with
  | zero => intro id l _; simp only [triggerDt]; exact both_refl tr.refl l
  | succ n ih =>
    intro id l ha
    simp only [triggerDt]
    split
    · exact both_refl tr.refl l
    · split
      · exact both_refl tr.refl l
      · rename_i d _ _
        have h1 := both_trigG tr t ht l id ha
        have h2 : Both R (updateDt l id (trigSelfG now t))
            (d.triggers.foldl (fun acc c => triggerDt n now t c acc) (updateDt l id (trigSelfG now t))) :=
          both_foldl tr.refl tr.trans tr.ctx _ (fun acc c hacc => ih c acc hacc) _ _
            (allc_of_both tr.ctx h1 ha)
        exact both_trans tr.trans h1 h2

theorem both_cascade (tr : TrigRel now tOK C R) (fuel : Nat) (t : Int) (ht : tOK t) (cs : List Nat)
    (l : List Dt) (ha : AllC C l) :
    Both R l (cs.foldl (fun acc c => triggerDt fuel now t c acc) l) :=
  both_foldl tr.refl tr.trans tr.ctx _ (fun acc c hacc => both_triggerDt tr fuel t ht c acc hacc) _ _ ha

theorem both_triggerAll (tr : TrigRel now tOK C R) (t : Int) (ht : tOK t) (l : List Dt) (ha : AllC C l) :
    Both R l (triggerAll now t l) := by
  unfold triggerAll
  exact both_foldl tr.refl tr.trans tr.ctx _ (fun acc i hacc => both_triggerDt tr _ t ht i acc hacc) _ _ ha

theorem both_startG (sr : AddRel now tOK C R) (l : List Dt) (id : Nat) (ha : AllC C l) :
    Both R l (updateDt l id (startSelfG now)) := by
  apply both_updateDt sr.refl
  intro d hd hr
  unfold startSelfG
  by_cases hc : (d.fixed && canBeTriggered now d) = true
  · simp only [hc, if_true]
    simp at hc
    exact sr.start d (ha d hd) hc.1 hc.2 hr
  · simp only [hc]; exact sr.refl d

theorem mem_of_findDt {l : List Dt} {id : Nat} {d : Dt} (h : findDt l id = some d) :
    d ∈ l ∧ live id d = true := by
  unfold findDt at h
  exact ⟨List.mem_of_find?_eq_some h, List.find?_some h⟩

theorem both_startAt (sr : AddRel now tOK C R) (fuel : Nat) (l : List Dt) (id : Nat) (ha : AllC C l) :
    Both R l (startAt now fuel l id) := by
  unfold startAt
  split
  · exact both_refl sr.refl l
  · rename_i d hf
    split
    · rename_i hg
      simp at hg
      obtain ⟨hm, hl⟩ := mem_of_findDt hf
      have ht := sr.startT d (ha d hm) hg.1 hg.2 (live_not_removed hl)
      have h1 := both_startG sr l id ha
      exact both_trans sr.trans h1
        (both_cascade sr.toTrigRel fuel _ ht _ _ (allc_of_both sr.ctx h1 ha))
    · exact both_refl sr.refl l

theorem both_startTimer (sr : AddRel now tOK C R) (l : List Dt) (ha : AllC C l) :
    Both R l (startTimer now l) := by
  unfold startTimer
  exact both_foldl sr.refl sr.trans sr.ctx _ (fun acc i hacc => both_startAt sr _ acc i hacc) _ _ ha

theorem both_fireCleanup (sr : StepRel now tOK C R) (l : List Dt) (ha : AllC C l) :
    Both R l (l.map (fireCleanup now)) := by
  apply both_map
  intro d hd
  unfold fireCleanup
  by_cases hc : cleanupDue now d = true
  · have hr : d.removed = false := by
      simp [cleanupDue] at hc; exact hc.1
    simp only [hc, if_true]
    split
    · exact sr.remove d (ha d hd) hr
    · rename_i hexp
      exact sr.disarm d (ha d hd) hr hc (by simpa using hexp)
  · simp only [hc]; exact sr.refl d

theorem both_pump (sr : StepRel now tOK C R) (st : St) (f : Bool) (ha : AllC C st.dts) :
    Both R st.dts (pumpOp st now f).dts := by
  unfold pumpOp
  simp only
  have h1 := both_fireCleanup sr st.dts ha
  have a1 := allc_of_both sr.ctx h1 ha
  split
  · have h2 := both_startTimer sr.toAddRel _ a1
    have a2 := allc_of_both sr.ctx h2 a1
    exact both_trans sr.trans h1 (both_trans sr.trans h2 (both_fireCleanup sr _ a2))
  · exact h1

theorem both_result (sr : TrigRel now tOK C R) (st : St) (s : Nat) (te : Int) (ht : tOK te)
    (ha : AllC C st.dts) :
    Both R st.dts (resultOp st s te now).1.dts := by
  unfold resultOp
  split
  · exact both_refl sr.refl _
  · simp only
    split
    · exact both_triggerAll sr te ht _ ha
    · exact both_refl sr.refl _

theorem both_remove (sr : StepRel now tOK C R) (st : St) (id : Nat) (u : Bool) (ha : AllC C st.dts) :
    Both R st.dts (removeOp st id u now).1.dts := by
  unfold removeOp
  split
  · exact both_refl sr.refl _
  · split
    · exact both_refl sr.refl _
    · exact both_updateDt sr.refl _ _ _ (fun d hd hr => sr.remove d (ha d hd) hr)

end

/-- In a list without the id, extended by a fresh downtime, the name denotes the fresh one. -/
theorem findDt_append_new (st : St) (p : AddP) (now : Int)
    (h : st.dts.any (fun d => d.id == p.id) = false) :
    findDt (st.dts ++ [newDt st p now]) p.id = some (newDt st p now) := by
  unfold findDt
  rw [List.find?_append]
  have : st.dts.find? (live p.id) = none := by
    apply List.find?_eq_none.mpr
    intro x hx hl
    have hid := live_id hl
    have := List.any_eq_false.mp h x hx
    simp [hid] at this
  simp [this, live, newDt]

section
variable {now : Int} {tOK : Int → Prop} {C : Dt → Prop} {R : Dt → Dt → Prop}

/-- What the operation must supply for `tOK`/`C`. -/
def OpT (st : St) (tOK : Int → Prop) (C : Dt → Prop) : Op → Prop
  | .add p now => C (newDt st p now) ∧
      (canBeTriggered now (newDt st p now) = true → tOK (max (max p.start now) st.lastStateChange))
  | .result _ te _ => tOK te
  | _ => True

/-- The part of `addOp` after the new downtime has been appended. -/
theorem both_add_tail (sr : AddRel now tOK C R) (st : St) (p : AddP)
    (h : st.dts.any (fun d => d.id == p.id) = false) (ha : AllC C st.dts)
    (hop : OpT st tOK C (.add p now)) :
    Both R (st.dts ++ [newDt st p now]) (addOp st p now).1.dts := by
  have ha0 : AllC C (st.dts ++ [newDt st p now]) := by
    intro d hd
    rcases List.mem_append.mp hd with hm | hm
    · exact ha d hm
    · simp at hm; subst hm; exact hop.1
  unfold addOp
  simp only [h]
  have h1 : Both R (st.dts ++ [newDt st p now]) (startFlexible st now (newDt st p now) (st.dts ++ [newDt st p now])) := by
    unfold startFlexible
    split
    · by_cases hc : canBeTriggered now (newDt st p now) = true
      · exact both_triggerDt sr.toTrigRel _ _ (hop.2 hc) _ _ ha0
      · have hf := findDt_append_new st p now h
        have : triggerDt ((st.dts ++ [newDt st p now]).length + 1) now
            (max (max (newDt st p now).start (newDt st p now).entry) st.lastStateChange) (newDt st p now).id
            (st.dts ++ [newDt st p now]) = st.dts ++ [newDt st p now] := by
          have hid : (newDt st p now).id = p.id := rfl
          simp only [triggerDt, hid, hf]
          simp [hc]
        rw [this]
        exact both_refl sr.refl _
    · exact both_refl sr.refl _
  have a1 := allc_of_both sr.ctx h1 ha0
  have h2 := both_startAt sr (startFlexible st now (newDt st p now) (st.dts ++ [newDt st p now])).length _ p.id a1
  have a2 := allc_of_both sr.ctx h2 a1
  have h3 : ∀ l, AllC C l → Both R l (updateDt l p.id setupCleanup) :=
    fun l hl => both_updateDt sr.refl _ _ _ (fun d hd hr => sr.setup d (hl d hd) hr)
  have h3' := h3 _ a2
  have a3 := allc_of_both sr.ctx h3' a2
  refine both_trans sr.trans h1 (both_trans sr.trans h2 (both_trans sr.trans h3' ?_))
  simp only [Bool.false_eq_true, if_false]
  split
  · exact both_updateDt sr.refl _ _ _ (fun d hd hr => sr.addTrig _ d (a3 d hd) hr)
  · exact both_refl sr.refl _

/-- Every downtime that exists before an operation has an `R`-successor after it. -/
theorem both_setq (st : St) (b : Bool) (hq : ∀ d, C d → R d (setQuiet b d)) (ha : AllC C st.dts) :
    Both R st.dts (setPausedOp st b).dts := by
  unfold setPausedOp
  exact both_map _ _ (fun d hd => hq d (ha d hd))

/-- What `setPaused` needs of a relation. -/
def QOK (op : Op) (C : Dt → Prop) (R : Dt → Dt → Prop) : Prop :=
  ∀ b now, op = .setPaused b now → ∀ d, C d → R d (setQuiet b d)

theorem step_succ (st : St) (op : Op) (sr : StepRel op.now tOK C R) (ha : AllC C st.dts)
    (hop : OpT st tOK C op) (hq : QOK op C R) :
    ∀ d ∈ st.dts, ∃ d' ∈ (step st op).1.dts, R d d' := by
  cases op with
  | add p now =>
    intro d hd
    simp only [step]
    by_cases h : st.dts.any (fun d => d.id == p.id) = true
    · refine ⟨d, ?_, sr.refl d⟩
      simp [addOp, h]; exact hd
    · have h' : st.dts.any (fun d => d.id == p.id) = false := by simpa using h
      exact (both_add_tail sr.toAddRel st p h' ha hop).1 d (List.mem_append_left _ hd)
  | result s te now => exact (both_result sr.toAddRel.toTrigRel st s te hop ha).1
  | pump now f => exact (both_pump sr st f ha).1
  | remove id u now => exact (both_remove sr st id u ha).1
  | setPaused b now => exact (both_setq st b (hq b now rfl) ha).1

/-- Every downtime that exists after an operation is the `R`-successor of one that existed before, or of
    the freshly created one. -/
theorem step_pred (st : St) (op : Op) (sr : StepRel op.now tOK C R) (ha : AllC C st.dts)
    (hop : OpT st tOK C op) (hq : QOK op C R) :
    ∀ d' ∈ (step st op).1.dts, (∃ d ∈ st.dts, R d d') ∨
      (∃ p, op = .add p op.now ∧ R (newDt st p op.now) d') := by
  cases op with
  | add p now =>
    intro d' hd'
    simp only [step] at hd'
    by_cases h : st.dts.any (fun d => d.id == p.id) = true
    · left
      refine ⟨d', ?_, sr.refl d'⟩
      simpa [addOp, h] using hd'
    · have h' : st.dts.any (fun d => d.id == p.id) = false := by simpa using h
      obtain ⟨d, hd, r⟩ := (both_add_tail sr.toAddRel st p h' ha hop).2 d' hd'
      rcases List.mem_append.mp hd with hm | hm
      · exact Or.inl ⟨d, hm, r⟩
      · right
        refine ⟨p, rfl, ?_⟩
        simp at hm; subst hm; exact r
  | result s te now => intro d' hd'; exact Or.inl ((both_result sr.toAddRel.toTrigRel st s te hop ha).2 d' hd')
  | pump now f => intro d' hd'; exact Or.inl ((both_pump sr st f ha).2 d' hd')
  | remove id u now => intro d' hd'; exact Or.inl ((both_remove sr st id u ha).2 d' hd')
  | setPaused b now => intro d' hd'; exact Or.inl ((both_setq st b (hq b now rfl) ha).2 d' hd')

end

/-- Changing the pause mirror changes nothing else (and nothing at all on a removed downtime). -/
theorem setQuiet_eq (b : Bool) (d : Dt) :
    (setQuiet b d).id = d.id ∧ (setQuiet b d).removed = d.removed ∧ (setQuiet b d).trigger = d.trigger ∧
    (setQuiet b d).fixed = d.fixed ∧ (setQuiet b d).start = d.start ∧ (setQuiet b d).fin = d.fin ∧
    (setQuiet b d).duration = d.duration ∧ (setQuiet b d).entry = d.entry ∧ (setQuiet b d).triggers = d.triggers ∧
    (setQuiet b d).owner = d.owner ∧ (setQuiet b d).trigBy = d.trigBy ∧ (setQuiet b d).starts = d.starts ∧
    (setQuiet b d).ends = d.ends ∧ (setQuiet b d).trigEv = d.trigEv ∧ (setQuiet b d).remEv = d.remEv ∧
    (setQuiet b d).cleanup = d.cleanup ∧ (d.removed = true → setQuiet b d = d) := by
  unfold setQuiet
  split
  · exact ⟨rfl, rfl, rfl, rfl, rfl, rfl, rfl, rfl, rfl, rfl, rfl, rfl, rfl, rfl, rfl, rfl, fun _ => rfl⟩
  · rename_i h
    exact ⟨rfl, rfl, rfl, rfl, rfl, rfl, rfl, rfl, rfl, rfl, rfl, rfl, rfl, rfl, rfl, rfl, fun h' => absurd h' h⟩

/-- For relations that need neither a restriction of the trigger times nor a context. -/
theorem opT_trivial (st : St) (op : Op) : OpT st (fun _ => True) (fun _ => True) op := by
  cases op <;> simp [OpT]

theorem allc_trivial (l : List Dt) : AllC (fun _ => True) l := fun _ _ => trivial

end Icinga.C05

/-
  C05 — lemmas for the whole-trace theorem: the list of downtime ids is only ever extended by a fresh id,
  the model's step relates old and new downtimes position by position, the observation functions of the
  specification (`obsTrig`, `evCount`) read the model state, and the specification's bookkeeping stays
  in sync with the model state.
-/
import IcingaProofs.C05.Rel

namespace Icinga.C05

/-! ### Ids -/

def idsOf (l : List Dt) : List Nat := l.map (·.id)

theorem ids_map (f : Dt → Dt) (l : List Dt) (h : ∀ d ∈ l, (f d).id = d.id) : idsOf (l.map f) = idsOf l := by
  unfold idsOf
  rw [List.map_map]
  apply List.map_congr_left
  intro d hd
  exact h d hd

theorem ids_updateDt (f : Dt → Dt) (l : List Dt) (id : Nat) (h : ∀ d, (f d).id = d.id) :
    idsOf (updateDt l id f) = idsOf l := by
  unfold updateDt
  apply ids_map
  intro d _
  split
  · exact h d
  · rfl

theorem ids_foldl {α : Type} (g : List Dt → α → List Dt) (hg : ∀ acc x, idsOf (g acc x) = idsOf acc)
    (xs : List α) (l : List Dt) : idsOf (xs.foldl g l) = idsOf l := by
  induction xs generalizing l with
  | nil => rfl
  | cons x xs ih => simp only [List.foldl_cons]; rw [ih, hg]

theorem trigSelfG_id (now t : Int) (d : Dt) : (trigSelfG now t d).id = d.id := by
  unfold trigSelfG; split <;> rfl

theorem startSelfG_id (now : Int) (d : Dt) : (startSelfG now d).id = d.id := by
  unfold startSelfG; split <;> rfl

theorem ids_triggerDt (fuel : Nat) (now t : Int) : ∀ (id : Nat) (l : List Dt),
    idsOf (triggerDt fuel now t id l) = idsOf l := by
  induction fuel with
  | zero => intro id l; rfl
  | succ n ih =>
    intro id l
    simp only [triggerDt]
    split
    · rfl
    · split
      · rfl
      · rw [ids_foldl _ (fun acc c => ih c acc), ids_updateDt _ _ _ (trigSelfG_id now t)]

theorem ids_triggerAll (now t : Int) (l : List Dt) : idsOf (triggerAll now t l) = idsOf l := by
  unfold triggerAll
  exact ids_foldl _ (fun acc i => ids_triggerDt _ now t i acc) _ _

theorem ids_startAt (now : Int) (fuel : Nat) (l : List Dt) (id : Nat) : idsOf (startAt now fuel l id) = idsOf l := by
  unfold startAt
  split
  · rfl
  · split
    · rw [ids_foldl _ (fun acc c => ids_triggerDt _ now _ c acc), ids_updateDt _ _ _ (startSelfG_id now)]
    · rfl

theorem ids_startTimer (now : Int) (l : List Dt) : idsOf (startTimer now l) = idsOf l := by
  unfold startTimer
  exact ids_foldl _ (fun acc i => ids_startAt now _ acc i) _ _

theorem fireCleanup_id (now : Int) (d : Dt) : (fireCleanup now d).id = d.id := by
  unfold fireCleanup
  split
  · split <;> rfl
  · rfl

theorem ids_pump (st : St) (now : Int) : idsOf (pumpOp st now).dts = idsOf st.dts := by
  unfold pumpOp
  simp only
  split
  · simp only
    rw [ids_map _ _ (fun d _ => fireCleanup_id now d), ids_startTimer, ids_map _ _ (fun d _ => fireCleanup_id now d)]
  · simp only
    rw [ids_map _ _ (fun d _ => fireCleanup_id now d)]

theorem ids_result (st : St) (s : Nat) (te now : Int) : idsOf (resultOp st s te now).1.dts = idsOf st.dts := by
  unfold resultOp
  split
  · rfl
  · simp only
    split
    · exact ids_triggerAll now te _
    · rfl

theorem ids_remove (st : St) (id : Nat) (u : Bool) (now : Int) : idsOf (removeOp st id u now).1.dts = idsOf st.dts := by
  unfold removeOp
  split
  · rfl
  · split
    · rfl
    · exact ids_updateDt _ _ _ (fun d => rfl)

theorem addTrigger_id (c : Nat) (d : Dt) : (addTrigger c d).id = d.id := by
  unfold addTrigger; split <;> rfl

theorem ids_add (st : St) (p : AddP) (now : Int) :
    idsOf (addOp st p now).1.dts =
      if st.dts.any (fun d => d.id == p.id) then idsOf st.dts else idsOf st.dts ++ [p.id] := by
  unfold addOp
  split
  · rfl
  · simp only
    have h4 : ∀ l, idsOf (if (p.trigBy != 0 && (findDt st.dts p.trigBy).isSome) = true
        then updateDt l p.trigBy (addTrigger p.id) else l) = idsOf l := by
      intro l; split
      · exact ids_updateDt _ _ _ (addTrigger_id p.id)
      · rfl
    rw [h4, ids_updateDt setupCleanup _ _ (fun d => rfl), ids_startAt]
    unfold startFlexible
    split
    · rw [ids_triggerDt]; simp [idsOf, newDt]
    · simp [idsOf, newDt]


theorem ids_step (st : St) (op : Op) :
    idsOf (step st op).1.dts = idsOf st.dts ∨
    (∃ p now, op = .add p now ∧ st.dts.any (fun d => d.id == p.id) = false ∧
      idsOf (step st op).1.dts = idsOf st.dts ++ [p.id]) := by
  cases op with
  | add p now =>
    simp only [step]
    rw [ids_add]
    by_cases h : st.dts.any (fun d => d.id == p.id) = true
    · left; simp [h]
    · right
      have h' : st.dts.any (fun d => d.id == p.id) = false := by simpa using h
      exact ⟨p, now, rfl, h', by simp [h']⟩
  | result s te now => left; exact ids_result st s te now
  | pump now => left; exact ids_pump st now
  | remove id u now => left; exact ids_remove st id u now

theorem not_mem_ids_of_any {l : List Dt} {i : Nat} (h : l.any (fun d => d.id == i) = false) : i ∉ idsOf l := by
  intro hm
  obtain ⟨d, hd, hid⟩ := List.mem_map.mp hm
  have := List.any_eq_false.mp h d hd
  simp [hid] at this

theorem nodup_step (st : St) (op : Op) (h : (idsOf st.dts).Nodup) : (idsOf (step st op).1.dts).Nodup := by
  rcases ids_step st op with h1 | ⟨p, now, _, hany, h1⟩
  · rw [h1]; exact h
  · rw [h1]
    refine List.nodup_append.mpr ⟨h, by simp, ?_⟩
    intro a ha b hb
    simp at hb; subst hb
    intro hab; subst hab
    exact not_mem_ids_of_any hany ha

/-- With unique ids, two downtimes of the list with the same id are the same. -/
theorem eq_of_id {l : List Dt} (h : (idsOf l).Nodup) {x y : Dt} (hx : x ∈ l) (hy : y ∈ l) (hid : x.id = y.id) :
    x = y := by
  induction l with
  | nil => cases hx
  | cons a l ih =>
    simp only [idsOf, List.map_cons, List.nodup_cons] at h
    rcases List.mem_cons.mp hx with rfl | hx' <;> rcases List.mem_cons.mp hy with rfl | hy'
    · rfl
    · exact absurd (List.mem_map.mpr ⟨y, hy', hid.symm⟩) h.1
    · exact absurd (List.mem_map.mpr ⟨x, hx', hid⟩) h.1
    · exact ih h.2 hx' hy'

/-! ### Position-wise step relation -/

/-- Static fields are kept, ghost counters only grow, a removed downtime is never touched again. -/
def RM (d d' : Dt) : Prop :=
  d'.id = d.id ∧ d'.fixed = d.fixed ∧ d'.start = d.start ∧ d'.fin = d.fin ∧ d'.duration = d.duration ∧
  d'.owner = d.owner ∧ d'.trigBy = d.trigBy ∧ d.starts ≤ d'.starts ∧ d.ends ≤ d'.ends ∧
  d.trigEv ≤ d'.trigEv ∧ d.remEv ≤ d'.remEv ∧ (d.removed = true → d' = d)

theorem rm_live {d d' : Dt} (hr : d.removed = false) (h1 : d'.id = d.id) (h2 : d'.fixed = d.fixed)
    (h3 : d'.start = d.start) (h4 : d'.fin = d.fin) (h5 : d'.duration = d.duration) (h6 : d'.owner = d.owner)
    (h7 : d'.trigBy = d.trigBy) (h8 : d.starts ≤ d'.starts) (h9 : d.ends ≤ d'.ends)
    (h10 : d.trigEv ≤ d'.trigEv) (h11 : d.remEv ≤ d'.remEv) : RM d d' :=
  ⟨h1, h2, h3, h4, h5, h6, h7, h8, h9, h10, h11, fun h => by rw [hr] at h; cases h⟩

theorem stepRel_RM (now : Int) : StepRel now (fun _ => True) (fun _ => True) RM where
  refl := fun d => ⟨rfl, rfl, rfl, rfl, rfl, rfl, rfl, Nat.le_refl _, Nat.le_refl _, Nat.le_refl _, Nat.le_refl _, fun _ => rfl⟩
  trans := by
    intro a b c ⟨h1, h2, h3, h4, h5, h6, h7, h8, h9, h10, h11, h12⟩ ⟨g1, g2, g3, g4, g5, g6, g7, g8, g9, g10, g11, g12⟩
    refine ⟨by omega, by simp [*], by omega, by omega, by omega, by simp [*], by omega, by omega, by omega,
      by omega, by omega, ?_⟩
    intro ha
    have hb := h12 ha
    subst hb
    exact g12 ha
  ctx := fun _ _ _ _ => trivial
  trig := by
    intro t d _ _ _ hr
    apply rm_live hr <;> simp [trigSelf, noteTriggered, markTriggered]
    split <;> omega
  startT := fun _ _ _ _ _ => trivial
  start := by
    intro d _ hf _ hr
    apply rm_live hr <;> simp [startSelf, trigSelf, noteTriggered, markTriggered, noteStarted, hf]
  remove := by
    intro d _ hr
    apply rm_live hr <;> simp [removeDt]
    split <;> omega
  setup := by intro d _ hr; apply rm_live hr <;> simp [setupCleanup]
  addTrig := by
    intro c d _ hr
    unfold addTrigger
    split
    · apply rm_live hr <;> simp
    · apply rm_live hr <;> simp
  disarm := by intro d _ hr; apply rm_live hr <;> simp

/-- Two step relations (with trivial side conditions) hold together. -/
theorem stepRel_and {now : Int} {R1 R2 : Dt → Dt → Prop}
    (s1 : StepRel now (fun _ => True) (fun _ => True) R1) (s2 : StepRel now (fun _ => True) (fun _ => True) R2) :
    StepRel now (fun _ => True) (fun _ => True) (fun a b => R1 a b ∧ R2 a b) where
  refl := fun d => ⟨s1.refl d, s2.refl d⟩
  trans := fun a b c h g => ⟨s1.trans a b c h.1 g.1, s2.trans a b c h.2 g.2⟩
  ctx := fun _ _ _ _ => trivial
  trig := fun t d ht hc hcan hr => ⟨s1.trig t d ht hc hcan hr, s2.trig t d ht hc hcan hr⟩
  startT := fun _ _ _ _ _ => trivial
  start := fun d hc hf hcan hr => ⟨s1.start d hc hf hcan hr, s2.start d hc hf hcan hr⟩
  remove := fun d hc hr => ⟨s1.remove d hc hr, s2.remove d hc hr⟩
  setup := fun d hc hr => ⟨s1.setup d hc hr, s2.setup d hc hr⟩
  addTrig := fun c d hc hr => ⟨s1.addTrig c d hc hr, s2.addTrig c d hc hr⟩
  disarm := fun d hc hr => ⟨s1.disarm d hc hr, s2.disarm d hc hr⟩

/-- Position-wise relation between two lists. -/
inductive Pw {α β : Type} (R : α → β → Prop) : List α → List β → Prop
  | nil : Pw R [] []
  | cons {a : α} {b : β} {l : List α} {l' : List β} : R a b → Pw R l l' → Pw R (a :: l) (b :: l')

/-- With unique ids and an id-preserving relation, `Both` is position-wise. -/
theorem forall2_of_both {R : Dt → Dt → Prop} (hid : ∀ a b, R a b → b.id = a.id) :
    ∀ (l l' : List Dt), idsOf l' = idsOf l → (idsOf l).Nodup → Both R l l' → Pw R l l' := by
  intro l
  induction l with
  | nil =>
    intro l' hids _ _
    cases l' with
    | nil => exact Pw.nil
    | cons a l' => simp [idsOf] at hids
  | cons a l ih =>
    intro l' hids hnd hb
    cases l' with
    | nil => simp [idsOf] at hids
    | cons a' l' =>
      simp only [idsOf, List.map_cons, List.cons.injEq] at hids
      obtain ⟨hida, hidl⟩ := hids
      simp only [idsOf, List.map_cons, List.nodup_cons] at hnd
      obtain ⟨hna, hndl⟩ := hnd
      have hna' : a'.id ∉ idsOf l' := by
        rw [show idsOf l' = idsOf l from hidl, hida]; exact hna
      have hhead : R a a' := by
        obtain ⟨x, hx, r⟩ := hb.1 a List.mem_cons_self
        rcases List.mem_cons.mp hx with rfl | hx'
        · exact r
        · have : x.id ∈ idsOf l' := List.mem_map.mpr ⟨x, hx', rfl⟩
          rw [hid a x r, ← hida] at this
          exact absurd this hna'
      refine Pw.cons hhead (ih l' hidl hndl ⟨?_, ?_⟩)
      · intro d hd
        obtain ⟨x, hx, r⟩ := hb.1 d (List.mem_cons_of_mem _ hd)
        rcases List.mem_cons.mp hx with rfl | hx'
        · have : d.id ∈ idsOf l := List.mem_map.mpr ⟨d, hd, rfl⟩
          rw [← hid d x r, hida] at this
          exact absurd this hna
        · exact ⟨x, hx', r⟩
      · intro x hx
        obtain ⟨d, hd, r⟩ := hb.2 x (List.mem_cons_of_mem _ hx)
        rcases List.mem_cons.mp hd with rfl | hd'
        · have : x.id ∈ idsOf l' := List.mem_map.mpr ⟨x, hx, rfl⟩
          rw [hid d x r, ← hida] at this
          exact absurd this hna'
        · exact ⟨d, hd', r⟩

/-- The downtimes an operation works on: the existing ones plus the one an accepted `add` creates. -/
def preModel (st : St) : Op → List Dt
  | .add p now => if st.dts.any (fun d => d.id == p.id) then st.dts else st.dts ++ [newDt st p now]
  | _ => st.dts

theorem nodup_preModel (st : St) (op : Op) (h : (idsOf st.dts).Nodup) : (idsOf (preModel st op)).Nodup := by
  cases op with
  | add p now =>
    simp only [preModel]
    split
    · exact h
    · rename_i hany
      have hany' : st.dts.any (fun d => d.id == p.id) = false := by simpa using hany
      simp only [idsOf, List.map_append, List.map_cons, List.map_nil]
      refine List.nodup_append.mpr ⟨h, by simp, ?_⟩
      intro a ha b hb
      simp [newDt] at hb; subst hb
      intro hab; subst hab
      exact not_mem_ids_of_any hany' ha
  | result s te now => exact h
  | pump now => exact h
  | remove id u now => exact h

theorem ids_preModel (st : St) (op : Op) : idsOf (step st op).1.dts = idsOf (preModel st op) := by
  cases op with
  | add p now =>
    simp only [step, preModel]
    rw [ids_add]
    split
    · rfl
    · simp [idsOf, newDt]
  | result s te now => exact ids_result st s te now
  | pump now => exact ids_pump st now
  | remove id u now => exact ids_remove st id u now

/-- The step relates the downtimes it works on to the resulting ones position by position. -/
theorem pw_step {R : Dt → Dt → Prop} (st : St) (op : Op)
    (sr : StepRel op.now (fun _ => True) (fun _ => True) R) (hid : ∀ a b, R a b → b.id = a.id)
    (hnd : (idsOf st.dts).Nodup) : Pw R (preModel st op) (step st op).1.dts := by
  apply forall2_of_both hid _ _ (ids_preModel st op) (nodup_preModel st op hnd)
  cases op with
  | add p now =>
    simp only [step, preModel]
    split
    · rename_i hany
      simp only [addOp, hany, if_true]
      exact both_refl sr.refl _
    · rename_i hany
      have hany' : st.dts.any (fun d => d.id == p.id) = false := by simpa using hany
      exact both_add_tail sr st p hany' (allc_trivial _) (opT_trivial st (.add p now))
  | result s te now => exact both_result sr st s te trivial (allc_trivial _)
  | pump now => exact both_pump sr st (allc_trivial _)
  | remove id u now => exact both_remove sr st id u (allc_trivial _)

/-! ### What the specification's observation functions read -/

theorem obsTrig_obsOf (old new : St) (rc : Nat) (now : Int) (id : Nat) :
    obsTrig (obsOf old new rc now) id = (findDt new.dts id).map (·.trigger) := by
  simp only [obsTrig, obsOf, findDt]
  induction new.dts with
  | nil => rfl
  | cons d l ih =>
    by_cases hr : d.removed = true <;> by_cases hi : d.id = id <;>
      simp [live, hr, hi] <;> simpa [live] using ih

def cnt (ev : Nat) (d : Dt) : Nat :=
  if ev = 1 then d.starts else if ev = 2 then d.ends else if ev = 3 then d.trigEv else if ev = 4 then d.remEv else 0

/-- The old version `evsOf` compares with. -/
def predOf (old : List Dt) (d : Dt) : Dt :=
  match old.find? (fun x => x.id == d.id) with
  | some x => x
  | none => { d with starts := 0, ends := 0, trigEv := 0, remEv := 0 }

theorem sum_filter_nonzero (q : Nat × Nat × Nat → Bool) (L : List (Nat × Nat × Nat)) :
    (((L.filter (fun e => e.2.2 != 0)).filter q).map (·.2.2)).sum = ((L.filter q).map (·.2.2)).sum := by
  induction L with
  | nil => rfl
  | cons e L ih =>
    simp only [List.filter_cons]
    by_cases h0 : e.2.2 = 0
    · have hb : (e.2.2 != 0) = false := by simp [h0]
      simp only [hb, Bool.false_eq_true, ↓reduceIte]
      by_cases hq : q e = true
      · simp only [hq, ↓reduceIte, List.map_cons, List.sum_cons, h0, Nat.zero_add]; exact ih
      · simp only [hq, ↓reduceIte]; exact ih
    · have hb : (e.2.2 != 0) = true := by simp [h0]
      simp only [hb, ↓reduceIte, List.filter_cons]
      by_cases hq : q e = true
      · simp only [hq, ↓reduceIte, List.map_cons, List.sum_cons]; rw [ih]
      · simp only [hq, ↓reduceIte]; exact ih

theorem evOne (old : List Dt) (d : Dt) (ev id : Nat) (hev : ev = 1 ∨ ev = 2 ∨ ev = 3 ∨ ev = 4) :
    (((evsOf old d).filter (fun e => e.1 == ev && e.2.1 == id)).map (·.2.2)).sum =
      if d.id = id then cnt ev d - cnt ev (predOf old d) else 0 := by
  unfold evsOf
  simp only
  rw [sum_filter_nonzero]
  by_cases hid : d.id = id
  · subst hid
    rcases hev with rfl | rfl | rfl | rfl <;> simp [List.filter_cons, cnt, predOf] <;>
      (cases List.find? (fun x => x.id == d.id) old <;> rfl)
  · rcases hev with rfl | rfl | rfl | rfl <;> simp [List.filter_cons, hid, cnt, predOf]

theorem evCount_obsOf (old new : St) (rc : Nat) (now : Int) (ev id : Nat)
    (hev : ev = 1 ∨ ev = 2 ∨ ev = 3 ∨ ev = 4) :
    evCount (obsOf old new rc now) ev id =
      (new.dts.map (fun d => if d.id = id then cnt ev d - cnt ev (predOf old.dts d) else 0)).sum := by
  simp only [evCount, obsOf]
  induction new.dts with
  | nil => rfl
  | cons d l ih =>
    simp only [List.map_cons, List.flatten_cons, List.filter_append, List.map_append, List.sum_append, List.sum_cons]
    rw [ih, evOne old.dts d ev id hev]

theorem sum_ite_none (l : List Dt) (id : Nat) (f : Dt → Nat) (h : id ∉ idsOf l) :
    (l.map (fun d => if d.id = id then f d else 0)).sum = 0 := by
  induction l with
  | nil => rfl
  | cons a l ih =>
    simp only [idsOf, List.map_cons, List.mem_cons, not_or] at h
    have ha : ¬ a.id = id := fun e => h.1 e.symm
    simp only [List.map_cons, List.sum_cons, ha, if_false, Nat.zero_add]
    exact ih h.2

theorem sum_ite_unique (l : List Dt) (f : Dt → Nat) (h : (idsOf l).Nodup) (d : Dt) (hd : d ∈ l) :
    (l.map (fun x => if x.id = d.id then f x else 0)).sum = f d := by
  induction l with
  | nil => cases hd
  | cons a l ih =>
    simp only [idsOf, List.map_cons, List.nodup_cons] at h
    simp only [List.map_cons, List.sum_cons]
    rcases List.mem_cons.mp hd with rfl | hd'
    · simp only [if_true]
      rw [sum_ite_none l d.id f h.1]; omega
    · have ha : ¬ a.id = d.id := by
        intro e
        exact h.1 (List.mem_map.mpr ⟨d, hd', e.symm⟩)
      simp only [ha, if_false, Nat.zero_add]
      exact ih h.2 hd'

/-! ### The specification's bookkeeping follows the model -/

/-- What the reader knows about a downtime agrees with the model's downtime (the trigger time only as
    long as the downtime exists: it is no longer observed afterwards). -/
def V (sd : SDt) (d : Dt) : Prop :=
  sd.id = d.id ∧ sd.fixed = d.fixed ∧ sd.start = d.start ∧ sd.fin = d.fin ∧ sd.duration = d.duration ∧
  sd.trigBy = d.trigBy ∧ sd.owner = d.owner ∧ sd.alive = !d.removed ∧ (d.removed = false → sd.trig = d.trigger) ∧
  sd.starts = d.starts ∧ sd.ends = d.ends

def RelS (sp : SpecSt) (st : St) : Prop :=
  sp.kind = st.kind ∧ sp.checked = st.lastExec.isSome ∧ (sp.checked = true → sp.state = st.state) ∧
  (sp.checked = false → st.state = 3) ∧ sp.since = st.lastStateChange ∧ sp.startNext = st.startNext ∧
  Pw V sp.dts st.dts

theorem findDt_none_of_not_mem {l : List Dt} {i : Nat} (h : i ∉ idsOf l) : findDt l i = none := by
  unfold findDt
  apply List.find?_eq_none.mpr
  intro x hx hl
  exact h (List.mem_map.mpr ⟨x, hx, live_id hl⟩)

/-- With unique ids a name denotes the downtime of that id, if it still exists. -/
theorem findDt_unique {l : List Dt} (h : (idsOf l).Nodup) {d : Dt} (hd : d ∈ l) :
    findDt l d.id = if d.removed then none else some d := by
  cases hf : findDt l d.id with
  | none =>
    unfold findDt at hf
    have := List.find?_eq_none.mp hf d hd
    simp [live] at this
    simp [this]
  | some y =>
    obtain ⟨hy, hl⟩ := mem_of_findDt hf
    have : y = d := eq_of_id h hy hd (live_id hl)
    subst this
    simp [live_not_removed hl]

theorem parent_alive {sl : List SDt} {dl : List Dt} (hp : Pw V sl dl) (hnd : (idsOf dl).Nodup) (i : Nat) :
    (match sl.find? (fun d => d.id == i) with | some q => q.alive | none => false) = (findDt dl i).isSome := by
  induction hp with
  | nil => rfl
  | cons hv _ ih =>
    rename_i sd d sl' dl'
    simp only [idsOf, List.map_cons, List.nodup_cons] at hnd
    by_cases hi : d.id = i
    · have hsi : sd.id = i := by rw [hv.1]; exact hi
      simp only [List.find?_cons, hsi, beq_self_eq_true]
      rw [hv.2.2.2.2.2.2.2.1]
      cases hr : d.removed with
      | false => simp [findDt, List.find?_cons, live, hi, hr]
      | true =>
        have hn : findDt dl' i = none := findDt_none_of_not_mem (by rw [← hi]; exact hnd.1)
        unfold findDt at hn
        simp [findDt, List.find?_cons, live, hr, hn]
    · have hsi : ¬ sd.id = i := by rw [hv.1]; exact hi
      have h1 : (sd.id == i) = false := by simp [hsi]
      have h2 : live i d = false := by simp [live, hi]
      simp only [List.find?_cons, h1, findDt, h2]
      exact ih hnd.2

theorem mem_of_pw_left {α β : Type} {R : α → β → Prop} {l : List α} {l' : List β} (h : Pw R l l') {a : α}
    (ha : a ∈ l) : ∃ b ∈ l', R a b := by
  induction h with
  | nil => cases ha
  | cons hr _ ih =>
    rcases List.mem_cons.mp ha with rfl | ha'
    · exact ⟨_, List.mem_cons_self, hr⟩
    · obtain ⟨b, hb, r⟩ := ih ha'
      exact ⟨b, List.mem_cons_of_mem _ hb, r⟩

theorem pw_append {α β : Type} {R : α → β → Prop} {l1 : List α} {l1' : List β} (h : Pw R l1 l1')
    {a : α} {b : β} (hab : R a b) : Pw R (l1 ++ [a]) (l1' ++ [b]) := by
  induction h with
  | nil => exact Pw.cons hab Pw.nil
  | cons hr _ ih => exact Pw.cons hr ih

/-- Composition along two position-wise relations, with membership available. -/
theorem pw_chain {R : Dt → Dt → Prop} (f : SDt → SDt) :
    ∀ (pre : List SDt) (dl nl : List Dt), Pw V pre dl → Pw R dl nl →
      (∀ sd d d', sd ∈ pre → d ∈ dl → d' ∈ nl → V sd d → R d d' → V (f sd) d') → Pw V (pre.map f) nl := by
  intro pre
  induction pre with
  | nil => intro dl nl h1 h2 _; cases h1; cases h2; exact Pw.nil
  | cons sd pre ih =>
    intro dl nl h1 h2 hf
    cases h1 with
    | cons hv h1' =>
      cases h2 with
      | cons hr h2' =>
        refine Pw.cons (hf _ _ _ List.mem_cons_self List.mem_cons_self List.mem_cons_self hv hr) (ih _ _ h1' h2' ?_)
        intro sd d d' hs hd hd' v r
        exact hf sd d d' (List.mem_cons_of_mem _ hs) (List.mem_cons_of_mem _ hd) (List.mem_cons_of_mem _ hd') v r

/-- A check over the known downtimes follows from its instances along the two relations. -/
theorem all_chain {R : Dt → Dt → Prop} (P : SDt → Bool) :
    ∀ (pre : List SDt) (dl nl : List Dt), Pw V pre dl → Pw R dl nl →
      (∀ sd d d', sd ∈ pre → d ∈ dl → d' ∈ nl → V sd d → R d d' → P sd = true) → pre.all P = true := by
  intro pre
  induction pre with
  | nil => intro _ _ _ _ _; rfl
  | cons sd pre ih =>
    intro dl nl h1 h2 hf
    cases h1 with
    | cons hv h1' =>
      cases h2 with
      | cons hr h2' =>
        simp only [List.all_cons, Bool.and_eq_true]
        refine ⟨hf _ _ _ List.mem_cons_self List.mem_cons_self List.mem_cons_self hv hr, ih _ _ h1' h2' ?_⟩
        intro sd d d' hs hd hd' v r
        exact hf sd d d' (List.mem_cons_of_mem _ hs) (List.mem_cons_of_mem _ hd) (List.mem_cons_of_mem _ hd') v r

/-- Counter of the old version `evsOf` compares with = counter of the position-wise predecessor. -/
theorem predOf_cnt (st : St) (op : Op) (hnd : (idsOf st.dts).Nodup) (ev : Nat) {d d' : Dt}
    (hd : d ∈ preModel st op) (hid : d'.id = d.id) : cnt ev (predOf st.dts d') = cnt ev d := by
  have hin : d ∈ st.dts → cnt ev (predOf st.dts d') = cnt ev d := by
    intro hm
    unfold predOf
    cases hf : st.dts.find? (fun x => x.id == d'.id) with
    | none =>
      have := List.find?_eq_none.mp hf d hm
      simp [hid] at this
    | some y =>
      have hy := List.mem_of_find?_eq_some hf
      have hyid : y.id = d'.id := by have := List.find?_some hf; simpa using this
      have : y = d := eq_of_id hnd hy hm (by rw [hyid, hid])
      subst this; rfl
  cases op with
  | add p now =>
    simp only [preModel] at hd
    split at hd
    · exact hin hd
    · rename_i hany
      have hany' : st.dts.any (fun d => d.id == p.id) = false := by simpa using hany
      rcases List.mem_append.mp hd with hm | hm
      · exact hin hm
      · simp at hm; subst hm
        have hnone : st.dts.find? (fun x => x.id == d'.id) = none := by
          apply List.find?_eq_none.mpr
          intro x hx
          have := List.any_eq_false.mp hany' x hx
          simp only [hid, newDt]
          simpa using this
        unfold predOf
        rw [hnone]
        simp [cnt, newDt]
  | result s te now => exact hin hd
  | pump now => exact hin hd
  | remove id u now => exact hin hd

/-- The events the observation attributes to an id are the counter increments of that downtime. -/
theorem evCount_pair (st : St) (op : Op) (hnd : (idsOf st.dts).Nodup) (ev : Nat)
    (hev : ev = 1 ∨ ev = 2 ∨ ev = 3 ∨ ev = 4) {d d' : Dt}
    (hd : d ∈ preModel st op) (hd' : d' ∈ (step st op).1.dts) (hid : d'.id = d.id) :
    evCount (stepObs st op).2 ev d.id = cnt ev d' - cnt ev d := by
  simp only [stepObs]
  rw [evCount_obsOf _ _ _ _ _ _ hev, ← hid]
  rw [sum_ite_unique _ (fun x => cnt ev x - cnt ev (predOf st.dts x)) (nodup_step st op hnd) d' hd']
  rw [predOf_cnt st op hnd ev hd hid]

theorem obsTrig_pair (st : St) (op : Op) (hnd : (idsOf st.dts).Nodup) {d d' : Dt}
    (hd' : d' ∈ (step st op).1.dts) (hid : d'.id = d.id) :
    obsTrig (stepObs st op).2 d.id = if d'.removed then none else some d'.trigger := by
  simp only [stepObs]
  rw [obsTrig_obsOf, ← hid, findDt_unique (nodup_step st op hnd) hd']
  cases d'.removed <;> rfl

/-- The reader's view of a downtime after the operation agrees with the model's new downtime. -/
theorem after_V (st : St) (op : Op) (hnd : (idsOf st.dts).Nodup) {sd : SDt} {d d' : Dt}
    (hd : d ∈ preModel st op) (hd' : d' ∈ (step st op).1.dts) (v : V sd d) (r : RM d d') :
    V (SDt.after (stepObs st op).2 sd) d' := by
  obtain ⟨v1, v2, v3, v4, v5, v6, v7, v8, v9, v10, v11⟩ := v
  obtain ⟨r1, r2, r3, r4, r5, r6, r7, r8, r9, _, _, r12⟩ := r
  have hs := evCount_pair st op hnd 1 (Or.inl rfl) hd hd' r1
  have he := evCount_pair st op hnd 2 (Or.inr (Or.inl rfl)) hd hd' r1
  have ht := obsTrig_pair st op hnd hd' r1
  simp only [cnt] at hs he
  simp only [SDt.after, v1, hs, he, ht]
  refine ⟨r1.symm, by simp [*], by omega, by omega, by omega, by omega, by simp [*], ?_, ?_, ?_, ?_⟩
  · cases hr' : d'.removed with
    | true => simp
    | false =>
      have : d.removed = false := by
        cases hr : d.removed with
        | false => rfl
        | true => rw [r12 hr] at hr'; rw [hr] at hr'; cases hr'
      simp [v8, this]
  · intro hr'
    have : d.removed = false := by
      cases hr : d.removed with
      | false => rfl
      | true => rw [r12 hr] at hr'; rw [hr] at hr'; cases hr'
    simp [hr', v8, this]
  · simp only [v10]; omega
  · simp only [v11]; omega

end Icinga.C05

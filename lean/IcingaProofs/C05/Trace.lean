/-
  C05 — lemmas for the whole-trace theorem: the list of downtime ids is only ever extended by a fresh id,
  the model's step relates old and new downtimes position by position, the observation functions of the
  specification (`obsTrig`, `evCount`) read the model state, and the specification's bookkeeping stays
  in sync with the model state.
-/
import IcingaProofs.C05.Rel

namespace Icinga.C05

/-! ### Well-formed operation sequences and the invariant behind `start_once` -/

/-- Well-formed operation sequence after time `T`: the clock does not run backwards and every check
    result carries an execution end in `(0, now]`. -/
def opOK : Op → Prop
  | .result _ te now => 0 < te ∧ te ≤ now
  | .add p _ => 0 ≤ p.duration
  | _ => True

instance : DecidablePred opOK := fun op => by cases op <;> unfold opOK <;> infer_instance

def WF : Int → List Op → Prop
  | _, [] => True
  | T, op :: ops => T ≤ op.now ∧ opOK op ∧ WF op.now ops

instance : ∀ T ops, Decidable (WF T ops)
  | _, [] => by unfold WF; infer_instance
  | T, op :: ops => by unfold WF; exact @instDecidableAnd _ _ _ (@instDecidableAnd _ _ _ (instDecidableWF op.now ops))

/-- State invariant behind `start_once` at the time bound `T`. -/
def SInv (T : Int) (st : St) : Prop :=
  0 < st.lastStateChange ∧ st.lastStateChange ≤ T ∧ AllC (IStart T) st.dts

theorem sinv_step (T : Int) (st : St) (op : Op) (hi : SInv T st) (hT : T ≤ op.now)
    (hop : opOK op) :
    SInv op.now (step st op).1 := by
  obtain ⟨hl0, hl1, hall⟩ := hi
  have hall' : AllC (IStart op.now) st.dts := fun d hd => iStart_mono hT (hall d hd)
  have hopT : OpT st (fun t => 0 < t ∧ t ≤ op.now) (IStart op.now) op := by
    cases op with
    | add p now =>
      simp only [Op.now] at hT
      refine ⟨?_, ?_⟩
      · simp only [IStart, newDt, Op.now]; omega
      · intro hc
        have hw := canBeTriggered_window hc
        simp only [newDt, Op.now] at hw ⊢
        omega
    | result s te now => exact hop
    | pump now f => trivial
    | remove id u now => trivial
    | setPaused b now => trivial
  have hdts : AllC (IStart op.now) (step st op).1.dts := by
    intro d' hd'
    rcases step_pred st op (stepRel_RStart op.now) hall' hopT (fun b _ _ d _ => rstart_setq op.now b d) d' hd'
      with ⟨d, hd, r⟩ | ⟨p, hp, r⟩
    · exact r (hall' d hd)
    · apply r
      simp only [IStart, newDt]; omega
  cases op with
  | add p now =>
    refine ⟨?_, ?_, hdts⟩ <;> (simp only [step, addOp]; split <;> simp only [Op.now] at hT ⊢ <;> omega)
  | result s te now =>
    have hop' : 0 < te ∧ te ≤ now := hop
    refine ⟨?_, ?_, hdts⟩ <;>
      (simp only [step, resultOp]; split <;> simp only [Op.now] at hT ⊢ <;> (try split) <;> omega)
  | pump now f =>
    refine ⟨?_, ?_, hdts⟩ <;> (simp only [step, pumpOp]; split <;> simp only [Op.now] at hT ⊢ <;> omega)
  | remove id u now =>
    refine ⟨?_, ?_, hdts⟩ <;>
      (simp only [step, removeOp]; split <;> (try split) <;> simp only [Op.now] at hT ⊢ <;> omega)
  | setPaused b now =>
    refine ⟨?_, ?_, hdts⟩ <;> (simp only [step, setPausedOp, Op.now] at hT ⊢; omega)

theorem sinv_run (ops : List Op) : ∀ (T : Int) (st : St), SInv T st → WF T ops →
    ∃ T', SInv T' (run st ops) := by
  induction ops with
  | nil => intro T st hi _; exact ⟨T, hi⟩
  | cons op ops ih =>
    intro T st hi hw
    obtain ⟨h1, h2, h3⟩ := hw
    have := ih op.now (step st op).1 (sinv_step T st op hi h1 h2) h3
    simpa [run] using this

theorem can_of_fresh_flexible {now : Int} {d : Dt} (hf : d.fixed = false) (h0 : d.trigger = 0)
    (h1 : d.start ≤ now) (h2 : now ≤ d.fin) : canBeTriggered now d = true := by
  have h3 : ¬ now < d.start := by omega
  have h4 : ¬ now > d.fin := by omega
  simp [canBeTriggered, isExpired, isInEffect, isTriggered, hf, h0, h3, h4]

/-! ### Ids -/

def idsOf (l : List Dt) : List Nat := l.map (·.id)

theorem ids_map (f : Dt → Dt) (l : List Dt) (h : ∀ d ∈ l, (f d).id = d.id) : idsOf (l.map f) = idsOf l := by
  unfold idsOf
  rw [List.map_map]
  apply List.map_congr_left
  intro d hd
  exact h d hd

theorem ids_updateDt (f : Dt → Dt) (l : List Dt) (id : Nat) (h : ∀ d, (f d).id = d.id) :
    idsOf (updateDt l id f) = idsOf l := by
  unfold updateDt
  apply ids_map
  intro d _
  split
  · exact h d
  · rfl

theorem ids_foldl {α : Type} (g : List Dt → α → List Dt) (hg : ∀ acc x, idsOf (g acc x) = idsOf acc)
    (xs : List α) (l : List Dt) : idsOf (xs.foldl g l) = idsOf l := by
  induction xs generalizing l with
  | nil => rfl
  | cons x xs ih => simp only [List.foldl_cons]; rw [ih, hg]

theorem trigSelfG_id (now t : Int) (d : Dt) : (trigSelfG now t d).id = d.id := by
  unfold trigSelfG; split <;> rfl

theorem startSelfG_id (now : Int) (d : Dt) : (startSelfG now d).id = d.id := by
  unfold startSelfG; split <;> rfl

theorem ids_triggerDt (fuel : Nat) (now t : Int) : ∀ (id : Nat) (l : List Dt),
    idsOf (triggerDt fuel now t id l) = idsOf l := by
  induction fuel with
  | zero => intro id l; rfl
  | succ n ih =>
    intro id l
    simp only [triggerDt]
    split
    · rfl
    · split
      · rfl
      · rw [ids_foldl _ (fun acc c => ih c acc), ids_updateDt _ _ _ (trigSelfG_id now t)]

theorem ids_triggerAll (now t : Int) (l : List Dt) : idsOf (triggerAll now t l) = idsOf l := by
  unfold triggerAll
  exact ids_foldl _ (fun acc i => ids_triggerDt _ now t i acc) _ _

theorem ids_startAt (now : Int) (fuel : Nat) (l : List Dt) (id : Nat) : idsOf (startAt now fuel l id) = idsOf l := by
  unfold startAt
  split
  · rfl
  · split
    · rw [ids_foldl _ (fun acc c => ids_triggerDt _ now _ c acc), ids_updateDt _ _ _ (startSelfG_id now)]
    · rfl

theorem ids_startTimer (now : Int) (l : List Dt) : idsOf (startTimer now l) = idsOf l := by
  unfold startTimer
  exact ids_foldl _ (fun acc i => ids_startAt now _ acc i) _ _

theorem fireCleanup_id (now : Int) (d : Dt) : (fireCleanup now d).id = d.id := by
  unfold fireCleanup
  split
  · split <;> rfl
  · rfl

theorem ids_pump (st : St) (now : Int) (f : Bool) : idsOf (pumpOp st now f).dts = idsOf st.dts := by
  unfold pumpOp
  simp only
  split
  · simp only
    rw [ids_map _ _ (fun d _ => fireCleanup_id now d), ids_startTimer, ids_map _ _ (fun d _ => fireCleanup_id now d)]
  · simp only
    rw [ids_map _ _ (fun d _ => fireCleanup_id now d)]

theorem ids_result (st : St) (s : Nat) (te now : Int) : idsOf (resultOp st s te now).1.dts = idsOf st.dts := by
  unfold resultOp
  split
  · rfl
  · simp only
    split
    · exact ids_triggerAll now te _
    · rfl

theorem ids_remove (st : St) (id : Nat) (u : Bool) (now : Int) : idsOf (removeOp st id u now).1.dts = idsOf st.dts := by
  unfold removeOp
  split
  · rfl
  · split
    · rfl
    · exact ids_updateDt _ _ _ (fun d => rfl)

theorem addTrigger_id (c : Nat) (d : Dt) : (addTrigger c d).id = d.id := by
  unfold addTrigger; split <;> rfl

theorem ids_add (st : St) (p : AddP) (now : Int) :
    idsOf (addOp st p now).1.dts =
      if st.dts.any (fun d => d.id == p.id) then idsOf st.dts else idsOf st.dts ++ [p.id] := by
  unfold addOp
  split
  · rfl
  · simp only
    have h4 : ∀ l, idsOf (if (p.trigBy != 0 && (findDt st.dts p.trigBy).isSome) = true
        then updateDt l p.trigBy (addTrigger p.id) else l) = idsOf l := by
      intro l; split
      · exact ids_updateDt _ _ _ (addTrigger_id p.id)
      · rfl
    rw [h4, ids_updateDt setupCleanup _ _ (fun d => rfl), ids_startAt]
    unfold startFlexible
    split
    · rw [ids_triggerDt]; simp [idsOf, newDt]
    · simp [idsOf, newDt]


theorem ids_setq (st : St) (b : Bool) : idsOf (setPausedOp st b).dts = idsOf st.dts := by
  unfold setPausedOp
  exact ids_map _ _ (fun d _ => (setQuiet_eq b d).1)

theorem ids_step (st : St) (op : Op) :
    idsOf (step st op).1.dts = idsOf st.dts ∨
    (∃ p now, op = .add p now ∧ st.dts.any (fun d => d.id == p.id) = false ∧
      idsOf (step st op).1.dts = idsOf st.dts ++ [p.id]) := by
  cases op with
  | add p now =>
    simp only [step]
    rw [ids_add]
    by_cases h : st.dts.any (fun d => d.id == p.id) = true
    · left; simp [h]
    · right
      have h' : st.dts.any (fun d => d.id == p.id) = false := by simpa using h
      exact ⟨p, now, rfl, h', by simp [h']⟩
  | result s te now => left; exact ids_result st s te now
  | pump now f => left; exact ids_pump st now f
  | remove id u now => left; exact ids_remove st id u now
  | setPaused b now => left; exact ids_setq st b

theorem not_mem_ids_of_any {l : List Dt} {i : Nat} (h : l.any (fun d => d.id == i) = false) : i ∉ idsOf l := by
  intro hm
  obtain ⟨d, hd, hid⟩ := List.mem_map.mp hm
  have := List.any_eq_false.mp h d hd
  simp [hid] at this

theorem nodup_step (st : St) (op : Op) (h : (idsOf st.dts).Nodup) : (idsOf (step st op).1.dts).Nodup := by
  rcases ids_step st op with h1 | ⟨p, now, _, hany, h1⟩
  · rw [h1]; exact h
  · rw [h1]
    refine List.nodup_append.mpr ⟨h, by simp, ?_⟩
    intro a ha b hb
    simp at hb; subst hb
    intro hab; subst hab
    exact not_mem_ids_of_any hany ha

/-- With unique ids, two downtimes of the list with the same id are the same. -/
theorem eq_of_id {l : List Dt} (h : (idsOf l).Nodup) {x y : Dt} (hx : x ∈ l) (hy : y ∈ l) (hid : x.id = y.id) :
    x = y := by
  induction l with
  | nil => cases hx
  | cons a l ih =>
    simp only [idsOf, List.map_cons, List.nodup_cons] at h
    rcases List.mem_cons.mp hx with rfl | hx' <;> rcases List.mem_cons.mp hy with rfl | hy'
    · rfl
    · exact absurd (List.mem_map.mpr ⟨y, hy', hid.symm⟩) h.1
    · exact absurd (List.mem_map.mpr ⟨x, hx', hid⟩) h.1
    · exact ih h.2 hx' hy'

/-! ### Position-wise step relation -/

/-- Static fields are kept, ghost counters only grow, a removed downtime is never touched again. -/
def RM (d d' : Dt) : Prop :=
  d'.id = d.id ∧ d'.fixed = d.fixed ∧ d'.start = d.start ∧ d'.fin = d.fin ∧ d'.duration = d.duration ∧
  d'.owner = d.owner ∧ d'.trigBy = d.trigBy ∧ d.starts ≤ d'.starts ∧ d.ends ≤ d'.ends ∧
  d.trigEv ≤ d'.trigEv ∧ d.remEv ≤ d'.remEv ∧ (d.removed = true → d' = d)

theorem rm_live {d d' : Dt} (hr : d.removed = false) (h1 : d'.id = d.id) (h2 : d'.fixed = d.fixed)
    (h3 : d'.start = d.start) (h4 : d'.fin = d.fin) (h5 : d'.duration = d.duration) (h6 : d'.owner = d.owner)
    (h7 : d'.trigBy = d.trigBy) (h8 : d.starts ≤ d'.starts) (h9 : d.ends ≤ d'.ends)
    (h10 : d.trigEv ≤ d'.trigEv) (h11 : d.remEv ≤ d'.remEv) : RM d d' :=
  ⟨h1, h2, h3, h4, h5, h6, h7, h8, h9, h10, h11, fun h => by rw [hr] at h; cases h⟩

theorem stepRel_RM (now : Int) : StepRel now (fun _ => True) (fun _ => True) RM where
  refl := fun d => ⟨rfl, rfl, rfl, rfl, rfl, rfl, rfl, Nat.le_refl _, Nat.le_refl _, Nat.le_refl _, Nat.le_refl _, fun _ => rfl⟩
  trans := by
    intro a b c ⟨h1, h2, h3, h4, h5, h6, h7, h8, h9, h10, h11, h12⟩ ⟨g1, g2, g3, g4, g5, g6, g7, g8, g9, g10, g11, g12⟩
    refine ⟨by omega, by simp [*], by omega, by omega, by omega, by simp [*], by omega, by omega, by omega,
      by omega, by omega, ?_⟩
    intro ha
    have hb := h12 ha
    subst hb
    exact g12 ha
  ctx := fun _ _ _ _ => trivial
  trig := by
    intro t d _ _ _ hr
    apply rm_live hr <;> simp [trigSelf, noteTriggered, markTriggered]
    split <;> omega
  startT := fun _ _ _ _ _ => trivial
  start := by
    intro d _ hf _ hr
    apply rm_live hr <;> simp [startSelf, trigSelf, noteTriggered, markTriggered, noteStarted, hf]
    split <;> omega
  remove := by
    intro d _ hr
    apply rm_live hr <;> simp [removeDt]
    split <;> omega
  setup := by intro d _ hr; apply rm_live hr <;> simp [setupCleanup]
  addTrig := by
    intro c d _ hr
    unfold addTrigger
    split
    · apply rm_live hr <;> simp
    · apply rm_live hr <;> simp
  disarm := by intro d _ hr _ _; apply rm_live hr <;> simp

theorem rm_setq (b : Bool) (d : Dt) : RM d (setQuiet b d) := by
  have h := setQuiet_eq b d
  exact ⟨h.1, h.2.2.2.1, h.2.2.2.2.1, h.2.2.2.2.2.1, h.2.2.2.2.2.2.1, h.2.2.2.2.2.2.2.2.2.1,
    h.2.2.2.2.2.2.2.2.2.2.1, by rw [h.2.2.2.2.2.2.2.2.2.2.2.1]; exact Nat.le_refl _,
    by rw [h.2.2.2.2.2.2.2.2.2.2.2.2.1]; exact Nat.le_refl _,
    by rw [h.2.2.2.2.2.2.2.2.2.2.2.2.2.1]; exact Nat.le_refl _,
    by rw [h.2.2.2.2.2.2.2.2.2.2.2.2.2.2.1]; exact Nat.le_refl _, h.2.2.2.2.2.2.2.2.2.2.2.2.2.2.2.2⟩

/-- Two step relations (with trivial side conditions) hold together. -/
theorem stepRel_and {now : Int} {R1 R2 : Dt → Dt → Prop}
    (s1 : StepRel now (fun _ => True) (fun _ => True) R1) (s2 : StepRel now (fun _ => True) (fun _ => True) R2) :
    StepRel now (fun _ => True) (fun _ => True) (fun a b => R1 a b ∧ R2 a b) where
  refl := fun d => ⟨s1.refl d, s2.refl d⟩
  trans := fun a b c h g => ⟨s1.trans a b c h.1 g.1, s2.trans a b c h.2 g.2⟩
  ctx := fun _ _ _ _ => trivial
  trig := fun t d ht hc hcan hr => ⟨s1.trig t d ht hc hcan hr, s2.trig t d ht hc hcan hr⟩
  startT := fun _ _ _ _ _ => trivial
  start := fun d hc hf hcan hr => ⟨s1.start d hc hf hcan hr, s2.start d hc hf hcan hr⟩
  remove := fun d hc hr => ⟨s1.remove d hc hr, s2.remove d hc hr⟩
  setup := fun d hc hr => ⟨s1.setup d hc hr, s2.setup d hc hr⟩
  addTrig := fun c d hc hr => ⟨s1.addTrig c d hc hr, s2.addTrig c d hc hr⟩
  disarm := fun d hc hr h1 h2 => ⟨s1.disarm d hc hr h1 h2, s2.disarm d hc hr h1 h2⟩

/-- Position-wise relation between two lists. -/
inductive Pw {α β : Type} (R : α → β → Prop) : List α → List β → Prop
  | nil : Pw R [] []
  | cons {a : α} {b : β} {l : List α} {l' : List β} : R a b → Pw R l l' → Pw R (a :: l) (b :: l')

/-- With unique ids and an id-preserving relation, `Both` is position-wise. -/
theorem forall2_of_both {R : Dt → Dt → Prop} (hid : ∀ a b, R a b → b.id = a.id) :
    ∀ (l l' : List Dt), idsOf l' = idsOf l → (idsOf l).Nodup → Both R l l' → Pw R l l' := by
  intro l
  induction l with
  | nil =>
    intro l' hids _ _
    cases l' with
    | nil => exact Pw.nil
    | cons a l' => simp [idsOf] at hids
  | cons a l ih =>
    intro l' hids hnd hb
    cases l' with
    | nil => simp [idsOf] at hids
    | cons a' l' =>
      simp only [idsOf, List.map_cons, List.cons.injEq] at hids
      obtain ⟨hida, hidl⟩ := hids
      simp only [idsOf, List.map_cons, List.nodup_cons] at hnd
      obtain ⟨hna, hndl⟩ := hnd
      have hna' : a'.id ∉ idsOf l' := by
        rw [show idsOf l' = idsOf l from hidl, hida]; exact hna
      have hhead : R a a' := by
        obtain ⟨x, hx, r⟩ := hb.1 a List.mem_cons_self
        rcases List.mem_cons.mp hx with rfl | hx'
        · exact r
        · have : x.id ∈ idsOf l' := List.mem_map.mpr ⟨x, hx', rfl⟩
          rw [hid a x r, ← hida] at this
          exact absurd this hna'
      refine Pw.cons hhead (ih l' hidl hndl ⟨?_, ?_⟩)
      · intro d hd
        obtain ⟨x, hx, r⟩ := hb.1 d (List.mem_cons_of_mem _ hd)
        rcases List.mem_cons.mp hx with rfl | hx'
        · have : d.id ∈ idsOf l := List.mem_map.mpr ⟨d, hd, rfl⟩
          rw [← hid d x r, hida] at this
          exact absurd this hna
        · exact ⟨x, hx', r⟩
      · intro x hx
        obtain ⟨d, hd, r⟩ := hb.2 x (List.mem_cons_of_mem _ hx)
        rcases List.mem_cons.mp hd with rfl | hd'
        · have : x.id ∈ idsOf l' := List.mem_map.mpr ⟨x, hx, rfl⟩
          rw [hid d x r, ← hida] at this
          exact absurd this hna'
        · exact ⟨d, hd', r⟩

/-- The downtimes an operation works on: the existing ones plus the one an accepted `add` creates. -/
def preModel (st : St) : Op → List Dt
  | .add p now => if st.dts.any (fun d => d.id == p.id) then st.dts else st.dts ++ [newDt st p now]
  | _ => st.dts

theorem nodup_preModel (st : St) (op : Op) (h : (idsOf st.dts).Nodup) : (idsOf (preModel st op)).Nodup := by
  cases op with
  | add p now =>
    simp only [preModel]
    split
    · exact h
    · rename_i hany
      have hany' : st.dts.any (fun d => d.id == p.id) = false := by simpa using hany
      simp only [idsOf, List.map_append, List.map_cons, List.map_nil]
      refine List.nodup_append.mpr ⟨h, by simp, ?_⟩
      intro a ha b hb
      simp [newDt] at hb; subst hb
      intro hab; subst hab
      exact not_mem_ids_of_any hany' ha
  | result s te now => exact h
  | pump now f => exact h
  | remove id u now => exact h
  | setPaused b now => exact h

theorem ids_preModel (st : St) (op : Op) : idsOf (step st op).1.dts = idsOf (preModel st op) := by
  cases op with
  | add p now =>
    simp only [step, preModel]
    rw [ids_add]
    split
    · rfl
    · simp [idsOf, newDt]
  | result s te now => exact ids_result st s te now
  | pump now f => exact ids_pump st now f
  | remove id u now => exact ids_remove st id u now
  | setPaused b now => exact ids_setq st b

/-- The step relates the downtimes it works on to the resulting ones position by position. -/
theorem pw_step {R : Dt → Dt → Prop} (st : St) (op : Op)
    (sr : StepRel op.now (fun _ => True) (fun _ => True) R) (hid : ∀ a b, R a b → b.id = a.id)
    (hnd : (idsOf st.dts).Nodup) (hq : ∀ b d, R d (setQuiet b d)) :
    Pw R (preModel st op) (step st op).1.dts := by
  apply forall2_of_both hid _ _ (ids_preModel st op) (nodup_preModel st op hnd)
  cases op with
  | add p now =>
    simp only [step, preModel]
    split
    · rename_i hany
      simp only [addOp, hany, if_true]
      exact both_refl sr.refl _
    · rename_i hany
      have hany' : st.dts.any (fun d => d.id == p.id) = false := by simpa using hany
      exact both_add_tail sr.toAddRel st p hany' (allc_trivial _) (opT_trivial st (.add p now))
  | result s te now => exact both_result sr.toAddRel.toTrigRel st s te trivial (allc_trivial _)
  | pump now f => exact both_pump sr st f (allc_trivial _)
  | remove id u now => exact both_remove sr st id u (allc_trivial _)
  | setPaused b now => exact both_setq st b (fun d _ => hq b d) (allc_trivial _)

theorem pw_stepRM (st : St) (op : Op) (hnd : (idsOf st.dts).Nodup) :
    Pw RM (preModel st op) (step st op).1.dts :=
  pw_step st op (stepRel_RM op.now) (fun a b r => r.1) hnd rm_setq

/-! ### What the specification's observation functions read -/

theorem obsTrig_obsOf (old new : St) (rc : Nat) (now : Int) (id : Nat) :
    obsTrig (obsOf old new rc now) id = (findDt new.dts id).map (·.trigger) := by
  simp only [obsTrig, obsOf, findDt]
  induction new.dts with
  | nil => rfl
  | cons d l ih =>
    by_cases hr : d.removed = true <;> by_cases hi : d.id = id <;>
      simp [live, hr, hi] <;> simpa [live] using ih

def cnt (ev : Nat) (d : Dt) : Nat :=
  if ev = 1 then d.starts else if ev = 2 then d.ends else if ev = 3 then d.trigEv else if ev = 4 then d.remEv else 0

/-- The old version `evsOf` compares with. -/
def predOf (old : List Dt) (d : Dt) : Dt :=
  match old.find? (fun x => x.id == d.id) with
  | some x => x
  | none => { d with starts := 0, ends := 0, trigEv := 0, remEv := 0 }

theorem sum_filter_nonzero (q : Nat × Nat × Nat → Bool) (L : List (Nat × Nat × Nat)) :
    (((L.filter (fun e => e.2.2 != 0)).filter q).map (·.2.2)).sum = ((L.filter q).map (·.2.2)).sum := by
  induction L with
  | nil => rfl
  | cons e L ih =>
    simp only [List.filter_cons]
    by_cases h0 : e.2.2 = 0
    · have hb : (e.2.2 != 0) = false := by simp [h0]
      simp only [hb, Bool.false_eq_true, ↓reduceIte]
      by_cases hq : q e = true
      · simp only [hq, ↓reduceIte, List.map_cons, List.sum_cons, h0, Nat.zero_add]; exact ih
      · simp only [hq, ↓reduceIte]; exact ih
    · have hb : (e.2.2 != 0) = true := by simp [h0]
      simp only [hb, ↓reduceIte, List.filter_cons]
      by_cases hq : q e = true
      · simp only [hq, ↓reduceIte, List.map_cons, List.sum_cons]; rw [ih]
      · simp only [hq, ↓reduceIte]; exact ih

theorem evOne (old : List Dt) (d : Dt) (ev id : Nat) (hev : ev = 1 ∨ ev = 2 ∨ ev = 3 ∨ ev = 4) :
    (((evsOf old d).filter (fun e => e.1 == ev && e.2.1 == id)).map (·.2.2)).sum =
      if d.id = id then cnt ev d - cnt ev (predOf old d) else 0 := by
  unfold evsOf
  simp only
  rw [sum_filter_nonzero]
  by_cases hid : d.id = id
  · subst hid
    rcases hev with rfl | rfl | rfl | rfl <;> simp [List.filter_cons, cnt, predOf] <;>
      (cases List.find? (fun x => x.id == d.id) old <;> rfl)
  · rcases hev with rfl | rfl | rfl | rfl <;> simp [List.filter_cons, hid, cnt, predOf]

theorem evCount_obsOf (old new : St) (rc : Nat) (now : Int) (ev id : Nat)
    (hev : ev = 1 ∨ ev = 2 ∨ ev = 3 ∨ ev = 4) :
    evCount (obsOf old new rc now) ev id =
      (new.dts.map (fun d => if d.id = id then cnt ev d - cnt ev (predOf old.dts d) else 0)).sum := by
  simp only [evCount, obsOf]
  induction new.dts with
  | nil => rfl
  | cons d l ih =>
    simp only [List.map_cons, List.flatten_cons, List.filter_append, List.map_append, List.sum_append, List.sum_cons]
    rw [ih, evOne old.dts d ev id hev]

theorem sum_ite_none (l : List Dt) (id : Nat) (f : Dt → Nat) (h : id ∉ idsOf l) :
    (l.map (fun d => if d.id = id then f d else 0)).sum = 0 := by
  induction l with
  | nil => rfl
  | cons a l ih =>
    simp only [idsOf, List.map_cons, List.mem_cons, not_or] at h
    have ha : ¬ a.id = id := fun e => h.1 e.symm
    simp only [List.map_cons, List.sum_cons, ha, if_false, Nat.zero_add]
    exact ih h.2

theorem sum_ite_unique (l : List Dt) (f : Dt → Nat) (h : (idsOf l).Nodup) (d : Dt) (hd : d ∈ l) :
    (l.map (fun x => if x.id = d.id then f x else 0)).sum = f d := by
  induction l with
  | nil => cases hd
  | cons a l ih =>
    simp only [idsOf, List.map_cons, List.nodup_cons] at h
    simp only [List.map_cons, List.sum_cons]
    rcases List.mem_cons.mp hd with rfl | hd'
    · simp only [if_true]
      rw [sum_ite_none l d.id f h.1]; omega
    · have ha : ¬ a.id = d.id := by
        intro e
        exact h.1 (List.mem_map.mpr ⟨d, hd', e.symm⟩)
      simp only [ha, if_false, Nat.zero_add]
      exact ih h.2 hd'

/-! ### The specification's bookkeeping follows the model -/

/-- What the reader knows about a downtime agrees with the model's downtime (the trigger time only as
    long as the downtime exists: it is no longer observed afterwards). -/
def V (sd : SDt) (d : Dt) : Prop :=
  sd.id = d.id ∧ sd.fixed = d.fixed ∧ sd.start = d.start ∧ sd.fin = d.fin ∧ sd.duration = d.duration ∧
  sd.trigBy = d.trigBy ∧ sd.owner = d.owner ∧ sd.alive = !d.removed ∧ (d.removed = false → sd.trig = d.trigger) ∧
  sd.starts = d.starts ∧ sd.ends = d.ends

def RelS (sp : SpecSt) (st : St) : Prop :=
  sp.kind = st.kind ∧ sp.checked = st.lastExec.isSome ∧ (sp.checked = true → sp.state = st.state) ∧
  (sp.checked = false → st.state = 3) ∧ sp.since = st.lastStateChange ∧
  sp.paused = st.paused ∧ Pw V sp.dts st.dts

theorem findDt_none_of_not_mem {l : List Dt} {i : Nat} (h : i ∉ idsOf l) : findDt l i = none := by
  unfold findDt
  apply List.find?_eq_none.mpr
  intro x hx hl
  exact h (List.mem_map.mpr ⟨x, hx, live_id hl⟩)

/-- With unique ids a name denotes the downtime of that id, if it still exists. -/
theorem findDt_unique {l : List Dt} (h : (idsOf l).Nodup) {d : Dt} (hd : d ∈ l) :
    findDt l d.id = if d.removed then none else some d := by
  cases hf : findDt l d.id with
  | none =>
    unfold findDt at hf
    have := List.find?_eq_none.mp hf d hd
    simp [live] at this
    simp [this]
  | some y =>
    obtain ⟨hy, hl⟩ := mem_of_findDt hf
    have : y = d := eq_of_id h hy hd (live_id hl)
    subst this
    simp [live_not_removed hl]

theorem parent_alive {sl : List SDt} {dl : List Dt} (hp : Pw V sl dl) (hnd : (idsOf dl).Nodup) (i : Nat) :
    parentAliveS sl i = (findDt dl i).isSome := by
  unfold parentAliveS
  induction hp with
  | nil => rfl
  | @cons sd d sl' dl' hv _ ih =>
    simp only [idsOf, List.map_cons, List.nodup_cons] at hnd
    by_cases hi : d.id = i
    · have hsi : sd.id = i := by rw [hv.1]; exact hi
      simp only [List.find?_cons, hsi, beq_self_eq_true]
      rw [hv.2.2.2.2.2.2.2.1]
      cases hr : d.removed with
      | false => simp [findDt, List.find?_cons, live, hi, hr]
      | true =>
        have hn : findDt dl' i = none := findDt_none_of_not_mem (by rw [← hi]; exact hnd.1)
        unfold findDt at hn
        simp [findDt, List.find?_cons, live, hr, hn]
    · have hsi : ¬ sd.id = i := by rw [hv.1]; exact hi
      have h1 : (sd.id == i) = false := by simp [hsi]
      have h2 : live i d = false := by simp [live, hi]
      simp only [List.find?_cons, h1, findDt, h2]
      exact ih hnd.2

theorem mem_of_pw_left {α β : Type} {R : α → β → Prop} {l : List α} {l' : List β} (h : Pw R l l') {a : α}
    (ha : a ∈ l) : ∃ b ∈ l', R a b := by
  induction h with
  | nil => cases ha
  | cons hr _ ih =>
    rcases List.mem_cons.mp ha with rfl | ha'
    · exact ⟨_, List.mem_cons_self, hr⟩
    · obtain ⟨b, hb, r⟩ := ih ha'
      exact ⟨b, List.mem_cons_of_mem _ hb, r⟩

theorem pw_append {α β : Type} {R : α → β → Prop} {l1 : List α} {l1' : List β} (h : Pw R l1 l1')
    {a : α} {b : β} (hab : R a b) : Pw R (l1 ++ [a]) (l1' ++ [b]) := by
  induction h with
  | nil => exact Pw.cons hab Pw.nil
  | cons hr _ ih => exact Pw.cons hr ih

/-- Composition along two position-wise relations, with membership available. -/
theorem pw_chain {R : Dt → Dt → Prop} (f : SDt → SDt) :
    ∀ (pre : List SDt) (dl nl : List Dt), Pw V pre dl → Pw R dl nl →
      (∀ sd d d', sd ∈ pre → d ∈ dl → d' ∈ nl → V sd d → R d d' → V (f sd) d') → Pw V (pre.map f) nl := by
  intro pre
  induction pre with
  | nil => intro dl nl h1 h2 _; cases h1; cases h2; exact Pw.nil
  | cons sd pre ih =>
    intro dl nl h1 h2 hf
    cases h1 with
    | cons hv h1' =>
      cases h2 with
      | cons hr h2' =>
        refine Pw.cons (hf _ _ _ List.mem_cons_self List.mem_cons_self List.mem_cons_self hv hr) (ih _ _ h1' h2' ?_)
        intro sd d d' hs hd hd' v r
        exact hf sd d d' (List.mem_cons_of_mem _ hs) (List.mem_cons_of_mem _ hd) (List.mem_cons_of_mem _ hd') v r

/-- A check over the known downtimes follows from its instances along the two relations. -/
theorem all_chain {R : Dt → Dt → Prop} (P : SDt → Bool) :
    ∀ (pre : List SDt) (dl nl : List Dt), Pw V pre dl → Pw R dl nl →
      (∀ sd d d', sd ∈ pre → d ∈ dl → d' ∈ nl → V sd d → R d d' → P sd = true) → pre.all P = true := by
  intro pre
  induction pre with
  | nil => intro _ _ _ _ _; rfl
  | cons sd pre ih =>
    intro dl nl h1 h2 hf
    cases h1 with
    | cons hv h1' =>
      cases h2 with
      | cons hr h2' =>
        simp only [List.all_cons, Bool.and_eq_true]
        refine ⟨hf _ _ _ List.mem_cons_self List.mem_cons_self List.mem_cons_self hv hr, ih _ _ h1' h2' ?_⟩
        intro sd d d' hs hd hd' v r
        exact hf sd d d' (List.mem_cons_of_mem _ hs) (List.mem_cons_of_mem _ hd) (List.mem_cons_of_mem _ hd') v r

/-- Counter of the old version `evsOf` compares with = counter of the position-wise predecessor. -/
theorem predOf_cnt (st : St) (op : Op) (hnd : (idsOf st.dts).Nodup) (ev : Nat) {d d' : Dt}
    (hd : d ∈ preModel st op) (hid : d'.id = d.id) : cnt ev (predOf st.dts d') = cnt ev d := by
  have hin : d ∈ st.dts → cnt ev (predOf st.dts d') = cnt ev d := by
    intro hm
    unfold predOf
    cases hf : st.dts.find? (fun x => x.id == d'.id) with
    | none =>
      have := List.find?_eq_none.mp hf d hm
      simp [hid] at this
    | some y =>
      have hy := List.mem_of_find?_eq_some hf
      have hyid : y.id = d'.id := by have := List.find?_some hf; simpa using this
      have : y = d := eq_of_id hnd hy hm (by rw [hyid, hid])
      subst this; rfl
  cases op with
  | add p now =>
    simp only [preModel] at hd
    split at hd
    · exact hin hd
    · rename_i hany
      have hany' : st.dts.any (fun d => d.id == p.id) = false := by simpa using hany
      rcases List.mem_append.mp hd with hm | hm
      · exact hin hm
      · simp at hm; subst hm
        have hnone : st.dts.find? (fun x => x.id == d'.id) = none := by
          apply List.find?_eq_none.mpr
          intro x hx
          have := List.any_eq_false.mp hany' x hx
          simp only [hid, newDt]
          simpa using this
        unfold predOf
        rw [hnone]
        simp [cnt, newDt]
  | result s te now => exact hin hd
  | pump now f => exact hin hd
  | remove id u now => exact hin hd
  | setPaused b now => exact hin hd

/-- The events the observation attributes to an id are the counter increments of that downtime. -/
theorem evCount_pair (st : St) (op : Op) (hnd : (idsOf st.dts).Nodup) (ev : Nat)
    (hev : ev = 1 ∨ ev = 2 ∨ ev = 3 ∨ ev = 4) {d d' : Dt}
    (hd : d ∈ preModel st op) (hd' : d' ∈ (step st op).1.dts) (hid : d'.id = d.id) :
    evCount (stepObs st op).2 ev d.id = cnt ev d' - cnt ev d := by
  simp only [stepObs]
  rw [evCount_obsOf _ _ _ _ _ _ hev, ← hid]
  rw [sum_ite_unique _ (fun x => cnt ev x - cnt ev (predOf st.dts x)) (nodup_step st op hnd) d' hd']
  rw [predOf_cnt st op hnd ev hd hid]

theorem obsTrig_pair (st : St) (op : Op) (hnd : (idsOf st.dts).Nodup) {d d' : Dt}
    (hd' : d' ∈ (step st op).1.dts) (hid : d'.id = d.id) :
    obsTrig (stepObs st op).2 d.id = if d'.removed then none else some d'.trigger := by
  simp only [stepObs]
  rw [obsTrig_obsOf, ← hid, findDt_unique (nodup_step st op hnd) hd']
  cases d'.removed <;> rfl

/-- The reader's view of a downtime after the operation agrees with the model's new downtime. -/
theorem after_V (st : St) (op : Op) (hnd : (idsOf st.dts).Nodup) {sd : SDt} {d d' : Dt}
    (hd : d ∈ preModel st op) (hd' : d' ∈ (step st op).1.dts) (v : V sd d) (r : RM d d') (q : Bool) :
    V (SDt.after q (stepObs st op).2 sd) d' := by
  obtain ⟨v1, v2, v3, v4, v5, v6, v7, v8, v9, v10, v11⟩ := v
  obtain ⟨r1, r2, r3, r4, r5, r6, r7, r8, r9, _, _, r12⟩ := r
  have hs : evCount (stepObs st op).2 1 d.id = d'.starts - d.starts :=
    evCount_pair st op hnd 1 (Or.inl rfl) hd hd' r1
  have he : evCount (stepObs st op).2 2 d.id = d'.ends - d.ends :=
    evCount_pair st op hnd 2 (Or.inr (Or.inl rfl)) hd hd' r1
  have ht := obsTrig_pair st op hnd hd' r1
  simp only [SDt.after, v1, hs, he, ht]
  refine ⟨r1.symm, by simp [*], by (show sd.start = d'.start; omega), by (show sd.fin = d'.fin; omega),
    by (show sd.duration = d'.duration; omega), by (show sd.trigBy = d'.trigBy; omega), by simp [*], ?_, ?_, ?_, ?_⟩
  · cases hr' : d'.removed with
    | true => simp
    | false =>
      have : d.removed = false := by
        cases hr : d.removed with
        | false => rfl
        | true => rw [r12 hr] at hr'; rw [hr] at hr'; cases hr'
      simp [v8, this]
  · intro hr'
    have : d.removed = false := by
      cases hr : d.removed with
      | false => rfl
      | true => rw [r12 hr] at hr'; rw [hr] at hr'; cases hr'
    simp [hr', v8, this]
  · simp only [v10]; omega
  · simp only [v11]; omega

theorem stepObs_fst (st : St) (op : Op) : (stepObs st op).1 = (step st op).1 := rfl
theorem stepObs_rc (st : St) (op : Op) : (stepObs st op).2.rc = (step st op).2 := rfl

/-- The downtimes the reader knows before the operation (plus the one just created) agree with the
    ones the model works on. -/
theorem pw_pre (sp : SpecSt) (st : St) (op : Op) (hp : Pw V sp.dts st.dts) (hnd : (idsOf st.dts).Nodup) :
    Pw V (preDts sp op (stepObs st op).2) (preModel st op) := by
  cases op with
  | add p now =>
    simp only [preDts, preModel, stepObs_rc, step, addOp]
    by_cases hany : st.dts.any (fun d => d.id == p.id) = true
    · simp [hany]; exact hp
    · have hany' : st.dts.any (fun d => d.id == p.id) = false := by simpa using hany
      simp only [hany', Bool.false_eq_true, if_false, beq_self_eq_true, if_true]
      apply pw_append hp
      have hpa := parent_alive hp hnd p.trigBy
      refine ⟨rfl, rfl, rfl, rfl, rfl, ?_, rfl, rfl, fun _ => rfl, rfl, rfl⟩
      simp only [newSDt, newDt]
      rw [hpa]
  | result s te now => exact hp
  | pump now f => exact hp
  | remove id u now => exact hp
  | setPaused b now => exact hp

/-- **Sync.**  After an operation of the model, the specification's bookkeeping computed from the model's
    observation agrees with the new model state. -/
theorem relS_step (sp : SpecSt) (st : St) (op : Op) (hrel : RelS sp st) (hnd : (idsOf st.dts).Nodup) :
    RelS (specNext sp op (stepObs st op).2) (stepObs st op).1 := by
  obtain ⟨h1, h2, h3, h4, h5, h6p, h7⟩ := hrel
  have hdts : Pw V ((preDts sp op (stepObs st op).2).map (SDt.after sp.paused (stepObs st op).2)) (step st op).1.dts := by
    apply pw_chain _ _ _ _ (pw_pre sp st op h7 hnd)
      (pw_stepRM st op hnd)
    intro sd d d' _ hd hd' v r
    exact after_V st op hnd hd hd' v r sp.paused
  rw [stepObs_fst]
  cases op with
  | add p now =>
    refine ⟨?_, ?_, ?_, ?_, ?_, ?_, hdts⟩ <;> simp only [specNext, step, addOp] <;> split <;> assumption
  | result s te now =>
    by_cases hs : stale st te now = true
    · have hrc : (stepObs st (.result s te now)).2.rc = 0 := by simp [stepObs_rc, step, resultOp, hs]
      have hst : (step st (.result s te now)).1 = st := by simp [step, resultOp, hs]
      rw [hst] at hdts ⊢
      simp only [specNext, hrc]
      exact ⟨h1, h2, h3, h4, h5, h6p, hdts⟩
    · have hs' : stale st te now = false := by simpa using hs
      have hrc : (stepObs st (.result s te now)).2.rc = 1 := by simp [stepObs_rc, step, resultOp, hs']
      simp only [specNext, hrc, beq_self_eq_true, if_true]
      refine ⟨?_, ?_, ?_, ?_, ?_, ?_, hdts⟩
      · simpa [step, resultOp, hs'] using h1
      · simp [step, resultOp, hs']
      · intro _; simp [step, resultOp, hs']
      · intro h; simp at h
      · simp only [step, resultOp, hs', Bool.false_eq_true, if_false, stateChangeSpec, h1, h5]
        cases hc : sp.checked with
        | true => simp [h3 hc]
        | false => simp [h4 hc]
      · simpa [step, resultOp, hs'] using h6p
  | pump now f =>
    refine ⟨?_, ?_, ?_, ?_, ?_, ?_, hdts⟩ <;> simp only [specNext, step, pumpOp] <;> split <;>
      first | assumption | rfl
  | remove id u now =>
    refine ⟨?_, ?_, ?_, ?_, ?_, ?_, hdts⟩ <;> simp only [specNext, step, removeOp] <;> split <;>
      (try split) <;> assumption
  | setPaused b now =>
    refine ⟨?_, ?_, ?_, ?_, ?_, ?_, hdts⟩ <;> simp only [specNext, step, setPausedOp] <;>
      first | assumption | rfl

/-! ### The clauses on the model's own trace -/

/-- `OnDowntimeTriggered` fires only inside the window. -/
def RWin (now : Int) (d d' : Dt) : Prop :=
  d'.start = d.start ∧ d'.fin = d.fin ∧ d.trigEv ≤ d'.trigEv ∧ (d.trigEv < d'.trigEv → d.start ≤ now ∧ now ≤ d.fin)

theorem stepRel_RWin (now : Int) : StepRel now (fun _ => True) (fun _ => True) (RWin now) where
  refl := fun d => ⟨rfl, rfl, Nat.le_refl _, fun h => absurd h (Nat.lt_irrefl _)⟩
  trans := by
    intro a b c ⟨h1, h2, h3, h4⟩ ⟨g1, g2, g3, g4⟩
    refine ⟨by omega, by omega, by omega, ?_⟩
    intro hlt
    by_cases hab : a.trigEv < b.trigEv
    · exact h4 hab
    · have := g4 (by omega); omega
  ctx := fun _ _ _ _ => trivial
  trig := by
    intro t d _ _ hc _
    have hw := canBeTriggered_window hc
    exact ⟨rfl, rfl, by simp [trigSelf, noteTriggered, markTriggered], fun _ => ⟨hw.1, hw.2.1⟩⟩
  startT := fun _ _ _ _ _ => trivial
  start := by
    intro d _ _ hc _
    have hw := canBeTriggered_window hc
    exact ⟨rfl, rfl, by simp [startSelf, trigSelf, noteTriggered, markTriggered, noteStarted], fun _ => ⟨hw.1, hw.2.1⟩⟩
  remove := fun d _ _ => ⟨rfl, rfl, Nat.le_refl _, fun h => absurd h (Nat.lt_irrefl _)⟩
  setup := fun d _ _ => ⟨rfl, rfl, Nat.le_refl _, fun h => absurd h (Nat.lt_irrefl _)⟩
  addTrig := by
    intro c d _ _
    unfold addTrigger
    split <;> exact ⟨rfl, rfl, Nat.le_refl _, fun h => absurd h (Nat.lt_irrefl _)⟩
  disarm := fun d _ _ _ _ => ⟨rfl, rfl, Nat.le_refl _, fun h => absurd h (Nat.lt_irrefl _)⟩

/-- Removal and the DowntimeEnd request across an operation at `now`. -/
def REv (now : Int) (d d' : Dt) : Prop :=
  (d.removed = true → d' = d) ∧ d.trigEv ≤ d'.trigEv ∧ d.ends ≤ d'.ends ∧
  (d.trigger ≠ 0 → d'.trigger = d.trigger) ∧
  d'.remEv = d.remEv + (if d.removed = false ∧ d'.removed = true then 1 else 0) ∧
  (d'.ends ≠ d.ends → d.removed = false ∧ d'.removed = true) ∧
  (d.removed = false → d'.removed = true → 0 < d.trigger → d.trigger ≤ now →
    d'.ends = d.ends + (if d'.quiet then 0 else 1)) ∧
  (d.trigger = 0 → d'.trigEv = d.trigEv → d'.trigger = 0 ∧ d'.ends = d.ends)

theorem rev_live_same {now : Int} {d d' : Dt} (hr : d.removed = false) (hr' : d'.removed = false)
    (h1 : d.trigEv ≤ d'.trigEv) (h2 : d'.ends = d.ends) (h3 : d.trigger ≠ 0 → d'.trigger = d.trigger)
    (h4 : d'.remEv = d.remEv) (h5 : d.trigger = 0 → d'.trigEv = d.trigEv → d'.trigger = 0) : REv now d d' := by
  refine ⟨(fun h => by rw [hr] at h; cases h), h1, by omega, h3, ?_, fun h => absurd h2 h, ?_, ?_⟩
  · simp [hr', h4]
  · intro _ h; rw [hr'] at h; cases h
  · intro h0 he; exact ⟨h5 h0 he, h2⟩

theorem stepRel_REv (now : Int) : StepRel now (fun _ => True) (fun _ => True) (REv now) where
  refl := by
    intro d
    refine ⟨fun _ => rfl, Nat.le_refl _, Nat.le_refl _, fun _ => rfl, ?_, fun h => absurd rfl h, ?_, fun h _ => ⟨h, rfl⟩⟩
    · cases d.removed <;> simp
    · intro h1 h2; rw [h1] at h2; cases h2
  trans := by
    intro a b c ⟨h1, h2, h3, h4, h5, h6, h7, h8⟩ ⟨g1, g2, g3, g4, g5, g6, g7, g8⟩
    have hfrozen : a.removed = true → c = a := by
      intro ha; have hb := h1 ha; subst hb; exact g1 ha
    refine ⟨hfrozen, by omega, by omega, ?_, ?_, ?_, ?_, ?_⟩
    · intro ha
      have hb := h4 ha
      rw [g4 (by rw [hb]; exact ha), hb]
    · cases ha : a.removed with
      | true =>
        have := hfrozen ha; subst this; simp [ha]
      | false =>
        cases hb : b.removed with
        | true =>
          have hc := g1 hb; subst hc
          simp [ha, hb] at h5 ⊢; exact h5
        | false =>
          simp [ha, hb] at h5 g5 ⊢
          rw [g5, h5]
    · intro hne
      by_cases hab : b.ends = a.ends
      · have hcb : c.ends ≠ b.ends := by rw [hab]; exact hne
        obtain ⟨hb, hc⟩ := g6 hcb
        refine ⟨?_, hc⟩
        cases ha : a.removed with
        | false => rfl
        | true => have := h1 ha; subst this; rw [ha] at hb; cases hb
      · obtain ⟨ha, hb⟩ := h6 hab
        have hc := g1 hb; subst hc
        exact ⟨ha, hb⟩
    · intro ha hc hpos hle
      cases hb : b.removed with
      | true =>
        have := g1 hb; subst this
        exact h7 ha hb hpos hle
      | false =>
        have hbt : b.trigger = a.trigger := h4 (by omega)
        have hbe : b.ends = a.ends := by
          by_cases hab : b.ends = a.ends
          · exact hab
          · have := (h6 hab).2; rw [hb] at this; cases this
        rw [g7 hb hc (by omega) (by omega), hbe]
    · intro h0 he
      have hbe : b.trigEv = a.trigEv := by omega
      obtain ⟨hb0, hbends⟩ := h8 h0 hbe
      obtain ⟨hc0, hcends⟩ := g8 hb0 (by omega)
      exact ⟨hc0, by omega⟩
  ctx := fun _ _ _ _ => trivial
  trig := by
    intro t d _ _ _ hr
    apply rev_live_same hr <;> simp [trigSelf, noteTriggered, markTriggered, hr]
    · intro h; simp [h]
  startT := fun _ _ _ _ _ => trivial
  start := by
    intro d _ _ _ hr
    apply rev_live_same hr <;> simp [startSelf, trigSelf, noteTriggered, markTriggered, noteStarted, hr]
    · intro h; simp [h]
  remove := by
    intro d _ hr
    refine ⟨(fun h => by rw [hr] at h; cases h), Nat.le_refl _, ?_, fun _ => rfl, ?_, ?_, ?_, ?_⟩
    · simp only [removeDt]; split <;> omega
    · simp [removeDt, hr]
    · intro _; exact ⟨hr, rfl⟩
    · intro _ _ h1 h2
      cases hq : d.quiet <;> simp [removeDt, isTriggered, h1, h2, hq]
    · intro h0 _
      refine ⟨h0, ?_⟩
      simp [removeDt, isTriggered, h0]
  setup := by intro d _ hr; apply rev_live_same hr <;> simp [setupCleanup, hr]
  addTrig := by
    intro c d _ hr
    unfold addTrigger
    split
    · apply rev_live_same hr <;> simp [hr]
    · apply rev_live_same hr <;> simp [hr]
  disarm := by intro d _ hr _ _; apply rev_live_same hr <;> simp [hr]

/-- Everything but `setPaused` keeps the pause mirror. -/
def RQuiet (d d' : Dt) : Prop := d'.id = d.id ∧ d'.quiet = d.quiet ∧ (d.removed = true → d'.removed = true)

theorem stepRel_RQuiet (now : Int) : StepRel now (fun _ => True) (fun _ => True) RQuiet where
  refl := fun _ => ⟨rfl, rfl, id⟩
  trans := fun a b c h g => ⟨g.1.trans h.1, g.2.1.trans h.2.1, fun ha => g.2.2 (h.2.2 ha)⟩
  ctx := fun _ _ _ _ => trivial
  trig := fun _ _ _ _ _ hr => ⟨rfl, rfl, fun h => by rw [hr] at h; cases h⟩
  startT := fun _ _ _ _ _ => trivial
  start := fun _ _ _ _ hr => ⟨rfl, rfl, fun h => by rw [hr] at h; cases h⟩
  setup := fun _ _ hr => ⟨rfl, rfl, fun h => by rw [hr] at h; cases h⟩
  addTrig := by
    intro c x _ hr; unfold addTrigger
    split <;> exact ⟨rfl, rfl, fun h => by rw [hr] at h; cases h⟩
  remove := fun _ _ _ => ⟨rfl, rfl, fun _ => rfl⟩
  disarm := fun _ _ hr _ _ => ⟨rfl, rfl, fun h => by rw [hr] at h; cases h⟩

/-- A downtime removed by the operation carries the pause mirror it had before. -/
theorem quiet_pair (st : St) (op : Op) (hnd : (idsOf st.dts).Nodup) {d d' : Dt} (hd : d ∈ preModel st op)
    (hd' : d' ∈ (step st op).1.dts) (hid : d'.id = d.id) (hr : d.removed = false) (hr' : d'.removed = true) :
    d'.quiet = d.quiet := by
  have hnd' := nodup_step st op hnd
  have key : (∃ d'' ∈ (step st op).1.dts, RQuiet d d'') → d'.quiet = d.quiet := by
    rintro ⟨d'', hd'', r⟩
    have : d'' = d' := eq_of_id hnd' hd'' hd' (by rw [r.1, hid])
    rw [← this]; exact r.2.1
  cases op with
  | setPaused b now =>
    exfalso
    simp only [step, setPausedOp] at hd'
    obtain ⟨y, hy, rfl⟩ := List.mem_map.mp hd'
    have hyd : y = d := eq_of_id hnd hy hd (by rw [← (setQuiet_eq b y).1]; exact hid)
    rw [(setQuiet_eq b y).2.1, hyd, hr] at hr'
    cases hr'
  | add p now =>
    apply key
    simp only [preModel] at hd
    simp only [step]
    split at hd
    · rename_i hany
      refine ⟨d, ?_, rfl, rfl, id⟩
      simp [addOp, hany]; exact hd
    · rename_i hany
      have hany' : st.dts.any (fun d => d.id == p.id) = false := by simpa using hany
      exact (both_add_tail (stepRel_RQuiet now).toAddRel st p hany' (allc_trivial _)
        (opT_trivial st (.add p now))).1 d hd
  | result s te now =>
    exact key ((both_result (stepRel_RQuiet now).toAddRel.toTrigRel st s te trivial (allc_trivial _)).1 d hd)
  | pump now f => exact key ((both_pump (stepRel_RQuiet now) st f (allc_trivial _)).1 d hd)
  | remove id u now => exact key ((both_remove (stepRel_RQuiet now) st id u (allc_trivial _)).1 d hd)

/-- Everything the clause proofs need to know about one downtime across the operation. -/
def RAll (now : Int) (d d' : Dt) : Prop := RM d d' ∧ RTrig now d d' ∧ RWin now d d' ∧ REv now d d'

theorem stepRel_RAll (now : Int) : StepRel now (fun _ => True) (fun _ => True) (RAll now) :=
  stepRel_and (stepRel_RM now) (stepRel_and (stepRel_RTrig now) (stepRel_and (stepRel_RWin now) (stepRel_REv now)))

theorem rwin_setq (now : Int) (b : Bool) (d : Dt) : RWin now d (setQuiet b d) := by
  have h := setQuiet_eq b d
  refine ⟨h.2.2.2.2.1, h.2.2.2.2.2.1, by rw [h.2.2.2.2.2.2.2.2.2.2.2.2.2.1]; exact Nat.le_refl _, ?_⟩
  rw [h.2.2.2.2.2.2.2.2.2.2.2.2.2.1]
  exact fun hh => absurd hh (Nat.lt_irrefl _)

theorem rev_setq (now : Int) (b : Bool) (d : Dt) : REv now d (setQuiet b d) := by
  have h := setQuiet_eq b d
  refine ⟨h.2.2.2.2.2.2.2.2.2.2.2.2.2.2.2.2, by rw [h.2.2.2.2.2.2.2.2.2.2.2.2.2.1]; exact Nat.le_refl _,
    by rw [h.2.2.2.2.2.2.2.2.2.2.2.2.1]; exact Nat.le_refl _, fun _ => h.2.2.1, ?_, ?_, ?_, ?_⟩
  · rw [h.2.2.2.2.2.2.2.2.2.2.2.2.2.2.1, h.2.1]
    cases d.removed <;> simp
  · intro hne; exact absurd h.2.2.2.2.2.2.2.2.2.2.2.2.1 hne
  · intro h1 h2; rw [h.2.1, h1] at h2; cases h2
  · intro _ _; exact ⟨by rw [h.2.2.1]; assumption, h.2.2.2.2.2.2.2.2.2.2.2.2.1⟩

theorem rall_setq (now : Int) (b : Bool) (d : Dt) : RAll now d (setQuiet b d) :=
  ⟨rm_setq b d, rtrig_setq now b d, rwin_setq now b d, rev_setq now b d⟩

theorem pw_stepAll (st : St) (op : Op) (hnd : (idsOf st.dts).Nodup) :
    Pw (RAll op.now) (preModel st op) (step st op).1.dts :=
  pw_step st op (stepRel_RAll op.now) (fun a b r => r.1.1) hnd (rall_setq op.now)

theorem inEffect_V {now : Int} {sd : SDt} {d : Dt} (v : V sd d) :
    (sd.alive && sd.inEffect now) = (!d.removed && isInEffect now d) := by
  obtain ⟨_, v2, v3, v4, v5, _, _, v8, v9, _, _⟩ := v
  rw [v8]
  cases hr : d.removed with
  | true => rfl
  | false =>
    have ht := v9 hr
    simp only [SDt.inEffect, isInEffect, v2, v3, v4, v5, ht, Bool.not_false, Bool.true_and]
    cases d.fixed <;> by_cases h0 : d.trigger = 0 <;> simp [h0]

theorem any_pw {now : Int} {l : List SDt} {nl : List Dt} (h : Pw V l nl) :
    l.any (fun d => d.alive && d.inEffect now) = nl.any (fun d => !d.removed && isInEffect now d) := by
  induction h with
  | nil => rfl
  | cons hv _ ih => simp only [List.any_cons, inEffect_V hv, ih]

theorem filter_len_pw {now : Int} {l : List SDt} {nl : List Dt} (h : Pw V l nl) :
    (l.filter (fun d => d.alive && d.inEffect now)).length =
      (nl.filter (fun d => !d.removed && isInEffect now d)).length := by
  induction h with
  | nil => rfl
  | cons hv _ ih =>
    simp only [List.filter_cons, inEffect_V hv]
    split <;> simp [ih]

theorem zip_map_all {α : Type} (f : α → α) (g : α × α → Bool) (l : List α) :
    (l.zip (l.map f)).all g = l.all (fun a => g (a, f a)) := by
  induction l with
  | nil => rfl
  | cons a l ih => simp only [List.map_cons, List.zip_cons_cons, List.all_cons, ih]

theorem all_pw {P : SDt → Bool} {l : List SDt} {nl : List Dt} (h : Pw V l nl)
    (hp : ∀ sd d, d ∈ nl → V sd d → P sd = true) : l.all P = true := by
  induction h with
  | nil => rfl
  | cons hv _ ih =>
    simp only [List.all_cons, Bool.and_eq_true]
    exact ⟨hp _ _ List.mem_cons_self hv, ih (fun sd d hd v => hp sd d (List.mem_cons_of_mem _ hd) v)⟩

/-- Every downtime of the state has caused at most one DowntimeStart request. -/
def SInv' (_T : Int) (st : St) : Prop := ∀ d ∈ st.dts, d.starts ≤ 1

section
variable (sp : SpecSt) (st : St) (op : Op) (hrel : RelS sp st) (hnd : (idsOf st.dts).Nodup)
include hrel hnd

theorem post_pw : Pw V (postDts sp op (stepObs st op).2) (step st op).1.dts := by
  unfold postDts
  apply pw_chain _ _ _ _ (pw_pre sp st op hrel.2.2.2.2.2.2 hnd)
    (pw_stepRM st op hnd)
  intro sd d d' _ hd hd' v r
  exact after_V st op hnd hd hd' v r sp.paused

theorem chkInDt_model : chkInDt sp op (stepObs st op).2 = true := by
  simp only [chkInDt, beq_iff_eq]
  rw [any_pw (post_pw sp st op hrel hnd)]
  rfl

theorem chkDepth_model : chkDepth sp op (stepObs st op).2 = true := by
  simp only [chkDepth, beq_iff_eq]
  rw [filter_len_pw (post_pw sp st op hrel hnd)]
  rfl

omit hrel in
/-- Facts about one known downtime `sd`, its model counterpart `d` before and `d'` after the operation. -/
theorem triple_facts {sd : SDt} {d d' : Dt} (hd : d ∈ preModel st op) (hd' : d' ∈ (step st op).1.dts)
    (v : V sd d) (r : RAll op.now d d') :
    V (SDt.after sp.paused (stepObs st op).2 sd) d' ∧ (d'.removed = false → d.removed = false) := by
  refine ⟨after_V st op hnd hd hd' v r.1 sp.paused, ?_⟩
  intro hr'
  cases hr : d.removed with
  | false => rfl
  | true => rw [r.1.2.2.2.2.2.2.2.2.2.2.2 hr] at hr'; rw [hr] at hr'; cases hr'

theorem chkWriteOnce_model : chkWriteOnce sp op (stepObs st op).2 = true := by
  simp only [chkWriteOnce, postDts]
  rw [zip_map_all]
  apply all_chain _ _ _ _ (pw_pre sp st op hrel.2.2.2.2.2.2 hnd)
    (pw_stepAll st op hnd)
  intro sd d d' _ hd hd' v r
  obtain ⟨va, hlive⟩ := triple_facts sp st op hnd hd hd' v r
  simp only [Bool.or_eq_true, Bool.not_eq_true', Bool.and_eq_false_iff, bne_eq_false_iff_eq, beq_iff_eq]
  cases hr' : d'.removed with
  | true => left; left; rw [va.2.2.2.2.2.2.2.1, hr']; rfl
  | false =>
    have hr := hlive hr'
    by_cases h0 : sd.trig = 0
    · left; right; exact h0
    · right
      rw [va.2.2.2.2.2.2.2.2.1 hr', v.2.2.2.2.2.2.2.2.1 hr]
      exact r.2.1.2.2.2.2.2.1 (by rw [← v.2.2.2.2.2.2.2.2.1 hr]; exact h0)

theorem chkWindow_model : chkWindow sp op (stepObs st op).2 = true := by
  simp only [chkWindow, postDts]
  rw [zip_map_all]
  apply all_chain _ _ _ _ (pw_pre sp st op hrel.2.2.2.2.2.2 hnd)
    (pw_stepAll st op hnd)
  intro sd d d' _ hd hd' v r
  obtain ⟨va, hlive⟩ := triple_facts sp st op hnd hd hd' v r
  simp only [Bool.or_eq_true, Bool.not_eq_true', Bool.and_eq_false_iff, bne_eq_false_iff_eq, beq_eq_false_iff_ne]
  cases hr' : d'.removed with
  | true => left; left; left; rw [va.2.2.2.2.2.2.2.1, hr']; rfl
  | false =>
    have hr := hlive hr'
    by_cases h0 : sd.trig = 0
    · by_cases h1 : (SDt.after sp.paused (stepObs st op).2 sd).trig = 0
      · left; right; exact h1
      · right
        have hw := r.2.1.2.2.2.2.2.2 (by rw [← v.2.2.2.2.2.2.2.2.1 hr]; exact h0)
          (by rw [← va.2.2.2.2.2.2.2.2.1 hr']; exact h1)
        simp only [SDt.inWindow, Bool.and_eq_true, decide_eq_true_eq]
        rw [va.2.2.1, va.2.2.2.1, r.1.2.2.1, r.1.2.2.2.1]
        exact ⟨hw.1, hw.2.1⟩
    · left; left; right; exact h0

theorem chkWindowGone_model : chkWindowGone sp op (stepObs st op).2 = true := by
  simp only [chkWindowGone, postDts]
  rw [zip_map_all]
  apply all_chain _ _ _ _ (pw_pre sp st op hrel.2.2.2.2.2.2 hnd)
    (pw_stepAll st op hnd)
  intro sd d d' _ hd hd' v r
  have h3 : evCount (stepObs st op).2 3 d.id = d'.trigEv - d.trigEv :=
    evCount_pair st op hnd 3 (Or.inr (Or.inr (Or.inl rfl))) hd hd' r.1.1
  simp only [Bool.or_eq_true, Bool.not_eq_true', Bool.and_eq_false_iff, decide_eq_false_iff_not]
  by_cases hlt : d.trigEv < d'.trigEv
  · right
    have hw := r.2.2.1.2.2.2 hlt
    simp only [SDt.inWindow, Bool.and_eq_true, decide_eq_true_eq]
    rw [v.2.2.1, v.2.2.2.1]
    exact hw
  · left; right
    rw [v.1, h3]; omega

theorem gone_pair {sd : SDt} {d d' : Dt} (hd' : d' ∈ (step st op).1.dts) (v : V sd d) (hid : d'.id = d.id) :
    gone (stepObs st op).2 sd = (!d.removed && d'.removed) := by
  simp only [gone, v.1, obsTrig_pair st op hnd hd' hid, v.2.2.2.2.2.2.2.1]
  cases d'.removed <;> simp

theorem chkRemovedEvent_model : chkRemovedEvent sp op (stepObs st op).2 = true := by
  simp only [chkRemovedEvent]
  apply all_chain _ _ _ _ (pw_pre sp st op hrel.2.2.2.2.2.2 hnd)
    (pw_stepAll st op hnd)
  intro sd d d' _ hd hd' v r
  have h4 : evCount (stepObs st op).2 4 d.id = d'.remEv - d.remEv :=
    evCount_pair st op hnd 4 (Or.inr (Or.inr (Or.inr rfl))) hd hd' r.1.1
  have hg := gone_pair sp st op hrel hnd hd' v r.1.1
  have h5 := r.2.2.2.2.2.2.2.1
  simp only [beq_iff_eq, hg]
  rw [v.1, h4, h5]
  cases d.removed <;> cases d'.removed <;> simp

theorem chkEndOnce_model (hpe : ∀ d ∈ (step st op).1.dts, d.ends ≤ 1)
    (hqi : ∀ d ∈ preModel st op, d.removed = false → d.quiet = st.paused) :
    chkEndOnce sp op (stepObs st op).2 = true := by
  simp only [chkEndOnce, postDts]
  rw [zip_map_all]
  apply all_chain _ _ _ _ (pw_pre sp st op hrel.2.2.2.2.2.2 hnd)
    (pw_stepAll st op hnd)
  intro sd d d' _ hd hd' v r
  obtain ⟨va, hlive⟩ := triple_facts sp st op hnd hd hd' v r
  have h2 : evCount (stepObs st op).2 2 d.id = d'.ends - d.ends :=
    evCount_pair st op hnd 2 (Or.inr (Or.inl rfl)) hd hd' r.1.1
  have h3 : evCount (stepObs st op).2 3 d.id = d'.trigEv - d.trigEv :=
    evCount_pair st op hnd 3 (Or.inr (Or.inr (Or.inl rfl))) hd hd' r.1.1
  have hg := gone_pair sp st op hrel hnd hd' v r.1.1
  obtain ⟨_, e2, e3, _, _, e6, e7, e8⟩ := r.2.2.2
  simp only [Bool.and_eq_true, decide_eq_true_eq, Bool.or_eq_true, beq_iff_eq, Bool.not_eq_true',
    Bool.and_eq_false_iff, decide_eq_false_iff_not, hg, v.1, h2, h3]
  refine ⟨⟨⟨?_, ?_⟩, ?_⟩, ?_⟩
  · rw [va.2.2.2.2.2.2.2.2.2.2]; exact hpe d' hd'
  · by_cases he : d'.ends = d.ends
    · left; omega
    · right
      obtain ⟨a, b⟩ := e6 he
      simp [a, b]
  · cases hr : d.removed with
    | true => left; left; simp
    | false =>
      cases hr' : d'.removed with
      | false => left; left; simp
      | true =>
        have hst : sd.trig = d.trigger := v.2.2.2.2.2.2.2.2.1 hr
        by_cases hp : 0 < d.trigger
        · by_cases hl : d.trigger ≤ op.now
          · right
            have := e7 hr hr' hp hl
            rw [quiet_pair st op hnd hd hd' r.1.1 hr hr', hqi d hd hr, ← hrel.2.2.2.2.2.1] at this
            rw [this]
            cases sp.paused <;> simp
          · left; right; rw [hst]; exact hl
        · left; left; right; rw [hst]; exact hp
  · cases hr : d.removed with
    | true => left; left; simp
    | false =>
      cases hr' : d'.removed with
      | false => left; left; simp
      | true =>
        have hst : sd.trig = d.trigger := v.2.2.2.2.2.2.2.2.1 hr
        by_cases h0 : d.trigger = 0
        · by_cases hev : d'.trigEv = d.trigEv
          · right
            have := (e8 h0 hev).2; omega
          · left; right
            have : ¬ (d'.trigEv - d.trigEv = 0) := by omega
            simpa using this
        · left; left; right; rw [hst]; simpa using h0

omit hrel hnd in
theorem evsOf_self {l : List Dt} (h : (idsOf l).Nodup) {d : Dt} (hd : d ∈ l) : evsOf l d = [] := by
  unfold evsOf
  cases hf : l.find? (fun x => x.id == d.id) with
  | none =>
    have := List.find?_eq_none.mp hf d hd
    simp at this
  | some y =>
    have hy := List.mem_of_find?_eq_some hf
    have hyid : y.id = d.id := by have := List.find?_some hf; simpa using this
    have : y = d := eq_of_id h hy hd hyid
    subst this
    simp

theorem chkDropped_model : chkDropped sp op (stepObs st op).2 = true := by
  simp only [chkDropped]
  cases op with
  | result s te now =>
    by_cases hs : stale st te now = true
    · have hst : (step st (.result s te now)) = (st, 0) := by simp [step, resultOp, hs]
      have hevs : (stepObs st (.result s te now)).2.evs = [] := by
        simp only [stepObs, obsOf, hst]
        apply List.flatten_eq_nil_iff.mpr
        intro l hl
        obtain ⟨d, hd, rfl⟩ := List.mem_map.mp hl
        exact evsOf_self hnd hd
      simp only [dropped, stepObs_rc, hst, beq_self_eq_true, Bool.not_true, Bool.false_or, hevs,
        List.isEmpty_nil, Bool.true_and, preDts]
      apply all_pw hrel.2.2.2.2.2.2
      intro sd d hd v
      simp only [Bool.or_eq_true, Bool.not_eq_true', beq_iff_eq]
      cases hr : d.removed with
      | true => left; rw [v.2.2.2.2.2.2.2.1, hr]; rfl
      | false =>
        right
        simp only [stepObs, hst]
        rw [obsTrig_obsOf, v.1, findDt_unique hnd hd, v.2.2.2.2.2.2.2.2.1 hr]
        simp [hr]
    · have hs' : stale st te now = false := by simpa using hs
      simp [dropped, stepObs_rc, step, resultOp, hs']
  | add p now => simp [dropped]
  | pump now f => simp [dropped]
  | remove id u now => simp [dropped]
  | setPaused b now => simp [dropped]

omit hrel hnd in
theorem find_alive_pw {sl : List SDt} {dl : List Dt} (h : Pw V sl dl) (i : Nat) :
    (sl.find? (fun d => d.id == i && d.alive) = none ∧ findDt dl i = none) ∨
    (∃ sd d, sl.find? (fun d => d.id == i && d.alive) = some sd ∧ findDt dl i = some d ∧ V sd d) := by
  induction h with
  | nil => left; exact ⟨rfl, rfl⟩
  | @cons sd d sl' dl' hv _ ih =>
    have hb : (sd.id == i && sd.alive) = live i d := by
      simp only [live, hv.1, hv.2.2.2.2.2.2.2.1]
    cases hl : live i d with
    | true =>
      right
      exact ⟨sd, d, by simp [List.find?_cons, hb, hl], by simp [findDt, List.find?_cons, hl], hv⟩
    | false =>
      rcases ih with ⟨h1, h2⟩ | ⟨sd', d', h1, h2, h3⟩
      · left
        refine ⟨by simp [List.find?_cons, hb, hl, h1], ?_⟩
        unfold findDt at h2 ⊢
        simp [List.find?_cons, hl, h2]
      · right
        refine ⟨sd', d', by simp [List.find?_cons, hb, hl, h1], ?_, h3⟩
        unfold findDt at h2 ⊢
        simp [List.find?_cons, hl, h2]

theorem chkOwner_model : chkOwner sp op (stepObs st op).2 = true := by
  cases op with
  | remove id u now =>
    simp only [chkOwner, preDts]
    rcases find_alive_pw hrel.2.2.2.2.2.2 id with ⟨h1, h2⟩ | ⟨sd, d, h1, h2, v⟩
    · rw [h1]
      simp [stepObs_rc, step, removeOp, h2]
    · rw [h1]
      simp only
      by_cases ho : (d.owner && u) = true
      · have hst : step st (.remove id u now) = (st, 2) := by simp [step, removeOp, h2, ho]
        simp only [stepObs_rc, hst, v.2.2.2.2.2.2.1, ho, stepObs]
        rw [obsTrig_obsOf, h2]
        simp [obsOf]
      · have ho' : (d.owner && u) = false := by simpa using ho
        have hrc : (step st (.remove id u now)).2 = 1 := by simp [step, removeOp, h2, ho']
        simp [stepObs_rc, hrc, v.2.2.2.2.2.2.1, ho']
  | add p now => rfl
  | result s te now => rfl
  | pump now f => rfl
  | setPaused b now => rfl

theorem chkStartOnce_model (T : Int) (hs : SInv' T (step st op).1) : chkStartOnce sp op (stepObs st op).2 = true := by
  simp only [chkStartOnce]
  apply all_pw (post_pw sp st op hrel hnd)
  intro sd d hd v
  have := (hs d hd)
  simp only [decide_eq_true_eq]
  rw [v.2.2.2.2.2.2.2.2.2.1]
  exact this

end

/-- The DowntimeEnd invariant is kept by every operation. -/
theorem pend_step (st : St) (op : Op) (h0 : ∀ d ∈ st.dts, PEnd d) : ∀ d ∈ (step st op).1.dts, PEnd d := by
  intro d' hd'
  rcases step_pred st op (stepRel_REnd op.now) (allc_trivial _) (opT_trivial st op)
    (fun b _ _ d _ => rend_setq b d) d' hd' with ⟨d, hd, r⟩ | ⟨p, _, r⟩
  · have pd := h0 d hd
    cases hr : d.removed with
    | true => rw [r.1 hr]; exact pd
    | false => exact r.2 hr (pd.2 hr)
  · exact r.2 rfl rfl

/-! ### existence -/

/-- Creating a downtime and processing a result remove nothing. -/
def RKeep (d d' : Dt) : Prop := d'.id = d.id ∧ d'.removed = d.removed

theorem addRel_RKeep (now : Int) : AddRel now (fun _ => True) (fun _ => True) RKeep where
  refl := fun _ => ⟨rfl, rfl⟩
  trans := fun a b c h g => ⟨g.1.trans h.1, g.2.trans h.2⟩
  ctx := fun _ _ _ _ => trivial
  trig := fun _ _ _ _ _ _ => ⟨rfl, rfl⟩
  startT := fun _ _ _ _ _ => trivial
  start := fun _ _ _ _ _ => ⟨rfl, rfl⟩
  setup := fun _ _ _ => ⟨rfl, rfl⟩
  addTrig := by
    intro c d _ _
    unfold addTrigger
    split <;> exact ⟨rfl, rfl⟩

theorem pw_keep_add (st : St) (p : AddP) (now : Int) (hnd : (idsOf st.dts).Nodup) :
    Pw RKeep (preModel st (.add p now)) (step st (.add p now)).1.dts := by
  apply forall2_of_both (fun a b r => r.1) _ _ (ids_preModel st _) (nodup_preModel st _ hnd)
  simp only [step, preModel]
  split
  · rename_i hany
    simp only [addOp, hany, if_true]
    exact both_refl (addRel_RKeep now).refl _
  · rename_i hany
    have hany' : st.dts.any (fun d => d.id == p.id) = false := by simpa using hany
    exact both_add_tail (addRel_RKeep now) st p hany' (allc_trivial _) (opT_trivial st (.add p now))

theorem pw_keep_result (st : St) (s : Nat) (te now : Int) (hnd : (idsOf st.dts).Nodup) :
    Pw RKeep (preModel st (.result s te now)) (step st (.result s te now)).1.dts := by
  apply forall2_of_both (fun a b r => r.1) _ _ (ids_preModel st _) (nodup_preModel st _ hnd)
  exact both_result (addRel_RKeep now).toTrigRel st s te trivial (allc_trivial _)

theorem pw_map_self {R : Dt → Dt → Prop} (f : Dt → Dt) (h : ∀ d, R d (f d)) (l : List Dt) : Pw R l (l.map f) := by
  induction l with
  | nil => exact Pw.nil
  | cons a l ih => exact Pw.cons (h a) ih

theorem pw_refl {R : Dt → Dt → Prop} (h : ∀ d, R d d) (l : List Dt) : Pw R l l := by
  induction l with
  | nil => exact Pw.nil
  | cons a l ih => exact Pw.cons (h a) ih

/-- `remove` removes exactly the named downtime, when it is accepted. -/
def RRem (rc id : Nat) (d d' : Dt) : Prop :=
  d'.id = d.id ∧ d'.removed = (d.removed || (rc == 1 && d.id == id))

theorem pw_remove (st : St) (id : Nat) (u : Bool) (now : Int) :
    Pw (RRem (step st (.remove id u now)).2 id) st.dts (step st (.remove id u now)).1.dts := by
  simp only [step, removeOp]
  split
  · exact pw_refl (fun d => ⟨rfl, by simp⟩) _
  · split
    · exact pw_refl (fun d => ⟨rfl, by simp⟩) _
    · unfold updateDt
      apply pw_map_self
      intro d
      by_cases hl : live id d = true
      · simp only [hl, if_true]
        refine ⟨rfl, ?_⟩
        simp [removeDt, live_id hl]
      · simp only [hl]
        refine ⟨rfl, ?_⟩
        cases hr : d.removed with
        | true => simp [hr]
        | false =>
          by_cases hid : d.id = id
          · exfalso; apply hl; simp [live, hr, hid]
          · simp [hr, hid]

theorem contains_fst {l : List (Nat × Int)} {x : Nat} :
    (l.map (·.1)).contains x = (l.find? (fun p => p.1 == x)).isSome := by
  induction l with
  | nil => rfl
  | cons a l ih =>
    by_cases h : a.1 = x
    · simp [h]
    · have hb : (a.1 == x) = false := by simp [h]
      have hb' : (x == a.1) = false := by simp; exact fun e => h e.symm
      simp only [List.map_cons, List.contains_cons, List.find?_cons, hb, hb', Bool.false_or]
      exact ih

theorem contains_obs (old new : St) (rc : Nat) (now : Int) (x : Nat) :
    ((obsOf old new rc now).dts.map (·.1)).contains x = (findDt new.dts x).isSome := by
  rw [contains_fst]
  have := obsTrig_obsOf old new rc now x
  simp only [obsTrig] at this
  have h2 := congrArg Option.isSome this
  simpa using h2

theorem chain_mem_right {R : Dt → Dt → Prop} :
    ∀ (pre : List SDt) (dl nl : List Dt), Pw V pre dl → Pw R dl nl → ∀ d' ∈ nl,
      ∃ sd ∈ pre, ∃ d ∈ dl, V sd d ∧ R d d' := by
  intro pre
  induction pre with
  | nil => intro dl nl h1 h2 d' hd'; cases h1; cases h2; cases hd'
  | cons sd pre ih =>
    intro dl nl h1 h2 d' hd'
    cases h1 with
    | cons hv h1' =>
      cases h2 with
      | cons hr h2' =>
        rcases List.mem_cons.mp hd' with rfl | hm
        · exact ⟨sd, List.mem_cons_self, _, List.mem_cons_self, hv, hr⟩
        · obtain ⟨sd', hs, d, hd, v, r⟩ := ih _ _ h1' h2' d' hm
          exact ⟨sd', List.mem_cons_of_mem _ hs, d, List.mem_cons_of_mem _ hd, v, r⟩

theorem any_id_pw {sl : List SDt} {dl : List Dt} (h : Pw V sl dl) (i : Nat) :
    sl.any (fun d => d.id == i) = dl.any (fun d => d.id == i) := by
  induction h with
  | nil => rfl
  | cons hv _ ih => simp only [List.any_cons, hv.1, ih]

theorem any_alive_pw {sl : List SDt} {dl : List Dt} (h : Pw V sl dl) (i : Nat) :
    sl.any (fun d => d.id == i && d.alive) = (findDt dl i).isSome := by
  induction h with
  | nil => rfl
  | @cons sd d sl' dl' hv _ ih =>
    have hb : (sd.id == i && sd.alive) = live i d := by simp only [live, hv.1, hv.2.2.2.2.2.2.2.1]
    simp only [List.any_cons, hb, findDt, List.find?_cons]
    cases hl : live i d with
    | true => simp
    | false => simpa [findDt] using ih

section
variable (sp : SpecSt) (st : St) (op : Op) (hrel : RelS sp st) (hnd : (idsOf st.dts).Nodup)
include hrel hnd

/-- Everything observed is known and was alive (or has just been added). -/
theorem existence_known :
    ((stepObs st op).2.dts.map (·.1)).all
      (fun i => (preDts sp op (stepObs st op).2).any (fun d => d.id == i && d.alive)) = true := by
  apply List.all_eq_true.mpr
  intro i hi
  have hc : ((stepObs st op).2.dts.map (·.1)).contains i = true := by simpa using hi
  simp only [stepObs] at hc
  rw [contains_obs] at hc
  cases hf : findDt (step st op).1.dts i with
  | none => rw [hf] at hc; cases hc
  | some d' =>
    obtain ⟨hm, hl⟩ := mem_of_findDt hf
    obtain ⟨sd, hs, d, _, v, r⟩ := chain_mem_right _ _ _ (pw_pre sp st op hrel.2.2.2.2.2.2 hnd)
      (pw_stepAll st op hnd) d' hm
    apply List.any_eq_true.mpr
    refine ⟨sd, hs, ?_⟩
    have hr' := live_not_removed hl
    have hr : d.removed = false := by
      cases h : d.removed with
      | false => rfl
      | true => rw [r.1.2.2.2.2.2.2.2.2.2.2.2 h] at hr'; rw [h] at hr'; cases hr'
    simp [v.1, ← r.1.1, live_id hl, v.2.2.2.2.2.2.2.1, hr]

theorem existence_model : existenceOK op (stepObs st op).2 sp.dts (preDts sp op (stepObs st op).2) = true := by
  have hA := existence_known sp st op hrel hnd
  have hV := hrel.2.2.2.2.2.2
  -- the still-alive check along a position-wise relation that fixes how `removed` changes
  have keepP : ∀ (R : Dt → Dt → Prop), Pw R (preModel st op) (step st op).1.dts →
      (∀ a b, R a b → b.id = a.id) → ∀ (P : SDt → Bool),
      (∀ sd d d', V sd d → R d d' → d' ∈ (step st op).1.dts → P sd = true) →
      (preDts sp op (stepObs st op).2).all P = true := by
    intro R hR _ P hP
    apply all_chain _ _ _ _ (pw_pre sp st op hV hnd) hR
    intro sd d d' _ _ hd' v r
    exact hP sd d d' v r hd'
  have hcont : ∀ {d' : Dt}, d' ∈ (step st op).1.dts →
      ((stepObs st op).2.dts.map (·.1)).contains d'.id = !d'.removed := by
    intro d' hd'
    simp only [stepObs]
    rw [contains_obs, findDt_unique (nodup_step st op hnd) hd']
    cases d'.removed <;> rfl
  cases op with
  | pump now f => simp only [existenceOK, hA, Bool.and_true]
  | result s te now =>
    simp only [existenceOK, hA, Bool.true_and]
    have := keepP RKeep (pw_keep_result st s te now hnd) (fun a b r => r.1)
      (fun sd => !sd.alive || ((stepObs st (.result s te now)).2.dts.map (·.1)).contains sd.id) (by
        intro sd d d' v r hd'
        rw [v.1, ← r.1, hcont hd', r.2, v.2.2.2.2.2.2.2.1]
        cases d.removed <;> rfl)
    simpa [preDts] using this
  | setPaused b now =>
    simp only [existenceOK, hA, Bool.true_and]
    have hk : Pw RKeep (preModel st (.setPaused b now)) (step st (.setPaused b now)).1.dts := by
      simp only [preModel, step, setPausedOp]
      exact pw_map_self _ (fun d => ⟨(setQuiet_eq b d).1, (setQuiet_eq b d).2.1⟩) _
    have := keepP RKeep hk (fun a b r => r.1)
      (fun sd => !sd.alive || ((stepObs st (.setPaused b now)).2.dts.map (·.1)).contains sd.id) (by
        intro sd d d' v r hd'
        rw [v.1, ← r.1, hcont hd', r.2, v.2.2.2.2.2.2.2.1]
        cases d.removed <;> rfl)
    simpa [preDts] using this
  | add p now =>
    have hall := keepP RKeep (pw_keep_add st p now hnd) (fun a b r => r.1)
      (fun sd => !sd.alive || ((stepObs st (.add p now)).2.dts.map (·.1)).contains sd.id) (by
        intro sd d d' v r hd'
        rw [v.1, ← r.1, hcont hd', r.2, v.2.2.2.2.2.2.2.1]
        cases d.removed <;> rfl)
    have hany := any_id_pw hV p.id
    simp only [existenceOK, hA, Bool.true_and, Bool.and_eq_true]
    by_cases ha : st.dts.any (fun d => d.id == p.id) = true
    · have hrc : (stepObs st (.add p now)).2.rc = 0 := by simp [stepObs_rc, step, addOp, ha]
      simp only [preDts, hrc] at hall
      refine ⟨⟨⟨by simpa using hall, ?_⟩, ?_⟩, ?_⟩ <;> simp [hrc, hany, ha]
    · have ha' : st.dts.any (fun d => d.id == p.id) = false := by simpa using ha
      have hrc : (stepObs st (.add p now)).2.rc = 1 := by simp [stepObs_rc, step, addOp, ha']
      simp only [preDts, hrc, beq_self_eq_true, if_true, List.all_append, Bool.and_eq_true] at hall
      refine ⟨⟨⟨hall.1, ?_⟩, ?_⟩, ?_⟩
      · simp [hrc, hany, ha']
      · simp [hrc]
      · have h2 := hall.2
        simp only [List.all_cons, List.all_nil, Bool.and_true, newSDt, Bool.not_true, Bool.false_or] at h2
        simp only [Bool.or_eq_true]
        right; exact h2
  | remove id u now =>
    simp only [existenceOK, hA, Bool.true_and, Bool.and_eq_true]
    constructor
    · have := keepP (RRem (step st (.remove id u now)).2 id) (pw_remove st id u now) (fun a b r => r.1)
        (fun sd => !sd.alive || (((stepObs st (.remove id u now)).2.dts.map (·.1)).contains sd.id ==
          !((stepObs st (.remove id u now)).2.rc == 1 && sd.id == id))) (by
          intro sd d d' v r hd'
          rw [v.1, ← r.1, hcont hd', r.2, v.2.2.2.2.2.2.2.1, stepObs_rc, r.1]
          cases d.removed <;> simp)
      simpa [preDts] using this
    · rw [any_alive_pw hV id]
      simp only [stepObs_rc, step, removeOp]
      cases hf : findDt st.dts id with
      | none => simp
      | some d => simp only [Option.isSome_some]; split <;> simp

end

/-! ### expired_removed: the cleanup timer of an existing downtime is always armed -/

def Base (d : Dt) : Prop := 0 ≤ d.duration ∧ 0 ≤ d.trigger ∧ 0 < d.entry

def Arm (d : Dt) : Prop := d.removed = false → d.cleanup = some (cleanupPoint d)

def RArm (d d' : Dt) : Prop := d'.id = d.id ∧ (Base d → Base d') ∧ (Base d → Arm d → Arm d')

theorem arm_trigSelf (t : Int) (d : Dt) : Arm (trigSelf t d) := by
  intro _
  simp [trigSelf, noteTriggered, markTriggered, cleanupPoint]

theorem stepRel_RArm (now : Int) : StepRel now (fun t => 0 < t) Base RArm where
  refl := fun _ => ⟨rfl, id, fun _ h => h⟩
  trans := fun a b c h g => ⟨g.1.trans h.1, fun hb => g.2.1 (h.2.1 hb), fun hb ha => g.2.2 (h.2.1 hb) (h.2.2 hb ha)⟩
  ctx := fun _ _ r h => r.2.1 h
  trig := by
    intro t d ht hb _ _
    refine ⟨rfl, ?_, fun _ _ => arm_trigSelf t d⟩
    intro ⟨h1, h2, h3⟩
    refine ⟨h1, ?_, h3⟩
    simp only [trigSelf, noteTriggered, markTriggered]
    split <;> omega
  startT := by
    intro d hb _ _ _
    have := hb.2.2
    omega
  start := by
    intro d hb _ _ _
    refine ⟨rfl, ?_, fun _ _ => ?_⟩
    · intro ⟨h1, h2, h3⟩
      refine ⟨h1, ?_, h3⟩
      simp only [startSelf, trigSelf, noteTriggered, markTriggered, noteStarted]
      by_cases h0 : d.trigger = 0 <;> simp [h0] <;> omega
    · exact arm_trigSelf _ _
  setup := by
    intro d _ _
    refine ⟨rfl, id, fun _ _ => ?_⟩
    intro _
    simp [setupCleanup, cleanupPoint]
  addTrig := by
    intro c d _ _
    unfold addTrigger
    split
    · exact ⟨rfl, id, fun _ h => h⟩
    · exact ⟨rfl, id, fun _ h => h⟩
  remove := by
    intro d _ _
    refine ⟨rfl, id, fun _ _ => ?_⟩
    intro h
    simp [removeDt] at h
  disarm := by
    intro d hb hr hdue hexp
    refine ⟨rfl, id, fun _ ha => ?_⟩
    have := due_implies_expired now d hb.1 hb.2.1 (ha hr) hdue
    rw [this] at hexp; cases hexp

theorem rarm_setq (b : Bool) (d : Dt) : RArm d (setQuiet b d) := by
  have h := setQuiet_eq b d
  refine ⟨h.1, ?_, ?_⟩
  · intro hb; unfold Base at hb ⊢
    rw [h.2.2.2.2.2.2.1, h.2.2.1, h.2.2.2.2.2.2.2.1]; exact hb
  · intro _ ha hr
    rw [h.2.1] at hr
    have := ha hr
    rw [h.2.2.2.2.2.2.2.2.2.2.2.2.2.2.2.1, this]
    unfold cleanupPoint
    rw [h.2.2.2.1, h.2.2.1, h.2.2.2.2.2.1, h.2.2.2.2.2.2.1]

/-- The downtime an accepted `add` creates leaves the operation with its cleanup timer armed. -/
theorem arm_new (st : St) (p : AddP) (now : Int) (hany : st.dts.any (fun d => d.id == p.id) = false) :
    ∀ d' ∈ (addOp st p now).1.dts, d'.id = p.id → Arm d' := by
  intro d' hd' hid hr'
  simp only [addOp, hany, Bool.false_eq_true, if_false] at hd'
  -- the last two updates
  have key : ∀ (L : List Dt), ∀ x ∈ updateDt L p.id setupCleanup, x.id = p.id → x.removed = false →
      x.cleanup = some (cleanupPoint x) := by
    intro L x hx hxid hxr
    unfold updateDt at hx
    obtain ⟨y, _, rfl⟩ := List.mem_map.mp hx
    by_cases hl : live p.id y = true
    · simp only [hl, if_true]; simp [setupCleanup, cleanupPoint]
    · exfalso
      simp [hl] at hxid hxr
      apply hl; simp [live, hxid, hxr]
  split at hd'
  · unfold updateDt at hd'
    obtain ⟨y, hy, rfl⟩ := List.mem_map.mp hd'
    by_cases hl : live p.trigBy y = true
    · simp only [hl, if_true] at hid hr' ⊢
      have hyid : y.id = p.id := by rw [← hid]; unfold addTrigger; split <;> rfl
      have hyr : y.removed = false := by rw [← hr']; unfold addTrigger; split <;> rfl
      have := key _ y hy hyid hyr
      unfold addTrigger; split
      · exact this
      · simpa [cleanupPoint] using this
    · simp only [hl] at hid hr' ⊢
      exact key _ y hy hid hr'
  · exact key _ d' hd' hid hr'

/-- State invariant behind `expired_removed`. -/
def AInv (st : St) : Prop := 0 < st.lastStateChange ∧ ∀ d ∈ st.dts, Base d ∧ Arm d

theorem ainv_step (st : St) (op : Op) (hi : AInv st) (hnow : 0 < op.now) (hop : opOK op) :
    AInv (step st op).1 := by
  obtain ⟨hl, hall⟩ := hi
  have hC : AllC Base st.dts := fun d hd => (hall d hd).1
  have hopT : OpT st (fun t => 0 < t) Base op := by
    cases op with
    | add p now =>
      refine ⟨?_, fun _ => ?_⟩
      · exact ⟨hop, by simp [newDt], by simpa [newDt, Op.now] using hnow⟩
      · simp only [Op.now] at hnow; omega
    | result s te now => exact hop.1
    | pump now f => trivial
    | remove id u now => trivial
    | setPaused b now => trivial
  constructor
  · cases op with
    | add p now => simp only [step, addOp]; split <;> exact hl
    | result s te now =>
      have : 0 < te := hop.1
      simp only [step, resultOp]; split
      · exact hl
      · simp only; split <;> omega
    | pump now f => simp only [step, pumpOp]; split <;> exact hl
    | remove id u now => simp only [step, removeOp]; split <;> (try split) <;> exact hl
    | setPaused b now => exact hl
  · intro d' hd'
    rcases step_pred st op (stepRel_RArm op.now) hC hopT (fun b _ _ d _ => rarm_setq b d) d' hd'
      with ⟨d, hd, r⟩ | ⟨p, hp, r⟩
    · exact ⟨r.2.1 (hall d hd).1, r.2.2 (hall d hd).1 (hall d hd).2⟩
    · have hb : Base (newDt st p op.now) := by
        cases op with
        | add p' now' =>
          cases hp
          exact ⟨hop, by simp [newDt], by simpa [newDt, Op.now] using hnow⟩
        | result s te now => cases hp
        | pump now f => cases hp
        | remove id u now => cases hp
        | setPaused b now => cases hp
      refine ⟨r.2.1 hb, ?_⟩
      cases op with
      | add p' now' =>
        cases hp
        simp only [step] at hd'
        by_cases hany : st.dts.any (fun d => d.id == p.id) = true
        · -- not accepted: the state is unchanged, the downtime existed before
          simp only [addOp, hany, if_true] at hd'
          exact (hall d' hd').2
        · have hany' : st.dts.any (fun d => d.id == p.id) = false := by simpa using hany
          exact arm_new st p now' hany' d' hd' (by rw [r.1]; rfl)
      | result s te now => cases hp
      | pump now f => cases hp
      | remove id u now => cases hp
      | setPaused b now => cases hp

section
variable (sp : SpecSt) (st : St) (op : Op) (hrel : RelS sp st) (hnd : (idsOf st.dts).Nodup)
include hrel hnd

theorem chkExpired_model (ha : AInv (step st op).1) : chkExpired sp op (stepObs st op).2 = true := by
  cases op with
  | pump now f =>
    simp only [chkExpired, isPump, Bool.not_true, Bool.false_or]
    apply all_pw (post_pw sp st (.pump now f) hrel hnd)
    intro sd d' hd' v
    simp only [Bool.or_eq_true, Bool.not_eq_true']
    cases hr : d'.removed with
    | true => left; rw [v.2.2.2.2.2.2.2.1, hr]; rfl
    | false =>
      right
      obtain ⟨⟨_, ht, _⟩, harm⟩ := ha.2 d' hd'
      have hdue : cleanupDue now d' = false := by
        have := hd'
        simp only [step] at this
        unfold pumpOp at this
        simp only at this
        split at this
        · obtain ⟨x, _, rfl⟩ := List.mem_map.mp this
          exact fireCleanup_not_due now x
        · obtain ⟨x, _, rfl⟩ := List.mem_map.mp this
          exact fireCleanup_not_due now x
      have hcp : ¬ cleanupPoint d' < now := by
        simp [cleanupDue, hr, harm hr] at hdue
        omega
      simp only [SDt.over, Op.now, v.2.1, v.2.2.2.1, v.2.2.2.2.1, v.2.2.2.2.2.2.2.2.1 hr]
      unfold cleanupPoint at hcp
      cases hf : d'.fixed with
      | true => simp [hf] at hcp ⊢; omega
      | false =>
        by_cases h0 : d'.trigger = 0
        · simp [hf, h0] at hcp ⊢; omega
        · have : ¬ d'.trigger ≤ 0 := by omega
          simp [hf, h0, this] at hcp ⊢; omega
  | add p now => rfl
  | result s te now => rfl
  | remove id u now => rfl
  | setPaused b now => rfl

end

/-- The pause mirror of every existing downtime agrees with the checkable. -/
def QInv (st : St) : Prop := ∀ d ∈ st.dts, d.removed = false → d.quiet = st.paused

theorem qinv_step (st : St) (op : Op) (hi : QInv st) : QInv (step st op).1 := by
  intro d' hd' hr'
  cases op with
  | setPaused b now =>
    simp only [step, setPausedOp] at hd' ⊢
    obtain ⟨y, _, rfl⟩ := List.mem_map.mp hd'
    have hyr : y.removed = false := by rw [← (setQuiet_eq b y).2.1]; exact hr'
    simp [setQuiet, hyr]
  | add p now =>
    have hp : (step st (.add p now)).1.paused = st.paused := by simp only [step, addOp]; split <;> rfl
    rw [hp]
    rcases step_pred st (.add p now) (stepRel_RQuiet now) (allc_trivial _) (opT_trivial st _)
      (fun _ _ h => by cases h) d' hd' with ⟨d, hd, r⟩ | ⟨p', hp', r⟩
    · rw [r.2.1]
      apply hi d hd
      cases h : d.removed with
      | false => rfl
      | true => rw [r.2.2 h] at hr'; cases hr'
    · rw [r.2.1]; rfl
  | result s te now =>
    have hp : (step st (.result s te now)).1.paused = st.paused := by simp only [step, resultOp]; split <;> rfl
    rw [hp]
    rcases step_pred st (.result s te now) (stepRel_RQuiet now) (allc_trivial _) (opT_trivial st _)
      (fun _ _ h => by cases h) d' hd' with ⟨d, hd, r⟩ | ⟨p', hp', _⟩
    · rw [r.2.1]
      apply hi d hd
      cases h : d.removed with
      | false => rfl
      | true => rw [r.2.2 h] at hr'; cases hr'
    · cases hp'
  | pump now f =>
    have hp : (step st (.pump now f)).1.paused = st.paused := by simp only [step, pumpOp]; split <;> rfl
    rw [hp]
    rcases step_pred st (.pump now f) (stepRel_RQuiet now) (allc_trivial _) (opT_trivial st _)
      (fun _ _ h => by cases h) d' hd' with ⟨d, hd, r⟩ | ⟨p', hp', _⟩
    · rw [r.2.1]
      apply hi d hd
      cases h : d.removed with
      | false => rfl
      | true => rw [r.2.2 h] at hr'; cases hr'
    · cases hp'
  | remove id u now =>
    have hp : (step st (.remove id u now)).1.paused = st.paused := by
      simp only [step, removeOp]; split <;> (try split) <;> rfl
    rw [hp]
    rcases step_pred st (.remove id u now) (stepRel_RQuiet now) (allc_trivial _) (opT_trivial st _)
      (fun _ _ h => by cases h) d' hd' with ⟨d, hd, r⟩ | ⟨p', hp', _⟩
    · rw [r.2.1]
      apply hi d hd
      cases h : d.removed with
      | false => rfl
      | true => rw [r.2.2 h] at hr'; cases hr'
    · cases hp'

theorem qinv_pre (st : St) (op : Op) (hi : QInv st) : ∀ d ∈ preModel st op, d.removed = false → d.quiet = st.paused := by
  intro d hd hr
  cases op with
  | add p now =>
    simp only [preModel] at hd
    split at hd
    · exact hi d hd hr
    · rcases List.mem_append.mp hd with h | h
      · exact hi d h hr
      · simp at h; subst h; rfl
  | result s te now => exact hi d hd hr
  | pump now f => exact hi d hd hr
  | remove id u now => exact hi d hd hr
  | setPaused b now => exact hi d hd hr

end Icinga.C05

/-
  C02 — helper lemmas for flapping detection (IcingaModel/C02/Flap.lean): the ring buffer read from its oldest
  entry is the sliding window over the last 20 results.
-/
import IcingaModel.C02.Flap
namespace Icinga.C02
open Icinga.C01

/-- The ring buffer read from the oldest entry on is the sliding window. -/
def FlapRel (f : FlapSt) (sf : SpecFlap) : Prop :=
  f.buf.length = 20 ∧ f.idx < 20 ∧ sf.window.length = 20 ∧
  (∀ i, i < 20 → sf.window.getD i false = f.buf.getD ((f.idx + i) % 20) false) ∧
  sf.last = f.last ∧ sf.flapping = f.flapping

theorem windowSumFrom_append (k : Nat) (a b : List Bool) :
    windowSumFrom k (a ++ b) = windowSumFrom k a + windowSumFrom (k + a.length) b := by
  induction a generalizing k with
  | nil => simp [windowSumFrom]
  | cons x xs ih =>
    simp only [List.cons_append, windowSumFrom, ih, List.length_cons]
    have : k + 1 + xs.length = k + (xs.length + 1) := by omega
    rw [this]; omega

theorem windowSum_take (w buf : List Bool) (start : Nat) (n : Nat) (hn : n ≤ w.length)
    (h : ∀ i, i < n → w.getD i false = buf.getD ((start + i) % 20) false) :
    windowSumFrom 0 (w.take n) = ringSumUpTo buf start n := by
  induction n with
  | zero => simp [windowSumFrom, ringSumUpTo]
  | succ n ih =>
    have hlt : n < w.length := by omega
    have e1 : w.take (n + 1) = w.take n ++ [w[n]] := by
      rw [List.take_add_one]; simp [List.getElem?_eq_getElem hlt]
    have e2 : w[n] = buf.getD ((start + n) % 20) false := by
      have := h n (by omega)
      simpa [List.getD_eq_getElem?_getD, List.getElem?_eq_getElem hlt] using this
    rw [e1, windowSumFrom_append, ih (by omega) (fun i hi => h i (by omega))]
    simp only [ringSumUpTo, windowSumFrom, List.length_take, Nat.zero_add, Nat.add_zero, e2]
    have : min n w.length = n := by omega
    rw [this]

theorem windowSum_eq_ringSum (w buf : List Bool) (start : Nat) (hl : w.length = 20)
    (h : ∀ i, i < 20 → w.getD i false = buf.getD ((start + i) % 20) false) :
    windowSum w = ringSum buf start := by
  have := windowSum_take w buf start 20 (by omega) h
  rw [← hl, List.take_length] at this
  rw [windowSum, ringSum, this, hl]

theorem flapRel_step (fc : FlapCfg) (f : FlapSt) (sf : SpecFlap) (new : SState) (h : FlapRel f sf) :
    FlapRel (flapUpdate fc f new).1 (specFlapStep fc sf new).1 ∧
    (flapUpdate fc f new).2 = (specFlapStep fc sf new).2 := by
  obtain ⟨h1, h2, h3, h4, h5, h6⟩ := h
  have hw : ∀ i, i < 20 → (sf.window.drop 1 ++ [new != sf.last]).getD i false =
      (f.buf.set f.idx (new != f.last)).getD (((f.idx + 1) % 20 + i) % 20) false := by
    intro i hi
    by_cases h19 : i < 19
    · have hp : ((f.idx + 1) % 20 + i) % 20 ≠ f.idx := by omega
      have hq : ((f.idx + 1) % 20 + i) % 20 = (f.idx + (i + 1)) % 20 := by omega
      have := h4 (i + 1) (by omega)
      simp only [List.getD_eq_getElem?_getD] at this ⊢
      rw [List.getElem?_append_left (by simp; omega), List.getElem?_drop, List.getElem?_set_ne (Ne.symm hp), hq]
      rw [Nat.add_comm 1 i]; exact this
    · have hi' : i = 19 := by omega
      subst hi'
      have hp : ((f.idx + 1) % 20 + 19) % 20 = f.idx := by omega
      simp only [List.getD_eq_getElem?_getD]
      rw [hp, List.getElem?_append_right (by simp; omega)]
      simp [h3, h1, h2, h5]
  have hlen : (sf.window.drop 1 ++ [new != sf.last]).length = 20 := by simp; omega
  have hsum := windowSum_eq_ringSum _ _ _ hlen hw
  refine ⟨⟨by simp [flapUpdate, h1], by simp [flapUpdate]; omega, by simpa [specFlapStep] using hlen, ?_, rfl, ?_⟩, ?_⟩
  · simpa [flapUpdate, specFlapStep] using hw
  · simp only [specFlapStep, flapUpdate, hsum, h6]
  · simp only [specFlapStep, flapUpdate, hsum, h6]

/-- Runs of results: the decisions (is flapping, exact tie) after each. -/
def flapRun (fc : FlapCfg) : FlapSt → List SState → List (Bool × Bool)
  | _, [] => []
  | f, r :: rest => ((flapUpdate fc f r).1.flapping, (flapUpdate fc f r).2) :: flapRun fc (flapUpdate fc f r).1 rest

def specFlapRun (fc : FlapCfg) : SpecFlap → List SState → List (Bool × Bool)
  | _, [] => []
  | f, r :: rest => ((specFlapStep fc f r).1.flapping, (specFlapStep fc f r).2) :: specFlapRun fc (specFlapStep fc f r).1 rest

theorem flapRel_run (fc : FlapCfg) (rs : List SState) : ∀ (f : FlapSt) (sf : SpecFlap), FlapRel f sf →
    flapRun fc f rs = specFlapRun fc sf rs := by
  induction rs with
  | nil => intro _ _ _; rfl
  | cons r rest ih =>
    intro f sf h
    obtain ⟨a, b⟩ := flapRel_step fc f sf r h
    simp only [flapRun, specFlapRun, b, ih _ _ a, a.2.2.2.2.2]

/-- Moving a window one position towards the old end does not increase its weight. -/
theorem windowSumFrom_shift (k : Nat) (w : List Bool) : windowSumFrom k w ≤ windowSumFrom (k + 1) w := by
  induction w generalizing k with
  | nil => simp [windowSumFrom]
  | cons x xs ih =>
    simp only [windowSumFrom]
    have := ih (k + 1)
    cases x <;> simp [flapWeight] <;> omega

theorem windowSum_slide_false (w : List Bool) : windowSum (w.drop 1 ++ [false]) ≤ windowSum w := by
  cases w with
  | nil => simp [windowSum, windowSumFrom]
  | cons x xs =>
    simp only [windowSum, List.drop_succ_cons, List.drop_zero, windowSumFrom_append, windowSumFrom]
    have := windowSumFrom_shift 0 xs
    simp at this ⊢
    omega

/-- The window after `n ≤ 20` further results without a state change. -/
theorem window_after_stable (fc : FlapCfg) (n : Nat) : ∀ (sf : SpecFlap), sf.window.length = 20 → n ≤ 20 →
    ((List.replicate n sf.last).foldl (fun f r => (specFlapStep fc f r).1) sf).window =
      sf.window.drop n ++ List.replicate n false := by
  induction n with
  | zero => intro sf _ _; simp
  | succ n ih =>
    intro sf hlen hn
    have hl : (specFlapStep fc sf sf.last).1.last = sf.last := rfl
    have hw : (specFlapStep fc sf sf.last).1.window = sf.window.drop 1 ++ [false] := by simp [specFlapStep]
    have i1 := ih (specFlapStep fc sf sf.last).1 (by rw [hw]; simp; omega) (by omega)
    rw [hl] at i1
    simp only [List.replicate_succ, List.foldl_cons]
    rw [i1, hw, List.drop_append_of_le_length (by simp; omega), List.drop_drop, List.append_assoc]
    simp [Nat.add_comm]

theorem windowSumFrom_replicate_false (k n : Nat) : windowSumFrom k (List.replicate n false) = 0 := by
  induction n generalizing k with
  | zero => rfl
  | succ n ih => simp [List.replicate_succ, windowSumFrom, ih]

/-- In every state the detection produced, the flapping flag is the decision on the stored window. -/
theorem specFlapStep_flapping (fc : FlapCfg) (sf : SpecFlap) (new : SState) :
    (specFlapStep fc sf new).1.flapping =
      (flapDecide fc sf.flapping (windowSum (specFlapStep fc sf new).1.window)).1 := rfl

end Icinga.C02

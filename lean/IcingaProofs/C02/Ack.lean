/-
  C02 — helper lemmas for the acknowledgement layer (IcingaModel/C02/Ack.lean): simulation invariant between the
  code's attributes with lazy expiry and the property-level acknowledgement in force.
-/
import IcingaModel.C02.Ack
namespace Icinga.C02

/-- Simulation invariant between the attributes and the property-level acknowledgement at time `last`. -/
def AckInv (a : AckSt) (sa : SpecAck) (last : Int) : Prop :=
  (sa.cur = none ∧ a = ackCleared) ∨
  (∃ st e, sa.cur = some (st, e) ∧ (a = ackSet st e ∨ (a = ackCleared ∧ e ≠ 0 ∧ e < last)))

theorem getAck_cleared (now : Int) : getAck ackCleared now = (ackCleared, .none) := by
  simp [getAck, ackExpired, ackCleared]

theorem getAck_set (st : Bool) (e now : Int) :
    getAck (ackSet st e) now =
      if e ≠ 0 ∧ e < now then (ackCleared, .none) else (ackSet st e, if st then .sticky else .normal) := by
  cases st <;> simp [getAck, ackExpired, ackSet]

theorem ackInv_query (a : AckSt) (sa : SpecAck) (last now : Int) (h : AckInv a sa last) (hm : last ≤ now) :
    isAcked a now = sa.inForce now ∧ AckInv (getAck a now).1 sa now := by
  rcases h with ⟨h1, h2⟩ | ⟨st, e, h1, h2 | ⟨h2, h3, h4⟩⟩
  · subst h2
    refine ⟨by simp [isAcked, getAck_cleared, SpecAck.inForce, h1], Or.inl ⟨h1, by simp [getAck_cleared]⟩⟩
  · subst h2
    by_cases hx : e ≠ 0 ∧ e < now
    · have : ¬ now ≤ e := by omega
      refine ⟨by simp [isAcked, getAck_set, hx, SpecAck.inForce, h1, this], Or.inr ⟨st, e, h1, Or.inr ⟨by simp [getAck_set, hx], hx.1, hx.2⟩⟩⟩
    · have hy : e = 0 ∨ now ≤ e := by omega
      refine ⟨?_, Or.inr ⟨st, e, h1, Or.inl (by simp [getAck_set, hx])⟩⟩
      have : (e == 0 || decide (now ≤ e)) = true := by
        rcases hy with h | h <;> simp [h]
      cases st <;> simp [isAcked, getAck_set, hx, SpecAck.inForce, h1, this]
  · subst h2
    have : ¬ now ≤ e := by omega
    refine ⟨by simp [isAcked, getAck_cleared, SpecAck.inForce, h1, h3, this], Or.inr ⟨st, e, h1, Or.inr ⟨by simp [getAck_cleared], h3, by omega⟩⟩⟩

/-- One operation: the object's answer equals the acknowledgement in force, invariant re-established. -/
theorem ackInv_step (a : AckSt) (sa : SpecAck) (last now : Int) (op : AckOp) (h : AckInv a sa last) (hm : last ≤ now) :
    ackObs a now op = (specAckStep sa op).inForce now ∧ AckInv (ackStep a now op) (specAckStep sa op) now := by
  cases op with
  | set st e =>
    have h0 : AckInv (ackSet st e) ⟨some (st, e)⟩ now := Or.inr ⟨st, e, rfl, Or.inl rfl⟩
    exact ackInv_query _ _ now now h0 (Int.le_refl _)
  | clear =>
    exact ⟨by simp [ackObs, specAckStep, SpecAck.inForce], Or.inl ⟨rfl, rfl⟩⟩
  | query => exact ackInv_query a sa last now h hm
  | result sc ok =>
    have key : AckInv (ackOnResult a now sc ok) (specAckStep sa (.result sc ok)) now := by
      obtain ⟨q1, q2⟩ := ackInv_query a sa last now h hm
      cases sc with
      | false =>
        have : specAckStep sa (.result false ok) = sa := by
          simp only [specAckStep]; rcases sa.cur with _ | ⟨st, e⟩ <;> simp
        rw [this]
        simp only [ackOnResult, Bool.false_eq_true, if_false]
        rcases h with ⟨h1, h2⟩ | ⟨st, e, h1, h2 | ⟨h2, h3, h4⟩⟩
        · exact Or.inl ⟨h1, h2⟩
        · exact Or.inr ⟨st, e, h1, Or.inl h2⟩
        · exact Or.inr ⟨st, e, h1, Or.inr ⟨h2, h3, by omega⟩⟩
      | true =>
        rcases h with ⟨h1, h2⟩ | ⟨st, e, h1, h2 | ⟨h2, h3, h4⟩⟩
        · subst h2
          refine Or.inl ⟨by simp [specAckStep, h1], ?_⟩
          simp [ackOnResult, getAck_cleared]
        · subst h2
          by_cases hx : e ≠ 0 ∧ e < now
          · have e1 : ackOnResult (ackSet st e) now true ok = ackCleared := by
              simp [ackOnResult, getAck_set, hx, getAck_cleared]
            rw [e1]
            by_cases hc : (!st || ok) = true
            · exact Or.inl ⟨by simp [specAckStep, h1, hc], rfl⟩
            · refine Or.inr ⟨st, e, by simp [specAckStep, h1, hc], Or.inr ⟨rfl, hx.1, hx.2⟩⟩
          · cases st with
            | false =>
              refine Or.inl ⟨by simp [specAckStep, h1], ?_⟩
              simp [ackOnResult, getAck_set, hx]
            | true =>
              cases ok with
              | true =>
                refine Or.inl ⟨by simp [specAckStep, h1], ?_⟩
                simp [ackOnResult, getAck_set, hx]
              | false =>
                refine Or.inr ⟨true, e, by simp [specAckStep, h1], Or.inl ?_⟩
                simp [ackOnResult, getAck_set, hx]
        · subst h2
          have e1 : ackOnResult ackCleared now true ok = ackCleared := by
            simp [ackOnResult, getAck_cleared]
          rw [e1]
          by_cases hc : (!st || ok) = true
          · exact Or.inl ⟨by simp [specAckStep, h1, hc], rfl⟩
          · exact Or.inr ⟨st, e, by simp [specAckStep, h1, hc], Or.inr ⟨rfl, h3, by omega⟩⟩
    exact ackInv_query _ _ now now key (Int.le_refl _)

/-- Whole traces, from any related pair. -/
theorem ackInv_trace (ops : List (Int × AckOp)) : ∀ (a : AckSt) (sa : SpecAck) (t0 : Int) (i : Nat),
    AckInv a sa t0 → monotoneFrom t0 ops = true → specAckTrace sa i (ackTraceOf a ops) = none := by
  induction ops with
  | nil => intro _ _ _ _ _ _; rfl
  | cons x rest ih =>
    intro a sa t0 i h hm
    obtain ⟨now, op⟩ := x
    simp only [monotoneFrom, Bool.and_eq_true, decide_eq_true_eq] at hm
    obtain ⟨s1, s2⟩ := ackInv_step a sa t0 now op h hm.1
    simp only [ackTraceOf, specAckTrace, s1, beq_self_eq_true, if_true]
    exact ih _ _ now (i + 1) s2 hm.2

end Icinga.C02

/-
  C02 — the simulation relation between the specification's bookkeeping and the model's bit masks, the
  operations of the model, and the per-step lemmas about the request clauses (`specStepCore`).
-/
import IcingaProofs.C02.Lemmas

namespace Icinga.C02
open Icinga.C01

/-- Model state and specification bookkeeping describe the same situation. -/
def Rel (c : Cfg) (sp : SpecSt) (s : St) : Prop :=
  sp.state = s.core.state ∧ sp.stype = s.core.stype ∧
  (isOK c.kind s.core.state = true → s.core.stype = .hard) ∧
  sp.pending = pendOf s.sup.hasState s.sbs ∧
  sp.flapPending = flapOf s.sup.flapStart s.sup.flapEnd ∧
  (s.sup.flapStart && s.sup.flapEnd) = false

theorem rel_init (c : Cfg) : Rel c specInit init := by
  simp [Rel, specInit, init, C01.pending, pendOf, flapOf, Sup.hasState, isOK, hostUp]
  cases c.kind <;> simp

/-- Operations of the model: a check result with the environment the code reads, or a run of the
    suppressed-notification handler with its environment. -/
inductive Op
  | result (r : Res) (e : REnv)
  | fire (e : FEnv)

def applyOp (c : Cfg) (s : St) : Op → St × Obs
  | .result r e =>
    let o := resultStep c s r e
    (o.1, .result o.2.2 o.1.core.state o.1.core.stype e o.2.1 o.1.sup.hasState o.1.sbs)
  | .fire e =>
    let o := fireStep c s e
    (o.1, .fire e o.2 o.1.sup.hasState o.1.sbs)

def traceOf (c : Cfg) : St → List Op → List Obs
  | _, [] => []
  | s, op :: rest => let p := applyOp c s op; p.2 :: traceOf c p.1 rest

/-- **result_step_core.**  One processed result: the requests satisfy the property's clauses for
    results (flapping exactly on a toggle; Problem/Recovery exactly on a hard event; nothing while
    flapping, paused, suppressed or while earlier events are withheld; the remembered state is the hard
    state before suppression began) and the relation is re-established. -/
theorem result_step_core (c : Cfg) (hmax : 1 ≤ c.max) (sp : SpecSt) (s : St) (r : Res) (e : REnv)
    (hr : Rel c sp s) :
    (specStepCore c sp (applyOp c s (.result r e)).2).1 = none ∧
    Rel c (specStepCore c sp (applyOp c s (.result r e)).2).2 (applyOp c s (.result r e)).1 := by
  obtain ⟨core, ⟨p, r', s3, s4⟩, sbs⟩ := s
  obtain ⟨hs, ht, hok, hp, hf, hx⟩ := hr
  simp only at hs ht hok hp hf hx
  simp only [applyOp, resultStep]
  cases hst : stale core r
  · -- accepted
    simp only [Bool.false_eq_true, if_false, specStepCore]
    obtain ⟨u0, u1, u2, u3, u4⟩ := step_universal c hmax core r
    have h1 : isOK c.kind (stepCore c core r).1.state = true → (stepCore c core r).1.stype = .hard := by
      intro h; rw [u0] at h; exact (u1 h).1
    have hsend := sendOf_eq_hardEvent c core (stepCore c core r).1.state (stepCore c core r).1.stype h1 hok
    obtain ⟨f1, f2, f3, f4⟩ := flapPartOf_shape e (stepCore c core r).1.state
    have hfl := flap_result e (stepCore c core r).1.state s3 s4 hx
    have hev := hardEvent_type c core.state core.stype (stepCore c core r).1.state (stepCore c core r).1.stype
    have hsr := state_result (hardEvent c core.state core.stype (stepCore c core r).1.state (stepCore c core r).1.stype)
      (isOK c.kind (stepCore c core r).1.state && !isOK c.kind core.state) p r' sbs
      (if core.stype == .hard then core.state else .ok) e (stepCore c core r).1.state hev
    obtain ⟨g1, g2, g3⟩ := statePartOf_shape (sendOf c core (stepCore c core r).1.state (stepCore c core r).1.stype)
      (isOK c.kind (stepCore c core r).1.state && !isOK c.kind core.state) (Sup.hasState ⟨p, r', s3, s4⟩) e (stepCore c core r).1.state
    obtain ⟨fp, spp⟩ := filter_split _ _ f4 g3
    have hstash := stash_spec p r' s3 s4
      (statePartOf (sendOf c core (stepCore c core r).1.state (stepCore c core r).1.stype)
        (isOK c.kind (stepCore c core r).1.state && !isOK c.kind core.state) (Sup.hasState ⟨p, r', s3, s4⟩) e (stepCore c core r).1.state).1.problem
      (statePartOf (sendOf c core (stepCore c core r).1.state (stepCore c core r).1.stype)
        (isOK c.kind (stepCore c core r).1.state && !isOK c.kind core.state) (Sup.hasState ⟨p, r', s3, s4⟩) e (stepCore c core r).1.state).1.recovery
      (flapPartOf e (stepCore c core r).1.state).1.flapStart (flapPartOf e (stepCore c core r).1.state).1.flapEnd
      sbs core.state core.stype hx f3
    simp only [Sup.hasState] at hsr hstash hp fp spp
    simp only [notifyOnResult, specResult, hs, ht, hp, hf, Sup.hasState]
    rw [hsend] at fp spp hstash ⊢
    rw [fp, spp]
    obtain ⟨a1, a2⟩ := hfl
    obtain ⟨b1, b2⟩ := hsr
    obtain ⟨c1, c2, c3, c4, c5⟩ := hstash
    refine ⟨?_, rfl, rfl, h1, ?_, ?_, ?_⟩
    · rw [a1, b1]
    · dsimp only [Sup.hasState]; rw [b2, c1, c2, c5]
      congr
    · dsimp only; rw [a2, c3, c4]
    · dsimp only; rw [c3, c4]
      cases h3 : s3 <;> cases h4 : s4 <;>
        cases (flapPartOf e (stepCore c core r).1.state).1.flapStart <;>
        cases (flapPartOf e (stepCore c core r).1.state).1.flapEnd <;> simp_all
  · -- dropped as stale: nothing is requested, nothing changes
    simp only [if_true, specStepCore]
    exact ⟨by simp, hs, ht, hok, hp, hf, hx⟩

/-- **fire_step_core.**  One run of the suppressed-notification handler: never while a suppression
    reason holds, never without a withheld event, no release before the object rests in a hard state
    and is settled, and at release exactly one notification iff the state differs from the remembered
    one (Recovery iff OK/Up now); afterwards nothing is withheld. -/
theorem fire_step_core (c : Cfg) (sp : SpecSt) (s : St) (e : FEnv) (hr : Rel c sp s) :
    (specStepCore c sp (applyOp c s (.fire e)).2).1 = none ∧
    Rel c (specStepCore c sp (applyOp c s (.fire e)).2).2 (applyOp c s (.fire e)).1 := by
  obtain ⟨hs, ht, hok, hp, hf, hx⟩ := hr
  simp only [applyOp, specStepCore, specFire]
  rw [fireStep_eq]
  have hA := fire_state_spec c s e sp hs ht hp
  have hB := fire_flap_spec s e sp hs hf hx
  have sA := fireState_shape c s e
  have sFS := fireFlapOne_shape e s.core.state s.sup.flapStart e.isFlapping .flapStart (Or.inl rfl)
  have sFE := fireFlapOne_shape e s.core.state s.sup.flapEnd (!e.isFlapping) .flapEnd (Or.inr rfl)
  cases hoff : (e.paused || !e.enabled)
  · simp only [hoff, Bool.false_eq_true, if_false] at hA hB ⊢
    have hflapAll : ∀ n ∈ (fireFlapOne e s.core.state s.sup.flapStart e.isFlapping .flapStart).2 ++
        (fireFlapOne e s.core.state s.sup.flapEnd (!e.isFlapping) .flapEnd).2, isFlap n = true := by
      intro n hn; rcases List.mem_append.mp hn with h | h
      · exact sFS n h
      · exact sFE n h
    have hsplit := filter_split (fireFlapOne e s.core.state s.sup.flapStart e.isFlapping .flapStart).2 []
      sFS (by simp)
    -- reorder a.2 ++ fs.2 ++ fe.2 into state part followed by flapping part for filtering
    have hfp : flapPart ((fireState c s e).2 ++ (fireFlapOne e s.core.state s.sup.flapStart e.isFlapping .flapStart).2 ++
        (fireFlapOne e s.core.state s.sup.flapEnd (!e.isFlapping) .flapEnd).2) =
        (fireFlapOne e s.core.state s.sup.flapStart e.isFlapping .flapStart).2 ++
        (fireFlapOne e s.core.state s.sup.flapEnd (!e.isFlapping) .flapEnd).2 := by
      unfold flapPart
      rw [List.append_assoc, List.filter_append]
      rw [List.filter_eq_nil_iff.mpr (by intro n hn; simp [sA n hn]), List.nil_append]
      exact List.filter_eq_self.mpr hflapAll
    have hsp : statePart ((fireState c s e).2 ++ (fireFlapOne e s.core.state s.sup.flapStart e.isFlapping .flapStart).2 ++
        (fireFlapOne e s.core.state s.sup.flapEnd (!e.isFlapping) .flapEnd).2) = (fireState c s e).2 := by
      unfold statePart
      rw [List.append_assoc, List.filter_append]
      rw [List.filter_eq_self.mpr (by intro n hn; simp [sA n hn])]
      rw [List.filter_eq_nil_iff.mpr (by intro n hn; simp [hflapAll n hn]), List.append_nil]
    rw [hfp, hsp]
    obtain ⟨a1, a2⟩ := hA
    obtain ⟨b1, b2⟩ := hB
    refine ⟨by rw [a1, b1], hs, ht, hok, ?_, ?_, ?_⟩
    · simp only [a2, Sup.hasState]
    · simp only [b2]
    · cases h3 : s.sup.flapStart <;> cases h4 : s.sup.flapEnd <;> simp_all
  · simp only [hoff, if_true] at hA hB ⊢
    obtain ⟨a1, a2⟩ := hA
    obtain ⟨b1, b2⟩ := hB
    simp only [List.append_nil, Bool.not_false, Bool.and_true] at a1 a2 b1 b2
    have e1 : statePart ([] : List Notif) = [] := rfl
    have e2 : flapPart ([] : List Notif) = [] := rfl
    rw [e1, e2]
    refine ⟨by rw [a1, b1], hs, ht, hok, ?_, ?_, hx⟩
    · rw [a2]; simp only [Sup.hasState]
    · rw [b2]


/-- Under the relation the two attributes are what the property remembers. -/
theorem remembered_of_rel (c : Cfg) (sp : SpecSt) (s : St) (hr : Rel c sp s) :
    specRemembered c sp.pending s.sup.hasState s.sbs = none := by
  obtain ⟨_, _, _, hp, _, _⟩ := hr
  rw [hp]
  cases h : s.sup.hasState <;> simp [pendOf, specRemembered]

theorem applyOp_obs (c : Cfg) (s : St) (op : Op) :
    (applyOp c s op).2.supState = (applyOp c s op).1.sup.hasState ∧ (applyOp c s op).2.sbs = (applyOp c s op).1.sbs := by
  cases op <;> simp [applyOp, Obs.supState, Obs.sbs]

/-! ### Consecutive handler runs -/

/-- The handler may process a withheld state notification (the conditions of the property's release
    clause, in the property's terms). -/
def ready (s : St) (e : FEnv) : Bool :=
  !e.paused && e.enabled && !e.stateSuppressed && s.core.stype == .hard && !imminent e && !e.parentRecent

/-- Consecutive runs of the handler with no result in between: final state and all requests. -/
def fireRun (c : Cfg) : St → List FEnv → St × List Notif
  | s, [] => (s, [])
  | s, e :: es => ((fireRun c (fireStep c s e).1 es).1, (fireStep c s e).2 ++ (fireRun c (fireStep c s e).1 es).2)

theorem statePart_append (a b : List Notif) : statePart (a ++ b) = statePart a ++ statePart b := by
  simp [statePart]

/-- What one handler run does to the state part: requests, the stash bits, everything else. -/
theorem fireStep_state (c : Cfg) (s : St) (e : FEnv) :
    statePart (fireStep c s e).2 =
      (if s.sup.hasState && ready s e && differs c s.core.state s.sbs
       then [⟨if isOK c.kind s.core.state then .recovery else .problem, s.core.state⟩] else []) ∧
    (fireStep c s e).1.sup.hasState = (s.sup.hasState && !ready s e) ∧
    (fireStep c s e).1.sbs = s.sbs ∧ (fireStep c s e).1.core = s.core := by
  rw [fireStep_eq]
  have sFS := fireFlapOne_shape e s.core.state s.sup.flapStart e.isFlapping .flapStart (Or.inl rfl)
  have sFE := fireFlapOne_shape e s.core.state s.sup.flapEnd (!e.isFlapping) .flapEnd (Or.inr rfl)
  cases hoff : (e.paused || !e.enabled)
  · simp only [Bool.false_eq_true, if_false]
    have hfl : statePart ((fireFlapOne e s.core.state s.sup.flapStart e.isFlapping .flapStart).2 ++
        (fireFlapOne e s.core.state s.sup.flapEnd (!e.isFlapping) .flapEnd).2) = [] := by
      unfold statePart
      apply List.filter_eq_nil_iff.mpr
      intro n hn
      rcases List.mem_append.mp hn with h' | h'
      · simp [sFS n h']
      · simp [sFE n h']
    rw [List.append_assoc, statePart_append, hfl, List.append_nil]
    have hst : statePart (fireState c s e).2 = (fireState c s e).2 := by
      unfold statePart
      exact List.filter_eq_self.mpr (by intro n hn; simp [fireState_shape c s e n hn])
    rw [hst]
    have hr : ready s e = releaseNow s e := by
      unfold ready releaseNow
      rw [imminent_eq_likelySoon]
      cases h1 : e.paused <;> cases h2 : e.enabled <;> simp_all
    rw [hr]
    refine ⟨?_, ?_, by trivial, by trivial⟩
    · unfold fireState
      cases h1 : s.sup.hasState <;> cases h2 : releaseNow s e <;> cases h3 : differs c s.core.state s.sbs <;> simp
    · unfold fireState
      cases hp : s.sup.problem <;> cases hq : s.sup.recovery <;> cases h2 : releaseNow s e <;> simp [Sup.hasState, hp, hq]
  · have hr : ready s e = false := by
      unfold ready
      cases h1 : e.paused <;> cases h2 : e.enabled <;> simp_all
    simp [hr, statePart]


theorem splits_head (ns : List Notif) : ∃ rest, splits ns = ([], ns) :: rest := by
  refine ⟨((List.range ns.length).map Nat.succ).map (fun i => (ns.take i, ns.drop i)), ?_⟩
  simp [splits, List.range_succ_eq_map]


end Icinga.C02

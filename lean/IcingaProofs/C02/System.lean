/-
  C02 — helper lemmas for the composed system (IcingaModel/C02/System.lean): acknowledgement attributes +
  notification bookkeeping, `IsAcknowledged()` no longer an input.
-/
import IcingaProofs.C02.Core
import IcingaProofs.C02.Ack
import IcingaModel.C02.System
namespace Icinga.C02
open Icinga.C01

theorem sysTrace_cons (c : Cfg) (y : Sys) (now : Int) (op : SysOp) (rest : List (Int × SysOp)) :
    sysTrace c y ((now, op) :: rest) = (sysStep c y now op).2 :: sysTrace c (sysStep c y now op).1 rest := rfl

theorem sysStep_ack (c : Cfg) (y : Sys) (now : Int) (op : SysOp) :
    (sysStep c y now op).2.2 = (now, sysAckOp c y.s op, ackObs y.a now (sysAckOp c y.s op)) ∧
    (sysStep c y now op).1.a = ackStep y.a now (sysAckOp c y.s op) := by
  cases op <;> exact ⟨rfl, rfl⟩

theorem specAckTrace_cons_ok (sa : SpecAck) (i : Nat) (now : Int) (op : AckOp) (obs : Bool) (rest : List (Int × AckOp × Bool))
    (h : obs = (specAckStep sa op).inForce now) :
    specAckTrace sa i ((now, op, obs) :: rest) = specAckTrace (specAckStep sa op) (i + 1) rest := by
  simp [specAckTrace, h]

theorem specTrace_cons_ok (c : Cfg) (sp : SpecSt) (o : Obs) (rest : List Obs) (h : (specStep c sp o).1 = none) :
    specTrace c sp (o :: rest) = specTrace c (specStep c sp o).2 rest := by
  simp only [specTrace]
  generalize specStep c sp o = q at h
  obtain ⟨q1, q2⟩ := q
  simp only at h; subst h; rfl

end Icinga.C02

/-
  C02 — helper lemmas for IcingaProofs/C02.lean.
-/
import IcingaModel.C02.Model
import IcingaModel.C02.Spec
import IcingaProofs.C01.Lemmas

namespace Icinga.C02
open Icinga.C01

/-- The code's `send_notification` is exactly "this result is a hard event" of the property. -/
theorem sendOf_eq_hardEvent (c : Cfg) (old : C01.St) (new : SState) (nt : SType)
    (h1 : isOK c.kind new = true → nt = .hard) (h2 : isOK c.kind old.state = true → old.stype = .hard) :
    sendOf c old new nt = (hardEvent c old.state old.stype new nt).isSome := by
  unfold sendOf hardEvent hardChangeOf
  rw [stateChange_eq_proj]
  cases hon : isOK c.kind new <;> cases hoo : isOK c.kind old.state
  · cases hv : c.volatile <;> cases nt <;> cases hot : old.stype <;>
      cases hp : (proj c.kind old.state != proj c.kind new) <;> simp_all
  · have := h2 hoo
    have hp := proj_ne_of_ok c.kind old.state new hoo hon
    cases hv : c.volatile <;> cases nt <;> simp_all
  · have := h1 hon
    have hp := proj_ne_of_ok' c.kind old.state new hoo hon
    cases hv : c.volatile <;> cases hot : old.stype <;> simp_all
  · have := h1 hon; have := h2 hoo
    have hp := proj_eq_of_ok c.kind old.state new hoo hon
    cases hv : c.volatile <;> simp_all

theorem hardEvent_type (c : Cfg) (os : SState) (ot : SType) (new : SState) (nt : SType) (t : NType)
    (h : hardEvent c os ot new nt = some t) :
    t = (if isOK c.kind new && !isOK c.kind os then NType.recovery else NType.problem) := by
  unfold hardEvent at h
  cases hon : isOK c.kind new <;> cases hoo : isOK c.kind os <;> simp_all <;>
    (repeat' split at h) <;> simp_all

/-! ### The stash merge (checkable-check.cpp:511-539) as equations -/

theorem stash_spec (p r s3 s4 sP sR fS fE : Bool) (sbs oldState : SState) (oldType : SType)
    (hx : (s3 && s4) = false) (hf : (fS && fE) = false) :
    let res := stash ⟨p, r, s3, s4⟩ sbs ⟨sP, sR, fS, fE⟩ oldType oldState
    res.1.problem = (p || sP) ∧ res.1.recovery = (r || sR) ∧
    res.1.flapStart = ((s3 || fS) && !(s4 || fE)) ∧ res.1.flapEnd = ((s4 || fE) && !(s3 || fS)) ∧
    res.2 = (if !(p || r) && (sP || sR) then (if oldType == .hard then oldState else .ok) else sbs) := by
  cases p <;> cases r <;> cases s3 <;> cases s4 <;> cases sP <;> cases sR <;> cases fS <;> cases fE <;>
    simp_all [stash, Sup.isEmpty, Sup.hasState]

/-! ### Flapping part of a result -/

theorem flapPartOf_shape (e : REnv) (ns : SState) :
    (flapPartOf e ns).1.problem = false ∧ (flapPartOf e ns).1.recovery = false ∧
    ((flapPartOf e ns).1.flapStart && (flapPartOf e ns).1.flapEnd) = false ∧
    (∀ n ∈ (flapPartOf e ns).2, isFlap n = true) := by
  obtain ⟨e1, e2, e3, e4, e5, e6⟩ := e
  cases e2 <;> cases e4 <;> cases e5 <;> cases e6 <;> simp [flapPartOf, isFlap]

theorem statePartOf_shape (send rec hp : Bool) (e : REnv) (ns : SState) :
    (statePartOf send rec hp e ns).1.flapStart = false ∧ (statePartOf send rec hp e ns).1.flapEnd = false ∧
    (∀ n ∈ (statePartOf send rec hp e ns).2, isFlap n = false) := by
  obtain ⟨e1, e2, e3, e4, e5, e6⟩ := e
  cases send <;> cases rec <;> cases hp <;> cases e1 <;> cases e2 <;> cases e3 <;> cases e5 <;> cases e6 <;>
    simp [statePartOf, isFlap]

theorem filter_split (a b : List Notif) (ha : ∀ n ∈ a, isFlap n = true) (hb : ∀ n ∈ b, isFlap n = false) :
    flapPart (a ++ b) = a ∧ statePart (a ++ b) = b := by
  unfold flapPart statePart
  constructor
  · rw [List.filter_append]
    have h1 : a.filter isFlap = a := List.filter_eq_self.mpr ha
    have h2 : b.filter isFlap = [] := List.filter_eq_nil_iff.mpr (by intro n hn; simp [hb n hn])
    rw [h1, h2, List.append_nil]
  · rw [List.filter_append]
    have h1 : a.filter (fun n => !isFlap n) = [] := List.filter_eq_nil_iff.mpr (by intro n hn; simp [ha n hn])
    have h2 : b.filter (fun n => !isFlap n) = b := List.filter_eq_self.mpr (by intro n hn; simp [hb n hn])
    rw [h1, h2, List.nil_append]

def flapOf (s3 s4 : Bool) : Option Bool := if s3 then some true else if s4 then some false else none

/-- The flapping clause of the spec holds for the model's flapping part, and the withheld flapping
    notification tracked by the spec is the one encoded in the bit mask. -/
theorem flap_result (e : REnv) (ns : SState) (s3 s4 : Bool) (hx : (s3 && s4) = false) :
    let f := flapPartOf e ns
    let o := specFlapR (flapOf s3 s4) e ns f.2
    o.1 = none ∧
    o.2 = flapOf ((s3 || f.1.flapStart) && !(s4 || f.1.flapEnd)) ((s4 || f.1.flapEnd) && !(s3 || f.1.flapStart)) := by
  obtain ⟨e1, e2, e3, e4, e5, e6⟩ := e
  cases s3 <;> cases s4 <;> cases e2 <;> cases e4 <;> cases e5 <;> cases e6 <;>
    simp_all [flapPartOf, specFlapR, flapOf]

/-! ### State part of a result -/

def pendOf (has : Bool) (sbs : SState) : Option SState := if has then some sbs else none

theorem state_result (ev : Option NType) (rec : Bool) (p r : Bool) (sbs hb : SState) (e : REnv) (ns : SState)
    (hev : ∀ t, ev = some t → t = (if rec then NType.recovery else NType.problem)) :
    let s := statePartOf ev.isSome rec (p || r) e ns
    let o := specStateR ev (pendOf (p || r) sbs) hb e ns s.2
    o.1 = none ∧
    o.2 = pendOf ((p || s.1.problem) || (r || s.1.recovery))
            (if !(p || r) && (s.1.problem || s.1.recovery) then hb else sbs) := by
  obtain ⟨e1, e2, e3, e4, e5, e6⟩ := e
  rcases ev with _ | t
  · cases p <;> cases r <;> simp [statePartOf, specStateR, pendOf]
  · have := hev t rfl
    subst this
    cases rec <;> cases p <;> cases r <;> cases e1 <;> cases e2 <;> cases e3 <;> cases e5 <;> cases e6 <;>
      simp [statePartOf, specStateR, pendOf]

/-! ### The suppressed-notification handler -/

/-- The code's hand-written clamp (checkable-notification.cpp:331-338) is the property's "imminent". -/
theorem soonThreshold_eq (i : Int) : soonThreshold i = min 60000000 (max 0 (i - 10000000)) := by
  unfold soonThreshold
  simp only []
  omega

theorem imminent_eq_likelySoon (e : FEnv) : imminent e = e.likelySoon := by
  unfold imminent FEnv.likelySoon
  rw [soonThreshold_eq]
  cases e.activeChecks <;> simp

theorem fireState_shape (c : Cfg) (s : St) (e : FEnv) : ∀ n ∈ (fireState c s e).2, isFlap n = false := by
  unfold fireState
  intro n hn
  cases h1 : isOK c.kind s.core.state <;> cases h2 : (s.sup.hasState && releaseNow s e) <;>
    cases h3 : differs c s.core.state s.sbs <;> simp_all [isFlap]

theorem fireFlapOne_shape (e : FEnv) (cur : SState) (has applies : Bool) (t : NType) (ht : t = .flapStart ∨ t = .flapEnd) :
    ∀ n ∈ (fireFlapOne e cur has applies t).2, isFlap n = true := by
  unfold fireFlapOne
  intro n hn
  rcases ht with ht | ht <;> subst ht <;>
    cases has <;> cases applies <;> cases h1 : e.inDowntime <;> cases h2 : e.likelySoon <;> cases h3 : e.parentRecent <;>
    simp_all [isFlap]

/-- The `suppressed_types == 0` early return is subsumed by the general path. -/
theorem fireStep_eq (c : Cfg) (s : St) (e : FEnv) :
    fireStep c s e =
      if e.paused || !e.enabled then (s, [])
      else
        let a := fireState c s e
        let fs := fireFlapOne e s.core.state s.sup.flapStart e.isFlapping .flapStart
        let fe := fireFlapOne e s.core.state s.sup.flapEnd (!e.isFlapping) .flapEnd
        ({ s with sup := { problem := s.sup.problem && !a.1, recovery := s.sup.recovery && !a.1,
                           flapStart := s.sup.flapStart && !fs.1, flapEnd := s.sup.flapEnd && !fe.1 } },
         a.2 ++ fs.2 ++ fe.2) := by
  obtain ⟨core, ⟨p, r, s3, s4⟩, sbs⟩ := s
  unfold fireStep
  cases h1 : e.paused <;> cases h2 : e.enabled <;> simp
  cases p <;> cases r <;> cases s3 <;> cases s4 <;> simp [Sup.isEmpty, fireState, fireFlapOne, Sup.hasState]

theorem fire_state_spec (c : Cfg) (s : St) (e : FEnv) (sp : SpecSt)
    (hs : sp.state = s.core.state) (ht : sp.stype = s.core.stype)
    (hp : sp.pending = pendOf s.sup.hasState s.sbs) :
    let a := if e.paused || !e.enabled then (false, []) else fireState c s e
    let o := specFireState c sp e a.2
    o.1 = none ∧ o.2 = pendOf ((s.sup.problem && !a.1) || (s.sup.recovery && !a.1)) s.sbs := by
  obtain ⟨core, ⟨p, r, s3, s4⟩, sbs⟩ := s
  obtain ⟨sps, spt, spp, spf⟩ := sp
  simp only at hs ht hp
  subst hs ht hp
  cases hd : (proj c.kind core.state != proj c.kind sbs) <;> cases hty : core.stype <;>
    cases p <;> cases r <;> cases h1 : e.paused <;> cases h2 : e.enabled <;> cases h3 : e.stateSuppressed <;>
    cases h6 : e.likelySoon <;> cases h7 : e.parentRecent <;>
    simp_all [fireState, specFireState, pendOf, Sup.hasState, releaseNow, differs, imminent_eq_likelySoon]

theorem fire_flap_spec (s : St) (e : FEnv) (sp : SpecSt)
    (hs : sp.state = s.core.state)
    (hf : sp.flapPending = flapOf s.sup.flapStart s.sup.flapEnd)
    (hx : (s.sup.flapStart && s.sup.flapEnd) = false) :
    let fs := if e.paused || !e.enabled then (false, []) else fireFlapOne e s.core.state s.sup.flapStart e.isFlapping .flapStart
    let fe := if e.paused || !e.enabled then (false, []) else fireFlapOne e s.core.state s.sup.flapEnd (!e.isFlapping) .flapEnd
    let o := specFireFlap sp e (fs.2 ++ fe.2)
    o.1 = none ∧ o.2 = flapOf (s.sup.flapStart && !fs.1) (s.sup.flapEnd && !fe.1) := by
  obtain ⟨core, ⟨p, r, s3, s4⟩, sbs⟩ := s
  obtain ⟨sps, spt, spp, spf⟩ := sp
  simp only at hs hf hx
  subst hs hf
  cases s3 <;> cases s4 <;> cases h1 : e.paused <;> cases h2 : e.enabled <;> cases h4 : e.inDowntime <;>
    cases h5 : e.isFlapping <;> cases h6 : e.likelySoon <;> cases h7 : e.parentRecent <;>
    simp_all [fireFlapOne, specFireFlap, flapOf, imminent_eq_likelySoon]

end Icinga.C02

/-
  C06 — helper definitions and lemmas for IcingaProofs/C06.lean: closed forms of one operation followed by the
  look (`step_ack`, `step_remove`, `step_advance`, `step_result`, `step_result_stale`), the relation between the
  specification's bookkeeping and the model state, the step lemma and the induction over the history, and the
  event balance.
-/
import IcingaModel.C06.Model
import IcingaModel.C06.Spec
import IcingaProofs.C01.Lemmas

set_option linter.unusedSimpArgs false
set_option linter.unusedVariables false

namespace Icinga.C06
open Icinga.C01

def ackNow (s : MSt) (now : Int) : Ack := if expired s now then .none else s.ack

theorem expired_ack_ne (s : MSt) (now : Int) (h : expired s now = true) : s.ack ≠ .none := by
  intro h'; simp [expired, h'] at h

theorem getAck_of_expired (s : MSt) (now : Int) (h : expired s now = true) :
    getAck s now = ({ s with ack := .none, expiry := 0 }, 1) := by
  have := expired_ack_ne s now h
  simp [getAck, h, clearAck, this]

theorem getAck_of_not_expired (s : MSt) (now : Int) (h : expired s now = false) :
    getAck s now = (s, 0) := by
  simp [getAck, h]

theorem not_expired_of_none (s : MSt) (now : Int) (h : s.ack = .none) : expired s now = false := by
  simp [expired, h]

theorem expired_mk (b : St) (a : Ack) (e : Int) (cm : List Cmt) (sp sr dt pa : Bool) (sb : SState) (now : Int) :
    expired ⟨b, a, e, cm, sp, sr, dt, pa, sb⟩ now = (a != .none && e != 0 && decide (e < now)) := rfl

theorem getAck_mk (b : St) (a : Ack) (e : Int) (cm : List Cmt) (sp sr dt pa : Bool) (sb : SState) (now : Int) :
    getAck ⟨b, a, e, cm, sp, sr, dt, pa, sb⟩ now =
      if (a != .none && e != 0 && decide (e < now)) then (⟨b, .none, 0, cm, sp, sr, dt, pa, sb⟩, 1)
      else (⟨b, a, e, cm, sp, sr, dt, pa, sb⟩, 0) := by
  cases h : (a != .none && e != 0 && decide (e < now))
  · rw [getAck_of_not_expired _ _ (by rw [expired_mk]; exact h)]; simp
  · rw [getAck_of_expired _ _ (by rw [expired_mk]; exact h)]; simp

theorem resultAck_eq (c : Cfg) (s : MSt) (new : SState) (now : Int) :
    resultAck c s new now =
      if stateChange c.kind s.base.state new && clearsOnChange c.kind (ackNow s now) new then
        ({ s with ack := .none, expiry := 0 }, (if expired s now then 1 else 0) + (ackNow s now).ind)
      else if expired s now then ({ s with ack := .none, expiry := 0 }, 1) else (s, 0) := by
  cases hsc : stateChange c.kind s.base.state new <;> cases he : expired s now
  · simp [resultAck, hsc, getAck_of_not_expired, he]
  · simp [resultAck, hsc, getAck_of_expired, he]
  · cases hcl : clearsOnChange c.kind s.ack new
    · simp [resultAck, hsc, getAck_of_not_expired, he, ackNow, hcl]
    · simp [resultAck, hsc, getAck_of_not_expired, he, ackNow, hcl, clearAck, not_expired_of_none]
      cases hs : s.ack <;> simp_all [Ack.ind, clearsOnChange]
  · have hn : expired { s with ack := Ack.none, expiry := 0 } now = false := not_expired_of_none _ _ rfl
    simp [resultAck, hsc, getAck_of_expired, he, ackNow, clearsOnChange, getAck_of_not_expired, hn]

/-- Closed form of an acknowledge operation followed by the look. -/
theorem step_ack (c : Cfg) (s : MSt) (via : Via) (sticky notify persistent : Bool) (expiry now : Int) :
    step c s (.ack via sticky notify persistent expiry now) =
      if preRefuse c s via expiry now || ackNow s now != .none then
        ((getAck s now).1, { acc := false, nClr := (getAck s now).2,
                             raw := if preRefuse c s via expiry now then s.ack else ackNow s now })
      else
        let e := storedExpiry via expiry
        let gone := e != 0 && decide (e < now)
        (⟨s.base, if gone then .none else ackTypeOf sticky, if gone then 0 else e,
          if addsComment via then insertCmt ⟨now, persistent, commentExpire via expiry⟩ s.comments else s.comments,
          s.suppProblem, s.suppRecovery, s.inDowntime, s.paused, s.stateBefore⟩,
         { acc := true, nSet := 1, nClr := (if expired s now then 1 else 0) + (if gone then 1 else 0),
           nAckN := if notify && !s.paused then 1 else 0, raw := ackTypeOf sticky }) := by
  cases hp : preRefuse c s via expiry now
  · cases he : expired s now
    · cases ha : s.ack
      · by_cases hg : (¬ storedExpiry via expiry = 0 ∧ storedExpiry via expiry < now) <;> cases sticky <;>
          simp [step, opStep, ackStep, hp, getAck_of_not_expired, he, ha, ackNow, getAck_mk, Op.now, ackTypeOf, hg]
      · simp [step, opStep, ackStep, hp, getAck_of_not_expired, he, ha, ackNow, Op.now]
      · simp [step, opStep, ackStep, hp, getAck_of_not_expired, he, ha, ackNow, Op.now]
    · by_cases hg : (¬ storedExpiry via expiry = 0 ∧ storedExpiry via expiry < now) <;> cases sticky <;>
        simp [step, opStep, ackStep, hp, getAck_of_expired, he, ackNow, getAck_mk, Op.now, ackTypeOf, hg]
  · simp [step, opStep, ackStep, hp, Op.now]

/-- Closed form of a remove-acknowledgement followed by the look. -/
theorem step_remove (c : Cfg) (s : MSt) (via : RVia) (now : Int) :
    step c s (.remove via now) =
      (⟨s.base, .none, 0, if via != .cluster then s.comments.filter (·.persistent) else s.comments, s.suppProblem,
         s.suppRecovery, s.inDowntime, s.paused, s.stateBefore⟩,
       { acc := true, nClr := s.ack.ind, raw := .none }) := by
  cases ha : s.ack <;> simp [step, opStep, removeStep, clearAck, getAck_mk, Op.now, ha, Ack.ind]

theorem step_advance (c : Cfg) (s : MSt) (now : Int) :
    step c s (.advance now) = ((getAck s now).1, { acc := true, nClr := (getAck s now).2, raw := s.ack }) := by
  simp [step, opStep, Op.now]

/-- The comments the comment-expiry timer leaves at `now`, given whether it ran. -/
def pumped (s : MSt) (now : Int) (fired : Bool) : MSt :=
  { s with comments := if fired then s.comments.filter (survivesExpiry now) else s.comments }

theorem step_pump (c : Cfg) (s : MSt) (now : Int) (fired : Bool) :
    step c s (.pump now fired) =
      ((getAck (pumped s now fired) now).1,
       { acc := true, nClr := (getAck (pumped s now fired) now).2, raw := s.ack }) := by
  simp [step, opStep, Op.now, pumped]

theorem step_downtime (c : Cfg) (s : MSt) (on : Bool) (now : Int) :
    step c s (.downtime on now) =
      ((getAck { s with inDowntime := on } now).1,
       { acc := true, nClr := (getAck { s with inDowntime := on } now).2, raw := s.ack }) := by
  simp [step, opStep, Op.now]

theorem step_pause (c : Cfg) (s : MSt) (on : Bool) (now : Int) :
    step c s (.pause on now) =
      ((getAck { s with paused := on } now).1,
       { acc := true, nClr := (getAck { s with paused := on } now).2, raw := s.ack }) := by
  simp [step, opStep, Op.now]

theorem getAck_idem (s : MSt) (now : Int) : getAck (getAck s now).1 now = ((getAck s now).1, 0) := by
  cases he : expired s now
  · simp [getAck_of_not_expired, he]
  · rw [getAck_of_expired _ _ he]
    exact getAck_of_not_expired _ _ (not_expired_of_none _ _ rfl)

theorem step_remind (c : Cfg) (s : MSt) (now : Int) :
    step c s (.remind now) =
      ((getAck s now).1,
       { acc := true, nClr := (getAck s now).2, raw := if remindable c s then (getAck s now).1.ack else s.ack,
         nRem := if remindable c s && (getAck s now).1.ack == .none then 1 else 0 }) := by
  cases hr : remindable c s
  · simp [step, opStep, remindStep, hr, Op.now]
  · simp [step, opStep, remindStep, hr, Op.now, getAck_idem]

theorem step_result_stale (c : Cfg) (s : MSt) (new : SState) (es ee now : Int)
    (h : stale s.base ⟨new, es, now⟩ = true) :
    step c s (.result new es ee now) = ((getAck s now).1, { acc := false, nClr := (getAck s now).2, raw := s.ack }) := by
  simp [step, opStep, h, Op.now]

/-- The acknowledgement after an accepted result, by the property's rule. -/
def ackAfterResult (c : Cfg) (s : MSt) (new : SState) (now : Int) : Ack :=
  if stateChange c.kind s.base.state new && clearsOnChange c.kind (ackNow s now) new then .none else ackNow s now

theorem step_result (c : Cfg) (s : MSt) (new : SState) (es ee now : Int)
    (h : stale s.base ⟨new, es, now⟩ = false) :
    step c s (.result new es ee now) =
      let a0 := ackNow s now
      let a1 := ackAfterResult c s new now
      let due := sendNotification c s.base new && !s.paused
      let recovery := isOK c.kind new && !isOK c.kind s.base.state
      let stash := due && (a1 != .none || s.inDowntime || s.suppProblem || s.suppRecovery)
      (⟨(stepCore c s.base ⟨new, es, now⟩).1, a1, if s.ack != .none && a1 == .none then 0 else s.expiry,
        if a1 == .none then s.comments.filter (keepsComment ee) else s.comments,
        s.suppProblem || (stash && !recovery), s.suppRecovery || (stash && recovery), s.inDowntime, s.paused,
        if stash && !(s.suppProblem || s.suppRecovery) then (if s.base.stype == .hard then s.base.state else .ok)
        else s.stateBefore⟩,
       { acc := true, nClr := (if expired s now then 1 else 0) + (if a0 != .none && a1 == .none then 1 else 0),
         nProbN := if due && !stash && !recovery then 1 else 0,
         nRecN := if due && !stash && recovery then 1 else 0, raw := a1 }) := by
  cases ha : s.ack
  · have he : expired s now = false := not_expired_of_none s now ha
    cases hsc : stateChange c.kind s.base.state new <;> cases hok : isOK c.kind new <;>
      simp [step, opStep, h, resultStep, resultAck_eq, Op.now, hsc, he, ha, hok, ackNow, ackAfterResult, clearsOnChange,
        getAck_mk, Ack.ind]
  all_goals
    by_cases hx : (¬ s.expiry = 0 ∧ s.expiry < now)
    · have he : expired s now = true := by simp [expired, ha, hx]
      cases hsc : stateChange c.kind s.base.state new <;> cases hok : isOK c.kind new <;>
        simp [step, opStep, h, resultStep, resultAck_eq, Op.now, hsc, he, ha, hok, ackNow, ackAfterResult, clearsOnChange,
          getAck_mk, Ack.ind]
    · have he : expired s now = false := by simp [expired, ha]; simpa using hx
      cases hsc : stateChange c.kind s.base.state new <;> cases hok : isOK c.kind new <;>
        simp [step, opStep, h, resultStep, resultAck_eq, Op.now, hsc, he, ha, hok, ackNow, ackAfterResult, clearsOnChange,
          getAck_mk, Ack.ind, hx]


/-! ## Specification bookkeeping vs. model state -/

def RelCore (sp : SpecSt) (s : MSt) : Prop :=
  sp.state = s.base.state ∧ sp.ack = s.ack ∧ (s.ack ≠ .none → sp.expiry = s.expiry) ∧ sp.comments = s.comments ∧
  sp.inDt = s.inDowntime ∧ sp.stype = s.base.stype ∧ sp.attempt = s.base.attempt ∧ sp.suppP = s.suppProblem ∧
  sp.suppR = s.suppRecovery ∧ sp.paused = s.paused

/-- The part of the relation a look depends on. -/
def RelA (sp : SpecSt) (s : MSt) : Prop :=
  sp.ack = s.ack ∧ (s.ack ≠ .none → sp.expiry = s.expiry) ∧ sp.suppP = s.suppProblem ∧ sp.suppR = s.suppRecovery

theorem RelCore.toA {sp : SpecSt} {s : MSt} (h : RelCore sp s) : RelA sp s :=
  ⟨h.2.1, h.2.2.1, h.2.2.2.2.2.2.2.1, h.2.2.2.2.2.2.2.2.1⟩

theorem ranOut_eqA (sp : SpecSt) (s : MSt) (now : Int) (h : RelA sp s) : ranOut sp now = expired s now := by
  obtain ⟨h2, h3, _, _⟩ := h
  unfold ranOut expired
  rw [h2]
  by_cases ha : s.ack = .none
  · simp [ha]
  · rw [h3 ha]

theorem ranOut_eq (sp : SpecSt) (s : MSt) (now : Int) (h : RelCore sp s) : ranOut sp now = expired s now :=
  ranOut_eqA sp s now h.toA

theorem ackAt_eqA (sp : SpecSt) (s : MSt) (now : Int) (h : RelA sp s) : ackAt sp now = ackNow s now := by
  simp [ackAt, ackNow, ranOut_eqA sp s now h, h.1]

theorem ackAt_eq (sp : SpecSt) (s : MSt) (now : Int) (h : RelCore sp s) : ackAt sp now = ackNow s now :=
  ackAt_eqA sp s now h.toA

theorem getAck_ack (s : MSt) (now : Int) : (getAck s now).1.ack = ackNow s now := by
  cases he : expired s now <;> simp [getAck_of_not_expired, getAck_of_expired, he, ackNow]

theorem getAck_cnt (s : MSt) (now : Int) : (getAck s now).2 = if expired s now then 1 else 0 := by
  cases he : expired s now <;> simp [getAck_of_not_expired, getAck_of_expired, he]

theorem getAck_rest (s : MSt) (now : Int) :
    (getAck s now).1.base = s.base ∧ (getAck s now).1.comments = s.comments ∧
    (getAck s now).1.inDowntime = s.inDowntime ∧ (getAck s now).1.suppProblem = s.suppProblem ∧
    (getAck s now).1.suppRecovery = s.suppRecovery ∧ (getAck s now).1.paused = s.paused ∧
    (getAck s now).1.stateBefore = s.stateBefore := by
  cases he : expired s now <;> simp [getAck_of_not_expired, getAck_of_expired, he]

theorem getAck_expiry (s : MSt) (now : Int) :
    (getAck s now).1.expiry = if expired s now then 0 else s.expiry := by
  cases he : expired s now <;> simp [getAck_of_not_expired, getAck_of_expired, he]

theorem first_append (l₁ l₂ : List (Bool × Clause)) (h₁ : first l₁ = none) (h₂ : first l₂ = none) :
    first (l₁ ++ l₂) = none := by
  induction l₁ with
  | nil => simpa using h₂
  | cons x xs ih =>
    obtain ⟨b, cl⟩ := x
    cases b
    · simp only [first, Bool.false_eq_true, if_false, List.cons_append] at h₁ ⊢
      exact ih h₁
    · simp [first] at h₁

/-- The observation of a look: the state `s'` the operation left, looked at at `now`. -/
def lookObs (c : Cfg) (s' : MSt) (now : Int) (acc : Bool) (raw : Ack) (rem : Nat := 0) : Obs :=
  obsOf c ((getAck s' now).1, { acc := acc, nClr := (getAck s' now).2, raw := raw, nRem := rem })

/-- The clauses of a look at which nothing but the lazy expiry can happen (advance, dropped result, refused
    acknowledge, pump, downtime, pause), for a state `s'` that the bookkeeping `sp` describes as far as a look goes. -/
theorem look_clauses (c : Cfg) (sp : SpecSt) (s' : MSt) (op : Op) (acc : Bool) (raw : Ack) (inDt : Bool) (cl : Clause)
    (h : RelA sp s') (hd : inDt = s'.inDowntime) (hraw : raw = s'.ack ∨ raw = ackNow s' op.now)
    (rem : Nat := 0) (hrem : rem = 0 ∨ ackNow s' op.now = .none := by exact Or.inl rfl)
    (hexp : expiryAfter sp op (lookObs c s' op.now acc raw rem) = if ackNow s' op.now == .none then 0 else sp.expiry) :
    first (lookChecks sp op inDt cl (lookObs c s' op.now acc raw rem)) = none := by
  have hr := ranOut_eqA sp s' op.now h
  have ha := ackAt_eqA sp s' op.now h
  obtain ⟨h2, h3, h4, h5⟩ := h
  simp only [lookChecks, lookCore, common, quiet, hexp]
  simp only [lookObs, obsOf, getAck_ack, getAck_cnt, getAck_rest, getAck_expiry, handledOf, sevAckOf, problemOf, ha, hr,
    hd, h2, h4, h5]
  cases he : expired s' op.now
  · have hn : ackNow s' op.now = s'.ack := by simp [ackNow, he]
    by_cases hk : s'.ack = .none
    · rcases hraw with hraw | hraw <;> simp [first, hn, hk, hraw]
    · have hrem0 : rem = 0 := by
        rcases hrem with hrem | hrem
        · exact hrem
        · exact absurd (hn ▸ hrem) hk
      rcases hraw with hraw | hraw <;> simp [first, hn, hk, hraw, h3 hk, hrem0]
  · have hn : ackNow s' op.now = .none := by simp [ackNow, he]
    rcases hraw with hraw | hraw <;> simp [first, hn, hraw]

/-- The relation after a look. -/
theorem rel_after_look (c : Cfg) (sp : SpecSt) (s' : MSt) (now : Int) (acc : Bool) (raw : Ack) (inDt paused : Bool)
    (e : Int) (rem : Nat) (h2 : sp.ack = s'.ack) (h3 : s'.ack ≠ .none → sp.expiry = s'.expiry) (hd : inDt = s'.inDowntime)
    (hp : paused = s'.paused) (he : e = if ackNow s' now == .none then 0 else sp.expiry) (bf : SState := sp.before) :
    RelCore { state := (lookObs c s' now acc raw rem).state, ack := (lookObs c s' now acc raw rem).ack,
              comments := (lookObs c s' now acc raw rem).comments, inDt := inDt, expiry := e,
              stype := (lookObs c s' now acc raw rem).stype, attempt := (lookObs c s' now acc raw rem).attempt,
              suppP := (lookObs c s' now acc raw rem).suppP, suppR := (lookObs c s' now acc raw rem).suppR, paused := paused,
              before := bf }
      (getAck s' now).1 := by
  subst he
  cases hx : expired s' now
  · simp [lookObs, obsOf, RelCore, getAck_of_not_expired, hx, hd, hp, ackNow]
    intro hk; simp [hk, h3 hk]
  · simp [lookObs, obsOf, RelCore, getAck_of_expired, hx, hd, hp, ackNow]

theorem spec_step_advance (c : Cfg) (sp : SpecSt) (s : MSt) (now : Int) (h : RelCore sp s) :
    specStep c sp (.advance now) (obsOf c (step c s (.advance now))) = none ∧
    RelCore (specNext sp (.advance now) (obsOf c (step c s (.advance now)))) (step c s (.advance now)).1 := by
  rw [step_advance]
  have hexp : expiryAfter sp (.advance now) (lookObs c s now true s.ack) = if ackNow s now == .none then 0 else sp.expiry := by
    simp [expiryAfter, lookObs, obsOf, getAck_ack]
  refine ⟨?_, ?_⟩
  · refine first_append _ _ (look_clauses c sp s (.advance now) true s.ack sp.inDt .ackFrame h.toA h.2.2.2.2.1 (Or.inl rfl) (hexp := hexp)) ?_
    simp [first, obsOf, getAck_rest, h.2.2.2.1]
  · have := rel_after_look c sp s now true s.ack sp.inDt sp.paused _ 0 h.2.1 h.2.2.1 h.2.2.2.2.1 h.2.2.2.2.2.2.2.2.2 hexp
    simpa [specNext, lookObs] using this

theorem spec_step_stale (c : Cfg) (sp : SpecSt) (s : MSt) (new : SState) (es ee now : Int) (h : RelCore sp s)
    (hst : stale s.base ⟨new, es, now⟩ = true) :
    specStep c sp (.result new es ee now) (obsOf c (step c s (.result new es ee now))) = none ∧
    RelCore (specNext sp (.result new es ee now) (obsOf c (step c s (.result new es ee now)))) (step c s (.result new es ee now)).1 := by
  rw [step_result_stale c s new es ee now hst]
  have hexp : expiryAfter sp (.result new es ee now) (lookObs c s now false s.ack) =
      if ackNow s now == .none then 0 else sp.expiry := by
    simp [expiryAfter, lookObs, obsOf, getAck_ack]
  refine ⟨?_, ?_⟩
  · have hacc : (obsOf c ((getAck s now).1, ({ acc := false, nClr := (getAck s now).2, raw := s.ack } : Out))).acc = false := rfl
    simp only [specStep, hacc, Bool.false_eq_true, if_false]
    refine first_append _ _ (look_clauses c sp s (.result new es ee now) false s.ack sp.inDt .unchangedKeeps h.toA h.2.2.2.2.1
      (Or.inl rfl) (hexp := hexp)) ?_
    simp [first, obsOf, getAck_rest, h.2.2.2.1]
  · have := rel_after_look c sp s now false s.ack sp.inDt sp.paused _ 0 h.2.1 h.2.2.1 h.2.2.2.2.1 h.2.2.2.2.2.2.2.2.2 hexp
    simpa [specNext, lookObs, obsOf] using this

theorem filter_idem_or (l : List Cmt) (p : Cmt → Bool) (fired : Bool) :
    ((if fired then l.filter p else l) = l ∨ (if fired then l.filter p else l) = l.filter p) := by
  cases fired <;> simp

theorem spec_step_pump (c : Cfg) (sp : SpecSt) (s : MSt) (now : Int) (fired : Bool) (h : RelCore sp s) :
    specStep c sp (.pump now fired) (obsOf c (step c s (.pump now fired))) = none ∧
    RelCore (specNext sp (.pump now fired) (obsOf c (step c s (.pump now fired)))) (step c s (.pump now fired)).1 := by
  rw [step_pump]
  have hA : RelA sp (pumped s now fired) := h.toA
  have hexp : expiryAfter sp (.pump now fired) (lookObs c (pumped s now fired) now true s.ack) =
      if ackNow (pumped s now fired) now == .none then 0 else sp.expiry := by
    simp [expiryAfter, lookObs, obsOf, getAck_ack]
  refine ⟨?_, ?_⟩
  · refine first_append _ _ (look_clauses c sp (pumped s now fired) (.pump now fired) true s.ack sp.inDt .ackFrame hA
      h.2.2.2.2.1 (Or.inl rfl) (hexp := hexp)) ?_
    cases fired <;> simp [first, obsOf, getAck_rest, pumped, h.2.2.2.1]
  · have := rel_after_look c sp (pumped s now fired) now true s.ack sp.inDt sp.paused _ 0 h.2.1 h.2.2.1 h.2.2.2.2.1
      h.2.2.2.2.2.2.2.2.2 hexp
    simpa [specNext, lookObs] using this

theorem spec_step_downtime (c : Cfg) (sp : SpecSt) (s : MSt) (on : Bool) (now : Int) (h : RelCore sp s) :
    specStep c sp (.downtime on now) (obsOf c (step c s (.downtime on now))) = none ∧
    RelCore (specNext sp (.downtime on now) (obsOf c (step c s (.downtime on now)))) (step c s (.downtime on now)).1 := by
  rw [step_downtime]
  have hA : RelA sp { s with inDowntime := on } := h.toA
  have hexp : expiryAfter sp (.downtime on now) (lookObs c { s with inDowntime := on } now true s.ack) =
      if ackNow { s with inDowntime := on } now == .none then 0 else sp.expiry := by
    simp [expiryAfter, lookObs, obsOf, getAck_ack]
  refine ⟨?_, ?_⟩
  · refine first_append _ _ (look_clauses c sp { s with inDowntime := on } (.downtime on now) true s.ack on .ackFrame hA
      rfl (Or.inl rfl) (hexp := hexp)) ?_
    simp [first, obsOf, getAck_rest, h.2.2.2.1]
  · have := rel_after_look c sp { s with inDowntime := on } now true s.ack on sp.paused _ 0 h.2.1 h.2.2.1 rfl
      h.2.2.2.2.2.2.2.2.2 hexp
    simpa [specNext, lookObs] using this

theorem spec_step_pause (c : Cfg) (sp : SpecSt) (s : MSt) (on : Bool) (now : Int) (h : RelCore sp s) :
    specStep c sp (.pause on now) (obsOf c (step c s (.pause on now))) = none ∧
    RelCore (specNext sp (.pause on now) (obsOf c (step c s (.pause on now)))) (step c s (.pause on now)).1 := by
  rw [step_pause]
  have hA : RelA sp { s with paused := on } := h.toA
  have hexp : expiryAfter sp (.pause on now) (lookObs c { s with paused := on } now true s.ack) =
      if ackNow { s with paused := on } now == .none then 0 else sp.expiry := by
    simp [expiryAfter, lookObs, obsOf, getAck_ack]
  refine ⟨?_, ?_⟩
  · refine first_append _ _ (look_clauses c sp { s with paused := on } (.pause on now) true s.ack sp.inDt .ackFrame hA
      h.2.2.2.2.1 (Or.inl rfl) (hexp := hexp)) ?_
    simp [first, obsOf, getAck_rest, h.2.2.2.1]
  · have := rel_after_look c sp { s with paused := on } now true s.ack sp.inDt on _ 0 h.2.1 h.2.2.1 h.2.2.2.2.1 rfl hexp
    simpa [specNext, lookObs] using this

theorem spec_step_remind (c : Cfg) (sp : SpecSt) (s : MSt) (now : Int) (h : RelCore sp s) :
    specStep c sp (.remind now) (obsOf c (step c s (.remind now))) = none ∧
    RelCore (specNext sp (.remind now) (obsOf c (step c s (.remind now)))) (step c s (.remind now)).1 := by
  rw [step_remind]
  let raw : Ack := if remindable c s then (getAck s now).1.ack else s.ack
  let rem : Nat := if remindable c s && (getAck s now).1.ack == .none then 1 else 0
  have hraw : raw = s.ack ∨ raw = ackNow s (Op.remind now).now := by
    cases hr : remindable c s <;> simp [raw, hr, Op.now, getAck_ack]
  have hrem : rem = 0 ∨ ackNow s (Op.remind now).now = .none := by
    cases hr : remindable c s
    · left; simp [rem, hr]
    · by_cases hk : ackNow s now = .none
      · right; simpa [Op.now] using hk
      · left; simp [rem, hr, getAck_ack, hk]
  have hexp : expiryAfter sp (.remind now) (lookObs c s now true raw rem) = if ackNow s now == .none then 0 else sp.expiry := by
    simp [expiryAfter, lookObs, obsOf, getAck_ack]
  refine ⟨?_, ?_⟩
  · refine first_append _ _ (look_clauses c sp s (.remind now) true raw sp.inDt .ackFrame h.toA h.2.2.2.2.1 hraw rem hrem hexp) ?_
    obtain ⟨h1, h2, h3, h4, h5, h6, h7, h8, h9, h10⟩ := h
    simp [first, obsOf, getAck_rest, getAck_ack, h4, h1, h5, h6, h8, remindable]
  · have := rel_after_look c sp s now true raw sp.inDt sp.paused _ rem h.2.1 h.2.2.1 h.2.2.2.2.1 h.2.2.2.2.2.2.2.2.2 hexp
    simpa [specNext, lookObs, raw, rem] using this

theorem spec_step_remove (c : Cfg) (sp : SpecSt) (s : MSt) (via : RVia) (now : Int) (h : RelCore sp s) :
    specStep c sp (.remove via now) (obsOf c (step c s (.remove via now))) = none ∧
    RelCore (specNext sp (.remove via now) (obsOf c (step c s (.remove via now)))) (step c s (.remove via now)).1 := by
  obtain ⟨h1, h2, h3, h4, h5, h6, h7, h8, h9, h10⟩ := h
  rw [step_remove]
  refine ⟨?_, ?_⟩
  · cases ha : s.ack <;> cases via <;>
      simp [specStep, obsOf, first, common, quiet, handledOf, sevAckOf, h2, h4, h5, h8, h9, ha, Ack.ind]
  · simp [specNext, obsOf, RelCore, h5, h8, h9, h10, expiryAfter]

theorem spec_step_ack (c : Cfg) (sp : SpecSt) (s : MSt) (via : Via) (sticky notify persistent : Bool) (expiry now : Int)
    (h : RelCore sp s) :
    specStep c sp (.ack via sticky notify persistent expiry now) (obsOf c (step c s (.ack via sticky notify persistent expiry now))) = none ∧
    RelCore (specNext sp (.ack via sticky notify persistent expiry now) (obsOf c (step c s (.ack via sticky notify persistent expiry now))))
      (step c s (.ack via sticky notify persistent expiry now)).1 := by
  have hr := ranOut_eq sp s now h
  have ha := ackAt_eq sp s now h
  have hd : sp.inDt = s.inDowntime := h.2.2.2.2.1
  have hreq : requestedExpiry via expiry = storedExpiry via expiry := by
    cases via <;> simp [requestedExpiry, storedExpiry]
  have hcme : commentExpire via expiry = storedExpiry via expiry := by
    cases via <;> simp [commentExpire, storedExpiry]
  rw [step_ack]
  cases hc : (preRefuse c s via expiry now || ackNow s now != .none)
  · -- accepted
    obtain ⟨h1, h2, h3, h4, h5, h6, h7, h8, h9, h10⟩ := h
    simp only [Bool.or_eq_false_iff] at hc
    obtain ⟨hp, hn⟩ := hc
    have hn' : ackNow s now = .none := by simpa using hn
    have hnotok : (via != .cluster && isOK c.kind sp.state) = false := by
      rw [h1]
      cases via <;> simp_all [preRefuse, stateOK]
    by_cases hg : (¬ storedExpiry via expiry = 0 ∧ storedExpiry via expiry < now)
    · refine ⟨?_, ?_⟩
      · cases sticky <;> cases notify <;> cases hpa : s.paused <;> cases via <;>
          simp [specStep, obsOf, first, common, quiet, Op.now, ha, hr, hn', hreq, hcme, hg, handledOf, sevAckOf, hnotok,
            ackTypeOf, hd, h4, h8, h9, h10, hpa, addsComment] <;> simp_all [storedExpiry]
      · simp [specNext, obsOf, RelCore, hg, hd, h6, h7, h8, h9, h10, expiryAfter]
    · refine ⟨?_, ?_⟩
      · cases sticky <;> cases notify <;> cases hpa : s.paused <;> cases via <;>
          simp [specStep, obsOf, first, common, quiet, Op.now, ha, hr, hn', hreq, hcme, hg, handledOf, sevAckOf, hnotok,
            ackTypeOf, hd, h4, h8, h9, h10, hpa, addsComment, expiryAfter] <;> simp_all [storedExpiry]
      · cases sticky <;> simp [specNext, obsOf, RelCore, hg, hreq, ackTypeOf, hd, h6, h7, h8, h9, h10, expiryAfter]
  · -- refused
    let raw : Ack := if preRefuse c s via expiry now then s.ack else ackNow s now
    have hraw : raw = s.ack ∨ raw = ackNow s (Op.ack via sticky notify persistent expiry now).now := by
      cases hp : preRefuse c s via expiry now <;> simp [raw, hp, Op.now]
    have hexp : expiryAfter sp (.ack via sticky notify persistent expiry now) (lookObs c s now false raw) =
        if ackNow s now == .none then 0 else sp.expiry := by
      simp [expiryAfter, lookObs, obsOf, getAck_ack]
    rw [if_pos rfl]
    refine ⟨?_, ?_⟩
    · simp only [specStep]
      rw [if_neg (by simp [obsOf])]
      refine first_append _ _ (first_append [_] _ ?_ (look_clauses c sp s (.ack via sticky notify persistent expiry now) false raw
        sp.inDt .ackFrame h.toA hd hraw (hexp := hexp))) ?_
      · -- the refusal has a reason
        simp only [Op.now]
        rw [ha, h.1]
        simp only [Bool.or_eq_true] at hc
        rcases hc with hc | hc
        · cases via <;> simp_all [first, preRefuse, stateOK] <;>
            (intro h1 _; rcases hc with hc | hc <;> simp_all)
        · simp [first, hc]
      · simp [first, obsOf, getAck_rest, h.2.2.2.1]
    · have := rel_after_look c sp s now false raw sp.inDt sp.paused _ 0 h.2.1 h.2.2.1 hd h.2.2.2.2.2.2.2.2.2 hexp
      simpa [specNext, lookObs] using this

theorem changed_eq (c : Cfg) (a b : SState) : changed c a b = stateChange c.kind a b := by
  simp [changed, stateChange_eq_proj]

theorem stepCore_state (c : Cfg) (b : St) (r : Res) :
    (stepCore c b r).1.state = r.state ∧ (stepCore c b r).1.lastExec = some r.execStart := by
  simp [stepCore]

theorem notificationDue_eq (c : Cfg) (sp : SpecSt) (s : MSt) (new : SState) (h : RelCore sp s) :
    notificationDue c sp new = sendNotification c s.base new := by
  obtain ⟨h1, _, _, _, _, h6, h7, _⟩ := h
  simp [notificationDue, sendNotification, nextTypeAttempt, hardChangeOf, h1, h6, h7]

theorem spec_step_result (c : Cfg) (sp : SpecSt) (s : MSt) (new : SState) (es ee now : Int) (h : RelCore sp s)
    (hst : stale s.base ⟨new, es, now⟩ = false) :
    specStep c sp (.result new es ee now) (obsOf c (step c s (.result new es ee now))) = none ∧
    RelCore (specNext sp (.result new es ee now) (obsOf c (step c s (.result new es ee now)))) (step c s (.result new es ee now)).1 := by
  have hr := ranOut_eq sp s now h
  have ha := ackAt_eq sp s now h
  have hdue := notificationDue_eq c sp s new h
  obtain ⟨h1, h2, h3, h4, h5, h6, h7, h8, h9, h10⟩ := h
  rw [step_result c s new es ee now hst]
  have hch : changed c sp.state new = stateChange c.kind s.base.state new := by rw [h1, changed_eq]
  refine ⟨?_, ?_⟩
  · simp only [specStep]
    rw [if_pos (by simp [obsOf])]
    refine first_append _ _ (first_append _ _ ?_ ?_) ?_
    · -- the clearing rules
      cases hs : s.ack
      · have he : expired s now = false := not_expired_of_none s now hs
        cases hsc : stateChange c.kind s.base.state new <;> cases hok : isOK c.kind new <;>
          simp [obsOf, first, Op.now, ha, hr, he, hch, hsc, hok, hs, ackNow, ackAfterResult, clearsOnChange, problemOf,
            stepCore_state]
      all_goals
        cases he : expired s now <;> cases hsc : stateChange c.kind s.base.state new <;> cases hok : isOK c.kind new <;>
          simp [obsOf, first, Op.now, ha, hr, he, hch, hsc, hok, hs, ackNow, ackAfterResult, clearsOnChange, problemOf,
            stepCore_state]
    · -- events, handled, severity, stored expiry
      cases hs : s.ack
      · have he : expired s now = false := not_expired_of_none s now hs
        cases hsc : stateChange c.kind s.base.state new <;> cases hok : isOK c.kind new <;>
          simp [obsOf, first, common, Op.now, ha, hr, he, hch, hsc, hok, hs, h5, ackNow, ackAfterResult, clearsOnChange,
            handledOf, sevAckOf, problemOf, stepCore_state, expiryAfter]
      all_goals
        have h3' : sp.expiry = s.expiry := h3 (by simp [hs])
        cases he : expired s now <;> cases hsc : stateChange c.kind s.base.state new <;> cases hok : isOK c.kind new <;>
          simp [obsOf, first, common, Op.now, ha, hr, he, hch, hsc, hok, hs, h5, ackNow, ackAfterResult, clearsOnChange,
            handledOf, sevAckOf, problemOf, stepCore_state, expiryAfter, h3']
    · -- the state notification: requested, or withheld and stashed; the comments
      simp only [obsOf, hdue, h1, h4, h5, h8, h9, h10]
      generalize ackAfterResult c s new now = a1
      generalize sendNotification c s.base new = sn
      generalize isOK c.kind new = okn
      generalize isOK c.kind s.base.state = oko
      generalize s.paused = pa
      generalize s.inDowntime = dt
      generalize s.suppProblem = pP
      generalize s.suppRecovery = pR
      cases a1 <;> cases sn <;> cases okn <;> cases oko <;> cases pa <;> cases dt <;> cases pP <;> cases pR <;>
        simp [first]
  · cases hs : s.ack
    · have he : expired s now = false := not_expired_of_none s now hs
      cases hsc : stateChange c.kind s.base.state new <;> cases hok : isOK c.kind new <;>
        simp [specNext, obsOf, RelCore, he, hsc, hok, hs, ackNow, ackAfterResult, clearsOnChange, stepCore_state, h4, h5, h8, h9,
          h10, expiryAfter, stepCore]
    all_goals
      have h3' : sp.expiry = s.expiry := h3 (by simp [hs])
      cases he : expired s now <;> cases hsc : stateChange c.kind s.base.state new <;> cases hok : isOK c.kind new <;>
        simp [specNext, obsOf, RelCore, he, hsc, hok, hs, ackNow, ackAfterResult, clearsOnChange, stepCore_state, h4, h5, h8, h9,
          h10, expiryAfter, stepCore, h3']



/-! ## The suppressed-notification handler -/

/-- The stash is processed at this run. -/
def fireRelease (s : MSt) (now : Int) : Bool :=
  fireConsiders s && !s.inDowntime && ackNow s now == .none && s.base.stype == .hard

/-- Closed form of a run of `FireSuppressedNotifications` followed by the look. -/
theorem step_fire (c : Cfg) (s : MSt) (now : Int) :
    step c s (.fire now) =
      let rel := fireRelease s now
      let owed := rel && stateChange c.kind s.stateBefore s.base.state
      let recovery := isOK c.kind s.base.state
      (⟨s.base, ackNow s now, if expired s now then 0 else s.expiry, s.comments, s.suppProblem && !rel, s.suppRecovery && !rel,
        s.inDowntime, s.paused, s.stateBefore⟩,
       { acc := true, nClr := if expired s now then 1 else 0,
         raw := if fireConsiders s && !s.inDowntime then ackNow s now else s.ack,
         nProbN := if owed && !recovery then 1 else 0, nRecN := if owed && recovery then 1 else 0 }) := by
  obtain ⟨b, a, e, cm, sp, sr, dt, pa, sb⟩ := s
  by_cases hx : (¬ e = 0 ∧ e < now) <;> cases hs : b.stype <;> cases a <;> cases sp <;> cases sr <;> cases dt <;> cases pa <;>
    simp [step, opStep, fireStep, fireRelease, fireConsiders, Op.now, ackNow, getAck_mk, expired_mk, hx, hs]

theorem spec_step_fire (c : Cfg) (sp : SpecSt) (s : MSt) (now : Int) (h : RelCore sp s) (hb : sp.before = s.stateBefore) :
    specStep c sp (.fire now) (obsOf c (step c s (.fire now))) = none ∧
    RelCore (specNext sp (.fire now) (obsOf c (step c s (.fire now)))) (step c s (.fire now)).1 := by
  have hr := ranOut_eq sp s now h
  have ha := ackAt_eq sp s now h
  obtain ⟨h1, h2, h3, h4, h5, h6, h7, h8, h9, h10⟩ := h
  have hch : changed c sp.before s.base.state = stateChange c.kind s.stateBefore s.base.state := by rw [hb, changed_eq]
  rw [step_fire]
  refine ⟨?_, ?_⟩
  · cases hs : s.ack
    · have he : expired s now = false := not_expired_of_none s now hs
      cases hP : s.suppProblem <;> cases hR : s.suppRecovery <;> cases hpa : s.paused <;> cases hdt : s.inDowntime <;>
        cases hst : s.base.stype <;> cases hdf : stateChange c.kind s.stateBefore s.base.state <;>
        cases hok : isOK c.kind s.base.state <;>
        simp [specStep, lookCore, common, first, obsOf, Op.now, ha, hr, he, hs, hch, ackNow, fireRelease, fireConsiders,
          handledOf, sevAckOf, problemOf, expiryAfter, h1, h2, h4, h5, h6, h8, h9, h10, hP, hR, hpa, hdt, hst, hdf, hok]
    all_goals
      have h3' : sp.expiry = s.expiry := h3 (by simp [hs])
      cases he : expired s now <;>
      cases hP : s.suppProblem <;> cases hR : s.suppRecovery <;> cases hpa : s.paused <;> cases hdt : s.inDowntime <;>
        cases hst : s.base.stype <;> cases hdf : stateChange c.kind s.stateBefore s.base.state <;>
        cases hok : isOK c.kind s.base.state <;>
        simp [specStep, lookCore, common, first, obsOf, Op.now, ha, hr, he, hs, hch, ackNow, fireRelease, fireConsiders,
          handledOf, sevAckOf, problemOf, expiryAfter, h1, h2, h4, h5, h6, h8, h9, h10, hP, hR, hpa, hdt, hst, hdf, hok, h3']
  · cases hs : s.ack
    · have he : expired s now = false := not_expired_of_none s now hs
      simp [specNext, obsOf, RelCore, he, hs, ackNow, h1, h4, h5, h6, h7, h8, h9, h10, expiryAfter]
    all_goals
      have h3' : sp.expiry = s.expiry := h3 (by simp [hs])
      cases he : expired s now <;>
        simp [specNext, obsOf, RelCore, he, hs, ackNow, h1, h4, h5, h6, h7, h8, h9, h10, expiryAfter, h3']

/-- The full relation: the core and the remembered state before the suppression. -/
def Rel (sp : SpecSt) (s : MSt) : Prop := RelCore sp s ∧ sp.before = s.stateBefore

/-- The bookkeeping's "state before the suppression" follows the model's `state_before_suppression`. -/
theorem before_step (c : Cfg) (sp : SpecSt) (s : MSt) (op : Op) (h : RelCore sp s) (hb : sp.before = s.stateBefore) :
    (specNext sp op (obsOf c (step c s op))).before = (step c s op).1.stateBefore := by
  cases op with
  | result new es ee now =>
    cases hst : stale s.base ⟨new, es, now⟩
    · have hdue := notificationDue_eq c sp s new h
      obtain ⟨h1, h2, h3, h4, h5, h6, h7, h8, h9, h10⟩ := h
      rw [step_result c s new es ee now hst]
      simp only [specNext, obsOf, h1, h6, h8, h9, hb]
      generalize ackAfterResult c s new now = a1
      generalize sendNotification c s.base new = sn
      generalize isOK c.kind new = okn
      generalize isOK c.kind s.base.state = oko
      generalize s.paused = pa
      generalize s.inDowntime = dt
      generalize s.suppProblem = pP
      generalize s.suppRecovery = pR
      cases a1 <;> cases sn <;> cases okn <;> cases oko <;> cases pa <;> cases dt <;> cases pP <;> cases pR <;> simp
    · rw [step_result_stale c s new es ee now hst]; simp [specNext, obsOf, getAck_rest, hb]
  | ack via sticky notify persistent expiry now =>
    rw [step_ack]
    cases hc : (preRefuse c s via expiry now || ackNow s now != .none) <;> simp [specNext, getAck_rest, hb]
  | remove via now => rw [step_remove]; simp [specNext, hb]
  | advance now => rw [step_advance]; simp [specNext, getAck_rest, hb]
  | pump now fired => rw [step_pump]; simp [specNext, getAck_rest, pumped, hb]
  | downtime on now => rw [step_downtime]; simp [specNext, getAck_rest, hb]
  | pause on now => rw [step_pause]; simp [specNext, getAck_rest, hb]
  | remind now => rw [step_remind]; simp [specNext, getAck_rest, hb]
  | fire now => rw [step_fire]; simp [specNext, hb]

/-- Every operation keeps the relation and satisfies the specification. -/
theorem spec_step (c : Cfg) (sp : SpecSt) (s : MSt) (op : Op) (h : Rel sp s) :
    specStep c sp op (obsOf c (step c s op)) = none ∧ Rel (specNext sp op (obsOf c (step c s op))) (step c s op).1 := by
  have hb := before_step c sp s op h.1 h.2
  suffices hs : specStep c sp op (obsOf c (step c s op)) = none ∧
      RelCore (specNext sp op (obsOf c (step c s op))) (step c s op).1 from ⟨hs.1, hs.2, hb⟩
  obtain ⟨h, hbf⟩ := h
  cases op with
  | result new es ee now =>
    cases hst : stale s.base ⟨new, es, now⟩
    · exact spec_step_result c sp s new es ee now h hst
    · exact spec_step_stale c sp s new es ee now h hst
  | ack via sticky notify persistent expiry now => exact spec_step_ack c sp s via sticky notify persistent expiry now h
  | remove via now => exact spec_step_remove c sp s via now h
  | advance now => exact spec_step_advance c sp s now h
  | pump now fired => exact spec_step_pump c sp s now fired h
  | downtime on now => exact spec_step_downtime c sp s on now h
  | pause on now => exact spec_step_pause c sp s on now h
  | remind now => exact spec_step_remind c sp s now h
  | fire now => exact spec_step_fire c sp s now h hbf

theorem spec_trace_rel (c : Cfg) (ops : List Op) :
    ∀ (sp : SpecSt) (s : MSt), Rel sp s → specTrace c sp (trace c s ops) = none := by
  induction ops with
  | nil => intro sp s _; simp [trace, specTrace]
  | cons op ops ih =>
    intro sp s hr
    obtain ⟨h1, h2⟩ := spec_step c sp s op hr
    simp only [trace, specTrace]
    rw [h1]
    exact ih _ _ h2

theorem rel_init : Rel specInit init := by
  simp [Rel, RelCore, specInit, init, pending]

/-! ## Event balance: every set acknowledgement is reported cleared exactly once -/

theorem getAck_balance (s : MSt) (now : Int) : s.ack.ind = (getAck s now).2 + (getAck s now).1.ack.ind := by
  cases he : expired s now
  · simp [getAck_of_not_expired, he]
  · have := expired_ack_ne s now he
    cases ha : s.ack <;> simp_all [getAck_of_expired, Ack.ind]

theorem step_balance (c : Cfg) (s : MSt) (op : Op) :
    s.ack.ind + (step c s op).2.nSet = (step c s op).2.nClr + (step c s op).1.ack.ind := by
  cases op with
  | result new es ee now =>
    cases hst : stale s.base ⟨new, es, now⟩
    · rw [step_result c s new es ee now hst]
      cases ha : s.ack
      · have he : expired s now = false := not_expired_of_none s now ha
        cases hsc : stateChange c.kind s.base.state new <;> cases hok : isOK c.kind new <;>
          simp [he, ha, hsc, hok, ackNow, ackAfterResult, clearsOnChange, Ack.ind]
      all_goals
        cases he : expired s now <;> cases hsc : stateChange c.kind s.base.state new <;> cases hok : isOK c.kind new <;>
          simp [he, ha, hsc, hok, ackNow, ackAfterResult, clearsOnChange, Ack.ind]
    · rw [step_result_stale c s new es ee now hst]
      simpa using getAck_balance s now
  | ack via sticky notify persistent expiry now =>
    rw [step_ack]
    cases hc : (preRefuse c s via expiry now || ackNow s now != .none)
    · simp only [Bool.or_eq_false_iff] at hc
      have hn : ackNow s now = .none := by simpa using hc.2
      have hx : expired s now = true → s.ack ≠ .none := expired_ack_ne s now
      by_cases hg : (¬ storedExpiry via expiry = 0 ∧ storedExpiry via expiry < now)
      · cases he : expired s now <;> cases ha : s.ack <;> simp_all [ackNow, Ack.ind]
      · cases he : expired s now <;> cases ha : s.ack <;> cases sticky <;> simp_all [ackNow, Ack.ind, ackTypeOf]
    · simpa using getAck_balance s now
  | remove via now => rw [step_remove]; simp [Ack.ind]
  | advance now => rw [step_advance]; simpa using getAck_balance s now
  | pump now fired => rw [step_pump]; simpa [pumped] using getAck_balance (pumped s now fired) now
  | downtime on now => rw [step_downtime]; simpa using getAck_balance { s with inDowntime := on } now
  | pause on now => rw [step_pause]; simpa using getAck_balance { s with paused := on } now
  | remind now => rw [step_remind]; simpa using getAck_balance s now
  | fire now =>
    rw [step_fire]
    have := getAck_balance s now
    simpa [getAck_cnt, getAck_ack] using this

theorem totals_balance (c : Cfg) (ops : List Op) :
    ∀ s : MSt, s.ack.ind + (totals c s ops).1 = (totals c s ops).2 + (run c s ops).ack.ind := by
  induction ops with
  | nil => intro s; simp [totals, run]
  | cons op ops ih =>
    intro s
    have h1 := step_balance c s op
    have h2 := ih (step c s op).1
    simp only [totals, run, List.foldl] at *
    omega

end Icinga.C06

/-
  C06 — helper definitions and lemmas for IcingaProofs/C06.lean: closed forms of one operation followed by the
  look (`step_ack`, `step_remove`, `step_advance`, `step_result`, `step_result_stale`), the relation between the
  specification's bookkeeping and the model state, the step lemma and the induction over the history, and the
  event balance.
-/
import IcingaModel.C06.Model
import IcingaModel.C06.Spec
import IcingaProofs.C01.Lemmas

set_option linter.unusedSimpArgs false
set_option linter.unusedVariables false

namespace Icinga.C06
open Icinga.C01

def ackNow (s : MSt) (now : Int) : Ack := if expired s now then .none else s.ack

theorem expired_ack_ne (s : MSt) (now : Int) (h : expired s now = true) : s.ack ≠ .none := by
  intro h'; simp [expired, h'] at h

theorem getAck_of_expired (s : MSt) (now : Int) (h : expired s now = true) :
    getAck s now = ({ s with ack := .none, expiry := 0 }, 1) := by
  have := expired_ack_ne s now h
  simp [getAck, h, clearAck, this]

theorem getAck_of_not_expired (s : MSt) (now : Int) (h : expired s now = false) :
    getAck s now = (s, 0) := by
  simp [getAck, h]

theorem not_expired_of_none (s : MSt) (now : Int) (h : s.ack = .none) : expired s now = false := by
  simp [expired, h]

theorem expired_mk (b : St) (a : Ack) (e : Int) (cm : List Cmt) (sp dt : Bool) (now : Int) :
    expired ⟨b, a, e, cm, sp, dt⟩ now = (a != .none && e != 0 && decide (e < now)) := rfl

theorem getAck_mk (b : St) (a : Ack) (e : Int) (cm : List Cmt) (sp dt : Bool) (now : Int) :
    getAck ⟨b, a, e, cm, sp, dt⟩ now =
      if (a != .none && e != 0 && decide (e < now)) then (⟨b, .none, 0, cm, sp, dt⟩, 1) else (⟨b, a, e, cm, sp, dt⟩, 0) := by
  cases h : (a != .none && e != 0 && decide (e < now))
  · rw [getAck_of_not_expired _ _ (by rw [expired_mk]; exact h)]; simp
  · rw [getAck_of_expired _ _ (by rw [expired_mk]; exact h)]; simp

theorem resultAck_eq (c : Cfg) (s : MSt) (new : SState) (now : Int) :
    resultAck c s new now =
      if stateChange c.kind s.base.state new && clearsOnChange c.kind (ackNow s now) new then
        ({ s with ack := .none, expiry := 0 }, (if expired s now then 1 else 0) + (ackNow s now).ind)
      else if expired s now then ({ s with ack := .none, expiry := 0 }, 1) else (s, 0) := by
  cases hsc : stateChange c.kind s.base.state new <;> cases he : expired s now
  · simp [resultAck, hsc, getAck_of_not_expired, he]
  · simp [resultAck, hsc, getAck_of_expired, he]
  · cases hcl : clearsOnChange c.kind s.ack new
    · simp [resultAck, hsc, getAck_of_not_expired, he, ackNow, hcl]
    · simp [resultAck, hsc, getAck_of_not_expired, he, ackNow, hcl, clearAck, not_expired_of_none]
      cases hs : s.ack <;> simp_all [Ack.ind, clearsOnChange]
  · have hn : expired { s with ack := Ack.none, expiry := 0 } now = false := not_expired_of_none _ _ rfl
    simp [resultAck, hsc, getAck_of_expired, he, ackNow, clearsOnChange, getAck_of_not_expired, hn]

/-- Closed form of an acknowledge operation followed by the look. -/
theorem step_ack (c : Cfg) (s : MSt) (via : Via) (sticky notify persistent : Bool) (expiry now : Int) :
    step c s (.ack via sticky notify persistent expiry now) =
      if preRefuse c s via expiry now || ackNow s now != .none then
        ((getAck s now).1, { acc := false, nClr := (getAck s now).2 })
      else
        let e := storedExpiry via expiry
        let gone := e != 0 && decide (e < now)
        (⟨s.base, if gone then .none else ackTypeOf sticky, if gone then 0 else e,
          if addsComment via then insertCmt ⟨now, persistent, commentExpire via expiry⟩ s.comments else s.comments,
          s.suppPending, s.inDowntime⟩,
         { acc := true, nSet := 1, nClr := (if expired s now then 1 else 0) + (if gone then 1 else 0),
           nAckN := if notify then 1 else 0 }) := by
  cases hp : preRefuse c s via expiry now
  · cases he : expired s now
    · cases ha : s.ack
      · by_cases hg : (¬ storedExpiry via expiry = 0 ∧ storedExpiry via expiry < now) <;> cases sticky <;>
          simp [step, opStep, ackStep, hp, getAck_of_not_expired, he, ha, ackNow, getAck_mk, Op.now, ackTypeOf, hg]
      · simp [step, opStep, ackStep, hp, getAck_of_not_expired, he, ha, ackNow, Op.now]
      · simp [step, opStep, ackStep, hp, getAck_of_not_expired, he, ha, ackNow, Op.now]
    · by_cases hg : (¬ storedExpiry via expiry = 0 ∧ storedExpiry via expiry < now) <;> cases sticky <;>
        simp [step, opStep, ackStep, hp, getAck_of_expired, he, ackNow, getAck_mk, Op.now, ackTypeOf, hg]
  · simp [step, opStep, ackStep, hp, Op.now]

/-- Closed form of a remove-acknowledgement followed by the look. -/
theorem step_remove (c : Cfg) (s : MSt) (via : RVia) (now : Int) :
    step c s (.remove via now) =
      (⟨s.base, .none, 0, if via != .cluster then s.comments.filter (·.persistent) else s.comments, s.suppPending,
         s.inDowntime⟩,
       { acc := true, nClr := s.ack.ind }) := by
  cases ha : s.ack <;> simp [step, opStep, removeStep, clearAck, getAck_mk, Op.now, ha, Ack.ind]

theorem step_advance (c : Cfg) (s : MSt) (now : Int) :
    step c s (.advance now) = ((getAck s now).1, { acc := true, nClr := (getAck s now).2 }) := by
  simp [step, opStep, Op.now]

/-- The comments the comment-expiry timer leaves at `now`, given whether it ran. -/
def pumped (s : MSt) (now : Int) (fired : Bool) : MSt :=
  { s with comments := if fired then s.comments.filter (survivesExpiry now) else s.comments }

theorem step_pump (c : Cfg) (s : MSt) (now : Int) (fired : Bool) :
    step c s (.pump now fired) =
      ((getAck (pumped s now fired) now).1, { acc := true, nClr := (getAck (pumped s now fired) now).2 }) := by
  simp [step, opStep, Op.now, pumped]

theorem step_downtime (c : Cfg) (s : MSt) (on : Bool) (now : Int) :
    step c s (.downtime on now) =
      ((getAck { s with inDowntime := on } now).1, { acc := true, nClr := (getAck { s with inDowntime := on } now).2 }) := by
  simp [step, opStep, Op.now]

theorem step_result_stale (c : Cfg) (s : MSt) (new : SState) (es ee now : Int)
    (h : stale s.base ⟨new, es, now⟩ = true) :
    step c s (.result new es ee now) = ((getAck s now).1, { acc := false, nClr := (getAck s now).2 }) := by
  simp [step, opStep, h, Op.now]

/-- The acknowledgement after an accepted result, by the property's rule. -/
def ackAfterResult (c : Cfg) (s : MSt) (new : SState) (now : Int) : Ack :=
  if stateChange c.kind s.base.state new && clearsOnChange c.kind (ackNow s now) new then .none else ackNow s now

theorem step_result (c : Cfg) (s : MSt) (new : SState) (es ee now : Int)
    (h : stale s.base ⟨new, es, now⟩ = false) :
    step c s (.result new es ee now) =
      let a0 := ackNow s now
      let a1 := ackAfterResult c s new now
      let send := sendNotification c s.base new
      let stash := send && (a1 != .none || s.inDowntime || s.suppPending)
      (⟨(stepCore c s.base ⟨new, es, now⟩).1, a1, if s.ack != .none && a1 == .none then 0 else s.expiry,
        if a1 == .none then s.comments.filter (keepsComment ee) else s.comments, s.suppPending || stash,
        s.inDowntime⟩,
       { acc := true, nClr := (if expired s now then 1 else 0) + (if a0 != .none && a1 == .none then 1 else 0),
         nProbN := if send && !stash && !(isOK c.kind new && !isOK c.kind s.base.state) then 1 else 0 }) := by
  cases ha : s.ack
  · have he : expired s now = false := not_expired_of_none s now ha
    cases hsc : stateChange c.kind s.base.state new <;> cases hok : isOK c.kind new <;>
      simp [step, opStep, h, resultStep, resultAck_eq, Op.now, hsc, he, ha, hok, ackNow, ackAfterResult, clearsOnChange,
        getAck_mk, Ack.ind]
  all_goals
    by_cases hx : (¬ s.expiry = 0 ∧ s.expiry < now)
    · have he : expired s now = true := by simp [expired, ha, hx]
      cases hsc : stateChange c.kind s.base.state new <;> cases hok : isOK c.kind new <;>
        simp [step, opStep, h, resultStep, resultAck_eq, Op.now, hsc, he, ha, hok, ackNow, ackAfterResult, clearsOnChange,
          getAck_mk, Ack.ind]
    · have he : expired s now = false := by simp [expired, ha]; simpa using hx
      cases hsc : stateChange c.kind s.base.state new <;> cases hok : isOK c.kind new <;>
        simp [step, opStep, h, resultStep, resultAck_eq, Op.now, hsc, he, ha, hok, ackNow, ackAfterResult, clearsOnChange,
          getAck_mk, Ack.ind, hx]


/-! ## Specification bookkeeping vs. model state -/

def Rel (sp : SpecSt) (s : MSt) : Prop :=
  sp.state = s.base.state ∧ sp.ack = s.ack ∧ (s.ack ≠ .none → sp.expiry = s.expiry) ∧ sp.comments = s.comments ∧
  sp.inDt = s.inDowntime

theorem ranOut_eq (sp : SpecSt) (s : MSt) (now : Int) (h : Rel sp s) : ranOut sp now = expired s now := by
  obtain ⟨_, h2, h3, _, _⟩ := h
  unfold ranOut expired
  rw [h2]
  by_cases ha : s.ack = .none
  · simp [ha]
  · rw [h3 ha]

theorem ackAt_eq (sp : SpecSt) (s : MSt) (now : Int) (h : Rel sp s) : ackAt sp now = ackNow s now := by
  simp [ackAt, ackNow, ranOut_eq sp s now h, h.2.1]

theorem rel_getAck (sp : SpecSt) (s : MSt) (now : Int) (h : Rel sp s) :
    Rel { state := s.base.state, ack := (getAck s now).1.ack, comments := s.comments, inDt := sp.inDt,
          expiry := if (getAck s now).1.ack == .none then 0 else sp.expiry } (getAck s now).1 := by
  obtain ⟨h1, h2, h3, h4, h5⟩ := h
  cases he : expired s now
  · simp [getAck_of_not_expired, he, Rel, h5]
    intro ha; simp [ha, h3 ha]
  · simp [getAck_of_expired, he, Rel, h5]

theorem getAck_ack (s : MSt) (now : Int) : (getAck s now).1.ack = ackNow s now := by
  cases he : expired s now <;> simp [getAck_of_not_expired, getAck_of_expired, he, ackNow]

theorem getAck_cnt (s : MSt) (now : Int) : (getAck s now).2 = if expired s now then 1 else 0 := by
  cases he : expired s now <;> simp [getAck_of_not_expired, getAck_of_expired, he]

theorem getAck_rest (s : MSt) (now : Int) :
    (getAck s now).1.base = s.base ∧ (getAck s now).1.comments = s.comments ∧
    (getAck s now).1.inDowntime = s.inDowntime := by
  cases he : expired s now <;> simp [getAck_of_not_expired, getAck_of_expired, he]

/-- The clauses of a look at which nothing but the lazy expiry can happen (advance, dropped result, refused
    acknowledge, pump, downtime), for a state `s'` that the bookkeeping `sp'` describes. -/
theorem look_clauses (c : Cfg) (sp' : SpecSt) (s' : MSt) (now : Int) (acc : Bool) (h : Rel sp' s') (cl : Clause) :
    first (lookChecks sp' now sp'.inDt cl (obsOf c ((getAck s' now).1, { acc := acc, nClr := (getAck s' now).2 }))) = none := by
  have hr := ranOut_eq sp' s' now h
  have ha := ackAt_eq sp' s' now h
  have hd : sp'.inDt = s'.inDowntime := h.2.2.2.2
  simp [lookChecks, obsOf, first, common, ha, hr, hd, getAck_ack, getAck_cnt, getAck_rest, handledOf]
  cases he : expired s' now <;> simp [ackNow, he]

theorem spec_step_advance (c : Cfg) (sp : SpecSt) (s : MSt) (now : Int) (h : Rel sp s) :
    specStep c sp (.advance now) (obsOf c (step c s (.advance now))) = none ∧
    Rel (specNext sp (.advance now) (obsOf c (step c s (.advance now)))) (step c s (.advance now)).1 := by
  have hrel := rel_getAck sp s now h
  rw [step_advance]
  refine ⟨?_, ?_⟩
  · exact look_clauses c sp s now true h .ackFrame
  · simpa [specNext, obsOf, getAck_rest] using hrel

theorem spec_step_stale (c : Cfg) (sp : SpecSt) (s : MSt) (new : SState) (es ee now : Int) (h : Rel sp s)
    (hst : stale s.base ⟨new, es, now⟩ = true) :
    specStep c sp (.result new es ee now) (obsOf c (step c s (.result new es ee now))) = none ∧
    Rel (specNext sp (.result new es ee now) (obsOf c (step c s (.result new es ee now)))) (step c s (.result new es ee now)).1 := by
  have hrel := rel_getAck sp s now h
  rw [step_result_stale c s new es ee now hst]
  refine ⟨?_, ?_⟩
  · exact look_clauses c sp s now false h .unchangedKeeps
  · simpa [specNext, obsOf, getAck_rest] using hrel

theorem spec_step_pump (c : Cfg) (sp : SpecSt) (s : MSt) (now : Int) (fired : Bool) (h : Rel sp s) :
    specStep c sp (.pump now fired) (obsOf c (step c s (.pump now fired))) = none ∧
    Rel (specNext sp (.pump now fired) (obsOf c (step c s (.pump now fired)))) (step c s (.pump now fired)).1 := by
  have h' : Rel { sp with comments := (pumped s now fired).comments } (pumped s now fired) := by
    obtain ⟨h1, h2, h3, h4, h5⟩ := h
    exact ⟨h1, h2, h3, rfl, h5⟩
  have hrel := rel_getAck _ _ now h'
  rw [step_pump]
  refine ⟨?_, ?_⟩
  · exact look_clauses c { sp with comments := (pumped s now fired).comments } (pumped s now fired) now true h' .ackFrame
  · simpa [specNext, obsOf, getAck_rest, pumped] using hrel

theorem spec_step_downtime (c : Cfg) (sp : SpecSt) (s : MSt) (on : Bool) (now : Int) (h : Rel sp s) :
    specStep c sp (.downtime on now) (obsOf c (step c s (.downtime on now))) = none ∧
    Rel (specNext sp (.downtime on now) (obsOf c (step c s (.downtime on now)))) (step c s (.downtime on now)).1 := by
  have h' : Rel { sp with inDt := on } { s with inDowntime := on } := by
    obtain ⟨h1, h2, h3, h4, h5⟩ := h
    exact ⟨h1, h2, h3, h4, rfl⟩
  have hrel := rel_getAck _ _ now h'
  rw [step_downtime]
  refine ⟨?_, ?_⟩
  · exact look_clauses c { sp with inDt := on } { s with inDowntime := on } now true h' .ackFrame
  · simpa [specNext, obsOf, getAck_rest] using hrel

theorem spec_step_remove (c : Cfg) (sp : SpecSt) (s : MSt) (via : RVia) (now : Int) (h : Rel sp s) :
    specStep c sp (.remove via now) (obsOf c (step c s (.remove via now))) = none ∧
    Rel (specNext sp (.remove via now) (obsOf c (step c s (.remove via now)))) (step c s (.remove via now)).1 := by
  obtain ⟨h1, h2, h3, h4, h5⟩ := h
  rw [step_remove]
  refine ⟨?_, ?_⟩
  · cases ha : s.ack <;> simp [specStep, obsOf, first, common, handledOf, h2, h5, ha, Ack.ind]
  · simp [specNext, obsOf, Rel, h5]

theorem spec_step_ack (c : Cfg) (sp : SpecSt) (s : MSt) (via : Via) (sticky notify persistent : Bool) (expiry now : Int)
    (h : Rel sp s) :
    specStep c sp (.ack via sticky notify persistent expiry now) (obsOf c (step c s (.ack via sticky notify persistent expiry now))) = none ∧
    Rel (specNext sp (.ack via sticky notify persistent expiry now) (obsOf c (step c s (.ack via sticky notify persistent expiry now))))
      (step c s (.ack via sticky notify persistent expiry now)).1 := by
  have hr := ranOut_eq sp s now h
  have ha := ackAt_eq sp s now h
  have hrel := rel_getAck sp s now h
  have hd : sp.inDt = s.inDowntime := h.2.2.2.2
  have hreq : requestedExpiry via expiry = storedExpiry via expiry := by
    cases via <;> simp [requestedExpiry, storedExpiry]
  rw [step_ack]
  cases hc : (preRefuse c s via expiry now || ackNow s now != .none)
  · -- accepted
    simp only [Bool.or_eq_false_iff] at hc
    obtain ⟨hp, hn⟩ := hc
    have hn' : ackNow s now = .none := by simpa using hn
    have hnotok : (via != .cluster && isOK c.kind sp.state) = false := by
      rw [h.1]
      cases via <;> simp_all [preRefuse, stateOK]
    by_cases hg : (¬ storedExpiry via expiry = 0 ∧ storedExpiry via expiry < now)
    · refine ⟨?_, ?_⟩
      · cases sticky <;> cases notify <;>
          simp [specStep, obsOf, first, common, Op.now, ha, hr, hn', hreq, hg, handledOf, hnotok, ackTypeOf, hd]
      · simp [specNext, obsOf, Rel, hg, hd]
    · refine ⟨?_, ?_⟩
      · cases sticky <;> cases notify <;>
          simp [specStep, obsOf, first, common, Op.now, ha, hr, hn', hreq, hg, handledOf, hnotok, ackTypeOf, hd]
      · cases sticky <;> simp [specNext, obsOf, Rel, hg, hreq, ackTypeOf, hd]
  · -- refused
    refine ⟨?_, ?_⟩
    · exact look_clauses c sp s now false h .ackFrame
    · simpa [specNext, obsOf, getAck_rest] using hrel

theorem changed_eq (c : Cfg) (a b : SState) : changed c a b = stateChange c.kind a b := by
  simp [changed, stateChange_eq_proj]

theorem stepCore_state (c : Cfg) (b : St) (r : Res) :
    (stepCore c b r).1.state = r.state ∧ (stepCore c b r).1.lastExec = some r.execStart := by
  simp [stepCore]

theorem spec_step_result (c : Cfg) (sp : SpecSt) (s : MSt) (new : SState) (es ee now : Int) (h : Rel sp s)
    (hst : stale s.base ⟨new, es, now⟩ = false) :
    specStep c sp (.result new es ee now) (obsOf c (step c s (.result new es ee now))) = none ∧
    Rel (specNext sp (.result new es ee now) (obsOf c (step c s (.result new es ee now)))) (step c s (.result new es ee now)).1 := by
  have hr := ranOut_eq sp s now h
  have ha := ackAt_eq sp s now h
  obtain ⟨h1, h2, h3, h4, h5⟩ := h
  rw [step_result c s new es ee now hst]
  have hch : changed c sp.state new = stateChange c.kind s.base.state new := by rw [h1, changed_eq]
  cases hs : s.ack
  · -- no acknowledgement
    have he : expired s now = false := not_expired_of_none s now hs
    refine ⟨?_, ?_⟩
    · cases hsc : stateChange c.kind s.base.state new <;> cases hok : isOK c.kind new <;>
        simp [specStep, obsOf, first, common, Op.now, ha, hr, he, hch, hsc, hok, hs, h4, h5, ackNow, ackAfterResult,
          clearsOnChange, handledOf, problemOf, stepCore_state]
    · cases hsc : stateChange c.kind s.base.state new <;> cases hok : isOK c.kind new <;>
        simp [specNext, obsOf, Rel, he, hsc, hok, hs, ackNow, ackAfterResult, clearsOnChange, stepCore_state, h4, h5]
  all_goals
    have h3' : sp.expiry = s.expiry := h3 (by simp [hs])
    cases he : expired s now <;> cases hsc : stateChange c.kind s.base.state new <;> cases hok : isOK c.kind new <;>
      cases hsend : sendNotification c s.base new <;> cases hp : s.suppPending <;> cases hdt : s.inDowntime <;>
      simp [specStep, obsOf, first, common, Op.now, ha, hr, he, hch, hsc, hok, hs, h4, h5, ackNow, ackAfterResult,
        clearsOnChange, handledOf, problemOf, stepCore_state, specNext, Rel, h3', hsend, hp, hdt]


/-- Every operation keeps the relation and satisfies the specification. -/
theorem spec_step (c : Cfg) (sp : SpecSt) (s : MSt) (op : Op) (h : Rel sp s) :
    specStep c sp op (obsOf c (step c s op)) = none ∧ Rel (specNext sp op (obsOf c (step c s op))) (step c s op).1 := by
  cases op with
  | result new es ee now =>
    cases hst : stale s.base ⟨new, es, now⟩
    · exact spec_step_result c sp s new es ee now h hst
    · exact spec_step_stale c sp s new es ee now h hst
  | ack via sticky notify persistent expiry now => exact spec_step_ack c sp s via sticky notify persistent expiry now h
  | remove via now => exact spec_step_remove c sp s via now h
  | advance now => exact spec_step_advance c sp s now h
  | pump now fired => exact spec_step_pump c sp s now fired h
  | downtime on now => exact spec_step_downtime c sp s on now h

theorem spec_trace_rel (c : Cfg) (ops : List Op) :
    ∀ (sp : SpecSt) (s : MSt), Rel sp s → specTrace c sp (trace c s ops) = none := by
  induction ops with
  | nil => intro sp s _; simp [trace, specTrace]
  | cons op ops ih =>
    intro sp s hr
    obtain ⟨h1, h2⟩ := spec_step c sp s op hr
    simp only [trace, specTrace]
    rw [h1]
    exact ih _ _ h2

theorem rel_init : Rel specInit init := by
  simp [Rel, specInit, init, pending]

/-! ## Event balance: every set acknowledgement is reported cleared exactly once -/

theorem getAck_balance (s : MSt) (now : Int) : s.ack.ind = (getAck s now).2 + (getAck s now).1.ack.ind := by
  cases he : expired s now
  · simp [getAck_of_not_expired, he]
  · have := expired_ack_ne s now he
    cases ha : s.ack <;> simp_all [getAck_of_expired, Ack.ind]

theorem step_balance (c : Cfg) (s : MSt) (op : Op) :
    s.ack.ind + (step c s op).2.nSet = (step c s op).2.nClr + (step c s op).1.ack.ind := by
  cases op with
  | result new es ee now =>
    cases hst : stale s.base ⟨new, es, now⟩
    · rw [step_result c s new es ee now hst]
      cases ha : s.ack
      · have he : expired s now = false := not_expired_of_none s now ha
        cases hsc : stateChange c.kind s.base.state new <;> cases hok : isOK c.kind new <;>
          simp [he, ha, hsc, hok, ackNow, ackAfterResult, clearsOnChange, Ack.ind]
      all_goals
        cases he : expired s now <;> cases hsc : stateChange c.kind s.base.state new <;> cases hok : isOK c.kind new <;>
          simp [he, ha, hsc, hok, ackNow, ackAfterResult, clearsOnChange, Ack.ind]
    · rw [step_result_stale c s new es ee now hst]
      simpa using getAck_balance s now
  | ack via sticky notify persistent expiry now =>
    rw [step_ack]
    cases hc : (preRefuse c s via expiry now || ackNow s now != .none)
    · simp only [Bool.or_eq_false_iff] at hc
      have hn : ackNow s now = .none := by simpa using hc.2
      have hx : expired s now = true → s.ack ≠ .none := expired_ack_ne s now
      by_cases hg : (¬ storedExpiry via expiry = 0 ∧ storedExpiry via expiry < now)
      · cases he : expired s now <;> cases ha : s.ack <;> simp_all [ackNow, Ack.ind]
      · cases he : expired s now <;> cases ha : s.ack <;> cases sticky <;> simp_all [ackNow, Ack.ind, ackTypeOf]
    · simpa using getAck_balance s now
  | remove via now => rw [step_remove]; simp [Ack.ind]
  | advance now => rw [step_advance]; simpa using getAck_balance s now
  | pump now fired => rw [step_pump]; simpa [pumped] using getAck_balance (pumped s now fired) now
  | downtime on now => rw [step_downtime]; simpa using getAck_balance { s with inDowntime := on } now

theorem totals_balance (c : Cfg) (ops : List Op) :
    ∀ s : MSt, s.ack.ind + (totals c s ops).1 = (totals c s ops).2 + (run c s ops).ack.ind := by
  induction ops with
  | nil => intro s; simp [totals, run]
  | cons op ops ih =>
    intro s
    have h1 := step_balance c s op
    have h2 := ih (step c s op).1
    simp only [totals, run, List.foldl] at *
    omega

end Icinga.C06

/-
  C18 — property theorems.  Every `theorem` in this file is a proof obligation of the check:
  `./check C18` lists them, runs `#print axioms` on each and fails if a required one is missing.
  Helper lemmas live in IcingaProofs/C18/Lemmas.lean.

  All statements quantify over every user (any list of plain and filtered permission entries), every
  required permission, every query dictionary (single names, plural lists, type, filter, any mixture),
  every inventory, both kinds of provider, and every answer of the fast-path recogniser.
  The only hypothesis is `qd.permission ≠ ""`: a request that requires *no* permission
  (filterutility.cpp:149-150) is outside the property.
-/
import IcingaProofs.C18.Lemmas

namespace Icinga.C18

/-- **wildcard_match_spec.**  The matcher decides exactly the declarative wildcard language: `*` stands
    for any (possibly empty) text, `?` for exactly one character, every other mask element for itself up
    to ASCII case. -/
theorem wildcard_match_spec (ts : List Tok) (s : List Char) : matchToks ts s = true ↔ Denotes ts s :=
  ⟨matchToks_sound ts s, matchToks_complete⟩

/-- … and hence permission patterns are matched case-insensitively (both sides are lower-cased first). -/
theorem permission_match_spec (pattern required : String) :
    wildMatch pattern required = true ↔ Denotes (tokenize (lower pattern)) (lower required) :=
  wildcard_match_spec _ _

/-- **targets_subset_allowed.**  Every object returned by `filterTargets` — whether it was addressed by a
    single name, in a plural name list, selected by a user filter (evaluated or through the name-index
    fast path), or by no addressing at all, and in any mixture of these — is one the user is allowed to
    act on, and is a registered object. -/
theorem targets_subset_allowed (u : User) (qd : QD) (q : Query) (inv : Inventory) (objs : List Obj)
    (hperm : qd.permission ≠ "") (h : (filterTargets u qd q inv).result = .ok objs) :
    ∀ o ∈ objs, Allowed u qd.permission o ∧ o ∈ inv := by
  obtain ⟨hp, hall⟩ := filterTargets_ok u qd q inv objs h
  rw [hasPermission_of_ne hperm] at hp
  intro o ho
  exact ⟨permFilterFn_allowed hperm hp (hall o ho).1, (hall o ho).2⟩

/-- **no_permission_rejects_first.**  When no entry of the user matches the required permission the
    request fails with the permission error and the provider / inventory was never consulted (empty
    access log). -/
theorem no_permission_rejects_first (u : User) (qd : QD) (q : Query) (inv : Inventory)
    (hperm : qd.permission ≠ "") (hno : ∀ p ∈ u, wildMatch p.pattern qd.permission = false) :
    (filterTargets u qd q inv).result = .error .permission ∧ (filterTargets u qd q inv).log = [] := by
  have : hasPermission u qd.permission = false := by
    rw [hasPermission_of_ne hperm, someMatch]
    simp only [List.any_eq_false]
    intro p hp
    simp [hno p hp]
  simp [filterTargets, this]

/-- **forbidden_by_name_is_error.**  If the query addresses by name (single or inside a plural list,
    possibly together with other names, a type and a filter) an existing object that the user is not
    allowed to act on, the whole request is an error — never that object, never an empty success. -/
theorem forbidden_by_name_is_error (u : User) (qd : QD) (q : Query) (inv : Inventory) (t n : String) (o : Obj)
    (hperm : qd.permission ≠ "")
    (hreq : (t, n) ∈ namedRequests qd.types q) (hl : lookup inv t n = some o)
    (hforbidden : ¬ Allowed u qd.permission o) :
    ∃ e, (filterTargets u qd q inv).result = .error e := by
  by_cases hm : someMatch u qd.permission = true
  · apply filterTargets_forbidden u qd q inv t n o hreq hl
    cases hpf : permFilterFn u qd.permission o with
    | false => rfl
    | true => exact absurd (permFilterFn_allowed hperm hm hpf) hforbidden
  · refine ⟨.permission, ?_⟩
    have : hasPermission u qd.permission = false := by
      rw [hasPermission_of_ne hperm]; simpa using hm
    simp [filterTargets, this]

/-- The plain case of the sentence in the property: one name, nothing else — the error is the
    "Access denied" error (when some permission matches) and only that object was looked up. -/
theorem forbidden_single_name_is_denied (u : User) (perm t n : String) (o : Obj) (inv : Inventory)
    (cfg : Bool) (hperm : perm ≠ "") (hm : someMatch u perm = true)
    (hl : lookup inv t n = some o) (hforbidden : ¬ Allowed u perm o) :
    let r := filterTargets u { types := [t], permission := perm, cfgProvider := cfg }
                { single := [(t, n)], type := some t, typeValid := true } inv
    r.result = .error .denied ∧ r.log = [.byName t n] := by
  have hpf : permFilterFn u perm o = false := by
    cases hpf : permFilterFn u perm o with
    | false => rfl
    | true => exact absurd (permFilterFn_allowed hperm hm hpf) hforbidden
  have hp : hasPermission u perm = true := by rw [hasPermission_of_ne hperm]; exact hm
  simp [filterTargets, hp, namedSteps, runNamed, hl, hpf, List.lookup]

/-- **joined_access_subset_allowed.**  The per-object decision taken for joined objects
    (HasPermission + EvaluateFilter, objectqueryhandler.cpp:262-299) grants only allowed objects. -/
theorem joined_access_subset_allowed (u : User) (perm : String) (o : Obj) (hperm : perm ≠ "")
    (h : accessGranted u perm o = true) : Allowed u perm o := by
  simp only [accessGranted, Bool.and_eq_true] at h
  rw [hasPermission_of_ne hperm] at h
  exact permFilterFn_allowed hperm h.1 h.2

/-- **handler_targets_subset_allowed.**  What the object query/modify/delete handlers obtain from
    `GetFilterTargets` for a request on `/v1/objects/<type>[/<name>]` only contains objects the user is
    allowed under `objects/<verb>/<Type>`. -/
theorem handler_targets_subset_allowed (u : User) (verb type : String) (pathName : Option String) (q : Query)
    (inv : Inventory) (objs : List Obj) (h : handlerTargets u verb type pathName q inv = .ok objs) :
    ∀ o ∈ objs, Allowed u ("objects/" ++ verb ++ "/" ++ type) o ∧ o ∈ inv := by
  have hne : (handlerQD verb type).permission ≠ "" := by
    intro h0
    have := congrArg String.length h0
    simp [handlerQD, String.length_append] at this
  exact targets_subset_allowed u (handlerQD verb type) (handlerQuery type pathName q) inv objs hne h

/-- **model_query_meets_spec** (the whole property as one statement).  For every user, required
    permission, query, inventory, provider kind and recogniser answer, the outcome of the model — result
    and provider-call log — satisfies the executable specification `specQuery`. -/
theorem model_query_meets_spec (u : User) (qd : QD) (q : Query) (inv : Inventory) :
    specQuery u qd q inv ⟨(filterTargets u qd q inv).result, some (filterTargets u qd q inv).log⟩ = none := by
  unfold specQuery
  by_cases hperm : qd.permission = ""
  · simp [hperm]
  · have hne : (qd.permission == "") = false := by simp [hperm]
    simp only [hne, Bool.false_eq_true, if_false]
    by_cases hm : someMatch u qd.permission = true
    · simp only [hm, Bool.not_true, Bool.false_eq_true, if_false]
      cases hr : (filterTargets u qd q inv).result with
      | error e => rfl
      | ok objs =>
        have hall := targets_subset_allowed u qd q inv objs hperm hr
        have h1 : (objs.any fun o => !inv.contains o) = false := by
          simp only [List.any_eq_false]
          intro o ho
          simp [(hall o ho).2]
        have h2 : (objs.any fun o => !allowedB u qd.permission o) = false := by
          simp only [List.any_eq_false]
          intro o ho
          simp [(allowedB_iff u qd.permission o).2 (hall o ho).1]
        have h3 : forbiddenNamed u qd.permission qd.types q inv = false := by
          cases hf : forbiddenNamed u qd.permission qd.types q inv with
          | false => rfl
          | true =>
            exfalso
            simp only [forbiddenNamed, List.any_eq_true] at hf
            obtain ⟨⟨t, n⟩, hreq, hx⟩ := hf
            cases hl : lookup inv t n with
            | none => simp [hl] at hx
            | some o =>
              simp only [hl, Bool.not_eq_true'] at hx
              have hna : ¬ Allowed u qd.permission o := by
                intro ha
                rw [(allowedB_iff u qd.permission o).2 ha] at hx
                cases hx
              obtain ⟨e, he⟩ := forbidden_by_name_is_error u qd q inv t n o hperm hreq hl hna
              rw [hr] at he
              cases he
        simp only [h1, h2, h3, Bool.false_eq_true, if_false]
    · have hm' : someMatch u qd.permission = false := by simpa using hm
      have hno : ∀ p ∈ u, wildMatch p.pattern qd.permission = false := by
        simpa [someMatch, List.any_eq_false] using hm'
      obtain ⟨h1, h2⟩ := no_permission_rejects_first u qd q inv hperm hno
      simp [hm', h1, h2, isPermissionError, logEmpty]

/-- **model_access_meets_spec.**  The same for the per-object decision. -/
theorem model_access_meets_spec (u : User) (perm : String) (o : Obj) :
    specAccess u perm o (accessGranted u perm o) = none := by
  unfold specAccess
  by_cases hperm : perm = ""
  · simp [hperm]
  · cases hg : accessGranted u perm o with
    | false => simp
    | true =>
      have := (allowedB_iff u perm o).2 (joined_access_subset_allowed u perm o hperm hg)
      simp [this]

/-- **model_grant_meets_spec.**  A bare permission check grants only with a matching entry. -/
theorem model_grant_meets_spec (u : User) (perm : String) :
    specGrant u perm (hasPermission u perm) = none := by
  unfold specGrant
  by_cases hperm : perm = ""
  · simp [hperm]
  · rw [hasPermission_of_ne hperm]
    cases someMatch u perm <;> simp

/-! ### The converse is deliberately not claimed

  Full converse (NOT a theorem):  `Allowed u perm o → o ∈ ofType inv t → o` is returned by the plain
  type query.  It fails because a matching entry *without* a filter adds nothing to the OR of filters
  (filterutility.cpp:174): next to a filtered matching entry it does not widen access.  That is
  over-restriction and inside the property's "only if". -/

def exH0 : Obj := ⟨"Host", "h0"⟩
def exH1 : Obj := ⟨"Host", "h1"⟩
def exInv : Inventory := [exH0, exH1, ⟨"Service", "h0!s0"⟩]
/-- one filtered and one unfiltered matching entry, a near miss, and an entry for another permission -/
def exUser : User :=
  [ ⟨"objects/QUERY/*", some (fun o => o.name == "h1")⟩, ⟨"*/host", none⟩,
    ⟨"objects/query/Hos", none⟩, ⟨"actions/*", none⟩ ]
def exQD : QD := { types := ["Host"], permission := "objects/query/Host" }
def exAll : Query := { type := some "Host", typeValid := true }

theorem converse_fails_by_overrestriction :
    Allowed exUser exQD.permission exH0 ∧ exH0 ∈ ofType exInv "Host" ∧
    (filterTargets exUser exQD exAll exInv).result = .ok [exH1] := by
  refine ⟨(allowedB_iff _ _ _).1 (by decide), by decide, ?_⟩
  decide

/-! ### Non-vacuity -/

/-- hypotheses of `targets_subset_allowed` hold on a non-trivial state (a non-empty result) -/
example : exQD.permission ≠ "" ∧ (filterTargets exUser exQD exAll exInv).result = .ok [exH1] := by decide

/-- every addressing path on one query: name + plural list + fast-path filter -/
example :
    (filterTargets [⟨"objects/query/host", some (fun o => o.name != "h0")⟩] exQD
      { single := [("Host", "h1")], plural := [("Host", ["h1"])], type := some "Host", typeValid := true,
        filter := some { pred := fun _ => some true, fast := some ["h0", "h1", "nope"] } }
      exInv).result = .ok [exH1, exH1, exH1] := by decide

/-- hypotheses of `no_permission_rejects_first`: a user with entries, none of which matches -/
example : ∀ p ∈ ([⟨"objects/query/Hos", none⟩, ⟨"actions/*", none⟩] : User),
    wildMatch p.pattern "objects/query/Host" = false := by decide

/-- hypotheses of `forbidden_by_name_is_error` / `forbidden_single_name_is_denied` -/
example : ("Host", "h0") ∈ namedRequests exQD.types { single := [("Host", "h0")] } ∧
    lookup exInv "Host" "h0" = some exH0 ∧
    someMatch [⟨"objects/query/*", some (fun o => o.name == "h1")⟩] exQD.permission = true ∧
    allowedB [⟨"objects/query/*", some (fun o => o.name == "h1")⟩] exQD.permission exH0 = false := by decide

/-- `wildcard_match_spec`: a mask with `*`, `?`, an escaped `*` and mixed case -/
example : matchToks (tokenize "a*?\\*C".toList) "AxyZ*c".toList = true := by decide
example : matchToks (tokenize "a*?\\*C".toList) "A*c".toList = false := by decide

/-- the specification is not vacuous: it rejects a forbidden object in the result, … -/
example : specQuery [⟨"objects/query/*", some (fun o => o.name == "h1")⟩] exQD exAll exInv ⟨.ok [exH0, exH1], none⟩
    = some .returnedAllowed := by decide
/-- … an answer other than the permission error when nothing matches, … -/
example : specQuery [⟨"actions/*", none⟩] exQD exAll exInv ⟨.ok [], none⟩ = some .rejectedFirst := by decide
/-- … a rejection that came after an object was looked up, … -/
example : specQuery [⟨"actions/*", none⟩] exQD { single := [("Host", "h0")] } exInv
    ⟨.error .permission, some [.byName "Host" "h0"]⟩ = some .rejectedFirst := by decide
/-- … an empty success for a forbidden object addressed by name, … -/
example : specQuery [⟨"objects/query/*", some (fun o => o.name == "h1")⟩] exQD
    { single := [("Host", "h0")] } exInv ⟨.ok [], none⟩ = some .forbiddenByName := by decide
/-- … an object that is not registered, and a granted join without permission. -/
example : specQuery exUser exQD exAll exInv ⟨.ok [⟨"Host", "ghost"⟩], none⟩ = some .returnedExists := by decide
example : specAccess exUser "objects/query/Host" exH0 true = none ∧
    specAccess [⟨"objects/query/*", some (fun o => o.name == "h1")⟩] "objects/query/Host" exH0 true
      = some .grantedAllowed := by decide

end Icinga.C18

/-
  C18 — property theorems.  Every `theorem` in this file is a proof obligation of the check:
  `./check C18` lists them, runs `#print axioms` on each and fails if a required one is missing.
  Helper lemmas live in IcingaProofs/C18/Lemmas.lean.

  All statements quantify over every user (any list of plain and filtered permission entries, filters that
  may raise errors and may read the shared permission frame), every required permission, every query
  dictionary (single names, plural lists, type, filter, any mixture), every inventory, both kinds of
  provider, and every answer of the fast-path recogniser.  `qd.permission ≠ ""`: a request that requires
  *no* permission (filterutility.cpp:187-188) is outside the property.  `filterTargets` is the code as it is
  (after bce4be0, the repair of finding F-C18a); `filterTargetsUnrepaired` is the variant before it.
-/
import IcingaProofs.C18.Lemmas
import IcingaProofs.C18.Lookup
import IcingaProofs.C18.Mask
import IcingaProofs.Gen.Permissions

namespace Icinga.C18

/-- **wildcard_match_spec.**  The matcher decides exactly the declarative wildcard language: `*` stands
    for any (possibly empty) text, `?` for exactly one character, every other mask element for itself up
    to ASCII case. -/
theorem wildcard_match_spec (ts : List Tok) (s : List Char) : matchToks ts s = true ↔ Denotes ts s :=
  ⟨matchToks_sound ts s, matchToks_complete⟩

/-- … and hence permission patterns are matched case-insensitively (both sides are lower-cased first). -/
theorem permission_match_spec (pattern required : String) :
    wildMatch pattern required = true ↔ Denotes (tokenize (lower pattern)) (lower required) :=
  wildcard_match_spec _ _

/-- **targets_subset_allowed.**  Every object returned by `filterTargets` — whether it was addressed by a
    single name, in a plural name list, selected by a user filter (evaluated or through the name-index fast
    path), or by no addressing at all, and in any mixture of these — is one the user is allowed to act on
    (some matching permission without filter, or with a filter that is true of the object evaluated alone),
    and is a registered object. -/
theorem targets_subset_allowed (u : User) (qd : QD) (q : Query) (inv : Inventory) (objs : List Obj)
    (hperm : qd.permission ≠ "") (h : (filterTargets u qd q inv).result = .ok objs) :
    ∀ o ∈ objs, Allowed u qd.permission o ∧ o ∈ inv := by
  obtain ⟨hp, hall⟩ := filterTargets_ok false u qd q inv objs (Or.inl rfl) h
  rw [hasPermission_of_ne hperm] at hp
  intro o ho
  exact ⟨pfIso_allowed hperm hp (hall o ho).1, (hall o ho).2⟩

/-! ### The variant before the repair of F-C18a (bce4be0)

  Before bce4be0 the permission frame kept its namespace for the whole request, so a permission filter that
  reads `service` saw, on a Host, the Service an earlier part of the same request had visited.  The
  statements below are about that variant (`filterTargetsUnrepaired`) only; they record why the frame must
  be emptied per object and serve as regression witnesses (the corpus replays them on the implementation). -/

/-- For the un-repaired variant the statement holds exactly under `IsoVisit`: frame-independent filters, or a
    request that can only visit one kind of object with respect to `service` (every single-type request). -/
theorem unrepaired_targets_subset_allowed_of_isoVisit (u : User) (qd : QD) (q : Query) (inv : Inventory)
    (objs : List Obj) (hperm : qd.permission ≠ "") (hiso : IsoVisit true qd.types u)
    (h : (filterTargetsUnrepaired u qd q inv).result = .ok objs) :
    ∀ o ∈ objs, Allowed u qd.permission o ∧ o ∈ inv := by
  obtain ⟨hp, hall⟩ := filterTargets_ok true u qd q inv objs hiso h
  rw [hasPermission_of_ne hperm] at hp
  intro o ho
  exact ⟨pfIso_allowed hperm hp (hall o ho).1, (hall o ho).2⟩

/-! The witness of F-C18a: permission `actions/*` with the filter `{{ service.vars.ok }}` (it needs `service`;
    on a Host alone it raises an error), the action query `service=h1!s0&type=Host&filter=true`. -/
def cxHost : Obj := ⟨"Host", "h0"⟩
def cxSvc : Obj := ⟨"Service", "h1!s0"⟩
def cxSvc2 : Obj := ⟨"Service", "h1!s1"⟩
def cxInv : Inventory := [cxHost, cxSvc, cxSvc2]
def cxUser : User := [⟨"actions/*", some (fun b _ => b.map (fun s => s.name == "h1!s0"))⟩]
def cxQD : QD := { types := ["Host", "Service"], permission := "actions/reschedule-check" }
def cxTrue : UFilter := { pred := fun _ => some true, fast := none }
def cxQ : Query :=
  { single := [("Service", "h1!s0")], type := some "Host", typeValid := true, filter := some cxTrue }

/-- **unrepaired_shared_frame_returns_forbidden.**  The un-repaired variant returns the host although the
    user's only permission filter is not true of it; the code as it is refuses the request (the filter
    raises on the first host, exactly as for the plain query for the hosts). -/
theorem unrepaired_shared_frame_returns_forbidden :
    (filterTargetsUnrepaired cxUser cxQD cxQ cxInv).result = .ok [cxSvc, cxHost] ∧
    allowedB cxUser cxQD.permission cxHost = false ∧
    (filterTargets cxUser cxQD cxQ cxInv).result = .error .other ∧
    (filterTargets cxUser cxQD { type := some "Host", typeValid := true, filter := some cxTrue } cxInv).result
      = .error .other := by decide

/-- **no_permission_rejects_first.**  When no entry of the user matches the required permission the
    request fails with the permission error and the provider / inventory was never consulted (empty
    access log). -/
theorem no_permission_rejects_first (u : User) (qd : QD) (q : Query) (inv : Inventory)
    (hperm : qd.permission ≠ "") (hno : ∀ p ∈ u, wildMatch p.pattern qd.permission = false) :
    (filterTargets u qd q inv).result = .error .permission ∧ (filterTargets u qd q inv).log = [] := by
  have : hasPermission u qd.permission = false := by
    rw [hasPermission_of_ne hperm, someMatch]
    simp only [List.any_eq_false]
    intro p hp
    simp [hno p hp]
  simp [filterTargets, filterTargetsWith, this]

/-- **forbidden_by_name_is_error.**  If the query addresses by name (single or inside a plural list,
    possibly together with other names, a type and a filter) an existing object that the user is not
    allowed to act on, the whole request is an error — never that object, never an empty success. -/
theorem forbidden_by_name_is_error (u : User) (qd : QD) (q : Query) (inv : Inventory) (t n : String) (o : Obj)
    (hperm : qd.permission ≠ "")
    (hreq : (t, n) ∈ namedRequests qd.types q) (hl : lookup inv t n = some o)
    (hforbidden : ¬ Allowed u qd.permission o) :
    ∃ e, (filterTargets u qd q inv).result = .error e := by
  by_cases hm : someMatch u qd.permission = true
  · exact filterTargets_forbidden false u qd q inv t n o (Or.inl rfl) hreq hl
      (pfIso_ne_of_not_allowed hperm hm hforbidden)
  · refine ⟨.permission, ?_⟩
    have : hasPermission u qd.permission = false := by
      rw [hasPermission_of_ne hperm]; simpa using hm
    simp [filterTargets, filterTargetsWith, this]

/-- **forbidden_single_name_is_denied.**  The plain case of the sentence in the property: one name, nothing
    else — the error is "Access denied" (or the error the filter itself raised on that object) and only
    that object was looked up. -/
theorem forbidden_single_name_is_denied (u : User) (perm t n : String) (o : Obj) (inv : Inventory)
    (cfg : Bool) (hperm : perm ≠ "") (hm : someMatch u perm = true)
    (hl : lookup inv t n = some o) (hforbidden : ¬ Allowed u perm o) :
    let r := filterTargets u { types := [t], permission := perm, cfgProvider := cfg }
                { single := [(t, n)], type := some t, typeValid := true } inv
    (r.result = .error .denied ∨ r.result = .error .other) ∧ r.log = [.byName t n] := by
  have hpf := pfIso_ne_of_not_allowed hperm hm hforbidden
  have hp : hasPermission u perm = true := by rw [hasPermission_of_ne hperm]; exact hm
  have hframe : frameFor false none o = bindSvc none o := rfl
  unfold pfIso at hpf
  cases hv : pfVal (permissionFilters u perm) (bindSvc none o) o with
  | none => simp [filterTargets, filterTargetsWith, hp, namedSteps, runNamed, hl, hframe, hv, List.lookup]
  | some b =>
    cases b with
    | true => exact absurd hv hpf
    | false => simp [filterTargets, filterTargetsWith, hp, namedSteps, runNamed, hl, hframe, hv, List.lookup]

/-- **joined_access_subset_allowed.**  The per-object decision taken for joined objects
    (HasPermission + EvaluateFilter in a frame of its own, objectqueryhandler.cpp:262-299) grants only
    allowed objects. -/
theorem joined_access_subset_allowed (u : User) (perm : String) (o : Obj) (hperm : perm ≠ "")
    (h : accessGranted u perm o = true) : Allowed u perm o := by
  simp only [accessGranted, Bool.and_eq_true, beq_iff_eq] at h
  rw [hasPermission_of_ne hperm] at h
  exact pfIso_allowed hperm h.1 h.2

/-- **joined_objects_allowed.**  A joined object that is serialized into a query response is one the user is
    allowed to query under the permission of the joined object's own type — whatever other objects, of
    whatever type, share its name. -/
theorem joined_objects_allowed (u : User) (joined : Obj) (h : joinIncluded u joined = true) :
    Allowed u ("objects/query/" ++ joined.type) joined ∧ specJoin u joined true = none := by
  have hne : "objects/query/" ++ joined.type ≠ "" := by
    intro h0
    have := congrArg String.length h0
    simp [String.length_append] at this
  have ha := joined_access_subset_allowed u _ joined hne h
  exact ⟨ha, by simp [specJoin, (allowedB_iff _ _ _).2 ha]⟩

/-- objects of different types sharing the name "agent1": the endpoint may be joined, the host may not -/
example :
    let u : User := [⟨"objects/query/Endpoint", none⟩, ⟨"objects/query/Host", some (fun _ o => some (o.name == "other"))⟩]
    joinIncluded u ⟨"Endpoint", "agent1"⟩ = true ∧ joinIncluded u ⟨"Host", "agent1"⟩ = false ∧
    specJoin u ⟨"Host", "agent1"⟩ true = some .joinedAllowed := by decide

/-- **handler_targets_subset_allowed.**  What the object query/modify/delete handlers obtain from
    `GetFilterTargets` for a request on `/v1/objects/<type>[/<name>]` only contains objects the user is
    allowed under `objects/<verb>/<Type>` — for the code as it is: these requests are over a single type. -/
theorem handler_targets_subset_allowed (u : User) (verb type : String) (pathName : Option String) (q : Query)
    (inv : Inventory) (objs : List Obj) (h : handlerTargets u verb type pathName q inv = .ok objs) :
    ∀ o ∈ objs, Allowed u ("objects/" ++ verb ++ "/" ++ type) o ∧ o ∈ inv := by
  have hne : (handlerQD verb type).permission ≠ "" := by
    intro h0
    have := congrArg String.length h0
    simp [handlerQD, String.length_append] at this
  exact targets_subset_allowed u (handlerQD verb type) (handlerQuery type pathName q) inv objs hne h

/-- **result_independent_of_visit_order.**  Two requests that address the same names in a different order
    (e.g. a permuted plural name list) and are otherwise equal have the same outcome: both fail, or both
    return the same objects with the same multiplicities. -/
theorem result_independent_of_visit_order (u : User) (qd : QD) (q1 q2 : Query) (inv : Inventory)
    (hsteps : (namedSteps qd.types q1).Perm (namedSteps qd.types q2))
    (ht : q1.type = q2.type) (hv : q1.typeValid = q2.typeValid) (hf : q1.filter = q2.filter) :
    specOrder (filterTargets u qd q1 inv).result (filterTargets u qd q2 inv).result = none := by
  have hiso : IsoVisit false qd.types u := Or.inl rfl
  have hsame : sameOutcome (filterTargets u qd q1 inv).result (filterTargets u qd q2 inv).result = true := by
    unfold filterTargets
    rw [filterTargets_result, filterTargets_result]
    cases hasPermission u qd.permission with
    | false => rfl
    | true =>
      simp only [if_true]
      have hty1 : ∀ t n, Step.get t n ∈ namedSteps qd.types q1 → t ∈ qd.types := fun t n hm => mem_namedSteps_type hm
      have hty2 : ∀ t n, Step.get t n ∈ namedSteps qd.types q2 → t ∈ qd.types := fun t n hm => mem_namedSteps_type hm
      by_cases hall : ∀ s ∈ namedSteps qd.types q1, stepOk (permissionFilters u qd.permission) inv s = true
      · have hall2 : ∀ s ∈ namedSteps qd.types q2, stepOk (permissionFilters u qd.permission) inv s = true :=
          fun s hs => hall s (hsteps.mem_iff.2 hs)
        have r1 := runNamed_all_ok (perm := qd.permission) inv hiso _ none hty1 (StInv_none _) hall
        have r2 := runNamed_all_ok (perm := qd.permission) inv hiso _ none hty2 (StInv_none _) hall2
        exact finish_same qd q1 q2 inv _ _ hiso ht hv hf _ _ r1.1 r2.1 (hsteps.filterMap _) r1.2 r2.2
      · simp only [Classical.not_forall] at hall
        obtain ⟨s, hs, hb⟩ := hall
        have hb' : stepOk (permissionFilters u qd.permission) inv s = false := by simpa using hb
        obtain ⟨e1, he1⟩ := runNamed_some_bad (perm := qd.permission) inv hiso _ none hty1 (StInv_none _) ⟨s, hs, hb'⟩
        obtain ⟨e2, he2⟩ := runNamed_some_bad (perm := qd.permission) inv hiso _ none hty2 (StInv_none _)
          ⟨s, hsteps.mem_iff.1 hs, hb'⟩
        simp only [finish, he1, he2]
        rfl
  simp [specOrder, hsame]

/-- two services in a plural list, both allowed by themselves; before the repair the hosts were returned only
    when the list ended with the service the filter likes -/
def cxUser2 : User :=
  [⟨"actions/*", some (fun b o => b.map (fun s => s.name == "h1!s0" || o.type == "Service"))⟩]
def cxQ12 : Query :=
  { plural := [("Service", ["h1!s1", "h1!s0"])], type := some "Host", typeValid := true, filter := some cxTrue }
def cxQ21 : Query :=
  { plural := [("Service", ["h1!s0", "h1!s1"])], type := some "Host", typeValid := true, filter := some cxTrue }

/-- **unrepaired_shared_frame_depends_on_visit_order.**  In the un-repaired variant the same names in the other
    order return a different set; the code as it is refuses both requests alike. -/
theorem unrepaired_shared_frame_depends_on_visit_order :
    (filterTargetsUnrepaired cxUser2 cxQD cxQ12 cxInv).result = .ok [cxSvc2, cxSvc, cxHost] ∧
    (filterTargetsUnrepaired cxUser2 cxQD cxQ21 cxInv).result = .ok [cxSvc, cxSvc2] ∧
    specOrder (filterTargets cxUser2 cxQD cxQ12 cxInv).result (filterTargets cxUser2 cxQD cxQ21 cxInv).result = none := by
  decide

/-- **handler_permission_table_matches_source.**  The table of permission checks regenerated from `/repo/lib`
    on every run (gen/c18_permissions.py) contains the permission expressions the model and the harness use
    for the dispatched handlers, and none of the checks asks for the empty permission (so the hypothesis
    `permission ≠ ""` of the theorems above excludes no handler); and the model builds exactly those strings. -/
theorem handler_permission_table_matches_source :
    permissionTableOk Gen.handlerPermissions = true ∧
    (handlerQD "query" "T").permission = "objects/query/T" ∧
    (handlerQD "modify" "T").permission = "objects/modify/T" ∧
    (handlerQD "delete" "T").permission = "objects/delete/T" ∧
    (actionQD "a").permission = "actions/a" ∧
    handlerPermission "templates" = some "templates/query/Host" ∧
    handlerPermission "variables" = some "variables" ∧ handlerPermission "types" = some "types" ∧
    handlerPermission "status" = some "status/query" ∧ handlerPermission "console" = some "console" := by
  decide

/-- the table check is not vacuous: a table that lost `variables`, or one with an empty permission, fails -/
example : permissionTableOk ["objects/query/<>", "objects/modify/<>", "objects/delete/<>", "actions/<>",
    "templates/query/<>", "types", "status/query", "console"] = false := by decide
example : permissionTableOk ("" :: usedPermissionExprs) = false := by decide
example : permissionTableOk (usedPermissionExprs ++ ["newhandler/<>"]) = true := by decide

/-- **model_query_meets_spec** (the whole property as one statement).  For every user, required permission,
    query, inventory, provider kind and recogniser answer, the outcome of the model — result and
    provider-call log — satisfies the executable specification `specQuery`. -/
theorem model_query_meets_spec (u : User) (qd : QD) (q : Query) (inv : Inventory) :
    specQuery u qd q inv ⟨(filterTargets u qd q inv).result, some (filterTargets u qd q inv).log⟩ = none := by
  unfold specQuery
  by_cases hperm : qd.permission = ""
  · simp [hperm]
  · have hne : (qd.permission == "") = false := by simp [hperm]
    simp only [hne, Bool.false_eq_true, if_false]
    by_cases hm : someMatch u qd.permission = true
    · simp only [hm, Bool.not_true, Bool.false_eq_true, if_false]
      cases hr : (filterTargets u qd q inv).result with
      | error e => rfl
      | ok objs =>
        have hall := targets_subset_allowed u qd q inv objs hperm hr
        have h1 : (objs.any fun o => !inv.contains o) = false := by
          simp only [List.any_eq_false]
          intro o ho
          simp [(hall o ho).2]
        have h2 : (objs.any fun o => !allowedB u qd.permission o) = false := by
          simp only [List.any_eq_false]
          intro o ho
          simp [(allowedB_iff u qd.permission o).2 (hall o ho).1]
        have h3 : forbiddenNamed u qd.permission qd.types q inv = false := by
          cases hf : forbiddenNamed u qd.permission qd.types q inv with
          | false => rfl
          | true =>
            exfalso
            simp only [forbiddenNamed, List.any_eq_true] at hf
            obtain ⟨⟨t, n⟩, hreq, hx⟩ := hf
            cases hl : lookup inv t n with
            | none => simp [hl] at hx
            | some o =>
              simp only [hl, Bool.not_eq_true'] at hx
              have hna : ¬ Allowed u qd.permission o := by
                intro ha
                rw [(allowedB_iff u qd.permission o).2 ha] at hx
                cases hx
              obtain ⟨e, he⟩ := forbidden_by_name_is_error u qd q inv t n o hperm hreq hl hna
              rw [hr] at he
              cases he
        simp only [h1, h2, h3, Bool.false_eq_true, if_false]
    · have hm' : someMatch u qd.permission = false := by simpa using hm
      have hno : ∀ p ∈ u, wildMatch p.pattern qd.permission = false := by
        simpa [someMatch, List.any_eq_false] using hm'
      obtain ⟨h1, h2⟩ := no_permission_rejects_first u qd q inv hperm hno
      simp [hm', h1, h2, isRejected, logEmpty]

/-- the specification does reject the outcome the un-repaired variant produced for the witness of F-C18a -/
example : specQuery cxUser cxQD cxQ cxInv
    ⟨(filterTargetsUnrepaired cxUser cxQD cxQ cxInv).result, some (filterTargetsUnrepaired cxUser cxQD cxQ cxInv).log⟩
    = some .returnedAllowed := by decide

/-- **model_access_meets_spec.**  The same for the per-object decision. -/
theorem model_access_meets_spec (u : User) (perm : String) (o : Obj) :
    specAccess u perm o (accessGranted u perm o) = none := by
  unfold specAccess
  by_cases hperm : perm = ""
  · simp [hperm]
  · cases hg : accessGranted u perm o with
    | false => simp
    | true =>
      have := (allowedB_iff u perm o).2 (joined_access_subset_allowed u perm o hperm hg)
      simp [this]

/-- **model_grant_meets_spec.**  A bare permission check grants only with a matching entry. -/
theorem model_grant_meets_spec (u : User) (perm : String) :
    specGrant u perm (hasPermission u perm) = none := by
  unfold specGrant
  by_cases hperm : perm = ""
  · simp [hperm]
  · rw [hasPermission_of_ne hperm]
    cases someMatch u perm <;> simp

/-! ### Authentication -/

def AuthResult.attributed : AuthResult → Option AUser
  | .user u => some u
  | _ => none

/-- **authenticate_header_only_with_password.**  GetByAuthHeader attributes a request to user U only if the header
    is `Basic`, decodes, names U before the first colon and carries after it U's configured password, which is
    not empty — for every user inventory (users without password included), header and decoder answer. -/
theorem authenticate_header_only_with_password (users : List AUser) (header : String) (decoded : Option String)
    (u : AUser) (h : authByHeader users header decoded = .user u) :
    u ∈ users ∧ ∃ pw, credentialsOf header decoded = some (u.name, pw) ∧ pw ≠ "" ∧ pw = u.password := by
  unfold authByHeader at h
  cases hc : credentialsOf header decoded with
  | none => simp [hc] at h
  | some np =>
    obtain ⟨n, pw⟩ := np
    simp only [hc] at h
    cases hf : users.find? (·.name == n) with
    | none => simp [hf] at h
    | some u' =>
      simp only [hf] at h
      by_cases hpe : pw = ""
      · simp [hpe] at h
      · by_cases hpw : pw = u'.password
        · have hpe' : ¬ u'.password = "" := hpw ▸ hpe
          simp [hpw, hpe'] at h
          subst h
          have hn := List.find?_some hf
          simp only [beq_iff_eq] at hn
          exact ⟨List.mem_of_find?_eq_some hf, pw, by rw [hn], hpe, hpw⟩
        · simp [hpe, hpw] at h

/-- **authenticate_cn_only_with_cn.**  GetByClientCN attributes a connection to user U only if U is configured and
    U's `client_cn` is the presented CN (whichever of several such users the registry yields). -/
theorem authenticate_cn_only_with_cn (users : List AUser) (cn : String) (u : AUser) (h : u ∈ authByCN users cn) :
    u ∈ users ∧ u.clientCN = cn := by
  unfold authByCN at h
  obtain ⟨h1, h2⟩ := List.mem_filter.1 h
  exact ⟨h1, by simpa using h2⟩

/-- **model_auth_meets_spec.**  The model's attribution satisfies the executable clause, for both ways in. -/
theorem model_auth_meets_spec (users : List AUser) (header : String) (decoded : Option String) (cn : String) :
    specAuthHeader header decoded (authByHeader users header decoded).attributed = none ∧
    ∀ u ∈ authByCN users cn, specAuthCN cn (some u) = none := by
  constructor
  · cases hr : authByHeader users header decoded with
    | user u =>
      obtain ⟨_, pw, hc, hne, hpw⟩ := authenticate_header_only_with_password users header decoded u hr
      have hne' : ¬ u.password = "" := hpw ▸ hne
      simp [AuthResult.attributed, specAuthHeader, hc, hpw, hne']
    | nobody => rfl
    | throws => rfl
  · intro u hu
    simp [specAuthCN, (authenticate_cn_only_with_cn users cn u hu).2]

def exUsers : List AUser := [⟨"root", "pw", ""⟩, ⟨"agent", "", "cn1"⟩, ⟨"web", "a:b", "cn1"⟩]

/-- the hypotheses are satisfiable, and the cases the property names: a user without password is not attributed
    by an empty (or any) password, a password containing a colon works, prefix / longer / wrong passwords do not,
    a missing colon, another scheme and an undecodable text attribute nobody -/
example : authByHeader exUsers "Basic x" (some "root:pw") = .user ⟨"root", "pw", ""⟩ ∧
    authByHeader exUsers "Basic x" (some "agent:") = .nobody ∧
    authByHeader exUsers "Basic x" (some "agent:pw") = .nobody ∧
    authByHeader exUsers "Basic x" (some "web:a:b") = .user ⟨"web", "a:b", "cn1"⟩ ∧
    authByHeader exUsers "Basic x" (some "root:p") = .nobody ∧
    authByHeader exUsers "Basic x" (some "root:pwx") = .nobody ∧
    authByHeader exUsers "Basic x" (some "root:") = .nobody ∧
    authByHeader exUsers "Basic x" (some "root") = .nobody ∧
    authByHeader exUsers "Basic x" (some "nobody:pw") = .nobody ∧
    authByHeader exUsers "basic x" (some "root:pw") = .nobody ∧
    authByHeader exUsers "Basic" (some "root:pw") = .nobody ∧
    authByHeader exUsers "Basic !" none = .throws ∧
    authByCN exUsers "cn1" = [⟨"agent", "", "cn1"⟩, ⟨"web", "a:b", "cn1"⟩] ∧ authByCN exUsers "CN1" = [] := by decide

/-- the clause is not vacuous: attributing the password-less user to a request with an empty password, or a user to
    a foreign CN, is rejected -/
example : specAuthHeader "Basic x" (some "agent:") (some ⟨"agent", "", "cn1"⟩) = some .attributedWithoutCredential ∧
    specAuthCN "cn2" (some ⟨"agent", "", "cn1"⟩) = some .attributedWithoutCredential := by decide

/-- NOTE (question Q-C18b, not part of the clause): an EMPTY certificate CN equals the `client_cn` of every user
    that has none configured, so GetByClientCN("") yields such a user.  HttpServerConnection passes the CN of a
    certificate the CA verified; whether an empty CN can get that far is outside this model. -/
example : authByCN exUsers "" = [⟨"root", "pw", ""⟩] := by decide

/-! ### The converse is deliberately not claimed

  Full converse (NOT a theorem):  `Allowed u perm o → o ∈ ofType inv t → o` is returned by the plain
  type query.  It fails because a matching entry *without* a filter adds nothing to the OR of filters
  (filterutility.cpp:213): next to a filtered matching entry it does not widen access.  That is
  over-restriction and inside the property's "only if". -/

def exH0 : Obj := ⟨"Host", "h0"⟩
def exH1 : Obj := ⟨"Host", "h1"⟩
def exInv : Inventory := [exH0, exH1, ⟨"Service", "h0!s0"⟩]
/-- one filtered and one unfiltered matching entry, a near miss, and an entry for another permission -/
def exUser : User :=
  [ ⟨"objects/QUERY/*", some (fun _ o => some (o.name == "h1"))⟩, ⟨"*/host", none⟩,
    ⟨"objects/query/Hos", none⟩, ⟨"actions/*", none⟩ ]
def exQD : QD := { types := ["Host"], permission := "objects/query/Host" }
def exAll : Query := { type := some "Host", typeValid := true }

theorem converse_fails_by_overrestriction :
    Allowed exUser exQD.permission exH0 ∧ exH0 ∈ ofType exInv "Host" ∧
    (filterTargets exUser exQD exAll exInv).result = .ok [exH1] := by
  refine ⟨(allowedB_iff _ _ _).1 (by decide), by decide, ?_⟩
  decide

/-! ### Non-vacuity -/

/-- hypotheses of `targets_subset_allowed` hold on a non-trivial state (a non-empty result) -/
example : exQD.permission ≠ "" ∧ (filterTargets exUser exQD exAll exInv).result = .ok [exH1] := by decide

/-- every addressing path on one query: name + plural list + fast-path filter -/
example :
    (filterTargets [⟨"objects/query/host", some (fun _ o => some (o.name != "h0"))⟩] exQD
      { single := [("Host", "h1")], plural := [("Host", ["h1"])], type := some "Host", typeValid := true,
        filter := some { pred := fun _ => some true, fast := some ["h0", "h1", "nope"] } }
      exInv).result = .ok [exH1, exH1, exH1] := by decide

/-- hypotheses of `no_permission_rejects_first`: a user with entries, none of which matches -/
example : ∀ p ∈ ([⟨"objects/query/Hos", none⟩, ⟨"actions/*", none⟩] : User),
    wildMatch p.pattern "objects/query/Host" = false := by decide

/-- hypotheses of `forbidden_by_name_is_error` / `forbidden_single_name_is_denied` -/
example : ("Host", "h0") ∈ namedRequests exQD.types { single := [("Host", "h0")] } ∧
    lookup exInv "Host" "h0" = some exH0 ∧
    someMatch [⟨"objects/query/*", some (fun _ o => some (o.name == "h1"))⟩] exQD.permission = true ∧
    allowedB [⟨"objects/query/*", some (fun _ o => some (o.name == "h1"))⟩] exQD.permission exH0 = false := by decide

/-- hypotheses of `result_independent_of_visit_order`: a plural list in two orders, one name allowed and
    one forbidden — both requests fail, whatever the order -/
example :
    (namedSteps exQD.types { plural := [("Host", ["h1", "h0"])], type := some "Host", typeValid := true }).Perm
      (namedSteps exQD.types { plural := [("Host", ["h0", "h1"])], type := some "Host", typeValid := true }) ∧
    (filterTargets exUser exQD { plural := [("Host", ["h1", "h0"])], type := some "Host", typeValid := true } exInv).result
      = .error .denied ∧
    (filterTargets exUser exQD { plural := [("Host", ["h0", "h1"])], type := some "Host", typeValid := true } exInv).result
      = .error .denied := by
  refine ⟨List.isPerm_iff.1 (by decide), by decide, by decide⟩

/-- the order clause is not vacuous: one order succeeds, the other fails -/
example : specOrder (.ok [exH1, exH0]) (.error .denied) = some .orderIndependent := by decide
example : specOrder (.ok [exH1, exH0]) (.ok [exH0, exH1]) = none := by decide

/-- `wildcard_match_spec`: a mask with `*`, `?`, an escaped `*` and mixed case -/
example : matchToks (tokenize "a*?\\*C".toList) "AxyZ*c".toList = true := by decide
example : matchToks (tokenize "a*?\\*C".toList) "A*c".toList = false := by decide

/-- the specification is not vacuous: it rejects a forbidden object in the result, … -/
example : specQuery [⟨"objects/query/*", some (fun _ o => some (o.name == "h1"))⟩] exQD exAll exInv ⟨.ok [exH0, exH1], none⟩
    = some .returnedAllowed := by decide
/-- … an answer other than the permission error when nothing matches, … -/
example : specQuery [⟨"actions/*", none⟩] exQD exAll exInv ⟨.ok [], none⟩ = some .rejectedFirst := by decide
/-- … a rejection that came after an object was looked up, … -/
example : specQuery [⟨"actions/*", none⟩] exQD { single := [("Host", "h0")] } exInv
    ⟨.error .permission, some [.byName "Host" "h0"]⟩ = some .rejectedFirst := by decide
/-- … an empty success for a forbidden object addressed by name, … -/
example : specQuery [⟨"objects/query/*", some (fun _ o => some (o.name == "h1"))⟩] exQD
    { single := [("Host", "h0")] } exInv ⟨.ok [], none⟩ = some .forbiddenByName := by decide
/-- … an object that is not registered, and a granted join without permission. -/
example : specQuery exUser exQD exAll exInv ⟨.ok [⟨"Host", "ghost"⟩], none⟩ = some .returnedExists := by decide
example : specAccess exUser "objects/query/Host" exH0 true = none ∧
    specAccess [⟨"objects/query/*", some (fun _ o => some (o.name == "h1"))⟩] "objects/query/Host" exH0 true
      = some .grantedAllowed := by decide

/-! ### Further entry points: actions of every type list, the by-name lookup of execute-command, objects changed by a
    modify request, bare permission checks, object creation -/

/-- **action_targets_subset_allowed.**  For every action and every list of registered types (Host/Service, with Comment
    or Downtime, or anything else) the objects the ActionsHandler obtains — and invokes the action on — are allowed under
    `actions/<name>` and registered. -/
theorem action_targets_subset_allowed (u : User) (action : String) (types : List String) (q : Query) (inv : Inventory)
    (objs : List Obj) (h : (filterTargets u (actionQDT action types) q inv).result = .ok objs) :
    ∀ o ∈ objs, Allowed u ("actions/" ++ action) o ∧ o ∈ inv := by
  have hne : (actionQDT action types).permission ≠ "" := by
    intro h0
    have := congrArg String.length h0
    simp [actionQDT, String.length_append] at this
  exact targets_subset_allowed u (actionQDT action types) q inv objs hne h

/-- **lookup_by_name_allowed.**  What `GetSingleObjectByNameUsingPermissions(T, name, user)` hands out (to
    execute-command: the endpoint, the command, the user, the notification) is the registered object of type `T` and
    that name, and the user is allowed to query it: `objects/query/T` matches and its filter is true of the object. -/
theorem lookup_by_name_allowed (u : User) (type name : String) (inv : Inventory) (o : Obj)
    (h : lookupByPermission u type name inv = some o) :
    Allowed u ("objects/query/" ++ type) o ∧ o ∈ inv ∧ o.type = type ∧ o.name = name := by
  unfold lookupByPermission at h
  cases hr : (filterTargets u (handlerQD "query" type) (lookupQuery type name) inv).result with
  | error e => simp [hr] at h
  | ok objs =>
    obtain ⟨o', rfl, hl⟩ := singleName_result u "query" type name inv objs hr
    simp only [hr, Option.some.injEq] at h
    subst h
    have hne : (handlerQD "query" type).permission ≠ "" := by
      intro h0
      have := congrArg String.length h0
      simp [handlerQD, String.length_append] at this
    have ha := targets_subset_allowed u (handlerQD "query" type) (lookupQuery type name) inv [o'] hne hr o' (by simp)
    exact ⟨by simpa [handlerQD] using ha.1, ha.2, lookup_type hl, lookup_name hl⟩

/-- **model_lookup_meets_spec.**  … and hence the executable clause holds of the model's lookup, for every user,
    type, name and inventory. -/
theorem model_lookup_meets_spec (u : User) (type name : String) (inv : Inventory) :
    specLookup u type name inv (lookupByPermission u type name inv) = none := by
  cases hr : lookupByPermission u type name inv with
  | none => rfl
  | some o =>
    obtain ⟨ha, hin, ht, hn⟩ := lookup_by_name_allowed u type name inv o hr
    have hb := (allowedB_iff _ _ _).2 ha
    have hm : someMatch u ("objects/query/" ++ type) = true := by
      obtain ⟨p, hp, hw, _⟩ := ha
      simp only [someMatch, List.any_eq_true]
      exact ⟨p, hp, hw⟩
    simp [specLookup, hm, ht, hn, hin, hb]

/-- hypotheses satisfiable: a permitted endpoint is handed out, a forbidden and a missing one are not, and the clause
    rejects handing out the forbidden one or another object than the one named -/
example :
    let u : User := [⟨"objects/query/Endpoint", some (fun _ o => some (o.name == "agent"))⟩]
    let inv : Inventory := [⟨"Endpoint", "agent"⟩, ⟨"Endpoint", "master"⟩, ⟨"Host", "agent"⟩]
    lookupByPermission u "Endpoint" "agent" inv = some ⟨"Endpoint", "agent"⟩ ∧
    lookupByPermission u "Endpoint" "master" inv = none ∧ lookupByPermission u "Endpoint" "nope" inv = none ∧
    lookupByPermission u "Host" "agent" inv = none ∧
    specLookup u "Endpoint" "master" inv (some ⟨"Endpoint", "master"⟩) = some .returnedAllowed ∧
    specLookup u "Endpoint" "master" inv (some ⟨"Endpoint", "agent"⟩) = some .lookupNamed ∧
    specLookup u "Host" "agent" inv (some ⟨"Host", "agent"⟩) = some .rejectedFirst := by decide

/-- **modify_changes_subset_allowed.**  The objects a modify request changes are allowed under `objects/modify/<Type>`
    and registered; when no entry matches that permission nothing is changed. -/
theorem modify_changes_subset_allowed (u : User) (type : String) (pathName : Option String) (q : Query) (inv : Inventory) :
    (∀ o ∈ modifyChanged u type pathName q inv, Allowed u ("objects/modify/" ++ type) o ∧ o ∈ inv) ∧
    specChanged u ("objects/modify/" ++ type) (modifyChanged u type pathName q inv) = none := by
  have hne : "objects/modify/" ++ type ≠ "" := by
    intro h0
    have := congrArg String.length h0
    simp [String.length_append] at this
  have hall : ∀ o ∈ modifyChanged u type pathName q inv, Allowed u ("objects/modify/" ++ type) o ∧ o ∈ inv := by
    intro o ho
    unfold modifyChanged at ho
    cases hr : handlerTargets u "modify" type pathName q inv with
    | error e => simp [hr] at ho
    | ok objs =>
      simp only [hr] at ho
      exact handler_targets_subset_allowed u "modify" type pathName q inv objs hr o ho
  refine ⟨hall, ?_⟩
  unfold specChanged
  have hne' : (("objects/modify/" ++ type) == "") = false := by simp [hne]
  simp only [hne', Bool.false_eq_true, if_false]
  by_cases hm : someMatch u ("objects/modify/" ++ type) = true
  · have h2 : ((modifyChanged u type pathName q inv).any fun o => !allowedB u ("objects/modify/" ++ type) o) = false := by
      simp only [List.any_eq_false]
      intro o ho
      simp [(allowedB_iff _ _ _).2 (hall o ho).1]
    simp [hm, h2]
  · have hm' : someMatch u ("objects/modify/" ++ type) = false := by simpa using hm
    have hempty : modifyChanged u type pathName q inv = [] := by
      cases hc : modifyChanged u type pathName q inv with
      | nil => rfl
      | cons o rest =>
        exfalso
        obtain ⟨p, hp, hw, _⟩ := (hall o (by simp [hc])).1
        have : someMatch u ("objects/modify/" ++ type) = true := by
          simp only [someMatch, List.any_eq_true]
          exact ⟨p, hp, hw⟩
        rw [hm'] at this
        cases this
    simp [hm', hempty]

/-- non-vacuity: a type-wide modify request changes exactly the allowed host; the clause rejects a change of the other
    host and any change by a user without a matching entry -/
example :
    let u : User := [⟨"objects/modify/*", some (fun _ o => some (o.name == "h1"))⟩]
    modifyChanged u "Host" none {} exInv = [exH1] ∧
    specChanged u "objects/modify/Host" [exH0, exH1] = some .changedAllowed ∧
    specChanged [⟨"actions/*", none⟩] "objects/modify/Host" [exH1] = some .rejectedFirst := by decide

/-- **bare_check_grants_only_with_match.**  The handlers that only call `CheckPermission(user, perm)` — console, config
    packages/stages/files, debug, actions without types, events — answer 200 only if some entry of the user matches
    their permission. -/
theorem bare_check_grants_only_with_match (u : User) (perm : String) (hperm : perm ≠ "")
    (h : grantStatus u perm = 200) : someMatch u perm = true := by
  unfold grantStatus at h
  rw [hasPermission_of_ne hperm] at h
  cases hm : someMatch u perm with
  | true => rfl
  | false => simp [hm] at h

/-! #### Object creation (finding F-C18b)

  Full statement (NOT a theorem of the code as it is):
    `∀ u type o, specCreate u type o (createGranted u type) = none`
  — an object comes into being only if an entry matches `objects/create/<Type>` whose filter, if it has one, is true of
  the object.  CreateObjectHandler calls `CheckPermission(user, perm)` without a filter pointer
  (createobjecthandler.cpp:44), so the filter of a matching entry is never looked at. -/

/-- **create_grant_partial.**  The statement holds exactly for users none of whose entries matching
    `objects/create/<Type>` carries a filter (and always as far as "some entry matches" goes). -/
theorem create_grant_partial (u : User) (type : String) (o : Obj)
    (hnofilter : ∀ p ∈ u, wildMatch p.pattern ("objects/create/" ++ type) = true → p.filter = none) :
    specCreate u type o (createGranted u type) = none := by
  have hne : "objects/create/" ++ type ≠ "" := by
    intro h0
    have := congrArg String.length h0
    simp [String.length_append] at this
  unfold specCreate createGranted
  rw [hasPermission_of_ne hne]
  cases hm : someMatch u ("objects/create/" ++ type) with
  | false => simp
  | true =>
    obtain ⟨p, hp, hw⟩ : ∃ p ∈ u, wildMatch p.pattern ("objects/create/" ++ type) = true := by
      simpa [someMatch, List.any_eq_true] using hm
    have ha : Allowed u ("objects/create/" ++ type) o := ⟨p, hp, hw, Or.inl (hnofilter p hp hw)⟩
    simp [(allowedB_iff _ _ _).2 ha]

/-- **create_ignores_filter_counterexample** (F-C18b).  A user whose only entry for `objects/create/Host` is restricted
    to the host "good" creates the host "evil": the model (as the code) grants it, the specification rejects it. -/
theorem create_ignores_filter_counterexample :
    let u : User := [⟨"objects/create/Host", some (fun _ o => some (o.name == "good"))⟩]
    createGranted u "Host" = true ∧
    specCreate u "Host" ⟨"Host", "evil"⟩ (createGranted u "Host") = some .createdAllowed ∧
    specCreate u "Host" ⟨"Host", "good"⟩ (createGranted u "Host") = none := by decide

/-- the hypothesis of `create_grant_partial` is satisfiable with a non-trivial user, and without a matching entry a
    creation is rejected by the clause -/
example : (∀ p ∈ ([⟨"objects/create/*", none⟩, ⟨"objects/query/Host", some (fun _ _ => some false)⟩] : User),
      wildMatch p.pattern ("objects/create/" ++ "Host") = true → p.filter = none) ∧
    specCreate [⟨"objects/query/*", none⟩] "Host" ⟨"Host", "x"⟩ true = some .rejectedFirst := by
  refine ⟨?_, by decide⟩
  intro p hp hw
  simp only [List.mem_cons, List.not_mem_nil, or_false] at hp
  rcases hp with rfl | rfl
  · rfl
  · exact absurd hw (by decide)

/-- **entry_point_permissions_match_source.**  The permission strings the model uses for the entry points added in round 3
    (create, config packages, debug, actions without types, the lookup of execute-command) are the ones the regenerated
    table of `/repo/lib` contains; a table that lost `objects/create/<>` fails the check. -/
theorem entry_point_permissions_match_source :
    permissionTableOk Gen.handlerPermissions = true ∧
    (actionQDT "a" ["Host", "Service"]).permission = "actions/a" ∧
    (handlerQD "query" "Endpoint").permission = "objects/query/Endpoint" ∧
    handlerPermission "cfgpackages" = some "config/query" ∧ handlerPermission "cfgcreate" = some "config/modify" ∧
    handlerPermission "debug" = some "debug" ∧
    handlerPermission "act:shutdown-process" = some "actions/shutdown-process" ∧
    handlerPermission "act:restart-process" = some "actions/restart-process" ∧
    handlerPermission "act:generate-ticket" = some "actions/generate-ticket" ∧
    (["objects/create/<>", "config/query", "config/modify", "debug"].all Gen.handlerPermissions.contains) = true := by
  decide

example : permissionTableOk ["objects/query/<>", "objects/modify/<>", "objects/delete/<>", "actions/<>", "templates/query/<>",
    "variables", "types", "status/query", "console", "config/query", "config/modify", "debug"] = false := by decide

/-! ### Round 4: raw permission patterns, every registered handler, whole traces -/

/-- **raw_mask_match_spec.**  `tokenize` + the matcher decide exactly the declarative language of RAW masks: `\*` and `\?`
    stand for the characters `*` and `?`, `*` for any text, `?` for one character, every other character — a lone `\`
    included — for itself up to ASCII case.  (`wildcard_match_spec` spoke of token lists only.) -/
theorem raw_mask_match_spec (m s : List Char) : matchToks (tokenize m) s = true ↔ DenotesMask m s :=
  ⟨fun h => mask_of_denotes_tokenize m s (matchToks_sound _ _ h), fun h => matchToks_complete (denotes_tokenize_of_mask h)⟩

/-- **permission_pattern_spec.**  A permission entry matches a required permission iff the lower-cased required permission is
    in the language of the lower-cased pattern. -/
theorem permission_pattern_spec (pattern required : String) :
    wildMatch pattern required = true ↔ DenotesMask (lower pattern) (lower required) :=
  raw_mask_match_spec _ _

/-- **has_permission_iff_pattern_denotes.**  HasPermission grants a non-empty required permission iff the language of
    some entry's pattern contains it — the property's "one of the user's permissions matches the permission the request
    requires (case-insensitively, with wildcards)", with nothing of the matcher left in the statement. -/
theorem has_permission_iff_pattern_denotes (u : User) (perm : String) (hperm : perm ≠ "") :
    hasPermission u perm = true ↔ ∃ p ∈ u, DenotesMask (lower p.pattern) (lower perm) := by
  rw [hasPermission_of_ne hperm, someMatch, List.any_eq_true]
  constructor
  · rintro ⟨p, hp, hw⟩; exact ⟨p, hp, (permission_pattern_spec _ _).1 hw⟩
  · rintro ⟨p, hp, hd⟩; exact ⟨p, hp, (permission_pattern_spec _ _).2 hd⟩

/-- the escapes: `objects/\*` grants the permission literally called `objects/*` and nothing else; a lone `\` is a
    character; and the declarative language is not everything -/
example : DenotesMask "objects/\\*".toList "objects/*".toList := (raw_mask_match_spec _ _).1 (by decide)
example : ¬ DenotesMask "objects/\\*".toList "objects/query".toList := fun h => absurd ((raw_mask_match_spec _ _).2 h) (by decide)
example : DenotesMask "a\\b?".toList "A\\Bx".toList := (raw_mask_match_spec _ _).1 (by decide)
example : hasPermission [⟨"Objects/*/host", none⟩] "objects/query/Host" = true ∧
    hasPermission [⟨"objects/\\*/host", none⟩] "objects/query/Host" = false := by decide

/-- **every_url_handler_checks_its_permission.**  In the table regenerated from `/repo/lib` on every run, every class
    registered with REGISTER_URLHANDLER has `Handle*` method bodies, every such method that handles a request itself (does
    not just dispatch to HandleGet/HandlePost/HandleDelete) contains a permission check — InfoHandler, which only shows the
    user's own permissions, excepted —, no check asks for the empty permission, each handler class asks for the permission
    the model assumes for it (objects/create/<> in CreateObjectHandler, config/modify in both config handlers that write,
    …), and a handler class unknown to the model checks something. -/
theorem every_url_handler_checks_its_permission :
    handlerTableOk Gen.urlHandlers Gen.urlHandlerChecks = true := by decide

/-- not vacuous: losing the check of CreateObjectHandler, of one verb of a config handler, the body of a registered class,
    or a new handler without any check fails; a new handler with a permission of its own and a reordered table pass -/
example : handlerTableOk Gen.urlHandlers
    (Gen.urlHandlerChecks.map fun r => if r.1 == "CreateObjectHandler" then (r.1, r.2.1, [], r.2.2.2) else r) = false := by decide
example : handlerTableOk Gen.urlHandlers
    (Gen.urlHandlerChecks.map fun r => if r.1 == "ConfigStagesHandler" && r.2.1 == "HandlePost" then (r.1, r.2.1, [], false) else r)
    = false := by decide
example : handlerTableOk Gen.urlHandlers
    (Gen.urlHandlerChecks.map fun r => if r.1 == "ConfigFilesHandler" then (r.1, r.2.1, ["config/modify"], false) else r)
    = false := by decide
example : handlerTableOk Gen.urlHandlers (Gen.urlHandlerChecks.filter (·.1 != "EventsHandler")) = false := by decide
example : handlerTableOk ("PingHandler" :: Gen.urlHandlers) (("PingHandler", "HandleRequest", [], false) :: Gen.urlHandlerChecks)
    = false := by decide
example : handlerTableOk ("PingHandler" :: Gen.urlHandlers)
    (Gen.urlHandlerChecks.reverse ++ [("PingHandler", "HandleRequest", ["ping"], false)]) = true := by decide

/-- **model_request_meets_spec.**  One request of ANY entry point — GetFilterTargets itself, the object handlers, an action
    with any type list, the objects a modify request changes, the by-name lookup of execute-command, a joined object, the
    per-object decision, a bare check — against any user and inventory satisfies the property. -/
theorem model_request_meets_spec (u : User) (inv : Inventory) (r : Request) :
    specRequest u inv r (runRequest u inv r) = none := by
  cases r with
  | targets qd q => exact model_query_meets_spec u qd q inv
  | object verb type pn q => exact model_query_meets_spec u (handlerQD verb type) (handlerQuery type pn q) inv
  | action name types q => exact model_query_meets_spec u (actionQDT name types) q inv
  | modify type pn q =>
    obtain ⟨hall, hspec⟩ := modify_changes_subset_allowed u type pn q inv
    have h1 : ((modifyChanged u type pn q inv).any fun o => !inv.contains o) = false := by
      simp only [List.any_eq_false]
      intro o ho
      simp [(hall o ho).2]
    simp only [specRequest, runRequest, h1, Bool.false_eq_true, if_false]
    exact hspec
  | lookup t n => exact model_lookup_meets_spec u t n inv
  | join j =>
    simp only [specRequest, runRequest]
    cases hj : joinIncluded u j with
    | false => simp [specJoin]
    | true => exact (joined_objects_allowed u j hj).2
  | access perm o => exact model_access_meets_spec u perm o
  | bare perm => exact model_grant_meets_spec u perm

/-- **model_trace_meets_spec** (whole-trace theorem).  For every initial user and inventory and every sequence of
    operations — requests of every entry point interleaved with arbitrary changes of the user's permission list
    (`permissions` modified at runtime, the ApiUser deleted and re-created) and of the registry —, every answer satisfies
    the property with respect to the user and the inventory AS THEY ARE WHEN THE REQUEST ARRIVES: nothing granted to an
    earlier list survives its revocation, no filter of an earlier list is applied in place of the current one. -/
theorem model_trace_meets_spec (w : World) (ops : List Op) : specTrace (runTrace w ops) = none := by
  induction ops generalizing w with
  | nil => rfl
  | cons op ops ih =>
    cases op with
    | setUser u => exact ih _
    | setInventory i => exact ih _
    | request r =>
      have hr := model_request_meets_spec w.user w.inv r
      have ht := ih w
      unfold specTrace at ht ⊢
      simp only [runTrace, List.findSome?_cons, hr]
      exact ht

def trU1 : User := [⟨"objects/query/Host", none⟩, ⟨"status/query", none⟩]
def trU2 : User := [⟨"status/query", none⟩, ⟨"objects/query/*", some (fun _ o => some (o.name == "h1"))⟩]
def trU3 : User := [⟨"objects/query/Service", none⟩, ⟨"status/query", none⟩]
def trReq : Request := .object "query" "Host" none {}
def trOut : Response → Option (List Obj)
  | .targets (.ok l) _ => some l
  | _ => none

/-- a non-trivial trace: all hosts, then — the permission list replaced — only the host the new filter allows, then — the
    permission revoked — a rejection, then — a host deleted from the registry — … -/
example : (runTrace ⟨trU1, exInv⟩ [.request trReq, .setUser trU2, .request trReq, .setUser trU3, .request trReq,
      .setUser trU1, .setInventory [exH1], .request trReq]).map (fun e => trOut e.response)
    = [some [exH0, exH1], some [exH1], none, some [exH1]] := by decide

/-- the trace clause is not vacuous: an answer computed from the permission list as it WAS (match positions or verdicts
    remembered from an earlier request) is rejected — a revoked permission that is still granted, a filter that is no longer
    applied —, and so is an answer of the wrong shape -/
example : specTrace [⟨⟨trU1, exInv⟩, trReq, runRequest trU1 exInv trReq⟩, ⟨⟨trU3, exInv⟩, trReq, runRequest trU1 exInv trReq⟩]
      = some .rejectedFirst ∧
    specTrace [⟨⟨trU2, exInv⟩, trReq, runRequest trU1 exInv trReq⟩] = some .returnedAllowed ∧
    specTrace [⟨⟨trU1, exInv⟩, trReq, .granted true⟩] = some .responseShape := by decide

/-! ### Round 4: secondary objects — cascading delete and schedule-downtime with all_services (finding F-C18c)

  Full statement (NOT a theorem of the code as it is):
    `∀ u type pn q inv deps cascade, specActed u ("objects/delete/" ++ type) deps targets (deleteGone … cascade) = none`
    `∀ u types q inv deps,           specActed u "actions/schedule-downtime" deps targets (downtimeActed …) = none`
  — every object a request deletes / schedules a downtime for is one the user is allowed to act on.  The code deletes the
  dependents of a target (cascade) and schedules downtimes for the services of a target host (all_services) without
  consulting the user's permissions or the filter for them. -/

/-- every object acted on is allowed ⇒ the clause holds, whatever the targets are -/
theorem specActed_of_all_allowed {u : User} {perm : String} {deps : Obj → List Obj} {targets acted : List Obj}
    (hall : ∀ o ∈ acted, Allowed u perm o) : specActed u perm deps targets acted = none := by
  unfold specActed
  by_cases hperm : perm = ""
  · simp [hperm]
  · have hne : (perm == "") = false := by simp [hperm]
    simp only [hne, Bool.false_eq_true, if_false]
    have h1 : ∀ (g : Obj → Bool), (acted.any fun o => g o && !allowedB u perm o) = false := by
      intro g
      simp only [List.any_eq_false]
      intro o ho
      simp [(allowedB_iff u perm o).2 (hall o ho)]
    cases hm : someMatch u perm with
    | true => simp only [Bool.not_true, Bool.false_eq_true, if_false, h1]
    | false =>
      cases hc : acted with
      | nil => simp
      | cons o rest =>
        exfalso
        obtain ⟨p, hp, hw, _⟩ := hall o (by simp [hc])
        have : someMatch u perm = true := by
          simp only [someMatch, List.any_eq_true]
          exact ⟨p, hp, hw⟩
        rw [hm] at this
        cases this

/-- **delete_without_cascade_gone_allowed.**  Without `cascade` a delete request on API-created objects removes only
    objects that are allowed under `objects/delete/<Type>` and registered — for every user, query, inventory and dependency
    relation; in particular nothing when no entry matches. -/
theorem delete_without_cascade_gone_allowed (u : User) (type : String) (pathName : Option String) (q : Query)
    (inv : Inventory) (deps : Obj → List Obj) (targets : List Obj) :
    (∀ o ∈ deleteGone u type pathName q inv deps false, Allowed u ("objects/delete/" ++ type) o ∧ o ∈ inv) ∧
    specActed u ("objects/delete/" ++ type) deps targets (deleteGone u type pathName q inv deps false) = none := by
  have hall : ∀ o ∈ deleteGone u type pathName q inv deps false, Allowed u ("objects/delete/" ++ type) o ∧ o ∈ inv := by
    intro o ho
    unfold deleteGone at ho
    cases hr : handlerTargets u "delete" type pathName q inv with
    | error e => simp [hr] at ho
    | ok objs =>
      simp only [hr, Bool.false_eq_true, if_false] at ho
      exact handler_targets_subset_allowed u "delete" type pathName q inv objs hr o (List.mem_filter.1 ho).1
  exact ⟨hall, specActed_of_all_allowed fun o ho => (hall o ho).1⟩

/-- **secondary_objects_partial.**  With `cascade` / `all_services` the statement holds exactly as far as the dependents of
    every allowed object are allowed themselves (e.g. a filter over `host.*` only, or no filter at all). -/
theorem secondary_objects_partial (u : User) (type : String) (pathName : Option String) (q : Query) (types : List String)
    (inv : Inventory) (deps : Obj → List Obj) (cascade : Bool) (targets : List Obj)
    (hdel : ∀ o, Allowed u ("objects/delete/" ++ type) o → ∀ s ∈ deps o, Allowed u ("objects/delete/" ++ type) s)
    (hdt : ∀ o, Allowed u "actions/schedule-downtime" o → ∀ s ∈ deps o, Allowed u "actions/schedule-downtime" s) :
    specActed u ("objects/delete/" ++ type) deps targets (deleteGone u type pathName q inv deps cascade) = none ∧
    specActed u "actions/schedule-downtime" deps targets (downtimeActed u types q inv deps) = none := by
  constructor
  · apply specActed_of_all_allowed
    intro o ho
    unfold deleteGone at ho
    cases hr : handlerTargets u "delete" type pathName q inv with
    | error e => simp [hr] at ho
    | ok objs =>
      simp only [hr] at ho
      have hsub := handler_targets_subset_allowed u "delete" type pathName q inv objs hr
      cases cascade with
      | false =>
        simp only [Bool.false_eq_true, if_false] at ho
        exact (hsub o (List.mem_filter.1 ho).1).1
      | true =>
        simp only [if_true, List.mem_flatMap, List.mem_cons] at ho
        obtain ⟨t, ht, rfl | hs⟩ := ho
        · exact (hsub _ ht).1
        · exact hdel t (hsub t ht).1 o hs
  · apply specActed_of_all_allowed
    intro o ho
    unfold downtimeActed at ho
    cases hr : (filterTargets u (actionQDT "schedule-downtime" types) q inv).result with
    | error e => simp [hr] at ho
    | ok objs =>
      simp only [hr, List.mem_flatMap, List.mem_cons] at ho
      have hsub := action_targets_subset_allowed u "schedule-downtime" types q inv objs hr
      obtain ⟨t, ht, rfl | hs⟩ := ho
      · exact (hsub _ ht).1
      · exact hdt t (hsub t ht).1 o hs

def secInv : Inventory := [⟨"Host", "h1"⟩, ⟨"Service", "h1!s0"⟩, ⟨"Service", "h1!s1"⟩]
def secDeps (o : Obj) : List Obj := if o == ⟨"Host", "h1"⟩ then [⟨"Service", "h1!s0"⟩, ⟨"Service", "h1!s1"⟩] else []
/-- may delete / schedule downtimes for everything except the service h1!s0 -/
def secUser : User :=
  [⟨"objects/delete/*", some (fun _ o => some (o.name != "h1!s0"))⟩, ⟨"actions/*", some (fun _ o => some (o.name != "h1!s0"))⟩]

/-- **secondary_objects_counterexample** (F-C18c).  The user's filter excludes the service h1!s0; DELETE
    /v1/objects/hosts/h1?cascade=1 deletes it and schedule-downtime on h1 with all_services=1 gives it a downtime all the
    same; by its own name the service is refused (`forbidden_single_name_is_denied`), and without cascade nothing goes. -/
theorem secondary_objects_counterexample :
    deleteGone secUser "Host" (some "h1") {} secInv secDeps true = secInv ∧
    specActed secUser "objects/delete/Host" secDeps [⟨"Host", "h1"⟩] (deleteGone secUser "Host" (some "h1") {} secInv secDeps true)
      = some .secondaryAllowed ∧
    downtimeActed secUser ["Host", "Service"] (actionQuery "Host" (some "h1") {}) secInv secDeps = secInv ∧
    specActed secUser "actions/schedule-downtime" secDeps [⟨"Host", "h1"⟩]
      (downtimeActed secUser ["Host", "Service"] (actionQuery "Host" (some "h1") {}) secInv secDeps) = some .secondaryAllowed ∧
    isRejected (filterTargets secUser (actionQDT "schedule-downtime" ["Host", "Service"]) (actionQuery "Service" (some "h1!s0") {}) secInv).result
      = true ∧
    deleteGone secUser "Host" (some "h1") {} secInv secDeps false = [] := by decide

/-- the hypotheses of `secondary_objects_partial` are satisfiable with a filter that really filters (it excludes another host), and the clause also rejects a forbidden TARGET, a forbidden object that
    is no dependent of any target (both under `changed_objects_allowed`) and any action without a matching entry -/
example :
    let u : User := [⟨"objects/delete/*", some (fun _ o => some (o.name != "h2"))⟩]
    deleteGone u "Host" none {} (⟨"Host", "h2"⟩ :: secInv) secDeps true = secInv ∧
    specActed u "objects/delete/Host" secDeps [⟨"Host", "h1"⟩] secInv = none ∧
    specActed u "objects/delete/Host" secDeps [⟨"Host", "h2"⟩] [⟨"Host", "h2"⟩] = some .changedAllowed ∧
    specActed secUser "objects/delete/Host" secDeps [⟨"Host", "h2"⟩] secInv = some .changedAllowed ∧
    specActed [⟨"objects/query/*", none⟩] "objects/delete/Host" secDeps [] [⟨"Host", "h1"⟩] = some .rejectedFirst := by decide

/-- **connection_user_only_with_verified_cn.**  A connection carries user U only if the client certificate was verified and
    its CN is U's `client_cn`; an unverified peer gets no user whatever identity it claims — for every user inventory. -/
theorem connection_user_only_with_verified_cn (users : List AUser) (identity : String) (authenticated : Bool) :
    (∀ u ∈ connUser users identity authenticated, authenticated = true ∧ u ∈ users ∧ u.clientCN = identity ∧
      specConnUser identity authenticated (some u) = none) ∧
    connUser users identity false = [] := by
  refine ⟨?_, rfl⟩
  intro u hu
  cases authenticated with
  | false => simp [connUser] at hu
  | true =>
    simp only [connUser, if_true] at hu
    obtain ⟨h1, h2⟩ := authenticate_cn_only_with_cn users identity u hu
    exact ⟨rfl, h1, h2, by simp [specConnUser, h2]⟩

/-- satisfiable and not vacuous: a verified CN yields its users, the same CN unverified nobody; the clause rejects a user
    carried by an unverified connection and a user of another CN -/
example : connUser exUsers "cn1" true = [⟨"agent", "", "cn1"⟩, ⟨"web", "a:b", "cn1"⟩] ∧ connUser exUsers "cn1" false = [] ∧
    specConnUser "cn1" false (some ⟨"agent", "", "cn1"⟩) = some .attributedWithoutCredential ∧
    specConnUser "cn2" true (some ⟨"agent", "", "cn1"⟩) = some .attributedWithoutCredential := by decide

end Icinga.C18

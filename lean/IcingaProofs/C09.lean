/-
  C09 — property theorems.  Model: IcingaModel/C09/Model.lean, specification predicates: Spec.lean,
  helper lemmas: IcingaProofs/C09/Lemmas.lean.

  The end-to-end statement of the property for string command lines needs the hypothesis "every macro of
  the template stands where the shell lexer is in its unquoted state" (`shell_quote_roundtrip`); the
  excluded point — a macro the administrator wrapped in double quotes — is exhibited by
  `shell_quote_needs_unquoted_counterexample` and run against the real /bin/sh by the check (F-C09a).
-/
import IcingaProofs.C09.Lemmas
import IcingaProofs.C09.Layout
import IcingaProofs.C09.Cycle
import IcingaProofs.C09.Sources
import IcingaProofs.C09.ArrayCmd

namespace Icinga.C09

/-! ## Termination and the recursion limit -/

/-- Macro expansion always terminates: `internalResolve` is a total function, defined by structural
    recursion on the remaining recursion budget (16 − recursionLevel) and on the token list; for every
    input it yields a value or one of the listed errors.  (The content is the DEFINITION being accepted by
    Lean's termination checker — the statement itself holds of any `Except` value; what the bound means for
    reference cycles is `cycle_bounded`, that it never changes a result is `fuel_monotone`, and that the code
    has the same bound is checked by the correspondence: chains of depth 10..18, `no_crash`.) -/
theorem macro_terminates (look : Bytes → Lookup) (fuel : Nat) (esc : Bool) (s : Bytes) :
    (∃ v m, internalResolve look fuel esc s = .ok (v, m)) ∨ (∃ e, internalResolve look fuel esc s = .error e) := by
  cases h : internalResolve look fuel esc s with
  | ok r => exact .inl ⟨r.1, r.2, rfl⟩
  | error e => exact .inr ⟨e, rfl⟩

/-- Recursive custom variables are bounded: a variable whose value is a reference to itself yields the
    recursion error from every entry level (never divergence, never a value). -/
theorem depth_bounded (look : Bytes → Lookup) (n : Bytes) (hn : DOLLAR ∉ n) (hne : n ≠ [])
    (hself : look n = .found (.str (DOLLAR :: (n ++ [DOLLAR]))) true) :
    ∀ fuel esc, internalResolve look fuel esc (DOLLAR :: (n ++ [DOLLAR])) = .error .recursion := by
  have htok : tokenize (DOLLAR :: (n ++ [DOLLAR])) = [.lit [], .mac n, .lit []] := by
    have := tokenize_macro [] n [] (by simp) hn
    simpa [tokenize, tok] using this
  intro fuel
  induction fuel with
  | zero => intro esc; rfl
  | succ f ih =>
    intro esc
    simp only [internalResolve, htok, expandMacro, expandCore, hself, hne, if_false]
    simp [ih false, bind, Except.bind]

/-- The same when every hop of the cycle is an ARRAY (`vars.loop = ["$loop$"]`): the elements are resolved
    one level deeper, so the limit is reached and the result is the recursion error. -/
theorem depth_bounded_array (look : Bytes → Lookup) (n : Bytes) (hn : DOLLAR ∉ n) (hne : n ≠ [])
    (hself : look n = .found (.arr [DOLLAR :: (n ++ [DOLLAR])]) true) :
    ∀ fuel esc, internalResolve look fuel esc (DOLLAR :: (n ++ [DOLLAR])) = .error .recursion := by
  have htok : tokenize (DOLLAR :: (n ++ [DOLLAR])) = [.lit [], .mac n, .lit []] := by
    have := tokenize_macro [] n [] (by simp) hn
    simpa [tokenize, tok] using this
  intro fuel
  induction fuel with
  | zero => intro esc; rfl
  | succ f ih =>
    intro esc
    simp only [internalResolve, htok, expandMacro, expandCore, hself, hne, if_false]
    simp [resolveElems, ih false, bind, Except.bind]

-- `loop = ["first", "$loop$"]`, from the entry level of ResolveArguments
example : internalResolve
    (resolveMacro [{ rname := [104], vars := [([108], .arr [[102], [36, 108, 36]])], attrs := [] }]) 14 false [36, 108, 36]
    = .error .recursion := by decide

/-- Recursive custom variables are bounded, in general: let `S` be any set of custom-variable names such that
    the value of every member mentions a member again — as one of the macros of a string value, whatever
    other text and macros surround it, or inside an element of an array value (`RefersInto`).  Every
    reference cycle of whatever length, with scalar hops, array hops or both, is such a set; so is
    everything from which a cycle is unavoidable.  Then NO string that mentions a member of `S` resolves
    to a value: for every budget, with or without escaping, the result is an error (at the latest the
    recursion error of level 16) — never a value, and (`internalResolve` being total) never divergence.
    `depth_bounded` / `depth_bounded_array` are the instances `S = {n}`. -/
theorem cycle_bounded (look : Bytes → Lookup) (S : Bytes → Prop) (hS : ∀ n, S n → RefersInto look S n) :
    ∀ fuel esc s, (∃ n ∈ macroNames (tokenize s), S n) → ∃ e, internalResolve look fuel esc s = .error e := by
  intro fuel
  induction fuel with
  | zero => intro esc s _; exact ⟨.recursion, rfl⟩
  | succ f ih =>
    intro esc s hs
    have hrec : ∀ t, (∃ n ∈ macroNames (tokenize t), S n) → Fails (internalResolve look f false t) :=
      fun t ht => ih false t ht
    obtain ⟨m, hm, hSm⟩ := hs
    rw [internalResolve]
    split
    · next n htok =>
      simp only [htok, macroNames, List.mem_singleton] at hm
      subst hm
      exact expandMacro_fails look S _ hrec esc m (hS m hSm)
    · exact fails_bind _ _ (concatToks_fails look _ esc _ ⟨m, hm, expandMacro_fails look S _ hrec esc m (hS m hSm)⟩)

-- the hypothesis is satisfiable on a mixed cycle of length two: p = ["x", "$q$"], q = "a $p$ b"
example :
    let look := resolveMacro [{ rname := [104], vars := [([112], .arr [[120], [36, 113, 36]]), ([113], .str [97, 32, 36, 112, 36, 32, 98])], attrs := [] }]
    let S : Bytes → Prop := fun n => n = [112] ∨ n = [113]
    (∀ n, S n → RefersInto look S n) ∧ internalResolve look 14 true [45, 72, 32, 36, 113, 36] = .error .recursion := by
  refine ⟨?_, by decide⟩
  intro n hn
  rcases hn with rfl | rfl
  · exact ⟨by decide, .inr ⟨[[120], [36, 113, 36]], by decide, [36, 113, 36], by decide, by decide, [113], by decide, .inr rfl⟩⟩
  · exact ⟨by decide, .inl ⟨[97, 32, 36, 112, 36, 32, 98], by decide, [112], by decide, .inl rfl⟩⟩

/-- The recursion limit never changes a result: what resolves within a budget resolves to the same
    value within every larger budget (the limit can only turn a result into the recursion error). -/
theorem fuel_monotone (look : Bytes → Lookup) (fuel : Nat) :
    ∀ esc s r, internalResolve look fuel esc s = .ok r → internalResolve look (fuel + 1) esc s = .ok r := by
  induction fuel with
  | zero => intro esc s r hr; simp [internalResolve, throw, throwThe, MonadExceptOf.throw] at hr
  | succ f ih =>
    intro esc s r hr
    have hext : Extends (fun t => internalResolve look f false t) (fun t => internalResolve look (f + 1) false t) :=
      fun t r h => ih false t r h
    rw [internalResolve] at hr ⊢
    split at hr
    · exact expandMacro_mono look _ _ hext esc _ r hr
    · simp only [bind, Except.bind] at hr ⊢
      cases h1 : concatToks look (fun t => internalResolve look f false t) esc (tokenize s) with
      | error x => simp [h1] at hr
      | ok p => rw [h1] at hr; rw [concatToks_mono look _ _ hext esc _ p h1]; exact hr

example : internalResolve
    (resolveMacro [{ rname := [104], vars := [([115], .str [36, 115, 36])], attrs := [] }]) 15 false [36, 115, 36] = .error .recursion := by decide

/-! ## `$$`, verbatim insertion -/

/-- The rest of a string after a macro is processed on its own (the inserted text is not rescanned). -/
abbrev restOf (look : Bytes → Lookup) (fuel : Nat) (esc : Bool) (q : Bytes) : Except Err (Bytes × Bool) :=
  concatToks look (fun t => internalResolve look fuel false t) esc (tokenize q)

/-- `$$` yields a literal dollar sign, wherever it stands: `p $$ q` resolves to `p`, `$`, and whatever
    `q` resolves to on its own (no variable is named ""). -/
theorem dollar_escape (look : Bytes → Lookup) (fuel : Nat) (p q : Bytes) (hp : DOLLAR ∉ p)
    (hempty : look [] = .notFound) :
    internalResolve look (fuel + 1) false (p ++ DOLLAR :: DOLLAR :: q)
      = (restOf look fuel false q).map (fun r => (.str (p ++ DOLLAR :: r.1), r.2)) := by
  have htok := tokenize_macro p [] q hp (by simp)
  simp only [List.nil_append] at htok
  simp only [internalResolve, htok]
  split
  · next h =>
    simp only [List.cons.injEq, Tok.lit.injEq, Tok.mac.injEq] at h
    obtain ⟨rfl, hn, hq⟩ := h
    subst hn
    have hq' : tokenize q = [.lit []] := by simpa using hq
    rw [expand_dollar look _ hempty]
    simp [restOf, hq', concatToks, Except.map, pure, Except.pure, bind, Except.bind]
  · simp only [concatToks, expand_dollar look _ hempty, bind, Except.bind, Val.scalarBytes, restOf]
    cases concatToks look (fun t => internalResolve look fuel false t) false (tokenize q) with
    | error e => rfl
    | ok r => simp [Except.map, pure, Except.pure]

/-- Verbatim insertion: the value `v` of a non-recursive macro (an attribute such as `address`, the
    previous plugin output, …) is inserted untouched whatever bytes it contains — `$`, quotes, newlines —
    and is not scanned again; the text after the macro is processed exactly as it would be on its own. -/
theorem verbatim_insertion (look : Bytes → Lookup) (fuel : Nat) (p m v q : Bytes) (hp : DOLLAR ∉ p) (hmd : DOLLAR ∉ m)
    (hm : m ≠ []) (hv : look m = .found (.str v) false) :
    internalResolve look (fuel + 1) false (p ++ DOLLAR :: (m ++ DOLLAR :: q))
      = (restOf look fuel false q).map (fun r => (.str (p ++ v ++ r.1), r.2)) := by
  have htok := tokenize_macro p m q hp hmd
  simp only [internalResolve, htok]
  split
  · next h =>
    simp only [List.cons.injEq, Tok.lit.injEq, Tok.mac.injEq] at h
    obtain ⟨rfl, rfl, hq⟩ := h
    have hq' : tokenize q = [.lit []] := by simpa using hq
    simp [restOf, hq', concatToks, expand_plain look _ _ v hm hv, Except.map, pure, Except.pure, bind, Except.bind]
  · simp only [concatToks, expand_plain look _ m v hm hv, bind, Except.bind, Val.scalarBytes, restOf]
    cases concatToks look (fun t => internalResolve look fuel false t) false (tokenize q) with
    | error e => rfl
    | ok r => simp [Except.map, pure, Except.pure]

/-- A string that consists of one macro only yields exactly the macro's value. -/
theorem lone_macro_verbatim (look : Bytes → Lookup) (fuel : Nat) (m v : Bytes) (hmd : DOLLAR ∉ m)
    (hm : m ≠ []) (hv : look m = .found (.str v) false) :
    internalResolve look (fuel + 1) false (DOLLAR :: (m ++ [DOLLAR])) = .ok (.str v, false) := by
  have := verbatim_insertion look fuel [] m v [] (by simp) hmd hm hv
  simpa [restOf, tokenize, tok, concatToks, Except.map, pure, Except.pure, bind, Except.bind] using this

-- hypotheses are satisfiable, the value may contain `$`, `'`, blanks, newline: host.address = "$(x)' \n"
example : internalResolve
    (resolveMacro [{ rname := [104], vars := [], attrs := [([97], .str [36, 40, 120, 41, 39, 32, 10])] }]) 14 false
    ([45, 72, 32] ++ 36 :: ([97] ++ 36 :: [32, 36, 36]))
    = .ok (.str [45, 72, 32, 36, 40, 120, 41, 39, 32, 10, 32, 36], false) := by decide

/-- Environment variables of the command: an entry that consists of one macro carries exactly the macro's
    value — no quoting is added (the entries are resolved without the escape function), no byte is
    interpreted, the value is not scanned again. -/
theorem env_lone_macro_verbatim (look : Bytes → Lookup) (m v : Bytes) (hmd : DOLLAR ∉ m) (hm : m ≠ [])
    (hv : look m = .found (.str v) false) :
    envValue look (DOLLAR :: (m ++ [DOLLAR])) = .ok (v, false) := by
  have h := lone_macro_verbatim look 14 m v hmd hm hv
  have hne : (Raw.str (DOLLAR :: (m ++ [DOLLAR]))).isEmpty = false := by simp [Raw.isEmpty]
  simp [envValue, resolveMacros, hne, fuelOfLevel, h, bind, Except.bind, pure, Except.pure]

-- an array-valued custom variable reaches the environment joined by `;` (separators inside elements escaped)
example : envValue (resolveMacro [{ rname := [104], vars := [([97], .arr [[120, 59, 121], [122]])], attrs := [] }]) [36, 97, 36]
    = .ok ([120, 92, 59, 121, 59, 122], false) := by decide

/-! ## The `resolvedMacros` cache (remote execution) -/

/-- Resolution from the `resolvedMacros` cache equals the direct resolution — value, missing flag AND the
    shell escaping (`esc` is the same on both sides: the cache holds unescaped values, the use pass escapes
    them exactly as the direct pass does) — for every string all of whose macros are faithfully cached.
    PARTIAL: the hypothesis excludes macros whose value contains a missing NESTED macro; for those the
    statement is false of the code (`cached_path_nested_missing_counterexample`, F-C09b). -/
theorem cached_path_equals_direct_partial (look c : Bytes → Lookup) (fuel : Nat) (esc : Bool) (s : Bytes)
    (h : ∀ n ∈ macroNames (tokenize s), CacheOK look c (fun t => internalResolve look fuel false t) n) :
    internalResolve c (fuel + 1) esc s = internalResolve look (fuel + 1) esc s := by
  simp only [internalResolve]
  split
  · next n htok =>
    exact expandMacro_cached look c _ _ esc n (h n (by simp [htok, macroNames]))
  · rw [concatToks_cached look c _ _ esc (tokenize s) h]

/-- FULL STATEMENT (false of the unchanged code): "the executing node's argv equals the argv of a local
    execution".  Host variable `a = "x$nx$y"` (`nx` undefined), argument `-k = "$a$"`: the direct pass
    drops the argument (a macro is missing), the fill pass stores `a ↦ "xy"`, and the use pass — which
    cannot know that something was missing — passes `-k xy`. -/
theorem cached_path_nested_missing_counterexample :
    let look := resolveMacro [{ rname := [104], vars := [([97], .str [120, 36, 110, 120, 36, 121])], attrs := [] }]
    let args : Option (List ArgSpec) := some [{ dkey := [45, 107], value := .str [36, 97, 36] }]
    cacheEntry look 14 [97] = some (.str [120, 121]) ∧
    resolveArguments look 0 (.arr [[47, 112]]) args = .ok (.argv [[47, 112]]) ∧
    resolveArguments (cacheLookup [([97], .str [120, 121])]) 0 (.arr [[47, 112]]) args
      = .ok (.argv [[47, 112], [45, 107], [120, 121]]) := by decide

-- hypothesis satisfiable, with escaping: `$address$` = "a'b $(x)" from the cache, string command line
example : internalResolve (cacheLookup [([97], .str [97, 39, 98, 32, 36, 40, 120, 41])]) 14 true [47, 112, 32, 36, 97, 36]
    = internalResolve (resolveMacro [{ rname := [104], vars := [], attrs := [([97], .str [97, 39, 98, 32, 36, 40, 120, 41])] }]) 14 true [47, 112, 32, 36, 97, 36] := by decide

/-! ## Shell quoting: `Utility::EscapeShellArg` against the sh lexer -/

/-- Round trip of the shell quoting, in its strongest (lexer-state) form: when the lexer is in its
    UNQUOTED state, reading `EscapeShellArg v` — for every byte string `v`, quotes, blanks, newlines, `$`,
    backslashes, globs and operators included — has exactly one effect: `v` is appended to the word
    under construction (a new word is begun if there was none); the lexer is unquoted again, no word is
    finished, none is lost.  Whatever follows is then read as it would be read after that word. -/
theorem shell_quote_roundtrip (s : ShSt) (hmode : s.mode = .unq) (v suffix : Bytes) :
    shRun s (escapeShellArg v ++ suffix)
      = shRun { done := s.done, cur := some (s.cur.getD [] ++ v), mode := .unq } suffix :=
  shRun_escapeShellArg s hmode v suffix

/-- The same after an arbitrary prefix that leaves the lexer unquoted (`--opt=`, earlier arguments, …). -/
theorem shell_quote_roundtrip_prefix (pre v suffix : Bytes) (s : ShSt) (hpre : shRun {} pre = .ok s) (hmode : s.mode = .unq) :
    shRun {} (pre ++ (escapeShellArg v ++ suffix))
      = shRun { done := s.done, cur := some (s.cur.getD [] ++ v), mode := .unq } suffix := by
  rw [shRun_append, hpre]
  exact shell_quote_roundtrip s hmode v suffix

/-- Corollary at word level: after a prefix that ends between words, the quoted value is exactly one
    word, equal to `v`, and the words before it are untouched; a following blank finishes it. -/
theorem shell_quote_one_word (pre v : Bytes) (s : ShSt) (hpre : shRun {} pre = .ok s) (hmode : s.mode = .unq)
    (hcur : s.cur = none) :
    shWords (pre ++ escapeShellArg v) = .ok (s.done.reverse ++ [v]) ∧
    ∀ post, shRun {} (pre ++ (escapeShellArg v ++ SPACE :: post)) = shRun { done := v :: s.done, cur := none, mode := .unq } post := by
  constructor
  · have := shell_quote_roundtrip_prefix pre v [] s hpre hmode
    simp only [List.append_nil] at this
    simp [shWords, this, shRun, hcur, ShSt.finish, bind, Except.bind, pure, Except.pure]
  · intro post
    rw [shell_quote_roundtrip_prefix pre v _ s hpre hmode]
    simp [shRun, shStep, hcur, SPACE, SQUOTE, BSLASH, bind, Except.bind, pure, Except.pure]

-- "/p -m " then the value  a'b $(x)\n*  : one word, verbatim
example : shWords ([47, 112, 32, 45, 109, 32] ++ escapeShellArg [97, 39, 98, 32, 36, 40, 120, 41, 10, 42])
    = .ok [[47, 112], [45, 109], [97, 39, 98, 32, 36, 40, 120, 41, 10, 42]] := by decide

/-- The hypothesis "unquoted" cannot be dropped: inside double quotes (a macro the administrator wrapped
    in `"…"`) the added single quotes are ordinary characters — `$(x)` in the value is live, and even a
    harmless value arrives with the quotes around it.  (FULL STATEMENT of the property for string command
    lines, false of the code: "for every template and every value the plugin receives the template's words
    with the value verbatim".) -/
theorem shell_quote_needs_unquoted_counterexample :
    shWords ([34] ++ escapeShellArg [36, 40, 120, 41] ++ [34]) = .error .interpreted ∧
    shWords ([34] ++ escapeShellArg [97] ++ [34]) = .ok [[39, 97, 39]] := by decide

/-! ## Argument vector: shape and values -/

/-- The number of argv elements an argument contributes, and which of them are keys, depends on its value
    only through the value's SHAPE (scalar, or array of n elements): the elements are the shape's layout
    filled with the values in order — no byte of a value can add, remove, split or merge elements. -/
theorem argv_shape_independent_of_values (a : RArg) :
    emitArg a = fill a.key (a.sep.getD []) (slots a.skipKey a.repeatKey a.skipValue a.sep.isSome a.value.shape) a.value.elems := by
  cases hv : a.value with
  | arr l => simp [emitArg, hv, Val.shape, Val.elems, slots, emitArr_eq_fill]
  | str b =>
    have := fill_elem a.key b a.sep (!a.skipKey) (!a.skipValue) [] []
    simpa [emitArg, hv, Val.shape, Val.elems, slots, fill] using this.symm
  | empty =>
    have := fill_elem a.key [] a.sep (!a.skipKey) (!a.skipValue) [] []
    simpa [emitArg, hv, Val.shape, Val.elems, slots, fill] using this.symm
  | bool x =>
    have := fill_elem a.key (boolBytes x) a.sep (!a.skipKey) (!a.skipValue) [] []
    simpa [emitArg, hv, Val.shape, Val.elems, slots, fill] using this.symm
  | num k =>
    have := fill_elem a.key (intBytes k) a.sep (!a.skipKey) (!a.skipValue) [] []
    simpa [emitArg, hv, Val.shape, Val.elems, slots, fill] using this.symm

/-- Spec on the trace, clause `argv_layout`: what the model emits for a kept argument is the block the
    specification's own layout statement (`specArgBlock`: every value in one element, or
    `key ++ separator ++ value` when a separator — the empty string included — is configured) demands. -/
theorem model_block_meets_layout_spec (a : RArg) : emitArg a = specArgBlock a :=
  argv_shape_independent_of_values a

-- the clause is not vacuous: `-p` with separator "" and value 3306 must arrive as `-p3306`
example : specArgvLayout [[47, 112]] [{ order := 0, skipKey := false, repeatKey := true, skipValue := false, key := [45, 112], sep := some [], value := .str [51, 51, 48, 54] }] [[47, 112], [45, 112], [51, 51, 48, 54]] = some .argvLayout := by decide
example : specArgvLayout [[47, 112]] [{ order := 0, skipKey := false, repeatKey := true, skipValue := false, key := [45, 112], sep := some [], value := .str [51, 51, 48, 54] }] [[47, 112], [45, 112, 51, 51, 48, 54]] = none := by decide

/-- Each value occupies exactly one slot of the layout (hence, by `fill`, at most one element, whole):
    the layout has as many value-consuming slots as the argument has values. -/
theorem each_value_one_element (a : RArg) :
    consumers (slots a.skipKey a.repeatKey a.skipValue a.sep.isSome a.value.shape) = a.value.elems.length := by
  cases hv : a.value with
  | arr l => simp [Val.shape, Val.elems, slots, consumers_arrSlots]
  | str b => cases a.skipKey <;> cases a.skipValue <;> cases a.sep.isSome <;> simp [Val.shape, Val.elems, slots, elemSlots, consumers]
  | empty => cases a.skipKey <;> cases a.skipValue <;> cases a.sep.isSome <;> simp [Val.shape, Val.elems, slots, elemSlots, consumers]
  | bool x => cases a.skipKey <;> cases a.skipValue <;> cases a.sep.isSome <;> simp [Val.shape, Val.elems, slots, elemSlots, consumers]
  | num k => cases a.skipKey <;> cases a.skipValue <;> cases a.sep.isSome <;> simp [Val.shape, Val.elems, slots, elemSlots, consumers]

-- `-H` with the array value ["a b", "c;d"], repeat_key = false: three elements, the values verbatim
example : emitArg { order := 0, skipKey := false, repeatKey := false, skipValue := false, key := [45, 72], sep := none,
                    value := .arr [[97, 32, 98], [99, 59, 100]] } = [[45, 72], [97, 32, 98], [99, 59, 100]] := by decide

/-- WHOLE TRACE, commands with an `arguments` dictionary — for every lookup, command line and dictionary
    (any number of entries, any keys, flags, separators, `set_if`s, `order`s with ties, scalar / array / Boolean /
    Number / Empty values): whenever the model's `ResolveArguments` yields an argument vector, that vector
    is the resolved command followed by the blocks of the kept arguments in ascending `order`, and it
    satisfies the specification clause `argv_layout` exactly as the driver evaluates it on the implementation's
    argv (`layoutClause`: same `base`, same kept arguments).  Ingredients: the model's stable insertion sort
    is the concatenation of the specification's classes of equal `order` (`sortArgs_eq_flatten_orderClasses`),
    each block is the specification's block (`model_block_meets_layout_spec`), and the specification's search
    over the sequences inside a class accepts the given one (`consumeClasses_identity`). -/
theorem resolveArguments_meets_layout (look : Bytes → Lookup) (level : Nat) (cmd : Cmd) (as : List ArgSpec) (l : List Bytes)
    (h : resolveArguments look level cmd (some as) = .ok (.argv l)) :
    ∃ base rs, resolveCommand look level cmd true = .ok (.argv base) ∧ resolveArgs look level as = .ok rs ∧
      l = base ++ emitAll (sortArgs rs) ∧ specArgvLayout base rs l = none := by
  simp only [resolveArguments, Option.isSome, bind, Except.bind] at h
  cases hb : resolveCommand look level cmd true with
  | error e => simp [hb] at h
  | ok base =>
    rw [hb] at h
    simp only at h
    cases hr : resolveArgs look level as with
    | error e => simp [hr] at h
    | ok rs =>
      rw [hr] at h
      cases base with
      | sh line => simp [throw, throwThe, MonadExceptOf.throw] at h
      | argv b =>
        simp only [pure, Except.pure, Except.ok.injEq, CmdOut.argv.injEq] at h
        subst h
        exact ⟨b, rs, rfl, rfl, rfl, specArgvLayout_model b rs model_block_meets_layout_spec⟩

/-- With an `arguments` dictionary the result is never a shell line: no byte of any value reaches a shell. -/
theorem arguments_never_shell (look : Bytes → Lookup) (level : Nat) (cmd : Cmd) (as : List ArgSpec) (line : Bytes) :
    resolveArguments look level cmd (some as) ≠ .ok (.sh line) := by
  intro h
  simp only [resolveArguments, Option.isSome, bind, Except.bind] at h
  cases hb : resolveCommand look level cmd true with
  | error e => simp [hb] at h
  | ok base =>
    rw [hb] at h
    simp only at h
    cases hr : resolveArgs look level as with
    | error e => simp [hr] at h
    | ok rs =>
      rw [hr] at h
      cases base with
      | sh l2 => simp [throw, throwThe, MonadExceptOf.throw] at h
      | argv b => simp [pure, Except.pure] at h

-- non-vacuity: three arguments, two of equal `order`, a Boolean `set_if`, a Number value, a separator
example :
    let look := resolveMacro [{ rname := [104], vars := [([115], .bool true), ([112], .num 3306)], attrs := [] }]
    resolveArguments look 0 (.arr [[47, 112]])
      (some [{ dkey := [45, 97], value := .str [120], order := 1 },
             { dkey := [45, 112], value := .str [36, 112, 36], separator := some [], setIf := .str [36, 115, 36] },
             { dkey := [45, 122], value := .arr [[121], [122]], repeatKey := false, order := 1 }])
      = .ok (.argv [[47, 112], [45, 112, 51, 51, 48, 54], [45, 97], [120], [45, 122], [121], [122]]) := by decide

/-- Verbatim insertion, in general (subsumes `dollar_escape`, `verbatim_insertion`, `lone_macro_verbatim` for scalar values): for
    EVERY string — any number of macros at any positions, `$$`, any literal text — whose `$` signs pair up and whose
    macros have scalar values `vo n` (after the recursive resolution of custom variables; whatever bytes they contain),
    resolution without an escape function yields exactly the string's text with each macro replaced by its value and
    `$$` by `$`: inserted values are never scanned again, nothing else is touched. -/
theorem verbatim_insertion_general (look : Bytes → Lookup) (fuel : Nat) (vo : Bytes → Option Bytes) (s : Bytes) (syms : List Sym)
    (hs : symLine (tokenize s) = some syms)
    (hsc : ScalarMacros look (fun t => internalResolve look fuel false t) vo (tokenize s)) :
    ∃ v m, internalResolve look (fuel + 1) false s = .ok (v, m) ∧ v.scalarBytes = some (fillSym vo syms) ∧
      specExpectedElem vo s = some (fillSym vo syms) := by
  obtain ⟨v, m, h1, h2⟩ := internalResolve_elem look fuel vo s syms hs hsc
  exact ⟨v, m, h1, h2, specExpectedElem_of look _ vo s syms hs hsc⟩

-- non-vacuity: "a=$a$;$$;$b$$a$" with a = "$x$ '", b = 7 (a Number): the `$x$` inside the value of `a` stays
example :
    let look := resolveMacro [{ rname := [104], vars := [([98], .num 7)], attrs := [([97], .str [36, 120, 36, 32, 39])] }]
    internalResolve look 14 false [97, 61, 36, 97, 36, 59, 36, 36, 59, 36, 98, 36, 36, 97, 36]
      = .ok (.str [97, 61, 36, 120, 36, 32, 39, 59, 36, 59, 55, 36, 120, 36, 32, 39], false) := by decide

/-! ## Array command lines -/

/-- WHOLE array command line, spec clause `array_cmd_verbatim` — for every lookup, recursion level and array of element
    templates (any number of elements; in each any text, `$$`, any number of macros, macros inside words) whose macros
    have scalar values — whatever bytes: quotes, blanks, newlines, `$`, backslashes, globs —: the model's resolved
    command has exactly ONE element per element of the array, each the element's text with every value verbatim in
    place of its macro (nothing quoted, split, merged or dropped; the result is never a shell line), which is what the
    clause demands; and whatever an `arguments` dictionary appends, the whole argument vector still satisfies it. -/
theorem model_array_command_meets_spec (look : Bytes → Lookup) (level fuel : Nat) (vo : Bytes → Option Bytes) (elems : List Bytes)
    (hfuel : fuelOfLevel (level + 1 + 1) = fuel + 1) (hall : ∀ e ∈ elems, ElemOK look fuel vo e) :
    ∃ ws, (∀ hasArgs, resolveCommand look level (.arr elems) hasArgs = .ok (.argv ws)) ∧ ws.length = elems.length ∧
      elems.mapM (specExpectedElem vo) = some ws ∧
      resolveArguments look level (.arr elems) none = .ok (.argv ws) ∧ specArrayCmd elems vo false ws = none ∧
      ∀ as l, resolveArguments look level (.arr elems) (some as) = .ok (.argv l) → specArrayCmd elems vo true l = none := by
  obtain ⟨ws, m, hws, hspec, hlen⟩ := resolveArrayElems_fill look fuel vo elems hall
  have hcmd : ∀ hasArgs, resolveCommand look level (.arr elems) hasArgs = .ok (.argv ws) := by
    intro hasArgs
    cases hasArgs <;>
      simp [resolveCommand, Cmd.raw, resolveMacros, Raw.isEmpty, hfuel, hws, bind, Except.bind, pure, Except.pure]
  refine ⟨ws, hcmd, hlen, hspec, ?_, ?_, ?_⟩
  · simp [resolveArguments, hcmd, bind, Except.bind, pure, Except.pure]
  · simp [specArrayCmd, hspec]
  · intro as l hl
    obtain ⟨base, rs, hb, _, hl', _⟩ := resolveArguments_meets_layout look level (.arr elems) as l hl
    rw [hcmd true] at hb
    simp only [Except.ok.injEq, CmdOut.argv.injEq] at hb
    subst hb
    simp [specArrayCmd, hspec, hl']

-- non-vacuity: ["/p", "-H", "$a$", "x$$$b$y"] with a = "it's $(x) *", b = "\n;": four elements, values verbatim; the clause rejects a split value
example :
    let look := resolveMacro [{ rname := [104], vars := [], attrs := [([97], .str [105, 116, 39, 115, 32, 36, 40, 120, 41, 32, 42]), ([98], .str [10, 59])] }]
    resolveArguments look 0 (.arr [[47, 112], [45, 72], [36, 97, 36], [120, 36, 36, 36, 98, 36, 121]]) none
      = .ok (.argv [[47, 112], [45, 72], [105, 116, 39, 115, 32, 36, 40, 120, 41, 32, 42], [120, 36, 10, 59, 121]]) := by decide
example : specArrayCmd [[47, 112], [36, 97, 36]] (fun _ => some [120, 32, 121]) false [[47, 112], [120], [121]] = some .arrayCmdVerbatim := by decide
example : specArrayCmd [[47, 112], [36, 97, 36]] (fun _ => some [120, 32, 121]) false [[47, 112], [39, 120, 32, 121, 39]] = some .arrayCmdVerbatim := by decide
example : specArrayCmd [[47, 112], [36, 97, 36]] (fun _ => some [120, 32, 121]) true [[47, 112], [120, 32, 121], [45, 119]] = none := by decide

/-! ## Missing macros -/

/-- A missing optional macro drops only its argument: the other arguments resolve as if the entry
    were not in the dictionary. -/
theorem optional_missing_drops_only_its_argument (look : Bytes → Lookup) (level : Nat) (a : ArgSpec) (v : Val)
    (hset : a.setIf.isEmpty = true) (hreq : a.required = false)
    (hmiss : resolveMacros look (level + 1) false a.value = .ok (v, true)) (pre post : List ArgSpec) :
    resolveArg look level a = .ok .skip ∧
    resolveArgs look level (pre ++ a :: post) = resolveArgs look level (pre ++ post) := by
  have hskip : resolveArg look level a = .ok .skip := by
    simp [resolveArg, hset, hmiss, hreq, bind, Except.bind, pure, Except.pure]
  refine ⟨hskip, ?_⟩
  induction pre with
  | nil =>
    simp only [List.nil_append, resolveArgs, hskip, bind, Except.bind]
    cases resolveArgs look level post <;> rfl
  | cons x xs ih => simp only [List.cons_append, resolveArgs, ih]

/-- In general: an argument that is skipped — for whatever reason: its `set_if` is false, its `set_if` or its
    value refers to a missing macro — drops only itself; every other argument resolves as if the entry were
    not in the dictionary. -/
theorem skipped_argument_drops_only_itself (look : Bytes → Lookup) (level : Nat) (a : ArgSpec)
    (hskip : resolveArg look level a = .ok .skip) (pre post : List ArgSpec) :
    resolveArgs look level (pre ++ a :: post) = resolveArgs look level (pre ++ post) := by
  induction pre with
  | nil =>
    simp only [List.nil_append, resolveArgs, hskip, bind, Except.bind]
    cases resolveArgs look level post <;> rfl
  | cons x xs ih => simp only [List.cons_append, resolveArgs, ih]

/-- `set_if`: the argument is added only when the resolved `set_if` is true.  A `set_if` that refers to a
    missing macro skips the argument (also a `required` one: nothing fails), and so does one that resolves
    to false — `"false"`, `false`, `0`, Empty, a text that is no number. -/
theorem set_if_guards_argument (look : Bytes → Lookup) (level : Nat) (a : ArgSpec) (v : Val) (miss : Bool)
    (hne : a.setIf.isEmpty = false)
    (hres : resolveMacros look (level + 1) false a.setIf = .ok (v, miss))
    (hoff : miss = true ∨ setIfTruth v = some false) :
    resolveArg look level a = .ok .skip := by
  rcases hoff with rfl | hf
  · simp [resolveArg, hne, hres, bind, Except.bind, pure, Except.pure]
  · cases miss <;> simp [resolveArg, hne, hres, hf, bind, Except.bind, pure, Except.pure]

-- non-vacuity: `vars.ssl = false` (a Boolean) switches `-S` off, `true` switches it on; a missing macro in set_if of a required argument: skipped
example :
    let args := some [{ dkey := [45, 83], setIf := .str [36, 115, 36] : ArgSpec }]
    resolveArguments (resolveMacro [{ rname := [104], vars := [([115], .bool false)], attrs := [] }]) 0 (.arr [[47, 112]]) args = .ok (.argv [[47, 112]]) ∧
    resolveArguments (resolveMacro [{ rname := [104], vars := [([115], .bool true)], attrs := [] }]) 0 (.arr [[47, 112]]) args = .ok (.argv [[47, 112], [45, 83]]) ∧
    resolveArguments (resolveMacro []) 0 (.arr [[47, 112]])
      (some [{ dkey := [45, 83], value := .str [120], required := true, setIf := .str [36, 115, 36] }]) = .ok (.argv [[47, 112]]) := by decide

/-- A missing required macro fails the resolution (the check becomes UNKNOWN, `ExecuteCommand` reports
    exit status 3 without starting a process), provided the entries before it resolve. -/
theorem required_missing_fails (look : Bytes → Lookup) (level : Nat) (a : ArgSpec) (v : Val)
    (hset : a.setIf.isEmpty = true) (hreq : a.required = true)
    (hmiss : resolveMacros look (level + 1) false a.value = .ok (v, true)) (pre post : List ArgSpec)
    (hpre : ∀ x ∈ pre, ∃ o, resolveArg look level x = .ok o) (cmd : Cmd) (base : CmdOut)
    (hcmd : resolveCommand look level cmd true = .ok base) :
    resolveArg look level a = .error .required ∧
    resolveArguments look level cmd (some (pre ++ a :: post)) = .error .required := by
  have hfail : resolveArg look level a = .error .required := by
    simp [resolveArg, hset, hmiss, hreq, bind, Except.bind, pure, Except.pure, throw, throwThe, MonadExceptOf.throw]
  refine ⟨hfail, ?_⟩
  have hargs : resolveArgs look level (pre ++ a :: post) = .error .required := by
    induction pre with
    | nil => simp [resolveArgs, hfail, bind, Except.bind]
    | cons x xs ih =>
      obtain ⟨o, ho⟩ := hpre x (by simp)
      have := ih (fun y hy => hpre y (by simp [hy]))
      simp [resolveArgs, ho, this, bind, Except.bind]
  simp [resolveArguments, hcmd, hargs, bind, Except.bind]

-- non-vacuity: `-w $nx$` optional between two present arguments; the same entry `required`
example : resolveArguments (resolveMacro []) 0 (.arr [[47, 112]])
    (some [{ dkey := [45, 97], value := .str [120] }, { dkey := [45, 119], value := .str [36, 110, 120, 36] }, { dkey := [45, 122], value := .str [121] }])
    = .ok (.argv [[47, 112], [45, 97], [120], [45, 122], [121]]) := by decide
example : resolveArguments (resolveMacro []) 0 (.arr [[47, 112]])
    (some [{ dkey := [45, 97], value := .str [120] }, { dkey := [45, 119], value := .str [36, 110, 120, 36], required := true }])
    = .error .required := by decide

/-! ## Where macro values come from: the levels, never the daemon's environment -/

/-- A short macro (`$name$`, no `object.` prefix) is resolved from the given levels and the global `Vars` alone:
    the result of the whole resolver loop — default resolvers `icinga` and `env` included — is the same whatever
    the environment of the daemon contains (the `env` resolver is registered with `ResolveShortMacros = false`). -/
theorem short_macro_ignores_environment (objs : List Obj) (g : List (Bytes × Val)) (env env' : List (Bytes × Bytes))
    (n : Bytes) (hdot : DOT ∉ n) :
    resolveMacroFull objs { globals := g, env := env } n = resolveMacroFull objs { globals := g, env := env' } n := by
  rw [resolveMacroFull_short _ _ _ hdot, resolveMacroFull_short _ _ _ hdot]
  rfl

/-- A short macro that no level defines (no custom variable and no attribute of that name on service, host, command or
    in the global `Vars`) is not found — whatever the daemon's environment holds under that name — and `$name$`
    resolves to Empty with the missing report set (which drops an optional argument and fails a required one:
    `optional_missing_drops_only_its_argument`, `required_missing_fails`). -/
theorem undefined_short_macro_missing (objs : List Obj) (dflt : Defaults) (n : Bytes) (hdot : DOT ∉ n) (hne : n ≠ [])
    (hd : DOLLAR ∉ n) (hundef : definedOnSomeLevel (objs ++ [dflt.icinga]) n = false) :
    resolveMacroFull objs dflt n = .notFound ∧
    ∀ fuel esc, internalResolve (resolveMacroFull objs dflt) (fuel + 1) esc (DOLLAR :: (n ++ [DOLLAR]))
      = .ok (if esc then Val.str (escapeMacroShellArg .empty) else .empty, true) := by
  obtain ⟨hnv, hall⟩ := undefined_levels _ n hundef
  have hnf : resolveMacroFull objs dflt n = .notFound := by
    rw [resolveMacroFull_short _ _ _ hdot]
    exact resolveMacroIn_short_notFound _ n hnv hall
  refine ⟨hnf, fun fuel esc => ?_⟩
  have htok : tokenize (DOLLAR :: (n ++ [DOLLAR])) = [.lit [], .mac n, .lit []] := by
    have := tokenize_macro [] n [] (by simp) hd
    simpa [tokenize, tok] using this
  simp only [internalResolve, htok]
  exact expandMacro_notFound _ _ esc n hne hnf

/-- Spec on the trace, clause `undefined_macro_missing`, ALL strings: for every configuration of the levels, every
    environment of the daemon, every string `s` (any number of macros, any text), every recursion level and with or
    without shell escaping — whenever the model's `InternalResolveMacros` yields a value, the missing report it yields
    satisfies the clause as the driver evaluates it on the implementation's report: if `s` mentions at its top level
    a short macro that no level defines, the report is set. -/
theorem model_meets_undefined_clause (objs : List Obj) (dflt : Defaults) (fuel : Nat) (esc : Bool) (s : Bytes) (v : Val) (m : Bool)
    (h : internalResolve (resolveMacroFull objs dflt) (fuel + 1) esc s = .ok (v, m)) :
    specUndefined (objs ++ [dflt.icinga]) s m = none := by
  unfold specUndefined
  split
  · next hc =>
    exfalso
    simp only [Bool.and_eq_true, List.any_eq_true, Bool.not_eq_true'] at hc
    obtain ⟨⟨n, hn, hu⟩, hm⟩ := hc
    simp only [undefinedShort, Bool.and_eq_true, Bool.not_eq_true', List.isEmpty_eq_false_iff] at hu
    obtain ⟨⟨hne, hdot⟩, hundef⟩ := hu
    have hdot' : DOT ∉ n := by simpa using hdot
    obtain ⟨hnv, hall⟩ := undefined_levels _ n hundef
    have hnf : resolveMacroFull objs dflt n = .notFound := by
      rw [resolveMacroFull_short _ _ _ hdot']
      exact resolveMacroIn_short_notFound _ n hnv hall
    subst hm
    rw [internalResolve] at h
    split at h
    · next k htok =>
      simp only [htok, macroNames, List.mem_singleton] at hn
      subst hn
      rw [expandMacro_notFound _ _ esc n hne hnf] at h
      simp at h
    · simp only [bind, Except.bind] at h
      cases hc : concatToks (resolveMacroFull objs dflt) (fun t => internalResolve (resolveMacroFull objs dflt) fuel false t) esc (tokenize s) with
      | error e => simp [hc] at h
      | ok p =>
        obtain ⟨b, m'⟩ := p
        simp only [hc, pure, Except.pure, Except.ok.injEq, Prod.mk.injEq] at h
        have := concatToks_missing _ _ esc _ ⟨n, hn, hne, hnf⟩ b m' hc
        rw [this] at h
        simp at h
  · rfl

/-- … and a `required` argument without `set_if` whose value is such a string fails `ResolveArguments` (clause
    `undefined_macro_missing` on G / X lines), provided the entries before it resolve. -/
theorem required_undefined_fails (objs : List Obj) (dflt : Defaults) (level : Nat) (a : ArgSpec)
    (hreq : requiredUndefined (objs ++ [dflt.icinga]) a = true) :
    (∃ e, resolveArg (resolveMacroFull objs dflt) level a = .error e) := by
  simp only [requiredUndefined, Bool.and_eq_true] at hreq
  obtain ⟨⟨hset, hr⟩, hv⟩ := hreq
  cases hval : a.value with
  | empty => simp [hval] at hv
  | arr l => simp [hval] at hv
  | str b =>
    simp only [hval] at hv
    have hbne : b.isEmpty = false := by
      cases b with
      | nil => simp [tokenize, tok, macroNames] at hv
      | cons c cs => rfl
    have hrm : resolveMacros (resolveMacroFull objs dflt) (level + 1) false (.str b)
        = internalResolve (resolveMacroFull objs dflt) (fuelOfLevel (level + 1 + 1)) false b := by
      simp [resolveMacros, Raw.isEmpty, hbne]
    cases hres : internalResolve (resolveMacroFull objs dflt) (fuelOfLevel (level + 1 + 1)) false b with
    | error e => exact ⟨e, by simp [resolveArg, hset, hval, hrm, hres, bind, Except.bind, pure, Except.pure]⟩
    | ok p =>
      obtain ⟨v, m⟩ := p
      have hmt : m = true := by
        cases hf : fuelOfLevel (level + 1 + 1) with
        | zero => rw [hf] at hres; simp [internalResolve, throw, throwThe, MonadExceptOf.throw] at hres
        | succ f =>
          rw [hf] at hres
          have hm := model_meets_undefined_clause objs dflt f false b v m hres
          simp only [specUndefined, hv, Bool.true_and] at hm
          cases m <;> simp_all
      subst hmt
      exact ⟨.required, by simp [resolveArg, hset, hval, hrm, hres, hr, bind, Except.bind, pure, Except.pure, throw, throwThe, MonadExceptOf.throw]⟩

/-- A check whose argument resolution fails — for whatever reason — is reported UNKNOWN with exit status 3 and no process is
    started: the model's `ExecuteCommand` meets the trace clause `failed_not_run`. -/
theorem failed_resolution_unknown_not_run (look : Bytes → Lookup) (cmd : Cmd) (args : Option (List ArgSpec)) (msg : Bytes) (e : Err)
    (h : resolveArguments look 0 cmd args = .error e) :
    ∃ cr, executeCommand look cmd args msg = .failed cr ∧ cr.state = 3 ∧ cr.exit = 3 ∧
      specFailed (executeCommand look cmd args msg).ran cr.state cr.exit = none := by
  refine ⟨processFinished [] 3 msg, by simp [executeCommand, h], ?_, ?_, ?_⟩ <;>
    simp [executeCommand, h, Exec.ran, processFinished, exitToState, specFailed]

/-- "A missing required macro fails the check with UNKNOWN", end to end: a `required` argument without `set_if` whose value
    mentions a short macro that no level defines (whatever the daemon's environment holds under that name), the entries
    before it resolving: the check is UNKNOWN (exit status 3), nothing is started, and the trace clause
    `undefined_macro_missing` holds. -/
theorem missing_required_macro_check_unknown (objs : List Obj) (dflt : Defaults) (cmd : Cmd) (base : CmdOut)
    (pre post : List ArgSpec) (a : ArgSpec) (msg : Bytes)
    (hcmd : resolveCommand (resolveMacroFull objs dflt) 0 cmd true = .ok base)
    (hpre : ∀ x ∈ pre, ∃ o, resolveArg (resolveMacroFull objs dflt) 0 x = .ok o)
    (hreq : requiredUndefined (objs ++ [dflt.icinga]) a = true) :
    ∃ cr, executeCommand (resolveMacroFull objs dflt) cmd (some (pre ++ a :: post)) msg = .failed cr ∧ cr.state = 3 ∧ cr.exit = 3 ∧
      specRequiredUndefined (objs ++ [dflt.icinga]) (pre ++ a :: post) true = none := by
  obtain ⟨e, he⟩ := required_undefined_fails objs dflt 0 a hreq
  have hargs : ∃ e', resolveArgs (resolveMacroFull objs dflt) 0 (pre ++ a :: post) = .error e' := by
    induction pre with
    | nil => exact ⟨e, by simp [resolveArgs, he, bind, Except.bind]⟩
    | cons x xs ih =>
      obtain ⟨o, ho⟩ := hpre x (by simp)
      obtain ⟨e', he'⟩ := ih (fun y hy => hpre y (by simp [hy]))
      exact ⟨e', by simp [resolveArgs, ho, he', bind, Except.bind]⟩
  obtain ⟨e', he'⟩ := hargs
  have hfail : resolveArguments (resolveMacroFull objs dflt) 0 cmd (some (pre ++ a :: post)) = .error e' := by
    simp [resolveArguments, hcmd, he', bind, Except.bind]
  obtain ⟨cr, h1, h2, h3, _⟩ := failed_resolution_unknown_not_run _ cmd _ msg e' hfail
  exact ⟨cr, h1, h2, h3, by simp [specRequiredUndefined]⟩

-- non-vacuity of `failed_not_run`: a failed resolution that started a process, or is not UNKNOWN, is rejected
example : specFailed true 3 3 = some .failedNotRun := by decide
example : specFailed false 0 0 = some .failedNotRun := by decide
example : executeCommand (resolveMacro []) (.arr [[47, 112]]) (some [{ dkey := [45, 119], value := .str [36, 110, 120, 36], required := true }]) [109]
    = .failed { state := 3, exit := 3, output := [109], perfdata := [] } := by decide

-- non-vacuity: `nx` is in the daemon's environment only: `$nx$` is missing, `-w $nx$` is dropped, required: fails; `$env.nx$` reads it
example :
    let dflt : Defaults := { globals := [([103], .str [71])], env := [([110, 120], [76, 69, 65, 75])] }
    let look := resolveMacroFull [{ rname := [104, 111, 115, 116], vars := [], attrs := [] }] dflt
    internalResolve look 14 false [36, 110, 120, 36] = .ok (.empty, true) ∧
    internalResolve look 14 false [36, 101, 110, 118, 46, 110, 120, 36] = .ok (.str [76, 69, 65, 75], false) ∧
    internalResolve look 14 false [36, 103, 36] = .ok (.str [71], false) ∧
    resolveArguments look 0 (.arr [[47, 112]]) (some [{ dkey := [45, 119], value := .str [36, 110, 120, 36] }]) = .ok (.argv [[47, 112]]) ∧
    resolveArguments look 0 (.arr [[47, 112]]) (some [{ dkey := [45, 119], value := .str [36, 110, 120, 36], required := true }]) = .error .required := by decide
-- the clause rejects an implementation that finds `nx` somewhere else
example : specUndefined [{ rname := [104], vars := [], attrs := [] }] [45, 119, 32, 36, 110, 120, 36] false = some .undefinedMissing := by decide
example : specRequiredUndefined [{ rname := [104], vars := [], attrs := [] }]
    [{ dkey := [45, 119], value := .str [36, 110, 120, 36], required := true }] false = some .undefinedMissing := by decide

/-- The prefixed form `$env.NAME$` is the one way to the daemon's environment: when no level is called `env`, the value
    of the variable is found, marked non-recursive — so it is inserted verbatim and never scanned again
    (`verbatim_insertion`, `lone_macro_verbatim` apply with this lookup). -/
theorem env_macro_verbatim (objs : List Obj) (dflt : Defaults) (x v : Bytes) (hx : DOT ∉ x) (hxd : DOLLAR ∉ x)
    (hobjs : ∀ o ∈ objs, o.rname ≠ sEnv) (hv : assocB dflt.env x = some v) :
    resolveMacroFull objs dflt (sEnv ++ DOT :: x) = .found (.str v) false ∧
    ∀ fuel, internalResolve (resolveMacroFull objs dflt) (fuel + 1) false (DOLLAR :: ((sEnv ++ DOT :: x) ++ [DOLLAR])) = .ok (.str v, false) := by
  have hsplit : splitOn DOT [] (sEnv ++ DOT :: x) = [sEnv, x] := by
    have := splitOn_no_sep DOT [] x hx
    simp [sEnv, splitOn, DOT, this] at this ⊢
  have hin : ∀ os : List Obj, (∀ o ∈ os, o.rname ≠ sEnv) → resolveMacroIn os (sEnv ++ DOT :: x) sEnv [x] = .notFound := by
    intro os hos
    induction os with
    | nil => rfl
    | cons o os ih =>
      have h1 : o.resolve (sEnv ++ DOT :: x) sEnv [x] = none := by
        have : sEnv ≠ o.rname := fun e => hos o (by simp) e.symm
        have hne : sEnv ≠ [] := by simp [sEnv]
        simp [Obj.resolve, this, hne]
      simp only [resolveMacroIn, h1]
      exact ih (fun o' ho' => hos o' (by simp [ho']))
  have hfound : resolveMacroFull objs dflt (sEnv ++ DOT :: x) = .found (.str v) false := by
    have hall : ∀ o ∈ objs ++ [dflt.icinga], o.rname ≠ sEnv := by
      intro o ho
      simp only [List.mem_append, List.mem_singleton] at ho
      rcases ho with ho | rfl
      · exact hobjs o ho
      · simp [Defaults.icinga, sIcinga, sEnv]
    simp [resolveMacroFull, hsplit, hin _ hall, envResolve, joinDots, hv]
  refine ⟨hfound, fun fuel => ?_⟩
  have hmd : DOLLAR ∉ sEnv ++ DOT :: x := by
    simp [sEnv, DOT, DOLLAR]
    exact hxd
  exact lone_macro_verbatim _ fuel _ v hmd (by simp [sEnv]) hfound

/-! ## Exit status and plugin output -/

/-- Exit codes 0/1/2/3 map to OK/WARNING/CRITICAL/UNKNOWN and anything else to UNKNOWN; the finished-handler
    stores that state and the exit status itself. -/
theorem exit_mapping :
    exitToState 0 = 0 ∧ exitToState 1 = 1 ∧ exitToState 2 = 2 ∧ exitToState 3 = 3 ∧
    (∀ e : Int, e ≠ 0 → e ≠ 1 → e ≠ 2 → exitToState e = 3) ∧
    (∀ sfx e raw, (processFinished sfx e raw).state = exitToState e ∧ (processFinished sfx e raw).exit = e) := by
  refine ⟨by decide, by decide, by decide, by decide, ?_, ?_⟩
  · intro e h0 h1 h2
    simp [exitToState, h0, h1, h2]
  · intro sfx e raw
    simp [processFinished]

/-- On each output line the text after the first `|` is performance data exactly when it contains `=`;
    everything else is plugin output; no byte of the line is lost or invented. -/
theorem output_split (line : Bytes) :
    (∀ t, splitLine line = (t, none) →
        t = line ∧ ¬ ∃ pre post, line = pre ++ BAR :: post ∧ BAR ∉ pre ∧ EQ ∈ post) ∧
    (∀ t p, splitLine line = (t, some p) → line = t ++ BAR :: p ∧ BAR ∉ t ∧ EQ ∈ p) := by
  have hc := cutAt_spec BAR line
  constructor
  · intro t h
    unfold splitLine at h
    cases hcut : cutAt BAR line with
    | mk a ob =>
      rw [hcut] at h
      cases ob with
      | none =>
        simp only [Prod.mk.injEq, and_true] at h
        refine ⟨h.symm, ?_⟩
        rintro ⟨pre, post, rfl, _, _⟩
        exact (hc.2 a hcut).2 (by simp)
      | some post =>
        simp only at h
        split at h
        · simp at h
        · next hne =>
          simp only [Prod.mk.injEq, and_true] at h
          refine ⟨h.symm, ?_⟩
          rintro ⟨pre', post', hl, hpre, hpost⟩
          have := cutAt_of_decomp BAR pre' post' hpre
          rw [← hl, hcut] at this
          simp only [Prod.mk.injEq, Option.some.injEq] at this
          obtain ⟨_, rfl⟩ := this
          exact hne (by simpa using hpost)
  · intro t p h
    unfold splitLine at h
    cases hcut : cutAt BAR line with
    | mk a ob =>
      rw [hcut] at h
      cases ob with
      | none => simp at h
      | some post =>
        simp only at h
        split at h
        · next heq =>
          simp only [Prod.mk.injEq, Option.some.injEq] at h
          obtain ⟨rfl, rfl⟩ := h
          obtain ⟨h1, h2⟩ := hc.1 a post hcut
          exact ⟨h1, h2, by simpa using heq⟩
        · simp at h

example : parseCheckOutput [79, 75, 32, 124, 32, 97, 61, 49, 10, 120, 124, 121] = ([79, 75, 32, 10, 120, 124, 121], [97, 61, 49]) := by decide

/-! ## How the process ended: timeout and signals -/

/-- A plugin that did not end by its own `exit` — the timeout expired (SIGTERM had been sent, whatever the
    plugin did with it: died, caught it and exited 0/1/2/3 by itself, ignored it and was killed), or it was
    terminated by a signal of whatever number, or `waitpid` failed — is reported with exit status 128, hence
    UNKNOWN, and the trace clauses `timeout_unknown` / `signal_unknown` hold of the model's result for every
    plugin output. -/
theorem killed_plugin_unknown (e : Ending) (hk : e.killed = true) :
    e.exit = 128 ∧ (∀ sfx raw, (processFinished sfx e.exit raw).state = 3) ∧
    specSignal (exitToState e.exit) = none ∧ specTimeout (exitToState e.exit) true = none := by
  have h128 : e.exit = 128 := by
    obtain ⟨dp, cnk, w⟩ := e
    cases dp <;> cases cnk <;> cases w <;> simp_all [Ending.killed, Ending.exit, processExit]
  refine ⟨h128, ?_, ?_, ?_⟩ <;> simp [h128, processFinished, exitToState, specSignal, specTimeout]

/-- … and only then: a plugin that exits by itself in time keeps its exit code. -/
theorem own_exit_code_kept (cnk : Bool) (c : Nat) :
    (Ending.mk false cnk (.exited c)).exit = c ∧ (Ending.mk false cnk (.exited c)).killed = false := by
  simp [Ending.exit, Ending.killed, processExit]

-- non-vacuity: SIGHUP (1) is UNKNOWN, not WARNING; a trapped SIGTERM with exit 0 after the deadline is UNKNOWN, not OK
example : exitToState (Ending.mk false false (.signaled 1)).exit = 3 := by decide
example : exitToState (Ending.mk true false (.exited 0)).exit = 3 := by decide
example : exitToState (Ending.mk false false (.exited 1)).exit = 1 := by decide
example : specSignal 1 = some .signalUnknown := by decide
example : specTimeout 0 true = some .timeoutUnknown := by decide
example : specEnv (some [97, 39, 32, 98]) (some [39, 97, 39, 92, 39, 39, 32, 98, 39]) = some .envVerbatim := by decide

/-! ## Specification on the trace -/

/-- The model's check result meets the specification predicates the driver evaluates on the
    implementation's observations (`exit_mapping`, `output_text`, `perfdata`), for every exit status and
    every plugin output. -/
theorem model_result_meets_spec (suffix : Bytes) (exit : Int) (raw : Bytes) :
    specExit exit (processFinished suffix exit raw).state (processFinished suffix exit raw).exit = none ∧
    specOutput suffix exit raw (processFinished suffix exit raw).output (processFinished suffix exit raw).perfdata = none := by
  constructor
  · simp [specExit, processFinished, specState_eq]
  · have h : ∀ out, (parseCheckOutput out) =
        (joinQuirk LF ((splitLines [] out).map textPart), trim (joinQuirk SPACE ((splitLines [] out).filterMap perfPart))) := by
      intro out
      simp [parseCheckOutput, foldl_parseStep, joinQuirk, joinQuirkFrom]
    simp only [specOutput, processFinished, handledOutput, h]
    split <;> simp

/-- Spec on the trace for string command lines, FULL over templates: for EVERY template (any number of
    macros, macros inside words such as `--opt=$m$` or `pre$a$$b$post`, quotes and backslashes in the
    literal text) in which every macro stands where the sh lexer is in its unquoted state
    (`UnqAtMacros`, the hypothesis `shell_quote_roundtrip` forces) and every macro has a scalar value —
    whatever bytes —, the model's command line read by the byte lexer yields exactly the words of the
    template with each value verbatim in place of its macro (simulation `lexer_simulation` between the
    lexer on the resolved line and the lexer on the template), which is what the specification predicate
    `string_cmd_verbatim` demands.  Without `UnqAtMacros` the statement is false
    (`shell_quote_needs_unquoted_counterexample`, F-C09a). -/
theorem model_string_command_meets_spec (look : Bytes → Lookup) (fuel : Nat) (vo : Bytes → Option Bytes)
    (tmpl : Bytes) (syms : List Sym) (hsym : symLine (tokenize tmpl) = some syms)
    (hvals : ScalarMacros look (fun t => internalResolve look fuel false t) vo (tokenize tmpl))
    (hunq : UnqAtMacros {} syms) :
    ∃ line m, internalResolve look (fuel + 1) true tmpl = .ok (.str line, m) ∧
      shWords line = (symWords syms).map (fun ws => ws.map (fillSym vo)) ∧
      ∀ argv, shWords line = .ok argv → specStringCmd tmpl vo argv = none := by
  obtain ⟨m, hm⟩ := concatToks_renderEsc look _ vo (tokenize tmpl) syms hsym hvals
  refine ⟨renderEsc vo syms, m, ?_, shWords_renderEsc vo syms hunq, ?_⟩
  · simp [internalResolve_esc, hm, Except.map]
  · intro argv hargv
    rw [shWords_renderEsc vo syms hunq] at hargv
    have hall : (macroNames (tokenize tmpl)).all (fun n => (vo n).isSome) = true := by
      simp only [List.all_eq_true]
      intro n hn
      obtain ⟨_, _, _, b, _, _, hb⟩ := hvals n hn
      simp [hb]
    cases hw : symWords syms with
    | error e => simp [hw, Except.map] at hargv
    | ok ws =>
      simp only [hw, Except.map, Except.ok.injEq] at hargv
      simp [specStringCmd, specExpectedArgv, hsym, hall, hw, hargv]

-- non-vacuity: "/p -o=$a$ $b$$a$" with a = "x' $(" and b = "\n*": three words, the values verbatim
example :
    let look := resolveMacro [{ rname := [104], vars := [], attrs := [([97], .str [120, 39, 32, 36, 40]), ([98], .str [10, 42])] }]
    let vo : Bytes → Option Bytes := fun n => if n = [97] then some [120, 39, 32, 36, 40] else if n = [98] then some [10, 42] else none
    let tmpl : Bytes := [47, 112, 32, 45, 111, 61, 36, 97, 36, 32, 36, 98, 36, 36, 97, 36]
    internalResolve look 14 true tmpl
      = .ok (.str ([47, 112, 32, 45, 111, 61] ++ escapeShellArg [120, 39, 32, 36, 40] ++ [32] ++ escapeShellArg [10, 42]
                   ++ escapeShellArg [120, 39, 32, 36, 40]), false) ∧
    specStringCmd tmpl vo [[47, 112], [45, 111, 61, 120, 39, 32, 36, 40], [10, 42, 120, 39, 32, 36, 40]] = none := by decide

-- the predicates are not vacuous: a wrong state, a perfdata part left in the output are rejected
example : specExit 2 3 2 = some .exitMapping := by decide
example : specOutput [] 0 [79, 75, 124, 97, 61, 49] [79, 75, 124, 97, 61, 49] [] = some .outputText := by decide
example : specOutput [] 0 [79, 75, 124, 97, 61, 49] [79, 75] [[97, 61, 49]] = none := by decide
example : specStringCmd [47, 112, 32, 36, 97, 36] (fun _ => some [120, 32, 121]) [[47, 112], [120], [121]] = some .stringCmdVerbatim := by decide
example : specStringCmd [47, 112, 32, 36, 97, 36] (fun _ => some [120, 32, 121]) [[47, 112], [120, 32, 121]] = none := by decide

end Icinga.C09

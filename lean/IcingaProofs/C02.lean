/-
  C02 — property theorems.  Every `theorem` in this file is a proof obligation of the check.
  Helper lemmas: IcingaProofs/C02/Lemmas.lean, IcingaProofs/C02/Core.lean (simulation relation `Rel`,
  operations, the per-step lemmas about the request clauses).

  The model (IcingaModel/C02/Model.lean) transcribes the code *after* the two repairs of round 1
  (`fix:` commits in /repo): F-C02a (hosts compare UP/DOWN when releasing) and F-C02b (volatile objects
  do not request a Recovery when leaving a soft problem state).  With the repairs the property is
  proved at full strength; before them the check reported both as violations with replays.
-/
import IcingaProofs.C02.Core
import IcingaProofs.C02.Ack
import IcingaProofs.C02.System
import IcingaProofs.C02.Flap

namespace Icinga.C02
open Icinga.C01

/-- **result_step_meets_spec.**  One processed result: the requests satisfy the property's clauses for
    results (flapping exactly on a toggle; Problem/Recovery exactly on a hard event; nothing while
    flapping, paused, suppressed or while earlier events are withheld), the two attributes remember the
    withheld event and the hard state before suppression began, and the relation is re-established. -/
theorem result_step_meets_spec (c : Cfg) (hmax : 1 ≤ c.max) (sp : SpecSt) (s : St) (r : Res) (e : REnv)
    (hr : Rel c sp s) :
    (specStep c sp (applyOp c s (.result r e)).2).1 = none ∧
    Rel c (specStep c sp (applyOp c s (.result r e)).2).2 (applyOp c s (.result r e)).1 := by
  obtain ⟨h1, h2⟩ := result_step_core c hmax sp s r e hr
  obtain ⟨o1, o2⟩ := applyOp_obs c s (.result r e)
  have h3 := remembered_of_rel c _ _ h2
  unfold specStep
  simp only [h1, o1, o2, h3]
  exact ⟨trivial, h2⟩

/-- **fire_step_meets_spec.**  One run of the suppressed-notification handler: never while a suppression
    reason holds, never without a withheld event, no release before the object rests in a hard state
    and is settled (next check not imminent — computed from `enable_active_checks`, `check_interval`
    and `next_check`, not taken from the implementation —, no parent recovered since the last
    result), at release exactly one notification iff the state differs from the remembered one
    (Recovery iff OK/Up now), afterwards nothing is withheld; the attributes agree with that. -/
theorem fire_step_meets_spec (c : Cfg) (sp : SpecSt) (s : St) (e : FEnv) (hr : Rel c sp s) :
    (specStep c sp (applyOp c s (.fire e)).2).1 = none ∧
    Rel c (specStep c sp (applyOp c s (.fire e)).2).2 (applyOp c s (.fire e)).1 := by
  obtain ⟨h1, h2⟩ := fire_step_core c sp s e hr
  obtain ⟨o1, o2⟩ := applyOp_obs c s (.fire e)
  have h3 := remembered_of_rel c _ _ h2
  unfold specStep
  simp only [h1, o1, o2, h3]
  exact ⟨trivial, h2⟩

/-- The specification's bookkeeping as read off an object's attributes (a restored or synchronised
    object: `suppressed_notifications`, `state_before_suppression`, state, state type). -/
def specOf (s : St) : SpecSt :=
  { state := s.core.state, stype := s.core.stype, pending := pendOf s.sup.hasState s.sbs,
    flapPending := flapOf s.sup.flapStart s.sup.flapEnd }

/-- A start state the code can be in: an OK/Up state is hard (C01 invariant) and FlappingStart and
    FlappingEnd are not both withheld (they cancel when stashed). -/
def StartOK (c : Cfg) (s : St) : Prop :=
  (isOK c.kind s.core.state = true → s.core.stype = .hard) ∧ (s.sup.flapStart && s.sup.flapEnd) = false

/-- **model_trace_meets_spec_from** (the whole property, from any start).  For every configuration with
    `max_check_attempts ≥ 1`, every start state satisfying `StartOK` — whatever is withheld and
    remembered in it, e.g. after a restart or a failover — and every finite sequence of check results
    and handler runs with arbitrary environments at every step, the model's trace satisfies the
    executable specification started from the bookkeeping read off that state. -/
theorem model_trace_meets_spec_from (c : Cfg) (hmax : 1 ≤ c.max) (s0 : St) (h0 : StartOK c s0) (ops : List Op) :
    specTrace c (specOf s0) (traceOf c s0 ops) = none := by
  suffices h : ∀ (ops : List Op) (sp : SpecSt) (s : St), Rel c sp s → specTrace c sp (traceOf c s ops) = none from
    h ops (specOf s0) s0 ⟨rfl, rfl, h0.1, rfl, rfl, h0.2⟩
  intro ops
  induction ops with
  | nil => intro sp s _; rfl
  | cons op rest ih =>
    intro sp s hr
    simp only [traceOf, specTrace]
    cases op with
    | result r e =>
      obtain ⟨h1, h2⟩ := result_step_meets_spec c hmax sp s r e hr
      generalize hq : specStep c sp (applyOp c s (.result r e)).2 = q at h1 h2
      obtain ⟨q1, q2⟩ := q
      simp only at h1; subst h1
      exact ih _ _ h2
    | fire e =>
      obtain ⟨h1, h2⟩ := fire_step_meets_spec c sp s e hr
      generalize hq : specStep c sp (applyOp c s (.fire e)).2 = q at h1 h2
      obtain ⟨q1, q2⟩ := q
      simp only at h1; subst h1
      exact ih _ _ h2

/-- **model_trace_meets_spec** (the whole property, from a never-checked object). -/
theorem model_trace_meets_spec (c : Cfg) (hmax : 1 ≤ c.max) (ops : List Op) :
    specTrace c specInit (traceOf c init ops) = none := by
  have h := model_trace_meets_spec_from c hmax init ?_ ops
  · exact h
  · constructor
    · intro h; cases hk : c.kind <;> simp [init, C01.pending, isOK, hostUp, hk] at h
    · rfl

/-- **never_while_suppressed.**  While a suppression reason holds the handler requests no state
    notification and keeps the withheld event. -/
theorem never_while_suppressed (c : Cfg) (s : St) (e : FEnv) (h : e.stateSuppressed = true) :
    statePart (fireStep c s e).2 = [] ∧ (fireStep c s e).1.sup.hasState = s.sup.hasState := by
  rw [fireStep_eq]
  cases hoff : (e.paused || !e.enabled)
  · have ha : fireState c s e = (false, []) := by simp [fireState, releaseNow, h]
    simp only [Bool.false_eq_true, if_false, ha, List.nil_append, Sup.hasState, Bool.not_false, Bool.and_true]
    refine ⟨?_, trivial⟩
    unfold statePart
    apply List.filter_eq_nil_iff.mpr
    intro n hn
    rcases List.mem_append.mp hn with h' | h'
    · simp [fireFlapOne_shape e s.core.state s.sup.flapStart e.isFlapping .flapStart (Or.inl rfl) n h']
    · simp [fireFlapOne_shape e s.core.state s.sup.flapEnd (!e.isFlapping) .flapEnd (Or.inr rfl) n h']
  · simp [statePart]

/-- **never_two.**  Over any number of consecutive handler runs, from any state and under arbitrary
    environments, at most one state notification is requested in total; none at all if nothing is
    withheld at the start. -/
theorem never_two (c : Cfg) (s : St) (es : List FEnv) :
    (statePart (fireRun c s es).2).length ≤ 1 ∧
    (s.sup.hasState = false → statePart (fireRun c s es).2 = []) := by
  induction es generalizing s with
  | nil => simp [fireRun, statePart]
  | cons e es ih =>
    obtain ⟨a1, a2, _, _⟩ := fireStep_state c s e
    obtain ⟨i1, i2⟩ := ih (fireStep c s e).1
    simp only [fireRun, statePart_append, a1, List.length_append]
    rw [a2] at i2
    cases hp : s.sup.hasState
    · simp only [Bool.false_and, Bool.false_eq_true, if_false, List.length_nil, List.nil_append, Nat.zero_add]
      have := i2 (by simp [hp])
      exact ⟨by simp [this], fun _ => this⟩
    · cases hr : ready s e
      · simp only [Bool.and_false, Bool.false_and, Bool.false_eq_true, if_false, List.length_nil, List.nil_append, Nat.zero_add]
        exact ⟨i1, by simp⟩
      · have := i2 (by simp [hp, hr])
        rw [this]
        refine ⟨?_, by simp⟩
        split <;> simp

/-- **withheld_event_kept_until_ready.**  Handler runs at which the release conditions do not all hold
    (any of: paused, notifications off, a suppression reason, soft state, imminent check, recent
    parent recovery) request no state notification and keep the withheld event and the remembered
    state — however many there are. -/
theorem withheld_event_kept_until_ready (c : Cfg) (s : St) (es : List FEnv)
    (hn : ∀ e ∈ es, ready s e = false) :
    statePart (fireRun c s es).2 = [] ∧ (fireRun c s es).1.sup.hasState = s.sup.hasState ∧
    (fireRun c s es).1.sbs = s.sbs ∧ (fireRun c s es).1.core = s.core := by
  induction es generalizing s with
  | nil => simp [fireRun, statePart]
  | cons e es ih =>
    obtain ⟨a1, a2, a3, a4⟩ := fireStep_state c s e
    have he : ready s e = false := hn e (by simp)
    have hn' : ∀ e' ∈ es, ready (fireStep c s e).1 e' = false := by
      intro e' h'
      have := hn e' (by simp [h'])
      simpa [ready, a4] using this
    obtain ⟨i1, i2, i3, i4⟩ := ih (fireStep c s e).1 hn'
    simp only [fireRun, statePart_append, a1, i1, he]
    refine ⟨by simp, ?_, ?_, ?_⟩
    · rw [i2, a2, he]; simp
    · rw [i3, a3]
    · rw [i4, a4]

/-- **release_at_first_ready_firing** (the liveness half of the property's quantifier).  With state
    notifications withheld: after any number of handler runs at which the release conditions do not
    all hold, the first run at which they do — not paused, notifications enabled, no suppression
    reason, hard state, next check not imminent, no parent recovered since the last result —
    requests exactly one state notification iff the (projected) state differs from the remembered
    one, of type Recovery iff the state is OK/Up, and none otherwise; afterwards nothing is withheld,
    and no later run requests another one. -/
theorem release_at_first_ready_firing (c : Cfg) (s : St) (es : List FEnv) (e : FEnv) (later : List FEnv)
    (hp : s.sup.hasState = true) (hn : ∀ e' ∈ es, ready s e' = false) (hr : ready s e = true) :
    statePart (fireRun c s (es ++ e :: later)).2 =
      (if proj c.kind s.core.state != proj c.kind s.sbs
       then [⟨if isOK c.kind s.core.state then .recovery else .problem, s.core.state⟩] else []) ∧
    (fireRun c s (es ++ [e])).1.sup.hasState = false := by
  have happ : ∀ (s : St) (a b : List FEnv), fireRun c s (a ++ b) =
      ((fireRun c (fireRun c s a).1 b).1, (fireRun c s a).2 ++ (fireRun c (fireRun c s a).1 b).2) := by
    intro s a b
    induction a generalizing s with
    | nil => simp [fireRun]
    | cons x xs ih => simp [fireRun, ih, List.append_assoc]
  obtain ⟨k1, k2, k3, k4⟩ := withheld_event_kept_until_ready c s es hn
  have hr' : ready (fireRun c s es).1 e = true := by simpa [ready, k4] using hr
  obtain ⟨a1, a2, _, _⟩ := fireStep_state c (fireRun c s es).1 e
  constructor
  · rw [happ, statePart_append, k1, List.nil_append]
    simp only [fireRun, statePart_append, a1]
    have hl := (never_two c (fireStep c (fireRun c s es).1 e).1 later).2 (by rw [a2, hr']; simp)
    rw [hl, List.append_nil, k2, k3, k4, hp, hr']
    simp [differs]
  · rw [happ]
    simp only [fireRun]
    rw [a2, hr']; simp

/-- **immediate_request** (first sentence of the property, on the model): a processed result requests a
    state notification at once iff it is a hard event of the property, the object is neither flapping
    nor paused, no suppression reason holds and nothing is withheld; its type is Recovery iff the
    object returned to OK/Up. -/
theorem immediate_request (c : Cfg) (hmax : 1 ≤ c.max) (s : St) (r : Res) (e : REnv)
    (hok : isOK c.kind s.core.state = true → s.core.stype = .hard) (hst : stale s.core r = false) :
    let s' := (stepCore c s.core r).1
    statePart (resultStep c s r e).2.1 =
      (match hardEvent c s.core.state s.core.stype s'.state s'.stype with
       | some t =>
         if !e.isFlapping && !e.paused && !(!e.notifReachable || e.inDowntime || e.acked) && !s.sup.hasState
         then [⟨t, s'.state⟩] else []
       | none => []) := by
  intro s'
  obtain ⟨u0, u1, u2, u3, u4⟩ := step_universal c hmax s.core r
  have h1 : isOK c.kind s'.state = true → s'.stype = .hard := by
    intro h; rw [u0] at h; exact (u1 h).1
  have hsend := sendOf_eq_hardEvent c s.core s'.state s'.stype h1 hok
  obtain ⟨f1, f2, f3, f4⟩ := flapPartOf_shape e s'.state
  obtain ⟨g1, g2, g3⟩ := statePartOf_shape (sendOf c s.core s'.state s'.stype)
      (isOK c.kind s'.state && !isOK c.kind s.core.state) s.sup.hasState e s'.state
  obtain ⟨_, spp⟩ := filter_split _ _ f4 g3
  simp only [resultStep, hst, Bool.false_eq_true, if_false, notifyOnResult]
  rw [spp, hsend]
  have hev := hardEvent_type c s.core.state s.core.stype s'.state s'.stype
  rcases hE : hardEvent c s.core.state s.core.stype s'.state s'.stype with _ | t
  · simp [statePartOf]
  · have := hev t hE
    subst this
    obtain ⟨e1, e2, e3, e4, e5, e6⟩ := e
    cases (isOK c.kind s'.state && !isOK c.kind s.core.state) <;> cases s.sup.hasState <;>
      cases e1 <;> cases e2 <;> cases e3 <;> cases e5 <;> cases e6 <;> simp [statePartOf]

/-! ## The suppression reason "acknowledged" (acknowledgement set / clear / expiry)

  The code keeps two attributes and clears them lazily inside `GetAcknowledgement()` when the expiry time
  has passed; the property speaks about the acknowledgement that the operations put in force. -/

/-- **ack_trace_meets_spec.**  For every sequence of acknowledgement operations (set — also on top of an
    acknowledgement already in place —, clear, accepted results with or without a state change / a
    recovery, reads) at non-decreasing virtual times, after every operation `IsAcknowledged()` answers
    exactly "an acknowledgement was set, not cleared since, not ended by a state change (normal) / the
    recovery (sticky), and its own expiry time — if it has one — has not passed": the newest
    acknowledgement replaces the one in place, including its expiry. -/
theorem ack_trace_meets_spec (ops : List (Int × AckOp)) (t0 : Int) (hm : monotoneFrom t0 ops = true) :
    specAckTrace {} 0 (ackTraceOf ackCleared ops) = none :=
  ackInv_trace ops ackCleared {} t0 0 (Or.inl ⟨rfl, rfl⟩) hm

/-- **ack_without_expiry_stays_in_force.**  An acknowledgement set without expiry — whatever was in
    place before, e.g. one with an expiry time — is reported by `IsAcknowledged()` at every later read,
    at whatever times the reads happen and however many there are. -/
theorem ack_without_expiry_stays_in_force (a : AckSt) (sticky : Bool) (t : Int) (reads : List Int) :
    ∀ now ∈ reads, isAcked (reads.foldl (fun a' n => ackStep a' n .query) (ackStep a t (.set sticky 0))) now = true := by
  have h0 : ackStep a t (.set sticky 0) = ackSet sticky 0 := by
    cases sticky <;> simp [ackStep, getAck, ackExpired, ackSet]
  rw [h0]
  have hfix : ∀ (l : List Int), l.foldl (fun a' n => ackStep a' n .query) (ackSet sticky 0) = ackSet sticky 0 := by
    intro l
    induction l with
    | nil => rfl
    | cons x xs ih =>
      have : ackStep (ackSet sticky 0) x .query = ackSet sticky 0 := by
        cases sticky <;> simp [ackStep, getAck, ackExpired, ackSet]
      simp only [List.foldl_cons, this, ih]
  intro now _
  rw [hfix]
  cases sticky <;> simp [isAcked, getAck, ackExpired, ackSet]

/-- The hypothesis of `ack_trace_meets_spec` is needed (and is what the virtual clock guarantees): with a
    clock that runs backwards the lazily cleared attributes forget an acknowledgement that is in force. -/
example : specAckTrace {} 0 (ackTraceOf ackCleared [(10, .set true 20), (21, .query), (15, .query)]) = some 2 := by decide

/-- Non-vacuity: set with expiry, replaced by one without, read after the first one's expiry time, normal
    acknowledgement ended by a state change, sticky one by the recovery only. -/
example : (ackTraceOf ackCleared [(10, .set true 20), (11, .set true 0), (30, .query), (31, .result true false),
    (32, .result true true), (33, .set false 40), (40, .query), (41, .query)]).map (·.2.2) =
    [true, true, true, true, false, true, true, false] := by decide

/-- The specification rejects a trace in which the acknowledgement without expiry that replaced one
    expiring at 20 is gone at time 30 (the older expiry time was kept). -/
example : specAckTrace {} 0 [(10, .set true 20, true), (11, .set true 0, true), (30, .query, false)] = some 2 := by decide

/-- … and one in which a sticky acknowledgement is dropped by a change between problem states. -/
example : specAckTrace {} 0 [(10, .set true 0, true), (11, .result true false, false)] = some 1 := by decide

/-! ## Non-vacuity -/

def exCfg : Cfg := { kind := .service, max := 1, volatile := false }
def envClean : REnv := ⟨true, false, false, false, false, false⟩
def envDowntime : REnv := ⟨true, true, false, false, false, false⟩
/-- active checks, check_interval 5 min, next check in 4 min -/
def fireClean : FEnv := ⟨false, true, false, false, false, true, 300000000, 240000000, false⟩
/-- active checks, check_interval 30 s, next check in 25 s: not imminent (25 s > 30 s − 10 s) -/
def fireShort : FEnv := { fireClean with interval := 30000000, nextIn := 25000000 }

def fireSuppressed : FEnv := { fireClean with stateSuppressed := true }
def fireSoon : FEnv := { fireShort with nextIn := 20000000 }

def notifsOf : Obs → List Notif | .result _ _ _ _ ns _ _ => ns | .fire _ ns _ _ => ns

/-- OK, then CRITICAL inside a downtime (withheld, remembered state OK), then release: one Problem. -/
example : (traceOf exCfg init [.result ⟨.ok, 1, 1⟩ envClean, .result ⟨.critical, 2, 2⟩ envDowntime, .fire fireClean]).map notifsOf =
    [[], [], [⟨.problem, .critical⟩]] := by decide

/-- The same with a 30 s check interval and the next check 25 s away: released (not imminent); with the
    next check 20 s away: kept. -/
example : (traceOf exCfg init [.result ⟨.ok, 1, 1⟩ envClean, .result ⟨.critical, 2, 2⟩ envDowntime,
    .fire fireSoon, .fire fireShort, .fire fireShort]).map notifsOf =
    [[], [], [], [⟨.problem, .critical⟩], []] := by decide

/-- `release_at_first_ready_firing` applies to a concrete state: hypotheses are satisfiable. -/
example : ∃ s : St, s.sup.hasState = true ∧ ready s fireSuppressed = false ∧ ready s fireShort = true :=
  ⟨{ core := { state := .critical, stype := .hard, attempt := 1, lastHard := .critical, lastExec := some 2 },
     sup := { problem := true }, sbs := .ok }, by decide⟩

/-- `model_trace_meets_spec_from`: a restored object with a withheld Recovery and remembered WARNING. -/
def exRestored : St :=
  { core := { state := .ok, stype := .hard, attempt := 1, lastHard := .ok, lastExec := some 2 },
    sup := { recovery := true, flapEnd := true }, sbs := .warning }
example : StartOK exCfg exRestored := by
  constructor <;> decide

/-- The specification rejects a trace in which the withheld Problem is released while still suppressed. -/
example : specTrace exCfg specInit
    [.result true .ok .hard envClean [] false .ok, .result true .critical .hard envDowntime [] true .ok,
     .fire fireSuppressed [⟨.problem, .critical⟩] true .ok] = some .fireSuppressed := by decide

/-- … one in which a Recovery is requested for a soft problem that went away … -/
example : specTrace { kind := .service, max := 3, volatile := false } specInit
    [.result true .ok .hard envClean [] false .ok, .result true .critical .soft envClean [] false .ok,
     .result true .ok .hard envClean [⟨.recovery, .ok⟩] false .ok] = some .stateNone := by decide

/-- … one in which the withheld Problem is not released although the 30 s-interval object's next check
    is 25 s away (the handler regarded "within a minute" as imminent) … -/
example : specTrace exCfg specInit
    [.result true .ok .hard envClean [] false .ok, .result true .critical .hard envDowntime [] true .ok,
     .fire fireShort [] true .ok] = some .fireRelease := by decide

/-- … and one in which the remembered state is not the hard state before suppression began. -/
example : specTrace exCfg specInit
    [.result true .warning .hard envClean [⟨.problem, .warning⟩] false .ok,
     .result true .critical .hard envDowntime [] true .ok] = some .remembered := by decide

/-! ## Flapping detection (the toggle the property takes as given) -/

/-- **flapping_ring_is_sliding_window.**  For every sequence of results the code's ring buffer with its
    rotating index (checkable-flapping.cpp:38-96) decides exactly like a sliding window over the last
    20 results whose state-change flags weigh 0.8 (oldest) … 1.18 (newest): same flapping state and same
    exact ties with the threshold after every result — from any pair of related states, in particular
    from a new object. -/
theorem flapping_ring_is_sliding_window (fc : FlapCfg) (rs : List SState) :
    flapRun fc {} rs = specFlapRun fc {} rs :=
  flapRel_run fc rs {} {} ⟨by decide, by decide, by decide, by decide, rfl, rfl⟩

/-- **flapping_starts_only_on_state_change.**  With `flapping_threshold_low ≤ flapping_threshold_high`: an
    object that is not flapping and whose weighted total is not above the high threshold (true of every
    non-flapping state the detection itself produced, second part) does not start flapping on a result
    that repeats the previous state — so a FlappingStart can only be due on a result that changes the
    state. -/
theorem flapping_starts_only_on_state_change (fc : FlapCfg) (hlh : fc.low ≤ fc.high) (sf : SpecFlap) (new : SState) :
    (sf.flapping = false → windowSum sf.window ≤ 20 * fc.high → new = sf.last →
      (specFlapStep fc sf new).1.flapping = false) ∧
    ((specFlapStep fc sf new).1.flapping = false → windowSum (specFlapStep fc sf new).1.window ≤ 20 * fc.high) := by
  constructor
  · intro hf hs hn
    subst hn
    have := windowSum_slide_false sf.window
    simp only [specFlapStep, flapDecide, hf, bne_self_eq_false, Bool.false_eq_true, if_false, decide_eq_false_iff_not]
    omega
  · intro h
    simp only [specFlapStep, flapDecide, decide_eq_false_iff_not] at h ⊢
    split at h <;> omega

/-- **stable_object_stops_flapping.**  After 20 consecutive results that repeat the state, the window holds
    no state change and the object is not flapping — whatever the window, the thresholds and the
    flapping state were before (a FlappingEnd is due then at the latest). -/
theorem stable_object_stops_flapping (fc : FlapCfg) (sf : SpecFlap) (hlen : sf.window.length = 20) :
    ((List.replicate 20 sf.last).foldl (fun f r => (specFlapStep fc f r).1) sf).flapping = false := by
  have hw := window_after_stable fc 20 sf hlen (by omega)
  have h0 : sf.window.drop 20 = [] := by rw [← hlen]; simp
  rw [h0, List.nil_append] at hw
  have hsplit : List.replicate 20 sf.last = List.replicate 19 sf.last ++ [sf.last] := by
    rw [← List.replicate_succ']
  rw [hsplit, List.foldl_append] at hw ⊢
  simp only [List.foldl_cons, List.foldl_nil] at hw ⊢
  rw [specFlapStep_flapping, hw]
  have hz : windowSum (List.replicate 20 false) = 0 := windowSumFrom_replicate_false 0 20
  rw [hz]
  simp only [flapDecide, decide_eq_false_iff_not]
  omega

/-- Non-vacuity: a service alternating between OK and CRITICAL starts flapping at the sixth result
    (six state changes weighing 1.08 … 1.18: 33.9 % > 30 %). -/
example : (flapRun {} {} [.ok, .critical, .ok, .critical, .ok, .critical, .ok, .critical]).map (·.1) =
    [false, false, false, false, false, true, true, true] := by decide

/-- The hypotheses of `flapping_starts_only_on_state_change` hold of a new object. -/
example : ({} : SpecFlap).flapping = false ∧ windowSum ({} : SpecFlap).window ≤ 20 * ({} : FlapCfg).high := by decide

/-- The hypothesis of `stable_object_stops_flapping` holds of a new object (and is preserved by every result). -/
example : ({} : SpecFlap).window.length = 20 := by decide

/-- Exact ties exist (six state changes weighing 6.00 in total = 30 %): there binary64 rounding decides in the code. -/
example : (flapDecide {} false 600).2 = true ∧ (flapDecide {} false 600).1 = false ∧ (flapDecide {} true 502).1 = true := by decide

/-! ## The composed system: acknowledgement attributes + notification bookkeeping -/

/-- **system_trace_meets_spec_from.**  `IsAcknowledged()` is not an input any more: for every
    configuration, every start (bookkeeping related to the attributes, acknowledgement related to the two
    acknowledgement attributes) and every sequence of results, handler runs, acknowledgement set (also
    on top of one in place) and clear at non-decreasing virtual times — all other environment facts
    arbitrary at every step — (1) the requests and the two suppression attributes satisfy the
    specification of the property, where the environment's "acknowledged" is what the code reads from
    its lazily expiring attributes after the result's own clearing, and (2) that value is at every
    operation the acknowledgement in force according to the operations performed. -/
theorem system_trace_meets_spec_from (c : Cfg) (hmax : 1 ≤ c.max) (ops : List (Int × SysOp)) :
    ∀ (y : Sys) (sp : SpecSt) (sa : SpecAck) (t0 : Int) (i : Nat),
      Rel c sp y.s → AckInv y.a sa t0 → sysMonotoneFrom t0 ops = true →
      specTrace c sp ((sysTrace c y ops).filterMap (·.1)) = none ∧
      specAckTrace sa i ((sysTrace c y ops).map (·.2)) = none := by
  induction ops with
  | nil => intro _ _ _ _ _ _ _ _; exact ⟨rfl, rfl⟩
  | cons x rest ih =>
    intro y sp sa t0 i hr ha hm
    obtain ⟨now, op⟩ := x
    simp only [sysMonotoneFrom, Bool.and_eq_true, decide_eq_true_eq] at hm
    obtain ⟨s1, s2⟩ := ackInv_step y.a sa t0 now (sysAckOp c y.s op) ha hm.1
    obtain ⟨k1, k2⟩ := sysStep_ack c y now op
    rw [← k2] at s2
    have hack : ∀ sp', Rel c sp' (sysStep c y now op).1.s →
        specAckTrace sa i ((sysTrace c y ((now, op) :: rest)).map (·.2)) = none ∧
        specTrace c sp' ((sysTrace c (sysStep c y now op).1 rest).filterMap (·.1)) = none := by
      intro sp' hr'
      obtain ⟨i1, i2⟩ := ih (sysStep c y now op).1 sp' _ now (i + 1) hr' s2 hm.2
      refine ⟨?_, i1⟩
      rw [sysTrace_cons, List.map_cons, k1, specAckTrace_cons_ok _ _ _ _ _ _ s1]
      exact i2
    rw [sysTrace_cons, List.filterMap_cons]
    cases op with
    | result r e =>
      obtain ⟨h1, h2⟩ := result_step_meets_spec c hmax sp y.s r
        { e with acked := ackObs y.a now (sysAckOp c y.s (.result r e)) } hr
      obtain ⟨j1, j2⟩ := hack _ h2
      refine ⟨?_, j1⟩
      show specTrace c sp ((applyOp c y.s (.result r { e with acked := ackObs y.a now (sysAckOp c y.s (.result r e)) })).2 :: _) = none
      rw [specTrace_cons_ok c sp _ _ h1]
      exact j2
    | fire e =>
      obtain ⟨h1, h2⟩ := fire_step_meets_spec c sp y.s
        { e with stateSuppressed := e.stateSuppressed || ackObs y.a now (sysAckOp c y.s (.fire e)) } hr
      obtain ⟨j1, j2⟩ := hack _ h2
      refine ⟨?_, j1⟩
      show specTrace c sp ((applyOp c y.s (.fire { e with stateSuppressed := e.stateSuppressed || ackObs y.a now (sysAckOp c y.s (.fire e)) })).2 :: _) = none
      rw [specTrace_cons_ok c sp _ _ h1]
      exact j2
    | ackSet st e =>
      obtain ⟨j1, j2⟩ := hack sp hr
      exact ⟨j2, j1⟩
    | ackClear =>
      obtain ⟨j1, j2⟩ := hack sp hr
      exact ⟨j2, j1⟩

/-- **system_trace_meets_spec** (from a never-checked, never-acknowledged object). -/
theorem system_trace_meets_spec (c : Cfg) (hmax : 1 ≤ c.max) (ops : List (Int × SysOp)) (t0 : Int)
    (hm : sysMonotoneFrom t0 ops = true) :
    specTrace c specInit ((sysTrace c ⟨init, ackCleared⟩ ops).filterMap (·.1)) = none ∧
    specAckTrace {} 0 ((sysTrace c ⟨init, ackCleared⟩ ops).map (·.2)) = none :=
  system_trace_meets_spec_from c hmax ops ⟨init, ackCleared⟩ specInit {} t0 0 (rel_init c) (Or.inl ⟨rfl, rfl⟩) hm

/-- Non-vacuity: CRITICAL, sticky acknowledgement expiring at 20 replaced by one without expiry, WARNING
    (withheld: acknowledged), handler at 400 (still acknowledged: kept), clear, handler (released). -/
example : ((sysTrace exCfg ⟨init, ackCleared⟩
    [(1, .result ⟨.ok, 1, 1⟩ envClean), (2, .result ⟨.critical, 2, 2⟩ envClean), (3, .ackSet true 20), (4, .ackSet true 0),
     (5, .result ⟨.warning, 5, 5⟩ envClean), (400, .fire fireClean), (401, .ackClear), (402, .fire fireClean)]).filterMap (·.1)).map notifsOf =
    [[], [⟨.problem, .critical⟩], [], [], [⟨.problem, .warning⟩]] := by decide

/-- The clock hypothesis of `system_trace_meets_spec` on the concrete run above. -/
example : sysMonotoneFrom 0 [(1, .result ⟨.ok, 1, 1⟩ envClean), (2, .result ⟨.critical, 2, 2⟩ envClean), (3, .ackSet true 20),
    (4, .ackSet true 0), (5, .result ⟨.warning, 5, 5⟩ envClean), (400, .fire fireClean)] = true := by decide

/-! ## The handler and a concurrent result (F-C02c)

  Full statement — FALSE of the unchanged code, see `handler_result_pair_counterexample`:

    theorem handler_result_pair (c) (hmax : 1 ≤ c.max) (sp s ef ef' r er) (hr : Rel c sp s) :
      let o := fireResultStep c s ef r er
      (specFireResult c sp ef ef' o.2.2.1 o.1.core.state o.1.core.stype er o.2.1 o.1.sup.hasState o.1.sbs).1 = none

  i.e. a handler run and a check result processed by another thread in between the handler's unlocked read
  of `suppressed_notifications` (checkable-notification.cpp:143) and its write (:237-245) look like one of
  the two sequential orders. -/

/-- **handler_result_pair_partial.**  When the handler requests nothing at that run (there is no point at
    which the result could slip in between its decision and its bookkeeping), the pair satisfies the
    property as "handler, then result" — for every state and all environments. -/
theorem handler_result_pair_partial (c : Cfg) (hmax : 1 ≤ c.max) (sp : SpecSt) (s : St) (ef ef' : FEnv) (r : Res) (er : REnv)
    (hr : Rel c sp s) (hq : (fireStep c s ef).2 = []) :
    let o := fireResultStep c s ef r er
    (specFireResult c sp ef ef' o.2.2.1 o.1.core.state o.1.core.stype er o.2.1 o.1.sup.hasState o.1.sbs).1 = none := by
  intro o
  have ho : o = ((resultStep c (fireStep c s ef).1 r er).1, (resultStep c (fireStep c s ef).1 r er).2.1,
      (resultStep c (fireStep c s ef).1 r er).2.2, false) := by
    show fireResultStep c s ef r er = _
    unfold fireResultStep
    simp [hq]
  obtain ⟨f1, f2⟩ := fire_step_core c sp s ef hr
  simp only [applyOp, hq] at f1 f2
  obtain ⟨g1, g2⟩ := result_step_meets_spec c hmax _ _ r er f2
  simp only [applyOp] at g1 g2
  obtain ⟨rest, hs⟩ := splits_head o.2.1
  unfold specFireResult
  rw [hs]
  simp only [List.findSome?_cons]
  have e1 : specStepCore c sp (Obs.fire ef [] false SState.ok) = specStepCore c sp (Obs.fire ef [] (fireStep c s ef).1.sup.hasState (fireStep c s ef).1.sbs) := rfl
  rw [e1]
  generalize hA : specStepCore c sp (Obs.fire ef [] (fireStep c s ef).1.sup.hasState (fireStep c s ef).1.sbs) = A at f1 f2 g1 g2
  obtain ⟨A1, A2⟩ := A
  simp only at f1; subst f1
  simp only [ho]
  simp only at g1 g2
  generalize hB : specStep c A2 _ = B at g1 g2 ⊢
  obtain ⟨B1, B2⟩ := B
  simp only at g1; subst g1
  simp

/-- a hard CRITICAL service with a withheld Problem, remembered state OK, every suppression reason gone -/
def cxS : St :=
  { core := { state := .critical, stype := .hard, attempt := 1, lastHard := .critical, lastExec := some 2 },
    sup := { problem := true }, sbs := .ok }

/-- **handler_result_pair_counterexample** (F-C02c, reproduced on the real code by
    corpus/C02/f_c02c_result_during_handler.ops).  The handler requests the Problem; the OK result that
    arrives before the handler's subtraction is stashed as "pending" (the old bits are still set) and
    then cleared unseen: a Problem was notified, the object is OK, nothing is withheld, and no Recovery
    is or ever will be requested — neither "handler, then result" (Problem, Recovery) nor "result,
    then handler" (nothing). -/
theorem handler_result_pair_counterexample :
    let o := fireResultStep exCfg cxS fireClean ⟨.ok, 3, 3⟩ envClean
    o.2.1 = [⟨.problem, .critical⟩] ∧ o.1.core.state = .ok ∧ o.1.sup.hasState = false ∧
    (specFireResult exCfg (specOf cxS) fireClean fireClean o.2.2.1 o.1.core.state o.1.core.stype envClean o.2.1
      o.1.sup.hasState o.1.sbs).1 = some .lostUpdate := by decide

end Icinga.C02

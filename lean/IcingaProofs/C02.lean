/-
  C02 — property theorems.  Every `theorem` in this file is a proof obligation of the check.
  Helper lemmas: IcingaProofs/C02/Lemmas.lean.

  The model (IcingaModel/C02/Model.lean) transcribes the code *after* the two repairs of this round
  (`fix:` commits in /repo): F-C02a (hosts compare UP/DOWN when releasing) and F-C02b (volatile objects
  do not request a Recovery when leaving a soft problem state).  With the repairs the property is
  proved at full strength; before them the check reported both as violations with replays.
-/
import IcingaProofs.C02.Lemmas

namespace Icinga.C02
open Icinga.C01

/-- Model state and specification bookkeeping describe the same situation. -/
def Rel (c : Cfg) (sp : SpecSt) (s : St) : Prop :=
  sp.state = s.core.state ∧ sp.stype = s.core.stype ∧
  (isOK c.kind s.core.state = true → s.core.stype = .hard) ∧
  sp.pending = pendOf s.sup.hasState s.sbs ∧
  sp.flapPending = flapOf s.sup.flapStart s.sup.flapEnd ∧
  (s.sup.flapStart && s.sup.flapEnd) = false

theorem rel_init (c : Cfg) : Rel c specInit init := by
  simp [Rel, specInit, init, C01.pending, pendOf, flapOf, Sup.hasState, isOK, hostUp]
  cases c.kind <;> simp

/-- Operations of the model: a check result with the environment the code reads, or a run of the
    suppressed-notification handler with its environment. -/
inductive Op
  | result (r : Res) (e : REnv)
  | fire (e : FEnv)

def applyOp (c : Cfg) (s : St) : Op → St × Obs
  | .result r e =>
    let o := resultStep c s r e
    (o.1, .result o.2.2 o.1.core.state o.1.core.stype e o.2.1)
  | .fire e =>
    let o := fireStep c s e
    (o.1, .fire e o.2)

def traceOf (c : Cfg) : St → List Op → List Obs
  | _, [] => []
  | s, op :: rest => let p := applyOp c s op; p.2 :: traceOf c p.1 rest

/-- **result_step_meets_spec.**  One processed result: the requests satisfy the property's clauses for
    results (flapping exactly on a toggle; Problem/Recovery exactly on a hard event; nothing while
    flapping, paused, suppressed or while earlier events are withheld; the remembered state is the hard
    state before suppression began) and the relation is re-established. -/
theorem result_step_meets_spec (c : Cfg) (hmax : 1 ≤ c.max) (sp : SpecSt) (s : St) (r : Res) (e : REnv)
    (hr : Rel c sp s) :
    (specStep c sp (applyOp c s (.result r e)).2).1 = none ∧
    Rel c (specStep c sp (applyOp c s (.result r e)).2).2 (applyOp c s (.result r e)).1 := by
  obtain ⟨core, ⟨p, r', s3, s4⟩, sbs⟩ := s
  obtain ⟨hs, ht, hok, hp, hf, hx⟩ := hr
  simp only at hs ht hok hp hf hx
  simp only [applyOp, resultStep]
  cases hst : stale core r
  · -- accepted
    simp only [Bool.false_eq_true, if_false, specStep]
    obtain ⟨u0, u1, u2, u3, u4⟩ := step_universal c hmax core r
    have h1 : isOK c.kind (stepCore c core r).1.state = true → (stepCore c core r).1.stype = .hard := by
      intro h; rw [u0] at h; exact (u1 h).1
    have hsend := sendOf_eq_hardEvent c core (stepCore c core r).1.state (stepCore c core r).1.stype h1 hok
    obtain ⟨f1, f2, f3, f4⟩ := flapPartOf_shape e (stepCore c core r).1.state
    have hfl := flap_result e (stepCore c core r).1.state s3 s4 hx
    have hev := hardEvent_type c core.state core.stype (stepCore c core r).1.state (stepCore c core r).1.stype
    have hsr := state_result (hardEvent c core.state core.stype (stepCore c core r).1.state (stepCore c core r).1.stype)
      (isOK c.kind (stepCore c core r).1.state && !isOK c.kind core.state) p r' sbs
      (if core.stype == .hard then core.state else .ok) e (stepCore c core r).1.state hev
    obtain ⟨g1, g2, g3⟩ := statePartOf_shape (sendOf c core (stepCore c core r).1.state (stepCore c core r).1.stype)
      (isOK c.kind (stepCore c core r).1.state && !isOK c.kind core.state) (Sup.hasState ⟨p, r', s3, s4⟩) e (stepCore c core r).1.state
    obtain ⟨fp, spp⟩ := filter_split _ _ f4 g3
    have hstash := stash_spec p r' s3 s4
      (statePartOf (sendOf c core (stepCore c core r).1.state (stepCore c core r).1.stype)
        (isOK c.kind (stepCore c core r).1.state && !isOK c.kind core.state) (Sup.hasState ⟨p, r', s3, s4⟩) e (stepCore c core r).1.state).1.problem
      (statePartOf (sendOf c core (stepCore c core r).1.state (stepCore c core r).1.stype)
        (isOK c.kind (stepCore c core r).1.state && !isOK c.kind core.state) (Sup.hasState ⟨p, r', s3, s4⟩) e (stepCore c core r).1.state).1.recovery
      (flapPartOf e (stepCore c core r).1.state).1.flapStart (flapPartOf e (stepCore c core r).1.state).1.flapEnd
      sbs core.state core.stype hx f3
    simp only [Sup.hasState] at hsr hstash hp fp spp
    simp only [notifyOnResult, specResult, hs, ht, hp, hf, Sup.hasState]
    rw [hsend] at fp spp hstash ⊢
    rw [fp, spp]
    obtain ⟨a1, a2⟩ := hfl
    obtain ⟨b1, b2⟩ := hsr
    obtain ⟨c1, c2, c3, c4, c5⟩ := hstash
    refine ⟨?_, rfl, rfl, h1, ?_, ?_, ?_⟩
    · rw [a1, b1]
    · dsimp only [Sup.hasState]; rw [b2, c1, c2, c5]
      congr
    · dsimp only; rw [a2, c3, c4]
    · dsimp only; rw [c3, c4]
      cases h3 : s3 <;> cases h4 : s4 <;>
        cases (flapPartOf e (stepCore c core r).1.state).1.flapStart <;>
        cases (flapPartOf e (stepCore c core r).1.state).1.flapEnd <;> simp_all
  · -- dropped as stale: nothing is requested, nothing changes
    simp only [if_true, specStep]
    exact ⟨by simp, hs, ht, hok, hp, hf, hx⟩

/-- **fire_step_meets_spec.**  One run of the suppressed-notification handler: never while a suppression
    reason holds, never without a withheld event, no release before the object rests in a hard state
    and is settled, and at release exactly one notification iff the state differs from the remembered
    one (Recovery iff OK/Up now); afterwards nothing is withheld. -/
theorem fire_step_meets_spec (c : Cfg) (sp : SpecSt) (s : St) (e : FEnv) (hr : Rel c sp s) :
    (specStep c sp (applyOp c s (.fire e)).2).1 = none ∧
    Rel c (specStep c sp (applyOp c s (.fire e)).2).2 (applyOp c s (.fire e)).1 := by
  obtain ⟨hs, ht, hok, hp, hf, hx⟩ := hr
  simp only [applyOp, specStep, specFire]
  rw [fireStep_eq]
  have hA := fire_state_spec c s e sp hs ht hp
  have hB := fire_flap_spec s e sp hs hf hx
  have sA := fireState_shape c s e
  have sFS := fireFlapOne_shape e s.core.state s.sup.flapStart e.isFlapping .flapStart (Or.inl rfl)
  have sFE := fireFlapOne_shape e s.core.state s.sup.flapEnd (!e.isFlapping) .flapEnd (Or.inr rfl)
  cases hoff : (e.paused || !e.enabled)
  · simp only [hoff, Bool.false_eq_true, if_false] at hA hB ⊢
    have hflapAll : ∀ n ∈ (fireFlapOne e s.core.state s.sup.flapStart e.isFlapping .flapStart).2 ++
        (fireFlapOne e s.core.state s.sup.flapEnd (!e.isFlapping) .flapEnd).2, isFlap n = true := by
      intro n hn; rcases List.mem_append.mp hn with h | h
      · exact sFS n h
      · exact sFE n h
    have hsplit := filter_split (fireFlapOne e s.core.state s.sup.flapStart e.isFlapping .flapStart).2 []
      sFS (by simp)
    -- reorder a.2 ++ fs.2 ++ fe.2 into state part followed by flapping part for filtering
    have hfp : flapPart ((fireState c s e).2 ++ (fireFlapOne e s.core.state s.sup.flapStart e.isFlapping .flapStart).2 ++
        (fireFlapOne e s.core.state s.sup.flapEnd (!e.isFlapping) .flapEnd).2) =
        (fireFlapOne e s.core.state s.sup.flapStart e.isFlapping .flapStart).2 ++
        (fireFlapOne e s.core.state s.sup.flapEnd (!e.isFlapping) .flapEnd).2 := by
      unfold flapPart
      rw [List.append_assoc, List.filter_append]
      rw [List.filter_eq_nil_iff.mpr (by intro n hn; simp [sA n hn]), List.nil_append]
      exact List.filter_eq_self.mpr hflapAll
    have hsp : statePart ((fireState c s e).2 ++ (fireFlapOne e s.core.state s.sup.flapStart e.isFlapping .flapStart).2 ++
        (fireFlapOne e s.core.state s.sup.flapEnd (!e.isFlapping) .flapEnd).2) = (fireState c s e).2 := by
      unfold statePart
      rw [List.append_assoc, List.filter_append]
      rw [List.filter_eq_self.mpr (by intro n hn; simp [sA n hn])]
      rw [List.filter_eq_nil_iff.mpr (by intro n hn; simp [hflapAll n hn]), List.append_nil]
    rw [hfp, hsp]
    obtain ⟨a1, a2⟩ := hA
    obtain ⟨b1, b2⟩ := hB
    refine ⟨by rw [a1, b1], hs, ht, hok, ?_, ?_, ?_⟩
    · simp only [a2, Sup.hasState]
    · simp only [b2]
    · cases h3 : s.sup.flapStart <;> cases h4 : s.sup.flapEnd <;> simp_all
  · simp only [hoff, if_true] at hA hB ⊢
    obtain ⟨a1, a2⟩ := hA
    obtain ⟨b1, b2⟩ := hB
    simp only [List.append_nil, Bool.not_false, Bool.and_true] at a1 a2 b1 b2
    have e1 : statePart ([] : List Notif) = [] := rfl
    have e2 : flapPart ([] : List Notif) = [] := rfl
    rw [e1, e2]
    refine ⟨by rw [a1, b1], hs, ht, hok, ?_, ?_, hx⟩
    · rw [a2]; simp only [Sup.hasState]
    · rw [b2]

/-- **model_trace_meets_spec** (the whole property).  For every configuration with
    `max_check_attempts ≥ 1` and every finite sequence of check results and handler runs — with
    arbitrary environments (downtime, acknowledgement, reachability, flapping, pause, notification
    switch, imminence of the next check, parent recovery) at every step — the model's trace satisfies
    the executable specification `specTrace`. -/
theorem model_trace_meets_spec (c : Cfg) (hmax : 1 ≤ c.max) (ops : List Op) :
    specTrace c specInit (traceOf c init ops) = none := by
  suffices h : ∀ (ops : List Op) (sp : SpecSt) (s : St), Rel c sp s → specTrace c sp (traceOf c s ops) = none from
    h ops specInit init (rel_init c)
  intro ops
  induction ops with
  | nil => intro sp s _; rfl
  | cons op rest ih =>
    intro sp s hr
    simp only [traceOf, specTrace]
    cases op with
    | result r e =>
      obtain ⟨h1, h2⟩ := result_step_meets_spec c hmax sp s r e hr
      generalize hq : specStep c sp (applyOp c s (.result r e)).2 = q at h1 h2
      obtain ⟨q1, q2⟩ := q
      simp only at h1; subst h1
      exact ih _ _ h2
    | fire e =>
      obtain ⟨h1, h2⟩ := fire_step_meets_spec c sp s e hr
      generalize hq : specStep c sp (applyOp c s (.fire e)).2 = q at h1 h2
      obtain ⟨q1, q2⟩ := q
      simp only at h1; subst h1
      exact ih _ _ h2

/-- **never_while_suppressed.**  While a suppression reason holds the handler requests no state
    notification and keeps the withheld event. -/
theorem never_while_suppressed (c : Cfg) (s : St) (e : FEnv) (h : e.stateSuppressed = true) :
    statePart (fireStep c s e).2 = [] ∧ (fireStep c s e).1.sup.hasState = s.sup.hasState := by
  rw [fireStep_eq]
  cases hoff : (e.paused || !e.enabled)
  · have ha : fireState c s e = (false, []) := by simp [fireState, releaseNow, h]
    simp only [Bool.false_eq_true, if_false, ha, List.nil_append, Sup.hasState, Bool.not_false, Bool.and_true]
    refine ⟨?_, trivial⟩
    unfold statePart
    apply List.filter_eq_nil_iff.mpr
    intro n hn
    rcases List.mem_append.mp hn with h' | h'
    · simp [fireFlapOne_shape e s.core.state s.sup.flapStart e.isFlapping .flapStart (Or.inl rfl) n h']
    · simp [fireFlapOne_shape e s.core.state s.sup.flapEnd (!e.isFlapping) .flapEnd (Or.inr rfl) n h']
  · simp [statePart]

/-- **release_when_clean.**  With state notifications withheld, no suppression reason, a hard state, no
    imminent check and no recent parent recovery: exactly one state notification iff the (projected)
    state differs from the remembered one, of type Recovery iff the state is OK/Up; afterwards no
    state notification is withheld. -/
theorem release_when_clean (c : Cfg) (s : St) (e : FEnv)
    (hp : s.sup.hasState = true) (h1 : e.paused = false) (h2 : e.enabled = true)
    (h3 : e.stateSuppressed = false) (h4 : s.core.stype = .hard) (h5 : e.likelySoon = false)
    (h6 : e.parentRecent = false) :
    statePart (fireStep c s e).2 =
      (if proj c.kind s.core.state != proj c.kind s.sbs
       then [⟨if isOK c.kind s.core.state then .recovery else .problem, s.core.state⟩] else []) ∧
    (fireStep c s e).1.sup.hasState = false := by
  rw [fireStep_eq]
  have ha : fireState c s e = (true, if proj c.kind s.core.state != proj c.kind s.sbs
       then [⟨if isOK c.kind s.core.state then .recovery else .problem, s.core.state⟩] else []) := by
    simp [fireState, releaseNow, differs, hp, h3, h4, h5, h6]
  simp only [h1, h2, Bool.not_true, Bool.or_false, Bool.false_eq_true, if_false, ha, Sup.hasState,
    Bool.not_true, Bool.and_false, Bool.or_self, and_true]
  unfold statePart
  rw [List.append_assoc, List.filter_append]
  have hA : ∀ n ∈ (if proj c.kind s.core.state != proj c.kind s.sbs
       then [(⟨if isOK c.kind s.core.state then .recovery else .problem, s.core.state⟩ : Notif)] else []), isFlap n = false := by
    intro n hn
    cases hd : (proj c.kind s.core.state != proj c.kind s.sbs) <;> cases ho : isOK c.kind s.core.state <;> simp_all [isFlap]
  rw [List.filter_eq_self.mpr (by intro n hn; simp [hA n hn])]
  have : List.filter (fun n => !isFlap n)
      ((fireFlapOne e s.core.state s.sup.flapStart e.isFlapping .flapStart).2 ++
       (fireFlapOne e s.core.state s.sup.flapEnd (!e.isFlapping) .flapEnd).2) = [] := by
    apply List.filter_eq_nil_iff.mpr
    intro n hn
    rcases List.mem_append.mp hn with h' | h'
    · simp [fireFlapOne_shape e s.core.state s.sup.flapStart e.isFlapping .flapStart (Or.inl rfl) n h']
    · simp [fireFlapOne_shape e s.core.state s.sup.flapEnd (!e.isFlapping) .flapEnd (Or.inr rfl) n h']
  rw [this, List.append_nil]

/-- **never_two.**  Once nothing is withheld, the handler requests no state notification, whatever the
    environment: a withheld event is released at most once. -/
theorem never_two (c : Cfg) (s : St) (e : FEnv) (hp : s.sup.hasState = false) :
    statePart (fireStep c s e).2 = [] := by
  rw [fireStep_eq]
  cases hoff : (e.paused || !e.enabled)
  · have ha : fireState c s e = (false, []) := by simp [fireState, hp]
    simp only [Bool.false_eq_true, if_false, ha, List.nil_append]
    unfold statePart
    apply List.filter_eq_nil_iff.mpr
    intro n hn
    rcases List.mem_append.mp hn with h' | h'
    · simp [fireFlapOne_shape e s.core.state s.sup.flapStart e.isFlapping .flapStart (Or.inl rfl) n h']
    · simp [fireFlapOne_shape e s.core.state s.sup.flapEnd (!e.isFlapping) .flapEnd (Or.inr rfl) n h']
  · simp [statePart]

/-- **immediate_request** (first sentence of the property, on the model): a processed result requests a
    state notification at once iff it is a hard event of the property, the object is neither flapping
    nor paused, no suppression reason holds and nothing is withheld; its type is Recovery iff the
    object returned to OK/Up. -/
theorem immediate_request (c : Cfg) (hmax : 1 ≤ c.max) (s : St) (r : Res) (e : REnv)
    (hok : isOK c.kind s.core.state = true → s.core.stype = .hard) (hst : stale s.core r = false) :
    let s' := (stepCore c s.core r).1
    statePart (resultStep c s r e).2.1 =
      (match hardEvent c s.core.state s.core.stype s'.state s'.stype with
       | some t =>
         if !e.isFlapping && !e.paused && !(!e.notifReachable || e.inDowntime || e.acked) && !s.sup.hasState
         then [⟨t, s'.state⟩] else []
       | none => []) := by
  intro s'
  obtain ⟨u0, u1, u2, u3, u4⟩ := step_universal c hmax s.core r
  have h1 : isOK c.kind s'.state = true → s'.stype = .hard := by
    intro h; rw [u0] at h; exact (u1 h).1
  have hsend := sendOf_eq_hardEvent c s.core s'.state s'.stype h1 hok
  obtain ⟨f1, f2, f3, f4⟩ := flapPartOf_shape e s'.state
  obtain ⟨g1, g2, g3⟩ := statePartOf_shape (sendOf c s.core s'.state s'.stype)
      (isOK c.kind s'.state && !isOK c.kind s.core.state) s.sup.hasState e s'.state
  obtain ⟨_, spp⟩ := filter_split _ _ f4 g3
  simp only [resultStep, hst, Bool.false_eq_true, if_false, notifyOnResult]
  rw [spp, hsend]
  have hev := hardEvent_type c s.core.state s.core.stype s'.state s'.stype
  rcases hE : hardEvent c s.core.state s.core.stype s'.state s'.stype with _ | t
  · simp [statePartOf]
  · have := hev t hE
    subst this
    obtain ⟨e1, e2, e3, e4, e5, e6⟩ := e
    cases (isOK c.kind s'.state && !isOK c.kind s.core.state) <;> cases s.sup.hasState <;>
      cases e1 <;> cases e2 <;> cases e3 <;> cases e5 <;> cases e6 <;> simp [statePartOf]

/-! ## Non-vacuity -/

def exCfg : Cfg := { kind := .service, max := 1, volatile := false }
def envClean : REnv := ⟨true, false, false, false, false, false⟩
def envDowntime : REnv := ⟨true, true, false, false, false, false⟩
def fireClean : FEnv := ⟨false, true, false, false, false, false, false⟩

/-- OK, then CRITICAL inside a downtime (withheld, remembered state OK), then release: one Problem. -/
example : (traceOf exCfg init [.result ⟨.ok, 1, 1⟩ envClean, .result ⟨.critical, 2, 2⟩ envDowntime, .fire fireClean]).map
    (fun o => match o with | .result _ _ _ _ ns => ns | .fire _ ns => ns) =
    [[], [], [⟨.problem, .critical⟩]] := by decide

/-- The specification rejects a trace in which the withheld Problem is released while still suppressed. -/
example : specTrace exCfg specInit
    [.result true .ok .hard envClean [], .result true .critical .hard envDowntime [],
     .fire { fireClean with stateSuppressed := true } [⟨.problem, .critical⟩]] = some .fireSuppressed := by decide

/-- … and one in which a Recovery is requested for a soft problem that went away. -/
example : specTrace { kind := .service, max := 3, volatile := false } specInit
    [.result true .ok .hard envClean [], .result true .critical .soft envClean [],
     .result true .ok .hard envClean [⟨.recovery, .ok⟩]] = some .stateNone := by decide

end Icinga.C02

/-
  C20 — property theorems (wire codecs).  Every `theorem` in this file is a proof obligation of the
  check: `./check C20` lists them, runs `#print axioms` on each and fails if a required one is missing.
  Helper lemmas live in IcingaProofs/C20/Lemmas.lean (netstring) and IcingaProofs/C20/JsonLemmas.lean (JSON).
-/
import IcingaProofs.C20.Lemmas
import IcingaProofs.C20.SpecLemmas
import IcingaProofs.C20.JsonLemmas
import IcingaProofs.C20.MessageLemmas
import IcingaProofs.C20.DictLemmas
import IcingaProofs.C20.Utf8Lemmas
import IcingaProofs.C20.StateLemmas
import IcingaProofs.C20.OverLimitLemmas
import IcingaProofs.C20.NumberLemmas
import IcingaModel.C20.SpecText
import IcingaModel.C20.Conn
import IcingaProofs.Gen.Limits

namespace Icinga.C20

/-! ## Netstring, TLS reader (frames from the network) -/

/-- **netstring_roundtrip.**  What `WriteStringToStream` emits for a payload of fewer than 10^9 bytes
    that is within the receiver's limit is read back as exactly that payload, whatever follows in the
    stream; the payload buffer allocated is exactly the payload's size. -/
theorem netstring_roundtrip (max : Option Nat) (p rest : Bytes) (hn : p.length < 10 ^ 9)
    (hmax : tlsLimitExceeded max p.length = false) :
    nsReadTls max (nsEncode p ++ rest) = ⟨.ok p rest, p.length⟩ := by
  have he : nsEncode p ++ rest = natDigits p.length ++ colon :: (p ++ comma :: rest) := by simp [nsEncode]
  unfold nsReadTls
  rw [he, hdrLoop_natDigits p.length hn]
  have h1 : ¬ ((p ++ comma :: rest).length < p.length) := by simp
  have h2 : (p ++ comma :: rest).drop p.length = comma :: rest := by simp
  have h3 : (p ++ comma :: rest).take p.length = p := by simp
  simp [hmax, h2, h3]

example : nsReadTls (some 5) (nsEncode [104, 105] ++ [49, 58]) = ⟨.ok [104, 105] [49, 58], 2⟩ := by decide
example : nsEncode [104, 105] = [50, 58, 104, 105, 44] := by decide
example : nsEncode [] = [48, 58, 44] := by decide

/-- **netstring_accepts_only_canonical.**  Whenever the TLS reader returns a payload, the bytes it
    consumed are exactly the canonical encoding of that payload (decimal length without leading zero,
    at most nine digits, ':', payload, ','), the payload is within the limit and the allocation was the
    payload's size.  Contrapositive: every frame that violates the format — non-digit in the length,
    leading zero, more than nine digits, missing ':' or ',', declared length over the limit — is never
    answered with a payload (the remaining outcomes are `error` and `eof`, theorem
    `netstring_reader_outcomes`). -/
theorem netstring_accepts_only_canonical (max : Option Nat) (bs p rest : Bytes) (a : Nat)
    (h : nsReadTls max bs = ⟨.ok p rest, a⟩) :
    bs = nsEncode p ++ rest ∧ p.length < 10 ^ 9 ∧ tlsLimitExceeded max p.length = false ∧ a = p.length := by
  unfold nsReadTls at h
  cases hh : hdrLoop 0 0 false bs with
  | eof => simp [hh] at h
  | error e r => simp [hh] at h
  | done len r =>
    obtain ⟨hbs, hlen⟩ := hdrLoop_canonical bs len r hh
    simp only [hh] at h
    by_cases hm : tlsLimitExceeded max len = true
    · simp [hm] at h
    · simp only [hm, Bool.false_eq_true, if_false] at h
      by_cases hl : r.length < len
      · simp [hl] at h
      · simp only [hl, if_false] at h
        cases hd : r.drop len with
        | nil => simp [hd] at h
        | cons t r' =>
          simp only [hd] at h
          by_cases hc : (t == comma) = true
          · simp only [hc, if_true, TlsResult.mk.injEq, TlsOutcome.ok.injEq] at h
            obtain ⟨⟨hp, hr⟩, ha⟩ := h
            have ht : t = comma := by simpa using hc
            have hpl : p.length = len := by rw [← hp]; simp; omega
            have hr2 : r = p ++ comma :: rest := by
              rw [← List.take_append_drop len r, hd, hp, ht, hr]
            refine ⟨?_, by omega, by rw [hpl]; simpa using hm, by omega⟩
            rw [hbs, hr2, hpl.symm]; simp [nsEncode]
          · simp [hc] at h

example : (nsReadTls none [48, 50, 58, 104, 105, 44]).out = .error .leadingZero [58, 104, 105, 44] := by decide
example : (nsReadTls none [50, 120, 58, 104, 105, 44]).out = .error .missingColon [58, 104, 105, 44] := by decide
example : (nsReadTls none [50, 58, 104, 105, 59]).out = .error .missingComma [] := by decide
example : (nsReadTls none [58, 44]).out = .error .noLength [44] := by decide
example : (nsReadTls none [49, 50, 51, 52, 53, 54, 55, 56, 57, 48, 58]).out = .error .tooLong [58] := by decide
example : (nsReadTls none [50, 58, 104]).out = .eof := by decide

/-- **netstring_reader_outcomes.**  On every byte string the TLS reader ends in exactly one of: a payload,
    an `invalid_argument`, or the end of the stream inside a frame (totality is by construction: the model
    is a structurally recursive function); and it never yields a payload on a stream that does not start with
    a canonical frame within the limit. -/
theorem netstring_reader_outcomes (max : Option Nat) (bs : Bytes) :
    (∃ p rest, bs = nsEncode p ++ rest ∧ (nsReadTls max bs).out = .ok p rest) ∨
    (∃ e rest, (nsReadTls max bs).out = .error e rest) ∨ (nsReadTls max bs).out = .eof := by
  cases h : (nsReadTls max bs).out with
  | ok p rest =>
    left
    have := netstring_accepts_only_canonical max bs p rest (nsReadTls max bs).alloc (by rw [← h])
    exact ⟨p, rest, this.1, rfl⟩
  | error e rest => right; left; exact ⟨e, rest, rfl⟩
  | eof => right; right; rfl

/-- **limit_before_payload.**  A header that declares more than the limit is rejected as soon as the ':'
    has been read: every byte after the ':' is still unread (`tail` is returned untouched, whatever it
    is and however long) and no payload buffer has been allocated.  And on *every* input the allocation
    never exceeds the limit (without a limit: never reaches 10^9). -/
theorem limit_before_payload (m n : Nat) (tail : Bytes) (hmn : m < n) (hn : n < 10 ^ 9) :
    nsReadTls (some m) (natDigits n ++ colon :: tail) = ⟨.error .maxExceeded tail, 0⟩ := by
  unfold nsReadTls
  rw [hdrLoop_natDigits n hn]
  simp [tlsLimitExceeded, hmn]

theorem allocation_bounded (max : Option Nat) (bs : Bytes) :
    (nsReadTls max bs).alloc < 10 ^ 9 ∧ (∀ m, max = some m → (nsReadTls max bs).alloc ≤ m) := by
  unfold nsReadTls
  cases hh : hdrLoop 0 0 false bs with
  | eof => simp
  | error e r => simp
  | done len r =>
    obtain ⟨_, hlen⟩ := hdrLoop_canonical bs len r hh
    simp only
    by_cases hm : tlsLimitExceeded max len = true
    · simp [hm]
    · simp only [hm, Bool.false_eq_true, if_false]
      have hb : ∀ m, max = some m → len ≤ m := by
        intro m hmm; subst hmm; simp [tlsLimitExceeded] at hm; omega
      split
      · exact ⟨hlen, hb⟩
      · split
        · exact ⟨hlen, hb⟩
        · split <;> exact ⟨hlen, hb⟩

-- 1 MiB limit, 2 MiB declared: rejected with the 5 following bytes unread, nothing allocated
example : nsReadTls (some 1048576) (natDigits 2097152 ++ colon :: [1, 2, 3, 4, 5]) = ⟨.error .maxExceeded [1, 2, 3, 4, 5], 0⟩ :=
  limit_before_payload 1048576 2097152 [1, 2, 3, 4, 5] (by decide) (by decide)

/-- **tls_model_meets_spec** (the network half of the property as one statement).  For every limit and
    every byte string, what the TLS reader model does satisfies the executable specification `tlsSpec`
    that the driver evaluates on the implementation's observations: a payload only for a canonical frame
    within the limit with the rest of the stream untouched; a canonical frame within the limit is always
    returned; an over-limit header is rejected with everything after the ':' unread. -/
theorem tls_model_meets_spec (max : Option Nat) (bs : Bytes) :
    tlsSpec max bs (obsOfTls (nsReadTls max bs)) = none := by
  -- a canonical frame at the head of the stream determines the model's answer
  have frame : ∀ p rest, specFrame bs = some (p, rest) →
      (withinLimit max p.length = true → nsReadTls max bs = ⟨.ok p rest, p.length⟩) ∧
      (withinLimit max p.length = false →
        nsReadTls max bs = ⟨.error .maxExceeded (p ++ comma :: rest), 0⟩ ∧
        specHeader bs = some (p.length, (p ++ comma :: rest).length)) := by
    intro p rest h
    obtain ⟨hbs, hn⟩ := specFrame_sound bs p rest h
    constructor
    · intro hw
      rw [hbs]; apply netstring_roundtrip max p rest hn
      rw [withinLimit_iff] at hw; simpa using hw
    · intro hw
      have he : bs = natDigits p.length ++ colon :: (p ++ comma :: rest) := by rw [hbs]; simp [nsEncode]
      cases max with
      | none => simp [withinLimit] at hw
      | some m =>
        simp [withinLimit] at hw
        rw [he]
        exact ⟨limit_before_payload m p.length _ (by omega) hn, specHeader_complete _ _ hn⟩
  have header : ∀ n after, specHeader bs = some (n, after) → withinLimit max n = false →
      ∃ tail, after = tail.length ∧ nsReadTls max bs = ⟨.error .maxExceeded tail, 0⟩ := by
    intro n after h hw
    unfold specHeader at h
    simp only at h
    split at h
    · rename_i c tail hd
      split at h
      · rename_i hc
        simp only [Option.some.injEq, Prod.mk.injEq] at h
        obtain ⟨hn, ha⟩ := h
        obtain ⟨hcol, hne, h9, hcanon⟩ := hc
        have hcol' : c = colon := by simpa using hcol
        have hcanon' : natDigits (digitsVal 0 (List.takeWhile isDigit bs)) = List.takeWhile isDigit bs := by simpa using hcanon
        have hbs : bs = natDigits n ++ colon :: tail := by
          rw [← hn, hcanon', ← hcol', ← hd]; exact (takeWhile_append_drop_length isDigit bs).symm
        have hn9 : n < 10 ^ 9 := by
          apply (natDigits_length_le n 9 (by omega)).mp
          rw [← hn, hcanon']; exact h9
        cases max with
        | none => simp [withinLimit] at hw
        | some m =>
          simp [withinLimit] at hw
          exact ⟨tail, ha.symm, by rw [hbs]; exact limit_before_payload m n tail (by omega) hn9⟩
      · simp at h
    · simp at h
  cases hout : (nsReadTls max bs).out with
  | ok p rest =>
    have hr : nsReadTls max bs = ⟨.ok p rest, (nsReadTls max bs).alloc⟩ := by rw [← hout]
    obtain ⟨hbs, hn, hlim, _⟩ := netstring_accepts_only_canonical max bs p rest _ hr
    simp only [obsOfTls, hout, tlsSpec]
    have h1 : (nsEncode p).isPrefixOf bs = true := by rw [hbs]; simp [List.isPrefixOf_iff_prefix]
    have h2 : rest.length + (nsEncode p).length = bs.length := by rw [hbs]; simp; omega
    simp [h1, h2, withinLimit_iff, hlim]
  | error e rest =>
    simp only [obsOfTls, hout, tlsSpec]
    cases hsf : specFrame bs with
    | some pr =>
      obtain ⟨p, r⟩ := pr
      obtain ⟨f1, f2⟩ := frame p r hsf
      cases hw : withinLimit max p.length with
      | true => have := f1 hw; rw [this] at hout; simp at hout
      | false =>
        obtain ⟨g1, g2⟩ := f2 hw
        rw [g1] at hout
        simp only [TlsOutcome.error.injEq] at hout
        simp [g2, ← hout.2, hw]
    | none =>
      simp only
      cases hsh : specHeader bs with
      | none => rfl
      | some na =>
        obtain ⟨n, after⟩ := na
        simp only
        cases hw : withinLimit max n with
        | true => simp
        | false =>
          obtain ⟨tail, ha, hm⟩ := header n after hsh hw
          rw [hm] at hout
          simp only [TlsOutcome.error.injEq] at hout
          simp [ha, ← hout.2]
  | eof =>
    simp only [obsOfTls, hout, tlsSpec]
    cases hsf : specFrame bs with
    | some pr =>
      obtain ⟨p, r⟩ := pr
      obtain ⟨f1, f2⟩ := frame p r hsf
      cases hw : withinLimit max p.length with
      | true => have := f1 hw; rw [this] at hout; simp at hout
      | false => have := (f2 hw).1; rw [this] at hout; simp at hout
    | none =>
      simp only
      cases hsh : specHeader bs with
      | none => rfl
      | some na =>
        obtain ⟨n, after⟩ := na
        simp only
        cases hw : withinLimit max n with
        | true => simp
        | false =>
          obtain ⟨tail, _, hm⟩ := header n after hsh hw
          rw [hm] at hout; simp at hout

/-- The header loop runs into the end of the stream only on a (short) run of digits without a leading zero before another digit. -/
theorem hdrLoop_eof : ∀ (bs : Bytes) (rb len : Nat) (lz : Bool), rb ≤ 9 → hdrLoop rb len lz bs = .eof →
    (∀ b ∈ bs, isDigit b = true) ∧ rb + bs.length ≤ 9 ∧ (lz = true → bs = []) ∧
      (rb = 0 → ∀ a b r, bs = a :: b :: r → (a == 48) = false) := by
  intro bs
  induction bs with
  | nil => intro rb len lz hrb _; exact ⟨by simp, by simpa using hrb, fun _ => rfl, fun _ a b r h => by simp at h⟩
  | cons x xs ih =>
    intro rb len lz hrb h
    unfold hdrLoop at h
    by_cases hd : isDigit x = true
    · simp only [hd, if_true] at h
      by_cases h9 : (rb == 9) = true
      · simp [h9] at h
      · simp only [h9, Bool.false_eq_true, if_false] at h
        by_cases hlz : lz = true
        · simp [hlz] at h
        · simp only [hlz, Bool.false_eq_true, if_false] at h
          have hrb' : rb + 1 ≤ 9 := by simp at h9; omega
          obtain ⟨i1, i2, i3, _⟩ := ih (rb + 1) _ _ hrb' h
          refine ⟨?_, by simp; omega, fun hh => absurd hh hlz, ?_⟩
          · intro b hb
            rcases List.mem_cons.mp hb with hb | hb
            · rw [hb]; exact hd
            · exact i1 b hb
          · intro hrb0 a b r he
            simp only [List.cons.injEq] at he
            obtain ⟨hax, hxs⟩ := he
            subst hax
            cases h48 : (x == 48) with
            | false => rfl
            | true =>
              have : xs = [] := i3 (by simp [hrb0, h48])
              rw [this] at hxs; simp at hxs
    · simp only [hd, Bool.false_eq_true, if_false] at h
      by_cases hc : (x == colon) = true
      · simp only [hc, if_true] at h
        by_cases h0 : (rb == 0) = true <;> simp [h0] at h
      · simp [hc] at h

/-- No leading zero before another digit in a canonical length field. -/
theorem natDigits_no_leading_zero (n : Nat) : ∀ a b r, natDigits n = a :: b :: r → (a == 48) = false := by
  intro a b r h
  by_cases h0 : n = 0
  · subst h0; rw [natDigits_zero] at h; simp at h
  · obtain ⟨d, ds, he, hd, hv⟩ := natDigits_head_nonzero (by omega : 1 ≤ n)
    rw [he] at h
    simp only [List.cons.injEq] at h
    rw [← h.1]
    cases h48 : (d == 48) with
    | false => rfl
    | true => have := (eq48_iff_digitVal hd).mp h48; omega

/-- A stream that starts with a canonical header within the limit, with the terminator (if already there) a ',', does not
    visibly violate the format. -/
theorem specViolation_header (max : Option Nat) (n : Nat) (hn : n < 10 ^ 9) (hw : withinLimit max n = true) (tail : Bytes)
    (ht : ∀ t r, tail.drop n = t :: r → t = comma) :
    specViolation max (natDigits n ++ colon :: tail) = false := by
  have hlen := (natDigits_length_le n 9 (by omega)).mpr hn
  have hnz := natDigits_no_leading_zero n
  have hne := natDigits_ne_nil n
  unfold specViolation
  simp only
  rw [takeWhile_natDigits, digitsVal_natDigits]
  have hdrop : List.drop (natDigits n).length (natDigits n ++ colon :: tail) = colon :: tail := by simp
  rw [hdrop]
  have hlz : zeroThenDigit (natDigits n) = false := by
    cases hnd : natDigits n with
    | nil => rfl
    | cons a r => cases r with
      | nil => rfl
      | cons b r' => exact hnz a b r' hnd
  have h9 : decide ((natDigits n).length > 9) = false := by simp; omega
  have hemp : (natDigits n).isEmpty = false := by cases hnd : natDigits n <;> simp_all
  simp only [hlz, h9, Bool.or_self, Bool.false_eq_true, if_false, bne_self_eq_false, hemp, hw, Bool.not_true]
  cases hd : tail.drop n with
  | nil => rfl
  | cons t r => simp [ht t r hd]

/-- **tls_violation_rejected** (the positive clause of the statement).  On every stream that visibly violates the frame
    format — bad length field, wrong separator, declared length over the limit, wrong terminator — the TLS reader answers
    with an error: it neither returns a payload nor runs on to the end of the stream.  Hence `tlsRejectSpec` holds of the
    model on every input. -/
theorem tls_violation_rejected (max : Option Nat) (bs : Bytes) :
    (specViolation max bs = true → ∃ e rest, (nsReadTls max bs).out = .error e rest) ∧
    tlsRejectSpec max bs (obsOfTls (nsReadTls max bs)) = none := by
  have main : specViolation max bs = true → ∃ e rest, (nsReadTls max bs).out = .error e rest := by
    intro hv
    cases hout : (nsReadTls max bs).out with
    | error e rest => exact ⟨e, rest, rfl⟩
    | ok p rest =>
      -- a payload is returned only for a canonical frame within the limit: no violation there
      obtain ⟨hbs, hn, hlim, _⟩ := netstring_accepts_only_canonical max bs p rest _ (by rw [← hout])
      have he : bs = natDigits p.length ++ colon :: (p ++ comma :: rest) := by rw [hbs]; simp [nsEncode]
      have := specViolation_header max p.length hn (by rw [withinLimit_iff]; simp [hlim]) (p ++ comma :: rest)
        (by intro t r h; simp at h; exact h.1.symm)
      rw [← he, hv] at this; cases this
    | eof =>
      exfalso
      unfold nsReadTls at hout
      cases hh : hdrLoop 0 0 false bs with
      | eof =>
        obtain ⟨hall, hlen, _, hlz⟩ := hdrLoop_eof bs 0 0 false (by omega) hh
        have htw := takeWhile_all isDigit bs hall
        unfold specViolation at hv
        simp only [htw, List.drop_length] at hv
        have hlz' : zeroThenDigit bs = false := by
          cases bs with
          | nil => rfl
          | cons a r => cases r with
            | nil => rfl
            | cons b r' => exact hlz rfl a b r' rfl
        have h9 : decide (bs.length > 9) = false := by simp; omega
        simp [hlz', h9] at hv
      | error e r => simp [hh] at hout
      | done len r =>
        obtain ⟨hbs, hlen⟩ := hdrLoop_canonical bs len r hh
        simp only [hh] at hout
        by_cases hm : tlsLimitExceeded max len = true
        · simp [hm] at hout
        · have hw : withinLimit max len = true := by rw [withinLimit_iff]; simp [hm]
          have hdrop : r.drop len = [] := by
            simp only [hm, Bool.false_eq_true, if_false] at hout
            by_cases hl : r.length < len
            · exact List.drop_eq_nil_of_le (by omega)
            · simp only [hl, if_false] at hout
              cases hd : r.drop len with
              | nil => rfl
              | cons t r' =>
                simp only [hd] at hout
                by_cases hc : (t == comma) = true <;> simp [hc] at hout
          have := specViolation_header max len hlen hw r (by intro t r' h; rw [hdrop] at h; cases h)
          rw [← hbs, hv] at this; cases this
  refine ⟨main, ?_⟩
  unfold tlsRejectSpec
  cases hv : specViolation max bs with
  | false => rfl
  | true =>
    obtain ⟨e, rest, he⟩ := main hv
    simp [obsOfTls, he]

-- a wrong terminator, a leading zero, an over-limit header answered with end-of-stream or a payload: rejected by the specification
example : tlsRejectSpec none [50, 58, 104, 105, 59] .eof = some .tlsViolationNotRejected := by decide
example : tlsRejectSpec none [48, 50, 58, 104, 105, 44] .eof = some .tlsViolationNotRejected := by decide
example : tlsRejectSpec (some 1) [50, 58] .eof = some .tlsViolationNotRejected := by decide
example : tlsRejectSpec none [48, 48, 58, 44] (.ok [] 0) = some .tlsViolationNotRejected := by decide
example : tlsRejectSpec none [50, 58, 104] .eof = none := by decide
example : tlsRejectSpec none [50, 58, 104, 105, 59] (.err 0) = none := by decide

-- the specification is not vacuous: it rejects wrong observations
example : tlsSpec none [48, 50, 58, 104, 105, 44] (.ok [104, 105] 0) = some .tlsOnlyCanonical := by decide
example : tlsSpec none [50, 58, 104, 105, 44] .eof = some .tlsValidRejected := by decide
example : tlsSpec (some 1) [50, 58, 104, 105, 44] (.ok [104, 105] 0) = some .tlsOverLimit := by decide
example : tlsSpec (some 1) [50, 58, 104, 105, 44] (.err 1) = some .tlsLimitLate := by decide
example : tlsSpec (some 1) [50, 58, 104, 105, 44] (.err 3) = none := by decide

/-! ## Netstring, buffered reader (state file, replay log, CLI) -/

/-- **frames_split_regardless_of_chunking.**  For every list of payloads (each shorter than 10^9 bytes and
    within the limit) and *every* chunking of the concatenated encoding — including empty chunks and
    chunks that cut inside a length field — the read loop over the buffered reader yields exactly those
    payloads, in order, and then end-of-file. -/
theorem frames_split_regardless_of_chunking (max : Option Nat) (ps : List Bytes) (chunks : List Bytes)
    (hps : ∀ p ∈ ps, p.length < 10 ^ 9 ∧ bufLimitExceeded max p.length = false)
    (hc : chunks.flatten = nsEncodeAll ps) :
    (nsReadAll max chunks).items = ps ∧ (nsReadAll max chunks).final = .eof := by
  have := run_frames max (runFuel {} chunks) [] true chunks [] 0 ps [] hps (Or.inl rfl)
    (by simpa using hc) (by intro _ p ps' _; have := nsEncode_length_ge p; simp; omega)
    (by simp [runFuel])
  simpa [nsReadAll] using this

example : (nsReadAll none [[50, 58, 104], [105, 44, 48], [], [58, 44]]).items = [[104, 105], []] := by decide
example : (nsReadAll none [[50, 58, 104], [105, 44, 48], [], [58, 44]]).final = .eof := by decide

/-- **framed_model_meets_spec.**  The buffered half of the property as one statement: for every list of
    payloads within the limit and every chunking of the stream the writer produces for them, the model's
    read loop satisfies the executable specification `framedSpec` (items = payloads in order, then EOF)
    that the driver evaluates on the implementation's observations. -/
theorem framed_model_meets_spec (max : Option Nat) (ps : List Bytes) (chunks : List Bytes)
    (hps : ∀ p ∈ ps, bufWithin max p = true) (hc : chunks.flatten = nsEncodeAll ps) :
    framedSpec max ps (nsEncodeAll ps) true (sobsOfRun (nsReadAll max chunks)) = none := by
  have hps' : ∀ p ∈ ps, p.length < 10 ^ 9 ∧ bufLimitExceeded max p.length = false := by
    intro p hp
    have := hps p hp
    simp [bufWithin] at this
    exact ⟨this.2, this.1⟩
  obtain ⟨hi, hf⟩ := frames_split_regardless_of_chunking max ps chunks hps' hc
  have hobs : sobsOfRun (nsReadAll max chunks) = ps.map SObs.item ++ [SObs.eof] := by
    simp [sobsOfRun, hi, hf]
  rw [hobs]
  unfold framedSpec
  have h2 := itemsOf_items ps [SObs.eof]
  have h5 : (ps.map SObs.item ++ [SObs.eof]).getLast? = some SObs.eof := by simp
  simp [acceptedPrefix_all max ps hps, h2, itemsOf, h5]

example : framedSpec none [[104, 105]] (nsEncodeAll [[104, 105]]) true [.need, .item [104], .eof] = some .framesSplit := by decide
example : framedSpec none [[104, 105]] (nsEncodeAll [[104, 105]]) true [.need, .item [104, 105], .need] = some .framesEnd := by decide
example : framedSpec none [[104, 105]] [50, 58, 104, 105] true [.need, .eof] = some .writerFormat := by decide

/-- **netstring_prefix_parse.**  A stream that consists of complete frames followed by a truncated frame
    (any proper prefix of a valid frame, possibly empty) — i.e. every prefix of a valid frame sequence —
    yields, under every chunking, exactly the complete frames and then end-of-file: never a wrong or
    partial payload, never an error. -/
theorem netstring_prefix_parse (max : Option Nat) (ps : List Bytes) (q t suffix : Bytes) (chunks : List Bytes)
    (hps : ∀ p ∈ ps, p.length < 10 ^ 9 ∧ bufLimitExceeded max p.length = false)
    (hq : q.length < 10 ^ 9 ∧ bufLimitExceeded max q.length = false)
    (ht : t ++ suffix = nsEncode q) (hs : suffix ≠ [])
    (hc : chunks.flatten = nsEncodeAll ps ++ t) :
    (nsReadAll max chunks).items = ps ∧ (nsReadAll max chunks).final = .eof := by
  have := run_frames max (runFuel {} chunks) [] true chunks [] 0 ps t hps (Or.inr ⟨q, suffix, hq, hs, ht⟩)
    (by simpa using hc) (by intro _ p ps' _; have := nsEncode_length_ge p; simp; omega)
    (by simp [runFuel])
  simpa [nsReadAll] using this

-- "2:hi," then the first three bytes of "5:hello,": one item, then EOF
example : (nsReadAll none [[50, 58, 104, 105, 44, 53, 58, 104]]).items = [[104, 105]] := by decide

/-- **buffered_reader_total.**  On every chunked byte stream (hostile input included) and from every
    context state the read loop ends after at most `runMeasure + 1` calls in end-of-file or an error —
    the fuel `runFuel` is never exhausted — provided every fill delivers a chunk or reports end-of-file;
    every returned item lies inside the buffer and consumes at least its own length plus three framing
    bytes (`nsParseBuf_item_bounds`). -/
theorem buffered_reader_total (max : Option Nat) (chunks : List Bytes) :
    (nsReadAll max chunks).final ≠ .outOfFuel ∧
    (nsReadAll max chunks).calls ≤ chunks.flatten.length + 2 * chunks.length + 1 ∧
    (∀ buf p n, nsParseBuf max buf = .item p n → p.length + 3 ≤ n ∧ n ≤ buf.length) := by
  have := run_total max (runFuel {} chunks) [] true false chunks [] 0 (by simp [runFuel])
  refine ⟨by simpa [nsReadAll] using this.1, ?_, fun buf p n h => nsParseBuf_item_bounds max buf p n h⟩
  have h2 := this.2
  rw [runMeasure_mk] at h2
  simp only [nsReadAll]
  simp only [List.length_nil, if_true] at h2
  omega

/-- The buffered reader's leniency, stated rather than hidden: a length field with trailing junk before the
    ':' is accepted (`12ab:` reads as 12, `a:` as 0).  The property demands strict rejection only for frames
    from the network, which go through the TLS reader (`netstring_accepts_only_canonical`). -/
theorem buffered_reader_lenient :
    nsParseBuf none [49, 97, 98, 58, 120, 44] = .item [120] 6 ∧ nsParseBuf none [97, 58, 44] = .item [] 3 ∧
    (nsReadTls none [49, 97, 98, 58, 120, 44]).out = .error .missingColon [98, 58, 120, 44] := by decide

/-! ## JSON (model: IcingaModel/C20/Json.lean; proofs: IcingaProofs/C20/JsonLemmas.lean) -/

/-- **json_string_roundtrip.**  Every string — any sequence of Unicode scalar values: control characters,
    quotes, backslashes, DEL, the BMP, astral characters through surrogate pairs — encoded as
    `dump_escaped(…, ensure_ascii = true)` does is decoded to the same string, whatever follows. -/
theorem json_string_roundtrip (s : List Char) (rest : List UInt8) :
    jsonDecodeString (jsonEncodeString s ++ rest) = some (s, rest) :=
  jsonString_roundtrip_aux s rest

/-- **surrogate_roundtrip.**  The pair `\uXXXX\uXXXX` emitted for a code point ≥ 0x10000 decodes to it. -/
theorem surrogate_roundtrip (c : Char) (h : 0x10000 ≤ c.toNat) (rest : List UInt8) :
    decodeChar1 (92 :: 117 :: (hex4 (0xD7C0 + c.toNat / 1024) ++ 92 :: 117 :: hex4 (0xDC00 + c.toNat % 1024)) ++ rest)
      = some (c, rest) :=
  surrogate_roundtrip_aux c h rest

/-- **json_parser_roundtrip.**  The parser proper (no nesting limit): for every lawful number codec and every value
    — any nesting of null, booleans, numbers, strings over all of Unicode, arrays and objects, empty containers,
    any keys — parsing the encoder's text gives the value back. -/
theorem json_parser_roundtrip {N : Type} (c : NumCodec N) (hc : c.Lawful) (v : JValue N) :
    jsonDecode c (jsonEncode c v) = some v :=
  jsonValue_roundtrip_aux c hc v

/-- **nesting_limit_matches_source.**  The model's nesting limit is the constant `l_JsonMaxNestingDepth` that
    gen/c20_limits.py reads from lib/base/json.cpp on every run: a changed constant breaks this obligation. -/
theorem nesting_limit_matches_source : jsonMaxNestingDepth = Icinga.Gen.Limits.jsonMaxNestingDepthSrc := by decide

/-- `jsonDecodeL` = the parser, then the limit. -/
theorem jsonDecodeL_eq_some {N : Type} (c : NumCodec N) (bs : List UInt8) (v : JValue N) :
    jsonDecodeL c bs = some v ↔ jsonDecode c bs = some v ∧ depth v ≤ jsonMaxNestingDepth := by
  unfold jsonDecodeL
  cases h : jsonDecode c bs with
  | none => simp
  | some w =>
    by_cases hw : depth w ≤ jsonMaxNestingDepth
    · simp only [withinNesting, hw, decide_true, if_true, Option.some.injEq]
      constructor
      · intro e; subst e; exact ⟨rfl, hw⟩
      · intro e; exact e.1
    · simp only [withinNesting, hw, decide_false, Bool.false_eq_true, if_false, Option.some.injEq]
      constructor
      · intro e; cases e
      · intro e; obtain ⟨e1, e2⟩ := e; subst e1; exact absurd e2 hw

/-- **json_roundtrip.**  `JsonDecode (JsonEncode v) = v` for every lawful number codec and every value — any nesting
    of null, booleans, numbers, strings over all of Unicode, arrays and objects, empty containers, any keys, any size
    — whose nesting depth is at most the decoder's limit of 1000 (the property quantifies to depth 64).  (Objects
    are association lists in textual order; see `json_roundtrip_dict` for dictionaries as Icinga holds them.) -/
theorem json_roundtrip {N : Type} (c : NumCodec N) (hc : c.Lawful) (v : JValue N)
    (hd : depth v ≤ jsonMaxNestingDepth) : jsonDecodeL c (jsonEncode c v) = some v :=
  (jsonDecodeL_eq_some c _ v).mpr ⟨jsonValue_roundtrip_aux c hc v, hd⟩

/-- **json_too_deep_rejected.**  Beyond the limit even the encoder's own output is refused (an error, not a crash:
    repair of F-C20a). -/
theorem json_too_deep_rejected {N : Type} (c : NumCodec N) (hc : c.Lawful) (v : JValue N)
    (hd : jsonMaxNestingDepth < depth v) : jsonDecodeL c (jsonEncode c v) = none := by
  cases h : jsonDecodeL c (jsonEncode c v) with
  | none => rfl
  | some w =>
    have := (jsonDecodeL_eq_some c _ w).mp h
    rw [jsonValue_roundtrip_aux c hc v] at this
    obtain ⟨e, hw⟩ := this
    simp only [Option.some.injEq] at e
    subst e; omega

/-- **decode_nesting_bounded** (replaces the unboundedness statement of finding F-C20a, fixed by 24727c0).  Every
    document `JsonDecode` accepts — any bytes — has nesting depth at most 1000: the recursion that destroys or
    renders a decoded value is bounded.  The bound is sharp: 1000 nested arrays are accepted, 1001 are refused. -/
theorem decode_nesting_bounded {N : Type} (c : NumCodec N) (hc : c.Lawful) :
    (∀ (bs : List UInt8) (v : JValue N), jsonDecodeL c bs = some v → depth v ≤ 1000) ∧
    jsonDecodeL c (jsonEncode c (nest 999 : JValue N)) = some (nest 999) ∧
    jsonDecodeL c (jsonEncode c (nest 1000 : JValue N)) = none :=
  ⟨fun bs v h => ((jsonDecodeL_eq_some c bs v).mp h).2,
   json_roundtrip c hc _ (by rw [depth_nest]; decide),
   json_too_deep_rejected c hc _ (by rw [depth_nest]; decide)⟩

/-- **int_codec_lawful.**  The integer instance of the number codec satisfies the codec laws (decimal
    printing and canonical parsing round-trip); the binary64 instance (nlohmann's printer + strtod) is an
    assumption, fuzzed bit-exactly by the harness on every run. -/
theorem int_codec_lawful : intCodec.Lawful := intCodec_lawful_aux

/-- JSON round trip for values whose numbers are integers (all codec hypotheses discharged). -/
theorem json_roundtrip_int (v : JValue Int) (hd : depth v ≤ jsonMaxNestingDepth) :
    jsonDecodeL intCodec (jsonEncode intCodec v) = some v :=
  json_roundtrip intCodec int_codec_lawful v hd

example : jsonDecodeL intCodec (jsonEncode intCodec sampleValue) = some sampleValue :=
  json_roundtrip_int sampleValue (by decide)
example : (jsonDecode intCodec (asciiBytes "[1,]")).isNone = true := by decide +kernel
example : jsonDecodeString (asciiBytes "\"\\ud800\"") = none := by decide +kernel

/-! ## UTF-8 layer (IcingaModel/C20/Utf8.lean: utf8cpp's validate_next / replace_invalid as Utility::ValidateUTF8 uses them) -/

/-- **utf8_roundtrip.**  Every sequence of Unicode scalar values survives UTF-8 encoding and strict decoding; and the
    strict decoder accepts nothing but canonical encodings (no overlongs, surrogates, code points above U+10FFFF). -/
theorem utf8_roundtrip (s : List Char) :
    utf8Decode (utf8Encode s) = some s ∧ ∀ bs, utf8Decode bs = some s → bs = utf8Encode s :=
  ⟨utf8_roundtrip_aux s, fun bs h => utf8Decode_eq_some_aux bs s h⟩

/-- **sanitise_fixes_wellformed.**  `ValidateUTF8` leaves well-formed text unchanged. -/
theorem sanitise_fixes_wellformed (s : List Char) : sanitise (utf8Encode s) = utf8Encode s :=
  sanitise_fixes_wellformed_aux s

/-- **sanitise_wellformed.**  On arbitrary bytes the output of `ValidateUTF8` is well-formed UTF-8. -/
theorem sanitise_wellformed (bs : List UInt8) : ∃ s, sanitise bs = utf8Encode s :=
  sanitise_wellformed_aux bs

/-- **sanitise_idempotent.** -/
theorem sanitise_idempotent (bs : List UInt8) : sanitise (sanitise bs) = sanitise bs :=
  sanitise_idempotent_aux bs

/-- **sanitise_model_meets_spec.**  For every byte string the model of the sanitising step satisfies the executable
    specification `sanitiseSpec` the driver evaluates on the implementation's observations. -/
theorem sanitise_model_meets_spec (bs : List UInt8) : sanitiseSpec bs (sanitise bs) = none := by
  unfold sanitiseSpec
  have h1 := utf8Decode_sanitise_isSome bs
  have h1' : (utf8Decode (sanitise bs)).isNone = false := by
    cases h : utf8Decode (sanitise bs) <;> simp [h] at h1 ⊢
  simp only [h1', Bool.false_eq_true, if_false]
  cases h : utf8Decode bs with
  | none => simp
  | some s =>
    have := utf8Decode_eq_some_aux bs s h
    rw [this, sanitise_fixes_wellformed_aux]; simp

example : sanitiseSpec [0xC0, 0x80] [0xC0, 0x80] = some .utf8Wellformed := by decide +kernel
example : sanitiseSpec [0xC3, 0xA9] [0xEF, 0xBF, 0xBD] = some .utf8KeepsValid := by decide +kernel
example : sanitise [0xE2, 0x28, 0xA1] = [0xEF, 0xBF, 0xBD, 0x28, 0xEF, 0xBF, 0xBD] := by decide +kernel

/-- **json_roundtrip_bytes.**  The round trip composed down to bytes: for a value whose strings and keys are arbitrary
    byte strings (what an Icinga `Value` holds) and whose nesting depth is within the limit, `JsonDecode (JsonEncode v)`
    — sanitise, escape, parse (with the limit), re-encode as UTF-8 — is `v` with every string sanitised; hence `v`
    itself when its strings are well-formed UTF-8.  (The encoded text is pure ASCII, so the decoder's own sanitising
    step is the identity on it.) -/
theorem json_roundtrip_bytes {N : Type} (c : NumCodec N) (hc : c.Lawful) (v : BValue N)
    (hd : depth v.toJ ≤ jsonMaxNestingDepth) :
    jsonDecodeBL c (jsonEncodeB c v) = some v.sanitised ∧
    (v.sanitised = v → jsonDecodeBL c (jsonEncodeB c v) = some v) := by
  have h : jsonDecodeBL c (jsonEncodeB c v) = some v.sanitised := by
    unfold jsonDecodeBL jsonEncodeB
    rw [sanitise_ascii _ (jsonEncode_ascii c hc v.toJ), json_roundtrip c hc v.toJ hd, Option.map_some, toJ_toB]
  exact ⟨h, fun hv => by rw [h, hv]⟩

/-! ## Dictionaries as Icinga holds them (std::map: sorted by key, `Set` overwrites) — IcingaModel/C20/Dict.lean -/

/-- **json_roundtrip_dict.**  Seen as Icinga values (every dictionary a key-sorted, duplicate-free map — which is
    what `Dictionary` is, so the encoder emits members in ascending key order), every value of depth within the
    limit survives `JsonDecode ∘ JsonEncode` unchanged.  `icingaDecodeL` = parse with the limit, then build every
    object with `Dictionary::Set` in textual order. -/
theorem json_roundtrip_dict {N : Type} (c : NumCodec N) (hc : c.Lawful) (v : JValue N) (hv : Canonical v)
    (hd : depth v ≤ jsonMaxNestingDepth) : icingaDecodeL c (jsonEncode c v) = some v := by
  unfold icingaDecodeL
  rw [json_roundtrip c hc v hd, Option.map_some, canonV_of_canonical_aux v hv]

/-- **json_decode_encode_any.**  What happens otherwise (member lists that are unsorted or contain duplicate keys,
    e.g. hostile text): the result is the canonical form — sorted by key, the LAST of several equal keys wins
    (`canon_last_wins`) — and it is always an Icinga value; canonicalising is idempotent. -/
theorem json_decode_encode_any {N : Type} (c : NumCodec N) (hc : c.Lawful) (v : JValue N)
    (hd : depth v ≤ jsonMaxNestingDepth) :
    icingaDecodeL c (jsonEncode c v) = some (canonV v) ∧ Canonical (canonV v) ∧ canonV (canonV v) = canonV v := by
  refine ⟨?_, canonV_canonical_aux v, canon_idempotent_aux v⟩
  unfold icingaDecodeL
  rw [json_roundtrip c hc v hd, Option.map_some]

/-- **canon_last_wins.**  Looking a key up in the dictionary built from a member list gives the value of the last
    member with that key, and the dictionary is sorted. -/
theorem canon_last_wins {N : Type} (k : List Char) (kvs : List (List Char × JValue N)) :
    dictGet k (dictOfMembers kvs) = dictGet k kvs.reverse ∧ keysSorted (dictOfMembers kvs) = true :=
  ⟨canon_last_wins_aux k kvs, dictOfMembers_sorted_aux kvs⟩

/-! ## JSON-RPC messages (JsonRpc::DecodeMessage, the receive loop of JsonRpcConnection) -/

/-- **decode_message_only_objects.**  `DecodeMessage` yields a dictionary exactly when the payload decodes
    to a JSON object (then: that object) nested no deeper than the limit; every other payload — malformed text,
    `null`, booleans, numbers, strings, arrays, too deep a document — ends in an error, never in a value handed to
    the caller. -/
theorem decode_message_only_objects {N : Type} (c : NumCodec N) (bs : List UInt8) :
    (∀ kvs, decodeMessage c bs = .ok kvs ↔ jsonDecodeL c bs = some (.obj kvs)) ∧
    (jsonDecodeL c bs = none → decodeMessage c bs = .error .malformed) ∧
    (∀ v, jsonDecodeL c bs = some v → (∀ kvs, v ≠ .obj kvs) → decodeMessage c bs = .error .notObject) := by
  refine ⟨?_, ?_, ?_⟩
  · intro kvs
    unfold decodeMessage
    cases h : jsonDecodeL c bs with
    | none => simp
    | some v => cases v <;> simp
  · intro h; simp [decodeMessage, h]
  · intro v h hv
    unfold decodeMessage
    rw [h]
    cases v with
    | obj kvs => exact absurd rfl (hv kvs)
    | _ => rfl

/-- **decode_message_roundtrip.**  An encoded dictionary is accepted and comes back unchanged; an encoded value
    of any other kind is rejected (lawful number codec). -/
theorem decode_message_roundtrip {N : Type} (c : NumCodec N) (hc : c.Lawful) (v : JValue N)
    (hd : depth v ≤ jsonMaxNestingDepth) :
    decodeMessage c (jsonEncode c v) =
      match v with
      | .obj kvs => .ok kvs
      | _ => .error .notObject := by
  unfold decodeMessage
  rw [json_roundtrip c hc v hd]
  cases v <;> rfl

/-- **message_model_meets_spec.**  Whatever `DecodeMessage`'s model does on any payload satisfies the executable
    specification `messageSpec` the driver evaluates on the implementation's observations: never a null or
    non-dictionary result, and a dictionary only for a text that starts with '{'. -/
theorem message_model_meets_spec {N : Type} (c : NumCodec N) (bs : List UInt8) :
    messageSpec bs (obsOfMsg (decodeMessage c bs)) = none := by
  cases h : decodeMessage c bs with
  | error e => rfl
  | ok kvs =>
    have hd := ((jsonDecodeL_eq_some c bs _).mp (((decode_message_only_objects c bs).1 kvs).mp h)).1
    unfold jsonDecode at hd
    cases hv : decodeValueF c (bs.length + 1) bs with
    | none => simp [hv] at hd
    | some vr =>
      obtain ⟨v, r⟩ := vr
      rw [hv] at hd
      cases r with
      | cons x xs => simp at hd
      | nil =>
        simp only [Option.some.injEq] at hd
        subst hd
        obtain ⟨t, ht⟩ := decodeValueF_obj_head c _ bs kvs [] hv
        simp [obsOfMsg, messageSpec, ht, firstNonWs_cons_brace]

/-- **recv_message_only_objects.**  One iteration of the receive loop hands a message to the handlers only if the
    stream starts with a canonical frame within the size limit whose payload decodes to a JSON object nested no
    deeper than 1000. -/
theorem recv_message_only_objects {N : Type} (c : NumCodec N) (max : Option Nat) (bs : Bytes)
    (kvs : List (List Char × JValue N)) (rest : Bytes) (h : recvMessage c max bs = .message kvs rest) :
    ∃ p, bs = nsEncode p ++ rest ∧ tlsLimitExceeded max p.length = false ∧ jsonDecodeL c p = some (.obj kvs) ∧
      depth (.obj kvs : JValue N) ≤ 1000 := by
  unfold recvMessage at h
  cases ho : (nsReadTls max bs).out with
  | eof => simp [ho] at h
  | error e r => simp [ho] at h
  | ok p r =>
    simp only [ho] at h
    cases hm : decodeMessage c p with
    | error e => simp [hm] at h
    | ok k =>
      simp only [hm, RecvOutcome.message.injEq] at h
      obtain ⟨hk, hr⟩ := h
      subst hk; subst hr
      have hc := netstring_accepts_only_canonical max bs p r (nsReadTls max bs).alloc (by rw [← ho])
      have hj := ((decode_message_only_objects c p).1 k).mp hm
      exact ⟨p, hc.1, hc.2.2.1, hj, ((jsonDecodeL_eq_some c p _).mp hj).2⟩

-- "null", "42", "[]" are rejected; "{}" is accepted; the specification rejects a null result
example : obsOfMsg (decodeMessage intCodec (asciiBytes "null")) = .rejected := by decide +kernel
example : obsOfMsg (decodeMessage intCodec (asciiBytes "42")) = .rejected := by decide +kernel
example : obsOfMsg (decodeMessage intCodec (asciiBytes "[]")) = .rejected := by decide +kernel
example : obsOfMsg (decodeMessage intCodec (asciiBytes "{")) = .rejected := by decide +kernel
example : obsOfMsg (decodeMessage intCodec (asciiBytes "{}")) = .dict := by decide +kernel
example : messageSpec (asciiBytes "null") .null = some .messageOnlyObjects := by decide
example : messageSpec (asciiBytes "[]") .dict = some .messageNotObjectText := by decide

/-! ## A started connection: limit selection and the receive loop (IcingaModel/C20/Conn.lean) -/

/-- **unauth_limit_selected.**  The limit the connection passes to the reader: 1 MiB for every peer that is not
    authenticated — whatever name it claims, also the name of a configured Endpoint — and for authenticated peers
    without Endpoint object; none only for an authenticated peer with Endpoint object. -/
theorem unauth_limit_selected :
    (∀ ep, limitFor false ep = some 1048576) ∧ limitFor true false = some 1048576 ∧ limitFor true true = none := by
  refine ⟨fun ep => by cases ep <;> rfl, rfl, rfl⟩

/-- One iteration that hands a message to the handlers consumed exactly one canonical frame within the limit. -/
theorem recv_message_frame {N : Type} (c : NumCodec N) (max : Option Nat) (bs : Bytes)
    (kvs : List (List Char × JValue N)) (rest : Bytes) (h : recvMessage c max bs = .message kvs rest) :
    ∃ p, bs = nsEncode p ++ rest ∧ p.length < 10 ^ 9 ∧ tlsLimitExceeded max p.length = false ∧ decodeMessage c p = .ok kvs := by
  unfold recvMessage at h
  cases ho : (nsReadTls max bs).out with
  | eof => simp [ho] at h
  | error e r => simp [ho] at h
  | ok p r =>
    simp only [ho] at h
    cases hm : decodeMessage c p with
    | error e => simp [hm] at h
    | ok k =>
      simp only [hm, RecvOutcome.message.injEq] at h
      obtain ⟨hk, hr⟩ := h
      subst hk; subst hr
      have hc := netstring_accepts_only_canonical max bs p r (nsReadTls max bs).alloc (by rw [← ho])
      exact ⟨p, hc.1, hc.2.1, hc.2.2.1, hm⟩

/-- A canonical frame within the limit whose payload is a JSON object is handed on, with the rest of the stream untouched. -/
theorem recv_frame {N : Type} (c : NumCodec N) (max : Option Nat) (p rest : Bytes) (hn : p.length < 10 ^ 9)
    (hmax : tlsLimitExceeded max p.length = false) (kvs : List (List Char × JValue N)) (hd : decodeMessage c p = .ok kvs) :
    recvMessage c max (nsEncode p ++ rest) = .message kvs rest := by
  unfold recvMessage
  rw [netstring_roundtrip max p rest hn hmax]
  simp [hd]

/-- **send_recv.**  Sender and receiver composed: a dictionary (any keys and values, nesting within the limit) that the
    sender encodes with JsonEncode and frames with WriteStringToStream is handed to the receiver's handlers as exactly
    that dictionary, with the rest of the stream untouched — for every lawful number codec, every limit the encoded
    message is within, whatever follows in the stream. -/
theorem send_recv {N : Type} (c : NumCodec N) (hc : c.Lawful) (max : Option Nat) (kvs : List (List Char × JValue N))
    (rest : Bytes) (hd : depth (.obj kvs : JValue N) ≤ jsonMaxNestingDepth)
    (hn : (jsonEncode c (.obj kvs)).length < 10 ^ 9)
    (hmax : tlsLimitExceeded max (jsonEncode c (.obj kvs)).length = false) :
    recvMessage c max (nsEncode (jsonEncode c (.obj kvs)) ++ rest) = .message kvs rest :=
  recv_frame c max _ rest hn hmax kvs (by simpa using decode_message_roundtrip c hc (.obj kvs) hd)

/-- A frame that declares more than the limit never becomes a message. -/
theorem recv_over_limit {N : Type} (c : NumCodec N) (m : Nat) (q rest : Bytes) (hq : m < q.length) (hn : q.length < 10 ^ 9) :
    ∀ kvs r, recvMessage c (some m) (nsEncode q ++ rest) ≠ .message kvs r := by
  have he : nsEncode q ++ rest = natDigits q.length ++ colon :: (q ++ comma :: rest) := by simp [nsEncode]
  intro kvs r
  unfold recvMessage
  rw [he, limit_before_payload m q.length _ hq hn]
  simp

/-- Fuel beyond the length of the stream does not matter. -/
theorem connLoop_fuel {N : Type} (c : NumCodec N) (max : Option Nat) :
    ∀ (f1 f2 : Nat) (bs : Bytes), bs.length < f1 → bs.length < f2 → connLoop c max f1 bs = connLoop c max f2 bs := by
  intro f1
  induction f1 with
  | zero => intro f2 bs h; omega
  | succ n ih =>
    intro f2 bs h1 h2
    cases f2 with
    | zero => omega
    | succ m =>
      unfold connLoop
      cases hr : recvMessage c max bs with
      | message kvs rest =>
        obtain ⟨p, hbs, _, _, _⟩ := recv_message_frame c max bs kvs rest hr
        have hl := nsEncode_length_ge p
        have : rest.length + 3 ≤ bs.length := by rw [hbs]; simp; omega
        simp only
        rw [ih m rest (by omega) (by omega)]
      | rejected e r => rfl
      | frameError e r => rfl
      | eof => rfl

/-- **conn_delivers_only_within_limit.**  On ANY byte stream, whatever the receive loop hands to the handlers was sent
    as a canonical frame, behind nothing but canonical frames, with a payload within the connection's limit that
    decodes to exactly that JSON object. -/
theorem conn_delivers_only_within_limit {N : Type} (c : NumCodec N) (max : Option Nat) :
    ∀ (fuel : Nat) (bs : Bytes) (kvs : List (List Char × JValue N)), kvs ∈ connLoop c max fuel bs →
      ∃ ps p rest, bs = nsEncodeAll ps ++ (nsEncode p ++ rest) ∧ tlsLimitExceeded max p.length = false ∧
        jsonDecodeL c p = some (.obj kvs) := by
  intro fuel
  induction fuel with
  | zero => intro bs kvs h; simp [connLoop] at h
  | succ n ih =>
    intro bs kvs h
    unfold connLoop at h
    cases hr : recvMessage c max bs with
    | message k rest =>
      simp only [hr, List.mem_cons] at h
      obtain ⟨p, hbs, _, hlim, hd⟩ := recv_message_frame c max bs k rest hr
      rcases h with h | h
      · subst h
        exact ⟨[], p, rest, by simpa [nsEncodeAll] using hbs, hlim, ((decode_message_only_objects c p).1 kvs).mp hd⟩
      · obtain ⟨ps, p', rest', hr', hl', hd'⟩ := ih rest kvs h
        exact ⟨p :: ps, p', rest', by rw [hbs, hr']; simp [nsEncodeAll], hl', hd'⟩
    | rejected e r => simp [hr] at h
    | frameError e r => simp [hr] at h
    | eof => simp [hr] at h

/-- **unauth_peer_never_over_1MiB.**  The statement's clause as one sentence about the connection: for a peer that is not
    authenticated — with ANY identity, any bytes — every message that reaches the handlers came in a frame of at most
    1048576 payload bytes. -/
theorem unauth_peer_never_over_1MiB {N : Type} (c : NumCodec N) (ep : Bool) (bs : Bytes)
    (kvs : List (List Char × JValue N)) (h : kvs ∈ connRecv c false ep bs) :
    ∃ ps p rest, bs = nsEncodeAll ps ++ (nsEncode p ++ rest) ∧ p.length ≤ 1048576 ∧ jsonDecodeL c p = some (.obj kvs) := by
  obtain ⟨ps, p, rest, hbs, hl, hd⟩ := conn_delivers_only_within_limit c _ _ bs kvs h
  refine ⟨ps, p, rest, hbs, ?_, hd⟩
  rw [unauth_limit_selected.1 ep] at hl
  simp [tlsLimitExceeded] at hl
  omega

-- the receive loop on concrete bytes: two messages, then a frame that violates the format ends the connection — the
-- message behind it never reaches a handler; `null` and an over-limit header end it as well
example : (connRecv intCodec false true (asciiBytes "2:{},7:{\"a\":1},00:,2:{},")).map (·.map (·.1)) = [[], ["a".toList]] := by decide +kernel
example : (connRecv intCodec true true (asciiBytes "2:{},4:null,2:{},")).map (·.map (·.1)) = [[]] := by decide +kernel
example : (connRecv intCodec false true (asciiBytes "2:{},1048577:{}")).map (·.map (·.1)) = [[]] := by decide +kernel
example : limitFor false true = some 1048576 := rfl

/-- The receive loop against the frames the peer sent: the ids of the frames up to the first one over the limit, then
    (if none was) whatever the tail yields. -/
theorem connLoop_expected {N : Type} (c : NumCodec N) (idOf : List (List Char × JValue N) → Option Nat)
    (limited : Bool) (tail : Bytes) :
    ∀ (frames : List ConnFrame) (fuel : Nat), (connStream frames tail).length < fuel →
      (∀ f ∈ frames, f.payload.length < 10 ^ 9 ∧ ∃ kvs, decodeMessage c f.payload = .ok kvs ∧ idOf kvs = some f.id) →
      (connLoop c (if limited then some unauthLimit else none) fuel (connStream frames tail)).filterMap idOf =
        (connExpected limited frames).1 ++
          (if (connExpected limited frames).2 then []
           else (connLoop c (if limited then some unauthLimit else none) fuel tail).filterMap idOf) := by
  intro frames
  induction frames with
  | nil => intro fuel _ _; simp [connStream, nsEncodeAll, connExpected]
  | cons f fs ih =>
    intro fuel hfuel hf
    have hs : connStream (f :: fs) tail = nsEncode f.payload ++ connStream fs tail := by
      simp [connStream, nsEncodeAll]
    obtain ⟨hn, kvs, hd, hid⟩ := hf f (by simp)
    have hl3 := nsEncode_length_ge f.payload
    cases fuel with
    | zero => omega
    | succ n =>
      have hlen : (connStream fs tail).length < n := by rw [hs] at hfuel; simp at hfuel; omega
      have htl : tail.length < n := by
        have : tail.length ≤ (connStream fs tail).length := by simp [connStream]
        omega
      by_cases hover : (limited && decide (unauthLimit < f.payload.length)) = true
      · -- the frame is over the limit that applies: nothing from here on
        simp only [Bool.and_eq_true, decide_eq_true_eq] at hover
        obtain ⟨hlim, hgt⟩ := hover
        subst hlim
        have hne := recv_over_limit c unauthLimit f.payload (connStream fs tail) hgt hn
        have : connLoop c (some unauthLimit) (n + 1) (connStream (f :: fs) tail) = [] := by
          unfold connLoop
          rw [hs]
          cases hr : recvMessage c (some unauthLimit) (nsEncode f.payload ++ connStream fs tail) with
          | message k r => exact absurd hr (hne k r)
          | rejected e r => rfl
          | frameError e r => rfl
          | eof => rfl
        simp [this, connExpected, hgt]
      · have hmax : tlsLimitExceeded (if limited then some unauthLimit else none) f.payload.length = false := by
          cases limited with
          | false => simp [tlsLimitExceeded]
          | true => simp at hover; simp [tlsLimitExceeded]; omega
        have hrecv := recv_frame c (if limited then some unauthLimit else none) f.payload (connStream fs tail) hn hmax kvs hd
        have hstep : connLoop c (if limited then some unauthLimit else none) (n + 1) (connStream (f :: fs) tail) =
            kvs :: connLoop c (if limited then some unauthLimit else none) n (connStream fs tail) := by
          conv => lhs; unfold connLoop
          rw [hs, hrecv]
        have hih := ih n hlen (fun g hg => hf g (by simp [hg]))
        have hexp : connExpected limited (f :: fs) = (f.id :: (connExpected limited fs).1, (connExpected limited fs).2) := by
          conv => lhs; unfold connExpected
          simp [hover]
        rw [hstep, hexp]
        simp only [List.filterMap_cons, hid, List.cons_append, List.cons.injEq, true_and]
        rw [hih, connLoop_fuel c _ n (n + 1) tail htl (by omega)]

/-- **conn_model_meets_spec.**  The connection half of the property as one statement: for every peer (authenticated or
    not, with or without Endpoint object), every sequence of messages sent as canonical frames (each a JSON object the
    handler recognises by an id; any sizes below 10^9, also far over 1 MiB) followed by ANY tail bytes, what the model of
    constructor + receive loop delivers satisfies the executable specification `connSpec` that the driver evaluates on the
    implementation's observations — in particular: nothing from or behind a frame of more than 1 MiB reaches a handler
    when the peer is not authenticated. -/
theorem conn_model_meets_spec {N : Type} (c : NumCodec N) (idOf : List (List Char × JValue N) → Option Nat)
    (auth ep : Bool) (frames : List ConnFrame) (tail : Bytes)
    (hf : ∀ f ∈ frames, f.payload.length < 10 ^ 9 ∧ ∃ kvs, decodeMessage c f.payload = .ok kvs ∧ idOf kvs = some f.id) :
    connSpec auth ep frames tail ((connRecv c auth ep (connStream frames tail)).filterMap idOf) true = none := by
  -- the model's deliveries under the reading of the limit the model selects
  have key : ∀ limited : Bool, limitFor auth ep = (if limited then some unauthLimit else none) →
      connFits limited frames tail ((connRecv c auth ep (connStream frames tail)).filterMap idOf) = true := by
    intro limited hl
    unfold connRecv
    rw [hl, connLoop_expected c idOf limited tail frames _ (by omega) hf]
    unfold connFits
    cases hst : (connExpected limited frames).2 with
    | true => simp [hst]
    | false =>
      cases hsf : specFrame tail with
      | none =>
        -- nothing is delivered out of a tail that is not a frame
        have : connLoop c (if limited then some unauthLimit else none) ((connStream frames tail).length + 1) tail = [] := by
          unfold connLoop
          cases hr : recvMessage c (if limited then some unauthLimit else none) tail with
          | message k r =>
            obtain ⟨p, hbs, hn, _, _⟩ := recv_message_frame c _ tail k r hr
            rw [hbs, specFrame_complete p r hn] at hsf
            simp at hsf
          | rejected e r => rfl
          | frameError e r => rfl
          | eof => rfl
        simp [hst, this]
      | some pr => simp [hst, List.isPrefixOf_iff_prefix]
  unfold connSpec
  cases auth with
  | false =>
    have := key true (by cases ep <;> rfl)
    simp [this]
  | true =>
    cases ep with
    | true => have := key false rfl; simp [this]
    | false => have := key true rfl; simp [this]

-- the specification is not vacuous: an over-limit frame delivered to an unauthenticated peer, a lost frame, a frame out of a malformed tail
example (p : Bytes) (h : 1048576 < p.length) :
    connSpec false true [⟨0, p⟩, ⟨1, [123, 125]⟩] [] [0, 1] true = some .connUnauthLimit := by
  simp [connSpec, connFits, connExpected, unauthLimit, specFrame, h]
example (p : Bytes) (h : 1048576 < p.length) : connSpec false true [⟨0, p⟩, ⟨1, [123, 125]⟩] [] [] true = none := by
  simp [connSpec, connFits, connExpected, unauthLimit, specFrame, h]
example (p : Bytes) (h : 1048576 < p.length) : connSpec true true [⟨0, p⟩, ⟨1, [123, 125]⟩] [] [0, 1] true = none := by
  simp [connSpec, connFits, connExpected, unauthLimit, specFrame, h]
example : connSpec true true [⟨0, [123, 125]⟩, ⟨1, [123, 125]⟩] [] [0] true = some .connFrames := by decide +kernel
example : connSpec false false [⟨0, [123, 125]⟩] [48, 48, 58, 44] [0, 7] true = some .connFrames := by decide +kernel
example : connSpec false false [⟨0, [123, 125]⟩] [] [0] false = some .connEnds := by decide +kernel

/-! ## The state file: one record through ConfigObject::RestoreObject -/

/-- **restore_record_safe.**  Every record of a state file — any bytes — is handled or refused with an error (the record
    is skipped), never a crash; and exactly the records that decode to a JSON object (nested no deeper than the limit) are
    handled.  (Full statement; before the repair of finding F-C20b, commit 7e39c42, the record `null` was a null-pointer
    dereference and this theorem was carried as `_partial` + `_counterexample`.) -/
theorem restore_record_safe {N : Type} (c : NumCodec N) (p : Bytes) :
    restoreRecord c p ≠ .crash ∧ (restoreRecord c p = .handled ↔ ∃ kvs, jsonDecodeL c p = some (.obj kvs)) := by
  unfold restoreRecord
  cases hd : jsonDecodeL c p with
  | none => simp
  | some v => cases v <;> simp

example : restoreRecord intCodec (asciiBytes "null") = .error := by decide +kernel
example : restoreRecord intCodec (asciiBytes "[]") = .error := by decide +kernel
example : restoreRecord intCodec (asciiBytes "{}") = .handled := by decide +kernel
example : stateSpec (asciiBytes "{}") 3 (asciiBytes "2:{},4:null,") (.ok 1) = some .stateRestore := by decide +kernel
example : stateSpec (asciiBytes "{}") 3 (asciiBytes "2:{},4:null,") .err = some .stateRestore := by decide +kernel
example : stateSpec (asciiBytes "{}") 3 (asciiBytes "2:{},4:null,") (.ok 3) = none := by decide +kernel

/-! ## Hostile input, all readers -/

/-- **hostile_buffered_meets_spec.**  For every limit and every chunked byte stream whatsoever, the model's read
    loop satisfies the executable specification `hostileSpec`: it ends (end-of-file or an error, never the
    call budget) and the items it returned cost at most the bytes that were fed (length + 3 each). -/
theorem hostile_buffered_meets_spec (max : Option Nat) (chunks : List Bytes) :
    hostileSpec chunks.flatten true (sobsOfRun (nsReadAll max chunks)) = none := by
  have ht := (buffered_reader_total max chunks).1
  have hb := run_items_bound max (runFuel {} chunks) [] true false chunks [] 0
  simp only [List.reverse_nil, List.length_nil] at hb
  have hc0 : cost ([] : List Bytes) = 0 := rfl
  rw [hc0] at hb
  unfold nsReadAll at ht
  unfold nsReadAll
  generalize nsBufRun max (runFuel {} chunks) {} chunks [] 0 = r at ht hb
  have hobs : itemsOf (sobsOfRun r) = r.items := by
    simp [sobsOfRun, itemsOf_items]
    cases r.final <;> simp [itemsOf]
  unfold hostileSpec
  rw [hobs]
  have hsum : ¬ ((r.items.map (fun p => p.length + 3)).sum > chunks.flatten.length) := by
    unfold cost at hb; omega
  cases hf : r.final with
  | outOfFuel => exact absurd hf ht
  | eof => simp [sobsOfRun, hf]; simp [List.length_flatten] at hsum; omega
  | error e => simp [sobsOfRun, hf]; simp [List.length_flatten] at hsum; omega

/-- **hostile_model_meets_spec.**  On *arbitrary* bytes every reader's model meets the property's
    specification, with no hypothesis on the input:
    * TLS reader: `tlsSpec` holds (a payload only for a canonical in-limit frame, rest untouched; over-limit
      header rejected with everything after ':' unread), and the allocation is below 10^9 and within the limit;
    * buffered reader: `hostileSpec` holds for every chunking (the loop ends; items fit into the input), and
      whatever it returns as an item is framed in the buffer as `header ":" item ","` with the item's length
      the number denoted by the header's leading digits and within the limit — never bytes from elsewhere;
    * DecodeMessage: `messageSpec` holds (a dictionary only for an object text, otherwise an error). -/
theorem hostile_model_meets_spec {N : Type} (c : NumCodec N) (max : Option Nat) :
    (∀ bs : Bytes, tlsSpec max bs (obsOfTls (nsReadTls max bs)) = none ∧ (nsReadTls max bs).alloc < 10 ^ 9 ∧
        ∀ m, max = some m → (nsReadTls max bs).alloc ≤ m) ∧
    (∀ chunks : List Bytes, hostileSpec chunks.flatten true (sobsOfRun (nsReadAll max chunks)) = none) ∧
    (∀ (buf p : Bytes) (n : Nat), nsParseBuf max buf = .item p n →
        ∃ pre rest, buf = pre ++ colon :: (p ++ comma :: rest) ∧ n = pre.length + 1 + p.length + 1 ∧ pre ≠ [] ∧
          colon ∉ pre ∧ p.length = digitsVal 0 (pre.takeWhile isDigit) ∧ bufLimitExceeded max p.length = false) ∧
    (∀ bs : List UInt8, messageSpec bs (obsOfMsg (decodeMessage c bs)) = none) :=
  ⟨fun bs => ⟨tls_model_meets_spec max bs, (allocation_bounded max bs).1, (allocation_bounded max bs).2⟩,
   hostile_buffered_meets_spec max,
   fun buf p n h => nsParseBuf_item_shape max buf p n h,
   message_model_meets_spec c⟩

-- the specification is not vacuous on hostile traces
example : hostileSpec [49, 58, 97, 59] true [.need, .hang] = some .readerEnds := by decide
example : hostileSpec [49, 58, 97, 59] true [.need, .need] = some .readerEnds := by decide
example : hostileSpec [49, 58, 97, 44] true [.item [97, 98, 99], .eof] = some .itemsInside := by decide
example : hostileSpec [49, 58, 97, 59] true (sobsOfRun (nsReadAll none [[49, 58], [97, 59]])) = none := by decide


/-! ## The state file as a whole: DumpObjects → file → RestoreObjects (any record sizes, any chunking) -/

/-- **tls_alloc_meets_spec.**  "… or allocating beyond the declared limits", as the executable clause the driver evaluates
    on the allocation observed in the real reader: on EVERY byte stream the payload buffer the TLS reader model allocates
    satisfies `tlsAllocSpec` — at most the connection's limit, without a limit less than 10^9. -/
theorem tls_alloc_meets_spec (max : Option Nat) (bs : Bytes) :
    tlsAllocSpec max (nsReadTls max bs).alloc = none := by
  obtain ⟨h9, hm⟩ := allocation_bounded max bs
  unfold tlsAllocSpec
  cases max with
  | none =>
    simp only [formatMaxLen, allocSlack]
    exact if_pos (by omega)
  | some m =>
    have := hm m rfl
    simp only [allocSlack]
    exact if_pos (by omega)

example : tlsAllocSpec (some 1048576) 999999999 = some .tlsAllocBounded := by decide
example : tlsAllocSpec (some 1048576) 1048577 = none := by decide
example : (nsReadTls (some 10) (asciiBytes "5:hello,")).alloc = 5 := by decide +kernel

/-- **restore_reads_all_frames.**  The read loop of RestoreObjects (no maximum length) hands over exactly the records of a
    well-framed file, whatever their sizes (below 10^9) and however the file arrives in chunks — it never throws on one. -/
theorem restore_reads_all_frames (ps : List Bytes) (chunks : List Bytes) (hps : ∀ p ∈ ps, p.length < 10 ^ 9)
    (hc : chunks.flatten = nsEncodeAll ps) : restoreItems chunks = some ps := by
  obtain ⟨hi, hf⟩ := frames_split_regardless_of_chunking none ps chunks
    (fun p hp => ⟨hps p hp, rfl⟩) hc
  simp [restoreItems, hi, hf]

/-- **state_model_meets_spec.**  The state-file clause `stateSpec` as one statement over ALL files and chunkings: a file of
    canonical frames only is never refused, and when exactly one record is the applicable one its value arrives in the
    object, whatever the other records are (they do not touch the object: hypothesis `hother`). -/
theorem state_model_meets_spec (apply : Bytes → Option Nat) (good : Bytes) (want init : Nat) (file : Bytes) (chunks : List Bytes)
    (hc : chunks.flatten = file) (hgood : apply good = some want) (hother : ∀ p, p ≠ good → apply p = none) :
    stateSpec good want file (stateObsM apply init chunks) = none := by
  unfold stateSpec
  cases hs : specFramesAll (file.length + 1) file with
  | none => rfl
  | some ps =>
    obtain ⟨hfile, hps⟩ := specFramesAll_sound _ _ _ hs
    have hitems := restore_reads_all_frames ps chunks hps (by rw [hc, hfile])
    simp only [stateObsM, hitems, filterMap_apply_good apply good want hgood hother ps]
    by_cases h1 : (ps.filter (· == good)).length = 1
    · simp [h1]
    · cases (List.replicate (ps.filter (· == good)).length want).getLast? <;> simp [h1]

example : stateObsM (fun p => if p = asciiBytes "{}" then some 3 else none) 1 [asciiBytes "2:{},4:nu", asciiBytes "ll,"] = .ok 3 := by decide +kernel
example : stateObsM (fun _ => none) 1 [asciiBytes "2:{},4:nu", asciiBytes "ll;"] = .err := by decide +kernel
example : stateFileSpec (asciiBytes "2:{}") = some .writerFormat := by decide +kernel
example : stateFileSpec (asciiBytes "2:{},0:,") = none := by decide +kernel

/-- Every record DumpObjects wrote is decoded by RestoreObject to the dictionary it was made from. -/
theorem restore_decodes_dumped {N : Type} (c : NumCodec N) (hc : c.Lawful) : ∀ (recs : List (List (List Char × JValue N))),
    (∀ kvs ∈ recs, depth (.obj kvs : JValue N) ≤ jsonMaxNestingDepth) →
    (recs.map (fun kvs => jsonEncode c (.obj kvs))).filterMap (fun p => asDict (icingaDecodeL c p))
      = recs.map (fun kvs => canonV (.obj kvs)) := by
  intro recs
  induction recs with
  | nil => intro _; rfl
  | cons kvs r ih =>
    intro hrecs
    have h1 := (json_decode_encode_any c hc (.obj kvs) (hrecs kvs (by simp))).1
    have h2 : canonV (JValue.obj kvs : JValue N) = .obj (dictOfMembers (canonMembers kvs)) := by simp [canonV]
    have h3 : asDict (some (JValue.obj (dictOfMembers (canonMembers kvs)) : JValue N)) = some (.obj (dictOfMembers (canonMembers kvs))) := rfl
    simp only [List.map_cons, List.filterMap_cons, h1]
    rw [h2, h3]
    simp only
    rw [ih (fun k hk => hrecs k (by simp [hk]))]

/-- **state_file_roundtrip.**  "Every value placed in the state file is decoded by the receiver to an equal value … regardless
    of how the bytes arrive in chunks": for every lawful number codec, every list of records (dictionaries of any keys and
    values, nesting within the decoder's limit, encoded size below 10^9 — no other bound on the size of a record) and every
    chunking of the file DumpObjects writes for them, RestoreObjects hands exactly those dictionaries (as Icinga holds
    them: sorted maps) to the lookup, in order, none refused, none lost. -/
theorem state_file_roundtrip {N : Type} (c : NumCodec N) (hc : c.Lawful) (recs : List (List (List Char × JValue N)))
    (chunks : List Bytes)
    (hrecs : ∀ kvs ∈ recs, depth (.obj kvs : JValue N) ≤ jsonMaxNestingDepth ∧ (jsonEncode c (.obj kvs)).length < 10 ^ 9)
    (hch : chunks.flatten = dumpObjects c recs) :
    restoreObjectsM c chunks = some (recs.map (fun kvs => canonV (.obj kvs))) := by
  have hitems := restore_reads_all_frames (recs.map (fun kvs => jsonEncode c (.obj kvs))) chunks
    (by intro p hp; simp at hp; obtain ⟨kvs, hk, rfl⟩ := hp; exact (hrecs kvs hk).2) hch
  simp only [restoreObjectsM, hitems, Option.map_some]
  rw [restore_decodes_dumped c hc recs (fun k hk => (hrecs k hk).1)]

example : (restoreObjectsM intCodec [asciiBytes "7:{\"a\":", asciiBytes "1},2:{},4:null,"]).map (·.length) = some 2 := by decide +kernel
example : dumpObjects intCodec [[("a".toList, .num 1)], []] = asciiBytes "7:{\"a\":1},2:{}," := by decide +kernel
example : stateRoundtripSpec [(⟨2, 5, 5, ()⟩ : ObjState Unit)] none = some .stateRoundtrip := by decide
example : stateRoundtripSpec [(⟨2, 70000, 70000, ()⟩ : ObjState Unit)] (some [⟨1, 0, 0, ()⟩]) = some .stateRoundtrip := by decide
example : stateRoundtripSpec [(⟨2, 5, 5, ()⟩ : ObjState Unit)] (some [⟨2, 5, 5, ()⟩]) = none := by decide


/-! ## JsonEncoder::NumberFloat: which numbers go out as integer literals (IcingaModel/C20/Number.lean) -/

/-- **number_float_int_path.**  Whenever NumberFloat takes its integer path for a double (given by its bit pattern), the
    integer it prints IS the double's value (m·2^e2 = |n|·2^d2 for the double's mantissa/exponent decomposition), lies
    in [-2^63, 2^64) — the range in which the C++ conversions are defined —, and the literal it emits is read back by the
    decoder as exactly that integer: the integer path never changes a number.  (All other finite doubles go through the
    floating-point printer, the number codec's assumed law.) -/
theorem number_float_int_path (bits : Nat) (n : Int) (h : numberFloatInt bits = some n) :
    (b64Mag bits).1 * 2 ^ (b64Mag bits).2.1 = n.natAbs * 2 ^ (b64Mag bits).2.2
    ∧ -(2 ^ 63 : Int) ≤ n ∧ n < 2 ^ 64
    ∧ numberFloatText bits = some (intCodec.fmt n) ∧ intCodec.parse (intCodec.fmt n) = some n := by
  have hr := int_codec_lawful.roundtrip n
  unfold numberFloatInt at h
  cases hm : b64NatMag bits with
  | none => simp [hm] at h
  | some k =>
    have hex := b64NatMag_exact bits k hm
    simp only [hm] at h
    split at h
    · split at h
      · simp only [Option.some.injEq] at h
        subst h
        refine ⟨by simpa using hex, by omega, by omega, ?_, hr⟩
        simp [numberFloatText, numberFloatInt, *]
      · simp at h
    · split at h
      · simp only [Option.some.injEq] at h
        subst h
        refine ⟨by simpa using hex, by omega, by omega, ?_, hr⟩
        simp [numberFloatText, numberFloatInt, *]
      · simp at h

example : numberFloatInt 0x3ff8000000000000 = none := by decide +kernel          -- 1.5: the floating-point printer
example : numberFloatInt 0x8000000000000000 = some 0 := by decide +kernel        -- -0.0 prints as 0
example : numberFloatInt 0xc3e0000000000000 = some (-9223372036854775808) := by decide +kernel
example : numberFloatInt 0x43f0000000000000 = none := by decide +kernel          -- 2^64: out of range, not an integer literal
example : numberFloatInt 0x4415af1d78b58c40 = none := by decide +kernel          -- 1e20
example : numberFloatText 0x4340000000000001 = some (asciiBytes "9007199254740994") := by decide +kernel


/-! ## Buffered reader with a limit: the oversized frame (closes the over-limit branch of `framedSpec`) -/

/-- **frames_until_over_limit.**  A stream of valid frames followed by a frame whose declared length is over the caller's
    limit (and then anything at all): under EVERY chunking — also when a cut falls inside the oversized frame's length
    field — the read loop returns exactly the frames before it and then ends in the limit error; nothing of the
    oversized frame or behind it is ever returned. -/
theorem frames_until_over_limit (max : Option Nat) (ps : List Bytes) (q tail : Bytes) (chunks : List Bytes)
    (hps : ∀ p ∈ ps, p.length < 10 ^ 9 ∧ bufLimitExceeded max p.length = false)
    (hq : q.length < 10 ^ 9 ∧ bufLimitExceeded max q.length = true)
    (hc : chunks.flatten = nsEncodeAll ps ++ (nsEncode q ++ tail)) :
    (nsReadAll max chunks).items = ps ∧ (nsReadAll max chunks).final = .error .maxExceeded := by
  have he : nsEncode q ++ tail = natDigits q.length ++ colon :: (q ++ comma :: tail) := by simp [nsEncode]
  have := run_over max (runFuel {} chunks) [] true chunks [] 0 ps q.length (q ++ comma :: tail) hps hq.1 hq.2
    (by rw [← he]; simpa using hc)
    (by intro _; exact ⟨by intro p ps' _; have := nsEncode_length_ge p; simp; omega, by intro _; simp⟩)
    (by simp [runFuel])
  simpa [nsReadAll] using this

/-- **framed_model_meets_spec_full.**  `framed_model_meets_spec` without its hypothesis "every payload is within the
    limit": for every limit, EVERY list of payloads (each below 10^9 bytes) and every chunking of the stream the writer
    produces, the model's read loop satisfies the executable specification `framedSpec` — all payloads then end-of-file
    when all are within the limit, otherwise exactly the payloads before the first oversized one and then an error. -/
theorem framed_model_meets_spec_full (max : Option Nat) (ps : List Bytes) (chunks : List Bytes)
    (hps : ∀ p ∈ ps, p.length < 10 ^ 9) (hc : chunks.flatten = nsEncodeAll ps) :
    framedSpec max ps (nsEncodeAll ps) true (sobsOfRun (nsReadAll max chunks)) = none := by
  rcases acceptedPrefix_split max ps hps with hall | ⟨a, q, r, hsplit, ha, hq, hacc⟩
  · exact framed_model_meets_spec max ps chunks hall hc
  · have ha' : ∀ p ∈ a, p.length < 10 ^ 9 ∧ bufLimitExceeded max p.length = false := by
      intro p hp
      have := ha p hp
      simp [bufWithin] at this
      exact ⟨this.2, this.1⟩
    have henc : nsEncodeAll ps = nsEncodeAll a ++ (nsEncode q ++ nsEncodeAll r) := by
      rw [hsplit]
      clear hsplit hacc ha ha' hc hps
      induction a with
      | nil => simp [nsEncodeAll]
      | cons x xs ih => simp [nsEncodeAll, ih]
    obtain ⟨hi, hf⟩ := frames_until_over_limit max a q (nsEncodeAll r) chunks ha'
      ⟨hps q (by rw [hsplit]; simp), hq⟩ (by rw [hc, henc])
    have hobs : sobsOfRun (nsReadAll max chunks) = a.map SObs.item ++ [SObs.err] := by
      simp [sobsOfRun, hi, hf]
    rw [hobs]
    unfold framedSpec
    have h2 := itemsOf_items a [SObs.err]
    have h5 : (a.map SObs.item ++ [SObs.err]).getLast? = some SObs.err := by simp
    simp [hacc, h2, itemsOf, h5]

example : framedSpec (some 3) [[104, 105], [1, 2, 3, 4, 5], [7]] (nsEncodeAll [[104, 105], [1, 2, 3, 4, 5], [7]]) true
    (sobsOfRun (nsReadAll (some 3) [nsEncodeAll [[104, 105], [1, 2, 3, 4, 5], [7]]])) = none := by decide
example : (nsReadAll (some 3) [[50, 58, 104, 105, 44, 53], [58, 1, 2]]).final = .error .maxExceeded := by decide
example : framedSpec (some 3) [[104, 105], [1, 2, 3, 4, 5]] (nsEncodeAll [[104, 105], [1, 2, 3, 4, 5]]) true
    [.item [104, 105], .item [1, 2, 3, 4, 5], .eof] = some .framesSplit := by decide


end Icinga.C20

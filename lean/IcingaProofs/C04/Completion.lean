/-
  C04 — helper lemmas for `completion_always_possible`: a measure of the work left on one checkable's completion path, an enabled
  action of that path that decreases it, and the run to the end.
-/
import IcingaProofs.C04.Lemmas
namespace Icinga.C04

/-- work left on the completion path of one checkable: every helper / process action of that checkable decreases it -/
def Chk.work (x : Chk) : Nat := 6 * x.hq + 5 * x.hu + 4 * x.hx + 3 * x.hs + 2 * x.hr + x.hd + 2 * x.procs + x.pz

/-- the actions of the completion path of checkable `c`: guard, result, PluginCheckTask's `+1`, process exit and result, the
    helper's `-1` and final section -/
def Act.completes (c : Nat) : Act → Bool
  | .rearm c' _ _ => c' == c
  | .helperGuard c' => c' == c
  | .result c' => c' == c
  | .pluginInc c' => c' == c
  | .procExit c' => c' == c
  | .procResult c' => c' == c
  | .helperDec c' => c' == c
  | .helperFinish c' => c' == c
  | _ => false

theorem work_zero_settled (x : Chk) (h : x.work = 0) : x.settled = true := by
  unfold Chk.work at h
  have : x.hq = 0 ∧ x.hu = 0 ∧ x.hx = 0 ∧ x.hs = 0 ∧ x.hr = 0 ∧ x.hd = 0 ∧ x.procs = 0 ∧ x.pz = 0 := by omega
  obtain ⟨a, u, b, d, e, f, g, i⟩ := this
  simp [Chk.settled, Chk.helpers, a, u, b, d, e, f, g, i]

/-- some action of the completion path is enabled whenever work is left, and it decreases the work -/
theorem completion_step (s : St) (c : Nat) (hc : c < s.n) (hw : (s.chk c).work ≠ 0) :
    ∃ a s1, step s a = some s1 ∧ a.completes c = true ∧ s1.n = s.n ∧ (s1.chk c).work < (s.chk c).work := by
  by_cases hq : 0 < (s.chk c).hq
  · -- `ExecuteCheck`'s early UpdateNextCheck: the clock is not before the dispatch, the value after the clock
    refine ⟨.rearm c (s.chk c).dispatchedAt ((s.chk c).dispatchedAt + 1), s.upd c ((s.chk c).rearm ((s.chk c).dispatchedAt + 1)),
      by simp [step, hc, hq]; omega, by simp [Act.completes], rfl, ?_⟩
    simp only [St.upd, if_true, Chk.rearm, Chk.work]; omega
  by_cases hu : 0 < (s.chk c).hu
  · refine ⟨.helperGuard c, s.upd c (s.chk c).helperGuard, by simp [step, hc, hu], by simp [Act.completes], rfl, ?_⟩
    simp only [St.upd, if_true, Chk.helperGuard, Chk.work]; split <;> simp <;> omega
  by_cases hx : 0 < (s.chk c).hx
  · refine ⟨.result c, s.upd c (s.chk c).result, by simp [step, hc, hx], by simp [Act.completes], rfl, ?_⟩
    simp only [St.upd, if_true, Chk.result, Chk.work]; omega
  by_cases hs : 0 < (s.chk c).hs
  · refine ⟨.pluginInc c, { s.upd c (s.chk c).pluginInc with counter := s.counter + 1 }, by simp [step, hc, hs],
      by simp [Act.completes], rfl, ?_⟩
    simp only [St.upd, if_true, Chk.pluginInc, Chk.work]; omega
  by_cases hr : 0 < (s.chk c).hr
  · refine ⟨.helperDec c, { s.upd c (s.chk c).helperDec with counter := s.counter - 1 }, by simp [step, hc, hr],
      by simp [Act.completes], rfl, ?_⟩
    simp only [St.upd, if_true, Chk.helperDec, Chk.work]; omega
  by_cases hd : 0 < (s.chk c).hd
  · refine ⟨.helperFinish c, s.upd c (s.chk c).helperFinish, by simp [step, hc, hd], by simp [Act.completes], rfl, ?_⟩
    simp only [St.upd, if_true, Chk.helperFinish, Chk.idleInsert, Chk.work]
    split <;> (try split) <;> (try split) <;> simp <;> omega
  by_cases hp : 0 < (s.chk c).procs
  · refine ⟨.procExit c, { s.upd c (s.chk c).procExit with counter := s.counter - 1 }, by simp [step, hc, hp],
      by simp [Act.completes], rfl, ?_⟩
    simp only [St.upd, if_true, Chk.procExit, Chk.work]; omega
  have hz : 0 < (s.chk c).pz := by unfold Chk.work at hw; omega
  refine ⟨.procResult c, s.upd c (s.chk c).procResult, by simp [step, hc, hz], by simp [Act.completes], rfl, ?_⟩
  simp only [St.upd, if_true, Chk.procResult, Chk.work]; omega

theorem settle_exists (c : Nat) (k : Nat) : ∀ (s : St), c < s.n → (s.chk c).work ≤ k →
    ∃ acts s', run s acts = some s' ∧ (∀ a ∈ acts, a.completes c = true) ∧ (s'.chk c).settled = true := by
  induction k with
  | zero =>
    intro s _ hw
    exact ⟨[], s, rfl, by simp, work_zero_settled _ (by omega)⟩
  | succ k ih =>
    intro s hc hw
    by_cases h0 : (s.chk c).work = 0
    · exact ⟨[], s, rfl, by simp, work_zero_settled _ h0⟩
    · obtain ⟨a, s1, h1, ha, hn, hlt⟩ := completion_step s c hc h0
      obtain ⟨acts, s', hr, hall, hset⟩ := ih s1 (by omega) (by omega)
      refine ⟨a :: acts, s', by simp [run, h1, hr], ?_, hset⟩
      intro b hb
      rcases List.mem_cons.1 hb with rfl | hb
      · exact ha
      · exact hall b hb

theorem completes_not_passive (c : Nat) (a : Act) (h : a.completes c = true) : a.isPassive = false := by
  cases a <;> simp [Act.completes] at h <;> rfl

theorem run_append (s s1 s2 : St) (l1 l2 : List Act) (h1 : run s l1 = some s1) (h2 : run s1 l2 = some s2) :
    run s (l1 ++ l2) = some s2 := by
  induction l1 generalizing s with
  | nil => simp [run] at h1; subst h1; simpa using h2
  | cons a as ih =>
    simp only [run, List.cons_append] at h1 ⊢
    split at h1
    · rename_i s' hs'; exact ih s' h1
    · simp at h1

end Icinga.C04

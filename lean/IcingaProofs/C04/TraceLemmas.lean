/-
  C04 — lemmas for the whole-trace theorem: a simulation relation between the model state and the specification
  state (the list of checkables whose command is executing), preserved by every action, under which every
  observation the model emits passes the specification.
-/
import IcingaProofs.C04.Lemmas
import IcingaModel.C04.Trace

namespace Icinga.C04

/-! ### running the specification over a list of observations -/

def specRun (sp : SpecSt) (l : List Ev) : SpecSt := l.foldl specNext sp

theorem specTrace_append (sp : SpecSt) (l1 l2 : List Ev) (h1 : specTrace sp l1 = none)
    (h2 : specTrace (specRun sp l1) l2 = none) : specTrace sp (l1 ++ l2) = none := by
  induction l1 generalizing sp with
  | nil => simpa [specRun] using h2
  | cons e es ih =>
    simp only [List.cons_append, specTrace] at *
    split at h1
    · simp at h1
    · exact ih _ h1 (by simpa [specRun] using h2)

/-- observations that neither start nor end an execution -/
def Ev.quiet : Ev → Bool
  | .execStart _ => false
  | .execEnd _ => false
  | .opBegin _ => false
  | .authority _ _ => false
  | _ => true

theorem specNext_quiet (sp : SpecSt) (e : Ev) (h : e.quiet = true) : specNext sp e = sp := by
  cases e <;> simp [Ev.quiet] at h <;> rfl

theorem specTrace_quiet (sp : SpecSt) (l : List Ev) (h : ∀ e ∈ l, e.quiet = true ∧ specStep sp e = none) :
    specTrace sp l = none ∧ specRun sp l = sp := by
  induction l with
  | nil => exact ⟨rfl, rfl⟩
  | cons e es ih =>
    have he := h e List.mem_cons_self
    have ih' := ih (fun x hx => h x (List.mem_cons_of_mem _ hx))
    constructor
    · simp only [specTrace, he.2, specNext_quiet sp e he.1]; exact ih'.1
    · simp only [specRun, List.foldl, specNext_quiet sp e he.1]; exact ih'.2

/-! ### executions in progress after replacing one checkable -/

theorem executing_upd (s : St) (c : Nat) (x : Chk) (hc : c < s.n) :
    (s.upd c x).executing = s.executing - ((s.chk c).execs : Int) + (x.execs : Int) := by
  unfold St.executing
  exact sum_upd (fun y => (y.execs : Int)) s c x hc

/-! ### what the specification knows about responsibility -/

theorem getKnown_drop (k : List (Nat × Bool)) (c c' : Nat) :
    getKnown (dropKnown k c) c' = if c' = c then none else getKnown k c' := by
  induction k with
  | nil => simp [dropKnown, getKnown]
  | cons hd tl ih =>
    obtain ⟨a, b⟩ := hd
    simp only [dropKnown]
    by_cases hac : a = c
    · simp only [hac, if_true, ih]
      by_cases hcc : c' = c
      · simp [hcc]
      · have : ¬ c = c' := fun h => hcc h.symm
        simp [hcc, getKnown, this]
    · simp only [hac, if_false, getKnown, ih]
      by_cases hcc : c' = c
      · subst hcc; simp [hac]
      · simp [hcc]

/-- whatever the specification claims to know about a checkable is true of the model state: its handlers have run
    (`synced`) and it is schedulable exactly as claimed -/
def KRel (s : St) (sp : SpecSt) : Prop :=
  ∀ c b, getKnown sp.known c = some b → (s.chk c).synced = true ∧ (s.chk c).schedulable = b

/-- the checkable whose `active`/`paused` an action writes or whose handler it runs -/
def Act.authOf : Act → Option Nat
  | .setActive c _ => some c
  | .setPaused c _ => some c
  | .objectHandler c => some c
  | _ => none

/-- every other action leaves `synced` and `schedulable` of every checkable alone -/
theorem auth_step (s s' : St) (a : Act) (ha : a.authOf = none) (hs : step s a = some s') :
    ∀ c, (s'.chk c).synced = (s.chk c).synced ∧ (s'.chk c).schedulable = (s.chk c).schedulable := by
  have key : ∀ (c : Nat) (x : Chk), (x.synced = (s.chk c).synced ∧ x.schedulable = (s.chk c).schedulable) →
      ∀ i, ((s.upd c x).chk i).synced = (s.chk i).synced ∧ ((s.upd c x).chk i).schedulable = (s.chk i).schedulable := by
    intro c x hx i; simp only [St.upd]; split
    · subst_vars; exact hx
    · exact ⟨rfl, rfl⟩
  cases a with
  | setActive c b => simp [Act.authOf] at ha
  | setPaused c b => simp [Act.authOf] at ha
  | objectHandler c => simp [Act.authOf] at ha
  | setNextCheck c v =>
    simp only [step] at hs; split at hs <;> simp at hs; subst hs
    exact key c _ ⟨rfl, rfl⟩
  | ownResched c now v =>
    simp only [step] at hs; split at hs <;> simp at hs; subst hs
    exact key c _ ⟨rfl, rfl⟩
  | rearm c now v =>
    simp only [step] at hs; split at hs <;> simp at hs; subst hs
    exact key c _ ⟨rfl, rfl⟩
  | nextCheckChanged c =>
    simp only [step] at hs; split at hs <;> simp at hs; subst hs
    exact key c _ (by unfold Chk.nextCheckChanged Chk.schedulable; grind)
  | force c =>
    simp only [step] at hs; split at hs <;> simp at hs; subst hs
    exact key c _ ⟨rfl, rfl⟩
  | sched c now i =>
    simp only [step] at hs
    split at hs
    · split at hs
      · simp at hs; subst hs; exact key c _ ⟨rfl, rfl⟩
      · simp at hs; subst hs; exact key c _ ⟨rfl, rfl⟩
    · simp at hs
  | helperGuard c =>
    simp only [step] at hs; split at hs <;> simp at hs; subst hs
    exact key c _ (by unfold Chk.helperGuard Chk.schedulable; grind)
  | result c =>
    simp only [step] at hs; split at hs <;> simp at hs; subst hs
    exact key c _ ⟨rfl, rfl⟩
  | spawn c =>
    simp only [step] at hs; split at hs <;> simp at hs; subst hs
    exact key c _ ⟨rfl, rfl⟩
  | pluginInc c =>
    simp only [step] at hs; split at hs <;> simp at hs; subst hs
    exact key c _ ⟨rfl, rfl⟩
  | procExit c =>
    simp only [step] at hs; split at hs <;> simp at hs; subst hs
    exact key c _ ⟨rfl, rfl⟩
  | procResult c =>
    simp only [step] at hs; split at hs <;> simp at hs; subst hs
    exact key c _ ⟨rfl, rfl⟩
  | passiveResult c =>
    simp only [step] at hs; split at hs <;> simp at hs; subst hs
    exact key c _ ⟨rfl, rfl⟩
  | helperDec c =>
    simp only [step] at hs; split at hs <;> simp at hs; subst hs
    exact key c _ ⟨rfl, rfl⟩
  | helperFinish c =>
    simp only [step] at hs; split at hs <;> simp at hs; subst hs
    exact key c _ (by unfold Chk.helperFinish Chk.idleInsert Chk.schedulable; grind)

theorem krel_of_auth (s s' : St) (sp : SpecSt) (hk : KRel s sp)
    (h : ∀ c, (s'.chk c).synced = (s.chk c).synced ∧ (s'.chk c).schedulable = (s.chk c).schedulable) : KRel s' sp := by
  intro c b hb
  have := hk c b hb
  rw [(h c).1, (h c).2]; exact this

/-! ### the simulation relation -/

structure Rel (s : St) (sp : SpecSt) : Prop where
  inv : Inv s
  flight : ∀ c, FlightInv (s.chk c)
  rearm : ∀ c, RearmInv (s.chk c)
  max : sp.max = s.max
  nodup : sp.executing.Nodup
  mem : ∀ c, c ∈ sp.executing ↔ (s.chk c).execs = 1
  len : (sp.executing.length : Int) = s.executing

theorem rel_init (n : Nat) (max : Int) (hm : 0 ≤ max) : Rel (init n max) { max := max } := by
  refine ⟨inv_init n max hm, fun _ => by unfold FlightInv init; rfl, rearm_init n max, rfl, List.nodup_nil, ?_, ?_⟩
  · intro c; simp [init, Chk.execs]
  · show (0 : Int) = sumTo n (fun _ => ((({} : Chk)).execs : Int))
    have : ∀ k, sumTo k (fun _ => ((({} : Chk)).execs : Int)) = 0 := by
      intro k; induction k with
      | zero => rfl
      | succ k ih => simp only [sumTo, ih]; rfl
    rw [this]

/-- a `loc` observation of an invariant state passes, also against what the specification knows about the checkable -/
theorem loc_ok (s : St) (sp : SpecSt) (h : Inv s) (hk : KRel s sp) (c : Nat) :
    (locOf s c).quiet = true ∧ specStep sp (locOf s c) = none := by
  refine ⟨rfl, ?_⟩
  obtain ⟨h1, h2, _⟩ := h.1 c
  unfold locOf specStep
  cases hkn : getKnown sp.known c with
  | none =>
    cases hi : (s.chk c).inIdle <;> cases hp : (s.chk c).inPending <;> simp_all
  | some b =>
    obtain ⟨hs1, hs2⟩ := hk c b hkn
    have h2' := h2 hs1
    cases b <;> cases hi : (s.chk c).inIdle <;> cases hp : (s.chk c).inPending <;> simp_all

theorem rel_known_irrel (s : St) (sp : SpecSt) (k : List (Nat × Bool)) (h : Rel s sp) : Rel s { sp with known := k } :=
  ⟨h.inv, h.flight, h.rearm, h.max, h.nodup, h.mem, h.len⟩

/-- an action that changes no `execs` keeps the relation (the specification state does not move) -/
theorem rel_same_hx (s s' : St) (sp : SpecSt) (a : Act) (h : Rel s sp)
    (hs : step s a = some s') (hx : ∀ c, (s'.chk c).execs = (s.chk c).execs) (he : s'.executing = s.executing) :
    Rel s' sp :=
  ⟨inv_step s s' a h.inv hs, flight_step s s' a h.flight hs, rearm_step s s' a h.rearm hs, by rw [h.max, (step_n_max s s' a hs).2],
   h.nodup, fun c => by rw [hx c]; exact h.mem c, by rw [he]; exact h.len⟩

/-- replacing checkable `c` by a state with the same `hx` changes no `hx` and not the number of executions -/
theorem same_hx_upd (s : St) (c : Nat) (x : Chk) (hc : c < s.n) (hx : x.execs = (s.chk c).execs) :
    (∀ i, ((s.upd c x).chk i).execs = (s.chk i).execs) ∧ (s.upd c x).executing = s.executing := by
  constructor
  · intro i; simp only [St.upd]; split
    · subst_vars; exact hx
    · rfl
  · rw [executing_upd s c x hc, hx]; omega

theorem counter_nonneg (s : St) (h : Inv s) : 0 ≤ s.counter := by
  have h1 := slots_le_counter s h
  have h2 : 0 ≤ sumTo s.n (fun i => (s.chk i).slots) := sumTo_nonneg _ _ (fun i => by unfold Chk.slots; omega)
  omega

theorem executing_le_slots (s : St) : s.executing ≤ sumTo s.n (fun i => (s.chk i).slots) := by
  unfold St.executing
  exact sumTo_le _ _ _ (fun i => execs_le_slots _)

theorem executing_le_max (s : St) (h : Inv s) : s.executing ≤ s.max := by
  have := executing_le_slots s; have := h.2.2; omega

theorem result_ends (x : Chk) (hf : FlightInv x) (hx : 0 < x.hx) : x.execs = 1 ∧ x.result.execs = 0 := by
  unfold FlightInv at hf; unfold Chk.execs Chk.result
  cases hr : x.running <;> simp [hr] at hf ⊢ <;> omega

theorem procExit_ends (x : Chk) (hf : FlightInv x) (hp : 0 < x.procs) : x.execs = 1 ∧ x.procExit.execs = 0 := by
  unfold FlightInv at hf; unfold Chk.execs Chk.procExit
  cases hr : x.running <;> simp [hr] at hf ⊢ <;> omega

/-- an execution of `c` ends (`execs` 1 → 0): the `execEnd` observation passes and the relation holds for the list
    without `c`; stated for any state `s'` that differs from `s.upd c x` at most in the counter -/
theorem rel_exec_end (s : St) (sp : SpecSt) (c : Nat) (x : Chk) (hc : c < s.n) (h : Rel s sp) {s' : St}
    (hinv' : Inv s') (hfl' : ∀ i, FlightInv (s'.chk i)) (hre' : ∀ i, RearmInv (s'.chk i))
    (hold : (s.chk c).execs = 1) (hnew : x.execs = 0)
    (hchk : s'.chk = (s.upd c x).chk := by rfl) (hn : s'.n = s.n := by rfl) (hmx : s'.max = s.max := by rfl) :
    specTrace sp [Ev.execEnd c] = none ∧ Rel s' (specRun sp [Ev.execEnd c]) := by
  have hmem : c ∈ sp.executing := (h.mem c).2 hold
  have hex' : s'.executing = s.executing - 1 := by
    have : s'.executing = (s.upd c x).executing := by unfold St.executing; rw [hchk, hn]; rfl
    rw [this, executing_upd s c _ hc, hnew, hold]; omega
  constructor
  · simp [specTrace, specStep, hmem]
  · simp only [specRun, List.foldl, specNext]
    refine ⟨hinv', hfl', hre', (by show sp.max = s'.max; rw [hmx]; exact h.max), h.nodup.erase c, ?_, ?_⟩
    · intro i
      rw [h.nodup.mem_erase_iff, hchk]
      simp only [St.upd]
      by_cases hic : i = c
      · subst hic; simp [hnew]
      · simp [hic]; exact h.mem i
    · show ((sp.executing.erase c).length : Int) = s'.executing
      rw [List.length_erase_of_mem hmem, hex']
      have hpos : 0 < sp.executing.length := List.length_pos_of_mem hmem
      have := h.len
      omega

theorem krel_objectHandler (s : St) (sp : SpecSt) (c : Nat) (hk : KRel s sp) :
    KRel (s.upd c (s.chk c).objectHandler)
      { sp with known := (c, ((s.upd c (s.chk c).objectHandler).chk c).schedulable) :: dropKnown sp.known c } := by
  intro i b hb
  simp only [getKnown] at hb
  by_cases hic : c = i
  · subst hic
    simp at hb; subst hb
    refine ⟨?_, rfl⟩
    simp only [St.upd, if_true]
    unfold Chk.objectHandler Chk.idleInsert; grind
  · simp only [hic, if_false, getKnown_drop] at hb
    have hic' : ¬ i = c := fun h => hic h.symm
    simp only [hic', if_false] at hb
    have := hk i b hb
    simp only [St.upd, hic', if_false]; exact this

theorem krel_write (s : St) (sp : SpecSt) (c : Nat) (x : Chk) (hk : KRel s sp) :
    KRel (s.upd c x) { sp with known := dropKnown sp.known c } := by
  intro i b hb
  simp only [getKnown_drop] at hb
  by_cases hic : i = c
  · simp [hic] at hb
  · simp only [hic, if_false] at hb
    have := hk i b hb
    simp only [St.upd, hic, if_false]; exact this

/-- the scheduler's decision, as the model takes it from the recorded facts, satisfies the three decision clauses: a forced
    check is never skipped, an eligible one is never skipped, an ineligible unforced one is never executed -/
theorem decision_ok (sp : SpecSt) (c : Nat) (f : Bool) (i : SkipIn) :
    specStep sp (Ev.decision c f (Chk.skipsIn f i)
      (eligible i.isService i.own i.hostChecks i.svcChecks i.inPeriod i.depOk)) = none := by
  obtain ⟨a, b, d, e, g, h⟩ := i
  cases f <;> cases a <;> cases b <;> cases d <;> cases e <;> cases g <;> cases h <;> rfl

/-- **one step**: the observations of an enabled action pass the specification and the relation
    is re-established for the specification state after them. -/
theorem rel_step (s s' : St) (sp : SpecSt) (a : Act) (h : Rel s sp) (hk : KRel s sp)
    (hs : step s a = some s') :
    specTrace sp (obsStep s a s') = none ∧ Rel s' (specRun sp (obsStep s a s')) := by
  have hinv' := inv_step s s' a h.inv hs
  have hk' : a.authOf = none → KRel s' sp := fun ha => krel_of_auth s s' sp hk (auth_step s s' a ha hs)
  -- the quiet cases: all observations are quiet and pass, `hx` is untouched
  have quiet : (∀ c, (s'.chk c).execs = (s.chk c).execs) → s'.executing = s.executing →
      (∀ e ∈ obsStep s a s', e.quiet = true ∧ specStep sp e = none) →
      specTrace sp (obsStep s a s') = none ∧ Rel s' (specRun sp (obsStep s a s')) := by
    intro hx he hq
    have := specTrace_quiet sp _ hq
    exact ⟨this.1, by rw [this.2]; exact rel_same_hx s s' sp a h hs hx he⟩
  cases a with
  | setActive c b =>
    have hs0 := hs
    simp only [step] at hs; split at hs <;> simp at hs; subst hs
    have := same_hx_upd s c ((s.chk c).setActive b) (by assumption) rfl
    exact ⟨by simp [obsStep, specTrace, specStep],
      rel_known_irrel _ _ _ (rel_same_hx s _ sp _ h hs0 this.1 this.2)⟩
  | setPaused c b =>
    have hs0 := hs
    simp only [step] at hs; split at hs <;> simp at hs; subst hs
    have := same_hx_upd s c ((s.chk c).setPaused b) (by assumption) rfl
    exact ⟨by simp [obsStep, specTrace, specStep],
      rel_known_irrel _ _ _ (rel_same_hx s _ sp _ h hs0 this.1 this.2)⟩
  | objectHandler c =>
    have hs0 := hs
    simp only [step] at hs; split at hs <;> simp at hs; subst hs
    have := same_hx_upd s c (s.chk c).objectHandler (by assumption)
      (by unfold Chk.execs Chk.objectHandler Chk.idleInsert; grind)
    have hrel : Rel (s.upd c (s.chk c).objectHandler) sp := rel_same_hx s _ sp _ h hs0 this.1 this.2
    -- after the handler the specification knows `c`'s responsibility; the membership it then sees agrees with it
    have hk1 := krel_objectHandler s sp c hk
    have hloc := loc_ok (s.upd c (s.chk c).objectHandler)
      { sp with known := (c, ((s.upd c (s.chk c).objectHandler).chk c).schedulable) :: dropKnown sp.known c } hinv' hk1 c
    have hq := specTrace_quiet
      { sp with known := (c, ((s.upd c (s.chk c).objectHandler).chk c).schedulable) :: dropKnown sp.known c }
      [locOf (s.upd c (s.chk c).objectHandler) c] (by intro e he; simp at he; subst he; exact hloc)
    constructor
    · show specTrace sp ([Ev.authority c ((s.upd c (s.chk c).objectHandler).chk c).schedulable] ++
        [locOf (s.upd c (s.chk c).objectHandler) c]) = none
      exact specTrace_append sp _ _ (by simp [specTrace, specStep]) hq.1
    · show Rel _ (specRun sp ([Ev.authority c ((s.upd c (s.chk c).objectHandler).chk c).schedulable] ++
        [locOf (s.upd c (s.chk c).objectHandler) c]))
      unfold specRun at hq ⊢
      rw [List.foldl_append]
      show Rel _ (List.foldl specNext _ [locOf (s.upd c (s.chk c).objectHandler) c])
      rw [show List.foldl specNext (List.foldl specNext sp [Ev.authority c ((s.upd c (s.chk c).objectHandler).chk c).schedulable])
        [locOf (s.upd c (s.chk c).objectHandler) c] = _ from hq.2]
      exact rel_known_irrel _ _ _ hrel
  | setNextCheck c v =>
    have hs0 := hs
    simp only [step] at hs; split at hs <;> simp at hs; subst hs
    have := same_hx_upd s c ((s.chk c).setNextCheck v) (by assumption) rfl
    exact quiet this.1 this.2 (by simp [obsStep])
  | ownResched c now v =>
    have hs0 := hs
    simp only [step] at hs; split at hs <;> simp at hs; subst hs
    rename_i hg
    have := same_hx_upd s c ((s.chk c).ownResched v) hg.1 rfl
    exact quiet this.1 this.2 (by simp [obsStep])
  | rearm c now v =>
    have hs0 := hs
    simp only [step] at hs; split at hs <;> simp at hs; subst hs
    rename_i hg
    have := same_hx_upd s c ((s.chk c).rearm v) hg.1 rfl
    exact quiet this.1 this.2 (by simp [obsStep])
  | nextCheckChanged c =>
    have hs0 := hs
    simp only [step] at hs; split at hs <;> simp at hs; subst hs
    have := same_hx_upd s c (s.chk c).nextCheckChanged (by assumption)
      (by unfold Chk.execs Chk.nextCheckChanged; grind)
    refine quiet this.1 this.2 ?_
    intro e he; simp only [obsStep, List.mem_singleton] at he; subst he
    exact loc_ok _ sp hinv' (hk' rfl) c
  | force c =>
    have hs0 := hs
    simp only [step] at hs; split at hs <;> simp at hs; subst hs
    have := same_hx_upd s c (s.chk c).force (by assumption) rfl
    exact quiet this.1 this.2 (by simp [obsStep])
  | sched c now i =>
    have hs0 := hs
    simp only [step] at hs
    split at hs
    · rename_i hen
      obtain ⟨hc, hidle, _, hcnt, _⟩ := hen
      have hnn := counter_nonneg s h.inv
      split at hs
      · rename_i hsk
        simp at hs; subst hs
        have := same_hx_upd s c (s.chk c).skip hc rfl
        refine quiet this.1 this.2 ?_
        intro ev hev
        simp only [obsStep, hsk, if_true, List.nil_append, List.mem_cons, List.mem_nil_iff, or_false] at hev
        rcases hev with rfl | rfl
        · refine ⟨rfl, ?_⟩
          have hd := decision_ok sp c (s.chk c).forced i
          rw [hsk] at hd; exact hd
        · exact loc_ok _ sp hinv' (hk' rfl) c
      · rename_i hsk
        simp at hs; subst hs
        have hsame := same_hx_upd s c ((s.chk c).pick now) hc rfl
        have hx' : ∀ i, (({ s.upd c ((s.chk c).pick now) with counter := s.counter + 1 } : St).chk i).execs = (s.chk i).execs := hsame.1
        have he' : ({ s.upd c ((s.chk c).pick now) with counter := s.counter + 1 } : St).executing = s.executing := hsame.2
        refine quiet hx' he' ?_
        intro ev hev
        have hsk' : Chk.skipsIn (s.chk c).forced i = false := by simpa using hsk
        simp only [obsStep, hsk', Bool.false_eq_true, if_false, List.cons_append, List.nil_append, List.mem_cons,
          List.mem_nil_iff, or_false] at hev
        rcases hev with rfl | rfl | rfl
        · refine ⟨rfl, ?_⟩
          simp [specStep, hnn, hcnt]
        · refine ⟨rfl, ?_⟩
          have hd := decision_ok sp c (s.chk c).forced i
          rw [hsk'] at hd; exact hd
        · exact loc_ok _ sp hinv' (hk' rfl) c
    · simp at hs
  | helperGuard c =>
    have hs0 := hs
    simp only [step] at hs; split at hs <;> simp at hs; subst hs
    rename_i hg
    have hfl := h.flight c
    unfold FlightInv at hfl
    cases hrun : (s.chk c).running
    · -- the guard succeeds: an execution starts
      rw [hrun] at hfl; simp at hfl
      have hold : (s.chk c).execs = 0 := by unfold Chk.execs; omega
      have hxnew : ((s.chk c).helperGuard).execs = 1 := by
        unfold Chk.helperGuard Chk.execs; simp [hrun]; omega
      have hnotmem : c ∉ sp.executing := by
        intro hm; have := (h.mem c).1 hm; omega
      have hex' : (s.upd c (s.chk c).helperGuard).executing = s.executing + 1 := by
        rw [executing_upd s c _ hg.1, hxnew, hold]; omega
      have hbound : (s.upd c (s.chk c).helperGuard).executing ≤ s.max := executing_le_max _ hinv'
      have hlen := h.len
      constructor
      · simp only [obsStep, hrun, Bool.false_eq_true, if_false, specTrace, specStep]
        have : sp.executing.contains c = false := by simpa using hnotmem
        rw [this]
        simp only [Bool.false_eq_true, if_false]
        have hle : ¬ (sp.max < (sp.executing.length : Int) + 1) := by
          rw [h.max]; omega
        simp [hle]
      · simp only [obsStep, hrun, Bool.false_eq_true, if_false, specRun, List.foldl, specNext]
        refine ⟨hinv', flight_step s _ _ h.flight hs0, rearm_step s _ _ h.rearm hs0, (by show sp.max = s.max; exact h.max), ?_, ?_, ?_⟩
        · exact List.nodup_cons.2 ⟨hnotmem, h.nodup⟩
        · intro i
          simp only [List.mem_cons, St.upd]
          by_cases hic : i = c
          · subst hic; simp [hxnew]
          · simp [hic]; exact h.mem i
        · simp only [List.length_cons]; push_cast; rw [hex']; omega
    · -- busy: the helper returns, nothing starts
      have := same_hx_upd s c (s.chk c).helperGuard hg.1 (by unfold Chk.helperGuard Chk.execs; simp [hrun])
      exact quiet this.1 this.2 (by simp [obsStep, hrun])
  | result c =>
    have hs0 := hs
    simp only [step] at hs; split at hs <;> simp at hs; subst hs
    rename_i hg
    have he := result_ends _ (h.flight c) hg.2
    exact rel_exec_end s sp c (s.chk c).result hg.1 h hinv' (flight_step s _ _ h.flight hs0) (rearm_step s _ _ h.rearm hs0) he.1 he.2
  | spawn c =>
    have hs0 := hs
    simp only [step] at hs; split at hs <;> simp at hs; subst hs
    rename_i hg
    have := same_hx_upd s c (s.chk c).spawn hg.1 (by have := hg.2; unfold Chk.spawn Chk.execs; simp; omega)
    exact quiet this.1 this.2 (by simp [obsStep])
  | pluginInc c =>
    have hs0 := hs
    simp only [step] at hs; split at hs <;> simp at hs; subst hs
    rename_i hg
    have hsame := same_hx_upd s c (s.chk c).pluginInc hg.1 rfl
    have hx' : ∀ i, (({ s.upd c (s.chk c).pluginInc with counter := s.counter + 1 } : St).chk i).execs = (s.chk i).execs := hsame.1
    have he' : ({ s.upd c (s.chk c).pluginInc with counter := s.counter + 1 } : St).executing = s.executing := hsame.2
    exact quiet hx' he' (by simp [obsStep])
  | procExit c =>
    have hs0 := hs
    simp only [step] at hs; split at hs <;> simp at hs; subst hs
    rename_i hg
    have he := procExit_ends _ (h.flight c) hg.2
    exact rel_exec_end s sp c (s.chk c).procExit hg.1 h hinv' (flight_step s _ _ h.flight hs0) (rearm_step s _ _ h.rearm hs0) he.1 he.2
  | procResult c =>
    have hs0 := hs
    simp only [step] at hs; split at hs <;> simp at hs; subst hs
    rename_i hg
    have := same_hx_upd s c (s.chk c).procResult hg.1 rfl
    exact quiet this.1 this.2 (by simp [obsStep])
  | passiveResult c =>
    have hs0 := hs
    simp only [step] at hs; split at hs <;> simp at hs; subst hs
    have := same_hx_upd s c (s.chk c).passiveResult (by assumption) rfl
    exact quiet this.1 this.2 (by simp [obsStep])
  | helperDec c =>
    have hs0 := hs
    simp only [step] at hs; split at hs <;> simp at hs; subst hs
    rename_i hg
    have hsame := same_hx_upd s c (s.chk c).helperDec hg.1 rfl
    have hx' : ∀ i, (({ s.upd c (s.chk c).helperDec with counter := s.counter - 1 } : St).chk i).execs = (s.chk i).execs := hsame.1
    have he' : ({ s.upd c (s.chk c).helperDec with counter := s.counter - 1 } : St).executing = s.executing := hsame.2
    refine quiet hx' he' ?_
    intro e he
    simp only [obsStep] at he
    split at he
    · simp at he
    · rename_i hfor
      simp only [List.mem_singleton] at he; subst he
      refine ⟨rfl, ?_⟩
      -- the helper has passed the early UpdateNextCheck and nobody interfered: next_check lies after the dispatch
      have hre := h.rearm c
      unfold RearmInv at hre
      have hlt : (s.chk c).dispatchedAt < (s.chk c).nextCheck := hre (by simpa using hfor) (by have := hg.2; omega)
      simp [specStep, hlt]
  | helperFinish c =>
    have hs0 := hs
    simp only [step] at hs; split at hs <;> simp at hs; subst hs
    rename_i hg
    have := same_hx_upd s c (s.chk c).helperFinish hg.1
      (by unfold Chk.execs Chk.helperFinish Chk.idleInsert; grind)
    refine quiet this.1 this.2 ?_
    intro e he; simp only [obsStep, List.mem_singleton] at he; subst he
    exact loc_ok _ sp hinv' (hk' rfl) c

/-! ### the knowledge relation along a step -/

def Ev.keepsKnown : Ev → Bool
  | .opBegin _ => false
  | .authority _ _ => false
  | _ => true

theorem specRun_known (sp : SpecSt) (l : List Ev) (h : ∀ e ∈ l, e.keepsKnown = true) :
    (specRun sp l).known = sp.known := by
  induction l generalizing sp with
  | nil => rfl
  | cons e es ih =>
    have he := h e List.mem_cons_self
    have : (specNext sp e).known = sp.known := by
      cases e <;> simp [Ev.keepsKnown] at he <;> rfl
    simp only [specRun, List.foldl]
    have := ih (specNext sp e) (fun x hx => h x (List.mem_cons_of_mem _ hx))
    simp only [specRun] at this
    rw [this]; assumption

theorem obs_keepsKnown (s s' : St) (a : Act) (ha : a.authOf = none) : ∀ e ∈ obsStep s a s', e.keepsKnown = true := by
  intro e he
  cases a <;> simp only [Act.authOf] at ha <;> simp only [obsStep, locOf] at he
  all_goals (try split at he)
  all_goals (try split at he)
  all_goals simp at he
  all_goals (try (rcases he with rfl | rfl | rfl))
  all_goals (try (rcases he with rfl | rfl))
  all_goals (try subst he)
  all_goals first | rfl | (simp at ha)

theorem krel_known_eq (s : St) (sp sp' : SpecSt) (h : KRel s sp) (hk : sp'.known = sp.known) : KRel s sp' := by
  intro c b hb; rw [hk] at hb; exact h c b hb

theorem krel_step (s s' : St) (sp : SpecSt) (a : Act) (hk : KRel s sp) (hs : step s a = some s') :
    KRel s' (specRun sp (obsStep s a s')) := by
  cases hauth : a.authOf with
  | none =>
    exact krel_known_eq s' sp _ (krel_of_auth s s' sp hk (auth_step s s' a hauth hs))
      (specRun_known sp _ (obs_keepsKnown s s' a hauth))
  | some c0 =>
    cases a with
    | setActive c b =>
      simp only [step] at hs; split at hs <;> simp at hs; subst hs
      exact krel_write s sp c _ hk
    | setPaused c b =>
      simp only [step] at hs; split at hs <;> simp at hs; subst hs
      exact krel_write s sp c _ hk
    | objectHandler c =>
      simp only [step] at hs; split at hs <;> simp at hs; subst hs
      have h1 := krel_objectHandler s sp c hk
      refine krel_known_eq _ _ _ h1 ?_
      show (specRun sp ([Ev.authority c ((s.upd c (s.chk c).objectHandler).chk c).schedulable] ++
        [locOf (s.upd c (s.chk c).objectHandler) c])).known = _
      unfold specRun
      rw [List.foldl_append]
      exact specRun_known _ [locOf (s.upd c (s.chk c).objectHandler) c] (by intro e he; simp at he; subst he; rfl)
    | _ => simp [Act.authOf] at hauth

theorem sumTo_zero (n : Nat) (f : Nat → Int) (h : ∀ i, i < n → f i = 0) : sumTo n f = 0 := by
  induction n with
  | zero => rfl
  | succ k ih => simp only [sumTo]; rw [ih (fun i hi => h i (by omega)), h k (by omega)]; rfl

/-- a checkable with nothing in flight holds no unit of the counter -/
theorem settled_units (x : Chk) (h : ChkInv x) (hs : x.settled = true) : x.units = 0 := by
  unfold Chk.settled Chk.helpers at hs
  unfold ChkInv at h
  unfold Chk.units
  simp only [Bool.and_eq_true, beq_iff_eq] at hs
  obtain ⟨⟨h1, h2⟩, _⟩ := hs
  have := h.2.2.2.1
  omega

/-- when nothing is in flight anywhere, every concurrency slot has been given back -/
theorem settled_counter (s : St) (h : Inv s) (hs : s.settled = true) : s.counter = 0 := by
  rw [h.2.1]
  apply sumTo_zero
  intro i hi
  unfold St.settled at hs
  rw [List.all_eq_true] at hs
  exact settled_units _ (h.1 i) (hs i (List.mem_range.2 hi))

/-- the quiescent snapshot of an invariant state passes -/
theorem quiescent_ok (s : St) (sp : SpecSt) (h : Inv s) : specTrace sp (quiescentObs s) = none := by
  refine (specTrace_quiet sp _ ?_).1
  intro e he
  simp only [quiescentObs, List.mem_append, List.mem_filterMap, List.mem_range] at he
  rcases he with he | he
  · obtain ⟨c, _, hc⟩ := he
    split at hc
    · rename_i hsync
      simp at hc; subst hc
      refine ⟨rfl, ?_⟩
      obtain ⟨h1, h2, h3, _, h5⟩ := h.1 c
      simp only [Bool.and_eq_true, beq_iff_eq] at hsync
      have h2' := h2 hsync.1.1
      have h3' := h3 hsync.1.2
      have hnp : (s.chk c).inPending = false := by
        cases hp : (s.chk c).inPending
        · rfl
        · have := h5 hp; unfold Chk.helpers at hsync; omega
      unfold specStep
      cases hi : (s.chk c).inIdle <;> cases hsc : (s.chk c).schedulable <;> simp_all
    · simp at hc
  · split at he
    · rename_i hset
      simp at he; subst he
      refine ⟨rfl, ?_⟩
      simp [specStep, settled_counter s h hset]
    · simp at he

theorem rel_run (acts : List Act) (s : St) (sp : SpecSt) (tr : List Ev) (h : Rel s sp) (hk : KRel s sp)
    (ht : traceOf s acts = some tr) : specTrace sp tr = none := by
  induction acts generalizing s sp tr with
  | nil =>
    simp only [traceOf, Option.some.injEq] at ht; subst ht
    exact quiescent_ok s sp h.inv
  | cons a as ih =>
    simp only [traceOf] at ht
    split at ht
    · rename_i s1 hs1
      cases hrest : traceOf s1 as with
      | none => simp [hrest] at ht
      | some tr1 =>
        simp [hrest] at ht; subst ht
        have hstep := rel_step s s1 sp a h hk hs1
        exact specTrace_append sp _ _ hstep.1
          (ih s1 _ tr1 hstep.2 (krel_step s s1 sp a hk hs1) hrest)
    · simp at ht

end Icinga.C04

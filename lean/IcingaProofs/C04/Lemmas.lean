/-
  C04 — helper lemmas: the per-checkable invariants are preserved by every local transition, the counter
  equals the units held by helpers, and both lift to every run of the transition system.
-/
import IcingaModel.C04.Model

namespace Icinga.C04

/-- Per-checkable invariant: never in both sets; once an ObjectHandler has run after the last write of
    active/paused, "schedulable" and "in one of the sets" coincide; once a NextCheckChangedHandler has run
    after the last write of next_check, the idle key is the attribute; and PluginCheckTask's bookkeeping:
    running processes = helpers between spawn and `+1`, plus the outstanding balance of `+1`/`-1`; and a checkable in
    the pending set has a dispatched helper that has not passed its final section yet (which will take it out again). -/
def ChkInv (x : Chk) : Prop :=
  ¬(x.inIdle = true ∧ x.inPending = true) ∧
  (x.synced = true → (x.schedulable = true ↔ (x.inIdle = true ∨ x.inPending = true))) ∧
  (x.keySynced = true → x.inIdle = true → x.idleKey = x.nextCheck) ∧
  (x.procs : Int) = (x.hs : Int) + x.pbal ∧
  (x.inPending = true → 0 < x.hq + x.hu + x.hx + x.hs + x.hr + x.hd)

/-- Single-flight invariant: command bodies, running processes and finished processes whose result is still on its
    way — together 1 iff `m_CheckRunning`, else 0. -/
def FlightInv (x : Chk) : Prop := x.hx + x.procs + x.pz = if x.running then 1 else 0

/-- Re-arming invariant: while an execution attempt that has passed `ExecuteCheck`'s early `UpdateNextCheck()` is outstanding and no
    outside party has written `next_check` since the (earliest outstanding) dispatch, `next_check` lies after that dispatch. -/
def RearmInv (x : Chk) : Prop :=
  x.foreign = false → 0 < x.hu + x.hx + x.hs + x.hr + x.hd → x.dispatchedAt < x.nextCheck

/-- Global invariant: per-checkable invariants, the counter is the sum of the units held, and the slots in use
    (helpers that may still start something or run a command body, plus running processes) never exceed
    `max_concurrent_checks`. -/
def Inv (s : St) : Prop :=
  (∀ c, ChkInv (s.chk c)) ∧ s.counter = sumTo s.n (fun i => (s.chk i).units) ∧
  sumTo s.n (fun i => (s.chk i).slots) ≤ s.max

/-! ### local transitions: invariant, units (`m_PendingChecks`) and slots -/

theorem chkInv_default : ChkInv {} := by
  unfold ChkInv Chk.schedulable; decide

/-- what a local transition does: keeps the invariant, changes the units by `du`, does not increase the slots -/
def Keeps (x y : Chk) (du : Int) : Prop := ChkInv y ∧ y.units = x.units + du ∧ y.slots ≤ x.slots

theorem keeps_setActive (x : Chk) (b : Bool) (h : ChkInv x) : Keeps x (x.setActive b) 0 := by
  unfold Keeps ChkInv Chk.setActive Chk.schedulable Chk.units Chk.slots at *; grind

theorem keeps_setPaused (x : Chk) (b : Bool) (h : ChkInv x) : Keeps x (x.setPaused b) 0 := by
  unfold Keeps ChkInv Chk.setPaused Chk.schedulable Chk.units Chk.slots at *; grind

theorem keeps_objectHandler (x : Chk) (h : ChkInv x) : Keeps x x.objectHandler 0 := by
  unfold Keeps ChkInv Chk.objectHandler Chk.idleInsert Chk.schedulable Chk.units Chk.slots at *; grind

theorem keeps_setNextCheck (x : Chk) (v : Int) (h : ChkInv x) : Keeps x (x.setNextCheck v) 0 := by
  unfold Keeps ChkInv Chk.setNextCheck Chk.schedulable Chk.units Chk.slots at *; grind

theorem keeps_ownResched (x : Chk) (v : Int) (h : ChkInv x) : Keeps x (x.ownResched v) 0 := by
  unfold Keeps ChkInv Chk.ownResched Chk.schedulable Chk.units Chk.slots at *; grind

theorem keeps_rearm (x : Chk) (v : Int) (hq : 0 < x.hq) (h : ChkInv x) : Keeps x (x.rearm v) 0 := by
  unfold Keeps ChkInv Chk.rearm Chk.schedulable Chk.units Chk.slots at *; grind

theorem keeps_nextCheckChanged (x : Chk) (h : ChkInv x) : Keeps x x.nextCheckChanged 0 := by
  unfold Keeps ChkInv Chk.nextCheckChanged Chk.schedulable Chk.units Chk.slots at *; grind

theorem keeps_force (x : Chk) (h : ChkInv x) : Keeps x x.force 0 := by
  unfold Keeps ChkInv Chk.force Chk.schedulable Chk.units Chk.slots at *; grind

theorem keeps_skip (x : Chk) (hi : x.inIdle = true) (h : ChkInv x) : Keeps x x.skip 0 := by
  unfold Keeps ChkInv Chk.skip Chk.schedulable Chk.units Chk.slots at *; grind

/-- the dispatch is the one transition that takes a slot -/
theorem pick_facts (x : Chk) (now : Int) (hi : x.inIdle = true) (h : ChkInv x) :
    ChkInv (x.pick now) ∧ (x.pick now).units = x.units + 1 ∧ (x.pick now).slots = x.slots + 1 := by
  unfold ChkInv Chk.pick Chk.schedulable Chk.units Chk.slots at *; grind

theorem keeps_helperGuard (x : Chk) (hq : 0 < x.hu) (h : ChkInv x) : Keeps x x.helperGuard 0 := by
  unfold Keeps ChkInv Chk.helperGuard Chk.schedulable Chk.units Chk.slots at *; grind

theorem keeps_result (x : Chk) (hx : 0 < x.hx) (h : ChkInv x) : Keeps x x.result 0 := by
  unfold Keeps ChkInv Chk.result Chk.schedulable Chk.units Chk.slots at *; grind

theorem keeps_spawn (x : Chk) (hx : 0 < x.hx) (h : ChkInv x) : Keeps x x.spawn 0 := by
  unfold Keeps ChkInv Chk.spawn Chk.schedulable Chk.units Chk.slots at *; grind

theorem keeps_pluginInc (x : Chk) (hs : 0 < x.hs) (h : ChkInv x) : Keeps x x.pluginInc 1 := by
  unfold Keeps ChkInv Chk.pluginInc Chk.schedulable Chk.units Chk.slots at *; grind

theorem keeps_procExit (x : Chk) (hp : 0 < x.procs) (h : ChkInv x) : Keeps x x.procExit (-1) := by
  unfold Keeps ChkInv Chk.procExit Chk.schedulable Chk.units Chk.slots at *; grind

theorem keeps_procResult (x : Chk) (h : ChkInv x) : Keeps x x.procResult 0 := by
  unfold Keeps ChkInv Chk.procResult Chk.schedulable Chk.units Chk.slots at *; grind

theorem keeps_passiveResult (x : Chk) (h : ChkInv x) : Keeps x x.passiveResult 0 := by
  unfold Keeps ChkInv Chk.passiveResult Chk.schedulable Chk.units Chk.slots at *; grind

theorem keeps_helperDec (x : Chk) (hr : 0 < x.hr) (h : ChkInv x) : Keeps x x.helperDec (-1) := by
  unfold Keeps ChkInv Chk.helperDec Chk.schedulable Chk.units Chk.slots at *; grind

theorem keeps_helperFinish (x : Chk) (h : ChkInv x) : Keeps x x.helperFinish 0 := by
  unfold Keeps ChkInv Chk.helperFinish Chk.idleInsert Chk.schedulable Chk.units Chk.slots at *; grind

/-- every slot in use holds a unit of the counter -/
theorem slots_le_units (x : Chk) (h : ChkInv x) : x.slots ≤ x.units := by
  unfold ChkInv Chk.units Chk.slots at *; grind

/-- every running execution occupies a slot -/
theorem execs_le_slots (x : Chk) : (x.execs : Int) ≤ x.slots := by
  unfold Chk.execs Chk.slots; omega

/-! ### sums -/

theorem sumTo_congr (n : Nat) (f g : Nat → Int) (h : ∀ i, i < n → f i = g i) : sumTo n f = sumTo n g := by
  induction n with
  | zero => rfl
  | succ k ih =>
    simp only [sumTo]
    rw [ih (fun i hi => h i (by omega)), h k (by omega)]

theorem sumTo_update (n : Nat) (f : Nat → Int) (c : Nat) (v : Int) (hc : c < n) :
    sumTo n (fun i => if i = c then v else f i) = sumTo n f - f c + v := by
  induction n with
  | zero => omega
  | succ k ih =>
    simp only [sumTo]
    by_cases hk : k = c
    · subst hk
      have : sumTo k (fun i => if i = k then v else f i) = sumTo k f :=
        sumTo_congr k _ _ (fun i hi => by simp; omega)
      rw [this]; simp <;> omega
    · have hc' : c < k := by omega
      rw [ih hc']; simp [hk]; omega

theorem sumTo_le (n : Nat) (f g : Nat → Int) (h : ∀ i, f i ≤ g i) : sumTo n f ≤ sumTo n g := by
  induction n with
  | zero => exact Int.le_refl _
  | succ k ih => simp only [sumTo]; have := h k; omega

theorem sumTo_nonneg (n : Nat) (f : Nat → Int) (h : ∀ i, 0 ≤ f i) : 0 ≤ sumTo n f := by
  induction n with
  | zero => exact Int.le_refl _
  | succ k ih => simp only [sumTo]; have := h k; omega

theorem sumTo_ge_term (n : Nat) (f : Nat → Int) (h : ∀ i, 0 ≤ f i) (c : Nat) (hc : c < n) : f c ≤ sumTo n f := by
  induction n with
  | zero => omega
  | succ k ih =>
    simp only [sumTo]
    by_cases hk : c = k
    · subst hk; have := sumTo_nonneg c f h; omega
    · have := ih (by omega); have := h k; omega

/-- a sum over the checkables after replacing checkable `c`'s state -/
theorem sum_upd (g : Chk → Int) (s : St) (c : Nat) (x : Chk) (hc : c < s.n) :
    sumTo (s.upd c x).n (fun i => g ((s.upd c x).chk i)) =
    sumTo s.n (fun i => g (s.chk i)) - g (s.chk c) + g x := by
  have : (fun i => g ((s.upd c x).chk i)) = (fun i => if i = c then g x else g (s.chk i)) := by
    funext i; simp only [St.upd]; split <;> rfl
  rw [this]; exact sumTo_update s.n (fun i => g (s.chk i)) c (g x) hc

/-! ### global invariant -/

theorem inv_init (n : Nat) (max : Int) (hm : 0 ≤ max) : Inv (init n max) := by
  have z : ∀ (g : Chk → Int), g {} = 0 → ∀ k, sumTo k (fun _ => g ({} : Chk)) = 0 := by
    intro g hg k; induction k with
    | zero => rfl
    | succ k ih => simp only [sumTo]; rw [ih, hg]; rfl
  refine ⟨fun _ => chkInv_default, ?_, ?_⟩
  · show (0 : Int) = sumTo n (fun _ => (({} : Chk)).units)
    rw [z Chk.units rfl]
  · show sumTo n (fun _ => (({} : Chk)).slots) ≤ max
    rw [z Chk.slots rfl]; exact hm

/-- replacing one checkable's state by a transition that `Keeps`, with the counter following the units -/
theorem inv_upd (s : St) (c : Nat) (x : Chk) (du : Int) (hc : c < s.n) (h : Inv s) (hk : Keeps (s.chk c) x du) :
    Inv { s.upd c x with counter := s.counter + du } := by
  obtain ⟨h1, h2, h3⟩ := h
  obtain ⟨k1, k2, k3⟩ := hk
  refine ⟨?_, ?_, ?_⟩
  · intro i; show ChkInv ((s.upd c x).chk i); simp only [St.upd]; split
    · exact k1
    · exact h1 i
  · show s.counter + du = sumTo (s.upd c x).n (fun i => Chk.units ((s.upd c x).chk i))
    rw [sum_upd Chk.units s c x hc, k2]; omega
  · show sumTo (s.upd c x).n (fun i => Chk.slots ((s.upd c x).chk i)) ≤ s.max
    rw [sum_upd Chk.slots s c x hc]; omega

theorem inv_upd0 (s : St) (c : Nat) (x : Chk) (hc : c < s.n) (h : Inv s) (hk : Keeps (s.chk c) x 0) :
    Inv (s.upd c x) := by
  have := inv_upd s c x 0 hc h hk
  simpa [St.upd] using this

theorem slots_le_counter (s : St) (h : Inv s) : sumTo s.n (fun i => (s.chk i).slots) ≤ s.counter := by
  rw [h.2.1]; exact sumTo_le _ _ _ (fun i => slots_le_units _ (h.1 i))

theorem inv_step (s s' : St) (a : Act) (h : Inv s) (hs : step s a = some s') : Inv s' := by
  cases a with
  | setActive c b =>
    simp only [step] at hs; split at hs <;> simp at hs; subst hs
    exact inv_upd0 s c _ (by assumption) h (keeps_setActive _ b (h.1 c))
  | setPaused c b =>
    simp only [step] at hs; split at hs <;> simp at hs; subst hs
    exact inv_upd0 s c _ (by assumption) h (keeps_setPaused _ b (h.1 c))
  | objectHandler c =>
    simp only [step] at hs; split at hs <;> simp at hs; subst hs
    exact inv_upd0 s c _ (by assumption) h (keeps_objectHandler _ (h.1 c))
  | setNextCheck c v =>
    simp only [step] at hs; split at hs <;> simp at hs; subst hs
    exact inv_upd0 s c _ (by assumption) h (keeps_setNextCheck _ v (h.1 c))
  | ownResched c now v =>
    simp only [step] at hs; split at hs <;> simp at hs; subst hs
    rename_i hg
    exact inv_upd0 s c _ hg.1 h (keeps_ownResched _ v (h.1 c))
  | rearm c now v =>
    simp only [step] at hs; split at hs <;> simp at hs; subst hs
    rename_i hg
    exact inv_upd0 s c _ hg.1 h (keeps_rearm _ v hg.2.1 (h.1 c))
  | nextCheckChanged c =>
    simp only [step] at hs; split at hs <;> simp at hs; subst hs
    exact inv_upd0 s c _ (by assumption) h (keeps_nextCheckChanged _ (h.1 c))
  | force c =>
    simp only [step] at hs; split at hs <;> simp at hs; subst hs
    exact inv_upd0 s c _ (by assumption) h (keeps_force _ (h.1 c))
  | sched c now i =>
    simp only [step] at hs
    split at hs
    · rename_i hen
      obtain ⟨hc, hidle, _, hcnt, _⟩ := hen
      split at hs
      · simp at hs; subst hs
        exact inv_upd0 s c _ hc h (keeps_skip _ hidle (h.1 c))
      · simp at hs; subst hs
        have hsl := slots_le_counter s h
        obtain ⟨h1, h2, h3⟩ := h
        obtain ⟨p1, p2, p3⟩ := pick_facts _ now hidle (h1 c)
        refine ⟨?_, ?_, ?_⟩
        · intro i; show ChkInv ((s.upd c ((s.chk c).pick now)).chk i)
          simp only [St.upd]; split
          · exact p1
          · exact h1 i
        · show s.counter + 1 = sumTo (s.upd c ((s.chk c).pick now)).n (fun i => Chk.units ((s.upd c ((s.chk c).pick now)).chk i))
          rw [sum_upd Chk.units s c _ hc, p2]; omega
        · show sumTo (s.upd c ((s.chk c).pick now)).n (fun i => Chk.slots ((s.upd c ((s.chk c).pick now)).chk i)) ≤ s.max
          rw [sum_upd Chk.slots s c _ hc, p3]; omega
    · simp at hs
  | helperGuard c =>
    simp only [step] at hs; split at hs <;> simp at hs; subst hs
    rename_i hg
    exact inv_upd0 s c _ hg.1 h (keeps_helperGuard _ hg.2 (h.1 c))
  | result c =>
    simp only [step] at hs; split at hs <;> simp at hs; subst hs
    rename_i hg
    exact inv_upd0 s c _ hg.1 h (keeps_result _ hg.2 (h.1 c))
  | spawn c =>
    simp only [step] at hs; split at hs <;> simp at hs; subst hs
    rename_i hg
    exact inv_upd0 s c _ hg.1 h (keeps_spawn _ hg.2 (h.1 c))
  | pluginInc c =>
    simp only [step] at hs; split at hs <;> simp at hs; subst hs
    rename_i hg
    exact inv_upd s c _ 1 hg.1 h (keeps_pluginInc _ hg.2 (h.1 c))
  | procExit c =>
    simp only [step] at hs; split at hs <;> simp at hs; subst hs
    rename_i hg
    exact inv_upd s c _ (-1) hg.1 h (keeps_procExit _ hg.2 (h.1 c))
  | procResult c =>
    simp only [step] at hs; split at hs <;> simp at hs; subst hs
    rename_i hg
    exact inv_upd0 s c _ hg.1 h (keeps_procResult _ (h.1 c))
  | passiveResult c =>
    simp only [step] at hs; split at hs <;> simp at hs; subst hs
    exact inv_upd0 s c _ (by assumption) h (keeps_passiveResult _ (h.1 c))
  | helperDec c =>
    simp only [step] at hs; split at hs <;> simp at hs; subst hs
    rename_i hg
    exact inv_upd s c _ (-1) hg.1 h (keeps_helperDec _ hg.2 (h.1 c))
  | helperFinish c =>
    simp only [step] at hs; split at hs <;> simp at hs; subst hs
    rename_i hg
    exact inv_upd0 s c _ hg.1 h (keeps_helperFinish _ (h.1 c))

theorem inv_run (acts : List Act) (s s' : St) (h : Inv s) (hr : run s acts = some s') : Inv s' := by
  induction acts generalizing s with
  | nil => simp [run] at hr; subst hr; exact h
  | cons a as ih =>
    simp only [run] at hr
    split at hr
    · rename_i s1 hs1; exact ih s1 (inv_step s s1 a h hs1) hr
    · simp at hr

/-! ### single flight -/

theorem flight_step (s s' : St) (a : Act) (h : ∀ c, FlightInv (s.chk c))
    (hs : step s a = some s') : ∀ c, FlightInv (s'.chk c) := by
  have key : ∀ (c : Nat) (x : Chk), FlightInv x → ∀ i, FlightInv ((s.upd c x).chk i) := by
    intro c x hx i; simp only [St.upd]; split
    · exact hx
    · exact h i
  cases a with
  | setActive c b =>
    simp only [step] at hs; split at hs <;> simp at hs; subst hs
    exact key c _ (by have := h c; unfold FlightInv Chk.setActive at *; grind)
  | setPaused c b =>
    simp only [step] at hs; split at hs <;> simp at hs; subst hs
    exact key c _ (by have := h c; unfold FlightInv Chk.setPaused at *; grind)
  | objectHandler c =>
    simp only [step] at hs; split at hs <;> simp at hs; subst hs
    exact key c _ (by have := h c; unfold FlightInv Chk.objectHandler Chk.idleInsert at *; grind)
  | setNextCheck c v =>
    simp only [step] at hs; split at hs <;> simp at hs; subst hs
    exact key c _ (by have := h c; unfold FlightInv Chk.setNextCheck at *; grind)
  | ownResched c now v =>
    simp only [step] at hs; split at hs <;> simp at hs; subst hs
    exact key c _ (by have := h c; unfold FlightInv Chk.ownResched at *; grind)
  | rearm c now v =>
    simp only [step] at hs; split at hs <;> simp at hs; subst hs
    exact key c _ (by have := h c; unfold FlightInv Chk.rearm at *; grind)
  | nextCheckChanged c =>
    simp only [step] at hs; split at hs <;> simp at hs; subst hs
    exact key c _ (by have := h c; unfold FlightInv Chk.nextCheckChanged at *; grind)
  | force c =>
    simp only [step] at hs; split at hs <;> simp at hs; subst hs
    exact key c _ (by have := h c; unfold FlightInv Chk.force at *; grind)
  | sched c now i =>
    simp only [step] at hs
    split at hs
    · split at hs
      · simp at hs; subst hs
        exact key c _ (by have := h c; unfold FlightInv Chk.skip at *; grind)
      · simp at hs; subst hs
        exact key c _ (by have := h c; unfold FlightInv Chk.pick at *; grind)
    · simp at hs
  | helperGuard c =>
    simp only [step] at hs; split at hs <;> simp at hs; subst hs
    exact key c _ (by have := h c; unfold FlightInv Chk.helperGuard at *; grind)
  | result c =>
    simp only [step] at hs; split at hs <;> simp at hs; subst hs
    rename_i hg
    exact key c _ (by have := h c; have := hg.2; unfold FlightInv Chk.result at *; grind)
  | spawn c =>
    simp only [step] at hs; split at hs <;> simp at hs; subst hs
    rename_i hg
    exact key c _ (by have := h c; have := hg.2; unfold FlightInv Chk.spawn at *; grind)
  | pluginInc c =>
    simp only [step] at hs; split at hs <;> simp at hs; subst hs
    exact key c _ (by have := h c; unfold FlightInv Chk.pluginInc at *; grind)
  | procExit c =>
    simp only [step] at hs; split at hs <;> simp at hs; subst hs
    rename_i hg
    exact key c _ (by have := h c; have := hg.2; unfold FlightInv Chk.procExit at *; grind)
  | procResult c =>
    simp only [step] at hs; split at hs <;> simp at hs; subst hs
    rename_i hg
    exact key c _ (by have := h c; have := hg.2; unfold FlightInv Chk.procResult at *; grind)
  | passiveResult c =>
    simp only [step] at hs; split at hs <;> simp at hs; subst hs
    exact key c _ (by have := h c; unfold Chk.passiveResult; exact this)
  | helperDec c =>
    simp only [step] at hs; split at hs <;> simp at hs; subst hs
    exact key c _ (by have := h c; unfold FlightInv Chk.helperDec at *; grind)
  | helperFinish c =>
    simp only [step] at hs; split at hs <;> simp at hs; subst hs
    exact key c _ (by have := h c; unfold FlightInv Chk.helperFinish Chk.idleInsert at *; grind)

theorem flight_run (acts : List Act) (s s' : St)
    (h : ∀ c, FlightInv (s.chk c)) (hr : run s acts = some s') : ∀ c, FlightInv (s'.chk c) := by
  induction acts generalizing s with
  | nil => simp [run] at hr; subst hr; exact h
  | cons a as ih =>
    simp only [run] at hr
    split at hr
    · rename_i s1 hs1
      exact ih s1 (flight_step s s1 a h hs1) hr
    · simp at hr


/-! ### re-arming -/

theorem rearm_step (s s' : St) (a : Act) (h : ∀ c, RearmInv (s.chk c))
    (hs : step s a = some s') : ∀ c, RearmInv (s'.chk c) := by
  have key : ∀ (c : Nat) (x : Chk), RearmInv x → ∀ i, RearmInv ((s.upd c x).chk i) := by
    intro c x hx i; simp only [St.upd]; split
    · exact hx
    · exact h i
  cases a with
  | setActive c b =>
    simp only [step] at hs; split at hs <;> simp at hs; subst hs
    exact key c _ (by have := h c; unfold RearmInv Chk.setActive at *; grind)
  | setPaused c b =>
    simp only [step] at hs; split at hs <;> simp at hs; subst hs
    exact key c _ (by have := h c; unfold RearmInv Chk.setPaused at *; grind)
  | objectHandler c =>
    simp only [step] at hs; split at hs <;> simp at hs; subst hs
    exact key c _ (by have := h c; unfold RearmInv Chk.objectHandler Chk.idleInsert at *; grind)
  | setNextCheck c v =>
    simp only [step] at hs; split at hs <;> simp at hs; subst hs
    exact key c _ (by unfold RearmInv Chk.setNextCheck; simp)
  | ownResched c now v =>
    simp only [step] at hs; split at hs <;> simp at hs; subst hs
    rename_i hg
    exact key c _ (by have := h c; have := hg.2; unfold RearmInv Chk.ownResched at *; grind)
  | rearm c now v =>
    simp only [step] at hs; split at hs <;> simp at hs; subst hs
    rename_i hg
    exact key c _ (by have := h c; have := hg.2; unfold RearmInv Chk.rearm at *; grind)
  | nextCheckChanged c =>
    simp only [step] at hs; split at hs <;> simp at hs; subst hs
    exact key c _ (by have := h c; unfold RearmInv Chk.nextCheckChanged at *; grind)
  | force c =>
    simp only [step] at hs; split at hs <;> simp at hs; subst hs
    exact key c _ (by have := h c; unfold RearmInv Chk.force at *; grind)
  | sched c now i =>
    simp only [step] at hs
    split at hs
    · split at hs
      · simp at hs; subst hs
        exact key c _ (by have := h c; unfold RearmInv Chk.skip at *; grind)
      · simp at hs; subst hs
        exact key c _ (by have := h c; unfold RearmInv Chk.pick at *; grind)
    · simp at hs
  | helperGuard c =>
    simp only [step] at hs; split at hs <;> simp at hs; subst hs
    rename_i hg
    exact key c _ (by have := h c; have := hg.2; unfold RearmInv Chk.helperGuard at *; grind)
  | result c =>
    simp only [step] at hs; split at hs <;> simp at hs; subst hs
    rename_i hg
    exact key c _ (by have := h c; have := hg.2; unfold RearmInv Chk.result at *; grind)
  | spawn c =>
    simp only [step] at hs; split at hs <;> simp at hs; subst hs
    rename_i hg
    exact key c _ (by have := h c; have := hg.2; unfold RearmInv Chk.spawn at *; grind)
  | pluginInc c =>
    simp only [step] at hs; split at hs <;> simp at hs; subst hs
    rename_i hg
    exact key c _ (by have := h c; have := hg.2; unfold RearmInv Chk.pluginInc at *; grind)
  | procExit c =>
    simp only [step] at hs; split at hs <;> simp at hs; subst hs
    exact key c _ (by have := h c; unfold RearmInv Chk.procExit at *; grind)
  | procResult c =>
    simp only [step] at hs; split at hs <;> simp at hs; subst hs
    exact key c _ (by have := h c; unfold RearmInv Chk.procResult at *; grind)
  | passiveResult c =>
    simp only [step] at hs; split at hs <;> simp at hs; subst hs
    exact key c _ (by have := h c; unfold Chk.passiveResult; exact this)
  | helperDec c =>
    simp only [step] at hs; split at hs <;> simp at hs; subst hs
    rename_i hg
    exact key c _ (by have := h c; have := hg.2; unfold RearmInv Chk.helperDec at *; grind)
  | helperFinish c =>
    simp only [step] at hs; split at hs <;> simp at hs; subst hs
    rename_i hg
    exact key c _ (by have := h c; have := hg.2; unfold RearmInv Chk.helperFinish Chk.idleInsert at *; grind)

theorem rearm_run (acts : List Act) (s s' : St)
    (h : ∀ c, RearmInv (s.chk c)) (hr : run s acts = some s') : ∀ c, RearmInv (s'.chk c) := by
  induction acts generalizing s with
  | nil => simp [run] at hr; subst hr; exact h
  | cons a as ih =>
    simp only [run] at hr
    split at hr
    · rename_i s1 hs1
      exact ih s1 (rearm_step s s1 a h hs1) hr
    · simp at hr

theorem rearm_init (n : Nat) (max : Int) : ∀ c, RearmInv ((init n max).chk c) := by
  intro c; unfold RearmInv init; simp

/-! ### `n` and `max` never change -/

theorem step_n_max (s s' : St) (a : Act) (hs : step s a = some s') : s'.n = s.n ∧ s'.max = s.max := by
  cases a <;> simp only [step] at hs <;> (try split at hs) <;> (try split at hs) <;> simp at hs <;>
    subst hs <;> exact ⟨rfl, rfl⟩

theorem run_n_max (acts : List Act) (s s' : St) (hr : run s acts = some s') : s'.n = s.n ∧ s'.max = s.max := by
  induction acts generalizing s with
  | nil => simp [run] at hr; subst hr; exact ⟨rfl, rfl⟩
  | cons a as ih =>
    simp only [run] at hr
    split at hr
    · rename_i s1 hs1
      have h1 := step_n_max s s1 a hs1
      have h2 := ih s1 hr
      exact ⟨h2.1.trans h1.1, h2.2.trans h1.2⟩
    · simp at hr

/-! ### a minimum exists among the idle entries -/

theorem exists_min_idle (s : St) (m : Nat) (hm : m ≤ s.n) (c0 : Nat) (h0 : c0 < m) (hi0 : (s.chk c0).inIdle = true) :
    ∃ c, c < m ∧ (s.chk c).inIdle = true ∧ (s.chk c).idleKey ≤ (s.chk c0).idleKey ∧
      ∀ i, i < m → (s.chk i).inIdle = true → (s.chk c).idleKey ≤ (s.chk i).idleKey := by
  induction m generalizing c0 with
  | zero => omega
  | succ k ih =>
    by_cases hex : ∃ j, j < k ∧ (s.chk j).inIdle = true
    · obtain ⟨j, hj, hij⟩ := hex
      obtain ⟨c, hc, hic, _, hmin⟩ := ih (by omega) j hj hij
      by_cases hk : (s.chk k).inIdle = true ∧ (s.chk k).idleKey < (s.chk c).idleKey
      · refine ⟨k, by omega, hk.1, ?_, ?_⟩
        · by_cases hc0 : c0 = k
          · subst hc0; exact Int.le_refl _
          · have := hmin c0 (by omega) hi0; omega
        · intro i hi hii
          by_cases hik : i = k
          · subst hik; exact Int.le_refl _
          · have := hmin i (by omega) hii; omega
      · refine ⟨c, by omega, hic, ?_, ?_⟩
        · by_cases hc0 : c0 = k
          · subst hc0
            have : ¬ (s.chk c0).idleKey < (s.chk c).idleKey := fun hlt => hk ⟨hi0, hlt⟩
            omega
          · exact hmin c0 (by omega) hi0
        · intro i hi hii
          by_cases hik : i = k
          · subst hik
            have : ¬ (s.chk i).idleKey < (s.chk c).idleKey := fun hlt => hk ⟨hii, hlt⟩
            omega
          · exact hmin i (by omega) hii
    · have hc0 : c0 = k := by
        by_cases h : c0 = k
        · exact h
        · exact absurd ⟨c0, by omega, hi0⟩ hex
      subst hc0
      refine ⟨c0, by omega, hi0, Int.le_refl _, ?_⟩
      intro i hi hii
      by_cases hik : i = c0
      · subst hik; exact Int.le_refl _
      · exact absurd ⟨i, by omega, hii⟩ hex

/-! ### `fmod` and the adjustment of `UpdateNextCheck` over exact rationals -/

theorem mul_div_cancel' (x y : Rat) (hy : 0 < y) : y * (x / y) = x := by
  rw [Rat.div_def, Rat.mul_comm x, ← Rat.mul_assoc, Rat.mul_inv_cancel _ (Rat.ne_of_gt hy), Rat.one_mul]

theorem fmod_nonneg (x y : Rat) (hy : 0 < y) : 0 ≤ fmod x y := by
  unfold fmod
  have h1 := Rat.floor_le (x / y)
  have h2 : y * ((x / y).floor : Int) ≤ y * (x / y) := Rat.mul_le_mul_of_nonneg_left h1 (Rat.le_of_lt hy)
  have h3 := mul_div_cancel' x y hy
  grind

theorem fmod_lt (x y : Rat) (hy : 0 < y) : fmod x y < y := by
  unfold fmod
  have h1 := Rat.lt_floor_add_one (x / y)
  have h2 : y * (x / y) < y * (((x / y).floor + 1 : Int) : Rat) := Rat.mul_lt_mul_of_pos_left h1 hy
  have h3 := mul_div_cancel' x y hy
  have h4 : (((x / y).floor + 1 : Int) : Rat) = ((x / y).floor : Rat) + 1 := by simp [Rat.intCast_add]
  rw [h3, h4, Rat.mul_add, Rat.mul_one] at h2
  grind

theorem div100_lt (a b : Rat) (h : a < b * 100) : a / 100 < b := by grind
theorem div100_nonneg (a : Rat) (h : 0 ≤ a) : 0 ≤ a / 100 := by grind

/-- `0 ≤ adj < interval` -/
theorem adj_bounds (now off interval : Rat) (hi : 0 < interval) :
    0 ≤ nextCheckAdj now off interval ∧ nextCheckAdj now off interval < interval := by
  unfold nextCheckAdj ratMin
  have hi100 : 0 < interval * 100 := by grind
  have hi5 : 0 < interval * 5 := by grind
  have a1 := fmod_nonneg (now * 100 + off) (interval * 100) hi100
  have a2 := fmod_lt (now * 100 + off) (interval * 100) hi100
  have b1 := fmod_nonneg off (interval * 5) hi5
  have c1 := div100_lt _ _ a2
  have c2 := div100_nonneg _ a1
  have c3 := div100_nonneg _ b1
  simp only []
  split <;> split <;> (try split) <;> grind

end Icinga.C04

/-
  C04 — helper lemmas: the per-checkable invariants are preserved by every local transition, the counter
  equals the units held by helpers, and both lift to every run of the transition system.
-/
import IcingaModel.C04.Model

namespace Icinga.C04

/-- Per-checkable invariant: never in both sets; once an ObjectHandler has run after the last write of
    active/paused, "schedulable" and "in one of the sets" coincide; once a NextCheckChangedHandler has run
    after the last write of next_check, the idle key is the attribute. -/
def ChkInv (x : Chk) : Prop :=
  ¬(x.inIdle = true ∧ x.inPending = true) ∧
  (x.synced = true → (x.schedulable = true ↔ (x.inIdle = true ∨ x.inPending = true))) ∧
  (x.keySynced = true → x.inIdle = true → x.idleKey = x.nextCheck)

/-- Single-flight invariant: the number of executions in progress is 1 iff `m_CheckRunning`, else 0. -/
def FlightInv (x : Chk) : Prop := x.hx = if x.running then 1 else 0

/-- Global invariant. -/
def Inv (s : St) : Prop :=
  (∀ c, ChkInv (s.chk c)) ∧ s.counter = sumTo s.n (fun i => (s.chk i).units) ∧ s.counter ≤ s.max

/-! ### local transitions -/

theorem chkInv_default : ChkInv {} := by
  unfold ChkInv Chk.schedulable; decide

theorem chkInv_setActive (x : Chk) (b : Bool) (h : ChkInv x) : ChkInv (x.setActive b) := by
  unfold ChkInv Chk.setActive Chk.schedulable at *; grind

theorem chkInv_setPaused (x : Chk) (b : Bool) (h : ChkInv x) : ChkInv (x.setPaused b) := by
  unfold ChkInv Chk.setPaused Chk.schedulable at *; grind

theorem chkInv_objectHandler (x : Chk) (h : ChkInv x) : ChkInv x.objectHandler := by
  unfold ChkInv Chk.objectHandler Chk.idleInsert Chk.schedulable at *; grind

theorem chkInv_setNextCheck (x : Chk) (v : Int) (h : ChkInv x) : ChkInv (x.setNextCheck v) := by
  unfold ChkInv Chk.setNextCheck Chk.schedulable at *; grind

theorem chkInv_nextCheckChanged (x : Chk) (h : ChkInv x) : ChkInv x.nextCheckChanged := by
  unfold ChkInv Chk.nextCheckChanged Chk.schedulable at *; grind

theorem chkInv_force (x : Chk) (h : ChkInv x) : ChkInv x.force := by
  unfold ChkInv Chk.force Chk.schedulable at *; grind

theorem chkInv_pick (x : Chk) (hi : x.inIdle = true) (h : ChkInv x) : ChkInv x.pick := by
  unfold ChkInv Chk.pick Chk.schedulable at *; grind

theorem chkInv_skip (x : Chk) (hi : x.inIdle = true) (h : ChkInv x) : ChkInv x.skip := by
  unfold ChkInv Chk.skip Chk.schedulable at *; grind

theorem chkInv_helperGuard (x : Chk) (h : ChkInv x) : ChkInv x.helperGuard := by
  unfold ChkInv Chk.helperGuard Chk.schedulable at *; grind

theorem chkInv_result (x : Chk) (h : ChkInv x) : ChkInv x.result := by
  unfold ChkInv Chk.result Chk.schedulable at *; grind

theorem chkInv_passiveResult (x : Chk) (h : ChkInv x) : ChkInv x.passiveResult := by
  unfold ChkInv Chk.passiveResult Chk.schedulable at *; grind

theorem chkInv_helperDec (x : Chk) (h : ChkInv x) : ChkInv x.helperDec := by
  unfold ChkInv Chk.helperDec Chk.schedulable at *; grind

theorem chkInv_helperFinish (x : Chk) (h : ChkInv x) : ChkInv x.helperFinish := by
  unfold ChkInv Chk.helperFinish Chk.idleInsert Chk.schedulable at *; grind

/-! ### units held by helpers -/

theorem units_setActive (x : Chk) (b : Bool) : (x.setActive b).units = x.units := rfl
theorem units_setPaused (x : Chk) (b : Bool) : (x.setPaused b).units = x.units := rfl
theorem units_objectHandler (x : Chk) : x.objectHandler.units = x.units := by
  unfold Chk.objectHandler Chk.idleInsert Chk.units; grind
theorem units_setNextCheck (x : Chk) (v : Int) : (x.setNextCheck v).units = x.units := rfl
theorem units_nextCheckChanged (x : Chk) : x.nextCheckChanged.units = x.units := by
  unfold Chk.nextCheckChanged Chk.units; grind
theorem units_force (x : Chk) : x.force.units = x.units := rfl
theorem units_skip (x : Chk) : x.skip.units = x.units := rfl
theorem units_pick (x : Chk) : x.pick.units = x.units + 1 := by
  unfold Chk.pick Chk.units; grind
theorem units_helperGuard (x : Chk) (h : 0 < x.hq) : x.helperGuard.units = x.units := by
  unfold Chk.helperGuard Chk.units; grind
theorem units_result (x : Chk) (h : 0 < x.hx) : x.result.units = x.units := by
  unfold Chk.result Chk.units; grind
theorem units_passiveResult (x : Chk) : x.passiveResult.units = x.units := rfl
theorem units_helperDec (x : Chk) (h : 0 < x.hr) : x.helperDec.units = x.units - 1 := by
  unfold Chk.helperDec Chk.units; grind
theorem units_helperFinish (x : Chk) : x.helperFinish.units = x.units := by
  unfold Chk.helperFinish Chk.idleInsert Chk.units; grind

/-! ### sums -/

theorem sumTo_congr (n : Nat) (f g : Nat → Int) (h : ∀ i, i < n → f i = g i) : sumTo n f = sumTo n g := by
  induction n with
  | zero => rfl
  | succ k ih =>
    simp only [sumTo]
    rw [ih (fun i hi => h i (by omega)), h k (by omega)]

theorem sumTo_update (n : Nat) (f : Nat → Int) (c : Nat) (v : Int) (hc : c < n) :
    sumTo n (fun i => if i = c then v else f i) = sumTo n f - f c + v := by
  induction n with
  | zero => omega
  | succ k ih =>
    simp only [sumTo]
    by_cases hk : k = c
    · subst hk
      have : sumTo k (fun i => if i = k then v else f i) = sumTo k f :=
        sumTo_congr k _ _ (fun i hi => by simp; omega)
      rw [this]; simp <;> omega
    · have hc' : c < k := by omega
      rw [ih hc']; simp [hk]; omega

theorem sumTo_le (n : Nat) (f g : Nat → Int) (h : ∀ i, f i ≤ g i) : sumTo n f ≤ sumTo n g := by
  induction n with
  | zero => exact Int.le_refl _
  | succ k ih => simp only [sumTo]; have := h k; omega

theorem sumTo_nonneg (n : Nat) (f : Nat → Int) (h : ∀ i, 0 ≤ f i) : 0 ≤ sumTo n f := by
  induction n with
  | zero => exact Int.le_refl _
  | succ k ih => simp only [sumTo]; have := h k; omega

theorem sumTo_ge_term (n : Nat) (f : Nat → Int) (h : ∀ i, 0 ≤ f i) (c : Nat) (hc : c < n) : f c ≤ sumTo n f := by
  induction n with
  | zero => omega
  | succ k ih =>
    simp only [sumTo]
    by_cases hk : c = k
    · subst hk; have := sumTo_nonneg c f h; omega
    · have := ih (by omega); have := h k; omega

/-- the units sum after replacing checkable `c`'s state -/
theorem units_upd (s : St) (c : Nat) (x : Chk) (hc : c < s.n) :
    sumTo (s.upd c x).n (fun i => ((s.upd c x).chk i).units) =
    sumTo s.n (fun i => (s.chk i).units) - (s.chk c).units + x.units := by
  have : (fun i => ((s.upd c x).chk i).units) = (fun i => if i = c then x.units else (s.chk i).units) := by
    funext i; simp only [St.upd]; split <;> rfl
  rw [this]; exact sumTo_update s.n (fun i => (s.chk i).units) c x.units hc

/-! ### global invariant -/

theorem inv_init (n : Nat) (max : Int) (hm : 0 ≤ max) : Inv (init n max) := by
  refine ⟨fun _ => chkInv_default, ?_, hm⟩
  show (0 : Int) = sumTo n (fun _ => (({} : Chk)).units)
  have : ∀ k, sumTo k (fun _ => (({} : Chk)).units) = 0 := by
    intro k; induction k with
    | zero => rfl
    | succ k ih => simp only [sumTo, ih]; rfl
  rw [this]

/-- replacing one checkable's state by one that keeps its invariant and its units keeps `Inv` -/
theorem inv_upd_same (s : St) (c : Nat) (x : Chk) (hc : c < s.n) (h : Inv s)
    (hx : ChkInv x) (hu : x.units = (s.chk c).units) : Inv (s.upd c x) := by
  obtain ⟨h1, h2, h3⟩ := h
  refine ⟨?_, ?_, h3⟩
  · intro i; simp only [St.upd]; split
    · exact hx
    · exact h1 i
  · rw [units_upd s c x hc, hu]; show s.counter = _; omega

theorem inv_step (s s' : St) (a : Act) (h : Inv s) (hs : step s a = some s') : Inv s' := by
  cases a with
  | setActive c b =>
    simp only [step] at hs; split at hs <;> simp at hs; subst hs
    exact inv_upd_same s c _ (by assumption) h (chkInv_setActive _ b (h.1 c)) (units_setActive _ b)
  | setPaused c b =>
    simp only [step] at hs; split at hs <;> simp at hs; subst hs
    exact inv_upd_same s c _ (by assumption) h (chkInv_setPaused _ b (h.1 c)) (units_setPaused _ b)
  | objectHandler c =>
    simp only [step] at hs; split at hs <;> simp at hs; subst hs
    exact inv_upd_same s c _ (by assumption) h (chkInv_objectHandler _ (h.1 c)) (units_objectHandler _)
  | setNextCheck c v =>
    simp only [step] at hs; split at hs <;> simp at hs; subst hs
    exact inv_upd_same s c _ (by assumption) h (chkInv_setNextCheck _ v (h.1 c)) (units_setNextCheck _ v)
  | nextCheckChanged c =>
    simp only [step] at hs; split at hs <;> simp at hs; subst hs
    exact inv_upd_same s c _ (by assumption) h (chkInv_nextCheckChanged _ (h.1 c)) (units_nextCheckChanged _)
  | force c =>
    simp only [step] at hs; split at hs <;> simp at hs; subst hs
    exact inv_upd_same s c _ (by assumption) h (chkInv_force _ (h.1 c)) (units_force _)
  | sched c now r e p =>
    simp only [step] at hs
    split at hs
    · rename_i hen
      obtain ⟨hc, hidle, _, hcnt, _⟩ := hen
      split at hs
      · simp at hs; subst hs
        exact inv_upd_same s c _ hc h (chkInv_skip _ hidle (h.1 c)) (units_skip _)
      · simp at hs; subst hs
        obtain ⟨h1, h2, h3⟩ := h
        refine ⟨?_, ?_, ?_⟩
        · intro i; show ChkInv ((s.upd c (s.chk c).pick).chk i)
          simp only [St.upd]; split
          · exact chkInv_pick _ hidle (h1 c)
          · exact h1 i
        · show s.counter + 1 = sumTo (s.upd c (s.chk c).pick).n (fun i => ((s.upd c (s.chk c).pick).chk i).units)
          rw [units_upd s c _ hc, units_pick]; omega
        · show s.counter + 1 ≤ s.max; omega
    · simp at hs
  | helperGuard c =>
    simp only [step] at hs; split at hs <;> simp at hs; subst hs
    rename_i hg
    exact inv_upd_same s c _ hg.1 h (chkInv_helperGuard _ (h.1 c)) (units_helperGuard _ hg.2)
  | result c =>
    simp only [step] at hs; split at hs <;> simp at hs; subst hs
    rename_i hg
    exact inv_upd_same s c _ hg.1 h (chkInv_result _ (h.1 c)) (units_result _ hg.2)
  | passiveResult c =>
    simp only [step] at hs; split at hs <;> simp at hs; subst hs
    exact inv_upd_same s c _ (by assumption) h (chkInv_passiveResult _ (h.1 c)) (units_passiveResult _)
  | helperDec c =>
    simp only [step] at hs; split at hs <;> simp at hs; subst hs
    rename_i hg
    obtain ⟨h1, h2, h3⟩ := h
    refine ⟨?_, ?_, ?_⟩
    · intro i; show ChkInv ((s.upd c (s.chk c).helperDec).chk i)
      simp only [St.upd]; split
      · exact chkInv_helperDec _ (h1 c)
      · exact h1 i
    · show s.counter - 1 = sumTo (s.upd c (s.chk c).helperDec).n (fun i => ((s.upd c (s.chk c).helperDec).chk i).units)
      rw [units_upd s c _ hg.1, units_helperDec _ hg.2]; omega
    · show s.counter - 1 ≤ s.max; omega
  | helperFinish c =>
    simp only [step] at hs; split at hs <;> simp at hs; subst hs
    rename_i hg
    exact inv_upd_same s c _ hg.1 h (chkInv_helperFinish _ (h.1 c)) (units_helperFinish _)

theorem inv_run (acts : List Act) (s s' : St) (h : Inv s) (hr : run s acts = some s') : Inv s' := by
  induction acts generalizing s with
  | nil => simp [run] at hr; subst hr; exact h
  | cons a as ih =>
    simp only [run] at hr
    split at hr
    · rename_i s1 hs1; exact ih s1 (inv_step s s1 a h hs1) hr
    · simp at hr

/-! ### single flight (needs: no result from outside the execution) -/

theorem flight_step (s s' : St) (a : Act) (hp : a.isPassive = false) (h : ∀ c, FlightInv (s.chk c))
    (hs : step s a = some s') : ∀ c, FlightInv (s'.chk c) := by
  have key : ∀ (c : Nat) (x : Chk), FlightInv x → ∀ i, FlightInv ((s.upd c x).chk i) := by
    intro c x hx i; simp only [St.upd]; split
    · exact hx
    · exact h i
  cases a with
  | setActive c b =>
    simp only [step] at hs; split at hs <;> simp at hs; subst hs
    exact key c _ (by have := h c; unfold FlightInv Chk.setActive at *; grind)
  | setPaused c b =>
    simp only [step] at hs; split at hs <;> simp at hs; subst hs
    exact key c _ (by have := h c; unfold FlightInv Chk.setPaused at *; grind)
  | objectHandler c =>
    simp only [step] at hs; split at hs <;> simp at hs; subst hs
    exact key c _ (by have := h c; unfold FlightInv Chk.objectHandler Chk.idleInsert at *; grind)
  | setNextCheck c v =>
    simp only [step] at hs; split at hs <;> simp at hs; subst hs
    exact key c _ (by have := h c; unfold FlightInv Chk.setNextCheck at *; grind)
  | nextCheckChanged c =>
    simp only [step] at hs; split at hs <;> simp at hs; subst hs
    exact key c _ (by have := h c; unfold FlightInv Chk.nextCheckChanged at *; grind)
  | force c =>
    simp only [step] at hs; split at hs <;> simp at hs; subst hs
    exact key c _ (by have := h c; unfold FlightInv Chk.force at *; grind)
  | sched c now r e p =>
    simp only [step] at hs
    split at hs
    · split at hs
      · simp at hs; subst hs
        exact key c _ (by have := h c; unfold FlightInv Chk.skip at *; grind)
      · simp at hs; subst hs
        exact key c _ (by have := h c; unfold FlightInv Chk.pick at *; grind)
    · simp at hs
  | helperGuard c =>
    simp only [step] at hs; split at hs <;> simp at hs; subst hs
    exact key c _ (by have := h c; unfold FlightInv Chk.helperGuard at *; grind)
  | result c =>
    simp only [step] at hs; split at hs <;> simp at hs; subst hs
    rename_i hg
    exact key c _ (by have := h c; have := hg.2; unfold FlightInv Chk.result at *; grind)
  | passiveResult c => simp [Act.isPassive] at hp
  | helperDec c =>
    simp only [step] at hs; split at hs <;> simp at hs; subst hs
    exact key c _ (by have := h c; unfold FlightInv Chk.helperDec at *; grind)
  | helperFinish c =>
    simp only [step] at hs; split at hs <;> simp at hs; subst hs
    exact key c _ (by have := h c; unfold FlightInv Chk.helperFinish Chk.idleInsert at *; grind)

theorem flight_run (acts : List Act) (s s' : St) (hp : ∀ a ∈ acts, a.isPassive = false)
    (h : ∀ c, FlightInv (s.chk c)) (hr : run s acts = some s') : ∀ c, FlightInv (s'.chk c) := by
  induction acts generalizing s with
  | nil => simp [run] at hr; subst hr; exact h
  | cons a as ih =>
    simp only [run] at hr
    split at hr
    · rename_i s1 hs1
      exact ih s1 (fun b hb => hp b (List.mem_cons_of_mem _ hb))
        (flight_step s s1 a (hp a List.mem_cons_self) h hs1) hr
    · simp at hr

/-! ### `n` and `max` never change -/

theorem step_n_max (s s' : St) (a : Act) (hs : step s a = some s') : s'.n = s.n ∧ s'.max = s.max := by
  cases a <;> simp only [step] at hs <;> (try split at hs) <;> (try split at hs) <;> simp at hs <;>
    subst hs <;> exact ⟨rfl, rfl⟩

theorem run_n_max (acts : List Act) (s s' : St) (hr : run s acts = some s') : s'.n = s.n ∧ s'.max = s.max := by
  induction acts generalizing s with
  | nil => simp [run] at hr; subst hr; exact ⟨rfl, rfl⟩
  | cons a as ih =>
    simp only [run] at hr
    split at hr
    · rename_i s1 hs1
      have h1 := step_n_max s s1 a hs1
      have h2 := ih s1 hr
      exact ⟨h2.1.trans h1.1, h2.2.trans h1.2⟩
    · simp at hr

/-! ### a minimum exists among the idle entries -/

theorem exists_min_idle (s : St) (m : Nat) (hm : m ≤ s.n) (c0 : Nat) (h0 : c0 < m) (hi0 : (s.chk c0).inIdle = true) :
    ∃ c, c < m ∧ (s.chk c).inIdle = true ∧ (s.chk c).idleKey ≤ (s.chk c0).idleKey ∧
      ∀ i, i < m → (s.chk i).inIdle = true → (s.chk c).idleKey ≤ (s.chk i).idleKey := by
  induction m generalizing c0 with
  | zero => omega
  | succ k ih =>
    by_cases hex : ∃ j, j < k ∧ (s.chk j).inIdle = true
    · obtain ⟨j, hj, hij⟩ := hex
      obtain ⟨c, hc, hic, _, hmin⟩ := ih (by omega) j hj hij
      by_cases hk : (s.chk k).inIdle = true ∧ (s.chk k).idleKey < (s.chk c).idleKey
      · refine ⟨k, by omega, hk.1, ?_, ?_⟩
        · by_cases hc0 : c0 = k
          · subst hc0; exact Int.le_refl _
          · have := hmin c0 (by omega) hi0; omega
        · intro i hi hii
          by_cases hik : i = k
          · subst hik; exact Int.le_refl _
          · have := hmin i (by omega) hii; omega
      · refine ⟨c, by omega, hic, ?_, ?_⟩
        · by_cases hc0 : c0 = k
          · subst hc0
            have : ¬ (s.chk c0).idleKey < (s.chk c).idleKey := fun hlt => hk ⟨hi0, hlt⟩
            omega
          · exact hmin c0 (by omega) hi0
        · intro i hi hii
          by_cases hik : i = k
          · subst hik
            have : ¬ (s.chk i).idleKey < (s.chk c).idleKey := fun hlt => hk ⟨hii, hlt⟩
            omega
          · exact hmin i (by omega) hii
    · have hc0 : c0 = k := by
        by_cases h : c0 = k
        · exact h
        · exact absurd ⟨c0, by omega, hi0⟩ hex
      subst hc0
      refine ⟨c0, by omega, hi0, Int.le_refl _, ?_⟩
      intro i hi hii
      by_cases hik : i = c0
      · subst hik; exact Int.le_refl _
      · exact absurd ⟨i, by omega, hii⟩ hex

/-! ### `fmod` and the adjustment of `UpdateNextCheck` over exact rationals -/

theorem mul_div_cancel' (x y : Rat) (hy : 0 < y) : y * (x / y) = x := by
  rw [Rat.div_def, Rat.mul_comm x, ← Rat.mul_assoc, Rat.mul_inv_cancel _ (Rat.ne_of_gt hy), Rat.one_mul]

theorem fmod_nonneg (x y : Rat) (hy : 0 < y) : 0 ≤ fmod x y := by
  unfold fmod
  have h1 := Rat.floor_le (x / y)
  have h2 : y * ((x / y).floor : Int) ≤ y * (x / y) := Rat.mul_le_mul_of_nonneg_left h1 (Rat.le_of_lt hy)
  have h3 := mul_div_cancel' x y hy
  grind

theorem fmod_lt (x y : Rat) (hy : 0 < y) : fmod x y < y := by
  unfold fmod
  have h1 := Rat.lt_floor_add_one (x / y)
  have h2 : y * (x / y) < y * (((x / y).floor + 1 : Int) : Rat) := Rat.mul_lt_mul_of_pos_left h1 hy
  have h3 := mul_div_cancel' x y hy
  have h4 : (((x / y).floor + 1 : Int) : Rat) = ((x / y).floor : Rat) + 1 := by simp [Rat.intCast_add]
  rw [h3, h4, Rat.mul_add, Rat.mul_one] at h2
  grind

theorem div100_lt (a b : Rat) (h : a < b * 100) : a / 100 < b := by grind
theorem div100_nonneg (a : Rat) (h : 0 ≤ a) : 0 ≤ a / 100 := by grind

/-- `0 ≤ adj < interval` -/
theorem adj_bounds (now off interval : Rat) (hi : 0 < interval) :
    0 ≤ nextCheckAdj now off interval ∧ nextCheckAdj now off interval < interval := by
  unfold nextCheckAdj ratMin
  have hi100 : 0 < interval * 100 := by grind
  have hi5 : 0 < interval * 5 := by grind
  have a1 := fmod_nonneg (now * 100 + off) (interval * 100) hi100
  have a2 := fmod_lt (now * 100 + off) (interval * 100) hi100
  have b1 := fmod_nonneg off (interval * 5) hi5
  have c1 := div100_lt _ _ a2
  have c2 := div100_nonneg _ a1
  have c3 := div100_nonneg _ b1
  simp only []
  split <;> split <;> (try split) <;> grind

end Icinga.C04

/-
  C08 — property theorems.  Every `theorem` in this file is a proof obligation of the check
  (`./check C08` lists them and runs `#print axioms` on each).  Helper lemmas live in
  IcingaProofs/C08/Lemmas.lean (interval algebra) and IcingaProofs/C08/CalLemmas.lean (calendar).

  Layer 1 (this part): the interval algebra of lib/icinga/timeperiod.cpp.
-/
import IcingaProofs.C08.Lemmas
import IcingaProofs.C08.CalLemmas

namespace Icinga.C08

/-! ## AddSegment: overlapping or adjacent ranges behave as their union -/

/-- **addSeg_union.**  After `AddSegment(b, e)` an instant is covered iff it was covered before or
    lies in `[b, e)` — for *every* stored list (overlapping, unsorted, degenerate) and every `b`, `e`. -/
theorem addSeg_union (S : List Seg) (b e t : Int) :
    inside (addSeg S b e) t = true ↔ inside S t = true ∨ (b ≤ t ∧ t < e) :=
  addSeg_inside S b e t

example : inside (addSeg [(0, 2), (5, 9), (1, 6)] 2 5) 3 = true := by decide
example : (addSeg [(0, 2), (5, 9)] 2 5) = [(0, 5), (5, 9)] := by decide   -- first match only: lists may keep overlaps

/-- **addSeg_comm.**  The covered set does not depend on the insertion order. -/
theorem addSeg_comm (S : List Seg) (a b c d t : Int) :
    inside (addSeg (addSeg S a b) c d) t = inside (addSeg (addSeg S c d) a b) t := by
  rw [Bool.eq_iff_iff, addSeg_union, addSeg_union, addSeg_union, addSeg_union]
  constructor
  · rintro ((h | h) | h)
    · exact Or.inl (Or.inl h)
    · exact Or.inr h
    · exact Or.inl (Or.inr h)
  · rintro ((h | h) | h)
    · exact Or.inl (Or.inl h)
    · exact Or.inr h
    · exact Or.inl (Or.inr h)

/-! ## RemoveSegment: an exclusion removes exactly the excluded interval

  "… even when it shares its begin or end with a range."  Until commit 9b846ed the pinned code
  violated this (F-C08a: strict comparisons at timeperiod.cpp:153/156 left 09:00–17:00 minus
  09:00–10:00 untouched); the model follows the repaired comparisons and the full statement holds.
-/

/-- **removeSeg_diff.**  After `RemoveSegment(b, e)` an instant is covered iff it was covered before
    and does not lie in `[b, e)` — for every list of non-empty stored segments, shared boundaries
    included. -/
theorem removeSeg_diff (S : List Seg) (b e t : Int) (hbe : b ≤ e) (hwf : ∀ s ∈ S, s.1 < s.2) :
    inside (removeSeg S b e) t = true ↔ inside S t = true ∧ ¬ (b ≤ t ∧ t < e) :=
  removeSeg_inside S b e t hbe hwf

example : removeSeg [(900, 1700), (100, 200)] 1000 1100 = [(900, 1000), (1100, 1700), (100, 200)] := by decide
/-- the former F-C08a witnesses: shared begin, shared end -/
example : removeSeg [(900, 1700)] 900 1000 = [(1000, 1700)] ∧ removeSeg [(900, 1700)] 1600 1700 = [(900, 1600)] := by decide

/-- **removeSeg_sound.**  RemoveSegment never adds an instant and never removes one outside `[b, e)`
    (the two halves of `removeSeg_diff` that also held before the repair). -/
theorem removeSeg_sound (S : List Seg) (b e t : Int) (hbe : b ≤ e) (hwf : ∀ s ∈ S, s.1 < s.2) :
    (inside (removeSeg S b e) t = true → inside S t = true) ∧
    (inside S t = true → ¬ (b ≤ t ∧ t < e) → inside (removeSeg S b e) t = true) :=
  removeSeg_inside_sound S b e t hbe hwf

/-! ## UpdateRegion: ranges, includes, excludes, prefer_includes -/

/-- **updateRegion_spec.**  For every period state, update inputs, region `b ≤ e`, `clear` flag and
    list of instants, the model's observation of one `UpdateRegion` call satisfies the executable
    specification: the reported window contains the refreshed region; outside the window every
    instant is "inside"; inside the window an instant is inside iff `(own ∪ includes) \ excludes`
    (`prefer_includes = false`) resp. `(own \ excludes) ∪ includes` (`prefer_includes = true`),
    where for a non-clearing update the previously stored segments outside the refreshed region
    count as own.  Only hypothesis: all segments are non-empty. -/
theorem updateRegion_spec (p : Period) (u : UpdIn) (b e : Int) (clear : Bool) (ts : List Int)
    (hbe : b ≤ e)
    (hS : clear = false → ∀ s ∈ p.segs, s.1 < s.2) (hown : ∀ s ∈ u.own, s.1 < s.2)
    (hinc : ∀ L ∈ u.incs, ∀ s ∈ L, s.1 < s.2) (hexc : ∀ L ∈ u.excs, ∀ s ∈ L, s.1 < s.2) :
    specUpdate (observe p u b e clear ts) = none := by
  cases clear with
  | true =>
    -- clearing update: `{p with segs := []}.region u b e`
    have hup : p.updateRegion u b e true = ({ p with segs := [] } : Period).region u b e := by
      simp [Period.updateRegion]
    refine spec_core ({ p with segs := [] } : Period) u b e _ ts hbe (by simp) hown hinc hexc
      (by simp [UpdObs.noop, observe]) (by simp [UpdObs.effB, observe])
      (by simp [observe]) (by simp [observe, hup]) (by simp [observe, hup]) ?_ (by simp [observe, hup])
    intro t
    unfold expectInside formula
    simp only [observe, any_inside_flatten, if_true, Bool.false_or, inside_nil, Bool.false_and]
  | false =>
    by_cases hlt : e < numOf p.ve
    · -- ends before the old valid_end: nothing happens
      have hup : p.updateRegion u b e false = p := by simp [Period.updateRegion, hlt]
      unfold specUpdate
      simp [UpdObs.noop, observe, hlt, hup]
    · have hup : p.updateRegion u b e false = p.region u (p.effBegin b false) e := by
        simp [Period.updateRegion, Period.effBegin, hlt]
      have hb'e : p.effBegin b false ≤ e := by
        simp only [Period.effBegin, Bool.false_eq_true, if_false]; split <;> omega
      refine spec_core p u (p.effBegin b false) e _ ts hb'e (hS rfl) hown hinc hexc
        (by simp [UpdObs.noop, observe, hlt]) rfl
        (by simp [observe]) (by simp [observe, hup]) (by simp [observe, hup]) ?_ (by simp [observe, hup])
      intro t
      unfold expectInside formula
      simp only [observe, any_inside_flatten, Bool.false_eq_true, if_false, UpdObs.effB, Period.effBegin]
      rfl

/-- Non-vacuity: a clearing update with an include, excludes that share boundaries with the ranges
    (12 = begin of nothing, but 10–14 shares its begin with 10–20 and 35–40 its end with 30–40) and
    `prefer_includes = false`; the observation is non-trivial. -/
example :
    let u : UpdIn := { prefer := false, own := [(10, 20), (30, 40)], incs := [[(18, 32)]], excs := [[(10, 14), (35, 40)]] }
    (observe {} u 0 100 true [9, 10, 13, 14, 25, 34, 36, 40, 101]).queries =
      [(9, false), (10, false), (13, false), (14, true), (25, true), (34, true), (36, false), (40, false), (101, true)] := by decide

/-- The former F-C08a witness at the level of the whole property now meets the specification. -/
example :
    specUpdate (observe {} { prefer := false, own := [(900, 1700)], incs := [], excs := [[(900, 1000)]] }
      0 2400 true [899, 900, 950, 1000]) = none := by decide

/-- The spec rejects a wrong trace (an instant reported outside although it lies in an included
    period). -/
example :
    specUpdate { prefer := true, clear := true, b := 0, e := 100, own := [(10, 20)], incs := [[(30, 40)]], excs := [],
                 preSegs := [], preVe := none, vb := some 0, ve := some 100, postSegs := [(10, 20), (30, 40)],
                 queries := [(35, false)] } = some .insideFormula := by decide

/-- **outside_window_inside.**  The documented default: without a computed window, or outside it
    (both bounds inclusive), `IsInside` answers `true` whatever the segments are. -/
theorem outside_window_inside (p : Period) (t : Int)
    (h : p.vb = none ∨ p.ve = none ∨ (∃ vb, p.vb = some vb ∧ t < vb) ∨ (∃ ve, p.ve = some ve ∧ ve < t)) :
    p.isInside t = true := by
  unfold Period.isInside
  rcases h with h | h | ⟨vb, h, hlt⟩ | ⟨ve, h, hlt⟩
  · rw [h]
  · rw [h]; cases p.vb <;> rfl
  · rw [h]; cases hve : p.ve with
    | none => rfl
    | some ve => simp [hlt]
  · rw [h]; cases hvb : p.vb with
    | none => rfl
    | some vb => simp; exact Or.inl (Or.inr hlt)

example : ({ segs := [], vb := some 10, ve := some 20 } : Period).isInside 21 = true ∧
          ({ segs := [], vb := some 10, ve := some 20 } : Period).isInside 20 = false := by decide

/-- **updateRegion_window.**  After any effective `UpdateRegion` the window is set and contains the
    refreshed region, so the formula applies to every instant of it. -/
theorem updateRegion_window (p : Period) (u : UpdIn) (b e : Int) :
    ∃ vb ve, (p.updateRegion u b e true).vb = some vb ∧ (p.updateRegion u b e true).ve = some ve ∧
      vb ≤ b ∧ e ≤ ve := by
  have := region_covers ({ p with segs := [] } : Period) u b e
  simpa [Period.updateRegion, Period.covers] using this


/-! ## Layer 2: calendar (lib/icinga/legacytimeperiod.cpp)

  The full `scriptFunc_spec` (the model's `scriptFunc` output satisfies `calSpec` for every ranges
  dictionary, window and well-behaved time zone) is NOT proved yet; the tie between the literal
  model and the declarative predicate is checked by evaluation on every run (the driver evaluates
  `calSpec` on the implementation's output and diffs the model against the implementation).  Proved so
  far: the sub-lemmas about the two loops/computations that differ most between code and
  specification, and the stride defect F-C08b.
-/

/-- **nth_weekday_correct.**  `FindNthWeekday` terminates for every `n ≠ 0` and returns a day with the
    requested weekday lying in the n-th block of seven days counted from the first day of the month
    (`n > 0`) resp. from its last day backwards (`n < 0`) — i.e. the n-th / n-th last such weekday. -/
theorem nth_weekday_correct (w n y mon : Int) (hw0 : 0 ≤ w) (hw7 : w < 7) (hn : n ≠ 0) :
    ∃ day, findNthWeekday w n y mon = some day ∧ weekdayOf day = w ∧
      (0 < n → daysFromCivil y (mon + 1) 1 + 7 * (n - 1) ≤ day ∧ day < daysFromCivil y (mon + 1) 1 + 7 * n) ∧
      (n < 0 → daysFromCivil y (mon + 2) 0 - 7 * (-n) < day ∧ day ≤ daysFromCivil y (mon + 2) 0 - 7 * (-n - 1)) := by
  unfold findNthWeekday
  by_cases hp : n > 0
  · rw [if_pos hp]
    have h := findNthLoop_fwd w hw0 hw7 (7 * n.toNat) n.toNat (daysFromCivil y (mon + 1) 1) (by omega)
      (by unfold weekdayOf; omega)
    refine ⟨_, h, ?_, ?_, ?_⟩
    · unfold weekdayOf; omega
    · intro _; unfold weekdayOf; omega
    · intro hneg; omega
  · have hneg : n < 0 := by omega
    rw [if_neg hp, if_pos hneg]
    have h := findNthLoop_bwd w hw0 hw7 (7 * (-n).toNat) (-n).toNat (daysFromCivil y (mon + 2) 0) (by omega)
      (by unfold weekdayOf; omega)
    refine ⟨_, h, ?_, ?_, ?_⟩
    · unfold weekdayOf; omega
    · intro hpos; omega
    · intro _; unfold weekdayOf; omega

example : findNthWeekday 1 (-1) 2024 1 = some (daysFromCivil 2024 2 26) := by decide   -- last Monday of Feb 2024

/-- **nth_weekday_agrees_with_spec.**  Whenever the specification's closed form names an n-th weekday
    of a month (`n > 0`), the transcribed search loop returns exactly that day. -/
theorem nth_weekday_agrees_with_spec (w n y m day : Int) (hw0 : 0 ≤ w) (hw7 : w < 7) (hn : 0 < n)
    (h : nthWeekdayOfMonth w n y m = some day) : findNthWeekday w n y (m - 1) = some day := by
  unfold nthWeekdayOfMonth at h
  simp only [hn, if_true] at h
  split at h
  · cases h
    unfold findNthWeekday
    simp only [gt_iff_lt, hn, if_true, Int.sub_add_cancel]
    rw [findNthLoop_fwd w hw0 hw7 _ _ _ (by omega) (by unfold weekdayOf; omega)]
    congr 1; omega
  · cases h

/-- **weekday_next_correct.**  The plain-weekday form (`tm_mday += (7 - tm_wday + wday) % 7`) yields the
    first day on or after the reference with that weekday. -/
theorem weekday_next_correct (D w : Int) (hw0 : 0 ≤ w) (hw7 : w < 7) :
    weekdayOf (D + (7 - weekdayOf D + w) % 7) = w ∧ D ≤ D + (7 - weekdayOf D + w) % 7 ∧
      D + (7 - weekdayOf D + w) % 7 < D + 7 := by
  unfold weekdayOf; omega

/-- **isInTimeRange_calendar_days_partial.**  `IsInTimeRange` compares instants and derives the stride's
    day index from seconds.  Full statement wanted by the property: for every time zone in which
    local midnights are monotone, `isInTimeRange` is "first ≤ D < end and every stride-th *calendar*
    day".  That is false across a UTC-offset change (F-C08b, `stride_dst_counterexample`); proved with
    the extra hypothesis that for a stride > 1 no offset change lies between the first day of the
    range and `D`. -/
theorem isInTimeRange_calendar_days_partial (tz : Tz) (b e stride D : Int)
    (hb : mkDay tz D 0 < mkDay tz b 0 ↔ D < b) (he : mkDay tz D 0 < mkDay tz e 0 ↔ D < e)
    (hs : 1 < stride → mkDay tz D 0 - mkDay tz b 0 = 86400 * (D - b)) :
    isInTimeRange tz b e stride D =
      (decide (b ≤ D) && decide (D < e) && (decide (stride ≤ 1) || (D - b) % stride == 0)) := by
  unfold isInTimeRange
  simp only
  by_cases h1 : mkDay tz D 0 < mkDay tz b 0
  · have : D < b := hb.mp h1
    simp [h1]; omega
  · have h1' : b ≤ D := by have := mt hb.mpr h1; omega
    by_cases h2 : mkDay tz D 0 ≥ mkDay tz e 0
    · have : ¬ D < e := fun h => by have := he.mpr h; omega
      simp [h1, h2, this]
    · have h2' : D < e := he.mp (by omega)
      simp only [h1, h2, or_self, if_false, h1', h2', decide_true, Bool.true_and]
      by_cases h3 : 1 < stride
      · rw [hs h3, Int.mul_ediv_cancel_left _ (by decide : (86400 : Int) ≠ 0)]
        have hnn : 0 ≤ (D - b) % stride := Int.emod_nonneg _ (by omega)
        by_cases h4 : (D - b) % stride = 0
        · simp [h3, h4]
        · have : (D - b) % stride > 0 := by omega
          simp [h3, h4, this]
      · have : stride ≤ 1 := by omega
        simp [h3, this]

/-- Europe/Berlin around the change to summer time on 2026-03-29 01:00 UTC. -/
def berlin2026 : Tz := [(0, 3600), (1774746000, 7200)]

/-- **stride_dst_counterexample** (F-C08b).  `2026-03-27 - 2026-04-03 / 2` under Europe/Berlin: March 30 is
    the 4th day of the range (index 3, odd) and yet matches, because 3 days − 1 hour is 2 when divided
    by 86400. -/
theorem stride_dst_counterexample :
    isInTimeRange berlin2026 (daysFromCivil 2026 3 27) (daysFromCivil 2026 4 4) 2 (daysFromCivil 2026 3 30) = true ∧
    (daysFromCivil 2026 3 30 - daysFromCivil 2026 3 27) % 2 = 1 := by decide

end Icinga.C08

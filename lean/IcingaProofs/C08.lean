/-
  C08 — property theorems.  Every `theorem` in this file is a proof obligation of the check
  (`./check C08` lists them and runs `#print axioms` on each).  Helper lemmas live in
  IcingaProofs/C08/Lemmas.lean (interval algebra) and IcingaProofs/C08/CalLemmas.lean (calendar).

  Layer 1 (this part): the interval algebra of lib/icinga/timeperiod.cpp.
-/
import IcingaProofs.C08.Lemmas
import IcingaProofs.C08.CalLemmas
import IcingaProofs.C08.Nested
import IcingaProofs.C08.CalCore
import IcingaProofs.C08.Tick
import IcingaProofs.C08.World
import IcingaProofs.C08.CalClosed
import IcingaProofs.Gen.C08Tables

namespace Icinga.C08

/-! ## AddSegment: overlapping or adjacent ranges behave as their union -/

/-- **addSeg_union.**  After `AddSegment(b, e)` an instant is covered iff it was covered before or
    lies in `[b, e)` — for *every* stored list (overlapping, unsorted, degenerate) and every `b`, `e`. -/
theorem addSeg_union (S : List Seg) (b e t : Int) :
    inside (addSeg S b e) t = true ↔ inside S t = true ∨ (b ≤ t ∧ t < e) :=
  addSeg_inside S b e t

example : inside (addSeg [(0, 2), (5, 9), (1, 6)] 2 5) 3 = true := by decide
example : (addSeg [(0, 2), (5, 9)] 2 5) = [(0, 5), (5, 9)] := by decide   -- first match only: lists may keep overlaps

/-- **addSeg_comm.**  The covered set does not depend on the insertion order. -/
theorem addSeg_comm (S : List Seg) (a b c d t : Int) :
    inside (addSeg (addSeg S a b) c d) t = inside (addSeg (addSeg S c d) a b) t := by
  rw [Bool.eq_iff_iff, addSeg_union, addSeg_union, addSeg_union, addSeg_union]
  constructor
  · rintro ((h | h) | h)
    · exact Or.inl (Or.inl h)
    · exact Or.inr h
    · exact Or.inl (Or.inr h)
  · rintro ((h | h) | h)
    · exact Or.inl (Or.inl h)
    · exact Or.inr h
    · exact Or.inl (Or.inr h)

/-! ## The canonical form used by the correspondence preserves the covered set -/

/-- **canon_preserves_inside.**  `canon` (drop empty segments, sort, merge overlapping and touching
    segments) never changes the answer of `inside`.  The driver compares `canon` of the
    implementation's and of the model's segment list; hence whenever it reports no difference the
    two lists cover the same instants (`canon_eq_same_denotation`), while a merely differently
    split list is not a difference. -/
theorem canon_preserves_inside (S : List Seg) (t : Int) : inside (canon S) t = inside S t :=
  canon_inside S t

/-- **canon_eq_same_denotation.**  Equal canonical forms ⇒ same covered set. -/
theorem canon_eq_same_denotation (A B : List Seg) (h : canon A = canon B) (t : Int) :
    inside A t = inside B t := by
  rw [← canon_preserves_inside A, ← canon_preserves_inside B, h]

example : canon [(5, 9), (3, 3), (0, 5), (20, 22), (8, 12), (7, 4)] = [(0, 12), (20, 22)] := by decide
/-- touching segments kept apart (what a non-merging AddSegment would store) have the same canonical form -/
example : canon [(0, 5), (5, 9)] = canon [(0, 9)] := by decide
/-- a list whose union differs is told apart -/
example : canon [(0, 5), (6, 9)] ≠ canon [(0, 9)] := by decide

/-! ## RemoveSegment: an exclusion removes exactly the excluded interval

  "… even when it shares its begin or end with a range."  Until commit 9b846ed the pinned code
  violated this (F-C08a: strict comparisons at timeperiod.cpp:153/156 left 09:00–17:00 minus
  09:00–10:00 untouched); the model follows the repaired comparisons and the full statement holds.
-/

/-- **removeSeg_diff.**  After `RemoveSegment(b, e)` an instant is covered iff it was covered before
    and does not lie in `[b, e)` — for every list of non-empty stored segments, shared boundaries
    included. -/
theorem removeSeg_diff (S : List Seg) (b e t : Int) (hbe : b ≤ e) (hwf : ∀ s ∈ S, s.1 < s.2) :
    inside (removeSeg S b e) t = true ↔ inside S t = true ∧ ¬ (b ≤ t ∧ t < e) :=
  removeSeg_inside S b e t hbe hwf

example : removeSeg [(900, 1700), (100, 200)] 1000 1100 = [(900, 1000), (1100, 1700), (100, 200)] := by decide
/-- the former F-C08a witnesses: shared begin, shared end -/
example : removeSeg [(900, 1700)] 900 1000 = [(1000, 1700)] ∧ removeSeg [(900, 1700)] 1600 1700 = [(900, 1600)] := by decide

/-- **removeSeg_sound.**  RemoveSegment never adds an instant and never removes one outside `[b, e)`
    (the two halves of `removeSeg_diff` that also held before the repair). -/
theorem removeSeg_sound (S : List Seg) (b e t : Int) (hbe : b ≤ e) (hwf : ∀ s ∈ S, s.1 < s.2) :
    (inside (removeSeg S b e) t = true → inside S t = true) ∧
    (inside S t = true → ¬ (b ≤ t ∧ t < e) → inside (removeSeg S b e) t = true) :=
  removeSeg_inside_sound S b e t hbe hwf

/-! ## UpdateRegion: ranges, includes, excludes, prefer_includes -/

/-- **updateRegion_spec.**  For every period state, update inputs, region `b ≤ e`, `clear` flag and
    list of instants, the model's observation of one `UpdateRegion` call satisfies the executable
    specification: the reported window contains the refreshed region; outside the window every
    instant is "inside"; inside the window an instant is inside iff `(own ∪ includes) \ excludes`
    (`prefer_includes = false`) resp. `(own \ excludes) ∪ includes` (`prefer_includes = true`),
    where for a non-clearing update the previously stored segments outside the refreshed region
    count as own.  Only hypothesis: all segments are non-empty. -/
theorem updateRegion_spec (p : Period) (u : UpdIn) (b e : Int) (clear : Bool) (ts : List Int)
    (hbe : b ≤ e)
    (hS : clear = false → ∀ s ∈ p.segs, s.1 < s.2) (hown : ∀ s ∈ u.own, s.1 < s.2)
    (hinc : ∀ L ∈ u.incs, ∀ s ∈ L, s.1 < s.2) (hexc : ∀ L ∈ u.excs, ∀ s ∈ L, s.1 < s.2) :
    specUpdate (observe p u b e clear ts) = none := by
  cases clear with
  | true =>
    -- clearing update: `{p with segs := []}.region u b e`
    have hup : p.updateRegion u b e true = ({ p with segs := [] } : Period).region u b e := by
      simp [Period.updateRegion]
    refine spec_core ({ p with segs := [] } : Period) u b e _ ts hbe (by simp) hown hinc hexc
      (by simp [UpdObs.noop, observe]) (by simp [UpdObs.effB, observe])
      (by simp [observe]) (by simp [observe, hup]) (by simp [observe, hup]) ?_ (by simp [observe, hup])
    intro t
    unfold expectInside formula
    simp only [observe, any_inside_flatten, if_true, Bool.false_or, inside_nil, Bool.false_and]
  | false =>
    by_cases hlt : e < numOf p.ve
    · -- ends before the old valid_end: nothing happens
      have hup : p.updateRegion u b e false = p := by simp [Period.updateRegion, hlt]
      unfold specUpdate
      simp [UpdObs.noop, observe, hlt, hup]
    · have hup : p.updateRegion u b e false = p.region u (p.effBegin b false) e := by
        simp [Period.updateRegion, Period.effBegin, hlt]
      have hb'e : p.effBegin b false ≤ e := by
        simp only [Period.effBegin, Bool.false_eq_true, if_false]; split <;> omega
      refine spec_core p u (p.effBegin b false) e _ ts hb'e (hS rfl) hown hinc hexc
        (by simp [UpdObs.noop, observe, hlt]) rfl
        (by simp [observe]) (by simp [observe, hup]) (by simp [observe, hup]) ?_ (by simp [observe, hup])
      intro t
      unfold expectInside formula
      simp only [observe, any_inside_flatten, Bool.false_eq_true, if_false, UpdObs.effB, Period.effBegin]
      rfl

/-- Non-vacuity: a clearing update with an include, excludes that share boundaries with the ranges
    (12 = begin of nothing, but 10–14 shares its begin with 10–20 and 35–40 its end with 30–40) and
    `prefer_includes = false`; the observation is non-trivial. -/
example :
    let u : UpdIn := { prefer := false, own := [(10, 20), (30, 40)], incs := [[(18, 32)]], excs := [[(10, 14), (35, 40)]] }
    (observe {} u 0 100 true [9, 10, 13, 14, 25, 34, 36, 40, 101]).queries =
      [(9, false), (10, false), (13, false), (14, true), (25, true), (34, true), (36, false), (40, false), (101, true)] := by decide

/-- The former F-C08a witness at the level of the whole property now meets the specification. -/
example :
    specUpdate (observe {} { prefer := false, own := [(900, 1700)], incs := [], excs := [[(900, 1000)]] }
      0 2400 true [899, 900, 950, 1000]) = none := by decide

/-- The spec rejects a wrong trace (an instant reported outside although it lies in an included
    period). -/
example :
    specUpdate { prefer := true, clear := true, b := 0, e := 100, own := [(10, 20)], incs := [[(30, 40)]], excs := [],
                 preSegs := [], preVe := none, vb := some 0, ve := some 100, postSegs := [(10, 20), (30, 40)],
                 queries := [(35, false)] } = some .insideFormula := by decide

/-- **outside_window_inside.**  The documented default: without a computed window, or outside it
    (both bounds inclusive), `IsInside` answers `true` whatever the segments are. -/
theorem outside_window_inside (p : Period) (t : Int)
    (h : p.vb = none ∨ p.ve = none ∨ (∃ vb, p.vb = some vb ∧ t < vb) ∨ (∃ ve, p.ve = some ve ∧ ve < t)) :
    p.isInside t = true := by
  unfold Period.isInside
  rcases h with h | h | ⟨vb, h, hlt⟩ | ⟨ve, h, hlt⟩
  · rw [h]
  · rw [h]; cases p.vb <;> rfl
  · rw [h]; cases hve : p.ve with
    | none => rfl
    | some ve => simp [hlt]
  · rw [h]; cases hvb : p.vb with
    | none => rfl
    | some vb => simp; exact Or.inl (Or.inr hlt)

example : ({ segs := [], vb := some 10, ve := some 20 } : Period).isInside 21 = true ∧
          ({ segs := [], vb := some 10, ve := some 20 } : Period).isInside 20 = false := by decide

/-- **updateRegion_window.**  After any effective `UpdateRegion` the window is set and contains the
    refreshed region, so the formula applies to every instant of it. -/
theorem updateRegion_window (p : Period) (u : UpdIn) (b e : Int) :
    ∃ vb ve, (p.updateRegion u b e true).vb = some vb ∧ (p.updateRegion u b e true).ve = some ve ∧
      vb ≤ b ∧ e ≤ ve := by
  have := region_covers ({ p with segs := [] } : Period) u b e
  simpa [Period.updateRegion, Period.covers] using this


/-! ## Activation, PurgeSegments and the 300 s update timer -/

/-- **start_spec.**  `TimePeriod::Start` (clearing pre-fill of `[now, now + 24 h]`): the observation
    satisfies the update specification, for every previous state, inputs and clock value. -/
theorem start_spec (p : Period) (u : UpdIn) (now : Int) (ts : List Int)
    (hown : ∀ s ∈ u.own, s.1 < s.2)
    (hinc : ∀ L ∈ u.incs, ∀ s ∈ L, s.1 < s.2) (hexc : ∀ L ∈ u.excs, ∀ s ∈ L, s.1 < s.2) :
    (p.start u now) = p.updateRegion u now (now + 86400) true ∧
    specUpdate (observe p u now (now + 86400) true ts) = none :=
  ⟨rfl, updateRegion_spec p u now (now + 86400) true ts (by omega) (by intro h; cases h) hown hinc hexc⟩

/-- **purge_keeps_future.**  `PurgeSegments(c)` never changes an answer from the cut-off on: for every
    period and every `t ≥ c`, `IsInside(t)` is the same before and after — although the window's
    begin moves forward and whole segments are dropped.  (Before the cut-off the answers become
    "inside": outside the window.) -/
theorem purge_keeps_future (p : Period) (c t : Int) (ht : c ≤ t) :
    (p.purge c).isInside t = p.isInside t := by
  have hin := purge_inside p c t ht
  have hve := purge_ve p c
  have hvb := purge_vb p c
  unfold Period.isInside
  rw [hve, hvb, hin]
  cases p.vb with
  | none => rfl
  | some x =>
    cases p.ve with
    | none => rfl
    | some y =>
      simp only
      by_cases hx : x < c
      · simp only [hx, if_true]
        have h1 : ¬ t < c := by omega
        have h2 : ¬ t < x := by omega
        simp [h1, h2]
      · simp [hx]

/-- the purged period differs before the cut-off: 09–17 was inside at 10, after purging at 18 the
    instant 10 lies outside the window (hence "inside"), 19 keeps its answer -/
example :
    let p : Period := { segs := [(9, 17), (20, 30)], vb := some 0, ve := some 40 }
    (p.purge 18).segs = [(20, 30)] ∧ (p.purge 18).vb = some 18 ∧ p.isInside 8 = false ∧
      (p.purge 18).isInside 8 = true ∧ (p.purge 18).isInside 19 = false := by decide

/-- **timerTick_spec.**  One run of `UpdateTimerHandler` on one period — `PurgeSegments(now − 1 h)`
    followed by the non-clearing `UpdateRegion(valid_end, now + 24 h)` — for every period state,
    update inputs, clock value and list of instants: the window afterwards reaches from at most
    `now` (or the old begin, if later) to at least `now + 24 h`; every instant from the cut-off on
    is "inside" outside the window and follows the property's formula inside it, where the
    segments stored BEFORE the run count as own outside the refreshed region
    `[old valid_end, now + 24 h)`; and a run that has nothing to refresh changes no answer.
    Only hypothesis: all segments are non-empty. -/
theorem timerTick_spec (p : Period) (u : UpdIn) (now : Int) (ts : List Int)
    (hS : ∀ s ∈ p.segs, s.1 < s.2) (hown : ∀ s ∈ u.own, s.1 < s.2)
    (hinc : ∀ L ∈ u.incs, ∀ s ∈ L, s.1 < s.2) (hexc : ∀ L ∈ u.excs, ∀ s ∈ L, s.1 < s.2) :
    specTick (observeTick p u now ts) = none :=
  timerTick_core p u now ts hS hown hinc hexc

/-- Non-vacuity: the period was filled for [100000, 186400] with 09–17-like ranges; the timer runs at
    105000 (cut-off 101400): the segment that ended at 101000 is dropped, the window is extended to
    191400 with a new own segment, an excluded period cuts it. -/
example :
    let p : Period := { segs := [(100500, 101000), (120000, 150000)], vb := some 100000, ve := some 186400 }
    let u : UpdIn := { prefer := true, own := [(186400, 190000)], incs := [], excs := [[(188000, 189000)]] }
    (p.tick u 105000).segs = [(120000, 150000), (186400, 188000), (189000, 190000)] ∧
    (p.tick u 105000).vb = some 101400 ∧ (p.tick u 105000).ve = some 191400 ∧
    (observeTick p u 105000 [100600, 101400, 130000, 187000, 188500, 191401]).upd.queries =
      [(100600, true), (101400, false), (130000, true), (187000, true), (188500, false), (191401, true)] := by decide

/-- The tick spec rejects a wrong trace: the running segment 120000–150000 was dropped by the purge
    (what `end >= cutoff` ⇒ `begin >= cutoff` would do) and the period flipped to "outside". -/
example :
    specTick { upd := { prefer := true, clear := false, b := 186400, e := 191400, own := [], incs := [], excs := [],
                        preSegs := [(120000, 150000)], preVe := some 186400, vb := some 130000, ve := some 191400,
                        postSegs := [], queries := [(140000, false)] },
               cutoff := 130000, now := 133600, preVb := some 100000 } = some .tickInside := by decide

/-! ## The own ranges are computed for the whole refreshed region -/

/-- **update_asks_refreshed_region.**  For every state, region and flag: whenever `UpdateRegion` refreshes a region, the
    update function (the calendar layer) is invoked with a region that covers it (`specAsk`), so no instant of the
    refreshed region is answered without its ranges having been evaluated. -/
theorem update_asks_refreshed_region (p : Period) (u : UpdIn) (b e : Int) (clear : Bool) (ts : List Int) :
    specAsk (observe p u b e clear ts) (p.asked b e clear) = none := by
  unfold specAsk Period.asked UpdObs.noop UpdObs.effB Period.effBegin observe
  simp only
  cases clear <;> by_cases h : e < numOf p.ve <;> simp [h]

/-- **tick_asks_refreshed_region.**  The same for the non-clearing update of a timer run (after the purge). -/
theorem tick_asks_refreshed_region (p : Period) (u : UpdIn) (now : Int) (ts : List Int) :
    specAsk (observeTick p u now ts).upd ((p.purge (now - 3600)).asked (numOf (p.purge (now - 3600)).ve) (now + 86400) false) = none := by
  rw [purge_ve]
  unfold specAsk Period.asked UpdObs.noop UpdObs.effB Period.effBegin observeTick
  simp only [purge_ve]
  by_cases h : now + 86400 < numOf p.ve <;> simp [h]

/-- The clause rejects a call that refreshed [50, 100] (old valid_end 50) but had the ranges computed for [60, 100] only. -/
example : specAsk (observe { segs := [], vb := some 0, ve := some 50 } { prefer := true, own := [], incs := [], excs := [] } 10 100 false [])
    (some (60, 100)) = some .ownComputed := by decide

/-! ## Agreement with the referenced periods themselves (F-C08c)

  Full statement the property asks for (NOT true of the code, see `start_order_counterexample`):

      at every instant in the window of a period and of the periods it refers to, its answer
      follows the formula with the referenced periods' own current answers
      (`specRefs … = none` with `incNow`/`excNow` = `IsInside(t)` of the referenced periods now).

  `Merge` works on the segments the referenced period has materialised at that moment.  A
  period that is started (or extended by the timer) BEFORE a period it refers to merges
  nothing for the region concerned and keeps ignoring the include / exclude there until its own
  next effective update — which, when its own segments reach further than a day ahead
  (ScriptFunc returns whole days), is up to a day away. -/

/-- **refs_agree_partial.**  Exact extra hypothesis: the referenced periods answer now, at `t`, what
    their merged segment lists said (`hi`, `hx`) — i.e. they had been computed for `t` before this
    period merged them and have not changed since.  Then, for every effective update, the answer
    agrees with the referenced periods themselves. -/
theorem refs_agree_partial (p : Period) (u : UpdIn) (b e : Int) (clear : Bool) (t : Int)
    (incNow excNow : List Bool)
    (hbe : b ≤ e)
    (hS : clear = false → ∀ s ∈ p.segs, s.1 < s.2) (hown : ∀ s ∈ u.own, s.1 < s.2)
    (hinc : ∀ L ∈ u.incs, ∀ s ∈ L, s.1 < s.2) (hexc : ∀ L ∈ u.excs, ∀ s ∈ L, s.1 < s.2)
    (hnoop : (observe p u b e clear [t]).noop = false)
    (hi : incNow.any id = u.incs.any (fun L => inside L t))
    (hx : excNow.any id = u.excs.any (fun L => inside L t)) :
    specRefs (observe p u b e clear [t]) incNow excNow (t, (p.updateRegion u b e clear).isInside t) = none := by
  have h := updateRegion_spec p u b e clear [t] hbe hS hown hinc hexc
  unfold specUpdate at h
  rw [hnoop] at h
  simp only [Bool.false_eq_true, if_false] at h
  have hex : expectWithRefs (observe p u b e clear [t]) (incNow.any id) (excNow.any id) t =
      expectInside (observe p u b e clear [t]) t := by
    unfold expectWithRefs ownPart expectInside
    rw [hnoop, hi, hx]
    simp [observe]
  unfold specRefs
  cases hw : specWindow (observe p u b e clear [t]) with
  | some c => rw [hw] at h; cases h
  | none =>
    rw [hw] at h
    have hq : (observe p u b e clear [t]).queries = [(t, (p.updateRegion u b e clear).isInside t)] := rfl
    rw [hq] at h
    simp only [specQueries] at h
    have hq2 : specQuery (observe p u b e clear [t]) (t, (p.updateRegion u b e clear).isInside t) = none := by
      cases h2 : specQuery (observe p u b e clear [t]) (t, (p.updateRegion u b e clear).isInside t) with
      | none => rfl
      | some c => rw [h2] at h; cases h
    unfold specQuery at hq2
    cases hvb : (observe p u b e clear [t]).vb with
    | none => rfl
    | some vb =>
      cases hve : (observe p u b e clear [t]).ve with
      | none => rfl
      | some ve =>
        rw [hvb, hve] at hq2
        simp only at hq2 ⊢
        by_cases hout : t < vb ∨ t > ve
        · simp [hout]
        · simp only [hout, if_false] at hq2 ⊢
          rw [hex]
          by_cases heq : (p.updateRegion u b e clear).isInside t = expectInside (observe p u b e clear [t]) t
          · simp [heq]
          · simp [heq] at hq2

/-- **start_order_counterexample.**  The period P (own 0–200000, excludes B, B = 100–200) is started
    before B: B has no segments yet, P merges nothing.  Afterwards both windows contain 150, B
    answers "inside", P answers "inside" as well although 150 lies in its excluded period — and the
    next timer run has nothing to refresh (P's own segment reaches beyond now + 24 h), so it stays. -/
theorem start_order_counterexample :
    let uB : UpdIn := { prefer := true, own := [(100, 200)], incs := [], excs := [] }
    let uP0 : UpdIn := { prefer := true, own := [(0, 200000)], incs := [], excs := [[]] }       -- B not started yet: nothing to merge
    let P1 := ({} : Period).start uP0 0
    let B1 := ({} : Period).start uB 0
    let uP1 : UpdIn := { prefer := true, own := [], incs := [], excs := [B1.segs] }
    P1.isInside 150 = true ∧ B1.isInside 150 = true ∧
    specRefs (observe {} uP0 0 86400 true []) [] [B1.isInside 150] (150, P1.isInside 150) = some .refsAgree ∧
    -- and the timer does not repair it while the period's own segments reach further than a day ahead
    (P1.tick uP1 300).isInside 150 = true := by decide


/-! ## Any nesting of includes and excludes -/

/-- **nested_forest_spec.**  For every include/exclude forest of any depth (`PTree`), evaluated the way
    the implementation does — every referenced period is updated over the same region before the
    period that refers to it, each through `UpdateRegion` — and every instant of the region, `IsInside`
    equals the property's recursive meaning `PTree.sem`: own ranges, united with the included periods
    and minus the excluded ones, `prefer_includes` deciding the overlap, at every level.
    By mutual induction over the forest (IcingaProofs/C08/Nested.lean). -/
theorem nested_forest_spec (T : PTree) (b e t : Int) (hbe : b ≤ e) (hwf : T.WF) (hb : b ≤ t) (he : t ≤ e) :
    (T.evalP b e).isInside t = T.sem t := by
  rw [isInside_of_covers _ b e t (evalP_covers b e T) hb he]
  exact (evalP_ok b e hbe T hwf).2 t

/-- depth 3: 0–10 minus (2–8 minus 4–6) -/
example :
    let T := PTree.node false [(0, 10)] [] [PTree.node true [(2, 8)] [] [PTree.node true [(4, 6)] [] []]]
    (T.evalP 0 20).segs = [(0, 2), (4, 6), (8, 10)] ∧ T.sem 5 = true ∧ T.sem 3 = false := by decide

/-! ## Whole runs over several periods: includes / excludes looked up by name (IcingaModel/C08/World.lean) -/

/-- **update_step_ok.**  One `UpdateRegion` on one object of a world: the invariant is kept and the observation
    meets the specification, the merged lists being those of the world. -/
theorem update_step_ok (ts : List Int) (W : World) (hW : W.WF) (id : Nat) (b e : Int) (clear : Bool) (own : List Seg)
    (hbe : b ≤ e) (hown : SegsWF own) :
    (W.update ts id b e clear own).1.WF ∧ ∀ o ∈ (W.update ts id b e clear own).2, specStep o = none := by
  unfold World.update
  cases hf : W.find id with
  | none => exact ⟨hW, by intro o ho; cases ho⟩
  | some en =>
    have hen := hW en (W.find_mem id en hf)
    have hi := W.segsOf_wf hW en.cfg.incs
    have hx := W.segsOf_wf hW en.cfg.excs
    refine ⟨?_, ?_⟩
    · apply World.set_wf W hW
      intro x hx'
      exact updateRegion_wf x.st _ b e clear (hW x hx') hown hi
    · intro o ho
      simp only [List.mem_singleton] at ho
      subst ho
      exact updateRegion_spec en.st _ b e clear ts hbe (fun _ => hen) hown hi hx

theorem set_active_wf (W : World) (hW : W.WF) (id : Nat) :
    (W.set id fun x => { x with active := true }).WF :=
  World.set_wf W hW id _ (fun en hen => hW en hen)

/-- **tickLoop_ok.**  The loop of `UpdateTimerHandler`, for every iteration order (duplicates, unknown and inactive
    ids included): every period's turn meets the tick specification against the world as it is at that turn. -/
theorem tickLoop_ok (ts : List Int) (now : Int) (owns : List (Nat × List Seg)) (ho : ∀ kv ∈ owns, SegsWF kv.2) :
    ∀ (order : List Nat) (W : World), W.WF →
      (World.tickLoop ts now owns W order).1.WF ∧ ∀ o ∈ (World.tickLoop ts now owns W order).2, specStep o = none := by
  intro order
  induction order with
  | nil => intro W hW; exact ⟨hW, by intro o h; cases h⟩
  | cons id rest ih =>
    intro W hW
    unfold World.tickLoop
    cases hf : W.find id with
    | none => exact ih W hW
    | some en =>
      simp only
      by_cases ha : en.active = true
      · simp only [ha, if_true]
        have hen := hW en (W.find_mem id en hf)
        have hi := W.segsOf_wf hW en.cfg.incs
        have hx := W.segsOf_wf hW en.cfg.excs
        have hown := ownOf_wf owns ho id
        have hW' : (W.set id fun x => { x with st := x.st.tick (W.updIn en.cfg (ownOf owns id)) now }).WF := by
          apply World.set_wf W hW
          intro x hx'
          exact tick_wf x.st _ now (hW x hx') hown hi
        obtain ⟨h1, h2⟩ := ih _ hW'
        refine ⟨h1, ?_⟩
        intro o hmem
        rw [List.mem_cons] at hmem
        rcases hmem with rfl | hmem
        · exact timerTick_spec en.st _ now ts hen hown hi hx
        · exact h2 o hmem
      · simp only [ha]
        exact ih W hW

/-- **step_ok.**  Every operation keeps the invariant and produces only observations that meet the specification. -/
theorem step_ok (ts : List Int) (W : World) (hW : W.WF) (op : Op) (hop : op.WF) :
    (W.step ts op).1.WF ∧ ∀ o ∈ (W.step ts op).2, specStep o = none := by
  cases op with
  | update id b e clear own => exact update_step_ok ts W hW id b e clear own hop.1 hop.2
  | start id now own =>
    obtain ⟨h1, h2⟩ := update_step_ok ts W hW id now (now + 86400) true own (by omega) hop
    exact ⟨set_active_wf _ h1 id, h2⟩
  | tick now order owns => exact tickLoop_ok ts now owns hop order W hW

/-- **world_trace_spec.**  Whole-trace theorem.  For every set of configured periods (any `includes` / `excludes`
    names — cyclic, dangling, self-referring —, any `prefer_includes`), every state `W` whose stored segments are
    non-empty, and EVERY sequence of operations — `UpdateRegion` with any region `b ≤ e` and flag, activations in
    any order, timer runs at any clock values in any iteration order, with whatever non-empty segments the update
    functions return — every observation of the run satisfies the specification predicate: window, default outside
    it, and the inside-formula with the lists looked up by name at that moment.  No bound on lengths; the
    invariant is established by `step_ok`. -/
theorem world_trace_spec (ts : List Int) (ops : List Op) : ∀ (W : World), W.WF → (∀ op ∈ ops, op.WF) →
    ∀ o ∈ (World.run ts W ops).2, specStep o = none := by
  induction ops with
  | nil => intro W _ _ o h; cases h
  | cons op ops ih =>
    intro W hW hops o ho
    unfold World.run at ho
    simp only [List.mem_append] at ho
    obtain ⟨h1, h2⟩ := step_ok ts W hW op (hops op (List.mem_cons_self))
    rcases ho with ho | ho
    · exact h2 o ho
    · exact ih _ h1 (fun op' h => hops op' (List.mem_cons_of_mem _ h)) o ho


/-- **world_trace_spec_from_config.**  The same from the initial state: for every configuration (ids with their
    attributes, nothing computed yet, nothing active) and every sequence of well-formed operations. -/
theorem world_trace_spec_from_config (ts : List Int) (cfg : List (Nat × PCfg)) (ops : List Op)
    (hops : ∀ op ∈ ops, op.WF) :
    ∀ o ∈ (World.run ts (cfg.map fun c => ({ id := c.1, cfg := c.2 } : PEntry)) ops).2, specStep o = none := by
  apply world_trace_spec ts ops _ _ hops
  intro en hen
  rw [List.mem_map] at hen
  obtain ⟨c, _, rfl⟩ := hen
  intro s hs
  cases hs

/-- Non-vacuity: P (id 0, own 0–200000 from its update function) excludes B (id 1, 100–200) and includes the
    dangling name 7.  B is started, then P, then the timer runs once (order P, B) a day later: the trace has four
    observations, P answers "outside" at 150 and "inside" at 50, and the run of the timer extends both windows. -/
example :
    let cfg : List (Nat × PCfg) := [(0, { prefer := true, incs := [7], excs := [1] }), (1, { prefer := true, incs := [], excs := [] })]
    let W0 : World := cfg.map fun c => ({ id := c.1, cfg := c.2 } : PEntry)
    let r := World.run [50, 150] W0 [.start 1 0 [(100, 200)], .start 0 0 [(0, 200000)],
                                     .tick 86400 [0, 1] [(0, []), (1, [(90000, 90100)])]]
    r.2.length = 4 ∧
    (r.2.map fun o => match o with | .upd i o => (i, o.queries) | .tick i k => (i, k.upd.queries)) =
      [(1, [(50, false), (150, true)]), (0, [(50, true), (150, false)]),
       (0, [(50, true), (150, true)]), (1, [(50, true), (150, true)])] ∧
    ((r.1.find 0).map fun en => (en.st.vb, en.st.ve)) = some (some 82800, some 200000) ∧
    ((r.1.find 1).map fun en => en.st.segs) = some [(90000, 90100)] := by decide

/-- The step specification rejects a wrong trace (window does not cover the region). -/
example :
    specStep (.upd 0 { prefer := true, clear := true, b := 0, e := 100, own := [], incs := [], excs := [],
                       preSegs := [], preVe := none, vb := some 0, ve := some 50, postSegs := [], queries := [] })
      = some .windowCovers := by decide

/-- **world_start_order_counterexample.**  F-C08c at the level of whole runs: the same configuration (P = id 0 with own
    0–200000 excludes B = id 1 with own 100–200), the same two activations at the same instant — only their order
    differs.  B first: P answers "outside" at 150.  P first: the name resolves, but B has no segments yet; afterwards
    both windows contain 150, B answers "inside" and P answers "inside" too, although every observation of the run
    satisfies `specStep` (`world_trace_spec`): the per-call specification speaks about the lists that were merged, the
    property about the excluded period.  A timer run 5 minutes later changes nothing. -/
theorem world_start_order_counterexample :
    let cfg : List (Nat × PCfg) := [(0, { prefer := true, incs := [], excs := [1] }), (1, { prefer := true, incs := [], excs := [] })]
    let W0 : World := cfg.map fun c => ({ id := c.1, cfg := c.2 } : PEntry)
    let good := (World.run [] W0 [.start 1 0 [(100, 200)], .start 0 0 [(0, 200000)]]).1
    let bad := (World.run [] W0 [.start 0 0 [(0, 200000)], .start 1 0 [(100, 200)], .tick 300 [0, 1] []]).1
    ((good.find 0).map fun en => en.st.isInside 150) = some false ∧
    ((bad.find 0).map fun en => en.st.isInside 150) = some true ∧
    ((bad.find 1).map fun en => en.st.isInside 150) = some true := by decide

/-! ## Layer 2: calendar (lib/icinga/legacytimeperiod.cpp)

  The calendar model has a string reader and a token-level core (IcingaModel/C08/Calendar.lean).
  The theorems below are about the core, for every token list, window and time-zone parameter
  satisfying `TzOk` (every local day lasts 23–46 h, `localDay` is consistent with the midnights)
  and, where a stride is counted, `TzDrift` (offsets at two midnights differ by < 12 h).  The reader
  is tied to the code by the correspondence runs.
-/

/-- **nth_weekday_correct.**  `FindNthWeekday` terminates for every `n ≠ 0` and returns a day with the
    requested weekday lying in the n-th block of seven days counted from the first day of the month
    (`n > 0`) resp. from its last day backwards (`n < 0`) — i.e. the n-th / n-th last such weekday. -/
theorem nth_weekday_correct (w n y mon : Int) (hw0 : 0 ≤ w) (hw7 : w < 7) (hn : n ≠ 0) :
    ∃ day, findNthWeekday w n y mon = some day ∧ weekdayOf day = w ∧
      (0 < n → daysFromCivil y (mon + 1) 1 + 7 * (n - 1) ≤ day ∧ day < daysFromCivil y (mon + 1) 1 + 7 * n) ∧
      (n < 0 → daysFromCivil y (mon + 2) 0 - 7 * (-n) < day ∧ day ≤ daysFromCivil y (mon + 2) 0 - 7 * (-n - 1)) := by
  unfold findNthWeekday
  by_cases hp : n > 0
  · rw [if_pos hp]
    have h := findNthLoop_fwd w hw0 hw7 (7 * n.toNat) n.toNat (daysFromCivil y (mon + 1) 1) (by omega)
      (by unfold weekdayOf; omega)
    refine ⟨_, h, ?_, ?_, ?_⟩
    · unfold weekdayOf; omega
    · intro _; unfold weekdayOf; omega
    · intro hneg; omega
  · have hneg : n < 0 := by omega
    rw [if_neg hp, if_pos hneg]
    have h := findNthLoop_bwd w hw0 hw7 (7 * (-n).toNat) (-n).toNat (daysFromCivil y (mon + 2) 0) (by omega)
      (by unfold weekdayOf; omega)
    refine ⟨_, h, ?_, ?_, ?_⟩
    · unfold weekdayOf; omega
    · intro hpos; omega
    · intro _; unfold weekdayOf; omega

example : findNthWeekday 1 (-1) 2024 1 = some (daysFromCivil 2024 2 26) := by decide   -- last Monday of Feb 2024

/-- **nth_weekday_agrees_with_spec.**  Whenever the specification's closed form names an n-th weekday
    of a month (`n > 0`), the transcribed search loop returns exactly that day. -/
theorem nth_weekday_agrees_with_spec (w n y m day : Int) (hw0 : 0 ≤ w) (hw7 : w < 7) (hn : 0 < n)
    (h : nthWeekdayOfMonth w n y m = some day) : findNthWeekday w n y (m - 1) = some day := by
  unfold nthWeekdayOfMonth at h
  simp only [hn, if_true] at h
  split at h
  · cases h
    unfold findNthWeekday
    simp only [gt_iff_lt, hn, if_true, Int.sub_add_cancel]
    rw [findNthLoop_fwd w hw0 hw7 _ _ _ (by omega) (by unfold weekdayOf; omega)]
    congr 1; omega
  · cases h

/-- **weekday_next_correct.**  The plain-weekday form (`tm_mday += (7 - tm_wday + wday) % 7`) yields the
    first day on or after the reference with that weekday. -/
theorem weekday_next_correct (D w : Int) (hw0 : 0 ≤ w) (hw7 : w < 7) :
    weekdayOf (D + (7 - weekdayOf D + w) % 7) = w ∧ D ≤ D + (7 - weekdayOf D + w) % 7 ∧
      D + (7 - weekdayOf D + w) % 7 < D + 7 := by
  unfold weekdayOf; omega

/-- **isInTimeRange_calendar_days.**  `IsInTimeRange` compares instants and derives the stride's day
    index from the rounded distance of two local midnights; for every time zone satisfying `TzOk`
    and `TzDrift` this is "first ≤ D < end, every stride-th *calendar* day counted from the first".
    (Full statement since the repair of F-C08b, commit 3f58d09; before, the index was truncated
    and March 30 matched `2026-03-27 - 2026-04-03 / 2` under Europe/Berlin.) -/
theorem isInTimeRange_calendar_days (tz : Tz) (h : TzOk tz) (hd : TzDrift tz) (b e stride D : Int) :
    isInTimeRange tz b e stride D =
      (decide (b ≤ D) && decide (D < e) && (decide (stride ≤ 1) || (D - b) % stride == 0)) :=
  isInTimeRange_days tz h hd b e stride D

/-- Europe/Berlin around the change to summer time on 2026-03-29 01:00 UTC. -/
def berlin2026 : Tz := [(0, 3600), (1774746000, 7200)]

/-- Regression for F-C08b: `2026-03-27 - 2026-04-03 / 2` under Europe/Berlin no longer matches March 30
    (index 3) and matches March 29 and 31 (indices 2, 4). -/
example :
    isInTimeRange berlin2026 (daysFromCivil 2026 3 27) (daysFromCivil 2026 4 4) 2 (daysFromCivil 2026 3 30) = false ∧
    isInTimeRange berlin2026 (daysFromCivil 2026 3 27) (daysFromCivil 2026 4 4) 2 (daysFromCivil 2026 3 29) = true ∧
    isInTimeRange berlin2026 (daysFromCivil 2026 3 27) (daysFromCivil 2026 4 4) 2 (daysFromCivil 2026 3 31) = true := by decide

/-- The hypotheses on the time-zone parameter are satisfiable (UTC = empty offset list). -/
theorem tz_hypotheses_satisfiable : TzOk [] ∧ TzDrift [] := by
  have hm : ∀ D s, mkDay [] D s = D * 86400 + s := by
    intro D s; simp [mkDay, mkLocal, offAt]
  have hl : ∀ t, localDay [] t = t / 86400 := by
    intro t; simp [localDay, offAt]
  refine ⟨⟨?_, ?_⟩, ?_⟩
  · intro D; rw [hm, hm]; omega
  · intro t; rw [hl, hm, hm]; omega
  · intro D D' _; rw [hm, hm]; omega

/-- **day_loop_covers.**  The day loop of `ScriptFunc` visits exactly the local calendar days from the
    day of `begin` up to the last day whose midnight is not after `end`, each of them once and in
    order — also across 23- and 25-hour days, and the fuel bound of the model is never what ends
    the loop. -/
theorem day_loop_covers (tz : Tz) (h : TzOk tz) (b e : Int) :
    (∀ D, D ∈ loopDays tz e (loopFuel b e) (localDay tz b) ↔ localDay tz b ≤ D ∧ mkDay tz D 0 ≤ e) ∧
    (loopDays tz e (loopFuel b e) (localDay tz b)).Pairwise (· < ·) :=
  ⟨loopDays_mem tz h e _ _ (loopFuel_enough tz h b e), (loopDays_increasing tz e _ _).2⟩

/-- **scriptFunc_spec.**  Whenever `ScriptFunc` (token-level core) returns, an instant lies in a returned
    segment iff there are a local calendar day `D` of the window (from the day of `begin` to the
    last day whose midnight is ≤ `end`), an entry whose day definition matches `D`, and one of its
    ranges with `mk(D, b) ≤ t < mk(D, e')` (`e'` on the next day for ranges that wrap or end at 24:00).
    For every entry list, window and time zone satisfying `TzOk`. -/
theorem scriptFunc_spec (tz : Tz) (h : TzOk tz) (entries : List EntryTok) (b e : Int) (segs : List Seg)
    (hr : scriptFuncTok tz entries b e = some segs) (t : Int) :
    inside segs t = true ↔
      ∃ D, localDay tz b ≤ D ∧ mkDay tz D 0 ≤ e ∧ ∃ en ∈ entries, EntryCovers tz en D t := by
  unfold scriptFuncTok at hr
  rw [dayLoop_spec tz entries e t _ _ segs hr]
  have hm := (day_loop_covers tz h b e).1
  constructor
  · rintro ⟨D, hD, hc⟩
    obtain ⟨h1, h2⟩ := (hm D).mp hD
    exact ⟨D, h1, h2, hc⟩
  · rintro ⟨D, h1, h2, hc⟩
    exact ⟨D, (hm D).mpr ⟨h1, h2⟩, hc⟩

/-- Non-vacuity: Mondays 09:00–17:00 and every day 22:00–02:00 (wrapping) around the Berlin change to
    summer time; Sunday 2026-03-29 has 23 hours. -/
example :
    scriptFuncTok berlin2026
      [{ dayDef := some { first := .weekday 1, second := none, stride := 1 }, ranges := some [(32400, 61200)] },
       { dayDef := some { first := .date 2026 3 28, second := none, stride := 1 }, ranges := some [(79200, 7200)] }]
      1774652400 1774911600
      = some [(1774731600, 1774746000), (1774854000, 1774882800)] := by decide

/-- **dayMatches_single.**  A definition without a second day matches exactly the day its
    specification resolves to (the stride is irrelevant). -/
theorem dayMatches_single (tz : Tz) (h : TzOk tz) (s : SpecTok) (stride D : Int) :
    dayMatchesTok tz { first := s, second := none, stride := stride } D =
      (resolveDay s D).map (fun d => decide (D = d)) := by
  unfold dayMatchesTok dayDefSpan
  cases hres : resolveDay s D with
  | none => simp
  | some d => simp [isInTimeRange_single tz h d stride D]

/-- **dayMatches_weekday.**  "monday" matches exactly the Mondays. -/
theorem dayMatches_weekday (tz : Tz) (h : TzOk tz) (w stride D : Int) (hw0 : 0 ≤ w) (hw7 : w < 7) :
    dayMatchesTok tz { first := .weekday w, second := none, stride := stride } D =
      some (decide (weekdayOf D = w)) := by
  rw [dayMatches_single tz h]
  simp only [resolveDay, Option.map_some, Option.some.injEq, decide_eq_decide]
  unfold weekdayOf; omega

/-- **dayMatches_date.**  "YYYY-MM-DD" matches exactly that calendar day. -/
theorem dayMatches_date (tz : Tz) (h : TzOk tz) (y m d stride D : Int) :
    dayMatchesTok tz { first := .date y m d, second := none, stride := stride } D =
      some (decide (D = daysFromCivil y m d)) := by
  rw [dayMatches_single tz h]; rfl

/-- **dayMatches_nthWeekday.**  "monday 2 [month]" (n > 0) matches exactly the day that has that weekday
    and lies in the n-th block of seven days of the month (of the reference year; the month of the
    reference unless one is named). -/
theorem dayMatches_nthWeekday (tz : Tz) (h : TzOk tz) (w n stride D : Int) (mon : Option Int)
    (hw0 : 0 ≤ w) (hw7 : w < 7) (hn : 0 < n) :
    let first := daysFromCivil (civilFromDays D).1 ((match mon with | some m => m | none => (civilFromDays D).2.1 - 1) + 1) 1
    dayMatchesTok tz { first := .nthWeekday w n mon, second := none, stride := stride } D =
      some (decide (weekdayOf D = w ∧ first + 7 * (n - 1) ≤ D ∧ D < first + 7 * n)) := by
  intro first
  rw [dayMatches_single tz h]
  obtain ⟨day, hday, hwd, hpos, _⟩ := nth_weekday_correct w n (civilFromDays D).1
    (match mon with | some m => m | none => (civilFromDays D).2.1 - 1) hw0 hw7 (by omega)
  have hres : resolveDay (.nthWeekday w n mon) D = some day := by
    simp only [resolveDay]; exact hday
  rw [hres]
  simp only [Option.map_some, Option.some.injEq, decide_eq_decide]
  obtain ⟨hp1, hp2⟩ := hpos hn
  unfold weekdayOf at *
  constructor
  · intro hD; subst hD; exact ⟨hwd, hp1, hp2⟩
  · rintro ⟨a, b1, b2⟩
    show D = day
    have hp1' : first + 7 * (n - 1) ≤ day := hp1
    have hp2' : day < first + 7 * n := hp2
    omega

/-- **dayMatches_range.**  A day range `A - B / stride` matches the days from the day `A` resolves to up to
    the day `B` resolves to, every stride-th calendar day counted from the first. -/
theorem dayMatches_range (tz : Tz) (h : TzOk tz) (hd : TzDrift tz) (s1 s2 : SpecTok) (stride D d1 d2 : Int)
    (h1 : resolveDay s1 D = some d1) (h2 : resolveDay s2 D = some d2) :
    dayMatchesTok tz { first := s1, second := some s2, stride := stride } D =
      some (decide (d1 ≤ D) && decide (D ≤ d2) && (decide (stride ≤ 1) || (D - d1) % stride == 0)) := by
  unfold dayMatchesTok dayDefSpan
  simp only [h1, h2, isInTimeRange_days tz h hd, Option.some.injEq]
  have : decide (D < d2 + 1) = decide (D ≤ d2) := by
    rw [decide_eq_decide]; omega
  rw [this]

/-- **dayMatches_monthDay.**  "day N" / "<month> N": for `N ≥ 0` exactly the N-th day counted from the first of
    the month (of the reference year; the month of the reference unless one is named), for `N < 0`
    exactly the |N|-th day counted backwards from the last day of that month (the day before the first
    of the next month): "day -1" is the last day.  Closed form; no search, no `mktime`. -/
theorem dayMatches_monthDay (tz : Tz) (h : TzOk tz) (mon : Option Int) (mday stride D : Int) :
    let y := (civilFromDays D).1
    let m := match mon with | some m => m | none => (civilFromDays D).2.1 - 1
    dayMatchesTok tz { first := .monthDay mon mday, second := none, stride := stride } D =
      some (decide (D = if mday < 0 then daysFromCivil y (m + 2) 1 - 1 + (mday + 1)
                        else daysFromCivil y (m + 1) 1 + (mday - 1))) := by
  intro y m
  rw [dayMatches_single tz h]
  simp only [resolveDay]
  split
  · rename_i hneg
    simp only [Option.map_some, Option.some.injEq, decide_eq_decide]
    have := month_last_day2 y m
    show D = daysFromCivil y (m + 2) 0 - (-mday - 1) ↔ _
    rw [this]; omega
  · simp only [Option.map_some, Option.some.injEq, decide_eq_decide]
    show D = daysFromCivil y (m + 1) mday ↔ _
    rw [daysFromCivil_day y (m + 1) mday]

example : resolveDay (.monthDay (some 1) (-1)) (daysFromCivil 2024 6 15) = some (daysFromCivil 2024 2 29) ∧
          resolveDay (.monthDay none (-2)) (daysFromCivil 2025 4 3) = some (daysFromCivil 2025 4 29) := by decide

/-- **dayMatches_nthWeekday_last.**  "monday -1 [month]" (n < 0) matches exactly the day that has that weekday
    and lies in the |n|-th block of seven days counted backwards from the last day of the month. -/
theorem dayMatches_nthWeekday_last (tz : Tz) (h : TzOk tz) (w n stride D : Int) (mon : Option Int)
    (hw0 : 0 ≤ w) (hw7 : w < 7) (hn : n < 0) :
    let last := daysFromCivil (civilFromDays D).1 ((match mon with | some m => m | none => (civilFromDays D).2.1 - 1) + 2) 1 - 1
    dayMatchesTok tz { first := .nthWeekday w n mon, second := none, stride := stride } D =
      some (decide (weekdayOf D = w ∧ last - 7 * (-n) < D ∧ D ≤ last - 7 * (-n - 1))) := by
  intro last
  rw [dayMatches_single tz h]
  obtain ⟨day, hday, hwd, _, hneg⟩ := nth_weekday_correct w n (civilFromDays D).1
    (match mon with | some m => m | none => (civilFromDays D).2.1 - 1) hw0 hw7 (by omega)
  have hres : resolveDay (.nthWeekday w n mon) D = some day := by
    simp only [resolveDay]; exact hday
  rw [hres]
  simp only [Option.map_some, Option.some.injEq, decide_eq_decide]
  obtain ⟨hp1, hp2⟩ := hneg hn
  rw [month_last_day2] at hp1 hp2
  unfold weekdayOf at *
  constructor
  · intro hD; subst hD; exact ⟨hwd, hp1, hp2⟩
  · rintro ⟨a, b1, b2⟩
    show D = day
    have hp1' : last - 7 * (-n) < day := hp1
    have hp2' : day ≤ last - 7 * (-n - 1) := hp2
    omega

/-- **rangeSeg_wrap_and_24h.**  "… for ranges ending at 24:00 or wrapping past midnight": a range `b-e` on day `D`
    runs from `b` o'clock local time of `D` to `e` o'clock of `D` when `b < e`, and to `e` o'clock local
    time of the NEXT calendar day otherwise (`22:00-02:00`, and `b-b` = 24 hours); 24:00 of `D` is the
    local midnight of `D + 1` — also when `D` has 23 or 25 hours (no `+ 86400` on instants). -/
theorem rangeSeg_wrap_and_24h (tz : Tz) (r : Int × Int) (D : Int) :
    rangeSeg tz r D = (mkDay tz D r.1, if r.1 < r.2 then mkDay tz D r.2 else mkDay tz (D + 1) r.2) ∧
    mkDay tz D 86400 = mkDay tz (D + 1) 0 := by
  refine ⟨?_, ?_⟩
  · unfold rangeSeg
    by_cases hlt : r.1 < r.2
    · have : ¬ r.1 ≥ r.2 := by omega
      simp [hlt, this]
    · have : r.1 ≥ r.2 := by omega
      simp only [this, if_true, hlt, if_false]
      rw [mkDay_next_day]
  · have := mkDay_next_day tz D 0
    simpa using this


example : rangeSeg berlin2026 (79200, 7200) (daysFromCivil 2026 3 28) = (1774731600, 1774746000) ∧          -- 22:00-02:00 into the 23-hour day: 4 h - 1 h
          rangeSeg berlin2026 (64800, 86400) (daysFromCivil 2026 3 29) = (1774800000, 1774821600) := by decide  -- 18:00-24:00 on it

/-! ## End to end: one period whose update function is the calendar layer -/

/-- **inside_window_formula.**  The content of `updateRegion_spec` at one instant of the window, as an equation: after an
    effective update, `IsInside(t)` IS the property's formula (`expectInside`). -/
theorem inside_window_formula (p : Period) (u : UpdIn) (b e : Int) (clear : Bool) (t : Int)
    (hbe : b ≤ e)
    (hS : clear = false → ∀ s ∈ p.segs, s.1 < s.2) (hown : ∀ s ∈ u.own, s.1 < s.2)
    (hinc : ∀ L ∈ u.incs, ∀ s ∈ L, s.1 < s.2) (hexc : ∀ L ∈ u.excs, ∀ s ∈ L, s.1 < s.2)
    (hnoop : (observe p u b e clear [t]).noop = false)
    (vb ve : Int) (hvb : (p.updateRegion u b e clear).vb = some vb) (hve : (p.updateRegion u b e clear).ve = some ve)
    (h1 : vb ≤ t) (h2 : t ≤ ve) :
    (p.updateRegion u b e clear).isInside t = expectInside (observe p u b e clear [t]) t := by
  have h := updateRegion_spec p u b e clear [t] hbe hS hown hinc hexc
  unfold specUpdate at h
  rw [hnoop] at h
  simp only [Bool.false_eq_true, if_false] at h
  cases hw : specWindow (observe p u b e clear [t]) with
  | some c => rw [hw] at h; cases h
  | none =>
    rw [hw] at h
    have hq : (observe p u b e clear [t]).queries = [(t, (p.updateRegion u b e clear).isInside t)] := rfl
    rw [hq] at h
    simp only [specQueries] at h
    have hq2 : specQuery (observe p u b e clear [t]) (t, (p.updateRegion u b e clear).isInside t) = none := by
      cases h2 : specQuery (observe p u b e clear [t]) (t, (p.updateRegion u b e clear).isInside t) with
      | none => rfl
      | some c => rw [h2] at h; cases h
    unfold specQuery at hq2
    have hvb' : (observe p u b e clear [t]).vb = some vb := hvb
    have hve' : (observe p u b e clear [t]).ve = some ve := hve
    rw [hvb', hve'] at hq2
    simp only at hq2
    have hout : ¬ (t < vb ∨ t > ve) := by omega
    simp only [hout, if_false] at hq2
    by_cases heq : (p.updateRegion u b e clear).isInside t = expectInside (observe p u b e clear [t]) t
    · exact heq
    · simp [heq] at hq2


/-- **legacy_update_end_to_end.**  Definition → answer, for one `UpdateRegion(b, e, clear)` of a period whose update
    function is `LegacyTimePeriod::ScriptFunc` (token-level core) — the two layers composed, the update function being
    fed the region the interval layer really passes (`Period.asked`: `begin` moved up to `valid_end`): for every
    time zone with `TzOk`, entry list, previous state, included / excluded segment lists, and every instant `t` of the
    resulting window, `IsInside(t)` holds iff

        Own  :=  (non-clearing: t was stored before and lies outside the refreshed region [begin', e))  or
                 some local calendar day D from the day of begin' to the last day whose midnight is ≤ e matches an
                 entry's day definition and t lies in one of its ranges on D (wrapping / 24:00 ranges included),
        (Own ∧ ¬Excluded) ∨ Included   (prefer_includes)   resp.   (Own ∨ Included) ∧ ¬Excluded.

    No hypothesis on the returned segments: `scriptFunc_wf` shows they are non-empty. -/
theorem legacy_update_end_to_end (tz : Tz) (htz : TzOk tz) (entries : List EntryTok)
    (p : Period) (prefer : Bool) (incs excs : List (List Seg)) (b e : Int) (clear : Bool)
    (fb fe : Int) (own : List Seg) (t : Int)
    (hbe : b ≤ e) (hS : clear = false → ∀ s ∈ p.segs, s.1 < s.2)
    (hinc : ∀ L ∈ incs, ∀ s ∈ L, s.1 < s.2) (hexc : ∀ L ∈ excs, ∀ s ∈ L, s.1 < s.2)
    (hask : p.asked b e clear = some (fb, fe))
    (hr : scriptFuncTok tz entries fb fe = some own)
    (vb ve : Int)
    (hvb : (p.updateRegion { prefer := prefer, own := own, incs := incs, excs := excs } b e clear).vb = some vb)
    (hve : (p.updateRegion { prefer := prefer, own := own, incs := incs, excs := excs } b e clear).ve = some ve)
    (h1 : vb ≤ t) (h2 : t ≤ ve) :
    ((p.updateRegion { prefer := prefer, own := own, incs := incs, excs := excs } b e clear).isInside t = true ↔
      let Own := (clear = false ∧ inside p.segs t = true ∧ ¬ (fb ≤ t ∧ t < e)) ∨
                 ∃ D, localDay tz fb ≤ D ∧ mkDay tz D 0 ≤ e ∧ ∃ en ∈ entries, EntryCovers tz en D t
      let Inc := ∃ L ∈ incs, inside L t = true
      let Exc := ∃ L ∈ excs, inside L t = true
      if prefer = true then (Own ∧ ¬ Exc) ∨ Inc else (Own ∨ Inc) ∧ ¬ Exc) := by
  -- what was asked: the refreshed region, and the call is effective
  have hnoop : (!clear && decide (e < numOf p.ve)) = false ∧ fb = p.effBegin b clear ∧ fe = e := by
    unfold Period.asked at hask
    split at hask
    · cases hask
    · rename_i hn
      simp only [Option.some.injEq, Prod.mk.injEq] at hask
      exact ⟨by simpa using hn, hask.1.symm, hask.2.symm⟩
  obtain ⟨hn, hfb, hfe⟩ := hnoop
  subst hfe
  have hown := scriptFunc_wf tz entries fb fe own hr
  have hio := scriptFunc_spec tz htz entries fb fe own hr t
  rw [inside_window_formula p _ b fe clear t hbe hS hown hinc hexc (by simpa [UpdObs.noop, observe] using hn) vb ve hvb hve h1 h2]
  unfold expectInside
  simp only [observe, UpdObs.effB]
  subst hfb
  simp only [Period.effBegin] at hio ⊢
  cases clear
  · simp only [Bool.false_eq_true, if_false] at hio ⊢
    by_cases hb : b < numOf p.ve
    · simp only [hb, if_true] at hio ⊢
      simp only [← hio]
      by_cases hx : t < numOf p.ve
      · have hx2 : ¬ numOf p.ve ≤ t := by omega
        cases prefer <;> cases inside own t <;> simp [List.any_eq_true, hx, hx2]
      · have hx2 : numOf p.ve ≤ t := by omega
        by_cases hf : t < fe
        · cases prefer <;> cases inside own t <;> simp [List.any_eq_true, hx, hx2, hf]
        · have hf2 : fe ≤ t := by omega
          cases prefer <;> cases inside own t <;> simp [List.any_eq_true, hx, hx2, hf, hf2]
    · simp only [hb, if_false] at hio ⊢
      simp only [← hio]
      by_cases hx : t < b
      · have hx2 : ¬ b ≤ t := by omega
        cases prefer <;> cases inside own t <;> simp [List.any_eq_true, hx, hx2]
      · have hx2 : b ≤ t := by omega
        by_cases hf : t < fe
        · cases prefer <;> cases inside own t <;> simp [List.any_eq_true, hx, hx2, hf]
        · have hf2 : fe ≤ t := by omega
          cases prefer <;> cases inside own t <;> simp [List.any_eq_true, hx, hx2, hf, hf2]
  · simp only [if_true] at hio ⊢
    simp only [← hio]
    cases prefer <;> cases inside own t <;> simp [List.any_eq_true]


/-- Non-vacuity: the hypotheses are satisfiable — a clearing update over the Berlin change to summer time asks the calendar for
    exactly that region, the calendar returns two segments, and the window is set. -/
example :
    let en : List EntryTok :=
      [{ dayDef := some { first := .weekday 1, second := none, stride := 1 }, ranges := some [(32400, 61200)] },
       { dayDef := some { first := .date 2026 3 28, second := none, stride := 1 }, ranges := some [(79200, 7200)] }]
    ({} : Period).asked 1774652400 1774911600 true = some (1774652400, 1774911600) ∧
    (scriptFuncTok berlin2026 en 1774652400 1774911600).map (fun own =>
      let p' := ({} : Period).updateRegion { prefer := false, own := own, incs := [], excs := [[(1774740000, 1774860000)]] } 1774652400 1774911600 true
      (p'.vb, p'.ve, p'.isInside 1774735000, p'.isInside 1774741000, p'.isInside 1774870000)) =
      some (some 1774652400, some 1774911600, true, false, true) := by decide

/-! ## The name tables, regenerated from the source (gen/c08_tables.py → IcingaProofs/Gen/C08Tables.lean) -/

/-- **weekday_table_matches_source.**  For EVERY string, the model's `weekdayFromString` (used by the calendar model
    and by the declarative predicate `calSpec`) is the lookup in the table read from
    `LegacyTimePeriod::WeekdayFromString` of the checked source tree. -/
theorem weekday_table_matches_source (s : String) :
    weekdayFromString s = lookupName Icinga.Gen.C08Tables.weekdaySrc s := by
  unfold weekdayFromString
  simp only [Icinga.Gen.C08Tables.weekdaySrc, lookupName]
  split <;> simp_all

/-- **month_table_matches_source.**  The same for `LegacyTimePeriod::MonthFromString` (0-based like `tm_mon`). -/
theorem month_table_matches_source (s : String) :
    monthFromString s = lookupName Icinga.Gen.C08Tables.monthSrc s := by
  unfold monthFromString
  simp only [Icinga.Gen.C08Tables.monthSrc, lookupName]
  split <;> simp_all

/-- **weekday_numbers_are_tm_wday.**  The numbers of the source's table are the calendar's: each English weekday
    name maps to `weekdayOf` (= `tm_wday`) of a day that has that weekday (2023-01-01 was a Sunday), and the month
    names count from january = 0 in calendar order. -/
theorem weekday_numbers_are_tm_wday :
    Icinga.Gen.C08Tables.weekdaySrc =
      ["sunday", "monday", "tuesday", "wednesday", "thursday", "friday", "saturday"].zipIdx.map
        (fun p => (p.1, weekdayOf (daysFromCivil 2023 1 (1 + p.2)))) ∧
    Icinga.Gen.C08Tables.monthSrc =
      ["january", "february", "march", "april", "may", "june", "july", "august", "september", "october",
       "november", "december"].zipIdx.map (fun p => (p.1, (p.2 : Int))) := by decide

example : weekdayFromString "funday" = none ∧ lookupName Icinga.Gen.C08Tables.weekdaySrc "friday" = some 5 := by decide

end Icinga.C08

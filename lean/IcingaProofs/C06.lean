/-
  C06 — property theorems (acknowledgements: normal vs sticky clearing, expiry, suppression).
  Every `theorem` in this file is a proof obligation of the check: `./check C06` lists them, runs
  `#print axioms` on each and fails if a required one is missing.  Helper lemmas live in
  IcingaProofs/C06/Lemmas.lean.

  All statements are about `step`: one operation through its entry point, followed by a look at the object at the
  same virtual time (`GetAcknowledgement()`, which performs the lazy expiry) — exactly what the correspondence
  harness does with the real code.

  Which entry point refuses what is the split the property's anchors give (`refuse_ok_or_acked`): the API action
  and the external commands refuse OK/Up and acknowledged objects, the cluster handler refuses acknowledged
  objects only.

  F-C06a (fixed in /repo by commit 6eaa5f1).  ACKNOWLEDGE_{HOST,SVC}_PROBLEM_EXPIRE used to pass its expire time as the
  sixth argument of `Checkable::AcknowledgeProblem`, which is `changeTime`, so that `expiry` kept its default 0 and such
  an acknowledgement never expired.  This check found it (clause `expiry_clears` on the implementation's trace); with the
  repair the model stores the requested expiry for every entry point, and the whole-trace theorem
  `model_trace_meets_spec` holds without hypothesis.  The former witness is kept as a regression case in
  corpus/C06/f_c06a_ext_expire.ops and as the `example` on `regressionOps` below.
-/
import IcingaProofs.C06.Lemmas

namespace Icinga.C06

open Icinga.C01

/-- **normal_cleared_by_state_change.**  An accepted result that changes the state (raw for services, Up/Down for
    hosts) clears a normal acknowledgement that has not run out, and reports it once. -/
theorem normal_cleared_by_state_change (c : Cfg) (s : MSt) (new : SState) (es ee now : Int)
    (hst : stale s.base ⟨new, es, now⟩ = false) (ha : s.ack = .normal) (he : expired s now = false)
    (hsc : stateChange c.kind s.base.state new = true) :
    (step c s (.result new es ee now)).1.ack = .none ∧ (step c s (.result new es ee now)).2.nClr = 1 := by
  rw [step_result c s new es ee now hst]
  simp [ackNow, ackAfterResult, clearsOnChange, ha, he, hsc]

/-- **sticky_cleared_only_by_recovery.**  An accepted result leaves a sticky acknowledgement that has not run out
    in place unless it is a recovery (state change to OK/Up); a recovery clears it; the cleared event fires
    exactly in that case. -/
theorem sticky_cleared_only_by_recovery (c : Cfg) (s : MSt) (new : SState) (es ee now : Int)
    (hst : stale s.base ⟨new, es, now⟩ = false) (ha : s.ack = .sticky) (he : expired s now = false) :
    let p := step c s (.result new es ee now)
    let recovery := stateChange c.kind s.base.state new && isOK c.kind new
    (p.1.ack = .none ↔ recovery = true) ∧ (recovery = false → p.1.ack = .sticky ∧ p.1.expiry = s.expiry) ∧
    p.2.nClr = (if recovery then 1 else 0) := by
  rw [step_result c s new es ee now hst]
  cases hsc : stateChange c.kind s.base.state new <;> cases hok : isOK c.kind new <;>
    simp [ackNow, ackAfterResult, clearsOnChange, ha, he, hsc, hok]

/-- **unchanged_state_keeps_ack.**  A result that does not change the state — or that is dropped as outdated —
    never clears an acknowledgement that has not run out: type and expiry stay, no cleared event. -/
theorem unchanged_state_keeps_ack (c : Cfg) (s : MSt) (new : SState) (es ee now : Int) (he : expired s now = false)
    (h : stale s.base ⟨new, es, now⟩ = true ∨ stateChange c.kind s.base.state new = false) :
    (step c s (.result new es ee now)).1.ack = s.ack ∧ (step c s (.result new es ee now)).1.expiry = s.expiry ∧
    (step c s (.result new es ee now)).2.nClr = 0 := by
  cases hst : stale s.base ⟨new, es, now⟩
  · rcases h with h | h
    · simp [hst] at h
    · rw [step_result c s new es ee now hst]
      cases ha : s.ack <;> simp [ackNow, ackAfterResult, he, h, ha]
  · rw [step_result_stale c s new es ee now hst]
    simp [getAck_of_not_expired, he]

/-- **expiry_clears.**  Whatever the operation: once the stored expiry has passed, the first look sees the old
    acknowledgement gone and the cleared event fired for it; if the operation did not set a new one, nothing is
    acknowledged any more and exactly one cleared event fired. -/
theorem expiry_clears (c : Cfg) (s : MSt) (op : Op) (he : expired s op.now = true) :
    1 ≤ (step c s op).2.nClr ∧
    ((step c s op).2.nSet = 0 → (step c s op).1.ack = .none ∧ (step c s op).1.expiry = 0 ∧ (step c s op).2.nClr = 1) := by
  have hne := expired_ack_ne s op.now he
  cases op with
  | result new es ee now =>
    simp only [Op.now] at he hne
    cases hst : stale s.base ⟨new, es, now⟩
    · rw [step_result c s new es ee now hst]
      cases ha : s.ack <;> simp_all [ackNow, ackAfterResult, clearsOnChange]
    · rw [step_result_stale c s new es ee now hst]; simp [getAck_of_expired, he]
  | ack via sticky notify persistent expiry now =>
    simp only [Op.now] at he hne
    rw [step_ack]
    cases hp : preRefuse c s via expiry now
    · by_cases hg : (¬ storedExpiry via expiry = 0 ∧ storedExpiry via expiry < now) <;>
        simp [ackNow, he, hg]
    · simp [getAck_of_expired, he]
  | remove via now =>
    rw [step_remove]
    cases ha : s.ack <;> simp_all [Ack.ind]
  | advance now =>
    simp only [Op.now] at he
    rw [step_advance]; simp [getAck_of_expired, he]
  | pump now fired =>
    simp only [Op.now] at he
    have he' : expired (pumped s now fired) now = true := he
    rw [step_pump]; simp [getAck_of_expired, he']
  | downtime on now =>
    simp only [Op.now] at he
    have he' : expired { s with inDowntime := on } now = true := he
    rw [step_downtime]; simp [getAck_of_expired, he']
  | pause on now =>
    simp only [Op.now] at he
    have he' : expired { s with paused := on } now = true := he
    rw [step_pause]; simp [getAck_of_expired, he']
  | remind now =>
    simp only [Op.now] at he
    rw [step_remind]; simp [getAck_of_expired, he]
  | fire now =>
    simp only [Op.now] at he
    rw [step_fire]; simp [he, ackNow]

/-- **stored_expiry_is_requested.**  Every entry point stores the expiry the operation asked for (the plain
    external command has no such argument and stores none). -/
theorem stored_expiry_is_requested (via : Via) (expiry : Int) :
    storedExpiry via expiry = requestedExpiry via expiry := by
  cases via <;> simp [storedExpiry, requestedExpiry]

/-- … hence an accepted acknowledgement whose expiry has not already passed carries exactly the requested expiry. -/
theorem accepted_ack_stores_requested_expiry (c : Cfg) (s : MSt) (via : Via) (sticky notify persistent : Bool)
    (expiry now : Int) (hacc : (step c s (.ack via sticky notify persistent expiry now)).2.acc = true)
    (hng : ¬ (requestedExpiry via expiry ≠ 0 ∧ requestedExpiry via expiry < now)) :
    (step c s (.ack via sticky notify persistent expiry now)).1.expiry = requestedExpiry via expiry ∧
    (step c s (.ack via sticky notify persistent expiry now)).1.ack = ackTypeOf sticky := by
  rw [← stored_expiry_is_requested] at hng ⊢
  rw [step_ack] at hacc ⊢
  cases hc : (preRefuse c s via expiry now || ackNow s now != .none)
  · simp [hng]
  · simp [hc] at hacc

/-- **handled_iff.**  Whichever reader looks first after an operation — `GetHandled()`, `GetSeverity()` or
    `GetAcknowledgement()` — it sees the acknowledgement as the lazy expiry leaves it, not the raw attribute: with `p` the
    state the operation itself left (raw attribute `p.ack`, possibly still set although its expiry has passed), the object
    counts as handled iff it is a problem and in a downtime or acknowledged *with an expiry that has not passed*; the
    severity class says "acknowledged" under the same condition; it is a problem iff a result has been accepted and the
    state is not OK/Up.  In particular an acknowledgement whose expiry has passed never makes a problem handled. -/
theorem handled_iff (c : Cfg) (s : MSt) (op : Op) :
    let p := (opStep c s op).1
    let o := obsOf c (step c s op)
    o.raw = p.ack ∧ o.ack = ackNow p op.now ∧
    o.handled = (problemOf c p && (p.inDowntime || ackNow p op.now != .none)) ∧
    o.sevAck = (problemOf c p && ackNow p op.now != .none) ∧
    (expired p op.now = true → o.handled = (problemOf c p && p.inDowntime) ∧ o.sevAck = false) ∧
    o.handled = (o.problem && ((step c s op).1.inDowntime || o.ack != .none)) ∧
    o.problem = ((step c s op).1.base.lastExec.isSome && !isOK c.kind o.state) := by
  have hr := getAck_rest (opStep c s op).1 op.now
  have ha := getAck_ack (opStep c s op).1 op.now
  refine ⟨rfl, ?_, ?_, ?_, ?_, ?_, ?_⟩
  · simp [obsOf, step, ha]
  · simp [obsOf, step, handledOf, problemOf, ha, hr]
  · simp [obsOf, step, sevAckOf, problemOf, ha, hr]
  · intro he
    simp [obsOf, step, handledOf, sevAckOf, problemOf, ha, hr, ackNow, he]
  · simp [obsOf, handledOf, problemOf]
  · simp [obsOf, problemOf]

/-- **raw_attribute_consistent.**  After every operation the raw attribute differs from what the first reader sees only
    by the lazy expiry: either they agree, or the expiry stored in the raw state has passed and the reader sees none. -/
theorem raw_attribute_consistent (c : Cfg) (s : MSt) (op : Op) :
    let o := obsOf c (step c s op)
    o.raw = o.ack ∨ (expired (opStep c s op).1 op.now = true ∧ o.ack = .none) := by
  have ha := getAck_ack (opStep c s op).1 op.now
  cases he : expired (opStep c s op).1 op.now
  · left; simp [obsOf, step, ha, ackNow, he]
  · right; simp [obsOf, step, ha, ackNow, he]

/-- The downtime bit follows the downtime operations and nothing else. -/
theorem downtime_bit (c : Cfg) (s : MSt) (op : Op) :
    (step c s op).1.inDowntime = (match op with
      | .downtime on _ => on
      | _ => s.inDowntime) := by
  cases op with
  | result new es ee now =>
    cases hst : stale s.base ⟨new, es, now⟩
    · rw [step_result c s new es ee now hst]
    · rw [step_result_stale c s new es ee now hst]; simp [getAck_rest]
  | ack via sticky notify persistent expiry now =>
    rw [step_ack]
    cases hc : (preRefuse c s via expiry now || ackNow s now != .none) <;> simp [getAck_rest]
  | remove via now => rw [step_remove]
  | advance now => rw [step_advance]; simp [getAck_rest]
  | pump now fired => rw [step_pump]; simp [getAck_rest, pumped]
  | downtime on now => rw [step_downtime]; simp [getAck_rest]
  | pause on now => rw [step_pause]; simp [getAck_rest]
  | remind now => rw [step_remind]; simp [getAck_rest]
  | fire now => rw [step_fire]

/-- After an accepted result the object is a problem iff the result is not OK/Up. -/
theorem problem_after_result (c : Cfg) (s : MSt) (new : SState) (es ee now : Int)
    (hst : stale s.base ⟨new, es, now⟩ = false) :
    (obsOf c (step c s (.result new es ee now))).problem = !isOK c.kind new ∧
    (obsOf c (step c s (.result new es ee now))).state = new := by
  rw [step_result c s new es ee now hst]
  simp [obsOf, problemOf, stepCore_state]

/-- **ack_notify_once.**  An acknowledge operation requests exactly one Acknowledgement notification if it is accepted,
    `notify` is set and the object is not paused (on a paused object — HA: it is active on the other zone member, which
    receives the same acknowledgement as a cluster event — none), none otherwise; it fires OnAcknowledgementSet exactly
    once iff it is accepted, paused or not; no other operation requests an Acknowledgement notification or fires the set
    event. -/
theorem ack_notify_once (c : Cfg) (s : MSt) (op : Op) :
    (step c s op).2.nAckN = (match op with
      | .ack _ _ notify _ _ _ => if (step c s op).2.acc && notify && !s.paused then 1 else 0
      | _ => 0) ∧
    (step c s op).2.nSet = (match op with
      | .ack _ _ _ _ _ _ => if (step c s op).2.acc then 1 else 0
      | _ => 0) := by
  cases op with
  | result new es ee now =>
    cases hst : stale s.base ⟨new, es, now⟩
    · rw [step_result c s new es ee now hst]; simp
    · rw [step_result_stale c s new es ee now hst]; simp
  | ack via sticky notify persistent expiry now =>
    rw [step_ack]
    cases hc : (preRefuse c s via expiry now || ackNow s now != .none) <;> cases notify <;> cases s.paused <;> simp
  | remove via now => rw [step_remove]; simp
  | advance now => rw [step_advance]; simp
  | pump now fired => rw [step_pump]; simp
  | downtime on now => rw [step_downtime]; simp
  | pause on now => rw [step_pause]; simp
  | remind now => rw [step_remind]; simp
  | fire now => rw [step_fire]; simp

/-- **refuse_ok_or_acked.**  The API action and the external commands refuse an object that is OK/Up; every entry
    point — the cluster handler included — refuses an object whose acknowledgement has not run out.  A refused
    operation sets nothing, requests no notification, adds no comment and leaves the acknowledgement as the look
    finds it. -/
theorem refuse_ok_or_acked (c : Cfg) (s : MSt) (via : Via) (sticky notify persistent : Bool) (expiry now : Int)
    (h : (via ≠ .cluster ∧ isOK c.kind s.base.state = true) ∨ ackNow s now ≠ .none) :
    let p := step c s (.ack via sticky notify persistent expiry now)
    p.2.acc = false ∧ p.2.nSet = 0 ∧ p.2.nAckN = 0 ∧ p.1.ack = ackNow s now ∧ p.1.comments = s.comments ∧
    p.1.base = s.base := by
  have hc : (preRefuse c s via expiry now || ackNow s now != .none) = true := by
    rcases h with ⟨hv, hok⟩ | h
    · cases via <;> simp_all [preRefuse, stateOK]
    · simp [h]
  rw [step_ack]
  simp [hc, getAck_ack, getAck_rest]

/-- The cluster handler does *not* refuse an OK/Up object (the anchors list no such test). -/
theorem cluster_accepts_ok (c : Cfg) (s : MSt) (sticky notify persistent : Bool) (expiry now : Int)
    (h : ackNow s now = .none) :
    (step c s (.ack .cluster sticky notify persistent expiry now)).2.acc = true := by
  rw [step_ack]
  simp [preRefuse, h]

/-- **refusal_justified.**  The converse: an acknowledge operation is refused only for a reason the property names — the
    object is OK/Up (not asked by the cluster handler), it is acknowledged with an expiry that has not passed, or (API
    action, `_EXPIRE` command) the requested expiry is not in the future. -/
theorem refusal_justified (c : Cfg) (s : MSt) (via : Via) (sticky notify persistent : Bool) (expiry now : Int)
    (h : (step c s (.ack via sticky notify persistent expiry now)).2.acc = false) :
    (via ≠ .cluster ∧ isOK c.kind s.base.state = true) ∨ ackNow s now ≠ .none ∨
    ((via = .api ∨ via = .extExpire) ∧ expiry ≠ 0 ∧ expiry ≤ now) := by
  rw [step_ack] at h
  cases hc : (preRefuse c s via expiry now || ackNow s now != .none)
  · simp [hc] at h
  · simp only [Bool.or_eq_true] at hc
    rcases hc with hc | hc
    · cases via <;> simp_all [preRefuse, stateOK] <;> (rcases hc with hc | hc <;> simp_all)
    · right; left; simpa using hc

/-- **ack_comment_as_requested.**  An accepted acknowledgement through the API action or an external command adds exactly
    one acknowledgement comment, entered now, persistent iff the operation asked for a persistent one (not: iff it is
    sticky), expiring with the acknowledgement; the cluster handler adds none (comments travel as objects of their own);
    a refused one adds none. -/
theorem ack_comment_as_requested (c : Cfg) (s : MSt) (via : Via) (sticky notify persistent : Bool) (expiry now : Int) :
    let p := step c s (.ack via sticky notify persistent expiry now)
    p.1.comments = (if p.2.acc && via != .cluster then insertCmt ⟨now, persistent, requestedExpiry via expiry⟩ s.comments
                    else s.comments) := by
  have hcme : commentExpire via expiry = requestedExpiry via expiry := by
    cases via <;> simp [commentExpire, requestedExpiry]
  rw [step_ack]
  cases hc : (preRefuse c s via expiry now || ackNow s now != .none)
  · cases via <;> simp [addsComment, hcme]
  · simp [getAck_rest]

/-- **removal_removes_comments.**  Remove-acknowledgement through the API action or the external command leaves exactly
    the persistent acknowledgement comments; the cluster handler leaves the comments alone (their removal is
    synchronised separately); either way nothing is acknowledged afterwards and the clearing is reported iff something
    was set. -/
theorem removal_removes_comments (c : Cfg) (s : MSt) (via : RVia) (now : Int) :
    let p := step c s (.remove via now)
    p.1.ack = .none ∧ p.2.nClr = s.ack.ind ∧
    (via ≠ .cluster → p.1.comments = s.comments.filter (·.persistent) ∧ ∀ cm ∈ p.1.comments, cm.persistent = true) ∧
    (via = .cluster → p.1.comments = s.comments) := by
  rw [step_remove]
  refine ⟨by simp, by simp, ?_, ?_⟩
  · intro hv
    have : (via != .cluster) = true := by simpa using hv
    simp [this]
  · intro hv; simp [hv]

/-- **cleared_event_once.**  Ghost counters over a whole history, from any start state: the number of
    acknowledgement-cleared events equals the number of acknowledgement-set events (plus one if the history started
    acknowledged) minus one if an acknowledgement is still set at the end.  Since an acknowledgement is only set on
    an object that has none (`refuse_ok_or_acked`), set and cleared events alternate: every clearing — by state
    change, recovery, expiry or removal — is reported exactly once, and nothing else is. -/
theorem cleared_event_once (c : Cfg) (s : MSt) (ops : List Op) :
    s.ack.ind + (totals c s ops).1 = (totals c s ops).2 + (run c s ops).ack.ind :=
  totals_balance c ops s

/-- The same for one operation: cleared events = set→none transitions it caused. -/
theorem cleared_event_once_step (c : Cfg) (s : MSt) (op : Op) :
    s.ack.ind + (step c s op).2.nSet = (step c s op).2.nClr + (step c s op).1.ack.ind :=
  step_balance c s op

/-- **ack_comments_removed.**  After an accepted result that leaves no acknowledgement, the acknowledgement comments
    are exactly the former ones that are persistent or were entered after the result's execution end: no
    non-persistent one from before remains, later ones and persistent ones do.  A result after which the object is
    still acknowledged removes none. -/
theorem ack_comments_removed (c : Cfg) (s : MSt) (new : SState) (es ee now : Int)
    (hst : stale s.base ⟨new, es, now⟩ = false) :
    let p := step c s (.result new es ee now)
    (p.1.ack = .none →
      (∀ cm ∈ p.1.comments, cm.persistent = true ∨ cm.entry > ee) ∧
      (∀ cm ∈ s.comments, cm.persistent = true ∨ cm.entry > ee → cm ∈ p.1.comments) ∧
      (∀ cm ∈ p.1.comments, cm ∈ s.comments)) ∧
    (p.1.ack ≠ .none → p.1.comments = s.comments) := by
  rw [step_result c s new es ee now hst]
  constructor
  · intro h
    simp only at h
    simp only [h, beq_self_eq_true, if_true]
    refine ⟨?_, ?_, ?_⟩
    · intro cm hcm
      have := (List.mem_filter.mp hcm).2
      simpa [keepsComment] using this
    · intro cm hcm hk
      exact List.mem_filter.mpr ⟨hcm, by simpa [keepsComment] using hk⟩
    · intro cm hcm
      exact (List.mem_filter.mp hcm).1
  · intro h
    simp only at h
    simp [h]

/-- The comment-expiry timer, when it runs, removes exactly the expired acknowledgement comments that are not
    persistent, and never touches the acknowledgement itself beyond what the look does anyway. -/
theorem comment_expiry_timer (c : Cfg) (s : MSt) (now : Int) :
    (step c s (.pump now true)).1.comments = s.comments.filter (survivesExpiry now) ∧
    (step c s (.pump now false)).1.comments = s.comments ∧
    ∀ fired, (step c s (.pump now fired)).1.ack = (step c s (.advance now)).1.ack ∧
             (step c s (.pump now fired)).2 = (step c s (.advance now)).2 := by
  refine ⟨?_, ?_, ?_⟩
  · rw [step_pump]; simp [getAck_rest, pumped]
  · rw [step_pump]; simp [getAck_rest, pumped]
  · intro fired
    rw [step_pump, step_advance]
    have he : expired (pumped s now fired) now = expired s now := rfl
    cases hx : expired s now
    · rw [getAck_of_not_expired _ _ (he.trans hx), getAck_of_not_expired _ _ hx]; simp [pumped]
    · rw [getAck_of_expired _ _ (he.trans hx), getAck_of_expired _ _ hx]; simp [pumped]

/-- Problem notifications are withheld while acknowledged: a result after which the object is acknowledged requests
    no Problem notification (it is stashed for C02's suppressed-notification handling). -/
theorem problem_withheld_while_acked (c : Cfg) (s : MSt) (new : SState) (es ee now : Int)
    (h : (step c s (.result new es ee now)).1.ack ≠ .none) :
    (step c s (.result new es ee now)).2.nProbN = 0 := by
  cases hst : stale s.base ⟨new, es, now⟩
  · rw [step_result c s new es ee now hst] at h ⊢
    simp only at h ⊢
    generalize ackAfterResult c s new now = a1 at h ⊢
    generalize sendNotification c s.base new = sn
    generalize s.paused = pa
    cases a1 <;> cases sn <;> cases pa <;> simp at h ⊢
  · rw [step_result_stale c s new es ee now hst]

/-- **withheld_problem_is_stashed.**  The state notification of an accepted result, in closed form: with `due` = a
    notification is due by the state machine's rule (C01/C02) and the object is not paused, and `withheld` = the object is
    acknowledged after the result, or in a downtime, or a state notification is already stashed — the notification is
    *either* requested (exactly one, of its own type, stash untouched) *or* stashed under its own type (Problem for a
    problem, Recovery for a recovery; nothing requested) — never both, never neither.  In particular a due Problem
    notification for an acknowledged object ends up in the stash (for C02's suppressed-notification handling), and
    without acknowledgement, downtime and stash it is requested. -/
theorem withheld_problem_is_stashed (c : Cfg) (s : MSt) (new : SState) (es ee now : Int)
    (hst : stale s.base ⟨new, es, now⟩ = false) :
    let p := step c s (.result new es ee now)
    let due := sendNotification c s.base new && !s.paused
    let recovery := isOK c.kind new && !isOK c.kind s.base.state
    let withheld := p.1.ack != .none || s.inDowntime || s.suppProblem || s.suppRecovery
    p.2.nProbN = (if due && !withheld && !recovery then 1 else 0) ∧
    p.2.nRecN = (if due && !withheld && recovery then 1 else 0) ∧
    p.1.suppProblem = (s.suppProblem || (due && withheld && !recovery)) ∧
    p.1.suppRecovery = (s.suppRecovery || (due && withheld && recovery)) ∧
    (due = true → recovery = false → p.1.ack ≠ .none → p.1.suppProblem = true ∧ p.2.nProbN = 0) := by
  rw [step_result c s new es ee now hst]
  simp only
  generalize ackAfterResult c s new now = a1
  generalize sendNotification c s.base new = sn
  generalize isOK c.kind new = okn
  generalize isOK c.kind s.base.state = oko
  generalize s.paused = pa
  generalize s.inDowntime = dt
  generalize s.suppProblem = pP
  generalize s.suppRecovery = pR
  cases a1 <;> cases sn <;> cases okn <;> cases oko <;> cases pa <;> cases dt <;> cases pP <;> cases pR <;> simp

/-- A paused object neither requests nor stashes a state notification (the zone member it is active on does). -/
theorem paused_result_is_silent (c : Cfg) (s : MSt) (new : SState) (es ee now : Int) (hp : s.paused = true) :
    let p := step c s (.result new es ee now)
    p.2.nProbN = 0 ∧ p.2.nRecN = 0 ∧ p.1.suppProblem = s.suppProblem ∧ p.1.suppRecovery = s.suppRecovery := by
  cases hst : stale s.base ⟨new, es, now⟩
  · rw [step_result c s new es ee now hst]; simp [hp]
  · rw [step_result_stale c s new es ee now hst]; simp [getAck_rest]

/-- **reminder_withheld_while_acked.**  Reminders are Problem notifications too: a due reminder is attempted iff the
    object is in a hard not-OK/Up state, its first Problem notification is not still stashed, it is not in a downtime and
    — after the lazy expiry, which this reader performs like any other — not acknowledged.  In particular no reminder
    goes out while an acknowledgement whose expiry has not passed is set, and reminders resume with the first due one
    after it has passed; no other operation attempts a reminder. -/
theorem reminder_withheld_while_acked (c : Cfg) (s : MSt) (now : Int) :
    let p := step c s (.remind now)
    p.2.nRem = (if s.base.stype == .hard && !isOK c.kind s.base.state && !s.suppProblem && !s.inDowntime &&
                   ackNow s now == .none then 1 else 0) ∧
    (ackNow s now ≠ .none → p.2.nRem = 0) ∧ p.1.ack = ackNow s now ∧ p.2.nSet = 0 ∧ p.2.nAckN = 0 ∧ p.2.nProbN = 0 ∧
    p.1.comments = s.comments ∧ p.1.suppProblem = s.suppProblem := by
  rw [step_remind]
  refine ⟨?_, ?_, ?_, ?_⟩
  · simp [remindable, getAck_ack]
  · intro h; simp [getAck_ack, h]
  · simp [getAck_ack]
  · simp [getAck_rest]

theorem reminder_only_from_remind (c : Cfg) (s : MSt) (op : Op) (h : ∀ now, op ≠ .remind now) :
    (step c s op).2.nRem = 0 := by
  cases op with
  | result new es ee now =>
    cases hst : stale s.base ⟨new, es, now⟩
    · rw [step_result c s new es ee now hst]
    · rw [step_result_stale c s new es ee now hst]
  | ack via sticky notify persistent expiry now =>
    rw [step_ack]
    cases hc : (preRefuse c s via expiry now || ackNow s now != .none) <;> simp
  | remove via now => rw [step_remove]
  | advance now => rw [step_advance]
  | pump now fired => rw [step_pump]
  | downtime on now => rw [step_downtime]
  | pause on now => rw [step_pause]
  | remind now => exact absurd rfl (h now)
  | fire now => rw [step_fire]

/-- **stash_kept_while_acked.**  "Problem notifications are withheld (to be handled by C02 afterwards)" — also by the
    handler that does the handling: a run of `Checkable::FireSuppressedNotifications` on an object whose acknowledgement
    has not run out (or that is in a downtime, or paused) requests nothing and leaves the stash as it is; it sets nothing,
    touches no comment, and the acknowledgement is what the lazy expiry leaves. -/
theorem stash_kept_while_acked (c : Cfg) (s : MSt) (now : Int)
    (h : ackNow s now ≠ .none ∨ s.inDowntime = true ∨ s.paused = true) :
    let p := step c s (.fire now)
    p.2.nProbN = 0 ∧ p.2.nRecN = 0 ∧ p.1.suppProblem = s.suppProblem ∧ p.1.suppRecovery = s.suppRecovery ∧
    p.1.ack = ackNow s now ∧ p.2.nSet = 0 ∧ p.2.nAckN = 0 ∧ p.1.comments = s.comments ∧ p.1.stateBefore = s.stateBefore := by
  have hrel : fireRelease s now = false := by
    rcases h with h | h | h
    · simp [fireRelease, h]
    · simp [fireRelease, h]
    · simp [fireRelease, fireConsiders, h]
  rw [step_fire]
  simp [hrel]

/-- **stash_released_after_clearing.**  Once the acknowledgement is gone — removed, cleared by a result, or run out: this
    reader performs the lazy expiry like any other — and the object is neither in a downtime nor paused and in a hard
    state, the next run empties the stash and requests the notification that is still owed exactly once: none if the
    state is back to what it was before the suppression (Up/Down for hosts), otherwise one of the type of the *current*
    state (Problem for a problem, Recovery for OK/Up) — never both. -/
theorem stash_released_after_clearing (c : Cfg) (s : MSt) (now : Int) (hp : s.paused = false) (hd : s.inDowntime = false)
    (ha : ackNow s now = .none) (hh : s.base.stype = .hard) (hs : s.suppProblem = true ∨ s.suppRecovery = true) :
    let p := step c s (.fire now)
    let owed := stateChange c.kind s.stateBefore s.base.state
    p.1.suppProblem = false ∧ p.1.suppRecovery = false ∧
    p.2.nProbN = (if owed && !isOK c.kind s.base.state then 1 else 0) ∧
    p.2.nRecN = (if owed && isOK c.kind s.base.state then 1 else 0) ∧ p.2.nProbN + p.2.nRecN ≤ 1 ∧ p.1.ack = .none := by
  have hrel : fireRelease s now = true := by
    rcases hs with hs | hs <;> simp [fireRelease, fireConsiders, hp, hd, ha, hh, hs]
  rw [step_fire]
  cases stateChange c.kind s.stateBefore s.base.state <;> cases isOK c.kind s.base.state <;> simp [hrel, ha]

/-- **no_problem_notification_while_acked.**  Whatever the operation — result, acknowledge, removal, look, timer, reminder
    handler, suppressed-notification handler —: if the object is acknowledged after it, the operation requested no Problem
    notification and attempted no reminder. -/
theorem no_problem_notification_while_acked (c : Cfg) (s : MSt) (op : Op) (h : (step c s op).1.ack ≠ .none) :
    (step c s op).2.nProbN = 0 ∧ (step c s op).2.nRem = 0 := by
  cases op with
  | result new es ee now =>
    refine ⟨problem_withheld_while_acked c s new es ee now h, ?_⟩
    cases hst : stale s.base ⟨new, es, now⟩
    · rw [step_result c s new es ee now hst]
    · rw [step_result_stale c s new es ee now hst]
  | ack via sticky notify persistent expiry now =>
    rw [step_ack]
    cases hc : (preRefuse c s via expiry now || ackNow s now != .none) <;> simp
  | remove via now => rw [step_remove]; simp
  | advance now => rw [step_advance]; simp
  | pump now fired => rw [step_pump]; simp
  | downtime on now => rw [step_downtime]; simp
  | pause on now => rw [step_pause]; simp
  | remind now =>
    rw [step_remind] at h ⊢
    simp only [getAck_ack] at h ⊢
    simp [h]
  | fire now =>
    rw [step_fire] at h ⊢
    simp only at h
    simp [fireRelease, h]

/-- … over whole histories: at no look of any history, from any start state, is the object acknowledged while the
    operation before the look requested a Problem notification or attempted a reminder. -/
theorem trace_no_problem_notification_while_acked (c : Cfg) (ops : List Op) :
    ∀ (s : MSt), ∀ p ∈ trace c s ops, p.2.ack ≠ .none → p.2.nProbN = 0 ∧ p.2.nRem = 0 := by
  induction ops with
  | nil => intro s p hp; simp [trace] at hp
  | cons op ops ih =>
    intro s p hp
    simp only [trace, List.mem_cons] at hp
    rcases hp with hp | hp
    · subst hp
      intro h
      exact no_problem_notification_while_acked c s op h
    · exact ih _ p hp

/-- **stash_only_emptied_by_handler.**  What was withheld is not lost: no operation but a run of the suppressed-notification
    handler that finds the object unacknowledged, out of downtime, unpaused and in a hard state takes a state notification
    out of the stash. -/
theorem stash_only_emptied_by_handler (c : Cfg) (s : MSt) (op : Op)
    (h : ∀ now, op = .fire now → fireRelease s now = false) :
    (s.suppProblem = true → (step c s op).1.suppProblem = true) ∧
    (s.suppRecovery = true → (step c s op).1.suppRecovery = true) := by
  cases op with
  | result new es ee now =>
    cases hst : stale s.base ⟨new, es, now⟩
    · rw [step_result c s new es ee now hst]
      constructor <;> (intro hs; simp [hs])
    · rw [step_result_stale c s new es ee now hst]; simp [getAck_rest]
  | ack via sticky notify persistent expiry now =>
    rw [step_ack]
    cases hc : (preRefuse c s via expiry now || ackNow s now != .none) <;> simp [getAck_rest]
  | remove via now => rw [step_remove]; simp
  | advance now => rw [step_advance]; simp [getAck_rest]
  | pump now fired => rw [step_pump]; simp [getAck_rest, pumped]
  | downtime on now => rw [step_downtime]; simp [getAck_rest]
  | pause on now => rw [step_pause]; simp [getAck_rest]
  | remind now => rw [step_remind]; simp [getAck_rest]
  | fire now =>
    rw [step_fire]
    simp [h now rfl]

/-- A change between two not-OK/Up states of an object in a hard state is a hard state change for which a Problem
    notification is due (C01/C02's rule), and leaves the object in a hard state. -/
theorem send_hard_problem_change (c : Cfg) (b : St) (new : SState) (es now : Int) (hh : b.stype = .hard)
    (hno : isOK c.kind b.state = false) (hnn : isOK c.kind new = false) (hsc : stateChange c.kind b.state new = true) :
    sendNotification c b new = true ∧ (stepCore c b ⟨new, es, now⟩).1.stype = .hard ∧ (stepCore c b ⟨new, es, now⟩).1.state = new := by
  simp [sendNotification, nextTypeAttempt, hardChangeOf, stepCore, hh, hno, hnn, hsc]

/-- **withheld_problem_delivered_after_clearing** (end to end).  A hard problem with a sticky acknowledgement that has not
    run out changes to another not-OK/Up state: the Problem notification is withheld and stashed, the acknowledgement stays.
    (1) Remove-acknowledgement through any entry point, then a run of the suppressed-notification handler: one cleared
    event, then exactly one Problem notification and an empty stash.  (2) No removal, but the handler runs after the
    expiry: it notices the expiry itself (one cleared event) and requests the one Problem notification.  (3) The handler
    runs while the acknowledgement has not run out: nothing is requested, the stash stays. -/
theorem withheld_problem_delivered_after_clearing (c : Cfg) (s : MSt) (new : SState) (es ee now : Int) (via : RVia)
    (t1 t2 : Int) (hst : stale s.base ⟨new, es, now⟩ = false)
    (hh : s.base.stype = .hard) (hno : isOK c.kind s.base.state = false) (hnn : isOK c.kind new = false)
    (hsc : stateChange c.kind s.base.state new = true)
    (ha : s.ack = .sticky) (he : expired s now = false)
    (hP : s.suppProblem = false) (hR : s.suppRecovery = false) (hpa : s.paused = false) (hdt : s.inDowntime = false) :
    (trace c s [.result new es ee now, .remove via t1, .fire t2]).map
        (fun p => (p.2.ack, p.2.nProbN, p.2.nRecN, p.2.suppP, p.2.nClr)) =
      [(.sticky, 0, 0, true, 0), (.none, 0, 0, true, 1), (.none, 1, 0, false, 0)] ∧
    ((s.expiry ≠ 0 ∧ s.expiry < t2) →
      (trace c s [.result new es ee now, .fire t2]).map (fun p => (p.2.ack, p.2.nProbN, p.2.nRecN, p.2.suppP, p.2.nClr)) =
        [(.sticky, 0, 0, true, 0), (.none, 1, 0, false, 1)]) ∧
    (¬ (s.expiry ≠ 0 ∧ s.expiry < t2) →
      (trace c s [.result new es ee now, .fire t2]).map (fun p => (p.2.ack, p.2.nProbN, p.2.nRecN, p.2.suppP, p.2.nClr)) =
        [(.sticky, 0, 0, true, 0), (.sticky, 0, 0, true, 0)]) := by
  have hs := send_hard_problem_change c s.base new es now hh hno hnn hsc
  refine ⟨?_, ?_, ?_⟩
  · simp [trace, obsOf, step_result c s new es ee now hst, step_remove, step_fire, fireRelease, fireConsiders, ackNow,
      ackAfterResult, clearsOnChange, expired_mk, hs, hh, hno, hnn, hsc, ha, he, hP, hR, hpa, hdt, Ack.ind]
  · intro hx
    simp [trace, obsOf, step_result c s new es ee now hst, step_fire, fireRelease, fireConsiders, ackNow, ackAfterResult,
      clearsOnChange, expired_mk, hs, hh, hno, hnn, hsc, ha, he, hP, hR, hpa, hdt, hx]
  · intro hx
    simp [trace, obsOf, step_result c s new es ee now hst, step_fire, fireRelease, fireConsiders, ackNow, ackAfterResult,
      clearsOnChange, expired_mk, hs, hh, hno, hnn, hsc, ha, he, hP, hR, hpa, hdt, hx]

/-- **model_trace_meets_spec** (the whole property as one statement).  For every configuration, every start state
    with matching bookkeeping and every finite sequence of acknowledge / remove / result / time-advance operations
    through the API action, the external commands (with and without `_EXPIRE`) and the cluster events, runs of the
    comment-expiry timer, due reminders, runs of the suppressed-notification handler, downtimes and pausing coming and going — with arbitrary times, expiry values and flags — the
    model's trace satisfies the executable specification `specTrace` (all 32 clauses, no mask). -/
theorem model_trace_meets_spec (c : Cfg) (sp : SpecSt) (s : MSt) (hr : Rel sp s) (ops : List Op) :
    specTrace c sp (trace c s ops) = none :=
  spec_trace_rel c ops sp s hr

/-- … in particular from a never-checked, never-acknowledged object. -/
theorem model_trace_meets_spec_from_init (c : Cfg) (ops : List Op) :
    specTrace c specInit (trace c init ops) = none :=
  spec_trace_rel c ops specInit init rel_init

/-- The former witness of F-C06a: a service goes CRITICAL, is acknowledged at 1050 with
    ACKNOWLEDGE_SVC_PROBLEM_EXPIRE;…;1060, and is looked at at 1070. -/
def regressionOps : List Op :=
  [.result .critical 1010 1010 1010, .ack .extExpire true true false 1060 1050, .advance 1070]

/-! ## Non-vacuity: concrete, non-trivial instances of the hypotheses and of the specification -/

def exCfg : Cfg := { kind := .service, max := 1, volatile := false }
def exHost : Cfg := { kind := .host, max := 2, volatile := false }

/-- A hard CRITICAL service with a normal acknowledgement expiring at 2000 and two comments. -/
def exBase : St := { pending with state := .critical, stype := .hard, attempt := 1, lastHard := .critical, lastExec := some 1000 }

def exNormal : MSt :=
  { base := exBase, ack := .normal, expiry := 2000,
    comments := [⟨1005, false, 2000⟩, ⟨1005, true, 2000⟩], suppProblem := false, suppRecovery := false,
    inDowntime := false, paused := false, stateBefore := .ok }

def exSticky : MSt := { exNormal with ack := .sticky }

-- hypotheses of `normal_cleared_by_state_change`: CRITICAL → WARNING at 1100
example : stale exNormal.base ⟨.warning, 1100, 1100⟩ = false ∧ exNormal.ack = .normal ∧ expired exNormal 1100 = false ∧
    stateChange exCfg.kind exNormal.base.state .warning = true := by decide

-- `sticky_cleared_only_by_recovery`: the same change keeps a sticky acknowledgement, a recovery clears it
example : (step exCfg exSticky (.result .warning 1100 1100 1100)).1.ack = .sticky ∧
    (step exCfg exSticky (.result .ok 1100 1100 1100)).1.ack = .none ∧
    (step exCfg exSticky (.result .ok 1100 1100 1100)).2.nClr = 1 := by decide

-- a host: DOWN(critical) → DOWN(unknown) is no state change and keeps even a normal acknowledgement;
-- UP(warning) clears it
example : stateChange exHost.kind .critical .unknown = false ∧
    (step exHost exNormal (.result .unknown 1100 1100 1100)).1.ack = .normal ∧
    (step exHost exNormal (.result .warning 1100 1100 1100)).1.ack = .none := by decide

-- `expiry_clears`: a look at 2001 finds the acknowledgement gone, one cleared event
example : expired exNormal (Op.advance 2001).now = true ∧ (step exCfg exNormal (.advance 2001)).1.ack = .none ∧
    (step exCfg exNormal (.advance 2001)).2.nClr = 1 ∧ (step exCfg exNormal (.advance 2000)).1.ack = .normal := by decide

-- `refuse_ok_or_acked`: both kinds of refusal occur, and an acceptance too
example : (step exCfg exNormal (.ack .api false true false 0 1100)).2.acc = false ∧
    (step exCfg exNormal (.ack .cluster false true false 0 1100)).2.acc = false ∧
    (step exCfg { exNormal with ack := .none, base := { exBase with state := .ok, lastHard := .ok } } (.ack .ext false true false 0 1100)).2.acc = false ∧
    (step exCfg { exNormal with ack := .none } (.ack .ext true true false 0 1100)).2 =
      { acc := true, nSet := 1, nClr := 0, nAckN := 1, nProbN := 0, raw := .sticky } := by decide

-- `ack_comments_removed`: a late recovery (executed at 1003, processed at 1100) clears the acknowledgement but keeps
-- the comments entered at 1005; a recovery executed at 1100 removes the non-persistent one
example : (step exCfg exNormal (.result .ok 1003 1003 1100)).1.comments = [⟨1005, false, 2000⟩, ⟨1005, true, 2000⟩] ∧
    (step exCfg exNormal (.result .ok 1100 1100 1100)).1.comments = [⟨1005, true, 2000⟩] := by decide

-- `problem_withheld_while_acked` is not vacuous: without the acknowledgement the same result requests a Problem
-- notification, with a sticky one it does not
example : (step exCfg { exNormal with ack := .none } (.result .warning 1100 1100 1100)).2.nProbN = 1 ∧
    (step exCfg exSticky (.result .warning 1100 1100 1100)).2.nProbN = 0 := by decide

-- `comment_expiry_timer`: at 2001 the timer removes the expired non-persistent comment and spares the persistent one;
-- at 2000 nothing has expired yet; a timer that did not run removes nothing
example : (step exCfg exNormal (.pump 2001 true)).1.comments = [⟨1005, true, 2000⟩] ∧
    (step exCfg exNormal (.pump 2000 true)).1.comments = [⟨1005, false, 2000⟩, ⟨1005, true, 2000⟩] ∧
    (step exCfg exNormal (.pump 2001 false)).1.comments = [⟨1005, false, 2000⟩, ⟨1005, true, 2000⟩] ∧
    (step exCfg exNormal (.pump 2001 true)).1.ack = .none := by decide

-- `handled_iff` with the downtime half: an unacknowledged problem is handled exactly while in a downtime, and a
-- result in a downtime requests no Problem notification
example : (obsOf exCfg (step exCfg { exNormal with ack := .none } (.downtime true 1100))).handled = true ∧
    (obsOf exCfg (step exCfg { exNormal with ack := .none, inDowntime := true } (.downtime false 1100))).handled = false ∧
    (step exCfg { exNormal with ack := .none, inDowntime := true } (.result .warning 1100 1100 1100)).2.nProbN = 0 := by
  decide

-- `handled_iff` / `raw_attribute_consistent`: at 2001 the raw attribute still says normal, but the first reader —
-- whichever it is — finds a problem that is neither handled nor in the acknowledged severity class
example : (opStep exCfg exNormal (.advance 2001)).1.ack = .normal ∧
    (obsOf exCfg (step exCfg exNormal (.advance 2001))).raw = .normal ∧
    (obsOf exCfg (step exCfg exNormal (.advance 2001))).handled = false ∧
    (obsOf exCfg (step exCfg exNormal (.advance 2001))).sevAck = false ∧
    (obsOf exCfg (step exCfg exNormal (.advance 2000))).handled = true ∧
    (obsOf exCfg (step exCfg exNormal (.advance 2000))).sevAck = true := by decide

-- `ack_notify_once` with the paused bit: a paused object fires the set event but requests no notification
example : (step exCfg { exNormal with ack := .none, paused := true } (.ack .cluster true true false 0 1100)).2 =
      { acc := true, nSet := 1, nClr := 0, nAckN := 0, nProbN := 0, raw := .sticky } := by decide

-- `refusal_justified`: all three reasons occur
example : (step exCfg exNormal (.ack .api false true false 0 1100)).2.acc = false ∧
    (step exCfg { exNormal with ack := .none } (.ack .api false true false 1100 1100)).2.acc = false ∧
    (step exCfg { exNormal with ack := .none } (.ack .cluster false true false 1100 1100)).2.acc = true := by decide

-- `ack_comment_as_requested`: sticky and persistent are independent
example : (step exCfg { exNormal with ack := .none, comments := [] } (.ack .extExpire true true false 1200 1100)).1.comments =
      [⟨1100, false, 1200⟩] ∧
    (step exCfg { exNormal with ack := .none, comments := [] } (.ack .ext false true true 1200 1100)).1.comments =
      [⟨1100, true, 0⟩] ∧
    (step exCfg { exNormal with ack := .none, comments := [] } (.ack .cluster false true true 1200 1100)).1.comments = [] := by
  decide

-- `removal_removes_comments`
example : (step exCfg exNormal (.remove .ext 1100)).1.comments = [⟨1005, true, 2000⟩] ∧
    (step exCfg exNormal (.remove .cluster 1100)).1.comments = [⟨1005, false, 2000⟩, ⟨1005, true, 2000⟩] := by decide

-- `withheld_problem_is_stashed`: sticky, CRITICAL → WARNING (hard): stashed as Problem, not requested; the same result
-- without acknowledgement is requested and leaves the stash empty; with a stash pending it is stashed again; in a
-- downtime a recovery is stashed as Recovery; a paused object does neither
example : (step exCfg exSticky (.result .warning 1100 1100 1100)).1.suppProblem = true ∧
    (step exCfg exSticky (.result .warning 1100 1100 1100)).1.suppRecovery = false ∧
    (step exCfg exSticky (.result .warning 1100 1100 1100)).2.nProbN = 0 ∧
    (step exCfg { exNormal with ack := .none } (.result .warning 1100 1100 1100)).2.nProbN = 1 ∧
    (step exCfg { exNormal with ack := .none } (.result .warning 1100 1100 1100)).1.suppProblem = false ∧
    (step exCfg { exNormal with ack := .none, suppRecovery := true } (.result .warning 1100 1100 1100)).2.nProbN = 0 ∧
    (step exCfg { exNormal with ack := .none, inDowntime := true } (.result .ok 1100 1100 1100)).1.suppRecovery = true ∧
    (step exCfg { exNormal with ack := .none } (.result .ok 1100 1100 1100)).2.nRecN = 1 ∧
    (step exCfg { exSticky with paused := true } (.result .warning 1100 1100 1100)).1.suppProblem = false ∧
    (step exCfg { exNormal with ack := .none, paused := true } (.result .warning 1100 1100 1100)).2.nProbN = 0 := by decide

-- `reminder_withheld_while_acked`: acknowledged until 2000 — no reminder at 1500, one at 2001 (the reminder's own
-- `IsAcknowledged()` notices the expiry: one cleared event), none in a downtime, none for a soft state
example : (step exCfg exNormal (.remind 1500)).2.nRem = 0 ∧ (step exCfg exNormal (.remind 2001)).2.nRem = 1 ∧
    (step exCfg exNormal (.remind 2001)).2.nClr = 1 ∧ (step exCfg exNormal (.remind 2001)).2.raw = .none ∧
    (step exCfg { exNormal with ack := .none } (.remind 1500)).2.nRem = 1 ∧
    (step exCfg { exNormal with ack := .none, inDowntime := true } (.remind 1500)).2.nRem = 0 ∧
    (step exCfg { exNormal with ack := .none, base := { exBase with stype := .soft } } (.remind 1500)).2.nRem = 0 := by decide

-- `stash_kept_while_acked` / `stash_released_after_clearing`: a hard CRITICAL service, sticky acknowledgement until 2000,
-- goes WARNING at 1100 (Problem stashed, state before: CRITICAL).  The handler at 1500 keeps the stash and requests
-- nothing; at 2001 it notices the expiry (one cleared event), requests the one Problem notification and empties the stash;
-- had the service gone back to CRITICAL meanwhile, nothing would be owed; a recovery to OK is announced as a Recovery
def exStashed : MSt := (step exCfg exSticky (.result .warning 1100 1100 1100)).1

example : exStashed.suppProblem = true ∧ exStashed.stateBefore = .critical ∧ exStashed.ack = .sticky ∧
    (step exCfg exStashed (.fire 1500)).2.nProbN = 0 ∧ (step exCfg exStashed (.fire 1500)).1.suppProblem = true ∧
    (step exCfg exStashed (.fire 2001)).2.nProbN = 1 ∧ (step exCfg exStashed (.fire 2001)).2.nClr = 1 ∧
    (step exCfg exStashed (.fire 2001)).1.suppProblem = false ∧
    (step exCfg (step exCfg exStashed (.remove .api 1200)).1 (.fire 1201)).2.nProbN = 1 ∧
    (step exCfg (step exCfg exStashed (.result .critical 1200 1200 1200)).1 (.fire 2001)).2.nProbN = 0 ∧
    (step exCfg (step exCfg exStashed (.result .critical 1200 1200 1200)).1 (.fire 2001)).1.suppProblem = false ∧
    (step exCfg (step exCfg exStashed (.result .ok 1200 1200 1200)).1 (.fire 1201)).2.nRecN = 1 ∧
    (step exCfg { exStashed with inDowntime := true } (.fire 2001)).2.nProbN = 0 ∧
    (step exCfg { exStashed with inDowntime := true } (.fire 2001)).2.raw = .sticky ∧
    (step exCfg { exStashed with paused := true } (.fire 2001)).1.suppProblem = true := by decide

-- the hypotheses of `withheld_problem_delivered_after_clearing` are satisfiable: `exSticky` going CRITICAL → WARNING at 1100
example : stale exSticky.base ⟨.warning, 1100, 1100⟩ = false ∧ exSticky.base.stype = .hard ∧
    isOK exCfg.kind exSticky.base.state = false ∧ isOK exCfg.kind .warning = false ∧
    stateChange exCfg.kind exSticky.base.state .warning = true ∧ exSticky.ack = .sticky ∧ expired exSticky 1100 = false ∧
    exSticky.suppProblem = false ∧ exSticky.suppRecovery = false ∧ exSticky.paused = false ∧ exSticky.inDowntime = false := by
  decide

/-- A history through all entry points that exercises every kind of clearing. -/
def exOps : List Op :=
  [.result .critical 1010 1010 1010, .ack .api false true false 1100 1020, .result .critical 1030 1030 1030,
   .result .warning 1040 1040 1040, .ack .ext true false true 0 1050, .result .critical 1060 1060 1060,
   .ack .cluster false true false 0 1065, .result .ok 1070 1070 1070, .result .unknown 1080 1080 1080,
   .ack .cluster true true false 1090 1085, .advance 1095, .ack .extExpire false true false 1105 1100, .pump 1104 true,
   .downtime true 1105, .pump 1106 true, .remove .api 1110, .pause true 1111, .ack .cluster true true false 0 1112,
   .pause false 1113, .result .warning 1120 1120 1120, .remind 1125, .fire 1126, .remove .ext 1130, .fire 1131]

example :
    (trace exCfg init exOps).map (fun p => (p.2.acc, p.2.ack, p.2.nSet, p.2.nClr)) =
      [(true, .none, 0, 0), (true, .normal, 1, 0), (true, .normal, 0, 0), (true, .none, 0, 1), (true, .sticky, 1, 0),
       (true, .sticky, 0, 0), (false, .sticky, 0, 0), (true, .none, 0, 1), (true, .none, 0, 0), (true, .sticky, 1, 0),
       (true, .none, 0, 1), (true, .normal, 1, 0), (true, .normal, 0, 0), (true, .normal, 0, 0), (true, .none, 0, 1),
       (true, .none, 0, 0), (true, .none, 0, 0), (true, .sticky, 1, 0), (true, .sticky, 0, 0), (true, .sticky, 0, 0),
       (true, .sticky, 0, 0), (true, .sticky, 0, 0), (true, .none, 0, 1), (true, .none, 0, 0)] := by
  decide

-- the regression case of F-C06a: the acknowledgement set by the `_EXPIRE` command stores its expiry and has run out at
-- the look at 1070, with one cleared event
example : (trace exCfg init regressionOps).map (fun p => (p.2.ack, p.2.expiry, p.2.nSet, p.2.nClr)) =
    [(.none, 0, 0, 0), (.sticky, 1060, 1, 0), (.none, 0, 0, 1)] := by
  decide

/-- … and the behaviour before the repair (acknowledgement still there at 1070) is what the specification rejects. -/
example : specTrace exCfg { state := .critical, ack := .sticky, expiry := 1060, comments := [⟨1050, false, 0⟩] }
    [(.advance 1070,
      { acc := true, ack := .sticky, expiry := 0, handled := true, problem := true, state := .critical, stype := .hard,
        attempt := 1, nSet := 0, nClr := 0, nAckN := 0, nProbN := 0, comments := [⟨1050, false, 0⟩],
        raw := .sticky, sevAck := true, suppP := false, suppR := false, nRecN := 0, nRem := 0 })]
    = some .expiryClears := by decide

/-- The specification is not trivially true: a sticky acknowledgement that vanishes on CRITICAL → WARNING is rejected … -/
example : specTrace exCfg { state := .critical, ack := .sticky, expiry := 0, comments := [] }
    [(.result .warning 1100 1100 1100,
      { acc := true, ack := .none, expiry := 0, handled := false, problem := true, state := .warning, stype := .hard,
        attempt := 1, nSet := 0, nClr := 1, nAckN := 0, nProbN := 0, comments := [],
        raw := .none, sevAck := false, suppP := false, suppR := false, nRecN := 0, nRem := 0 })]
    = some .stickyKept := by decide

/-- … so is a cleared event that is missing when an acknowledgement runs out … -/
example : specTrace exCfg { state := .critical, ack := .normal, expiry := 1050, comments := [] }
    [(.advance 1100,
      { acc := true, ack := .none, expiry := 0, handled := false, problem := true, state := .critical, stype := .hard,
        attempt := 1, nSet := 0, nClr := 0, nAckN := 0, nProbN := 0, comments := [],
        raw := .none, sevAck := false, suppP := false, suppR := false, nRecN := 0, nRem := 0 })]
    = some .clearedEventOnce := by decide

/-- … an accepted acknowledgement of an OK service … -/
example : specTrace exCfg { state := .ok, ack := .none, expiry := 0, comments := [] }
    [(.ack .api false true false 0 1100,
      { acc := true, ack := .normal, expiry := 0, handled := false, problem := false, state := .ok, stype := .hard,
        attempt := 1, nSet := 1, nClr := 0, nAckN := 1, nProbN := 0, comments := [⟨1100, false, 0⟩],
        raw := .normal, sevAck := false, suppP := false, suppR := false, nRecN := 0, nRem := 0 })]
    = some .refuseOk := by decide

/-- … a second acknowledgement accepted on top of one that has not run out (cluster handler) … -/
example : specTrace exCfg { state := .critical, ack := .normal, expiry := 2000, comments := [] }
    [(.ack .cluster true true false 0 1100,
      { acc := true, ack := .sticky, expiry := 0, handled := true, problem := true, state := .critical, stype := .hard,
        attempt := 1, nSet := 1, nClr := 0, nAckN := 1, nProbN := 0, comments := [],
        raw := .sticky, sevAck := true, suppP := false, suppR := false, nRecN := 0, nRem := 0 })]
    = some .refuseAcked := by decide

/-- … a second Acknowledgement notification for one acknowledge operation … -/
example : specTrace exCfg { state := .critical, ack := .none, expiry := 0, comments := [] }
    [(.ack .api false true false 0 1100,
      { acc := true, ack := .normal, expiry := 0, handled := true, problem := true, state := .critical, stype := .hard,
        attempt := 1, nSet := 1, nClr := 0, nAckN := 2, nProbN := 0, comments := [⟨1100, false, 0⟩],
        raw := .normal, sevAck := true, suppP := false, suppR := false, nRecN := 0, nRem := 0 })]
    = some .ackNotifyOnce := by decide

/-- … and a comment entered after the clearing result's execution end that disappears. -/
example : specTrace exCfg { state := .critical, ack := .normal, expiry := 0, comments := [⟨1050, false, 0⟩] }
    [(.result .ok 1040 1040 1100,
      { acc := true, ack := .none, expiry := 0, handled := false, problem := false, state := .ok, stype := .hard,
        attempt := 1, nSet := 0, nClr := 1, nAckN := 0, nProbN := 0, comments := [],
        raw := .none, sevAck := false, suppP := false, suppR := false, nRecN := 1, nRem := 0 })]
    = some .commentsRemoved := by decide

/-- … a problem that still counts as handled (or sits in the "acknowledged" severity class) although the first reader
    after the expiry found the acknowledgement gone (`GetHandled()` reading the raw attribute) … -/
example : specTrace exCfg { state := .critical, ack := .normal, expiry := 1050, comments := [] }
    [(.advance 1100,
      { acc := true, ack := .none, expiry := 0, handled := true, problem := true, state := .critical, stype := .hard,
        attempt := 1, nSet := 0, nClr := 1, nAckN := 0, nProbN := 0, comments := [],
        raw := .normal, sevAck := false, suppP := false, suppR := false, nRecN := 0, nRem := 0 })]
    = some .handledIff := by decide

/-- … a raw attribute that changed although nothing but a look happened … -/
example : specTrace exCfg { state := .critical, ack := .normal, expiry := 0, comments := [] }
    [(.advance 1100,
      { acc := true, ack := .normal, expiry := 0, handled := true, problem := true, state := .critical, stype := .hard,
        attempt := 1, nSet := 0, nClr := 0, nAckN := 0, nProbN := 0, comments := [],
        raw := .sticky, sevAck := true, suppP := false, suppR := false, nRecN := 0, nRem := 0 })]
    = some .rawConsistent := by decide

/-- … a sticky, non-persistent acknowledgement whose comment comes out persistent (flags swapped) … -/
example : specTrace exCfg { state := .critical, ack := .none, expiry := 0, comments := [] }
    [(.ack .extExpire true true false 1200 1100,
      { acc := true, ack := .sticky, expiry := 1200, handled := true, problem := true, state := .critical, stype := .hard,
        attempt := 1, nSet := 1, nClr := 0, nAckN := 1, nProbN := 0, comments := [⟨1100, true, 1200⟩],
        raw := .sticky, sevAck := true, suppP := false, suppR := false, nRecN := 0, nRem := 0 })]
    = some .ackComment := by decide

/-- … a remove-acknowledgement that leaves the non-persistent comment behind … -/
example : specTrace exCfg { state := .critical, ack := .normal, expiry := 0, comments := [⟨1050, false, 0⟩] }
    [(.remove .api 1100,
      { acc := true, ack := .none, expiry := 0, handled := false, problem := true, state := .critical, stype := .hard,
        attempt := 1, nSet := 0, nClr := 1, nAckN := 0, nProbN := 0, comments := [⟨1050, false, 0⟩],
        raw := .none, sevAck := false, suppP := false, suppR := false, nRecN := 0, nRem := 0 })]
    = some .removalComments := by decide

/-- … a refusal without reason (CRITICAL, not acknowledged, no expiry) … -/
example : specTrace exCfg { state := .critical, ack := .none, expiry := 0, comments := [] }
    [(.ack .api false true false 0 1100,
      { acc := false, ack := .none, expiry := 0, handled := false, problem := true, state := .critical, stype := .hard,
        attempt := 1, nSet := 0, nClr := 0, nAckN := 0, nProbN := 0, comments := [],
        raw := .none, sevAck := false, suppP := false, suppR := false, nRecN := 0, nRem := 0 })]
    = some .refusalJustified := by decide

/-- … an Acknowledgement notification from a paused object … -/
example : specTrace exCfg { state := .critical, ack := .none, expiry := 0, comments := [], paused := true }
    [(.ack .cluster false true false 0 1100,
      { acc := true, ack := .normal, expiry := 0, handled := true, problem := true, state := .critical, stype := .hard,
        attempt := 1, nSet := 1, nClr := 0, nAckN := 1, nProbN := 0, comments := [],
        raw := .normal, sevAck := true, suppP := false, suppR := false, nRecN := 0, nRem := 0 })]
    = some .ackNotifyOnce := by decide

/-- … a due Problem notification for an acknowledged object (sticky, CRITICAL → WARNING, hard) that is neither
    requested nor stashed, or stashed as a Recovery … -/
example : specTrace exCfg { state := .critical, ack := .sticky, expiry := 0, comments := [] }
    [(.result .warning 1100 1100 1100,
      { acc := true, ack := .sticky, expiry := 0, handled := true, problem := true, state := .warning, stype := .hard,
        attempt := 1, nSet := 0, nClr := 0, nAckN := 0, nProbN := 0, comments := [],
        raw := .sticky, sevAck := true, suppP := false, suppR := false, nRecN := 0, nRem := 0 })]
    = some .withheldStashed := by decide

example : specTrace exCfg { state := .critical, ack := .sticky, expiry := 0, comments := [] }
    [(.result .warning 1100 1100 1100,
      { acc := true, ack := .sticky, expiry := 0, handled := true, problem := true, state := .warning, stype := .hard,
        attempt := 1, nSet := 0, nClr := 0, nAckN := 0, nProbN := 0, comments := [],
        raw := .sticky, sevAck := true, suppP := true, suppR := true, nRecN := 0, nRem := 0 })]
    = some .stashFrame := by decide

/-- … and a Problem notification that stays away although nothing withholds it. -/
example : specTrace exCfg { state := .critical, ack := .none, expiry := 0, comments := [] }
    [(.result .warning 1100 1100 1100,
      { acc := true, ack := .none, expiry := 0, handled := false, problem := true, state := .warning, stype := .hard,
        attempt := 1, nSet := 0, nClr := 0, nAckN := 0, nProbN := 0, comments := [],
        raw := .none, sevAck := false, suppP := false, suppR := false, nRecN := 0, nRem := 0 })]
    = some .notifIffDue := by decide

/-- … a stashed Problem notification that the suppressed-notification handler sends although the object is still
    acknowledged … -/
example : specTrace exCfg { state := .warning, ack := .sticky, expiry := 0, comments := [], suppP := true, before := .critical }
    [(.fire 1100,
      { acc := true, ack := .sticky, expiry := 0, handled := true, problem := true, state := .warning, stype := .hard,
        attempt := 1, nSet := 0, nClr := 0, nAckN := 0, nProbN := 1, comments := [],
        raw := .sticky, sevAck := true, suppP := false, suppR := false, nRecN := 0, nRem := 0 })]
    = some .problemWithheld := by decide

/-- … a stash that is dropped while the object is acknowledged (the notification would never be sent) … -/
example : specTrace exCfg { state := .warning, ack := .sticky, expiry := 0, comments := [], suppP := true, before := .critical }
    [(.fire 1100,
      { acc := true, ack := .sticky, expiry := 0, handled := true, problem := true, state := .warning, stype := .hard,
        attempt := 1, nSet := 0, nClr := 0, nAckN := 0, nProbN := 0, comments := [],
        raw := .sticky, sevAck := true, suppP := false, suppR := false, nRecN := 0, nRem := 0 })]
    = some .stashWithheld := by decide

/-- … a stash that is emptied after the clearing without the owed Problem notification, or with two … -/
example : specTrace exCfg { state := .warning, ack := .none, expiry := 0, comments := [], suppP := true, before := .critical }
    [(.fire 1100,
      { acc := true, ack := .none, expiry := 0, handled := false, problem := true, state := .warning, stype := .hard,
        attempt := 1, nSet := 0, nClr := 0, nAckN := 0, nProbN := 0, comments := [],
        raw := .none, sevAck := false, suppP := false, suppR := false, nRecN := 0, nRem := 0 })]
    = some .stashReleased := by decide

/-- … and a reminder for an acknowledged problem. -/
example : specTrace exCfg { state := .critical, ack := .sticky, expiry := 0, comments := [] }
    [(.remind 1100,
      { acc := true, ack := .sticky, expiry := 0, handled := true, problem := true, state := .critical, stype := .hard,
        attempt := 1, nSet := 0, nClr := 0, nAckN := 0, nProbN := 0, comments := [],
        raw := .sticky, sevAck := true, suppP := false, suppR := false, nRecN := 0, nRem := 1 })]
    = some .reminderWithheld := by decide

end Icinga.C06

/-
  C04 — property theorems.  Every `theorem` in this file is a proof obligation of the check.
  The model (IcingaModel/C04/Model.lean) is a transition system whose actions are the lock-protected
  sections of CheckerComponent and the attribute writes that happen outside its mutex; "for every
  interleaving" is "for every list of enabled actions" (`run`).  Helper lemmas: IcingaProofs/C04/Lemmas.lean.
-/
import IcingaProofs.C04.Lemmas
import IcingaProofs.C04.TraceLemmas
import IcingaProofs.C04.Completion
import IcingaModel.C04.Spec

namespace Icinga.C04

/-- **one_location.**  In every state reachable by any interleaving of scheduler sections, helper sections,
    object handlers, next-check handlers and attribute writes (pause, resume, SetNextCheck, force,
    activation, deactivation at any moment), no checkable is in the idle and the pending set at once; and
    whenever an `ObjectHandler` section has run since the last write of `active`/`paused` (i.e. at every lock
    release outside the window between an attribute write and the handler call that follows it on the same
    thread), a checkable is schedulable (active ∧ ¬paused ∧ local zone) iff it is in exactly one of them:
    nothing is dropped, nothing is scheduled twice. -/
theorem one_location (n : Nat) (max : Int) (hm : 0 ≤ max) (acts : List Act) (s : St)
    (hr : run (init n max) acts = some s) (c : Nat) :
    ¬((s.chk c).inIdle = true ∧ (s.chk c).inPending = true) ∧
    ((s.chk c).synced = true →
      ((s.chk c).schedulable = true ↔ ((s.chk c).inIdle = true ∨ (s.chk c).inPending = true))) := by
  have h := (inv_run acts _ s (inv_init n max hm) hr).1 c
  exact ⟨h.1, h.2.1⟩

/-- the hypotheses of `one_location` are met on a non-trivial run: activate, resume, pick, pause while pending -/
example : ((run (init 2 1) [.setActive 1 true, .setPaused 1 false, .objectHandler 1, .sched 1 5 {},
    .setPaused 1 true, .objectHandler 1, .rearm 1 5 6, .helperGuard 1]).map
      fun s => ((s.chk 1).inIdle, (s.chk 1).inPending, (s.chk 1).synced, (s.chk 1).hx)) = some (false, false, true, 1) := by
  decide

/-- **key_tracks_next_check.**  Rescheduling at any moment never leaves a stale key behind: whenever a
    `NextCheckChangedHandler` section has run since the last write of `next_check`, an idle checkable sits in
    the index under exactly its `next_check`. -/
theorem key_tracks_next_check (n : Nat) (max : Int) (hm : 0 ≤ max) (acts : List Act) (s : St)
    (hr : run (init n max) acts = some s) (c : Nat)
    (hk : (s.chk c).keySynced = true) (hi : (s.chk c).inIdle = true) :
    (s.chk c).idleKey = (s.chk c).nextCheck :=
  ((inv_run acts _ s (inv_init n max hm) hr).1 c).2.2.1 hk hi

example : ((run (init 1 1) [.setActive 0 true, .setPaused 0 false, .objectHandler 0, .setNextCheck 0 77,
    .nextCheckChanged 0]).map fun s => ((s.chk 0).inIdle, (s.chk 0).keySynced, (s.chk 0).idleKey)) = some (true, true, 77) := by
  decide

/-- **single_flight.**  For every interleaving — passive results processed at any moment included (F-C04c, fixed by 1c45f06) — at
    most one execution of a checkable is between a successful `m_CheckRunning` test-and-set and its result — be it a command body
    inside the helper, a spawned plugin process, or a finished process whose result is on its way to `ProcessCheckResult` — and
    one is iff the flag is set. -/
theorem single_flight (n : Nat) (max : Int) (acts : List Act) (s : St)
    (hr : run (init n max) acts = some s) (c : Nat) :
    (s.chk c).hx + (s.chk c).procs + (s.chk c).pz ≤ 1 ∧
    ((s.chk c).hx + (s.chk c).procs + (s.chk c).pz = 1 ↔ (s.chk c).running = true) := by
  have h := flight_run acts _ s (fun _ => by unfold FlightInv init; rfl) hr c
  unfold FlightInv at h
  cases hrun : (s.chk c).running <;> simp [hrun] at h ⊢ <;> omega

/-- asynchronous execution: the helper has long finished, the checkable is idle again, and the process still holds the flag -/
example : ((run (init 1 2) [.setActive 0 true, .setPaused 0 false, .objectHandler 0, .sched 0 0 {},
    .rearm 0 0 1, .helperGuard 0, .spawn 0, .pluginInc 0, .helperDec 0, .helperFinish 0, .setNextCheck 0 0, .nextCheckChanged 0,
    .sched 0 0 {}, .rearm 0 0 1, .helperGuard 0]).map
      fun s => ((s.chk 0).procs, (s.chk 0).running, (s.chk 0).hr, (s.chk 0).inPending, s.counter)) = some (1, true, 1, true, 2) := by
  decide

/-- a passive result during an execution changes nothing: the forced second dispatch finds the guard busy and starts nothing -/
example : ((run (init 1 4) [.setActive 0 true, .setPaused 0 false, .objectHandler 0, .sched 0 0 {}, .rearm 0 0 1, .helperGuard 0, .spawn 0,
    .passiveResult 0, .pluginInc 0, .helperDec 0, .helperFinish 0, .force 0, .sched 0 1 {}, .rearm 0 1 2, .helperGuard 0]).map
      fun s => ((s.chk 0).hx, (s.chk 0).procs, (s.chk 0).running, (s.chk 0).hr)) = some (0, 1, true, 1) := by decide

/-- F-C04c, kept as documentation of the pre-fix code (not a transition of the model any more): before 1c45f06 a passive result
    cleared the flag like every other result, which destroys the invariant behind `single_flight` in any state with an execution in
    progress — the next test-and-set succeeds and a second execution starts. -/
theorem passive_result_pre_fix_breaks_single_flight :
    let x : Chk := { running := true, procs := 1 }
    FlightInv x ∧ ¬ FlightInv x.passiveResultPreFix ∧ (x.passiveResultPreFix.helperGuard).running = true ∧
      FlightInv x.passiveResult := by
  unfold FlightInv; decide

/-- **concurrency_bound.**  For every interleaving the number of command executions running at once — command bodies
    inside helpers plus *spawned, unfinished plugin processes*, over all checkables — never exceeds
    `max_concurrent_checks`; every one of them holds a unit of the pending-checks counter, and the counter is exactly
    the units held by helpers plus PluginCheckTask's own outstanding `+1`s.  (The invariant behind it: helpers that may
    still start something + running command bodies + running processes ≤ max; the dispatch needs `counter < max`
    and every such slot holds a unit.) -/
theorem concurrency_bound (n : Nat) (max : Int) (hm : 0 ≤ max) (acts : List Act) (s : St)
    (hr : run (init n max) acts = some s) :
    s.executing ≤ max ∧ s.executing ≤ s.counter ∧ 0 ≤ s.counter ∧
    s.counter = sumTo s.n (fun i => (s.chk i).units) := by
  have hinv := inv_run acts _ s (inv_init n max hm) hr
  have hmax : s.max = max := (run_n_max acts _ s hr).2
  have h1 := executing_le_max s hinv
  have h2 := executing_le_slots s
  have h3 := slots_le_counter s hinv
  have h4 := counter_nonneg s hinv
  exact ⟨by omega, by omega, h4, hinv.2.1⟩

example : ((run (init 2 1) [.setActive 0 true, .setPaused 0 false, .objectHandler 0, .setActive 1 true,
    .setPaused 1 false, .objectHandler 1, .sched 0 0 {}, .rearm 0 0 1, .helperGuard 0]).map
      fun s => (s.executing, s.counter, decide (schedEnabled s 1 0))) = some (1, 1, false) := by
  decide

/-- kept visible: the *counter* itself is not bounded by `max_concurrent_checks` — between PluginCheckTask's `+1` and
    the helper's `-1` one check holds two units (here: max = 1, counter = 2, one process running) -/
theorem counter_exceeds_max_with_plugins :
    ((run (init 1 1) [.setActive 0 true, .setPaused 0 false, .objectHandler 0, .sched 0 0 {},
        .rearm 0 0 1, .helperGuard 0, .spawn 0, .pluginInc 0]).map fun s => (s.counter, s.max, s.executing)) = some (2, 1, 1) := by
  decide

/-- **next_check_window.**  `Checkable::UpdateNextCheck` (exact arithmetic): for every `now`, every scheduling
    offset and every interval `> 0` (check_interval, or retry_interval while soft) the next check lies in the
    future and at most one interval ahead.  (The trace validation evaluates the same window on the implementation's own
    next_check after every execution — clause `next_check_window` — with the interval in force determined by the harness.) -/
theorem next_check_window (now off interval : Rat) (hi : 0 < interval) :
    now < updateNextCheck now off interval ∧ updateNextCheck now off interval ≤ now + interval := by
  have := adj_bounds now off interval hi
  unfold updateNextCheck
  constructor <;> grind

example : updateNextCheck 1000 7 60 = 1059 + 43 / 100 := by decide +kernel
example : updateNextCheck 1000 7 (1 / 2) = 1000 + 1 / 2 := by decide +kernel

/-- **forced_runs.**  When the scheduler takes a checkable whose `force_next_check` is set, the check is
    dispatched whatever reachability, `enable_active_checks` and the check period say: it moves from idle to
    pending, the flag is cleared and a helper is queued. -/
theorem forced_runs (s : St) (c : Nat) (now : Int) (i : SkipIn)
    (hen : schedEnabled s c now) (hf : (s.chk c).forced = true) :
    ∃ s', step s (.sched c now i) = some s' ∧ (s'.chk c).inPending = true ∧ (s'.chk c).inIdle = false ∧
      (s'.chk c).forced = false ∧ (s'.chk c).hq = (s.chk c).hq + 1 ∧ s'.counter = s.counter + 1 := by
  refine ⟨{ s.upd c ((s.chk c).pick now) with counter := s.counter + 1 }, ?_, ?_⟩
  · simp [step, hen, Chk.skipsIn, Chk.skips, hf]
  · simp [St.upd, Chk.pick]

/-- and an unforced check is skipped exactly when unreachable, disabled or outside its period -/
theorem skip_iff (f r e p : Bool) : Chk.skips f r e p = true ↔ (f = false ∧ (r = false ∨ e = false ∨ p = false)) := by
  cases f <;> cases r <;> cases e <;> cases p <;> decide

/-- **eligible_runs.**  The scheduler's guard set (checkercomponent.cpp:142-176 as transcribed: dependency test, the object's
    own flag with the global flag of its type — host checks for hosts, service checks for services —, check period) agrees with
    the property's notion of eligibility (`eligible`, IcingaModel/C04/Spec.lean): whenever the scheduler's section is enabled for
    a due entry, the check is dispatched (idle → pending, a helper queued, one slot taken) if it is forced or eligible, and
    otherwise — and only otherwise — it is skipped and stays idle.  "Every active checkable … with active checks enabled and
    inside its check period is executed": in particular a service is never skipped because of its host's state. -/
theorem eligible_runs (s : St) (c : Nat) (now : Int) (i : SkipIn) (hen : schedEnabled s c now) :
    ∃ s', step s (.sched c now i) = some s' ∧
      (((s.chk c).forced = true ∨ eligible i.isService i.own i.hostChecks i.svcChecks i.inPeriod i.depOk = true) →
        (s'.chk c).inPending = true ∧ (s'.chk c).inIdle = false ∧ (s'.chk c).hq = (s.chk c).hq + 1 ∧
          s'.counter = s.counter + 1) ∧
      (((s.chk c).forced = false ∧ eligible i.isService i.own i.hostChecks i.svcChecks i.inPeriod i.depOk = false) →
        (s'.chk c).inIdle = true ∧ (s'.chk c).inPending = (s.chk c).inPending ∧ (s'.chk c).hq = (s.chk c).hq ∧
          s'.counter = s.counter) := by
  have key : Chk.skipsIn (s.chk c).forced i =
      (!(s.chk c).forced && !eligible i.isService i.own i.hostChecks i.svcChecks i.inPeriod i.depOk) := by
    obtain ⟨a, b, d, e, g, h⟩ := i
    cases (s.chk c).forced <;> cases a <;> cases b <;> cases d <;> cases e <;> cases g <;> cases h <;> rfl
  cases hsk : Chk.skipsIn (s.chk c).forced i
  · refine ⟨{ s.upd c ((s.chk c).pick now) with counter := s.counter + 1 }, by simp [step, hen, hsk], ?_, ?_⟩
    · intro _; simp [St.upd, Chk.pick]
    · intro ⟨hf, he⟩; rw [key, hf, he] at hsk; simp at hsk
  · refine ⟨s.upd c (s.chk c).skip, by simp [step, hen, hsk], ?_, ?_⟩
    · intro h; rw [key] at hsk
      rcases h with h | h <;> simp [h] at hsk
    · intro _; simp [St.upd, Chk.skip]

/-- a service whose host is DOWN, with everything else in order, is dispatched: the host's state is not among the facts -/
example : ((run (init 1 1) [.setActive 0 true, .setPaused 0 false, .objectHandler 0,
    .sched 0 0 { isService := true, hostChecks := false }]).map fun s => ((s.chk 0).inPending, s.counter)) = some (true, 1) := by
  decide
/-- … and a host is skipped when host checks are globally off although its own flag is on -/
example : ((run (init 1 1) [.setActive 0 true, .setPaused 0 false, .objectHandler 0,
    .sched 0 0 { hostChecks := false }]).map fun s => ((s.chk 0).inPending, (s.chk 0).inIdle, s.counter)) = some (false, true, 0) := by
  decide

example : ((run (init 1 1) [.setActive 0 true, .setPaused 0 false, .objectHandler 0, .force 0,
    .sched 0 0 { depOk := false, own := false, inPeriod := false }]).map fun s => ((s.chk 0).inPending, (s.chk 0).forced)) = some (true, false) := by
  decide

/-- **progress.**  No stuck state: whenever some checkable is idle and due and a slot is free, the scheduler's
    section is enabled for an idle checkable with the smallest key (which is due as well), whatever the
    recorded facts.  (`ExecuteCheck`'s early `UpdateNextCheck` is the transition `rearm`, the one of result processing / the skip path is
    `ownResched`, each followed by its own `nextCheckChanged`; the scheduler thread's sequential order "skip, then UpdateNextCheck, then
    look again" is not modelled — so this is absence of a stuck state, not liveness; real-time liveness is measured.) -/
theorem progress (s : St) (now : Int) (c0 : Nat) (h0 : c0 < s.n) (hi : (s.chk c0).inIdle = true)
    (hdue : (s.chk c0).idleKey ≤ now) (hfree : s.counter < s.max) :
    ∃ c, schedEnabled s c now ∧ (s.chk c).idleKey ≤ (s.chk c0).idleKey ∧
      ∀ i, (step s (.sched c now i)).isSome = true := by
  obtain ⟨c, hc, hic, hle, hmin⟩ := exists_min_idle s s.n (Nat.le_refl _) c0 h0 hi
  have hen : schedEnabled s c now := ⟨hc, hic, by omega, hfree, hmin⟩
  refine ⟨c, hen, hle, ?_⟩
  intro i
  simp only [step, hen, if_true]
  split <;> rfl

example : schedEnabled
    { n := 2, chk := fun i => if i = 0 then { inIdle := true, idleKey := 9 } else { inIdle := true, idleKey := 4 },
      counter := 0, max := 1 } 1 5 := by decide

/-- **sched_takes_earliest.**  No overtaking: whatever entry the scheduler's section takes, no idle checkable has an earlier key — a due
    check is never passed over in favour of a later one (with `key_tracks_next_check`: in favour of a later `next_check`); and the
    entry taken is due and a slot was free. -/
theorem sched_takes_earliest (s s' : St) (c : Nat) (now : Int) (i : SkipIn) (hs : step s (.sched c now i) = some s') :
    (∀ c0, c0 < s.n → (s.chk c0).inIdle = true → (s.chk c).idleKey ≤ (s.chk c0).idleKey) ∧
      (s.chk c).idleKey ≤ now ∧ s.counter < s.max := by
  simp only [step] at hs
  split at hs
  · rename_i hen
    exact ⟨hen.2.2.2.2, hen.2.2.1, hen.2.2.2.1⟩
  · simp at hs

/-- the later entry cannot be taken while an earlier one is idle, although it is due itself -/
example : (step (St.mk 2 (fun i => if i = 0 then { inIdle := true, idleKey := 9 } else { inIdle := true, idleKey := 4 }) 0 1)
    (.sched 0 10 {})).isNone = true := by decide

/-- a skipped or executed checkable stays schedulable: after the scheduler's section it is in exactly one set -/
theorem sched_keeps_scheduled (s s' : St) (c : Nat) (now : Int) (i : SkipIn)
    (hs : step s (.sched c now i) = some s') :
    ((s'.chk c).inIdle = true ∧ (s'.chk c).idleKey = (s.chk c).nextCheck ∧ (s'.chk c).inPending = (s.chk c).inPending) ∨
    ((s'.chk c).inIdle = false ∧ (s'.chk c).inPending = true) := by
  simp only [step] at hs
  split at hs
  · split at hs <;> simp at hs <;> subst hs
    · left; simp [St.upd, Chk.skip]
    · right; simp [St.upd, Chk.pick]
  · simp at hs

/-- **pending_has_helper.**  "Never dropped" for the pending set: in every reachable state a checkable that sits in the pending
    set has a dispatched `ExecuteCheckHelper` that has not passed its final critical section yet — the section that takes it
    out of the pending set and, if it is still active, back into the idle set (`helperFinish`).  No interleaving of pause,
    resume, reschedule, force, activation, deactivation and completions strands a checkable in the pending set. -/
theorem pending_has_helper (n : Nat) (max : Int) (hm : 0 ≤ max) (acts : List Act) (s : St)
    (hr : run (init n max) acts = some s) (c : Nat) (hp : (s.chk c).inPending = true) :
    0 < (s.chk c).helpers ∧
      ((s.chk c).hd > 0 → ((s.upd c (s.chk c).helperFinish).chk c).inPending = false ∧
        ((s.chk c).active = true → ((s.upd c (s.chk c).helperFinish).chk c).inIdle = true)) := by
  have h := ((inv_run acts _ s (inv_init n max hm) hr).1 c)
  refine ⟨by unfold Chk.helpers; exact h.2.2.2.2 hp, ?_⟩
  intro _
  have hni : (s.chk c).inIdle = false := by
    cases hi : (s.chk c).inIdle
    · rfl
    · exact absurd ⟨hi, hp⟩ h.1
  simp only [St.upd, if_true, Chk.helperFinish, hp, Chk.idleInsert]
  refine ⟨by split <;> simp [*], ?_⟩
  intro ha; simp [ha, hni]

/-- pending while two helpers are outstanding (dispatch, pause+resume while the command runs, second dispatch) -/
example : ((run (init 1 4) [.setActive 0 true, .setPaused 0 false, .objectHandler 0, .sched 0 0 {}, .rearm 0 0 1, .helperGuard 0,
    .setPaused 0 true, .objectHandler 0, .setPaused 0 false, .objectHandler 0, .sched 0 1 {}]).map
      fun s => ((s.chk 0).inPending, (s.chk 0).helpers)) = some (true, 2) := by decide

/-- **completion_always_possible.**  "Never dropped", as absence of a dead end: from EVERY reachable state — whatever pauses, resumes,
    reschedules, forced checks, activations, deactivations and other checkables' events have happened, in whatever order — the
    completion path of any checkable `c` (guard, result or process exit + result, PluginCheckTask's `+1`, the helper's `-1` and final
    section) can be run to its end using only `c`'s own actions, each of which is enabled without regard to any other checkable,
    and in the state reached nothing of `c` is in flight, `c` is not in the pending set, and — if its handlers have run and it is
    this node's to schedule — it is in the idle set under some key: it will be taken again. -/
theorem completion_always_possible (n : Nat) (max : Int) (hm : 0 ≤ max) (acts : List Act) (s : St)
    (hr : run (init n max) acts = some s) (c : Nat) (hc : c < n) :
    ∃ more s', run (init n max) (acts ++ more) = some s' ∧ (∀ a ∈ more, a.completes c = true) ∧
      (s'.chk c).settled = true ∧ (s'.chk c).inPending = false ∧
      ((s'.chk c).synced = true → (s'.chk c).schedulable = true → (s'.chk c).inIdle = true) := by
  have hn : s.n = n := (run_n_max acts _ s hr).1
  obtain ⟨more, s', hrun, hall, hset⟩ := settle_exists c (s.chk c).work s (by omega) (Nat.le_refl _)
  have hfull := run_append _ _ _ _ _ hr hrun
  have hinv := (inv_run _ _ s' (inv_init n max hm) hfull).1 c
  have hnp : (s'.chk c).inPending = false := by
    cases hp : (s'.chk c).inPending
    · rfl
    · have := hinv.2.2.2.2 hp
      simp only [Chk.settled, Chk.helpers, Bool.and_eq_true, beq_iff_eq] at hset
      omega
  refine ⟨more, s', hfull, hall, hset, hnp, ?_⟩
  intro hsy hsc
  have := (hinv.2.1 hsy).1 hsc
  simpa [hnp] using this

/-- two helpers outstanding (second dispatch after pause+resume during the first command), one command running: seven more
    actions of checkable 0 and it is settled and idle again -/
example : ((run (init 1 4) ([.setActive 0 true, .setPaused 0 false, .objectHandler 0, .sched 0 0 {}, .rearm 0 0 1, .helperGuard 0,
    .setPaused 0 true, .objectHandler 0, .setPaused 0 false, .objectHandler 0, .sched 0 1 {}] ++
    [.rearm 0 1 2, .helperGuard 0, .result 0, .helperDec 0, .helperDec 0, .helperFinish 0, .helperFinish 0])).map
      fun s => ((s.chk 0).settled, (s.chk 0).inIdle, (s.chk 0).inPending, s.counter)) = some (true, true, false, 0) := by decide

/-- **no_slot_leak.**  In every reachable state in which nothing is in flight — no helper between its dispatch and its final
    section, no plugin process running, no result on its way — the pending-checks counter is 0: every concurrency slot taken by a
    dispatch or by PluginCheckTask's own `+1` has been given back, whatever happened to the checkable meanwhile (paused,
    deactivated, re-added, dispatched again while its process ran). -/
theorem no_slot_leak (n : Nat) (max : Int) (hm : 0 ≤ max) (acts : List Act) (s : St)
    (hr : run (init n max) acts = some s) (hq : s.settled = true) : s.counter = 0 :=
  settled_counter s (inv_run acts _ s (inv_init n max hm) hr) hq

/-- settled again after an asynchronous execution whose checkable was paused while the process ran -/
example : ((run (init 1 1) [.setActive 0 true, .setPaused 0 false, .objectHandler 0, .sched 0 0 {}, .rearm 0 0 1, .helperGuard 0, .spawn 0,
    .setPaused 0 true, .objectHandler 0, .procExit 0, .pluginInc 0, .helperDec 0, .helperFinish 0, .procResult 0]).map
      fun s => (s.settled, s.counter)) = some (true, 0) := by decide

/-- **model_trace_meets_spec** (the safety part of the property as one statement).  For every number of checkables,
    every `max_concurrent_checks ≥ 0` and every interleaving of enabled actions (passive results at any moment included) —
    scheduler sections with arbitrary clocks and oracle inputs, helper sections, check completions, pause / resume /
    activation / deactivation (attribute writes and handler calls at any distance from each other), next-check
    changes, forced checks — the trace an observer takes from the model (membership at every lock release, the
    scheduler's slot and skip decisions, start and end of every command execution, the quiescent snapshot at the end;
    IcingaModel/C04/Trace.lean) satisfies the executable specification `specTrace` that the check also evaluates on the
    real scheduler's observations: never in both sets; once an authority-changing operation (pause, resume, activation,
    deactivation) has completed, at every later lock release a checkable that is not this node's to schedule is in neither
    set and one that is, is in one (until the next such operation begins); no dispatch without a free slot, no forced check skipped,
    no eligible check (active checks enabled for the object and its type, period open, no failed disable_checks dependency) skipped
    and no ineligible unforced one executed, never
    two executions of one checkable at once, never more than `max_concurrent_checks` executions, and at quiescence
    schedulable ⇔ in exactly one set, under its `next_check`, nothing left in the pending set once all helpers have finished, and
    the pending-checks counter back at 0 once nothing is in flight.  (`window` observations are covered by
    `next_check_window`; real-time liveness is measured, not proved.) -/
theorem model_trace_meets_spec (n : Nat) (max : Int) (hm : 0 ≤ max) (acts : List Act) (tr : List Ev)
    (ht : traceOf (init n max) acts = some tr) :
    specTrace { max := max } tr = none :=
  rel_run acts _ _ tr (rel_init n max hm) (fun _ _ hb => by simp [getKnown] at hb) ht

/-- the hypotheses are met by a non-trivial run (dispatch, execution, pause while pending, result, finish) and the trace
    it produces is not empty -/
example : (traceOf (init 2 1) [.setActive 1 true, .setPaused 1 false, .objectHandler 1, .force 1,
    .sched 1 5 { own := false }, .rearm 1 5 6, .nextCheckChanged 1, .helperGuard 1, .setPaused 1 true, .objectHandler 1, .result 1, .helperDec 1,
    .helperFinish 1]) = some [.opBegin 1, .opBegin 1, .authority 1 true, .loc 1 true false, .slot 0 1,
      .decision 1 true false false, .loc 1 false true, .loc 1 false true, .execStart 1, .opBegin 1, .authority 1 false, .loc 1 false false,
      .execEnd 1, .rearmed 1 5 6, .loc 1 false false, .quiescent 0 false false false 0 0, .quiescent 1 false false false 0 6,
      .quiescentCounter 0] := by decide

/-- … and by an asynchronous one: the process outlives its helper, exits, and only then delivers its result -/
example : (traceOf (init 1 1) [.setActive 0 true, .setPaused 0 false, .objectHandler 0, .sched 0 0 {},
    .rearm 0 0 1, .nextCheckChanged 0, .helperGuard 0, .spawn 0, .pluginInc 0, .helperDec 0, .helperFinish 0, .procExit 0, .procResult 0]).bind
      (fun tr => some tr.length) = some 14 := by decide

/-- … and by the run of F-C04c: a passive result while the process runs, then a forced dispatch — the trace passes (no second
    `execStart`) -/
example : (traceOf (init 1 4) [.setActive 0 true, .setPaused 0 false, .objectHandler 0, .sched 0 0 {}, .rearm 0 0 1, .helperGuard 0, .spawn 0,
    .passiveResult 0, .pluginInc 0, .helperDec 0, .helperFinish 0, .force 0, .sched 0 1 {}, .rearm 0 1 2, .helperGuard 0]).bind
      (fun tr => some (specTrace { max := 4 } tr, tr.count (.execStart 0))) = some (none, 1) := by decide

/-- **rearm_after_dispatch.**  The clause `not_rearmed` ("after each execution the next check time lies in the future", evaluated on the
    implementation's own `next_check` every time an execution attempt has come back - result delivered, process spawned, or single-flight
    guard found busy) is what `Checkable::ExecuteCheck`'s unconditional early `UpdateNextCheck()` (checkable-check.cpp:578-584, before the
    guard) guarantees: the helper reads the clock no earlier than the scheduler that dispatched it (`d ≤ now`), and `UpdateNextCheck`
    yields a value after the clock it read (`now < v`, theorem `next_check_window` for every offset and interval > 0); every later write
    by the scheduler's machinery (result processing, skip path) is of the same kind.  (The model's transitions `rearm` / `ownResched`
    carry exactly these two facts as their enabling conditions.) -/
theorem rearm_after_dispatch (sp : SpecSt) (c : Nat) (d now v : Int) (hmono : d ≤ now) (hfut : now < v) :
    specStep sp (.rearmed c d v) = none := by
  have : d < v := by omega
  simp [specStep, this]

/-- **rearmed_when_attempt_returns.**  For every interleaving: in every reachable state in which an execution attempt of `c` has passed
    `ExecuteCheck`'s early `UpdateNextCheck()` and is still outstanding (before the guard, executing, spawning, returned, or before its
    final section) and no outside party (`setNextCheck`: API action, external command, cluster event) has written `next_check` since the
    earliest outstanding dispatch, `next_check` lies after that dispatch - whatever pauses, resumes, second dispatches, busy guards,
    passive results and completions happened meanwhile.  In particular a helper that finds the single-flight guard busy comes back with
    the checkable re-armed: the scheduler does not take it again at once.  (`model_trace_meets_spec` carries this as the `rearmed`
    observation at every `helperDec`.) -/
theorem rearmed_when_attempt_returns (n : Nat) (max : Int) (acts : List Act) (s : St)
    (hr : run (init n max) acts = some s) (c : Nat) (hf : (s.chk c).foreign = false)
    (hh : 0 < (s.chk c).hu + (s.chk c).hx + (s.chk c).hs + (s.chk c).hr + (s.chk c).hd) :
    (s.chk c).dispatchedAt < (s.chk c).nextCheck :=
  rearm_run acts _ s (rearm_init n max) hr c hf hh

/-- the hypotheses are met while a second attempt (process of the first still running) has found the guard busy and returned -/
example : ((run (init 1 4) [.setActive 0 true, .setPaused 0 false, .objectHandler 0, .sched 0 0 {}, .rearm 0 2 32, .helperGuard 0, .spawn 0,
    .pluginInc 0, .helperDec 0, .helperFinish 0, .ownResched 0 3 4, .nextCheckChanged 0, .sched 0 7 {}, .rearm 0 8 38, .helperGuard 0]).map
      fun s => ((s.chk 0).foreign, (s.chk 0).hr, (s.chk 0).procs, (s.chk 0).dispatchedAt, (s.chk 0).nextCheck)) = some (false, 1, 1, 7, 38) := by
  decide

/-- the order matters: a helper cannot reach the guard before it has re-armed the checkable (the mutation "re-arm only after a successful
    guard" is not a behaviour of the model) -/
example : (run (init 1 4) [.setActive 0 true, .setPaused 0 false, .objectHandler 0, .sched 0 0 {}, .helperGuard 0]).isNone = true := by decide

/-- … with the exact arithmetic of `UpdateNextCheck`: whatever offset and interval > 0, the value it computes from a clock reading not
    before the dispatch lies after the dispatch -/
theorem update_next_check_after_dispatch (d now off interval : Rat) (hi : 0 < interval) (hmono : d ≤ now) :
    d < updateNextCheck now off interval := by
  have := (next_check_window now off interval hi).1
  grind

example : specStep { max := 1 } (.rearmed 0 1000 1030) = none := by decide

/-! ### the specification predicate is not vacuous -/

example : specTrace { max := 1 } [.rearmed 0 10 10] = some .not_rearmed := by decide
example : specTrace { max := 1 } [.rearmed 0 10 11] = none := by decide

example : specTrace { max := 2 } [.execStart 3, .loc 3 false true, .execStart 3] = some .single_flight := by decide
example : specTrace { max := 1 } [.execStart 3, .execStart 4] = some .concurrency_bound := by decide
example : specTrace { max := 1 } [.loc 0 true true] = some .one_location := by decide
example : specTrace { max := 1 } [.slot 1 1] = some .concurrency_slot := by decide
example : specTrace { max := 1 } [.decision 0 true true false] = some .forced_runs := by decide
example : specTrace { max := 1 } [.decision 0 false true true] = some .eligible_skipped := by decide
example : specTrace { max := 1 } [.decision 0 false false false] = some .ran_although_disabled := by decide
example : specTrace { max := 1 } [.decision 0 false true false, .decision 0 true false false, .decision 0 false false true] = none := by decide
example : specTrace { max := 1 } [.quiescent 0 true false true 0 0] = some .quiescent_pending := by decide
example : specTrace { max := 1 } [.quiescentCounter 1] = some .slot_leaked := by decide
example : specTrace { max := 1 } [.window 10 11 10 5] = some .next_check_window := by decide
example : specTrace { max := 1 } [.quiescent 0 true false false 0 0] = some .quiescent_location := by decide
example : specTrace { max := 1 } [.opBegin 3, .authority 3 false, .loc 3 true false] = some .scheduled_while_not_responsible := by decide
example : specTrace { max := 1 } [.authority 3 true, .loc 3 false false] = some .dropped_from_schedule := by decide
example : specTrace { max := 1 } [.authority 3 false, .opBegin 3, .loc 3 true false, .authority 3 true, .loc 3 true false] = none := by decide
example : specTrace { max := 1 } [.quiescent 0 true true false 3 4] = some .quiescent_key := by decide
example : specTrace { max := 2 } [.execStart 3, .slot 1 2, .execStart 4, .execEnd 3, .execStart 3, .window 10 11 15 5,
    .quiescent 0 true true false 4 4, .quiescent 1 false false false 0 9] = none := by decide

end Icinga.C04

/-
  C04 — property theorems.  Every `theorem` in this file is a proof obligation of the check.
  The model (IcingaModel/C04/Model.lean) is a transition system whose actions are the lock-protected
  sections of CheckerComponent and the attribute writes that happen outside its mutex; "for every
  interleaving" is "for every list of enabled actions" (`run`).  Helper lemmas: IcingaProofs/C04/Lemmas.lean.
-/
import IcingaProofs.C04.Lemmas
import IcingaProofs.C04.TraceLemmas
import IcingaModel.C04.Spec

namespace Icinga.C04

/-- **one_location.**  In every state reachable by any interleaving of scheduler sections, helper sections,
    object handlers, next-check handlers and attribute writes (pause, resume, SetNextCheck, force,
    activation, deactivation at any moment), no checkable is in the idle and the pending set at once; and
    whenever an `ObjectHandler` section has run since the last write of `active`/`paused` (i.e. at every lock
    release outside the window between an attribute write and the handler call that follows it on the same
    thread), a checkable is schedulable (active ∧ ¬paused ∧ local zone) iff it is in exactly one of them:
    nothing is dropped, nothing is scheduled twice. -/
theorem one_location (n : Nat) (max : Int) (hm : 0 ≤ max) (acts : List Act) (s : St)
    (hr : run (init n max) acts = some s) (c : Nat) :
    ¬((s.chk c).inIdle = true ∧ (s.chk c).inPending = true) ∧
    ((s.chk c).synced = true →
      ((s.chk c).schedulable = true ↔ ((s.chk c).inIdle = true ∨ (s.chk c).inPending = true))) := by
  have h := (inv_run acts _ s (inv_init n max hm) hr).1 c
  exact ⟨h.1, h.2.1⟩

/-- the hypotheses of `one_location` are met on a non-trivial run: activate, resume, pick, pause while pending -/
example : ((run (init 2 1) [.setActive 1 true, .setPaused 1 false, .objectHandler 1, .sched 1 5 true true true,
    .setPaused 1 true, .objectHandler 1, .helperGuard 1]).map
      fun s => ((s.chk 1).inIdle, (s.chk 1).inPending, (s.chk 1).synced, (s.chk 1).hx)) = some (false, false, true, 1) := by
  decide

/-- **key_tracks_next_check.**  Rescheduling at any moment never leaves a stale key behind: whenever a
    `NextCheckChangedHandler` section has run since the last write of `next_check`, an idle checkable sits in
    the index under exactly its `next_check`. -/
theorem key_tracks_next_check (n : Nat) (max : Int) (hm : 0 ≤ max) (acts : List Act) (s : St)
    (hr : run (init n max) acts = some s) (c : Nat)
    (hk : (s.chk c).keySynced = true) (hi : (s.chk c).inIdle = true) :
    (s.chk c).idleKey = (s.chk c).nextCheck :=
  ((inv_run acts _ s (inv_init n max hm) hr).1 c).2.2.1 hk hi

example : ((run (init 1 1) [.setActive 0 true, .setPaused 0 false, .objectHandler 0, .setNextCheck 0 77,
    .nextCheckChanged 0]).map fun s => ((s.chk 0).inIdle, (s.chk 0).keySynced, (s.chk 0).idleKey)) = some (true, true, 77) := by
  decide

/-- **single_flight.**  Under the property's event alphabet (no result from outside the execution itself —
    Q-C04), for every interleaving at most one execution of a checkable is between a successful
    `m_CheckRunning` test-and-set and its result — be it a command body inside the helper, a spawned plugin process, or
    a finished process whose result is on its way to `ProcessCheckResult` — and one is iff the flag is set. -/
theorem single_flight (n : Nat) (max : Int) (acts : List Act) (s : St)
    (hp : ∀ a ∈ acts, a.isPassive = false) (hr : run (init n max) acts = some s) (c : Nat) :
    (s.chk c).hx + (s.chk c).procs + (s.chk c).pz ≤ 1 ∧
    ((s.chk c).hx + (s.chk c).procs + (s.chk c).pz = 1 ↔ (s.chk c).running = true) := by
  have h := flight_run acts _ s hp (fun _ => by unfold FlightInv init; rfl) hr c
  unfold FlightInv at h
  cases hrun : (s.chk c).running <;> simp [hrun] at h ⊢ <;> omega

/-- asynchronous execution: the helper has long finished, the checkable is idle again, and the process still holds the flag -/
example : ((run (init 1 2) [.setActive 0 true, .setPaused 0 false, .objectHandler 0, .sched 0 0 true true true,
    .helperGuard 0, .spawn 0, .pluginInc 0, .helperDec 0, .helperFinish 0, .setNextCheck 0 0, .nextCheckChanged 0,
    .sched 0 0 true true true, .helperGuard 0]).map
      fun s => ((s.chk 0).procs, (s.chk 0).running, (s.chk 0).hr, (s.chk 0).inPending, s.counter)) = some (1, true, 1, true, 2) := by
  decide

/-- Q-C04, kept visible: a passive/cluster result that arrives during an execution resets the flag
    (checkable-check.cpp:103-106), after which a second execution can start — the hypothesis of
    `single_flight` cannot be dropped. -/
theorem single_flight_counterexample_with_passive_result :
    ((run (init 1 4) [.setActive 0 true, .setPaused 0 false, .objectHandler 0, .sched 0 0 true true true,
        .helperGuard 0, .passiveResult 0, .setPaused 0 true, .objectHandler 0, .setPaused 0 false,
        .objectHandler 0, .sched 0 0 true true true, .helperGuard 0]).map fun s => (s.chk 0).hx) = some 2 := by
  decide

/-- **concurrency_bound.**  For every interleaving the number of command executions running at once — command bodies
    inside helpers plus *spawned, unfinished plugin processes*, over all checkables — never exceeds
    `max_concurrent_checks`; every one of them holds a unit of the pending-checks counter, and the counter is exactly
    the units held by helpers plus PluginCheckTask's own outstanding `+1`s.  (The invariant behind it: helpers that may
    still start something + running command bodies + running processes ≤ max; the dispatch needs `counter < max`
    and every such slot holds a unit.) -/
theorem concurrency_bound (n : Nat) (max : Int) (hm : 0 ≤ max) (acts : List Act) (s : St)
    (hr : run (init n max) acts = some s) :
    s.executing ≤ max ∧ s.executing ≤ s.counter ∧ 0 ≤ s.counter ∧
    s.counter = sumTo s.n (fun i => (s.chk i).units) := by
  have hinv := inv_run acts _ s (inv_init n max hm) hr
  have hmax : s.max = max := (run_n_max acts _ s hr).2
  have h1 := executing_le_max s hinv
  have h2 := executing_le_slots s
  have h3 := slots_le_counter s hinv
  have h4 := counter_nonneg s hinv
  exact ⟨by omega, by omega, h4, hinv.2.1⟩

example : ((run (init 2 1) [.setActive 0 true, .setPaused 0 false, .objectHandler 0, .setActive 1 true,
    .setPaused 1 false, .objectHandler 1, .sched 0 0 true true true, .helperGuard 0]).map
      fun s => (s.executing, s.counter, decide (schedEnabled s 1 0))) = some (1, 1, false) := by
  decide

/-- kept visible: the *counter* itself is not bounded by `max_concurrent_checks` — between PluginCheckTask's `+1` and
    the helper's `-1` one check holds two units (here: max = 1, counter = 2, one process running) -/
theorem counter_exceeds_max_with_plugins :
    ((run (init 1 1) [.setActive 0 true, .setPaused 0 false, .objectHandler 0, .sched 0 0 true true true,
        .helperGuard 0, .spawn 0, .pluginInc 0]).map fun s => (s.counter, s.max, s.executing)) = some (2, 1, 1) := by
  decide

/-- **next_check_window.**  `Checkable::UpdateNextCheck` (exact arithmetic): for every `now ≥ 0`, scheduling
    offset `≥ 0` and interval `> 0` (check_interval, or retry_interval while soft) the next check lies in the
    future and at most one interval ahead. -/
theorem next_check_window (now off interval : Rat) (_hn : 0 ≤ now) (_ho : 0 ≤ off) (hi : 0 < interval) :
    now < updateNextCheck now off interval ∧ updateNextCheck now off interval ≤ now + interval := by
  have := adj_bounds now off interval hi
  unfold updateNextCheck
  constructor <;> grind

example : updateNextCheck 1000 7 60 = 1059 + 43 / 100 := by decide +kernel
example : updateNextCheck 1000 7 (1 / 2) = 1000 + 1 / 2 := by decide +kernel

/-- **forced_runs.**  When the scheduler takes a checkable whose `force_next_check` is set, the check is
    dispatched whatever reachability, `enable_active_checks` and the check period say: it moves from idle to
    pending, the flag is cleared and a helper is queued. -/
theorem forced_runs (s : St) (c : Nat) (now : Int) (r e p : Bool)
    (hen : schedEnabled s c now) (hf : (s.chk c).forced = true) :
    ∃ s', step s (.sched c now r e p) = some s' ∧ (s'.chk c).inPending = true ∧ (s'.chk c).inIdle = false ∧
      (s'.chk c).forced = false ∧ (s'.chk c).hq = (s.chk c).hq + 1 ∧ s'.counter = s.counter + 1 := by
  refine ⟨{ s.upd c (s.chk c).pick with counter := s.counter + 1 }, ?_, ?_⟩
  · simp [step, hen, Chk.skips, hf]
  · simp [St.upd, Chk.pick]

/-- and an unforced check is skipped exactly when unreachable, disabled or outside its period -/
theorem skip_iff (f r e p : Bool) : Chk.skips f r e p = true ↔ (f = false ∧ (r = false ∨ e = false ∨ p = false)) := by
  cases f <;> cases r <;> cases e <;> cases p <;> decide

example : ((run (init 1 1) [.setActive 0 true, .setPaused 0 false, .objectHandler 0, .force 0,
    .sched 0 0 false false false]).map fun s => ((s.chk 0).inPending, (s.chk 0).forced)) = some (true, false) := by
  decide

/-- **progress.**  No stuck state: whenever some checkable is idle and due and a slot is free, the scheduler's
    section is enabled for an idle checkable with the smallest key (which is due as well), whatever the
    oracle inputs.  Together with `next_check_window` (every execution and every skip re-arms the key at most
    one interval ahead) this is the model-level content of "keeps being checked". -/
theorem progress (s : St) (now : Int) (c0 : Nat) (h0 : c0 < s.n) (hi : (s.chk c0).inIdle = true)
    (hdue : (s.chk c0).idleKey ≤ now) (hfree : s.counter < s.max) :
    ∃ c, schedEnabled s c now ∧ (s.chk c).idleKey ≤ (s.chk c0).idleKey ∧
      ∀ r e p, (step s (.sched c now r e p)).isSome = true := by
  obtain ⟨c, hc, hic, hle, hmin⟩ := exists_min_idle s s.n (Nat.le_refl _) c0 h0 hi
  have hen : schedEnabled s c now := ⟨hc, hic, by omega, hfree, hmin⟩
  refine ⟨c, hen, hle, ?_⟩
  intro r e p
  simp only [step, hen, if_true]
  split <;> rfl

example : schedEnabled
    { n := 2, chk := fun i => if i = 0 then { inIdle := true, idleKey := 9 } else { inIdle := true, idleKey := 4 },
      counter := 0, max := 1 } 1 5 := by decide

/-- a skipped or executed checkable stays schedulable: after the scheduler's section it is in exactly one set -/
theorem sched_keeps_scheduled (s s' : St) (c : Nat) (now : Int) (r e p : Bool)
    (hs : step s (.sched c now r e p) = some s') :
    ((s'.chk c).inIdle = true ∧ (s'.chk c).idleKey = (s.chk c).nextCheck ∧ (s'.chk c).inPending = (s.chk c).inPending) ∨
    ((s'.chk c).inIdle = false ∧ (s'.chk c).inPending = true) := by
  simp only [step] at hs
  split at hs
  · split at hs <;> simp at hs <;> subst hs
    · left; simp [St.upd, Chk.skip]
    · right; simp [St.upd, Chk.pick]
  · simp at hs

/-- **model_trace_meets_spec** (the safety part of the property as one statement).  For every number of checkables,
    every `max_concurrent_checks ≥ 0` and every interleaving of enabled actions inside the property's event alphabet —
    scheduler sections with arbitrary clocks and oracle inputs, helper sections, check completions, pause / resume /
    activation / deactivation (attribute writes and handler calls at any distance from each other), next-check
    changes, forced checks — the trace an observer takes from the model (membership at every lock release, the
    scheduler's slot and skip decisions, start and end of every command execution, the quiescent snapshot at the end;
    IcingaModel/C04/Trace.lean) satisfies the executable specification `specTrace` that the check also evaluates on the
    real scheduler's observations: never in both sets; once an authority-changing operation (pause, resume, activation,
    deactivation) has completed, at every later lock release a checkable that is not this node's to schedule is in neither
    set and one that is, is in one (until the next such operation begins); no dispatch without a free slot, no forced check skipped, never
    two executions of one checkable at once, never more than `max_concurrent_checks` executions, and at quiescence
    schedulable ⇔ in exactly one set, under its `next_check`.  (`window` observations are covered by
    `next_check_window`; real-time liveness is measured, not proved.) -/
theorem model_trace_meets_spec (n : Nat) (max : Int) (hm : 0 ≤ max) (acts : List Act) (tr : List Ev)
    (hp : ∀ a ∈ acts, a.isPassive = false) (ht : traceOf (init n max) acts = some tr) :
    specTrace { max := max } tr = none :=
  rel_run acts _ _ tr (rel_init n max hm) (fun _ _ hb => by simp [getKnown] at hb) hp ht

/-- the hypotheses are met by a non-trivial run (dispatch, execution, pause while pending, result, finish) and the trace
    it produces is not empty -/
example : (traceOf (init 2 1) [.setActive 1 true, .setPaused 1 false, .objectHandler 1, .force 1,
    .sched 1 5 true false true, .helperGuard 1, .setPaused 1 true, .objectHandler 1, .result 1, .helperDec 1,
    .helperFinish 1]) = some [.opBegin 1, .opBegin 1, .authority 1 true, .loc 1 true false, .slot 0 1,
      .decision 1 true false, .loc 1 false true, .execStart 1, .opBegin 1, .authority 1 false, .loc 1 false false,
      .execEnd 1, .loc 1 false false, .quiescent 0 false false false 0 0, .quiescent 1 false false false 0 0] := by decide

/-- … and by an asynchronous one: the process outlives its helper, exits, and only then delivers its result -/
example : (traceOf (init 1 1) [.setActive 0 true, .setPaused 0 false, .objectHandler 0, .sched 0 0 true true true,
    .helperGuard 0, .spawn 0, .pluginInc 0, .helperDec 0, .helperFinish 0, .procExit 0, .procResult 0]).bind
      (fun tr => some tr.length) = some 11 := by decide

/-- without the alphabet hypothesis the statement is false: the Q-C04 run produces a trace the specification rejects -/
theorem model_trace_counterexample_with_passive_result :
    (traceOf (init 1 4) [.setActive 0 true, .setPaused 0 false, .objectHandler 0, .sched 0 0 true true true,
        .helperGuard 0, .passiveResult 0, .setPaused 0 true, .objectHandler 0, .setPaused 0 false,
        .objectHandler 0, .sched 0 0 true true true, .helperGuard 0]).bind (fun tr => specTrace { max := 4 } tr)
      = some .single_flight := by
  decide

/-! ### the specification predicate is not vacuous -/

example : specTrace { max := 2 } [.execStart 3, .loc 3 false true, .execStart 3] = some .single_flight := by decide
example : specTrace { max := 1 } [.execStart 3, .execStart 4] = some .concurrency_bound := by decide
example : specTrace { max := 1 } [.loc 0 true true] = some .one_location := by decide
example : specTrace { max := 1 } [.slot 1 1] = some .concurrency_slot := by decide
example : specTrace { max := 1 } [.decision 0 true true] = some .forced_runs := by decide
example : specTrace { max := 1 } [.window 10 11 10 5] = some .next_check_window := by decide
example : specTrace { max := 1 } [.quiescent 0 true false false 0 0] = some .quiescent_location := by decide
example : specTrace { max := 1 } [.opBegin 3, .authority 3 false, .loc 3 true false] = some .scheduled_while_not_responsible := by decide
example : specTrace { max := 1 } [.authority 3 true, .loc 3 false false] = some .dropped_from_schedule := by decide
example : specTrace { max := 1 } [.authority 3 false, .opBegin 3, .loc 3 true false, .authority 3 true, .loc 3 true false] = none := by decide
example : specTrace { max := 1 } [.quiescent 0 true true false 3 4] = some .quiescent_key := by decide
example : specTrace { max := 2 } [.execStart 3, .slot 1 2, .execStart 4, .execEnd 3, .execStart 3, .window 10 11 15 5,
    .quiescent 0 true true false 4 4, .quiescent 1 false false false 0 9] = none := by decide

end Icinga.C04

/-
  C13 — helper lemmas for the whole-trace theorem: what the guards yield in terms of the EXECUTABLE
  specification (`belowB`, `entitledZoneB`, `entitledB`), i.e. the direction model ⇒ spec-predicate-true.
  (Lemmas.lean has the direction guards ⇒ `Below`/`Entitled` as propositions.)
-/
import IcingaProofs.C13.Lemmas

namespace Icinga.C13

/-- The spec's walk answers yes wherever the code's walk does, as soon as it has at least as much fuel. -/
theorem belowB_of_isChildOfFuel (f : Forest) :
    ∀ (n k : Nat) (a z : Zone), n ≤ k → isChildOfFuel f n a z = true → belowB f k a z = true := by
  intro n
  induction n with
  | zero => intro k a z _ h; simp [isChildOfFuel] at h
  | succ n ih =>
    intro k a z hk h
    cases k with
    | zero => omega
    | succ k =>
      unfold isChildOfFuel at h
      unfold belowB
      by_cases haz : a = z
      · simp [haz]
      · simp only [haz, if_false] at h
        cases hp : f.parent a with
        | none => simp [hp] at h
        | some p =>
          simp only [hp] at h
          simp only [Bool.or_eq_true, beq_iff_eq, haz, false_or]
          exact ih k p z (by omega) h

theorem belowB_of_isChildOf (f : Forest) (a z : Zone) (h : isChildOf f a z = true) :
    belowB f specDepth a z = true :=
  belowB_of_isChildOfFuel f maxDepth specDepth a z (by decide) h

theorem belowB_refl (f : Forest) (a : Zone) : belowB f specDepth a a = true := by
  simp [specDepth, belowB]

theorem belowB_parent (f : Forest) {a p : Zone} (h : f.parent a = some p) : belowB f specDepth a p = true := by
  simp [specDepth, belowB, h]

theorem objWithinB_of_canAccessObject (f : Forest) (l s : Zone) (oz : Option Zone)
    (h : canAccessObject f l s oz = true) : objWithinB f l s oz = true := by
  unfold canAccessObject at h
  unfold objWithinB
  simp only [Bool.or_eq_true] at h ⊢
  exact h.imp id (belowB_of_isChildOf f _ _)

/-- `entitledZoneB` is sound for the proposition, zone by zone. -/
theorem entitledZoneB_sound (f : Forest) (cls : MClass) (s : Zone) (c : Ctx)
    (h : entitledZoneB f cls s c = true) : EntitledZone f cls s c := by
  cases cls <;> simp only [entitledZoneB, EntitledZone] at h ⊢
  · exact objWithinB_sound f _ _ _ h
  · simp only [Bool.or_eq_true] at h
    exact h.imp (objWithinB_sound f _ _ _) id
  · cases hx : c.execEndpointZone with
    | none => simp [hx] at h
    | some xz => simp only [hx] at h; exact ⟨xz, rfl, belowB_sound f _ _ _ h⟩
  · simpa using h
  · simp only [Bool.and_eq_true] at h; exact ⟨belowB_sound f _ _ _ h.1, h.2⟩
  · simp only [Bool.and_eq_true, Bool.or_eq_true] at h; exact ⟨belowB_sound f _ _ _ h.1, h.2⟩
  · exact belowB_sound f _ _ _ h

/-- The "own zone or above" guard in the spec's terms. -/
theorem guardParent_belowB (f : Forest) {c : Ctx} {ez : Zone} (h : c.endpoint = some ez)
    (hg : guardParent f c = true) : belowB f specDepth c.localZone ez = true := by
  by_cases hne : ez = c.localZone
  · subst hne; exact belowB_refl f _
  · have := fromZone_foreign h hne
    simp only [guardParent, this] at hg
    exact belowB_of_isChildOf f _ _ hg

theorem guardCommandSender_belowB (f : Forest) {c : Ctx} (hg : guardCommandSender f c = true) :
    ∃ ez, c.endpoint = some ez ∧ belowB f specDepth c.localZone ez = true := by
  unfold guardCommandSender at hg
  cases he : c.endpoint with
  | none => simp [he] at hg
  | some ez =>
    refine ⟨ez, rfl, ?_⟩
    simp only [he, Bool.or_eq_true, beq_iff_eq] at hg
    rcases hg with h | h
    · subst h; exact belowB_refl f _
    · exact belowB_parent f h

theorem guardConfigSender_belowB (f : Forest) {c : Ctx} (hg : guardConfigSender f c = true) :
    ∃ ez, c.endpoint = some ez ∧ belowB f specDepth c.localZone ez = true := by
  unfold guardConfigSender at hg
  cases he : c.endpoint with
  | none => simp [he] at hg
  | some ez =>
    simp only [he] at hg
    exact ⟨ez, rfl, belowB_of_isChildOf f _ _ hg⟩

/-- With an endpoint, `entitledB` is `entitledZoneB` for the endpoint's zone. -/
theorem entitledB_of_zone (f : Forest) (m : Method) {c : Ctx} {ez : Zone} (he : c.endpoint = some ez)
    (h : entitledZoneB f m.cls ez c = true) : entitledB f m c = true := by
  obtain ⟨ha, hz⟩ := endpoint_some he
  simp [entitledB, ha, hz, h]

/-- What the three update-class guards yield about the zone `FromZone` holds. -/
theorem update_guard_fromZone (f : Forest) (m : Method) (c : Ctx) (z : Zone)
    (hm : m.cls = .stateUpdate ∨ m.cls = .checkResult ∨ m.cls = .execResult)
    (hfz : c.fromZone = some z) (h : accepts f m c = true) : entitledZoneB f m.cls z c = true := by
  rcases hm with hm | hm | hm
  · have hg : guardAccess f c = true := by
      cases m <;> simp [Method.cls] at hm <;> (simp [accepts] at h; exact h.2)
    rw [hm]
    simp only [guardAccess, hfz] at hg
    exact objWithinB_of_canAccessObject f _ _ _ hg
  · have hg : guardAccess f c = true ∨ c.senderIsCommandEndpoint = true := by
      cases m <;> simp [Method.cls] at hm
      simp [accepts] at h
      exact h.2
    rw [hm]
    simp only [entitledZoneB, Bool.or_eq_true]
    refine hg.imp ?_ id
    intro hg
    simp only [guardAccess, hfz] at hg
    exact objWithinB_of_canAccessObject f _ _ _ hg
  · have hg : guardExecEndpoint f c = true := by
      cases m <;> simp [Method.cls] at hm
      simp [accepts] at h
      exact h.2
    rw [hm]
    unfold guardExecEndpoint at hg
    cases hx : c.execEndpointZone with
    | none => simp [hx] at hg
    | some xz =>
      simp only [hx, hfz] at hg
      simp only [entitledZoneB, hx]
      exact belowB_of_isChildOf f _ _ hg

theorem update_has_endpoint (f : Forest) (m : Method) (c : Ctx)
    (hm : m.cls = .stateUpdate ∨ m.cls = .checkResult ∨ m.cls = .execResult)
    (h : accepts f m c = true) : c.endpoint.isSome = true := by
  cases m <;> simp [Method.cls] at hm <;> simp [accepts] at h <;> first | exact h.1.1 | exact h.1.1.1

end Icinga.C13

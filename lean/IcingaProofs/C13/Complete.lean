/-
  C13 — helper lemmas for the COMPLETENESS direction: in a zone forest that `Zone::OnAllConfigLoaded` admits (every
  zone has a bounded number of proper ancestors, zone.cpp:24-46) the fuelled walk of `Zone::IsChildOf` finds every
  chain of parents, "above" and "below" exclude each other, and the guards are exactly the property's relations.
-/
import IcingaProofs.C13.Lemmas

namespace Icinga.C13

/-- **A forest of a configuration that loaded.**  `Zone::OnAllConfigLoaded` (zone.cpp:24-46) follows the parent names
    of every zone and throws when it meets more than `bound` proper ancestors — in particular on every cycle.  So the
    number of proper ancestors is a rank that strictly decreases towards the parent and never exceeds `bound`. -/
def Loaded (f : Forest) (bound : Nat) : Prop :=
  ∃ d : Zone → Nat, (∀ a p, f.parent a = some p → d p < d a) ∧ ∀ a, d a ≤ bound

theorem Below.rank_le {f : Forest} {d : Zone → Nat} (hd : ∀ a p, f.parent a = some p → d p < d a)
    {a z : Zone} (h : Below f a z) : d z ≤ d a := by
  induction h with
  | refl _ => exact Nat.le_refl _
  | step hp _ ih => have := hd _ _ hp; omega

/-- In a loaded forest nobody is above and below somebody else at once. -/
theorem Below.antisymm_of_rank {f : Forest} {d : Zone → Nat} (hd : ∀ a p, f.parent a = some p → d p < d a)
    {a z : Zone} (h1 : Below f a z) (h2 : Below f z a) : a = z := by
  cases h1 with
  | refl _ => rfl
  | step hp hb =>
    have h3 := hd _ _ hp
    have h4 := Below.rank_le hd hb
    have h5 := Below.rank_le hd h2
    omega

theorem isChildOfFuel_complete {f : Forest} {d : Zone → Nat} (hd : ∀ a p, f.parent a = some p → d p < d a)
    {a z : Zone} (h : Below f a z) : ∀ n, d a - d z < n → isChildOfFuel f n a z = true := by
  induction h with
  | refl a =>
    intro n hn
    cases n with
    | zero => omega
    | succ n => simp [isChildOfFuel]
  | step hp hb ih =>
    rename_i a p z
    intro n hn
    cases n with
    | zero => omega
    | succ n =>
      unfold isChildOfFuel
      by_cases haz : a = z
      · simp [haz]
      · simp only [haz, if_false, hp]
        apply ih
        have h3 := hd _ _ hp
        have h4 := Below.rank_le hd hb
        omega

/-- `Zone::IsChildOf` is EXACTLY "is the zone or lies below it" in every forest whose chains the walk can follow to
    the end. -/
theorem isChildOf_iff_below_of_loaded {f : Forest} {bound : Nat} (hl : Loaded f bound) (hb : bound < maxDepth)
    (a z : Zone) : isChildOf f a z = true ↔ Below f a z := by
  constructor
  · exact isChildOf_sound f a z
  · intro h
    obtain ⟨d, hd, hle⟩ := hl
    apply isChildOfFuel_complete hd h
    have := hle a
    omega

theorem canAccessObject_iff_of_loaded {f : Forest} {bound : Nat} (hl : Loaded f bound) (hb : bound < maxDepth)
    (l s : Zone) (oz : Option Zone) : canAccessObject f l s oz = true ↔ ObjWithin f l s oz := by
  unfold canAccessObject ObjWithin
  simp only [Bool.or_eq_true, isChildOf_iff_below_of_loaded hl hb]
  exact Iff.rfl

theorem Below.antisymm_of_loaded {f : Forest} {bound : Nat} (hl : Loaded f bound) {a z : Zone}
    (h1 : Below f a z) (h2 : Below f z a) : a = z := by
  obtain ⟨d, hd, _⟩ := hl
  exact Below.antisymm_of_rank hd h1 h2

end Icinga.C13

/-
  C13 — helper lemmas: the fuelled walks are sound for the closure `Below`, `Below` is transitive,
  what the guards yield for the sender's zone.
-/
import IcingaModel.C13.Model
import IcingaModel.C13.Spec

namespace Icinga.C13

theorem Below.trans {f : Forest} {a b c : Zone} (h1 : Below f a b) (h2 : Below f b c) : Below f a c := by
  induction h1 with
  | refl _ => exact h2
  | step hp _ ih => exact Below.step hp (ih h2)

/-- `Zone::IsChildOf` answering yes is a real chain of parents — whatever the fuel, whatever the forest. -/
theorem isChildOfFuel_sound (f : Forest) : ∀ (n : Nat) (a z : Zone), isChildOfFuel f n a z = true → Below f a z := by
  intro n
  induction n with
  | zero => intro a z h; simp [isChildOfFuel] at h
  | succ n ih =>
    intro a z h
    unfold isChildOfFuel at h
    by_cases haz : a = z
    · subst haz; exact Below.refl a
    · simp only [haz, if_false] at h
      cases hp : f.parent a with
      | none => simp [hp] at h
      | some p =>
        simp only [hp] at h
        exact Below.step hp (ih p z h)

theorem isChildOf_sound (f : Forest) (a z : Zone) (h : isChildOf f a z = true) : Below f a z :=
  isChildOfFuel_sound f maxDepth a z h

theorem belowB_sound (f : Forest) : ∀ (n : Nat) (a z : Zone), belowB f n a z = true → Below f a z := by
  intro n
  induction n with
  | zero => intro a z h; simp [belowB] at h
  | succ n ih =>
    intro a z h
    unfold belowB at h
    by_cases haz : a = z
    · subst haz; exact Below.refl a
    · cases hp : f.parent a with
      | none => simp [hp, haz] at h
      | some p =>
        simp only [hp, Bool.or_eq_true, beq_iff_eq, haz, false_or] at h
        exact Below.step hp (ih p z h)

theorem canAccessObject_sound (f : Forest) (l s : Zone) (oz : Option Zone)
    (h : canAccessObject f l s oz = true) : ObjWithin f l s oz := by
  unfold canAccessObject at h
  unfold ObjWithin
  simp only [Bool.or_eq_true] at h
  rcases h with h | h
  · exact Or.inl h
  · exact Or.inr (isChildOf_sound f _ _ h)

theorem objWithinB_sound (f : Forest) (l s : Zone) (oz : Option Zone)
    (h : objWithinB f l s oz = true) : ObjWithin f l s oz := by
  unfold objWithinB at h
  unfold ObjWithin
  simp only [Bool.or_eq_true] at h
  rcases h with h | h
  · exact Or.inl h
  · exact Or.inr (belowB_sound f _ _ _ h)

/-- An object the receiver's zone may access is accessible from every zone above the receiver. -/
theorem ObjWithin.mono {f : Forest} {l s t : Zone} {oz : Option Zone}
    (h : ObjWithin f l s oz) (hst : Below f s t) : ObjWithin f l t oz := by
  unfold ObjWithin at *
  rcases h with h | h
  · exact Or.inl h
  · exact Or.inr (h.trans hst)

/-- A connection has an endpoint exactly when it is authenticated and its identity is configured. -/
theorem endpoint_some {c : Ctx} {ez : Zone} (h : c.endpoint = some ez) :
    c.authenticated = true ∧ c.endpointZone = some ez := by
  unfold Ctx.endpoint at h
  by_cases ha : c.authenticated = true
  · simp [ha] at h; exact ⟨ha, h⟩
  · simp [ha] at h

theorem endpoint_isSome {c : Ctx} (h : c.endpoint.isSome = true) : ∃ ez, c.endpoint = some ez := by
  cases he : c.endpoint with
  | none => simp [he] at h
  | some ez => exact ⟨ez, rfl⟩

/-- `FromZone` of a sender from another zone is that sender's zone (jsonrpcconnection.cpp:320-321). -/
theorem fromZone_foreign {c : Ctx} {ez : Zone} (h : c.endpoint = some ez) (hne : ez ≠ c.localZone) :
    c.fromZone = some ez := by
  simp [Ctx.fromZone, fromZone, h, hne]

/-- `FromZone` of a sender from the receiver's own zone is whatever the message claims
    (jsonrpcconnection.cpp:322-323). -/
theorem fromZone_own {c : Ctx} (h : c.endpoint = some c.localZone) : c.fromZone = c.originZone := by
  simp [Ctx.fromZone, fromZone, h]

/-- No endpoint, no `FromZone` (jsonrpcconnection.cpp:319). -/
theorem fromZone_anonymous {c : Ctx} (h : c.endpoint = none) : c.fromZone = none := by
  simp [Ctx.fromZone, fromZone, h]

/-- The "own zone or above" guard, read for the sender's zone. -/
theorem guardParent_sender (f : Forest) {c : Ctx} {ez : Zone} (h : c.endpoint = some ez)
    (hg : guardParent f c = true) : Below f c.localZone ez := by
  by_cases hne : ez = c.localZone
  · subst hne; exact Below.refl _
  · have := fromZone_foreign h hne
    simp only [guardParent, this] at hg
    exact isChildOf_sound f _ _ hg

/-- The "own zone only" guard, read for the sender's zone. -/
theorem guardLocal_sender {c : Ctx} {ez : Zone} (h : c.endpoint = some ez)
    (hg : guardLocal c = true) : ez = c.localZone := by
  by_cases hne : ez = c.localZone
  · exact hne
  · have := fromZone_foreign h hne
    simp only [guardLocal, this, beq_iff_eq] at hg
    exact hg

/-- The object-access guard, read for a sender from another zone. -/
theorem guardAccess_foreign (f : Forest) {c : Ctx} {ez : Zone} (h : c.endpoint = some ez)
    (hne : ez ≠ c.localZone) (hg : guardAccess f c = true) : ObjWithin f c.localZone ez c.objZone := by
  have := fromZone_foreign h hne
  simp only [guardAccess, this] at hg
  exact canAccessObject_sound f _ _ _ hg

theorem guardCommandSender_sender (f : Forest) {c : Ctx} (hg : guardCommandSender f c = true) :
    ∃ ez, c.endpoint = some ez ∧ Below f c.localZone ez := by
  unfold guardCommandSender at hg
  cases he : c.endpoint with
  | none => simp [he] at hg
  | some ez =>
    refine ⟨ez, rfl, ?_⟩
    simp only [he, Bool.or_eq_true, beq_iff_eq] at hg
    rcases hg with h | h
    · subst h; exact Below.refl _
    · exact Below.step h (Below.refl _)

theorem guardConfigSender_sender (f : Forest) {c : Ctx} (hg : guardConfigSender f c = true) :
    ∃ ez, c.endpoint = some ez ∧ Below f c.localZone ez := by
  unfold guardConfigSender at hg
  cases he : c.endpoint with
  | none => simp [he] at hg
  | some ez =>
    simp only [he] at hg
    exact ⟨ez, rfl, isChildOf_sound f _ _ hg⟩

end Icinga.C13

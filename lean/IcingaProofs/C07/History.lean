/-
  C07 — lemmas for the whole-history theorem (`history_meets_spec` in IcingaProofs/C07.lean).
-/
import IcingaModel.C07.History
import IcingaProofs.C07.Cycle

namespace Icinga.C07

/-! ### the edge relation only depends on (child, parent) pairs and on `isService`/`host` -/

theorem succs_sub {g g' : Graph}
    (hn : ∀ v, (g'.node v).isService = (g.node v).isService ∧ (g'.node v).host = (g.node v).host)
    (hd : ∀ d' ∈ g'.deps, ∃ d ∈ g.deps, d.child = d'.child ∧ d.parent = d'.parent) :
    ∀ v w, w ∈ succs g' v → w ∈ succs g v := by
  intro v w h
  rcases mem_succs.1 h with ⟨h1, h2⟩ | ⟨d', m1, m2, m3⟩
  · exact mem_succs.2 (Or.inl ⟨(hn v).1 ▸ h1, (hn v).2 ▸ h2⟩)
  · obtain ⟨d, md, e1, e2⟩ := hd d' m1
    exact mem_succs.2 (Or.inr ⟨d, md, e1.trans m2, e2.trans m3⟩)

theorem rankedS_sub {g g' : Graph} {r : Nat → Nat} (hr : RankedS (succs g) r)
    (hs : ∀ v w, w ∈ succs g' v → w ∈ succs g v) : RankedS (succs g') r :=
  fun v w h => hr v w (hs v w h)

/-- (the core of `cycle_check_sound`) an accepted batch leaves registered graph + batch ranked. -/
theorem accepted_ranked (g : Graph) (new : List Dep) (bound : Nat) (rg : Nat → Nat) (hrg : RankedS (succs g) rg)
    (h : (cycleCheck g new bound).accepted = true) : ∃ r, RankedS (succs (withNew g new)) r := by
  cases hres : cycleCheck g new bound with
  | cycle => rw [hres] at h; cases h
  | fuelOut => rw [hres] at h; cases h
  | ok fin =>
    obtain ⟨ht, hp⟩ := cycleCheck_ok_topSorted g new bound fin hres
    exact ⟨_, combinedRank_ranked g new fin rg hrg ht hp⟩

theorem eff_child (c : Cfg) (d : Dep) : (c.eff d).child = d.child := rfl
theorem eff_parent (c : Cfg) (d : Dep) : (c.eff d).parent = d.parent := rfl

/-- the invariant of a history: the reverse-dependency container mirrors the live set, and the
    registered graph (with the implicit service → host edges) is acyclic. -/
structure HInv (hs : HState) : Prop where
  rev : hs.rev = hs.cfg.live.map (fun x => (x.2.parent, x))
  acyclic : ∃ rg, RankedS (succs hs.cfg.graph) rg

theorem mem_graph_deps {c : Cfg} {d : Dep} : d ∈ c.graph.deps ↔ ∃ x ∈ c.live, c.eff x.2 = d := by
  simp [Cfg.graph]

/-- the configuration after a step is what the recorded observation says. -/
theorem hstep_cfg (n : Nat) (hs : HState) (op : HOp) :
    (hstep n hs op).1.cfg = hs.cfg.next (hstep n hs op).2 := by
  cases op with
  | load batch =>
    simp only [hstep]
    cases h : (runtimeAdd hs.cfg.graph (batch.map (·.2)) n).2 <;> simp [Cfg.next]
  | remove id => rfl
  | setState v ck r h => rfl
  | setPeriod p cl => rfl
  | query => rfl
  | edges => rfl

theorem hstep_inv (n : Nat) (hs : HState) (op : HOp) (hi : HInv hs) : HInv (hstep n hs op).1 := by
  obtain ⟨hrev, rg, hrg⟩ := hi
  cases op with
  | load batch =>
    simp only [hstep]
    cases hacc : (runtimeAdd hs.cfg.graph (batch.map (·.2)) n).2 with
    | false => simpa using ⟨hrev, rg, hrg⟩
    | true =>
      have hcc : (cycleCheck hs.cfg.graph (batch.map (·.2)) n).accepted = true := by
        unfold runtimeAdd at hacc
        cases hc : (cycleCheck hs.cfg.graph (batch.map (·.2)) n).accepted with
        | true => rfl
        | false => simp [hc] at hacc
      obtain ⟨r, hr⟩ := accepted_ranked hs.cfg.graph (batch.map (·.2)) n rg hrg hcc
      refine ⟨?_, r, rankedS_sub hr (succs_sub (fun v => ⟨rfl, rfl⟩) ?_)⟩
      · simp [Cfg.next, hrev]
      · intro d' hd'
        obtain ⟨x, hx, rfl⟩ := mem_graph_deps.1 hd'
        simp only [Cfg.next, if_true, List.mem_append] at hx
        rcases hx with hx | hx
        · exact ⟨hs.cfg.eff x.2, List.mem_append.2 (Or.inl (mem_graph_deps.2 ⟨x, hx, rfl⟩)), rfl, rfl⟩
        · exact ⟨x.2, List.mem_append.2 (Or.inr (List.mem_map.2 ⟨x, hx, rfl⟩)), rfl, rfl⟩
  | remove id =>
    refine ⟨?_, rg, rankedS_sub hrg (succs_sub (fun v => ⟨rfl, rfl⟩) ?_)⟩
    · simp only [hstep, Cfg.next, hrev, List.filter_map]
      rfl
    · intro d' hd'
      obtain ⟨x, hx, rfl⟩ := mem_graph_deps.1 hd'
      simp only [hstep, Cfg.next, List.mem_filter] at hx
      exact ⟨hs.cfg.eff x.2, mem_graph_deps.2 ⟨x, hx.1, rfl⟩, rfl, rfl⟩
  | setState v ck r h =>
    refine ⟨hrev, rg, rankedS_sub hrg (succs_sub ?_ ?_)⟩
    · intro w
      simp only [hstep, Cfg.next, Cfg.graph]
      by_cases hw : w = v <;> simp [hw]
    · intro d' hd'
      obtain ⟨x, hx, rfl⟩ := mem_graph_deps.1 hd'
      exact ⟨hs.cfg.eff x.2, mem_graph_deps.2 ⟨x, hx, rfl⟩, rfl, rfl⟩
  | setPeriod p cl =>
    refine ⟨hrev, rg, rankedS_sub hrg (succs_sub (fun v => ⟨rfl, rfl⟩) ?_)⟩
    intro d' hd'
    obtain ⟨x, hx, rfl⟩ := mem_graph_deps.1 hd'
    exact ⟨hs.cfg.eff x.2, mem_graph_deps.2 ⟨x, hx, rfl⟩, rfl, rfl⟩
  | query => exact ⟨hrev, rg, hrg⟩
  | edges => exact ⟨hrev, rg, hrg⟩

theorem hstep_load_obs (n : Nat) (hs : HState) (batch : List (Nat × Dep)) :
    (hstep n hs (.load batch)).2 =
      HObs.load batch (runtimeAdd hs.cfg.graph (batch.map (·.2)) n).2
        (fun v => (depsOf (runtimeAdd hs.cfg.graph (batch.map (·.2)) n).1 v).length) := by
  simp only [hstep]

/-- the empty configuration over well-formed checkables satisfies the invariant. -/
theorem hinv_init (node : Nat → Node) (hw : WellFormed { node := node, deps := [] }) :
    HInv ({ cfg := { node := node } } : HState) := by
  refine ⟨rfl, (fun v => if (node v).isService then 1 else 0), ?_⟩
  exact implicit_ranked { node := node, deps := [] } hw rfl

/-! ### a passed `queryInScope` is a ranking certificate with depth ≤ 256 everywhere -/

theorem maxChildRank_le (rank : Nat → Nat) (b : Nat) :
    ∀ (ds : List Dep), (∀ d ∈ ds, rank d.child ≤ b) → maxChildRank rank ds ≤ b := by
  intro ds
  induction ds with
  | nil => intro _; simp [maxChildRank]
  | cons x xs ih =>
    intro h
    simp only [maxChildRank]
    exact Nat.max_le.2 ⟨h x (List.mem_cons_self ..), ih (fun d hd => h d (List.mem_cons_of_mem _ hd))⟩

theorem inScope_certificate (n : Nat) (g : Graph) (h : queryInScope n g = true) :
    ∃ rank, Ranked g rank ∧ ∀ v, rank v ≤ 256 := by
  simp only [queryInScope, rankOk, Bool.and_eq_true, List.all_eq_true, decide_eq_true_eq, List.mem_range] at h
  obtain ⟨⟨h1, h2⟩, h3⟩ := h
  let r : Nat → Nat := fun v => (rankArr n g)[v]?.getD 0
  have hr : Ranked g r := fun d hd => h1 d hd
  refine ⟨_, ranked_capped hr, fun v => ?_⟩
  have : maxChildRank r g.deps ≤ 256 := maxChildRank_le r 256 g.deps (fun d hd => h2 d.child (h3 d hd))
  show min (r v) _ ≤ 256
  omega

/-! ### the model's edge observations are the specification's -/

theorem ascInsert_eq : ∀ (k : Nat) (l : List Nat), insertNat k l = ascInsert k l := by
  intro k l
  induction l with
  | nil => rfl
  | cons x xs ih => simp only [insertNat, ascInsert, ih]

theorem sortedSet_eq (l : List Nat) : sortedSet l = ascSet l := by
  unfold sortedSet ascSet
  induction l with
  | nil => rfl
  | cons x xs ih => simp only [List.foldr_cons, ih, ascInsert_eq]

theorem model_edges_meet_spec (n : Nat) (hs : HState) (hi : HInv hs) :
    specEdges n hs.cfg.live hs.parents hs.children hs.reverse = none := by
  have hp : ∀ v, hs.parents v = parentsSpec hs.cfg.live v := by
    intro v
    simp only [HState.parents, parentsSpec, sortedSet_eq, depsOf, Cfg.graph, List.filter_map, List.map_map]
    rfl
  have hc : ∀ v, hs.children v = childrenSpec hs.cfg.live v := by
    intro v
    simp only [HState.children, childrenSpec, sortedSet_eq, hi.rev, List.filter_map, List.map_map]
    rfl
  have hrv : ∀ v, hs.reverse v = reverseSpec hs.cfg.live v := by
    intro v
    simp only [HState.reverse, reverseSpec, sortedSet_eq, hi.rev, List.filter_map, List.map_map]
    rfl
  simp [specEdges, hp, hc, hrv]

end Icinga.C07
